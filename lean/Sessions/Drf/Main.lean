import Sessions.Drf.Basic
namespace Drf

theorem run_append (s : LS) (a b : List Ev) : run s (a ++ b) = (run s a).bind (fun s' => run s' b) := by
  induction a generalizing s with
  | nil => simp [run]
  | cons e a ih =>
    simp only [List.cons_append, run]
    cases next s e with
    | none => simp
    | some s1 => simp [ih]

theorem run_LI {s s' : LS} {q : List Ev} (h : run s q = some s') (hl : LI s) : LI s' := by
  induction q generalizing s with
  | nil => simp [run] at h; subst h; exact hl
  | cons e q ih =>
    simp only [run] at h
    cases hnx : next s e with
    | none => simp [hnx] at h
    | some s1 => simp only [hnx] at h; exact ih h (next_LI hnx hl)

theorem LI_init : LI {} := by intro h; rfl

/-- what the lock discipline demands at an access. -/
def guarded (s : LS) : Ev → Prop
  | .wr t => s.w = some t
  | .rd t => holdsAny s t
  | _ => True

/-- every access in the trace happens while its thread holds the lock in a sufficient mode. -/
def Disciplined (tr : List Ev) : Prop :=
  ∀ p e rest s, tr = p ++ e :: rest → run {} p = some s → guarded s e

def accessBy (e : Ev) (t : Nat) : Prop := e = .wr t ∨ e = .rd t

/-- Lock discipline ⇒ any two conflicting accesses by different threads are separated by a release by
the first thread and a later acquire by the second (which is a happens-before edge in the Go memory model). -/
theorem conflict_separated (p q rest : List Ev) (e1 e2 : Ev) (t1 t2 : Nat) (sf : LS)
    (hne : t1 ≠ t2) (h1 : accessBy e1 t1) (h2 : accessBy e2 t2) (hconf : e1 = .wr t1 ∨ e2 = .wr t2)
    (hrun : run {} (p ++ e1 :: (q ++ e2 :: rest)) = some sf)
    (hd : Disciplined (p ++ e1 :: (q ++ e2 :: rest))) : HasRelThenAcq t1 t2 q := by
  -- split the run
  rw [run_append] at hrun
  cases hp : run {} p with
  | none => simp [hp] at hrun
  | some s1 =>
    simp only [hp, Option.bind_some, run] at hrun
    have hg1 := hd p e1 (q ++ e2 :: rest) s1 rfl hp
    have hl1 : LI s1 := run_LI hp LI_init
    -- accesses do not change the lock state
    have hn1 : next s1 e1 = some s1 := by rcases h1 with h | h <;> subst h <;> rfl
    simp only [hn1] at hrun
    rw [run_append] at hrun
    cases hq : run s1 q with
    | none => simp [hq] at hrun
    | some s2 =>
      have hp2 : run {} (p ++ e1 :: q) = some s2 := by
        rw [run_append, hp]; simp [run, hn1, hq]
      have hg2 := hd (p ++ e1 :: q) e2 rest s2 (by simp) hp2
      rcases hconf with hc | hc
      · -- first access is a write: t1 is the writer at s1
        subst hc
        have hw : s1.w = some t1 := hg1
        have hh2 : holdsAny s2 t2 := by
          rcases h2 with h | h <;> subst h
          · exact Or.inl hg2
          · exact hg2
        exact writer_blocks t1 t2 hne q s1 s2 hw hl1 hq hh2
      · -- second access is a write: t2 is the writer at s2
        subst hc
        have hw2 : s2.w = some t2 := hg2
        have hh1 : holdsAny s1 t1 := by
          rcases h1 with h | h <;> subst h
          · exact Or.inl hg1
          · exact hg1
        rcases hh1 with hw1 | hr1
        · exact writer_blocks t1 t2 hne q s1 s2 hw1 hl1 hq (Or.inl hw2)
        · exact reader_blocks_writer t1 t2 hne q s1 s2 hr1 hl1 hq hw2

/-- non-vacuity: a disciplined, well-formed trace with a conflicting pair. -/
example : run {} [.acq 1 .W, .wr 1, .rel 1 .W, .acq 2 .R, .rd 2, .rel 2 .R] ≠ none := by decide

end Drf
