/-! Spike: lock discipline ⇒ every pair of conflicting accesses is separated by a release of the
    first thread and a later acquire of the second (one RW lock, one location; the general case is a projection). -/
namespace Drf

inductive Mode where | R | W
deriving DecidableEq, Repr

inductive Ev where
  | acq (t : Nat) (m : Mode)
  | rel (t : Nat) (m : Mode)
  | rd (t : Nat)
  | wr (t : Nat)
deriving DecidableEq, Repr

structure LS where
  w : Option Nat := none
  r : List Nat := []

/-- sync.RWMutex as a state machine; `none` = the event is not enabled (it would block / is misuse). -/
def next (s : LS) : Ev → Option LS
  | .acq t .W => if s.w = none ∧ s.r = [] then some { s with w := some t } else none
  | .acq t .R => if s.w = none then some { s with r := t :: s.r } else none
  | .rel t .W => if s.w = some t then some { s with w := none } else none
  | .rel t .R => if t ∈ s.r then some { s with r := s.r.erase t } else none
  | .rd _ => some s
  | .wr _ => some s

def run (s : LS) : List Ev → Option LS
  | [] => some s
  | e :: q => match next s e with
    | none => none
    | some s' => run s' q

def holdsAny (s : LS) (t : Nat) : Prop := s.w = some t ∨ t ∈ s.r
/-- lock invariant: a writer excludes readers. -/
def LI (s : LS) : Prop := s.w ≠ none → s.r = []

theorem next_LI {s s' : LS} {e : Ev} (h : next s e = some s') (hl : LI s) : LI s' := by
  unfold LI at *
  cases e with
  | acq t m =>
    cases m <;> simp only [next] at h <;> split at h <;> simp at h <;> subst h <;> simp_all
  | rel t m =>
    cases m <;> simp only [next] at h <;> split at h <;> simp at h <;> subst h <;> simp_all
  | rd t => simp [next] at h; subst h; exact hl
  | wr t => simp [next] at h; subst h; exact hl

def HasAcq (t : Nat) (q : List Ev) : Prop := ∃ q1 m q3, q = q1 ++ Ev.acq t m :: q3
def HasRelThenAcq (t1 t2 : Nat) (q : List Ev) : Prop :=
  ∃ q1 m1 q2 m2 q3, q = q1 ++ Ev.rel t1 m1 :: (q2 ++ Ev.acq t2 m2 :: q3)

theorem HasAcq.cons {t : Nat} {q : List Ev} (e : Ev) (h : HasAcq t q) : HasAcq t (e :: q) := by
  obtain ⟨q1, m, q3, rfl⟩ := h; exact ⟨e :: q1, m, q3, rfl⟩
theorem HasRelThenAcq.cons {t1 t2 : Nat} {q : List Ev} (e : Ev) (h : HasRelThenAcq t1 t2 q) :
    HasRelThenAcq t1 t2 (e :: q) := by
  obtain ⟨q1, m1, q2, m2, q3, rfl⟩ := h; exact ⟨e :: q1, m1, q2, m2, q3, rfl⟩

/-- holding can only begin with an acquire. -/
theorem acquire_needed (t : Nat) (q : List Ev) (s s' : LS) (hn : ¬ holdsAny s t) (hr : run s q = some s')
    (hh : holdsAny s' t) : HasAcq t q := by
  induction q generalizing s with
  | nil => simp [run] at hr; subst hr; exact absurd hh hn
  | cons e q ih =>
    simp only [run] at hr
    cases hne : next s e with
    | none => simp [hne] at hr
    | some s1 =>
      simp only [hne] at hr
      by_cases hacq : ∃ m, e = Ev.acq t m
      · obtain ⟨m, rfl⟩ := hacq; exact ⟨[], m, q, rfl⟩
      · apply HasAcq.cons
        apply ih s1 _ hr
        -- a non-acquire-by-t event cannot make t a holder
        intro hh1
        apply hn
        unfold holdsAny at *
        cases e with
        | acq t' m =>
          have htt : t' ≠ t := fun h => hacq ⟨m, by rw [h]⟩
          cases m <;> simp only [next] at hne <;> split at hne <;> simp at hne <;> subst hne <;> simp_all
        | rel t' m =>
          cases m <;> simp only [next] at hne <;> split at hne <;> simp at hne <;> subst hne
          · rcases hh1 with h | h
            · exact Or.inl h
            · exact Or.inr (List.mem_of_mem_erase h)
          · simp_all
        | rd t' => simp [next] at hne; subst hne; exact hh1
        | wr t' => simp [next] at hne; subst hne; exact hh1

/-- becoming the writer needs a write-acquire. -/
theorem wacquire_needed (t : Nat) (q : List Ev) (s s' : LS) (hn : s.w ≠ some t) (hr : run s q = some s')
    (hh : s'.w = some t) : HasAcq t q := by
  induction q generalizing s with
  | nil => simp [run] at hr; subst hr; exact absurd hh hn
  | cons e q ih =>
    simp only [run] at hr
    cases hne : next s e with
    | none => simp [hne] at hr
    | some s1 =>
      simp only [hne] at hr
      by_cases hacq : ∃ m, e = Ev.acq t m
      · obtain ⟨m, rfl⟩ := hacq; exact ⟨[], m, q, rfl⟩
      · apply HasAcq.cons
        apply ih s1 _ hr
        intro hh1
        apply hn
        cases e with
        | acq t' m =>
          have htt : t' ≠ t := fun h => hacq ⟨m, by rw [h]⟩
          cases m <;> simp only [next] at hne <;> split at hne <;> simp at hne <;> subst hne <;> simp_all
        | rel t' m =>
          cases m <;> simp only [next] at hne <;> split at hne <;> simp at hne <;> subst hne <;> simp_all
        | rd t' => simp [next] at hne; subst hne; exact hh1
        | wr t' => simp [next] at hne; subst hne; exact hh1

/-- while `t1` holds the write lock nobody else can become a holder before `t1` releases. -/
theorem writer_blocks (t1 t2 : Nat) (hne : t1 ≠ t2) (q : List Ev) (s s' : LS) (hw : s.w = some t1) (hl : LI s)
    (hr : run s q = some s') (hh : holdsAny s' t2) : HasRelThenAcq t1 t2 q := by
  induction q generalizing s with
  | nil =>
    simp [run] at hr; subst hr
    have hr0 : s.r = [] := hl (by simp [hw])
    unfold holdsAny at hh; rcases hh with h | h
    · rw [hw] at h; simp at h; exact absurd h hne
    · rw [hr0] at h; simp at h
  | cons e q ih =>
    simp only [run] at hr
    cases hnx : next s e with
    | none => simp [hnx] at hr
    | some s1 =>
      simp only [hnx] at hr
      have hr0 : s.r = [] := hl (by simp [hw])
      have hl1 := next_LI hnx hl
      cases e with
      | acq t m => cases m <;> simp [next, hw] at hnx
      | rel t m =>
        cases m
        · simp [next, hr0] at hnx
        · simp only [next] at hnx
          split at hnx
          · rename_i hwt
            simp at hnx; subst hnx
            rw [hw] at hwt; simp at hwt; subst hwt
            -- t1 released; t2 holds nothing now, so it must acquire later
            have hn2 : ¬ holdsAny { s with w := none } t2 := by
              unfold holdsAny; simp [hr0]
            obtain ⟨q1, m2, q3, rfl⟩ := acquire_needed t2 q _ s' hn2 hr hh
            exact ⟨[], Mode.W, q1, m2, q3, rfl⟩
          · simp at hnx
      | rd t => simp [next] at hnx; subst hnx; exact (ih s hw hl hr).cons _
      | wr t => simp [next] at hnx; subst hnx; exact (ih s hw hl hr).cons _

/-- while `t1` holds a read lock nobody can take the write lock before `t1` releases. -/
theorem reader_blocks_writer (t1 t2 : Nat) (hne : t1 ≠ t2) (q : List Ev) (s s' : LS) (hm : t1 ∈ s.r) (hl : LI s)
    (hr : run s q = some s') (hh : s'.w = some t2) : HasRelThenAcq t1 t2 q := by
  induction q generalizing s with
  | nil =>
    simp [run] at hr; subst hr
    have : s.r = [] := hl (by simp [hh])
    rw [this] at hm; simp at hm
  | cons e q ih =>
    simp only [run] at hr
    cases hnx : next s e with
    | none => simp [hnx] at hr
    | some s1 =>
      simp only [hnx] at hr
      have hl1 := next_LI hnx hl
      have hw0 : s.w = none := by
        cases hsw : s.w with
        | none => rfl
        | some t => have := hl (by simp [hsw]); rw [this] at hm; simp at hm
      cases e with
      | acq t m =>
        cases m
        · simp only [next, hw0] at hnx; simp at hnx; subst hnx
          exact (ih _ (List.mem_cons_of_mem _ hm) hl1 hr).cons _
        · have : s.r ≠ [] := fun h => by rw [h] at hm; simp at hm
          simp [next, hw0, this] at hnx
      | rel t m =>
        cases m
        · simp only [next] at hnx
          split at hnx
          · simp at hnx; subst hnx
            by_cases hstill : t1 ∈ s.r.erase t
            · exact (ih _ hstill hl1 hr).cons _
            · -- t1 has just left the reader set
              have htt : t = t1 := by
                by_cases h : t = t1
                · exact h
                · exact absurd ((List.mem_erase_of_ne (Ne.symm h)).2 hm) hstill
              subst htt
              have hn2 : ({ s with r := s.r.erase t } : LS).w ≠ some t2 := by simp [hw0]
              obtain ⟨q1, m2, q3, rfl⟩ := wacquire_needed t2 q _ s' hn2 hr hh
              exact ⟨[], Mode.R, q1, m2, q3, rfl⟩
          · simp at hnx
        · simp [next, hw0] at hnx
      | rd t => simp [next] at hnx; subst hnx; exact (ih s hm hl hr).cons _
      | wr t => simp [next] at hnx; subst hnx; exact (ih s hm hl hr).cons _

end Drf
