import Sessions.FactsPinsBase
/-! Source pin: see FactsPinsBase.lean. -/
namespace FactsPins

/-- `Sessions/Password` was transcribed from exactly this text -/
theorem password_source_matches_model : pinned ["ReasonablePassword", "initPasswords"] = true := by decide

end FactsPins
