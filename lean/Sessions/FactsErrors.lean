import Sessions.Generated.Facts
/-!
# Error handling read from the source (C11)

`Facts.errorSites` lists every call whose result carries an error from the persistence layer (directly or
through the cache) and what its caller does with it. The only sites allowed to drop the error are the ones the
model also ignores (and for which `Sx.Loc.start_ok_saveFail_flush`, `hgetdel_saved` etc. say what that costs):
flushes during compaction, `PurgeSessions`, the clean-up goroutine, the inner `LogOut` of a non-exclusive
`LogIn` (the session is saved again by the next statement), and `GetAndDelete` (no error result).
-/
namespace FactsErrors

/-- (function, callee) pairs whose error may be dropped -/
def tolerated : List (String × String) := [
  ("PurgeSessions", "Persistence.SaveSession"),
  ("Session.GetAndDelete", "Persistence.SaveSession"),
  ("Session.LogIn", "s.LogOut"),
  ("Session.RegenerateID", "sessions.Delete"),     -- inside `go func() { time.Sleep(grace); sessions.Delete(oldID) }()`
  ("cache.Get", "c.compact"),
  ("cache.Set", "c.compact")]

def propagates (s : String × Nat × String × String) : Bool :=
  s.2.2.2 == "checked" || s.2.2.2 == "returned" || tolerated.contains (s.1, s.2.2.1)

/-- every error of the persistence layer is tested-and-returned, or returned as is, at every call site of the package,
except at the tolerated sites -/
theorem errors_propagate : Facts.errorSites.all propagates = true := by decide

/-- the table is not empty and covers the call sites the model's fault oracle is consumed at -/
theorem error_sites_cover :
    (Facts.errorSites.map (fun s => (s.1, s.2.2.1))).contains ("Start", "sessions.Get") = true ∧
    (Facts.errorSites.map (fun s => (s.1, s.2.2.1))).contains ("Start", "sessions.Set") = true ∧
    (Facts.errorSites.map (fun s => (s.1, s.2.2.1))).contains ("Session.RegenerateID", "sessions.Set") = true ∧
    (Facts.errorSites.map (fun s => (s.1, s.2.2.1))).contains ("cache.Set", "Persistence.SaveSession") = true ∧
    (Facts.errorSites.map (fun s => (s.1, s.2.2.1))).contains ("cache.Get", "Persistence.LoadSession") = true ∧
    (Facts.errorSites.map (fun s => (s.1, s.2.2.1))).contains ("cache.Delete", "Persistence.DeleteSession") = true ∧
    (Facts.errorSites.map (fun s => (s.1, s.2.2.1))).contains ("LogOut", "Persistence.UserSessions") = true ∧
    30 ≤ Facts.errorSites.length := by decide

end FactsErrors
