import Sessions.Proofs.Local.Basics
/-!
# C04 — rotation of session ids (T-local)

`RegenerateID` from an arbitrary state, for every oracle (`regenerate_spec`, part (d)), then the three
branches of `startValid`: the rotation step (a), the young session (b), the reference record (c).

Hypotheses that a global invariant would provide are explicit:
* `hv : h < s.heap.length` — the handle is valid (`Start` only passes handles `cache.Get` returned);
* `hfresh : ∀ x, (ID.gen s.nextId, x) ∉ s.cache` — the id about to be minted is not yet a cache key;
* `hne : (s.obj h).id ≠ ID.gen s.nextId` — nor the id of the session itself
  (both follow from "every minted id in use is `< nextId`").
-/
namespace Sx.Loc

/-- the session object after a rotation -/
def rotObj (s : State) (h : Nat) : Sess :=
  { s.obj h with id := ID.gen s.nextId, created := s.now, lastAccess := s.now }

/-- the reference object left under the old id -/
def rotRef (s : State) (h : Nat) : Sess :=
  { id := (s.obj h).id, created := s.now, lastAccess := s.now, ip := (s.obj h).ip, ua := (s.obj h).ua,
    ref := some (ID.gen s.nextId), data := none }

section
variable (cfg : Cfg) (s : State) (h : Nat)

/-! ### the first `Set` -/

theorem regenS0_obj_self (hv : h < s.heap.length) :
    (regenS0 s h).obj h = { s.obj h with id := ID.gen s.nextId, created := s.now } :=
  obj_setObj_self (s := s) hv _

theorem regenS0_obj_ne {x : Nat} (hne : h ≠ x) : (regenS0 s h).obj x = s.obj x :=
  obj_setObj_ne (s := s) hne _

theorem regenS0_heap_length : (regenS0 s h).heap.length = s.heap.length := by
  simp [regenS0]

theorem regenA_fr : (regenA cfg s h).1.now = s.now ∧ (regenA cfg s h).1.nextId = s.nextId + 1 ∧
    (regenA cfg s h).1.timers = s.timers ∧ (regenA cfg s h).1.vers = s.vers ∧ (regenA cfg s h).1.extra = s.extra ∧
    (regenA cfg s h).1.heap.length = s.heap.length := by
  unfold regenA
  refine ⟨cacheSet_now .., cacheSet_nextId .., cacheSet_timers .., cacheSet_vers .., cacheSet_extra .., ?_⟩
  rw [cacheSet_heap_length, regenS0_heap_length]

theorem regenA_obj_self (hv : h < s.heap.length) : (regenA cfg s h).1.obj h = rotObj s h := by
  unfold regenA
  rw [cacheSet_obj_self cfg (by rw [regenS0_heap_length]; exact hv), regenS0_obj_self s h hv]
  rfl

theorem regenA_obj_ne {x : Nat} (hne : h ≠ x) : (regenA cfg s h).1.obj x = s.obj x := by
  unfold regenA
  rw [cacheSet_obj_ne cfg hne, regenS0_obj_ne s h hne]

/-- the id `Set` uses is the new one -/
theorem regenS0_id (hv : h < s.heap.length) : ((regenS0 s h).obj h).id = ID.gen s.nextId := by
  rw [regenS0_obj_self s h hv]

/-- entries of the cache after the first `Set`: the new one, or old ones -/
theorem regenA_cache_mem (hv : h < s.heap.length) {e : ID × Nat} (he : e ∈ (regenA cfg s h).1.cache) :
    e = (ID.gen s.nextId, h) ∨ e ∈ s.cache := by
  unfold regenA at he
  rcases cacheSet_cache_mem cfg _ h he with h1 | h1
  · rw [regenS0_id s h hv] at h1; exact Or.inl h1
  · exact Or.inr h1.1

theorem regenA_saved (hv : h < s.heap.length) (hok : (regenA cfg s h).2.1 = true) :
    lookup (ID.gen s.nextId) (regenA cfg s h).1.store = some (enc cfg.codec (rotObj s h)) := by
  have := cacheSet_saved (cfg := cfg) (s := regenS0 s h) (h := h) hok
  rw [show (cacheSet cfg (regenS0 s h) h) = regenA cfg s h from rfl, regenA_obj_self cfg s h hv] at this
  exact this

/-! ### the second `Set` -/

theorem regenS2_obj_old {x : Nat} (hx : x < s.heap.length) : (regenS2 cfg s h).obj x = (regenA cfg s h).1.obj x := by
  unfold regenS2
  exact obj_alloc_old (by rw [(regenA_fr cfg s h).2.2.2.2.2]; exact hx) _

theorem regenS2_obj_new (hv : h < s.heap.length) : (regenS2 cfg s h).obj s.heap.length = rotRef s h := by
  unfold regenS2
  have := obj_alloc_new (regenA cfg s h).1
    (refObj ((regenA cfg s h).1.obj h) (s.obj h).id (ID.gen s.nextId) (regenA cfg s h).1.now)
  rw [(regenA_fr cfg s h).2.2.2.2.2] at this
  rw [this, regenA_obj_self cfg s h hv, (regenA_fr cfg s h).1]
  rfl

theorem regenS2_heap_length : (regenS2 cfg s h).heap.length = s.heap.length + 1 := by
  unfold regenS2; simp [(regenA_fr cfg s h).2.2.2.2.2]

theorem regenB_eq : regenB cfg s h = cacheSet cfg (regenS2 cfg s h) s.heap.length := by
  unfold regenB; rw [(regenA_fr cfg s h).2.2.2.2.2]

theorem regenB_fr : (regenB cfg s h).1.now = s.now ∧ (regenB cfg s h).1.nextId = s.nextId + 1 ∧
    (regenB cfg s h).1.timers = s.timers ∧ (regenB cfg s h).1.vers = s.vers ∧ (regenB cfg s h).1.extra = s.extra ∧
    (regenB cfg s h).1.heap.length = s.heap.length + 1 := by
  rw [regenB_eq]
  have hA := regenA_fr cfg s h
  refine ⟨?_, ?_, ?_, ?_, ?_, ?_⟩
  · rw [cacheSet_now]; unfold regenS2; simp [hA.1]
  · rw [cacheSet_nextId]; unfold regenS2; simp [hA.2.1]
  · rw [cacheSet_timers]; unfold regenS2; simp [hA.2.2.1]
  · rw [cacheSet_vers]; unfold regenS2; simp [hA.2.2.2.1]
  · rw [cacheSet_extra]; unfold regenS2; simp [hA.2.2.2.2.1]
  · rw [cacheSet_heap_length, regenS2_heap_length]

theorem regenB_obj_self (hv : h < s.heap.length) : (regenB cfg s h).1.obj s.heap.length = rotRef s h := by
  rw [regenB_eq, cacheSet_obj_self cfg (by rw [regenS2_heap_length]; omega), regenS2_obj_new cfg s h hv]
  have : (regenS2 cfg s h).now = s.now := by unfold regenS2; simp [(regenA_fr cfg s h).1]
  rw [this]; rfl

theorem regenB_obj_old {x : Nat} (hx : x < s.heap.length) : (regenB cfg s h).1.obj x = (regenA cfg s h).1.obj x := by
  rw [regenB_eq, cacheSet_obj_ne cfg (by omega), regenS2_obj_old cfg s h hx]

theorem regenB_obj_h (hv : h < s.heap.length) : (regenB cfg s h).1.obj h = rotObj s h := by
  rw [regenB_obj_old cfg s h hv, regenA_obj_self cfg s h hv]

theorem regenS2_ref_id (hv : h < s.heap.length) : ((regenS2 cfg s h).obj s.heap.length).id = (s.obj h).id := by
  rw [regenS2_obj_new cfg s h hv]; rfl

/-- the reference record is stored under the old id -/
theorem regenB_saved_ref (hv : h < s.heap.length) (hok : (regenB cfg s h).2.1 = true) :
    lookup (s.obj h).id (regenB cfg s h).1.store = some (enc cfg.codec (rotRef s h)) := by
  rw [regenB_eq] at hok
  have := cacheSet_saved hok
  rw [← regenB_eq, regenB_obj_self cfg s h hv] at this
  exact this

/-- the second `Set` leaves the record of the session under its new id in place (a flush of the new
cache entry re-writes the same record) -/
theorem regenB_keeps_new (hv : h < s.heap.length) (hfresh : ∀ x, (ID.gen s.nextId, x) ∉ s.cache)
    (hne : (s.obj h).id ≠ ID.gen s.nextId) (hokA : (regenA cfg s h).2.1 = true) :
    lookup (ID.gen s.nextId) (regenB cfg s h).1.store = some (enc cfg.codec (rotObj s h)) := by
  have hlk := cacheSet_store_lk cfg (regenS2 cfg s h) s.heap.length (ID.gen s.nextId)
    (fun _ => by rw [regenS2_ref_id cfg s h hv]; exact Ne.symm hne)
  rw [← regenB_eq] at hlk
  rcases hlk with h1 | ⟨x, hx, h1⟩
  · rw [h1]
    have : (regenS2 cfg s h).store = (regenA cfg s h).1.store := by unfold regenS2; simp
    rw [this]; exact regenA_saved cfg s h hv hokA
  · have hc : (regenS2 cfg s h).cache = (regenA cfg s h).1.cache := by unfold regenS2; simp
    rw [hc] at hx
    rcases regenA_cache_mem cfg s h hv hx with h2 | h2
    · have hxh : x = h := (Prod.mk.inj h2).2
      rw [h1, hxh, regenB_obj_h cfg s h hv]
    · exact absurd h2 (hfresh x)

/-! ### (d) `RegenerateID` itself -/

/-- the counter moves by exactly one, whatever happens -/
theorem regenerate_nextId : (regenerate cfg s h).1.nextId = s.nextId + 1 := by
  rw [regenerate_eq]
  split
  · exact (regenA_fr cfg s h).2.1
  · split
    · exact (regenB_fr cfg s h).2.1
    · exact (regenB_fr cfg s h).2.1

theorem regenerate_now : (regenerate cfg s h).1.now = s.now := by
  rw [regenerate_eq]
  split
  · exact (regenA_fr cfg s h).1
  · split
    · exact (regenB_fr cfg s h).1
    · exact (regenB_fr cfg s h).1

theorem regenerate_heap_length_ge : s.heap.length ≤ (regenerate cfg s h).1.heap.length := by
  rw [regenerate_eq]
  split
  · rw [(regenA_fr cfg s h).2.2.2.2.2]; exact Nat.le_refl _
  · split
    · rw [(regenB_fr cfg s h).2.2.2.2.2]; omega
    · show _ ≤ (regenB cfg s h).1.heap.length
      rw [(regenB_fr cfg s h).2.2.2.2.2]; omega

/-- the object keeps its handle and gets the new id even when a save fails -/
theorem regenerate_obj (hv : h < s.heap.length) : (regenerate cfg s h).1.obj h = rotObj s h := by
  rw [regenerate_eq]
  split
  · exact regenA_obj_self cfg s h hv
  · split
    · exact regenB_obj_h cfg s h hv
    · exact regenB_obj_h cfg s h hv

theorem regenerate_ok_iff : (regenerate cfg s h).2.1 = true ↔ (regenA cfg s h).2.1 = true ∧ (regenB cfg s h).2.1 = true := by
  rw [regenerate_eq]
  cases hA : (regenA cfg s h).2.1 <;> cases hB : (regenB cfg s h).2.1 <;> simp

theorem regenerate_state_ok (hok : (regenerate cfg s h).2.1 = true) :
    (regenerate cfg s h).1 = { (regenB cfg s h).1 with timers := (regenB cfg s h).1.timers ++
      [((regenB cfg s h).1.now + cfg.grace, (s.obj h).id)] } ∧
    (regenerate cfg s h).2.2 = (regenA cfg s h).2.2 ++ (regenB cfg s h).2.2 ++ [.setCookie (ID.gen s.nextId)] := by
  obtain ⟨hA, hB⟩ := (regenerate_ok_iff cfg s h).1 hok
  rw [regenerate_eq]; simp [hA, hB]

/-- **C04 (d): what a successful `RegenerateID` does, for every state and oracle.** Exactly one id
is minted; the SAME object (handle `h`) carries it; data and user are untouched; the record under the
new id is the encoding of the object; the record under the old id is the reference record; the
cookie event is the last event and the only cookie event; the clean-up timer is appended. -/
theorem regenerate_spec (hv : h < s.heap.length) (hfresh : ∀ x, (ID.gen s.nextId, x) ∉ s.cache)
    (hne : (s.obj h).id ≠ ID.gen s.nextId) (hok : (regenerate cfg s h).2.1 = true) :
    (regenerate cfg s h).1.nextId = s.nextId + 1 ∧
    (regenerate cfg s h).1.obj h = rotObj s h ∧
    (regenerate cfg s h).1.obj s.heap.length = rotRef s h ∧
    (regenerate cfg s h).1.heap.length = s.heap.length + 1 ∧
    (∀ x, x < s.heap.length → x ≠ h → (regenerate cfg s h).1.obj x = s.obj x) ∧
    lookup (ID.gen s.nextId) (regenerate cfg s h).1.store = some (enc cfg.codec (rotObj s h)) ∧
    lookup (s.obj h).id (regenerate cfg s h).1.store = some (enc cfg.codec (rotRef s h)) ∧
    (regenerate cfg s h).1.timers = s.timers ++ [(s.now + cfg.grace, (s.obj h).id)] ∧
    (regenerate cfg s h).1.now = s.now ∧
    (∃ eA eB, (regenerate cfg s h).2.2 =
        eA ++ [.save (ID.gen s.nextId) (enc cfg.codec (rotObj s h))] ++ eB ++
          [.save (s.obj h).id (enc cfg.codec (rotRef s h))] ++ [.setCookie (ID.gen s.nextId)] ∧
        (∀ e ∈ eA, (∃ k r, e = .save k r) ∨ ∃ k, e = .saveFail k) ∧
        (∀ e ∈ eB, (∃ k r, e = .save k r) ∨ ∃ k, e = .saveFail k)) := by
  obtain ⟨hA, hB⟩ := (regenerate_ok_iff cfg s h).1 hok
  obtain ⟨hst, hev⟩ := regenerate_state_ok cfg s h hok
  have hBfr := regenB_fr cfg s h
  refine ⟨regenerate_nextId cfg s h, regenerate_obj cfg s h hv, ?_, ?_, ?_, ?_, ?_, ?_, regenerate_now cfg s h, ?_⟩
  · rw [hst]; exact regenB_obj_self cfg s h hv
  · rw [hst]; exact hBfr.2.2.2.2.2
  · intro x hx hxh
    rw [hst]
    show (regenB cfg s h).1.obj x = _
    rw [regenB_obj_old cfg s h hx, regenA_obj_ne cfg s h (Ne.symm hxh)]
  · rw [hst]; exact regenB_keeps_new cfg s h hv hfresh hne hA
  · rw [hst]; exact regenB_saved_ref cfg s h hv hB
  · rw [hst]; show (regenB cfg s h).1.timers ++ _ = _
    rw [hBfr.2.2.1, hBfr.1]
  · refine ⟨(setC cfg (regenS0 s h) h).2, (setC cfg (regenS2 cfg s h) s.heap.length).2, ?_,
      fun e he => (setC_flushed cfg _ _).ev_cases he, fun e he => (setC_flushed cfg _ _).ev_cases he⟩
    rw [hev]
    have e1 := cacheSet_evs cfg (regenS0 s h) h
    have e2 := cacheSet_evs cfg (regenS2 cfg s h) s.heap.length
    rw [← regenB_eq] at e2
    rw [show cacheSet cfg (regenS0 s h) h = regenA cfg s h from rfl] at e1
    rw [e1, e2, hA, hB, regenA_obj_self cfg s h hv, regenB_obj_self cfg s h hv, regenS0_id s h hv,
      regenS2_ref_id cfg s h hv]
    simp

/-- the events of a successful `RegenerateID`, exactly: the flushes of the first `Set`'s compaction
(a run of `compact` from the actual intermediate state, see `setC_flushed`), the write-through save
under the new id, the flushes of the second `Set`'s compaction, the write-through save of the
reference record under the old id, the cookie. A failed save can therefore only occur inside the two
compaction runs. -/
theorem regenerate_evs_ok (hv : h < s.heap.length) (hok : (regenerate cfg s h).2.1 = true) :
    (regenerate cfg s h).2.2 =
      (setC cfg (regenS0 s h) h).2 ++ [.save (ID.gen s.nextId) (enc cfg.codec (rotObj s h))] ++
        (setC cfg (regenS2 cfg s h) s.heap.length).2 ++ [.save (s.obj h).id (enc cfg.codec (rotRef s h))] ++
        [.setCookie (ID.gen s.nextId)] := by
  obtain ⟨hA, hB⟩ := (regenerate_ok_iff cfg s h).1 hok
  obtain ⟨_, hev⟩ := regenerate_state_ok cfg s h hok
  rw [hev]
  have e1 := cacheSet_evs cfg (regenS0 s h) h
  have e2 := cacheSet_evs cfg (regenS2 cfg s h) s.heap.length
  rw [← regenB_eq] at e2
  rw [show cacheSet cfg (regenS0 s h) h = regenA cfg s h from rfl] at e1
  rw [e1, e2, hA, hB, regenA_obj_self cfg s h hv, regenB_obj_self cfg s h hv, regenS0_id s h hv,
    regenS2_ref_id cfg s h hv]
  simp

/-- the cookie event of `RegenerateID` is its last event and its only cookie event -/
theorem regenerate_cookie_last (hok : (regenerate cfg s h).2.1 = true) :
    (regenerate cfg s h).2.2.getLast? = some (.setCookie (ID.gen s.nextId)) ∧
    (regenerate cfg s h).2.2.filter isCookie = [.setCookie (ID.gen s.nextId)] := by
  obtain ⟨_, hev⟩ := regenerate_state_ok cfg s h hok
  have nc : ∀ (s0 : State) (x : Nat), (cacheSet cfg s0 x).2.2.filter isCookie = [] := by
    intro s0 x
    rw [List.filter_eq_nil_iff]
    intro e he
    rw [cacheSet_evs] at he
    rcases List.mem_append.1 he with he | he
    · rcases (setC_flushed cfg s0 x).ev_cases he with ⟨k, r, rfl⟩ | ⟨k, rfl⟩ <;> simp [isCookie]
    · simp only [List.mem_singleton] at he
      split at he <;> subst he <;> simp [isCookie]
  rw [hev]
  refine ⟨by simp, ?_⟩
  rw [List.filter_append, List.filter_append]
  have h1 := nc (regenS0 s h) h
  have h2 := nc (regenS2 cfg s h) (regenA cfg s h).1.heap.length
  rw [show (cacheSet cfg (regenS0 s h) h) = regenA cfg s h from rfl] at h1
  rw [show (cacheSet cfg (regenS2 cfg s h) (regenA cfg s h).1.heap.length) = regenB cfg s h from rfl] at h2
  rw [h1, h2]; simp [isCookie]

/-- fault-free, `RegenerateID` succeeds and leaves the oracle empty -/
theorem regenerate_nil (hf : s.fails = []) : (regenerate cfg s h).2.1 = true ∧ (regenerate cfg s h).1.fails = [] := by
  have hA := cacheSet_nil (cfg := cfg) (s := regenS0 s h) h (by simpa [regenS0] using hf)
  rw [show (cacheSet cfg (regenS0 s h) h) = regenA cfg s h from rfl] at hA
  have hf2 : (regenS2 cfg s h).fails = [] := by unfold regenS2; simpa using hA.2
  have hB := cacheSet_nil (cfg := cfg) (s := regenS2 cfg s h) (regenA cfg s h).1.heap.length hf2
  rw [show (cacheSet cfg (regenS2 cfg s h) (regenA cfg s h).1.heap.length) = regenB cfg s h from rfl] at hB
  have hok := (regenerate_ok_iff cfg s h).2 ⟨hA.1, hB.1⟩
  refine ⟨hok, ?_⟩
  rw [(regenerate_state_ok cfg s h hok).1]; exact hB.2

end

/-! ### (a) the rotation step of `Start` -/

/-- the records `RegenerateID` leaves, field by field -/
theorem enc_rotRef (cfg : Cfg) (s : State) (h : Nat) :
    (enc cfg.codec (rotRef s h)).ref = some (ID.gen s.nextId) ∧ (enc cfg.codec (rotRef s h)).user = none ∧
    (enc cfg.codec (rotRef s h)).data = (match cfg.codec with | .gob => some [] | .json => none) := by
  cases hc : cfg.codec <;> simp [enc, rotRef]

/-- **C04 (a)**: an old enough, non-reference session found under `id` is rotated: one id is minted,
the SAME handle is returned, the object carries the new id with data and user untouched, the record
under the new id encodes the object, the record under `id` is a reference to the new id, the only
cookie event is the final `setCookie` of the new id, and the clean-up timer for `id` is appended. -/
theorem c04_rotation_step (cfg : Cfg) (s1 : State) (id : ID) (h : Nat) (r : Req) (e1 : List Ev)
    (hkey : (s1.obj h).id = id) (hv : h < s1.heap.length) (hfresh : ∀ x, (ID.gen s1.nextId, x) ∉ s1.cache)
    (hid : ∀ n, id = .gen n → n < s1.nextId) (hf : s1.fails = [])
    (href : (s1.obj h).ref = none) (hage : since s1.now (s1.obj h).created ≥ cfg.idExpiry) :
    let out := startValid cfg s1 id h r e1
    out.2.1 = .sess h ∧
    out.1.nextId = s1.nextId + 1 ∧
    (out.1.obj h).id = ID.gen s1.nextId ∧ ID.gen s1.nextId ≠ id ∧
    (out.1.obj h).data = (s1.obj h).data ∧ (out.1.obj h).user = (s1.obj h).user ∧
    (out.1.obj h).created = s1.now ∧ (out.1.obj h).lastAccess = s1.now ∧
    (∃ rec, lookup (ID.gen s1.nextId) out.1.store = some rec ∧
      rec.data = (enc cfg.codec (out.1.obj h)).data ∧ rec.user = (enc cfg.codec (out.1.obj h)).user ∧
      rec.ref = (enc cfg.codec (out.1.obj h)).ref ∧ rec.created = (enc cfg.codec (out.1.obj h)).created ∧
      rec.lastAccess = (enc cfg.codec (out.1.obj h)).lastAccess) ∧
    (∃ rec, lookup id out.1.store = some rec ∧ rec.ref = some (ID.gen s1.nextId) ∧ rec.user = none ∧
      rec.data = (match cfg.codec with | .gob => some [] | .json => none)) ∧
    out.2.2.getLast? = some (.setCookie (ID.gen s1.nextId)) ∧
    out.2.2.filter isCookie = e1.filter isCookie ++ [.setCookie (ID.gen s1.nextId)] ∧
    out.1.timers = s1.timers ++ [(s1.now + cfg.grace, id)] ∧
    out.1.fails = [] := by
  intro out
  have hne : (s1.obj h).id ≠ ID.gen s1.nextId := by
    rw [hkey]; intro he; exact absurd (hid _ he) (Nat.lt_irrefl _)
  obtain ⟨hok, hfl⟩ := regenerate_nil cfg s1 h hf
  have hout : out = (touch (regenerate cfg s1 h).1 h r, .sess h, e1 ++ (regenerate cfg s1 h).2.2) := by
    show startValid cfg s1 id h r e1 = _
    rw [startValid_rotate id r e1 href hage, hok]; simp
  obtain ⟨hn, ho, _, hlen, _, hnew, hold, htm, hnow, _⟩ := regenerate_spec cfg s1 h hv hfresh hne hok
  obtain ⟨hlast, hck⟩ := regenerate_cookie_last cfg s1 h hok
  have hv' : h < (regenerate cfg s1 h).1.heap.length := by rw [hlen]; omega
  have hobj : out.1.obj h = { rotObj s1 h with lastAccess := s1.now, ip := r.ip, ua := agentHash r.ua } := by
    rw [hout]; show (touch (regenerate cfg s1 h).1 h r).obj h = _
    rw [touch_obj_self hv', ho, hnow]
  have hstore : out.1.store = (regenerate cfg s1 h).1.store := by rw [hout]; rfl
  refine ⟨by rw [hout], by rw [hout]; exact hn, by rw [hobj]; rfl, fun he => hne (hkey.trans he.symm), by rw [hobj]; rfl,
    by rw [hobj]; rfl, by rw [hobj]; rfl, by rw [hobj], ?_, ?_, ?_, ?_, ?_, by rw [hout]; exact hfl⟩
  · refine ⟨_, by rw [hstore]; exact hnew, ?_⟩
    rw [hobj]
    cases hc : cfg.codec <;> simp [enc, rotObj]
  · rw [← hkey]
    exact ⟨_, by rw [hstore]; exact hold, enc_rotRef cfg s1 h⟩
  · rw [hout]; show (e1 ++ (regenerate cfg s1 h).2.2).getLast? = _
    rw [List.getLast?_append, hlast]; rfl
  · rw [hout]; show (e1 ++ (regenerate cfg s1 h).2.2).filter isCookie = _
    rw [List.filter_append, hck]
  · rw [hout]; show (regenerate cfg s1 h).1.timers = _
    rw [htm, hkey]

/-! ### (b) a young session is left alone -/

/-- **C04 (b)**: a non-reference session younger than `idExpiry` keeps its id: nothing is minted,
no cookie is sent, cache and store are unchanged (for every oracle: no persistence call is made). -/
theorem c04_young_untouched (cfg : Cfg) (s1 : State) (id : ID) (h : Nat) (r : Req) (e1 : List Ev)
    (hkey : (s1.obj h).id = id) (href : (s1.obj h).ref = none)
    (hage : since s1.now (s1.obj h).created < cfg.idExpiry) :
    let out := startValid cfg s1 id h r e1
    out.2.1 = .sess h ∧ out.1.nextId = s1.nextId ∧ out.2.2 = e1 ∧ (out.1.obj h).id = id ∧
    out.1.store = s1.store ∧ out.1.cache = s1.cache ∧ out.1.timers = s1.timers ∧ out.1.fails = s1.fails ∧
    (out.1.obj h).created = (s1.obj h).created ∧ (out.1.obj h).data = (s1.obj h).data ∧
    (out.1.obj h).user = (s1.obj h).user := by
  intro out
  have hout : out = (touch s1 h r, .sess h, e1) := startValid_young id r e1 href hage
  have hk := touch_obj_keep s1 h h r
  rw [hout]
  exact ⟨rfl, rfl, rfl, hk.1.trans hkey, rfl, rfl, rfl, rfl, hk.2.2.2.1, hk.2.2.1, hk.2.1⟩

/-! ### (c) the reference branch never mints -/

theorem follow_nextId (cfg : Cfg) : ∀ (n : Nat) (s : State) (h : Nat), (follow cfg n s h).1.nextId = s.nextId
  | 0, s, h => rfl
  | n + 1, s, h => by
    cases href : (s.obj h).ref with
    | none => rw [follow_succ_none n href]
    | some tgt =>
      rw [follow_succ_some n href]
      have hg := (cacheGet_spec cfg s tgt).nextId
      rcases hG : cacheGet cfg s tgt with ⟨s1, res, e1⟩
      rw [hG] at hg
      cases res with
      | err => exact hg
      | nil => exact hg
      | some h2 =>
        show (follow cfg n s1 h2).1.nextId = _
        rw [follow_nextId cfg n s1 h2]; exact hg

/-- **C04 (c)**: when the found object is a reference record, `Start` mints no id, whatever the
oracle and whatever the outcome (expired reference, missing target, failed load, redirect). -/
theorem c04_reference_never_mints (cfg : Cfg) (s1 : State) (id : ID) (h : Nat) (r : Req) (e1 : List Ev)
    (href : (s1.obj h).ref ≠ none) : (startValid cfg s1 id h r e1).1.nextId = s1.nextId := by
  cases hr : (s1.obj h).ref with
  | none => exact absurd hr href
  | some t =>
    by_cases hage : since s1.now (s1.obj h).created ≥ cfg.idExpiry ∧
        since s1.now (s1.obj h).created - cfg.idExpiry ≥ cfg.grace
    · rw [startValid_ref_expired id r e1 hr hage]
      split <;> exact (cacheDelete_fr s1 id).nextId
    · rw [startValid_ref id r e1 hr hage]
      have hn := follow_nextId cfg (s1.store.length + s1.cache.length + 1) s1 h
      rcases hF : follow cfg (s1.store.length + s1.cache.length + 1) s1 h with ⟨s2, res, e2⟩
      rw [hF] at hn
      cases res with
      | err => exact hn
      | nil => exact hn
      | some h2 => exact hn

/-- in the reference branch a returned session never carries a freshly minted id: the cookie it
sends is the *current* id of an existing object. -/
theorem c04_reference_redirect (cfg : Cfg) (s1 : State) (id : ID) (h h' : Nat) (r : Req) (e1 : List Ev) (t : ID)
    (href : (s1.obj h).ref = some t) (hres : (startValid cfg s1 id h r e1).2.1 = .sess h') :
    (startValid cfg s1 id h r e1).2.2.getLast? = some (.setCookie ((startValid cfg s1 id h r e1).1.obj h').id) := by
  by_cases hage : since s1.now (s1.obj h).created ≥ cfg.idExpiry ∧
      since s1.now (s1.obj h).created - cfg.idExpiry ≥ cfg.grace
  · rw [startValid_ref_expired id r e1 href hage] at hres
    split at hres <;> cases hres
  · rw [startValid_ref id r e1 href hage] at hres ⊢
    rcases hF : follow cfg (s1.store.length + s1.cache.length + 1) s1 h with ⟨s2, res, e2⟩
    rw [hF] at hres
    cases res with
    | err => cases hres
    | nil => cases hres
    | some h2 =>
      simp only [startRef, Res.sess.injEq] at hres ⊢
      subst hres
      rw [(touch_obj_keep s2 h2 h2 r).1]
      simp

/-! ### non-vacuity -/

section examples

private def exSess : Sess := { id := .gen 0, created := 0, lastAccess := 10, data := some [("k", .int 1)], user := some ("u", 0) }
private def exState : State :=
  { now := 20, heap := [exSess], cache := [(.gen 0, 0)], store := [(.gen 0, enc .gob exSess)], nextId := 1 }
private def exReq : Req := { cookie := some (.gen 0), cookieLen := 24, ip := "1.2.3.4:5", ua := "x" }

/-- `regenerate_spec` applies to a concrete state: its hypotheses hold and the run succeeds. -/
example : (regenerate {} exState 0).2.1 = true ∧ 0 < exState.heap.length ∧
    (∀ x, (ID.gen exState.nextId, x) ∉ exState.cache) ∧ (exState.obj 0).id ≠ ID.gen exState.nextId := by
  refine ⟨(regenerate_nil {} exState 0 rfl).1, by decide, ?_, by decide⟩
  intro x hx; simp [exState] at hx

/-- the rotation step on a concrete state (idExpiry = 5 ≤ age = 20): the returned handle is the old one. -/
example : (startValid { idExpiry := 5 } exState (.gen 0) 0 exReq []).2.1 = .sess 0 :=
  (c04_rotation_step { idExpiry := 5 } exState (.gen 0) 0 exReq [] rfl (by decide)
    (by intro x hx; simp [exState] at hx) (by intro n hn; cases hn; decide) rfl rfl (by decide)).1

/-- the young branch on a concrete state (default idExpiry = 1 h) -/
example : (startValid {} exState (.gen 0) 0 exReq []).1.nextId = 1 :=
  (c04_young_untouched {} exState (.gen 0) 0 exReq [] rfl rfl (by decide)).2.1

end examples

end Sx.Loc
