import Sessions.Proofs.Local.Basics
/-!
# C11 — failures of persistence calls are reported

For EVERY fault oracle `s.fails`, every state, every configuration (T-local: one operation, no invariant).

* (b) a failed load makes `Start` return the error "get" and changes nothing but the oracle:
  `start_failed_load`, `start_failed_user` (+ `_cor`), and the converse `start_get_err_iff`, `cacheGet_err_iff`,
  `start_get_err_iff'`.
* (c) the mutators report failed saves: `cacheSet_false_iff`, `cacheSet_true_iff_last`; `hset/hdel/hlogout_err_iff`,
  `_ok_iff`, `_fail`, `_succ`, `_err_evs`; `hgetdel_evs`; `regenerate_false_iff`, `regenerate_false_last`,
  `regenerate_true_last`, `regenerate_false_no_cookie`; `destroy_ok_iff`, `destroy_delFail`; `forUser_usersFail`,
  `logoutUser_usersFail`, `refreshUser_usersFail`, `setUserAll_true_clean`, `setUserAll_false_last`, `forUser_true_clean`,
  `forUser_false_last`; `hlogin_err_iff`, `hlogin_ok_iff`, `hlogin_ok_or_err`, `hlogin_usersFail`, `loginPre_nonexcl`.
* (a) a `Start` that returns a session or `(nil, nil)` logged no failed call except failed compaction flushes (the only
  persistence error the Go code deliberately ignores): `start_ok_no_failed_call` (a1), `start_ok_saveFail_flush` (a2),
  `start_ok_saveFail_flush_general`, `start_ok_clean`; leaves `cacheSet_ok_fail_events`, `cacheGet_ok_fail_events`,
  `createNew_ok_fail_events`, `regenerate_ok_fail_events`.
-/
namespace Sx.Loc

/-! ### extra basics -/

theorem pop_cons {s : State} {b : Bool} {fs : List Bool} (h : s.fails = b :: fs) : s.pop = { s with fails := fs } := by
  simp [State.pop, h]

theorem headD_cons_fails {s : State} {b : Bool} {fs : List Bool} (h : s.fails = b :: fs) : s.fails.headD false = b := by
  rw [h]; rfl

/-! ## (b) a failed load is reported and changes nothing -/

theorem cacheGet_failed_load {cfg : Cfg} {s : State} {id : ID} {fs : List Bool}
    (hc : lookup id s.cache = none) (hf : s.fails = true :: fs) :
    cacheGet cfg s id = ({ s with fails := fs }, .err, [.loadFail id]) := by
  rw [cacheGet_miss hc, loadRec_eq, if_pos (headD_cons_fails hf), pop_cons hf]
  rfl

theorem cacheGet_failed_user {cfg : Cfg} {s : State} {id : ID} {fs : List Bool} {rec : Rec} {uid : String}
    (hc : lookup id s.cache = none) (hf : s.fails = false :: true :: fs)
    (hl : lookup id s.store = some rec) (hu : rec.user = some uid) :
    cacheGet cfg s id = ({ s with fails := fs }, .err, [.load id true, .userFail uid, .loadErr id]) := by
  have h1 : s.fails.headD false = false := headD_cons_fails hf
  have h2 : s.pop.fails = true :: fs := by simp [hf]
  have h3 : s.pop.fails.headD false = true := headD_cons_fails h2
  have h4 : s.pop.pop = { s with fails := fs } := by rw [pop_cons h2, pop_cons hf]
  rw [cacheGet_miss hc, loadRec_eq, h1]
  simp only [Bool.false_eq_true, if_false, hl, hu, h3, if_true, h4]
  rfl

theorem start_failed_load {cfg : Cfg} {s : State} {r : Req} {id : ID} {fs : List Bool}
    (hck : r.cookie = some id) (hlen : r.cookieLen = 24) (hc : lookup id s.cache = none) (hf : s.fails = true :: fs) :
    start cfg s r = ({ s with fails := fs }, .err "get", [.loadFail id]) :=
  start_err hck hlen (cacheGet_failed_load hc hf)

theorem start_failed_load_cor {cfg : Cfg} {s : State} {r : Req} {id : ID} {fs : List Bool}
    (hck : r.cookie = some id) (hlen : r.cookieLen = 24) (hc : lookup id s.cache = none) (hf : s.fails = true :: fs) :
    (start cfg s r).2.2.filter isCookie = [] ∧ (start cfg s r).1.store = s.store ∧ (start cfg s r).1.cache = s.cache ∧
    (start cfg s r).1.nextId = s.nextId ∧ (start cfg s r).1.heap = s.heap ∧ (start cfg s r).1.now = s.now ∧
    (start cfg s r).1.timers = s.timers := by
  rw [start_failed_load hck hlen hc hf]
  exact ⟨rfl, rfl, rfl, rfl, rfl, rfl, rfl⟩

theorem start_failed_user {cfg : Cfg} {s : State} {r : Req} {id : ID} {fs : List Bool} {rec : Rec} {uid : String}
    (hck : r.cookie = some id) (hlen : r.cookieLen = 24) (hc : lookup id s.cache = none)
    (hf : s.fails = false :: true :: fs) (hl : lookup id s.store = some rec) (hu : rec.user = some uid) :
    start cfg s r = ({ s with fails := fs }, .err "get", [.load id true, .userFail uid, .loadErr id]) :=
  start_err hck hlen (cacheGet_failed_user hc hf hl hu)

theorem start_failed_user_cor {cfg : Cfg} {s : State} {r : Req} {id : ID} {fs : List Bool} {rec : Rec} {uid : String}
    (hck : r.cookie = some id) (hlen : r.cookieLen = 24) (hc : lookup id s.cache = none)
    (hf : s.fails = false :: true :: fs) (hl : lookup id s.store = some rec) (hu : rec.user = some uid) :
    (start cfg s r).2.2.filter isCookie = [] ∧ (start cfg s r).1.store = s.store ∧ (start cfg s r).1.cache = s.cache ∧
    (start cfg s r).1.nextId = s.nextId ∧ (start cfg s r).1.heap = s.heap ∧ (start cfg s r).1.now = s.now ∧
    (start cfg s r).1.timers = s.timers := by
  rw [start_failed_user hck hlen hc hf hl hu]
  exact ⟨rfl, rfl, rfl, rfl, rfl, rfl, rfl⟩

/-! ### which results `Start` can have -/

theorem getOf_found_res (cfg : Cfg) (id : ID) (s0 : State) (o : Sess) (e0 : List Ev) :
    (getOf cfg id (s0, .found o, e0)).2.1 = .some s0.heap.length := by
  rw [getOf_found]; split <;> rfl

theorem createNew_res_cases (cfg : Cfg) (s : State) (r : Req) (pre : List Ev) :
    (createNew cfg s r pre).2.1 = .nil ∨ (createNew cfg s r pre).2.1 = .err "create" ∨
      (createNew cfg s r pre).2.1 = .sess s.heap.length := by
  cases hc : r.create with
  | false => rw [createNew_no pre hc]; exact Or.inl rfl
  | true =>
    rw [createNew_yes pre hc]
    split
    · exact Or.inr (Or.inl rfl)
    · exact Or.inr (Or.inr rfl)

theorem startInvalid_res (cfg : Cfg) (s1 : State) (h : Nat) (r : Req) (e1 : List Ev) :
    (startInvalid cfg s1 h r e1).2.1 = .nil ∨ (startInvalid cfg s1 h r e1).2.1 = .err "create" ∨
      (startInvalid cfg s1 h r e1).2.1 = .err "destroy" ∨ ∃ h', (startInvalid cfg s1 h r e1).2.1 = .sess h' := by
  unfold startInvalid
  split
  · exact Or.inr (Or.inr (Or.inl rfl))
  · rcases createNew_res_cases cfg (destroy s1 h true).1 r (e1 ++ (destroy s1 h true).2.2) with h1 | h1 | h1
    · exact Or.inl h1
    · exact Or.inr (Or.inl h1)
    · exact Or.inr (Or.inr (Or.inr ⟨_, h1⟩))

theorem startRef_res (r : Req) (e1 : List Ev) (x : State × GetRes × List Ev) :
    (startRef r e1 x).2.1 = .err "refget" ∨ (startRef r e1 x).2.1 = .err "refmissing" ∨ ∃ h', (startRef r e1 x).2.1 = .sess h' := by
  obtain ⟨s2, res, e2⟩ := x
  cases res with
  | err => exact Or.inl rfl
  | nil => exact Or.inr (Or.inl rfl)
  | some h2 => exact Or.inr (Or.inr ⟨h2, rfl⟩)

/-- the error strings `startValid` can return -/
def validErrs : List String := ["regenerate", "delexpired", "idexpired", "refget", "refmissing"]

theorem startValid_res (cfg : Cfg) (s1 : State) (id : ID) (h : Nat) (r : Req) (e1 : List Ev) :
    (∃ h', (startValid cfg s1 id h r e1).2.1 = .sess h') ∨ ∃ m, m ∈ validErrs ∧ (startValid cfg s1 id h r e1).2.1 = .err m := by
  cases href : (s1.obj h).ref with
  | none =>
    by_cases hage : since s1.now (s1.obj h).created ≥ cfg.idExpiry
    · rw [startValid_rotate id r e1 href hage]
      split
      · exact Or.inr ⟨"regenerate", by simp [validErrs], rfl⟩
      · exact Or.inl ⟨h, rfl⟩
    · rw [startValid_young id r e1 href (by omega)]
      exact Or.inl ⟨h, rfl⟩
  | some t =>
    by_cases hage : since s1.now (s1.obj h).created ≥ cfg.idExpiry ∧ since s1.now (s1.obj h).created - cfg.idExpiry ≥ cfg.grace
    · rw [startValid_ref_expired id r e1 href hage]
      split
      · exact Or.inr ⟨"delexpired", by simp [validErrs], rfl⟩
      · exact Or.inr ⟨"idexpired", by simp [validErrs], rfl⟩
    · rw [startValid_ref id r e1 href hage]
      rcases startRef_res r e1 (follow cfg (s1.store.length + s1.cache.length + 1) s1 h) with h1 | h1 | h1
      · exact Or.inr ⟨"refget", by simp [validErrs], h1⟩
      · exact Or.inr ⟨"refmissing", by simp [validErrs], h1⟩
      · exact Or.inl h1

theorem startGot_get_err_iff (cfg : Cfg) (r : Req) (id : ID) (x : State × GetRes × List Ev) :
    (startGot cfg r id x).2.1 = .err "get" ↔ x.2.1 = .err := by
  obtain ⟨s1, res, e1⟩ := x
  cases res with
  | err => simp [startGot]
  | nil =>
    simp only [startGot]
    rcases createNew_res_cases cfg s1 r (e1 ++ [.delCookie]) with h1 | h1 | h1 <;> rw [h1] <;> simp
  | some h =>
    simp only [startGot]
    split
    · rcases startInvalid_res cfg s1 h r e1 with h1 | h1 | h1 | ⟨h', h1⟩ <;> rw [h1] <;> simp
    · rcases startValid_res cfg s1 id h r e1 with ⟨h', h1⟩ | ⟨m, hm, h1⟩
      · rw [h1]; simp
      · rw [h1]
        simp only [validErrs, List.mem_cons, List.not_mem_nil, or_false] at hm
        rcases hm with rfl | rfl | rfl | rfl | rfl <;> simp

/-- `Start` returns the error "get" exactly when `cache.Get` of the presented id failed. -/
theorem start_get_err_iff {cfg : Cfg} {s : State} {r : Req} {id : ID} (hck : r.cookie = some id) (hlen : r.cookieLen = 24) :
    (start cfg s r).2.1 = .err "get" ↔ (cacheGet cfg s id).2.1 = .err := by
  rw [start_some hck hlen]; exact startGot_get_err_iff cfg r id _

/-- `cache.Get` fails exactly when the id is not cached and the `LoadSession` call fails, or it finds a
record with a user and the `LoadUser` call of the decoder fails. -/
theorem cacheGet_err_iff (cfg : Cfg) (s : State) (id : ID) :
    (cacheGet cfg s id).2.1 = .err ↔
      lookup id s.cache = none ∧
        (s.fails.headD false = true ∨
          (s.fails.headD false = false ∧
            ∃ rec uid, lookup id s.store = some rec ∧ rec.user = some uid ∧ s.fails.tail.headD false = true)) := by
  have hcase := cacheGet_cases cfg s id
  generalize cacheGet cfg s id = out at hcase
  cases hcase with
  | hit h hc => simp [hc]
  | miss x hc hl =>
    cases hl with
    | fail hf => rw [hf]; simp [getOf, hc]
    | nil hf hl => rw [hf]; simp [getOf, hc, hl]
    | plain rec hf hl hu => rw [hf]; simp [getOf_found_res, hc, hl, hu]
    | userFail rec uid hf hl hu hf2 =>
      have hf2' : s.fails.tail.headD false = true := hf2
      rw [hf, hf2']; simp [getOf, hc, hl, hu]
    | user rec uid hf hl hu hf2 =>
      have hf2' : s.fails.tail.headD false = false := hf2
      rw [hf, hf2']; simp [getOf_found_res, hc, hl]

/-- both together: `Start` reports "get" exactly when the presented id is not cached and its load fails -/
theorem start_get_err_iff' {cfg : Cfg} {s : State} {r : Req} {id : ID} (hck : r.cookie = some id) (hlen : r.cookieLen = 24) :
    (start cfg s r).2.1 = .err "get" ↔
      lookup id s.cache = none ∧
        (s.fails.headD false = true ∨
          (s.fails.headD false = false ∧
            ∃ rec uid, lookup id s.store = some rec ∧ rec.user = some uid ∧ s.fails.tail.headD false = true)) :=
  (start_get_err_iff hck hlen).trans (cacheGet_err_iff cfg s id)

/-! ### examples for (b) -/

def fxB : State := { store := [(.lit "a", { user := some "u", created := 0, lastAccess := 0 })], fails := [true] }
def fxBR : Req := { cookie := some (.lit "a"), cookieLen := 24, create := true }

example : start {} fxB fxBR = ({ fxB with fails := [] }, .err "get", [.loadFail (.lit "a")]) :=
  start_failed_load rfl rfl rfl rfl
example : (start {} fxB fxBR).2.1 = .err "get" := by decide
example : start {} { fxB with fails := [false, true] } fxBR =
    ({ fxB with fails := [] }, .err "get", [.load (.lit "a") true, .userFail "u", .loadErr (.lit "a")]) :=
  start_failed_user (rec := { user := some "u", created := 0, lastAccess := 0 }) rfl rfl rfl rfl rfl rfl
/-- the same request without the fault succeeds -/
example : (start {} { fxB with fails := [] } fxBR).2.1 = .sess 0 := by decide
example : (cacheGet {} fxB (.lit "a")).2.1 = .err := (cacheGet_err_iff {} fxB (.lit "a")).2 ⟨rfl, Or.inl rfl⟩

/-! ## (c) mutators report failed saves -/

/-! ### `cache.Set` -/

/-- the last event of `Set` is its write-through save -/
theorem cacheSet_last (cfg : Cfg) (s : State) (h : Nat) :
    (cacheSet cfg s h).2.2.getLast? =
      some (if (cacheSet cfg s h).2.1 = true then .save (s.obj h).id (enc cfg.codec ((cacheSet cfg s h).1.obj h))
            else .saveFail (s.obj h).id) := by
  rw [cacheSet_evs]; simp

theorem cacheSet_false_iff (cfg : Cfg) (s : State) (h : Nat) :
    (cacheSet cfg s h).2.1 = false ↔ (cacheSet cfg s h).2.2.getLast? = some (.saveFail (s.obj h).id) := by
  rw [cacheSet_last]
  cases (cacheSet cfg s h).2.1 <;> simp

theorem cacheSet_true_iff_last (cfg : Cfg) (s : State) (h : Nat) :
    (cacheSet cfg s h).2.1 = true ↔
      (cacheSet cfg s h).2.2.getLast? = some (.save (s.obj h).id (enc cfg.codec ((cacheSet cfg s h).1.obj h))) := by
  rw [cacheSet_last]
  cases (cacheSet cfg s h).2.1 <;> simp

/-- every event of `Set` is a save or a failed save (never a cookie, a load, a delete) -/
theorem cacheSet_ev_cases {cfg : Cfg} {s : State} {h : Nat} {e : Ev} (he : e ∈ (cacheSet cfg s h).2.2) :
    (∃ k r, e = .save k r) ∨ (∃ k, e = .saveFail k) := by
  rw [cacheSet_evs] at he
  rcases List.mem_append.1 he with he | he
  · exact (setC_flushed cfg s h).ev_cases he
  · rw [List.mem_singleton] at he
    split at he
    · exact Or.inl ⟨_, _, he⟩
    · exact Or.inr ⟨_, he⟩

theorem cacheSet_no_cookie {cfg : Cfg} {s : State} {h : Nat} {e : Ev} (he : e ∈ (cacheSet cfg s h).2.2) :
    isCookie e = false := by
  rcases cacheSet_ev_cases he with ⟨k, r, rfl⟩ | ⟨k, rfl⟩ <;> rfl

/-! ### the handler methods that call `SaveSession` directly -/

/-- replacing the object at `h` by one with the same id keeps the id at `h` (also when `h` is out of range) -/
theorem setObj_obj_id {s : State} {h : Nat} {o : Sess} (hid : o.id = (s.obj h).id) : ((s.setObj h o).obj h).id = (s.obj h).id := by
  rw [obj_setObj]; split
  · exact hid
  · rfl

theorem saveObj_setObj_fail {cfg : Cfg} {s : State} {h : Nat} {o : Sess} (hid : o.id = (s.obj h).id)
    (hf : s.fails.headD false = true) :
    saveObj cfg (s.setObj h o) h = ((s.setObj h o).pop2, false, [.saveFail (s.obj h).id]) := by
  rw [saveObj_eq, saveRec_fail _ _ (by rw [setObj_fails]; exact hf), setObj_obj_id hid]

theorem saveObj_setObj_ok {cfg : Cfg} {s : State} {h : Nat} {o : Sess} (hid : o.id = (s.obj h).id)
    (hf : s.fails.headD false = false) :
    saveObj cfg (s.setObj h o) h =
      ({ (s.setObj h o).pop2 with store := insert (s.obj h).id (enc cfg.codec ((s.setObj h o).obj h)) s.store }, true,
        [.save (s.obj h).id (enc cfg.codec ((s.setObj h o).obj h))]) := by
  rw [saveObj_eq, saveRec_ok _ _ (by rw [setObj_fails]; exact hf), setObj_obj_id hid]; rfl

theorem headD_false_or_true (l : List Bool) : l.headD false = false ∨ l.headD false = true := by
  cases l.headD false <;> simp

/-- `Session.Set` whose save fails: error, one `saveFail` event, store untouched (the object in memory is updated). -/
theorem hset_fail {cfg : Cfg} {s : State} {h : Nat} {d : Data} (k : String) (v : Val) (hd : (s.obj h).data = some d)
    (hf : s.fails.headD false = true) :
    hset cfg s h k v =
      ((s.setObj h { s.obj h with data := some (insert k v d) }).pop2, .err, [.saveFail (s.obj h).id]) := by
  rw [hset_some k v hd, saveObj_setObj_fail ?_ hf]
  all_goals rfl

theorem hset_succ {cfg : Cfg} {s : State} {h : Nat} {d : Data} (k : String) (v : Val) (hd : (s.obj h).data = some d)
    (hf : s.fails.headD false = false) :
    hset cfg s h k v =
      ({ (s.setObj h { s.obj h with data := some (insert k v d) }).pop2 with
          store := insert (s.obj h).id (enc cfg.codec ((s.setObj h { s.obj h with data := some (insert k v d) }).obj h)) s.store },
        .ok, [.save (s.obj h).id (enc cfg.codec ((s.setObj h { s.obj h with data := some (insert k v d) }).obj h))]) := by
  rw [hset_some k v hd, saveObj_setObj_ok ?_ hf]
  all_goals rfl

theorem hset_err_iff {cfg : Cfg} {s : State} {h : Nat} {d : Data} (k : String) (v : Val) (hd : (s.obj h).data = some d) :
    (hset cfg s h k v).2.1 = .err ↔ s.fails.headD false = true := by
  rcases headD_false_or_true s.fails with hf | hf
  · rw [hset_succ k v hd hf, hf]; simp
  · rw [hset_fail k v hd hf, hf]; simp

theorem hset_ok_iff {cfg : Cfg} {s : State} {h : Nat} {d : Data} (k : String) (v : Val) (hd : (s.obj h).data = some d) :
    (hset cfg s h k v).2.1 = .ok ↔ s.fails.headD false = false := by
  rcases headD_false_or_true s.fails with hf | hf
  · rw [hset_succ k v hd hf, hf]; simp
  · rw [hset_fail k v hd hf, hf]; simp

/-- a reported error of `Session.Set` comes with exactly one `saveFail` event and an unchanged store -/
theorem hset_err_evs {cfg : Cfg} {s : State} {h : Nat} {d : Data} (k : String) (v : Val) (hd : (s.obj h).data = some d)
    (he : (hset cfg s h k v).2.1 = .err) :
    (hset cfg s h k v).2.2 = [.saveFail (s.obj h).id] ∧ (hset cfg s h k v).1.store = s.store ∧
      (hset cfg s h k v).1.cache = s.cache := by
  rw [hset_fail k v hd ((hset_err_iff k v hd).1 he)]; exact ⟨rfl, rfl, rfl⟩

theorem hset_ok_evs {cfg : Cfg} {s : State} {h : Nat} {d : Data} (k : String) (v : Val) (hd : (s.obj h).data = some d)
    (he : (hset cfg s h k v).2.1 = .ok) :
    (hset cfg s h k v).2.2 = [.save (s.obj h).id (enc cfg.codec ((hset cfg s h k v).1.obj h))] := by
  rw [hset_succ k v hd ((hset_ok_iff k v hd).1 he)]; rfl

/-- `Session.Delete` -/
theorem hdel_fail {cfg : Cfg} {s : State} {h : Nat} (k : String) (hf : s.fails.headD false = true) :
    hdel cfg s h k =
      ((s.setObj h { s.obj h with data := (s.obj h).data.map (erase k) }).pop2, .err, [.saveFail (s.obj h).id]) := by
  rw [hdel_eq, saveObj_setObj_fail ?_ hf]
  all_goals rfl

theorem hdel_succ {cfg : Cfg} {s : State} {h : Nat} (k : String) (hf : s.fails.headD false = false) :
    hdel cfg s h k =
      ({ (s.setObj h { s.obj h with data := (s.obj h).data.map (erase k) }).pop2 with
          store := insert (s.obj h).id (enc cfg.codec ((s.setObj h { s.obj h with data := (s.obj h).data.map (erase k) }).obj h)) s.store },
        .ok, [.save (s.obj h).id (enc cfg.codec ((s.setObj h { s.obj h with data := (s.obj h).data.map (erase k) }).obj h))]) := by
  rw [hdel_eq, saveObj_setObj_ok ?_ hf]
  all_goals rfl

theorem hdel_err_iff {cfg : Cfg} {s : State} {h : Nat} (k : String) :
    (hdel cfg s h k).2.1 = .err ↔ s.fails.headD false = true := by
  rcases headD_false_or_true s.fails with hf | hf
  · rw [hdel_succ k hf, hf]; simp
  · rw [hdel_fail k hf, hf]; simp

theorem hdel_ok_iff {cfg : Cfg} {s : State} {h : Nat} (k : String) :
    (hdel cfg s h k).2.1 = .ok ↔ s.fails.headD false = false := by
  rcases headD_false_or_true s.fails with hf | hf
  · rw [hdel_succ k hf, hf]; simp
  · rw [hdel_fail k hf, hf]; simp

theorem hdel_err_evs {cfg : Cfg} {s : State} {h : Nat} (k : String) (he : (hdel cfg s h k).2.1 = .err) :
    (hdel cfg s h k).2.2 = [.saveFail (s.obj h).id] ∧ (hdel cfg s h k).1.store = s.store ∧
      (hdel cfg s h k).1.cache = s.cache := by
  rw [hdel_fail k ((hdel_err_iff k).1 he)]; exact ⟨rfl, rfl, rfl⟩

theorem hdel_ok_evs {cfg : Cfg} {s : State} {h : Nat} (k : String) (he : (hdel cfg s h k).2.1 = .ok) :
    (hdel cfg s h k).2.2 = [.save (s.obj h).id (enc cfg.codec ((hdel cfg s h k).1.obj h))] := by
  rw [hdel_succ k ((hdel_ok_iff k).1 he)]; rfl

/-- `Session.LogOut` of a session with a user -/
theorem hlogout_fail {cfg : Cfg} {s : State} {h : Nat} {u : String × Nat} (hu : (s.obj h).user = some u)
    (hf : s.fails.headD false = true) :
    hlogout cfg s h = ((s.setObj h { s.obj h with user := none }).pop2, .err, [.saveFail (s.obj h).id]) := by
  rw [hlogout_some hu, saveObj_setObj_fail ?_ hf]
  all_goals rfl

theorem hlogout_succ {cfg : Cfg} {s : State} {h : Nat} {u : String × Nat} (hu : (s.obj h).user = some u)
    (hf : s.fails.headD false = false) :
    hlogout cfg s h =
      ({ (s.setObj h { s.obj h with user := none }).pop2 with
          store := insert (s.obj h).id (enc cfg.codec ((s.setObj h { s.obj h with user := none }).obj h)) s.store },
        .ok, [.save (s.obj h).id (enc cfg.codec ((s.setObj h { s.obj h with user := none }).obj h))]) := by
  rw [hlogout_some hu, saveObj_setObj_ok ?_ hf]
  all_goals rfl

theorem hlogout_err_iff {cfg : Cfg} {s : State} {h : Nat} {u : String × Nat} (hu : (s.obj h).user = some u) :
    (hlogout cfg s h).2.1 = .err ↔ s.fails.headD false = true := by
  rcases headD_false_or_true s.fails with hf | hf
  · rw [hlogout_succ hu hf, hf]; simp
  · rw [hlogout_fail hu hf, hf]; simp

theorem hlogout_ok_iff {cfg : Cfg} {s : State} {h : Nat} {u : String × Nat} (hu : (s.obj h).user = some u) :
    (hlogout cfg s h).2.1 = .ok ↔ s.fails.headD false = false := by
  rcases headD_false_or_true s.fails with hf | hf
  · rw [hlogout_succ hu hf, hf]; simp
  · rw [hlogout_fail hu hf, hf]; simp

theorem hlogout_err_evs {cfg : Cfg} {s : State} {h : Nat} (he : (hlogout cfg s h).2.1 = .err) :
    (hlogout cfg s h).2.2 = [.saveFail (s.obj h).id] ∧ (hlogout cfg s h).1.store = s.store ∧
      (hlogout cfg s h).1.cache = s.cache ∧ s.fails.headD false = true := by
  cases hu : (s.obj h).user with
  | none => rw [hlogout_none hu] at he; cases he
  | some u =>
    have hf := (hlogout_err_iff hu).1 he
    rw [hlogout_fail hu hf]; exact ⟨rfl, rfl, rfl, hf⟩

/-- `LogOut` of a session without a user makes no persistence call -/
theorem hlogout_none_evs {cfg : Cfg} {s : State} {h : Nat} (hu : (s.obj h).user = none) :
    (hlogout cfg s h).2.1 = .ok ∧ (hlogout cfg s h).2.2 = [] := by
  rw [hlogout_none hu]; exact ⟨rfl, rfl⟩

/-- the result of `LogOut` is `ok` or `err` -/
theorem hlogout_ok_or_err (cfg : Cfg) (s : State) (h : Nat) : (hlogout cfg s h).2.1 = .ok ∨ (hlogout cfg s h).2.1 = .err := by
  cases hu : (s.obj h).user with
  | none => rw [hlogout_none hu]; exact Or.inl rfl
  | some u =>
    rcases headD_false_or_true s.fails with hf | hf
    · rw [hlogout_succ hu hf]; exact Or.inl rfl
    · rw [hlogout_fail hu hf]; exact Or.inr rfl

/-- `GetAndDelete` has no error result (Go discards the error of `SaveSession`): its events tell. -/
theorem hgetdel_absent {cfg : Cfg} {s : State} {h : Nat} {k : String} (hk : lookup k ((s.obj h).data.getD []) = none) :
    hgetdel cfg s h k = (s, .val .null, []) := by
  simp [hgetdel, hk]

theorem hgetdel_present {cfg : Cfg} {s : State} {h : Nat} {k : String} {v : Val} (hk : lookup k ((s.obj h).data.getD []) = some v) :
    hgetdel cfg s h k =
      ((saveObj cfg (s.setObj h { s.obj h with data := (s.obj h).data.map (erase k) }) h).1, .val v,
       (saveObj cfg (s.setObj h { s.obj h with data := (s.obj h).data.map (erase k) }) h).2.2) := by
  simp [hgetdel, hk]

theorem hgetdel_fail {cfg : Cfg} {s : State} {h : Nat} {k : String} {v : Val} (hk : lookup k ((s.obj h).data.getD []) = some v)
    (hf : s.fails.headD false = true) :
    hgetdel cfg s h k =
      ((s.setObj h { s.obj h with data := (s.obj h).data.map (erase k) }).pop2, .val v, [.saveFail (s.obj h).id]) := by
  rw [hgetdel_present hk, saveObj_setObj_fail ?_ hf]
  all_goals rfl

theorem hgetdel_succ {cfg : Cfg} {s : State} {h : Nat} {k : String} {v : Val} (hk : lookup k ((s.obj h).data.getD []) = some v)
    (hf : s.fails.headD false = false) :
    hgetdel cfg s h k =
      ({ (s.setObj h { s.obj h with data := (s.obj h).data.map (erase k) }).pop2 with
          store := insert (s.obj h).id (enc cfg.codec ((s.setObj h { s.obj h with data := (s.obj h).data.map (erase k) }).obj h)) s.store },
        .val v, [.save (s.obj h).id (enc cfg.codec ((s.setObj h { s.obj h with data := (s.obj h).data.map (erase k) }).obj h))]) := by
  rw [hgetdel_present hk, saveObj_setObj_ok ?_ hf]
  all_goals rfl

/-- the three possible event lists of `GetAndDelete` -/
theorem hgetdel_evs (cfg : Cfg) (s : State) (h : Nat) (k : String) :
    (lookup k ((s.obj h).data.getD []) = none ∧ (hgetdel cfg s h k).2.2 = []) ∨
    (∃ v, lookup k ((s.obj h).data.getD []) = some v ∧ s.fails.headD false = false ∧
      (hgetdel cfg s h k).2.2 = [.save (s.obj h).id (enc cfg.codec ((hgetdel cfg s h k).1.obj h))]) ∨
    (∃ v, lookup k ((s.obj h).data.getD []) = some v ∧ s.fails.headD false = true ∧
      (hgetdel cfg s h k).2.2 = [.saveFail (s.obj h).id] ∧ (hgetdel cfg s h k).1.store = s.store) := by
  cases hk : lookup k ((s.obj h).data.getD []) with
  | none => rw [hgetdel_absent hk]; exact Or.inl ⟨rfl, rfl⟩
  | some v =>
    rcases headD_false_or_true s.fails with hf | hf
    · rw [hgetdel_succ hk hf]; exact Or.inr (Or.inl ⟨v, rfl, hf, rfl⟩)
    · rw [hgetdel_fail hk hf]; exact Or.inr (Or.inr ⟨v, rfl, hf, rfl, rfl⟩)

/-! ### `RegenerateID` -/

theorem regenS0_cache (s : State) (h : Nat) : (regenS0 s h).cache = s.cache := rfl
theorem regenS0_heap_len (s : State) (h : Nat) : (regenS0 s h).heap.length = s.heap.length := by
  simp [regenS0]

/-- the object `RegenerateID` hands to its first `Set` carries the minted id — when the handle is valid;
a dangling handle reads the default object. -/
theorem regenS0_obj_id (s : State) (h : Nat) :
    ((regenS0 s h).obj h).id = if h < s.heap.length then ID.gen s.nextId else (s.obj h).id := by
  have : (regenS0 s h).obj h = (s.setObj h { s.obj h with id := ID.gen s.nextId, created := s.now }).obj h :=
    obj_eq_of_heap rfl h
  rw [this, obj_setObj]
  by_cases hv : h < s.heap.length <;> simp [hv]

theorem regenS0_obj_id_valid {s : State} {h : Nat} (hv : h < s.heap.length) : ((regenS0 s h).obj h).id = ID.gen s.nextId := by
  rw [regenS0_obj_id, if_pos hv]

/-- the second `Set` of `RegenerateID` writes the reference record under the old id -/
theorem regenS2_obj_id (cfg : Cfg) (s : State) (h : Nat) :
    ((regenS2 cfg s h).obj (regenA cfg s h).1.heap.length).id = (s.obj h).id := by
  unfold regenS2; rw [obj_alloc_new]; rfl

theorem regenerate_false_iff (cfg : Cfg) (s : State) (h : Nat) :
    (regenerate cfg s h).2.1 = false ↔ (regenA cfg s h).2.1 = false ∨ (regenB cfg s h).2.1 = false := by
  rw [regenerate_eq]
  by_cases hA : (regenA cfg s h).2.1 = false
  · simp [hA]
  · by_cases hB : (regenB cfg s h).2.1 = false
    · simp [hA, hB]
    · simp [hA, hB]

theorem regenerate_true_iff (cfg : Cfg) (s : State) (h : Nat) :
    (regenerate cfg s h).2.1 = true ↔ (regenA cfg s h).2.1 = true ∧ (regenB cfg s h).2.1 = true := by
  have := regenerate_false_iff cfg s h
  cases h1 : (regenerate cfg s h).2.1 <;> cases h2 : (regenA cfg s h).2.1 <;> cases h3 : (regenB cfg s h).2.1 <;> simp_all

/-- the events of `RegenerateID`, by outcome -/
theorem regenerate_evs_A {cfg : Cfg} {s : State} {h : Nat} (hA : (regenA cfg s h).2.1 = false) :
    (regenerate cfg s h).2.2 = (regenA cfg s h).2.2 := by
  rw [regenerate_eq, if_pos hA]

theorem regenerate_evs_B {cfg : Cfg} {s : State} {h : Nat} (hA : (regenA cfg s h).2.1 = true) (hB : (regenB cfg s h).2.1 = false) :
    (regenerate cfg s h).2.2 = (regenA cfg s h).2.2 ++ (regenB cfg s h).2.2 := by
  rw [regenerate_eq, if_neg (by simp [hA]), if_pos hB]

theorem regenerate_ok_evs {cfg : Cfg} {s : State} {h : Nat} (hok : (regenerate cfg s h).2.1 = true) :
    (regenerate cfg s h).2.2 = (regenA cfg s h).2.2 ++ (regenB cfg s h).2.2 ++ [.setCookie (ID.gen s.nextId)] := by
  obtain ⟨hA, hB⟩ := (regenerate_true_iff cfg s h).1 hok
  rw [regenerate_eq, if_neg (by simp [hA]), if_neg (by simp [hB])]

/-- a failed `RegenerateID` ends with the failed write-through save of one of its two `Set`s: of the session
under its new id, or of the reference record under the old id. -/
theorem regenerate_false_last {cfg : Cfg} {s : State} {h : Nat} (hf : (regenerate cfg s h).2.1 = false) :
    ∃ k, (regenerate cfg s h).2.2.getLast? = some (.saveFail k) ∧ (k = ((regenS0 s h).obj h).id ∨ k = (s.obj h).id) := by
  by_cases hA : (regenA cfg s h).2.1 = false
  · rw [regenerate_evs_A hA]
    exact ⟨_, (cacheSet_false_iff cfg (regenS0 s h) h).1 hA, Or.inl rfl⟩
  · have hA' : (regenA cfg s h).2.1 = true := by simpa using hA
    have hB : (regenB cfg s h).2.1 = false := by
      rcases (regenerate_false_iff cfg s h).1 hf with h1 | h1
      · exact absurd h1 hA
      · exact h1
    rw [regenerate_evs_B hA' hB, List.getLast?_append]
    have := (cacheSet_false_iff cfg (regenS2 cfg s h) (regenA cfg s h).1.heap.length).1 hB
    rw [regenS2_obj_id] at this
    refine ⟨(s.obj h).id, ?_, Or.inr rfl⟩
    show ((regenB cfg s h).2.2.getLast?.or _) = _
    rw [show (regenB cfg s h).2.2.getLast? = some (Ev.saveFail (s.obj h).id) from this]; rfl

theorem regenerate_false_last_valid {cfg : Cfg} {s : State} {h : Nat} (hv : h < s.heap.length)
    (hf : (regenerate cfg s h).2.1 = false) :
    ∃ k, (regenerate cfg s h).2.2.getLast? = some (.saveFail k) ∧ (k = ID.gen s.nextId ∨ k = (s.obj h).id) := by
  have := regenerate_false_last hf
  rwa [regenS0_obj_id_valid hv] at this

theorem regenerate_true_last {cfg : Cfg} {s : State} {h : Nat} (hok : (regenerate cfg s h).2.1 = true) :
    (regenerate cfg s h).2.2.getLast? = some (.setCookie (ID.gen s.nextId)) := by
  rw [regenerate_ok_evs hok]; simp

/-- a failed `RegenerateID` sets no cookie: the client keeps the old id -/
theorem regenerate_false_no_cookie {cfg : Cfg} {s : State} {h : Nat} (hf : (regenerate cfg s h).2.1 = false) :
    (regenerate cfg s h).2.2.filter isCookie = [] := by
  rw [List.filter_eq_nil_iff]
  intro e he
  have : isCookie e = false := by
    by_cases hA : (regenA cfg s h).2.1 = false
    · rw [regenerate_evs_A hA] at he; exact cacheSet_no_cookie he
    · have hA' : (regenA cfg s h).2.1 = true := by simpa using hA
      have hB : (regenB cfg s h).2.1 = false := by
        rcases (regenerate_false_iff cfg s h).1 hf with h1 | h1
        · exact absurd h1 hA
        · exact h1
      rw [regenerate_evs_B hA' hB] at he
      rcases List.mem_append.1 he with he | he
      · exact cacheSet_no_cookie he
      · exact cacheSet_no_cookie he
  simp [this]

/-! ### `Destroy` -/

theorem destroy_ok_iff (s : State) (h : Nat) (c : Bool) :
    (destroy s h c).2.1 = true ↔ s.fails.headD false = false ∧ c = true := by
  rw [destroy_eq, cacheDelete_eq]
  rcases headD_false_or_true s.fails with hf | hf
  · rw [hf]; cases c <;> simp
  · rw [hf]; simp

/-- `Destroy` whose `DeleteSession` fails: error, one `delFail` event, no cookie. The cache entry is dropped
although the record stays (`cache.Delete` removes the entry first); faithful to the Go code. Also faithful:
without a request cookie `Destroy` returns an error *after* having deleted the session (`destroy_ok_iff`). -/
theorem destroy_delFail {s : State} (h : Nat) (c : Bool) (hf : s.fails.headD false = true) :
    destroy s h c = ({ s.pop with cache := erase (s.obj h).id s.cache }, false, [.delFail (s.obj h).id]) := by
  rw [destroy_eq, cacheDelete_eq, hf]; simp

theorem destroy_delOk {s : State} (h : Nat) (c : Bool) (hf : s.fails.headD false = false) :
    destroy s h c =
      ({ s.pop with cache := erase (s.obj h).id s.cache, store := erase (s.obj h).id s.store }, c,
        if c = true then [.del (s.obj h).id, .delCookie] else [.del (s.obj h).id]) := by
  rw [destroy_eq, cacheDelete_eq, hf]; cases c <;> simp

/-! ## The events of successful cache calls: the only failures are failed compaction flushes -/

/-- the events that tell of a failed persistence call (`loadErr` accompanies `userFail`: the decoder gave up) -/
def FailureEv (e : Ev) : Prop := isFailEv e = true ∨ ∃ id, e = .loadErr id

/-- every failure event of `evs` is a failed save of an id satisfying `K` -/
def OnlySaveFails (K : ID → Prop) (evs : List Ev) : Prop := ∀ e ∈ evs, FailureEv e → ∃ k, e = .saveFail k ∧ K k

/-- `k` is a key of the cache `c` -/
def CacheKey (c : List (ID × Nat)) (k : ID) : Prop := ∃ x, (k, x) ∈ c

@[simp] theorem failureEv_save (k : ID) (r : Rec) : ¬ FailureEv (.save k r) := by simp [FailureEv, isFailEv]
@[simp] theorem failureEv_load (k : ID) (b : Bool) : ¬ FailureEv (.load k b) := by simp [FailureEv, isFailEv]
@[simp] theorem failureEv_user (u : String) : ¬ FailureEv (.user u) := by simp [FailureEv, isFailEv]
@[simp] theorem failureEv_users (u : String) : ¬ FailureEv (.users u) := by simp [FailureEv, isFailEv]
@[simp] theorem failureEv_del (k : ID) : ¬ FailureEv (.del k) := by simp [FailureEv, isFailEv]
@[simp] theorem failureEv_setCookie (k : ID) : ¬ FailureEv (.setCookie k) := by simp [FailureEv, isFailEv]
@[simp] theorem failureEv_delCookie : ¬ FailureEv .delCookie := by simp [FailureEv, isFailEv]
@[simp] theorem failureEv_saveFail (k : ID) : FailureEv (.saveFail k) := Or.inl rfl
@[simp] theorem failureEv_loadFail (k : ID) : FailureEv (.loadFail k) := Or.inl rfl
@[simp] theorem failureEv_loadErr (k : ID) : FailureEv (.loadErr k) := Or.inr ⟨k, rfl⟩
@[simp] theorem failureEv_userFail (u : String) : FailureEv (.userFail u) := Or.inl rfl
@[simp] theorem failureEv_usersFail (u : String) : FailureEv (.usersFail u) := Or.inl rfl
@[simp] theorem failureEv_delFail (k : ID) : FailureEv (.delFail k) := Or.inl rfl

theorem OnlySaveFails.nil (K : ID → Prop) : OnlySaveFails K [] := by intro e he; cases he

theorem OnlySaveFails.append {K : ID → Prop} {e1 e2 : List Ev} (h1 : OnlySaveFails K e1) (h2 : OnlySaveFails K e2) : OnlySaveFails K (e1 ++ e2) := by
  intro e he hb
  rcases List.mem_append.1 he with he | he
  · exact h1 e he hb
  · exact h2 e he hb

theorem OnlySaveFails.mono {K K' : ID → Prop} {evs : List Ev} (h : OnlySaveFails K evs) (hk : ∀ k, K k → K' k) : OnlySaveFails K' evs := by
  intro e he hb
  obtain ⟨k, h1, h2⟩ := h e he hb
  exact ⟨k, h1, hk k h2⟩

theorem OnlySaveFails.of_not_bad {K : ID → Prop} {evs : List Ev} (h : ∀ e ∈ evs, ¬ FailureEv e) : OnlySaveFails K evs :=
  fun e he hb => absurd hb (h e he)

theorem OnlySaveFails.left {K : ID → Prop} {e1 e2 : List Ev} (h : OnlySaveFails K (e1 ++ e2)) : OnlySaveFails K e1 :=
  fun e he hb => h e (List.mem_append_left _ he) hb

theorem OnlySaveFails.right {K : ID → Prop} {e1 e2 : List Ev} (h : OnlySaveFails K (e1 ++ e2)) : OnlySaveFails K e2 :=
  fun e he hb => h e (List.mem_append_right _ he) hb

/-- flush events are clean w.r.t. the keys of the flushed cache -/
theorem OnlySaveFails.of_flush {cfg : Cfg} {c : List (ID × Nat)} {obj : Nat → Sess} {evs : List Ev}
    (h : ∀ e ∈ evs, IsFlush cfg c obj e) : OnlySaveFails (CacheKey c) evs := by
  intro e he hb
  obtain ⟨k, x, hm, h1 | h1⟩ := h e he
  · subst h1; exact absurd hb (failureEv_save _ _)
  · exact ⟨k, h1, x, hm⟩

/-- **`Set` that succeeds**: each failure event is a failed flush, by its compaction, of an entry of the cache
it was called on (the only persistence error `cache.Set` ignores). -/
theorem cacheSet_ok_fail_events {cfg : Cfg} {s : State} {h : Nat} (hok : (cacheSet cfg s h).2.1 = true) {e : Ev}
    (he : e ∈ (cacheSet cfg s h).2.2) (hb : FailureEv e) :
    e ∈ (setC cfg s h).2 ∧ ∃ k x, (k, x) ∈ s.cache ∧ e = .saveFail k := by
  rw [cacheSet_evs, if_pos hok] at he
  rcases List.mem_append.1 he with he | he
  · refine ⟨he, ?_⟩
    obtain ⟨k, x, hm, h1 | h1⟩ := (setC_flushed cfg s h).evs_flush e he
    · subst h1; exact absurd hb (failureEv_save _ _)
    · exact ⟨k, x, hm, h1⟩
  · rw [List.mem_singleton] at he; subst he; exact absurd hb (failureEv_save _ _)

theorem cacheSet_ok_clean {cfg : Cfg} {s : State} {h : Nat} (hok : (cacheSet cfg s h).2.1 = true) :
    OnlySaveFails (CacheKey s.cache) (cacheSet cfg s h).2.2 := by
  intro e he hb
  obtain ⟨_, k, x, hm, h1⟩ := cacheSet_ok_fail_events hok he hb
  exact ⟨k, h1, x, hm⟩

/-- the keys of the cache after `Set` -/
theorem cacheSet_keys {cfg : Cfg} {s : State} {h : Nat} {k : ID} (hk : CacheKey (cacheSet cfg s h).1.cache k) :
    CacheKey s.cache k ∨ k = (s.obj h).id := by
  obtain ⟨x, hx⟩ := hk
  rcases cacheSet_cache_mem cfg s h hx with h1 | h1
  · exact Or.inr (Prod.mk.inj h1).1
  · exact Or.inl ⟨x, h1.1⟩

theorem getOf_found_evs {cfg : Cfg} {id : ID} {s0 : State} {o : Sess} {e0 : List Ev} {e : Ev}
    (he : e ∈ (getOf cfg id (s0, .found o, e0)).2.2) : e ∈ e0 ∨ e ∈ (compact cfg 1 (s0.alloc o).2).2 := by
  rw [getOf_found] at he
  split at he
  · exact List.mem_append.1 he
  · exact Or.inl he

theorem getOf_found_evs_left {cfg : Cfg} {id : ID} {s0 : State} {o : Sess} {e0 : List Ev} {e : Ev}
    (he : e ∈ e0) : e ∈ (getOf cfg id (s0, .found o, e0)).2.2 := by
  rw [getOf_found]
  split
  · exact List.mem_append_left _ he
  · exact he

/-- **`Get` that does not fail**: each failure event is a failed flush (by the compaction that makes room for the
loaded session) of an entry of the cache it was called on; and when it loaded the session, the event
`load id true` is there. -/
theorem cacheGet_ok_spec (cfg : Cfg) (s : State) (id : ID) (hne : (cacheGet cfg s id).2.1 ≠ .err) :
    OnlySaveFails (CacheKey s.cache) (cacheGet cfg s id).2.2 ∧
    (lookup id s.cache = none → ∀ h, (cacheGet cfg s id).2.1 = .some h → .load id true ∈ (cacheGet cfg s id).2.2) := by
  have hcase := cacheGet_cases cfg s id
  generalize cacheGet cfg s id = out at hcase hne
  cases hcase with
  | hit h hc => exact ⟨OnlySaveFails.nil _, fun h1 => by rw [hc] at h1; cases h1⟩
  | miss x hc hl =>
    have found : ∀ (s0 : State) (o : Sess) (e0 : List Ev), s0.cache = s.cache → (∀ e ∈ e0, ¬ FailureEv e) → .load id true ∈ e0 →
        OnlySaveFails (CacheKey s.cache) (getOf cfg id (s0, .found o, e0)).2.2 ∧
        (lookup id s.cache = none → ∀ h, (getOf cfg id (s0, .found o, e0)).2.1 = .some h →
          .load id true ∈ (getOf cfg id (s0, .found o, e0)).2.2) := by
      intro s0 o e0 hc0 hnb hld
      refine ⟨?_, fun _ _ _ => getOf_found_evs_left hld⟩
      intro e he hb
      rcases getOf_found_evs he with he | he
      · exact absurd hb (hnb e he)
      · have fl := compact_flushed cfg 1 (s0.alloc o).2
        rw [alloc_cache, hc0] at fl
        exact OnlySaveFails.of_flush fl.evs_flush e he hb
    cases hl with
    | fail hf => exact absurd rfl hne
    | nil hf hl =>
      refine ⟨OnlySaveFails.of_not_bad ?_, fun _ h h1 => by cases h1⟩
      intro e he
      have : e = .load id false := by simpa [getOf] using he
      subst this; simp
    | plain r hf hl hu => exact found _ _ _ rfl (by simp) (by simp)
    | userFail r uid hf hl hu hf2 => exact absurd rfl hne
    | user r uid hf hl hu hf2 => exact found _ _ _ rfl (by simp) (by simp)

theorem cacheGet_ok_fail_events {cfg : Cfg} {s : State} {id : ID} (hne : (cacheGet cfg s id).2.1 ≠ .err) {e : Ev}
    (he : e ∈ (cacheGet cfg s id).2.2) (hb : FailureEv e) : ∃ k x, (k, x) ∈ s.cache ∧ e = .saveFail k := by
  obtain ⟨k, h1, x, hx⟩ := (cacheGet_ok_spec cfg s id hne).1 e he hb
  exact ⟨k, x, hx, h1⟩

/-- the keys of the cache after `Get`: old ones, or the requested id, which then was loaded -/
theorem cacheGet_keys {cfg : Cfg} {s : State} {id : ID} (hne : (cacheGet cfg s id).2.1 ≠ .err) {k : ID}
    (hk : CacheKey (cacheGet cfg s id).1.cache k) : CacheKey s.cache k ∨ (k = id ∧ .load id true ∈ (cacheGet cfg s id).2.2) := by
  obtain ⟨x, hx⟩ := hk
  rcases (cacheGet_spec cfg s id).cache_mem _ hx with h1 | ⟨h1, h2, h3⟩
  · exact Or.inl ⟨x, h1⟩
  · exact Or.inr ⟨(Prod.mk.inj h1).1, (cacheGet_ok_spec cfg s id hne).2 h3 _ h2⟩

/-! ### the user loops: `LogOut(uid)`, `RefreshUser` -/

/-- a failing `UserSessions` call is reported at once, nothing else happens -/
theorem forUser_usersFail {cfg : Cfg} {le : ID → ID → Bool} {s : State} {uid : String} {u : Option (String × Nat)}
    (hf : s.fails.headD false = true) : forUser cfg le s uid u = (s.pop, false, [.usersFail uid]) := by
  rw [forUser_eq, if_pos hf]

theorem logoutUser_usersFail {cfg : Cfg} {le : ID → ID → Bool} {s : State} {uid : String}
    (hf : s.fails.headD false = true) : logoutUser cfg le s uid = (s.pop, false, [.usersFail uid]) :=
  forUser_usersFail hf

/-- for `RefreshUser` the state is the one with the bumped user version -/
theorem refreshUser_usersFail {cfg : Cfg} {le : ID → ID → Bool} {s : State} {uid : String}
    (hf : s.fails.headD false = true) :
    refreshUser cfg le s uid = (({ s with vers := insert uid (s.ver uid + 1) s.vers } : State).pop, false, [.usersFail uid]) :=
  forUser_usersFail (s := { s with vers := insert uid (s.ver uid + 1) s.vers }) hf

/-- every failure event is a failed save and is followed, later, by a successful save: so it is not the
write-through save of the last `Set` (after which the loops return at once) but a flush of a compaction. -/
def FailsFollowed : List Ev → Prop
  | [] => True
  | e :: l => (FailureEv e → (∃ k, e = .saveFail k) ∧ ∃ k r, Ev.save k r ∈ l) ∧ FailsFollowed l

theorem FailsFollowed.of_not_bad : ∀ {l : List Ev}, (∀ e ∈ l, ¬ FailureEv e) → FailsFollowed l
  | [], _ => trivial
  | e :: _, h => ⟨fun hb => absurd hb (h e List.mem_cons_self),
      FailsFollowed.of_not_bad (fun e he => h e (List.mem_cons_of_mem _ he))⟩

theorem FailsFollowed.append : ∀ {l1 l2 : List Ev}, FailsFollowed l1 → FailsFollowed l2 → FailsFollowed (l1 ++ l2)
  | [], _, _, h2 => h2
  | e :: l, l2, h1, h2 => by
    refine ⟨fun hb => ?_, FailsFollowed.append h1.2 h2⟩
    obtain ⟨hk, k, r, hm⟩ := h1.1 hb
    exact ⟨hk, k, r, List.mem_append_left _ hm⟩

theorem FailsFollowed.append_save : ∀ {l1 l2 : List Ev}, (∀ e ∈ l1, FailureEv e → ∃ k, e = .saveFail k) →
    (∃ k r, Ev.save k r ∈ l2) → FailsFollowed l2 → FailsFollowed (l1 ++ l2)
  | [], _, _, _, h2 => h2
  | e :: l, l2, h1, hs, h2 => by
    refine ⟨fun hb => ⟨h1 e List.mem_cons_self hb, ?_⟩,
      FailsFollowed.append_save (fun e he => h1 e (List.mem_cons_of_mem _ he)) hs h2⟩
    obtain ⟨k, r, hm⟩ := hs
    exact ⟨k, r, List.mem_append_right _ hm⟩

theorem FailsFollowed.mem : ∀ {l : List Ev}, FailsFollowed l → ∀ e ∈ l, FailureEv e → (∃ k, e = .saveFail k) ∧ ∃ k r, Ev.save k r ∈ l
  | [], _, e, he, _ => by cases he
  | a :: l, h, e, he, hb => by
    rcases List.mem_cons.1 he with rfl | he
    · obtain ⟨hk, k, r, hm⟩ := h.1 hb
      exact ⟨hk, k, r, List.mem_cons_of_mem _ hm⟩
    · obtain ⟨hk, k, r, hm⟩ := FailsFollowed.mem h.2 e he hb
      exact ⟨hk, k, r, List.mem_cons_of_mem _ hm⟩

/-- in particular the last event is not a failure -/
theorem FailsFollowed.last : ∀ {l : List Ev}, FailsFollowed l → ∀ e, l.getLast? = some e → ¬ FailureEv e
  | [], _, e, he => by simp at he
  | [a], h, e, he => by
    simp at he; subst he
    intro hb; obtain ⟨_, k, r, hm⟩ := h.1 hb; cases hm
  | a :: b :: l, h, e, he => by
    rw [List.getLast?_cons_cons] at he
    exact FailsFollowed.last h.2 e he

theorem cacheSet_ok_followed {cfg : Cfg} {s : State} {h : Nat} (hok : (cacheSet cfg s h).2.1 = true) :
    FailsFollowed (cacheSet cfg s h).2.2 := by
  rw [cacheSet_evs, if_pos hok]
  refine FailsFollowed.append_save ?_ ⟨_, _, List.mem_singleton.2 rfl⟩ (FailsFollowed.of_not_bad (by simp))
  intro e he _
  rcases (setC_flushed cfg s h).ev_cases he with ⟨k, r, rfl⟩ | ⟨k, rfl⟩
  · rename_i hb; exact absurd hb (failureEv_save _ _)
  · exact ⟨k, rfl⟩

theorem cacheSet_ok_save_mem {cfg : Cfg} {s : State} {h : Nat} (hok : (cacheSet cfg s h).2.1 = true) :
    Ev.save (s.obj h).id (enc cfg.codec ((cacheSet cfg s h).1.obj h)) ∈ (cacheSet cfg s h).2.2 := by
  have h1 := cacheSet_evs cfg s h
  rw [if_pos hok] at h1
  rw [h1]; exact List.mem_append_right _ (List.mem_singleton.2 rfl)

theorem cacheSet_ok_has_save {cfg : Cfg} {s : State} {h : Nat} (hok : (cacheSet cfg s h).2.1 = true) :
    ∃ k r, Ev.save k r ∈ (cacheSet cfg s h).2.2 := by
  rw [cacheSet_evs, if_pos hok]
  exact ⟨_, _, List.mem_append_right _ (List.mem_singleton.2 rfl)⟩

/-- **a user loop that reports success**: no load failed, and every `Set` of the loop succeeded — the failure
events are failed saves each followed by a later successful save, i.e. failed compaction flushes. -/
theorem setUserAll_true_clean (cfg : Cfg) (u : Option (String × Nat)) :
    ∀ (ids : List ID) (s : State), (setUserAll cfg u ids s).2.1 = true → FailsFollowed (setUserAll cfg u ids s).2.2
  | [], s, _ => by rw [setUserAll_nil]; trivial
  | id :: rest, s, hok => by
    rcases hg : cacheGet cfg s id with ⟨s1, res, e1⟩
    have hspec := cacheGet_spec cfg s id
    rw [hg] at hspec
    cases res with
    | err => rw [setUserAll_cons_err hg] at hok; cases hok
    | nil =>
      rw [setUserAll_cons_nil hg] at hok ⊢
      have he1 : e1 = [.load id false] := (hspec.nil_evs rfl).1
      exact FailsFollowed.append (FailsFollowed.of_not_bad (by subst he1; simp))
        (setUserAll_true_clean cfg u rest s1 hok)
    | some h =>
      rw [setUserAll_cons_some hg] at hok ⊢
      by_cases hU : (userSet cfg u s1 h).2.1 = false
      · rw [if_pos hU] at hok; cases hok
      · rw [if_neg hU] at hok ⊢
        have hU' : (userSet cfg u s1 h).2.1 = true := by simpa using hU
        have hclean : ∀ e ∈ e1, FailureEv e → ∃ k, e = .saveFail k := by
          intro e he hb
          have := cacheGet_ok_fail_events (cfg := cfg) (s := s) (id := id) (by rw [hg]; simp) (e := e) (by rw [hg]; exact he) hb
          obtain ⟨k, _, _, h1⟩ := this
          exact ⟨k, h1⟩
        exact FailsFollowed.append
          (FailsFollowed.append_save hclean (cacheSet_ok_has_save hU') (cacheSet_ok_followed hU'))
          (setUserAll_true_clean cfg u rest _ hok)

/-- corollary: a loop that reports success logged no `loadFail`, `userFail`, `loadErr` (nor any other failure but
`saveFail`), and its last event is not a failure. -/
theorem setUserAll_true_fail_events {cfg : Cfg} {u : Option (String × Nat)} {ids : List ID} {s : State}
    (hok : (setUserAll cfg u ids s).2.1 = true) {e : Ev} (he : e ∈ (setUserAll cfg u ids s).2.2) (hb : FailureEv e) :
    ∃ k, e = .saveFail k :=
  ((setUserAll_true_clean cfg u ids s hok).mem e he hb).1

theorem setUserAll_true_no_load_fail {cfg : Cfg} {u : Option (String × Nat)} {ids : List ID} {s : State}
    (hok : (setUserAll cfg u ids s).2.1 = true) :
    (∀ id, Ev.loadFail id ∉ (setUserAll cfg u ids s).2.2) ∧ (∀ x, Ev.userFail x ∉ (setUserAll cfg u ids s).2.2) ∧
    (∀ id, Ev.loadErr id ∉ (setUserAll cfg u ids s).2.2) := by
  refine ⟨?_, ?_, ?_⟩ <;> intro x hm <;> obtain ⟨k, h1⟩ := setUserAll_true_fail_events hok hm (by simp) <;> cases h1

theorem setUserAll_true_last {cfg : Cfg} {u : Option (String × Nat)} {ids : List ID} {s : State}
    (hok : (setUserAll cfg u ids s).2.1 = true) {e : Ev} (he : (setUserAll cfg u ids s).2.2.getLast? = some e) :
    ¬ FailureEv e :=
  (setUserAll_true_clean cfg u ids s hok).last e he

theorem getLast?_append_some {l1 l2 : List Ev} {e : Ev} (h : l2.getLast? = some e) : (l1 ++ l2).getLast? = some e := by
  rw [List.getLast?_append, h]; rfl

/-- **a user loop that reports failure** ends with the event of the failed call: a failed load (of the record, or
of its user: `loadErr`) or the failed write-through save of a `Set`. -/
theorem setUserAll_false_last (cfg : Cfg) (u : Option (String × Nat)) :
    ∀ (ids : List ID) (s : State), (setUserAll cfg u ids s).2.1 = false →
      ∃ e, (setUserAll cfg u ids s).2.2.getLast? = some e ∧
        ((∃ k, e = .loadFail k) ∨ (∃ k, e = .loadErr k) ∨ (∃ k, e = .saveFail k))
  | [], s, hf => by rw [setUserAll_nil] at hf; cases hf
  | id :: rest, s, hf => by
    rcases hg : cacheGet cfg s id with ⟨s1, res, e1⟩
    have hspec := cacheGet_spec cfg s id
    rw [hg] at hspec
    cases res with
    | err =>
      rw [setUserAll_cons_err hg]
      rcases (hspec.err_evs rfl).2.2.2.2 with h1 | ⟨uid, h1⟩
      · exact ⟨_, by rw [h1]; rfl, Or.inl ⟨id, rfl⟩⟩
      · exact ⟨_, by rw [h1]; rfl, Or.inr (Or.inl ⟨id, rfl⟩)⟩
    | nil =>
      rw [setUserAll_cons_nil hg] at hf ⊢
      obtain ⟨e, h1, h2⟩ := setUserAll_false_last cfg u rest s1 hf
      exact ⟨e, getLast?_append_some h1, h2⟩
    | some h =>
      rw [setUserAll_cons_some hg] at hf ⊢
      by_cases hU : (userSet cfg u s1 h).2.1 = false
      · rw [if_pos hU]
        exact ⟨_, getLast?_append_some ((cacheSet_false_iff cfg _ h).1 hU), Or.inr (Or.inr ⟨_, rfl⟩)⟩
      · rw [if_neg hU] at hf ⊢
        obtain ⟨e, h1, h2⟩ := setUserAll_false_last cfg u rest _ hf
        exact ⟨e, getLast?_append_some h1, h2⟩

/-- `LogOut(uid)` / `RefreshUser` reporting success -/
theorem forUser_true_clean {cfg : Cfg} {le : ID → ID → Bool} {s : State} {uid : String} {u : Option (String × Nat)}
    (hok : (forUser cfg le s uid u).2.1 = true) :
    s.fails.headD false = false ∧ FailsFollowed (forUser cfg le s uid u).2.2 := by
  rw [forUser_eq] at hok ⊢
  by_cases hf : s.fails.headD false = true
  · rw [if_pos hf] at hok; cases hok
  · rw [if_neg hf] at hok ⊢
    refine ⟨by simpa using hf, ?_⟩
    exact FailsFollowed.append (l1 := [.users uid]) (FailsFollowed.of_not_bad (by simp)) (setUserAll_true_clean cfg u _ _ hok)

/-- `LogOut(uid)` / `RefreshUser` reporting failure: the last event is the failed call -/
theorem forUser_false_last {cfg : Cfg} {le : ID → ID → Bool} {s : State} {uid : String} {u : Option (String × Nat)}
    (hf : (forUser cfg le s uid u).2.1 = false) :
    ∃ e, (forUser cfg le s uid u).2.2.getLast? = some e ∧
      (e = .usersFail uid ∨ (∃ k, e = .loadFail k) ∨ (∃ k, e = .loadErr k) ∨ (∃ k, e = .saveFail k)) := by
  rw [forUser_eq] at hf ⊢
  by_cases hh : s.fails.headD false = true
  · rw [if_pos hh]; exact ⟨_, rfl, Or.inl rfl⟩
  · rw [if_neg hh] at hf ⊢
    obtain ⟨e, h1, h2⟩ := setUserAll_false_last cfg u _ _ hf
    exact ⟨e, getLast?_append_some (l1 := [.users uid]) h1, Or.inr h2⟩

/-! ### `LogIn` -/

theorem hlogin_err_iff (cfg : Cfg) (le : ID → ID → Bool) (s : State) (h : Nat) (uid : String) (excl : Bool) :
    (hlogin cfg le s h uid excl).2.1 = .err ↔
      (loginPre cfg le s h uid excl).2.1 = false ∨ (loginSet cfg le s h uid excl).2.1 = false ∨
        (regenerate cfg (loginSet cfg le s h uid excl).1 h).2.1 = false := by
  rw [hlogin_eq]
  by_cases h1 : (loginPre cfg le s h uid excl).2.1 = false
  · simp [h1]
  · by_cases h2 : (loginSet cfg le s h uid excl).2.1 = false
    · simp [h1, h2]
    · simp [h1, h2, hres_err_iff]

theorem hlogin_ok_or_err (cfg : Cfg) (le : ID → ID → Bool) (s : State) (h : Nat) (uid : String) (excl : Bool) :
    (hlogin cfg le s h uid excl).2.1 = .ok ∨ (hlogin cfg le s h uid excl).2.1 = .err := by
  rw [hlogin_eq]
  split
  · exact Or.inr rfl
  · split
    · exact Or.inr rfl
    · cases (regenerate cfg (loginSet cfg le s h uid excl).1 h).2.1
      · exact Or.inr rfl
      · exact Or.inl rfl

theorem hlogin_ok_iff (cfg : Cfg) (le : ID → ID → Bool) (s : State) (h : Nat) (uid : String) (excl : Bool) :
    (hlogin cfg le s h uid excl).2.1 = .ok ↔
      (loginPre cfg le s h uid excl).2.1 = true ∧ (loginSet cfg le s h uid excl).2.1 = true ∧
        (regenerate cfg (loginSet cfg le s h uid excl).1 h).2.1 = true := by
  have h1 := hlogin_err_iff cfg le s h uid excl
  rcases hlogin_ok_or_err cfg le s h uid excl with h2 | h2
  · rw [h2] at h1 ⊢
    simp only [reduceCtorEq, false_iff, not_or, Bool.not_eq_false] at h1
    simp [h1]
  · rw [h2] at h1 ⊢
    have := h1.1 rfl
    simp only [reduceCtorEq, false_iff, not_and, Bool.not_eq_true]
    intro a b
    rcases this with h | h | h
    · rw [h] at a; cases a
    · rw [h] at b; cases b
    · exact h

/-- an exclusive `LogIn` whose `UserSessions` call fails: error, one event, nothing else happens -/
theorem hlogin_usersFail {cfg : Cfg} {le : ID → ID → Bool} {s : State} {h : Nat} {uid : String} {excl : Bool}
    (he : excl = true) (hf : s.fails.headD false = true) : hlogin cfg le s h uid excl = (s.pop, .err, [.usersFail uid]) := by
  subst he
  have hP : loginPre cfg le s h uid true = (s.pop, false, [.usersFail uid]) := by
    unfold loginPre; rw [if_pos rfl]; exact logoutUser_usersFail hf
  rw [hlogin_eq, hP]; rfl

/-- a non-exclusive `LogIn` never fails in its first phase: the result of `s.LogOut()` is discarded (as in the
Go code, `LogIn` calls `s.LogOut()` as a statement), its `saveFail` event is the only trace. -/
theorem loginPre_nonexcl (cfg : Cfg) (le : ID → ID → Bool) (s : State) (h : Nat) (uid : String) :
    (loginPre cfg le s h uid false).2.1 = true ∧ (loginPre cfg le s h uid false).2.2 = (hlogout cfg s h).2.2 := by
  unfold loginPre; simp

/-! ### examples for (c) -/

def fxH : State := { heap := [{ id := .lit "a", created := 0, lastAccess := 0, user := some ("u", 0) }], cache := [(.lit "a", 0)], fails := [true] }
example : (hset {} fxH 0 "k" (.int 1)).2.1 = .err ∧ (hset {} fxH 0 "k" (.int 1)).2.2 = [.saveFail (.lit "a")] ∧
    (hset {} fxH 0 "k" (.int 1)).1.store = fxH.store := by decide
example : (hset {} fxH 0 "k" (.int 1)).2.1 = .err := (hset_err_iff (d := []) "k" (.int 1) rfl).2 rfl
example : (hset {} { fxH with fails := [] } 0 "k" (.int 1)).2.1 = .ok := by decide
example : (hdel {} fxH 0 "k").2 = (.err, [.saveFail (.lit "a")]) := by decide
example : (hlogout {} fxH 0).2 = (.err, [.saveFail (.lit "a")]) := by decide
example : (hlogout {} { fxH with fails := [] } 0).2.1 = .ok := by decide

def fxG : State := { heap := [{ id := .lit "a", created := 0, lastAccess := 0, data := some [("k", .int 1)] }], fails := [true] }
example : (hgetdel {} fxG 0 "k").2 = (.val (.int 1), [.saveFail (.lit "a")]) := by decide
example : (hgetdel {} fxG 0 "z").2 = (.val .null, []) := by decide

example : (cacheSet {} fxH 0).2 = (false, [.saveFail (.lit "a")]) := by decide

/-- `RegenerateID`: the second `Set` fails, resp. the first -/
example : (regenerate {} { fxH with fails := [false, true] } 0).2.1 = false ∧
    (regenerate {} { fxH with fails := [false, true] } 0).2.2.getLast? = some (.saveFail (.lit "a")) ∧
    (regenerate {} { fxH with fails := [false, true] } 0).2.2.filter isCookie = [] := by decide
example : (regenerate {} fxH 0).2.1 = false ∧ (regenerate {} fxH 0).2.2 = [.saveFail (.gen 0)] := by decide

example : destroy fxH 0 true = ({ fxH with fails := [], cache := [] }, false, [.delFail (.lit "a")]) :=
  destroy_delFail 0 true rfl
/-- no request cookie: the session is deleted and an error is returned -/
example : (destroy { fxH with fails := [] } 0 false).2 = (false, [.del (.lit "a")]) := by decide

def fxU : State := { heap := [{ id := .lit "c", created := 0, lastAccess := 0 }], cache := [(.lit "c", 0)], store := [(.lit "a", { user := some "u", created := 0, lastAccess := 0 }), (.lit "b", { user := some "u", created := 0, lastAccess := 0 })] }
def fxUCfg : Cfg := { maxCache := 1 }

/-- a loop that succeeds although a compaction flush failed -/
example : (setUserAll fxUCfg none [.lit "a", .lit "b"] { fxU with fails := [false, false, true] }).2.1 = true ∧
    Ev.saveFail (.lit "c") ∈ (setUserAll fxUCfg none [.lit "a", .lit "b"] { fxU with fails := [false, false, true] }).2.2 := by
  decide
/-- loops that fail: at the load, at the user load, at the write-through save -/
example : (setUserAll fxUCfg none [.lit "a", .lit "b"] { fxU with fails := [true] }).2 = (false, [.loadFail (.lit "a")]) := by decide
example : (setUserAll fxUCfg none [.lit "a", .lit "b"] { fxU with fails := [false, true] }).2 =
    (false, [.load (.lit "a") true, .userFail "u", .loadErr (.lit "a")]) := by decide
example : (setUserAll fxUCfg none [.lit "a", .lit "b"] { fxU with fails := [false, false, false, true] }).2.1 = false ∧
    (setUserAll fxUCfg none [.lit "a", .lit "b"] { fxU with fails := [false, false, false, true] }).2.2.getLast? =
      some (.saveFail (.lit "a")) := by decide

example : logoutUser {} (fun _ _ => true) { fxU with fails := [true] } "u" = ({ fxU with fails := [] }, false, [.usersFail "u"]) :=
  logoutUser_usersFail rfl
example : hlogin {} (fun _ _ => true) { fxU with fails := [true] } 0 "u" true = ({ fxU with fails := [] }, .err, [.usersFail "u"]) :=
  hlogin_usersFail rfl rfl
/-- `LogIn`, not exclusive: the failed save of `s.LogOut()` is not reported (Go ignores it), the call succeeds -/
def fxL : State := { heap := [{ id := .lit "a", created := 0, lastAccess := 0, user := some ("v", 0) }], cache := [(.lit "a", 0)], fails := [true] }
example : (hlogin {} (fun _ _ => true) fxL 0 "u" false).2.1 = .ok ∧
    Ev.saveFail (.lit "a") ∈ (hlogin {} (fun _ _ => true) fxL 0 "u" false).2.2 := by decide

/-! ## (a) a `Start` that reports no error made no failed call — but for ignored compaction flushes -/

/-- `cache.Get` in equational form -/
theorem cacheGet_ok_eq {cfg : Cfg} {s s1 : State} {id : ID} {res : GetRes} {e1 : List Ev}
    (hg : cacheGet cfg s id = (s1, res, e1)) (hne : res ≠ .err) :
    OnlySaveFails (CacheKey s.cache) e1 ∧ (∀ k, CacheKey s1.cache k → CacheKey s.cache k ∨ (k = id ∧ .load id true ∈ e1)) ∧
      s1.nextId = s.nextId := by
  have hne' : (cacheGet cfg s id).2.1 ≠ .err := by rw [hg]; exact hne
  have h1 := (cacheGet_ok_spec cfg s id hne').1
  have h2 := fun k => cacheGet_keys (cfg := cfg) (s := s) (id := id) hne' (k := k)
  have h3 := (cacheGet_spec cfg s id).nextId
  rw [hg] at h1 h2 h3
  exact ⟨h1, h2, h3⟩

/-- the events of a `createNew` that reports no error: what came before, then clean events -/
theorem createNew_ok_evs {cfg : Cfg} {s : State} {r : Req} {pre : List Ev}
    (hok : ∀ m, (createNew cfg s r pre).2.1 ≠ .err m) :
    ∃ tl, (createNew cfg s r pre).2.2 = pre ++ tl ∧ OnlySaveFails (CacheKey s.cache) tl := by
  cases hc : r.create with
  | false => rw [createNew_no pre hc]; exact ⟨[], by simp, OnlySaveFails.nil _⟩
  | true =>
    rw [createNew_yes pre hc] at hok ⊢
    by_cases hS : (cacheSet cfg (newS1 s r) s.heap.length).2.1 = false
    · rw [if_pos hS] at hok; exact absurd rfl (hok _)
    · rw [if_neg hS]
      have hS' : (cacheSet cfg (newS1 s r) s.heap.length).2.1 = true := by simpa using hS
      refine ⟨(cacheSet cfg (newS1 s r) s.heap.length).2.2 ++ [.setCookie (ID.gen s.nextId)], by simp, ?_⟩
      exact OnlySaveFails.append (cacheSet_ok_clean hS') (OnlySaveFails.of_not_bad (by simp))

/-- **`createNew` without error**: every failure event it adds is a failed flush of an entry of the cache -/
theorem createNew_ok_fail_events {cfg : Cfg} {s : State} {r : Req} {pre : List Ev}
    (hok : ∀ m, (createNew cfg s r pre).2.1 ≠ .err m) {e : Ev} (he : e ∈ (createNew cfg s r pre).2.2) (hb : FailureEv e) :
    e ∈ pre ∨ ∃ k x, (k, x) ∈ s.cache ∧ e = .saveFail k := by
  obtain ⟨tl, h1, h2⟩ := createNew_ok_evs hok
  rw [h1] at he
  rcases List.mem_append.1 he with he | he
  · exact Or.inl he
  · obtain ⟨k, hk, x, hx⟩ := h2 e he hb
    exact Or.inr ⟨k, x, hx, hk⟩

/-- **`RegenerateID` that succeeds**: every failure event is a failed flush of an entry of the cache it was called
on, or of the entry its first `Set` inserted (the session under its new id, whose write-through save succeeded and
is among the events) flushed by the compaction of the second `Set` — which happens e.g. with `maxCache = 1`. -/
theorem regenerate_ok_clean {cfg : Cfg} {s : State} {h : Nat} (hok : (regenerate cfg s h).2.1 = true) :
    OnlySaveFails (fun k => CacheKey s.cache k ∨ (k = ((regenS0 s h).obj h).id ∧ ∃ r, Ev.save k r ∈ (regenerate cfg s h).2.2))
      (regenerate cfg s h).2.2 := by
  obtain ⟨hA, hB⟩ := (regenerate_true_iff cfg s h).1 hok
  rw [regenerate_ok_evs hok]
  refine OnlySaveFails.append (OnlySaveFails.append ?_ ?_) (OnlySaveFails.of_not_bad (by simp))
  · exact (cacheSet_ok_clean hA).mono (fun k hk => Or.inl hk)
  · refine (cacheSet_ok_clean hB).mono (fun k hk => ?_)
    have hk' : CacheKey (regenA cfg s h).1.cache k := hk
    rcases cacheSet_keys hk' with h1 | h1
    · exact Or.inl h1
    · refine Or.inr ⟨h1, enc cfg.codec ((regenA cfg s h).1.obj h), ?_⟩
      rw [h1]
      exact List.mem_append_left _ (List.mem_append_left _ (cacheSet_ok_save_mem hA))

theorem regenerate_ok_fail_events {cfg : Cfg} {s : State} {h : Nat} (hok : (regenerate cfg s h).2.1 = true) {e : Ev}
    (he : e ∈ (regenerate cfg s h).2.2) (hb : FailureEv e) :
    ∃ k, e = .saveFail k ∧
      ((∃ x, (k, x) ∈ s.cache) ∨ (k = ((regenS0 s h).obj h).id ∧ ∃ r, Ev.save k r ∈ (regenerate cfg s h).2.2)) :=
  regenerate_ok_clean hok e he hb

theorem regenerate_ok_fail_events_valid {cfg : Cfg} {s : State} {h : Nat} (hv : h < s.heap.length)
    (hok : (regenerate cfg s h).2.1 = true) {e : Ev} (he : e ∈ (regenerate cfg s h).2.2) (hb : FailureEv e) :
    ∃ k, e = .saveFail k ∧
      ((∃ x, (k, x) ∈ s.cache) ∨ (k = ID.gen s.nextId ∧ ∃ r, Ev.save k r ∈ (regenerate cfg s h).2.2)) := by
  have := regenerate_ok_fail_events hok he hb
  rwa [regenS0_obj_id_valid hv] at this

/-- following the reference chain without error -/
theorem follow_ok_clean (cfg : Cfg) : ∀ (n : Nat) (s : State) (h : Nat), (follow cfg n s h).2.1 ≠ .err →
    OnlySaveFails (fun k => CacheKey s.cache k ∨ .load k true ∈ (follow cfg n s h).2.2) (follow cfg n s h).2.2
  | 0, s, h, _ => by rw [follow_zero]; exact OnlySaveFails.nil _
  | n + 1, s, h, hne => by
    cases href : (s.obj h).ref with
    | none => rw [follow_succ_none n href]; exact OnlySaveFails.nil _
    | some tgt =>
      rw [follow_succ_some n href] at hne ⊢
      rcases hg : cacheGet cfg s tgt with ⟨s1, res, e1⟩
      rw [hg] at hne
      cases res with
      | err => exact absurd rfl hne
      | nil =>
        obtain ⟨h1, _, _⟩ := cacheGet_ok_eq hg (by simp)
        exact h1.mono (fun k hk => Or.inl hk)
      | some h2 =>
        obtain ⟨h1, h2', _⟩ := cacheGet_ok_eq hg (by simp)
        have hne2 : (follow cfg n s1 h2).2.1 ≠ .err := hne
        have ih := follow_ok_clean cfg n s1 h2 hne2
        show OnlySaveFails _ (e1 ++ (follow cfg n s1 h2).2.2)
        refine OnlySaveFails.append (h1.mono (fun k hk => Or.inl hk)) (ih.mono (fun k hk => ?_))
        rcases hk with hk | hk
        · rcases h2' k hk with h3 | ⟨rfl, h3⟩
          · exact Or.inl h3
          · exact Or.inr (List.mem_append_left _ h3)
        · exact Or.inr (List.mem_append_right _ hk)

/-- a dangling handle reads the default object -/
theorem obj_oob_id {s : State} {h : Nat} (hv : ¬ h < s.heap.length) : (s.obj h).id = ID.lit "" := by
  simp only [State.obj, List.getD_eq_getElem?_getD]
  rw [List.getElem?_eq_none (Nat.le_of_not_lt hv)]; rfl

/-- Where the id of a failed (ignored) compaction flush during `Start` comes from: it was a key of the cache at
the start, or it was loaded into the cache by this call, or it is the id minted by this call (and then the
write-through save of the new id succeeded: its `save` event is there); the last disjunct can only occur in a state whose cache holds a dangling handle (then `RegenerateID` reads the default object, id `""`). -/
def FlushProv (s : State) (evs : List Ev) (k : ID) : Prop :=
  CacheKey s.cache k ∨ Ev.load k true ∈ evs ∨ (k = ID.gen s.nextId ∧ ∃ r, Ev.save k r ∈ evs) ∨
    (k = ID.lit "" ∧ ∃ k' x, (k', x) ∈ s.cache ∧ ¬ x < s.heap.length)

theorem startInvalid_ok_clean {cfg : Cfg} {s1 : State} {h : Nat} {r : Req} {e1 : List Ev}
    (hok : ∀ m, (startInvalid cfg s1 h r e1).2.1 ≠ .err m) :
    ∃ tl, (startInvalid cfg s1 h r e1).2.2 = e1 ++ tl ∧ OnlySaveFails (CacheKey s1.cache) tl := by
  unfold startInvalid at hok ⊢
  by_cases hD : (destroy s1 h true).2.1 = false
  · rw [if_pos hD] at hok; exact absurd rfl (hok _)
  · rw [if_neg hD] at hok ⊢
    have hf : s1.fails.headD false = false := ((destroy_ok_iff s1 h true).1 (by simpa using hD)).1
    rw [destroy_delOk h true hf] at hok ⊢
    obtain ⟨tl, h1, h2⟩ := createNew_ok_evs hok
    refine ⟨[.del (s1.obj h).id, .delCookie] ++ tl, by rw [h1]; simp, ?_⟩
    refine OnlySaveFails.append (OnlySaveFails.of_not_bad (by simp)) (h2.mono ?_)
    rintro k ⟨x, hx⟩
    exact ⟨x, mem_of_mem_erase hx⟩

theorem startValid_ok_clean {cfg : Cfg} {s1 : State} {id : ID} {h : Nat} {r : Req} {e1 : List Ev}
    (hok : ∀ m, (startValid cfg s1 id h r e1).2.1 ≠ .err m) :
    ∃ tl, (startValid cfg s1 id h r e1).2.2 = e1 ++ tl ∧
      OnlySaveFails (fun k => CacheKey s1.cache k ∨ Ev.load k true ∈ tl ∨ (k = ((regenS0 s1 h).obj h).id ∧ ∃ r, Ev.save k r ∈ tl)) tl := by
  cases href : (s1.obj h).ref with
  | none =>
    by_cases hage : since s1.now (s1.obj h).created ≥ cfg.idExpiry
    · rw [startValid_rotate id r e1 href hage] at hok ⊢
      by_cases hR : (regenerate cfg s1 h).2.1 = false
      · rw [if_pos hR] at hok; exact absurd rfl (hok _)
      · rw [if_neg hR]
        refine ⟨_, rfl, (regenerate_ok_clean (by simpa using hR)).mono ?_⟩
        rintro k (hk | hk)
        · exact Or.inl hk
        · exact Or.inr (Or.inr hk)
    · rw [startValid_young id r e1 href (by omega)]
      exact ⟨[], by simp, OnlySaveFails.nil _⟩
  | some t =>
    by_cases hage : since s1.now (s1.obj h).created ≥ cfg.idExpiry ∧ since s1.now (s1.obj h).created - cfg.idExpiry ≥ cfg.grace
    · rw [startValid_ref_expired id r e1 href hage] at hok
      split at hok <;> exact absurd rfl (hok _)
    · rw [startValid_ref id r e1 href hage] at hok ⊢
      have hfo := follow_ok_clean cfg (s1.store.length + s1.cache.length + 1) s1 h
      rcases hF : follow cfg (s1.store.length + s1.cache.length + 1) s1 h with ⟨s2, res2, e2⟩
      rw [hF] at hok hfo
      cases res2 with
      | err => exact absurd rfl (hok _)
      | nil => exact absurd rfl (hok _)
      | some h2 =>
        refine ⟨e2 ++ [.setCookie (s2.obj h2).id], by simp [startRef], ?_⟩
        refine OnlySaveFails.append ((hfo (by simp)).mono ?_) (OnlySaveFails.of_not_bad (by simp))
        rintro k (hk | hk)
        · exact Or.inl hk
        · exact Or.inr (Or.inl (List.mem_append_left _ hk))

/-- **(a), general form, every state**: a `Start` that reports no error logged no failure event except failed saves,
each of an id that was in the cache before, or was loaded into it or minted by this call (`FlushProv`). -/
theorem startGot_ok_clean (cfg : Cfg) (r : Req) (id : ID) (s : State) :
    (∀ m, (startGot cfg r id (cacheGet cfg s id)).2.1 ≠ .err m) →
    OnlySaveFails (FlushProv s (startGot cfg r id (cacheGet cfg s id)).2.2) (startGot cfg r id (cacheGet cfg s id)).2.2 := by
  have hsv := (cacheGet_spec cfg s id).some_valid
  rcases hg : cacheGet cfg s id with ⟨s1, res, e1⟩
  rw [hg] at hsv
  intro hok
  cases res with
  | err => exact absurd rfl (hok _)
  | nil =>
    obtain ⟨h1, h2, _⟩ := cacheGet_ok_eq hg (by simp)
    simp only [startGot] at hok ⊢
    obtain ⟨tl, h3, h4⟩ := createNew_ok_evs hok
    rw [h3]
    refine OnlySaveFails.append (OnlySaveFails.append (h1.mono fun k hk => Or.inl hk) (OnlySaveFails.of_not_bad (by simp))) (h4.mono fun k hk => ?_)
    rcases h2 k hk with h5 | ⟨rfl, h5⟩
    · exact Or.inl h5
    · exact Or.inr (Or.inl (by simp [h5]))
  | some h =>
    obtain ⟨h1, h2, h3⟩ := cacheGet_ok_eq hg (by simp)
    simp only [startGot] at hok ⊢
    by_cases hval : validFor cfg s1.now (s1.obj h) r = false
    · rw [if_pos hval] at hok ⊢
      obtain ⟨tl, h4, h5⟩ := startInvalid_ok_clean hok
      rw [h4]
      refine OnlySaveFails.append (h1.mono fun k hk => Or.inl hk) (h5.mono fun k hk => ?_)
      rcases h2 k hk with h6 | ⟨rfl, h6⟩
      · exact Or.inl h6
      · exact Or.inr (Or.inl (by simp [h6]))
    · rw [if_neg hval] at hok ⊢
      obtain ⟨tl, h4, h5⟩ := startValid_ok_clean hok
      rw [h4]
      refine OnlySaveFails.append (h1.mono fun k hk => Or.inl hk) (h5.mono fun k hk => ?_)
      rcases hk with hk | hk | hk
      · rcases h2 k hk with h6 | ⟨rfl, h6⟩
        · exact Or.inl h6
        · exact Or.inr (Or.inl (by simp [h6]))
      · exact Or.inr (Or.inl (by simp [hk]))
      · obtain ⟨hk, rr, hsave⟩ := hk
        have hsave' : Ev.save k rr ∈ e1 ++ tl := List.mem_append_right _ hsave
        rw [regenS0_obj_id] at hk
        by_cases hh : h < s1.heap.length
        · rw [if_pos hh, h3] at hk; exact Or.inr (Or.inr (Or.inl ⟨hk, rr, hsave'⟩))
        · rw [if_neg hh, obj_oob_id hh] at hk
          refine Or.inr (Or.inr (Or.inr ⟨hk, ?_⟩))
          rcases hsv h rfl with ⟨h7, h8, _⟩ | ⟨h7, _, h8, _⟩
          · exact ⟨id, h, mem_of_lookup h7, by rw [← h8]; exact hh⟩
          · have h8' : s1.heap.length = s.heap.length + 1 := h8
            exact absurd (by omega) hh

theorem start_ok_clean (cfg : Cfg) (s : State) (r : Req) (hok : ∀ m, (start cfg s r).2.1 ≠ .err m) :
    OnlySaveFails (FlushProv s (start cfg s r).2.2) (start cfg s r).2.2 := by
  have hnew : start cfg s r = createNew cfg s r [] → OnlySaveFails (FlushProv s (start cfg s r).2.2) (start cfg s r).2.2 := by
    intro h
    rw [h] at hok ⊢
    obtain ⟨tl, h1, h2⟩ := createNew_ok_evs hok
    exact (h1 ▸ (OnlySaveFails.append (OnlySaveFails.nil _) h2)).mono fun k hk => Or.inl hk
  cases hck : r.cookie with
  | none => exact hnew (start_none hck)
  | some id =>
    by_cases hlen : r.cookieLen = 24
    · rw [start_some hck hlen] at hok ⊢
      exact startGot_ok_clean cfg r id s hok
    · exact hnew (start_len hlen)

theorem res_ok_of {res : Res} (h : (∃ x, res = .sess x) ∨ res = .nil) : ∀ m, res ≠ .err m := by
  rintro m rfl
  rcases h with ⟨x, h⟩ | h <;> cases h

/-- **C11 (a1)**: when `Start` returns a session or `(nil, nil)`, no `LoadSession`, `LoadUser`, `DeleteSession`,
`UserSessions` call failed, and the only failure events are failed saves. Every state, every oracle. -/
theorem start_ok_no_failed_call (cfg : Cfg) (s : State) (r : Req)
    (hok : (∃ h, (start cfg s r).2.1 = .sess h) ∨ (start cfg s r).2.1 = .nil) :
    (∀ e ∈ (start cfg s r).2.2, isFailEv e = true → ∃ k, e = .saveFail k) ∧
    (∀ id, Ev.loadFail id ∉ (start cfg s r).2.2) ∧ (∀ u, Ev.userFail u ∉ (start cfg s r).2.2) ∧
    (∀ id, Ev.loadErr id ∉ (start cfg s r).2.2) ∧ (∀ id, Ev.delFail id ∉ (start cfg s r).2.2) ∧
    (∀ u, Ev.usersFail u ∉ (start cfg s r).2.2) := by
  have hc := start_ok_clean cfg s r (res_ok_of hok)
  have key : ∀ e ∈ (start cfg s r).2.2, FailureEv e → ∃ k, e = .saveFail k := by
    intro e he hb
    obtain ⟨k, h1, _⟩ := hc e he hb
    exact ⟨k, h1⟩
  refine ⟨fun e he hb => key e he (Or.inl hb), ?_, ?_, ?_, ?_, ?_⟩
  · intro id hm; obtain ⟨k, h1⟩ := key _ hm (by simp); cases h1
  · intro id hm; obtain ⟨k, h1⟩ := key _ hm (by simp); cases h1
  · intro id hm; obtain ⟨k, h1⟩ := key _ hm (by simp); cases h1
  · intro id hm; obtain ⟨k, h1⟩ := key _ hm (by simp); cases h1
  · intro id hm; obtain ⟨k, h1⟩ := key _ hm (by simp); cases h1

/-- **C11 (a2), every state**: each failed save logged by a `Start` that reports no error is a failed flush of a
cached session: its id was a key of the cache at the start, or was loaded into the cache by this call, or is the id
minted by this call (after the write-through save of the new id succeeded) — or the cache held a dangling handle. -/
theorem start_ok_saveFail_flush_general (cfg : Cfg) (s : State) (r : Req)
    (hok : (∃ h, (start cfg s r).2.1 = .sess h) ∨ (start cfg s r).2.1 = .nil) {k : ID}
    (hk : Ev.saveFail k ∈ (start cfg s r).2.2) :
    (∃ x, (k, x) ∈ s.cache) ∨ Ev.load k true ∈ (start cfg s r).2.2 ∨
      (k = ID.gen s.nextId ∧ ∃ rc, Ev.save k rc ∈ (start cfg s r).2.2) ∨
      (k = ID.lit "" ∧ ∃ k' x, (k', x) ∈ s.cache ∧ ¬ x < s.heap.length) := by
  obtain ⟨k', h1, h2⟩ := start_ok_clean cfg s r (res_ok_of hok) _ hk (by simp)
  cases h1
  exact h2

/-- **C11 (a2)**. Hypothesis `hv` (the handles in the cache are valid — a consequence of the global invariant): with
a dangling handle `RegenerateID` renames the default object and caches it under the id `""` (see the example below). -/
theorem start_ok_saveFail_flush (cfg : Cfg) (s : State) (r : Req)
    (hv : ∀ k x, (k, x) ∈ s.cache → x < s.heap.length)
    (hok : (∃ h, (start cfg s r).2.1 = .sess h) ∨ (start cfg s r).2.1 = .nil) {k : ID}
    (hk : Ev.saveFail k ∈ (start cfg s r).2.2) :
    (∃ x, (k, x) ∈ s.cache) ∨ Ev.load k true ∈ (start cfg s r).2.2 ∨ k = ID.gen s.nextId := by
  rcases start_ok_saveFail_flush_general cfg s r hok hk with h | h | h | ⟨_, k', x, h1, h2⟩
  · exact Or.inl h
  · exact Or.inr (Or.inl h)
  · exact Or.inr (Or.inr h.1)
  · exact absurd (hv k' x h1) h2

/-- (a2), stronger for the minted id: its failed flush comes with its successful write-through save -/
theorem start_ok_saveFail_flush' (cfg : Cfg) (s : State) (r : Req)
    (hv : ∀ k x, (k, x) ∈ s.cache → x < s.heap.length)
    (hok : (∃ h, (start cfg s r).2.1 = .sess h) ∨ (start cfg s r).2.1 = .nil) {k : ID}
    (hk : Ev.saveFail k ∈ (start cfg s r).2.2) :
    (∃ x, (k, x) ∈ s.cache) ∨ Ev.load k true ∈ (start cfg s r).2.2 ∨
      (k = ID.gen s.nextId ∧ ∃ rc, Ev.save k rc ∈ (start cfg s r).2.2) := by
  rcases start_ok_saveFail_flush_general cfg s r hok hk with h | h | h | ⟨_, k', x, h1, h2⟩
  · exact Or.inl h
  · exact Or.inr (Or.inl h)
  · exact Or.inr (Or.inr h)
  · exact absurd (hv k' x h1) h2


/-! ### examples for (a) -/

def fxS : State := { heap := [{ id := .lit "b", created := 0, lastAccess := 0 }], cache := [(.lit "b", 0)], fails := [true] }
def fxR : Req := { create := true }
/-- `Start` creates a session although the eviction flush of `"b"` failed -/
example : (start fxUCfg fxS fxR).2.1 = .sess 1 ∧ Ev.saveFail (.lit "b") ∈ (start fxUCfg fxS fxR).2.2 := by decide
example : (∃ x, (ID.lit "b", x) ∈ fxS.cache) ∨ Ev.load (.lit "b") true ∈ (start fxUCfg fxS fxR).2.2 ∨ ID.lit "b" = ID.gen fxS.nextId :=
  start_ok_saveFail_flush fxUCfg fxS fxR (by intro k x hx; simp [fxS] at hx; simp [hx, fxS]) (Or.inl ⟨1, by decide⟩) (by decide)
/-- with the write-through save failing instead, `Start` reports it -/
example : (start fxUCfg { fxS with fails := [false, true] } fxR).2 =
  (.err "create", [.save (.lit "b") { created := 0, lastAccess := 0 }, .saveFail (.gen 0)]) := by decide

def fxR1 : State := { now := 4000000000000, heap := [{ id := .lit "a", created := 0, lastAccess := 4000000000000 }], cache := [(.lit "a", 0)], fails := [false, false, true] }
def fxR1R : Req := { cookie := some (.lit "a"), cookieLen := 24 }
/-- rotation with `maxCache = 1`: the second `Set` of `RegenerateID` evicts the new id; that flush fails, `Start`
succeeds; the third disjunct of (a2) is needed -/
example : (start fxUCfg fxR1 fxR1R).2.1 = .sess 0 ∧ Ev.saveFail (.gen 0) ∈ (start fxUCfg fxR1 fxR1R).2.2 ∧
   (∀ x, (ID.gen 0, x) ∉ fxR1.cache) ∧ Ev.load (.gen 0) true ∉ (start fxUCfg fxR1 fxR1R).2.2 := by
  refine ⟨by decide, by decide, ?_, by decide⟩
  intro x hx; simp [fxR1] at hx

/-- reference chain: `"a"` is loaded, then flushed (in vain) by the compaction that makes room for `"b"`: the second
disjunct of (a2) -/
def fxF : State := { store := [(.lit "a", { created := 0, lastAccess := 0, ref := some (.lit "b") }), (.lit "b", { created := 0, lastAccess := 0 })], fails := [false, false, true] }
example : (start fxUCfg fxF fxR1R).2 =
    (.sess 1, [.load (.lit "a") true, .load (.lit "b") true, .saveFail (.lit "a"), .setCookie (.lit "b")]) := by decide

/-- **`hv` is needed in `start_ok_saveFail_flush`**: with the dangling handle 5 in the cache, `RegenerateID` caches the
default object under the id `""`, and its second `Set` tries to flush it. -/
def fxD : State := { now := 4000000000000, cache := [(.lit "a", 5)], fails := [false, false, true] }
def fxDCfg : Cfg := { cacheExpiry := 0 }

example : (start fxDCfg fxD fxR1R).2.1 = .sess 5 ∧ Ev.saveFail (.lit "") ∈ (start fxDCfg fxD fxR1R).2.2 ∧
    ¬ ((∃ x, (ID.lit "", x) ∈ fxD.cache) ∨ Ev.load (.lit "") true ∈ (start fxDCfg fxD fxR1R).2.2 ∨ ID.lit "" = ID.gen fxD.nextId) := by
  refine ⟨by decide, by decide, ?_⟩
  rintro (⟨x, hx⟩ | h | h)
  · simp [fxD] at hx
  · revert h; decide
  · cases h

end Sx.Loc
