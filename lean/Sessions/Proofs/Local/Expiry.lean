import Sessions.Proofs.Local.Basics
import Sessions.Proofs.Local.AnomalyIP
import Sessions.Proofs.Local.Invalid
/-!
# C03 — session expiry (T-local)

(a) `c03_stale_refused` / `c03_zero_expiry_refused`: a session not accessed for `SessionExpiry` is
refused by `Start`: it is destroyed (cache entry and record erased, deletion cookie) and never returned;
at most a brand-new session is created.

Parts (b), (c), (d) of C03 are pure facts about `validFor` / `expired` and live in `AnomalyIP.lean`;
they are re-exported at the end of this file under `c03_*` names.
-/
namespace Sx.Loc

section stale
variable {cfg : Cfg} {s s1 : State} {r : Req} {id : ID} {h : Nat} {e1 : List Ev}

/-- **C03 (a).** The request carries the 24-byte cookie `id`; `cache.Get` answers with the object `h`
(state `s1`, events `e1`); the object was last accessed `SessionExpiry` or more ago.
Named hypotheses: `hkey` — the cached object's id is its key (`Destroy` deletes `s.id`);
`hf` — fault-free from there on. Then, with `(s', res, evs) := start cfg s r`:
the validity test fails; `start` is `createNew` from the erased state; `e1 ++ [.del id, .delCookie]`
is a prefix of `evs`; `res ≠ .sess h` provided `hvalid : h < s1.heap.length`; `id` is neither cached
nor stored afterwards provided `hid : ∀ n, id = .gen n → n < s1.nextId`; with `createIfNew = false`
the state is just the erased one. -/
theorem c03_stale_refused (hc : r.cookie = some id) (hl : r.cookieLen = 24)
    (hg : cacheGet cfg s id = (s1, .some h, e1))
    (hstale : since s1.now (s1.obj h).lastAccess ≥ cfg.sessionExpiry)
    (hkey : (s1.obj h).id = id) (hf : s1.fails = []) :
    validFor cfg s1.now (s1.obj h) r = false ∧
    start cfg s r = createNew cfg { s1 with cache := erase id s1.cache, store := erase id s1.store } r
      (e1 ++ [.del id, .delCookie]) ∧
    (∃ post, (start cfg s r).2.2 = e1 ++ [.del id, .delCookie] ++ post) ∧
    Ev.del id ∈ (start cfg s r).2.2 ∧
    Ev.delCookie ∈ (start cfg s r).2.2 ∧
    (h < s1.heap.length → (start cfg s r).2.1 ≠ .sess h) ∧
    ((∀ n, id = .gen n → n < s1.nextId) →
      lookup id (start cfg s r).1.cache = none ∧ lookup id (start cfg s r).1.store = none) ∧
    (r.create = false →
      (start cfg s r).1 = { s1 with cache := erase id s1.cache, store := erase id s1.store } ∧
      (start cfg s r).2.1 = .nil) ∧
    (start cfg s r).1.fails = [] :=
  ⟨c03_stale_invalid r hstale, start_invalid_destroys hc hl hg (c03_stale_invalid r hstale) hkey hf⟩

/-- the session handed out after a stale one was refused (if any) is brand new -/
theorem c03_stale_new (hc : r.cookie = some id) (hl : r.cookieLen = 24)
    (hg : cacheGet cfg s id = (s1, .some h, e1))
    (hstale : since s1.now (s1.obj h).lastAccess ≥ cfg.sessionExpiry)
    (hkey : (s1.obj h).id = id) (hf : s1.fails = []) (hcr : r.create = true) :
    (start cfg s r).2.1 = .sess s1.heap.length ∧
    (start cfg s r).1.obj s1.heap.length = newObj s1 r ∧
    (∀ x, x < s1.heap.length → (start cfg s r).1.obj x = s1.obj x) :=
  start_invalid_new hc hl hg (c03_stale_invalid r hstale) hkey hf hcr

/-- **C03 (a), `SessionExpiry = 0`**: every session is refused (time does not run backwards:
`lastAccess ≤ now`). -/
theorem c03_zero_expiry_refused (hc : r.cookie = some id) (hl : r.cookieLen = 24)
    (hg : cacheGet cfg s id = (s1, .some h, e1))
    (hzero : cfg.sessionExpiry = 0) (hla : (s1.obj h).lastAccess ≤ s1.now)
    (hkey : (s1.obj h).id = id) (hf : s1.fails = []) :
    validFor cfg s1.now (s1.obj h) r = false ∧
    start cfg s r = createNew cfg { s1 with cache := erase id s1.cache, store := erase id s1.store } r
      (e1 ++ [.del id, .delCookie]) ∧
    (∃ post, (start cfg s r).2.2 = e1 ++ [.del id, .delCookie] ++ post) ∧
    Ev.del id ∈ (start cfg s r).2.2 ∧
    Ev.delCookie ∈ (start cfg s r).2.2 ∧
    (h < s1.heap.length → (start cfg s r).2.1 ≠ .sess h) ∧
    ((∀ n, id = .gen n → n < s1.nextId) →
      lookup id (start cfg s r).1.cache = none ∧ lookup id (start cfg s r).1.store = none) ∧
    (r.create = false →
      (start cfg s r).1 = { s1 with cache := erase id s1.cache, store := erase id s1.store } ∧
      (start cfg s r).2.1 = .nil) ∧
    (start cfg s r).1.fails = [] :=
  c03_stale_refused hc hl hg (by unfold since; omega) hkey hf

end stale

/-! ## parts (b), (c), (d): re-exports from `AnomalyIP.lean` -/

/-- C03 (b): a session accessed less than `SessionExpiry` ago is only subject to the anomaly tests. -/
theorem c03_b_fresh_not_stale {cfg : Cfg} {now : Int} {o : Sess} (r : Req)
    (h : since now o.lastAccess < cfg.sessionExpiry) :
    validFor cfg now o r = (ipOK cfg o.ip r.ip && uaOK cfg o.ua (agentHash r.ua)) := c03_fresh_not_stale r h

/-- C03 (b'): with the default `SessionExpiry = math.MaxInt64` sessions never go stale. -/
theorem c03_b_never_stale_max {cfg : Cfg} {now : Int} {o : Sess} (r : Req)
    (hc : cfg.sessionExpiry = maxI64) (h : since now o.lastAccess < maxI64) :
    validFor cfg now o r = (ipOK cfg o.ip r.ip && uaOK cfg o.ua (agentHash r.ua)) := c03_never_stale_max r hc h

/-- C03 (c): `Expired()` on a proper session implies staleness, hence refusal by `Start`. -/
theorem c03_c_expired_sound {cfg : Cfg} {now : Int} {o : Sess}
    (href : o.ref = none) (h : expired cfg now o = true) : since now o.lastAccess ≥ cfg.sessionExpiry :=
  c03_expired_sound href h

theorem c03_c_expired_invalid {cfg : Cfg} {now : Int} {o : Sess} (r : Req)
    (href : o.ref = none) (h : expired cfg now o = true) : validFor cfg now o r = false :=
  c03_expired_invalid r href h

/-- C03 (d): a reference record expires exactly after the grace period. -/
theorem c03_d_expired_ref_iff {cfg : Cfg} {now : Int} {o : Sess} {t : ID}
    (href : o.ref = some t) (hcl : o.created = o.lastAccess) (hid : 0 ≤ cfg.idExpiry) (hg : 0 ≤ cfg.grace) :
    expired cfg now o = true ↔ since now o.lastAccess ≥ cfg.grace := expired_ref_iff href hcl hid hg

/-! ## examples -/

section examples

/-- one session `gen 0`, cached (handle 0) and stored, last accessed at 40; it is now 100 -/
private def exState : State :=
  { now := 100,
    heap := [{ id := .gen 0, created := 10, lastAccess := 40, data := some [("k", .int 1)] }],
    cache := [(.gen 0, 0)],
    store := [(.gen 0, { created := 10, lastAccess := 40, data := some [("k", .int 1)] })],
    nextId := 1 }

private def exCfg : Cfg := { sessionExpiry := 60 }

private def exReq (create : Bool) : Req := { cookie := some (.gen 0), cookieLen := 24, create := create }

/-- non-vacuity of `c03_stale_refused`: all its hypotheses (and both provisos) hold here … -/
example : (exReq true).cookie = some (.gen 0) ∧ (exReq true).cookieLen = 24 ∧
    cacheGet exCfg exState (.gen 0) = (exState, .some 0, []) ∧
    since exState.now (exState.obj 0).lastAccess ≥ exCfg.sessionExpiry ∧
    (exState.obj 0).id = .gen 0 ∧ exState.fails = [] ∧ 0 < exState.heap.length ∧
    (∀ n, ID.gen 0 = .gen n → n < exState.nextId) := by
  refine ⟨rfl, rfl, cacheGet_hit (by decide), by decide, rfl, rfl, by decide, ?_⟩
  intro n h; cases h; decide

/-- … and this is what happens: the stale session is deleted and a new one (`gen 1`, handle 1) created. -/
example :
    (start exCfg exState (exReq true)).2.2 =
      [.del (.gen 0), .delCookie, .save (.gen 1) { created := 100, lastAccess := 100 }, .setCookie (.gen 1)] ∧
    (start exCfg exState (exReq true)).2.1 = .sess 1 ∧
    (start exCfg exState (exReq true)).1.cache = [(.gen 1, 1)] ∧
    (start exCfg exState (exReq true)).1.store = [(.gen 1, { created := 100, lastAccess := 100 })] := by decide

example : (start exCfg exState (exReq true)).2.1 ≠ .sess 0 :=
  (c03_stale_refused (cfg := exCfg) (s := exState) (r := exReq true) (id := .gen 0) (h := 0) (e1 := []) rfl rfl
    (cacheGet_hit (by decide)) (by decide) rfl rfl).2.2.2.2.2.1 (by decide)

example : (start exCfg exState (exReq false)).2.2 = [.del (.gen 0), .delCookie] ∧
    (start exCfg exState (exReq false)).2.1 = .nil ∧
    (start exCfg exState (exReq false)).1.cache = [] ∧ (start exCfg exState (exReq false)).1.store = [] := by decide

/-- with a larger `SessionExpiry` the same request is served from the existing session -/
example : (start { sessionExpiry := 61 } exState (exReq true)).2.1 = .sess 0 := by decide

/-- `SessionExpiry = 0` -/
example : (start { sessionExpiry := 0 } exState (exReq true)).2.1 ≠ .sess 0 :=
  (c03_zero_expiry_refused (cfg := { sessionExpiry := 0 }) (s := exState) (r := exReq true) (id := .gen 0) (h := 0)
    (e1 := []) rfl rfl (cacheGet_hit (by decide)) rfl (by decide) rfl rfl).2.2.2.2.2.1 (by decide)

end examples

end Sx.Loc
