import Sessions.Proofs.Local.Basics
import Sessions.Proofs.Local.CreateNew
import Sessions.Proofs.Local.AnomalyIP
import Sessions.Proofs.Local.Rotation
import Sessions.Proofs.Local.AckSaved
import Sessions.Proofs.Local.Forged
import Sessions.Proofs.Local.Invalid
import Sessions.Proofs.Local.Expiry
import Sessions.Proofs.Local.Anomaly
import Sessions.Proofs.Local.Faults
import Sessions.Proofs.Local.Cookies
/-!
# T-local proofs (one operation from an arbitrary state), namespace `Sx.Loc`

* `Basics`    — rewrite lemmas and single-call specifications (`Flushed`/`compact_flushed`, `cacheSet_*`, `cacheGet_spec`, equation lemmas)
* `CreateNew` — every-oracle facts about `createNew`
* `AckSaved`  — C09 acknowledged changes are stored (every oracle)
* `Rotation`  — C04 rotation of session ids
* `Forged`    — C02 forged cookies
* `Faults`    — C11 failures are reported (every oracle)
* `Expiry`    — C03 expiry (`Invalid` holds the shared invalid-session theorem; pure parts in `AnomalyIP`)
* `Cookies`   — C18 cookies
* `Anomaly`, `AnomalyIP` — C06 address / user-agent anomalies (`matchIP_canonical`, `c06_ip`, `c06_ua`, `c06_destroy`, `c06_moves`)
-/
