import Sessions.Proofs.Local.Basics
import Sessions.Proofs.Local.CreateNew
/-!
# `Start` on a session that fails the validity test (shared by C03 (a) and C06 (d))

`start_invalid_destroys`: when the object found for the presented id fails `validFor` — whatever the
reason: stale, address, fingerprint — a fault-free `Start` destroys it (cache entry and record are
erased, `.del id`, deletion cookie) and goes on to `createNew` from the erased state.
-/
namespace Sx.Loc

section invalid
variable {cfg : Cfg} {s s1 : State} {r : Req} {id : ID} {h : Nat} {e1 : List Ev}

/-- the state after the `Destroy` inside `Start` -/
def erased (s1 : State) (id : ID) : State := { s1 with cache := erase id s1.cache, store := erase id s1.store }

@[simp] theorem erased_heap (s1 : State) (id : ID) : (erased s1 id).heap = s1.heap := rfl
@[simp] theorem erased_nextId (s1 : State) (id : ID) : (erased s1 id).nextId = s1.nextId := rfl
@[simp] theorem erased_now (s1 : State) (id : ID) : (erased s1 id).now = s1.now := rfl
@[simp] theorem erased_fails (s1 : State) (id : ID) : (erased s1 id).fails = s1.fails := rfl
@[simp] theorem erased_cache (s1 : State) (id : ID) : (erased s1 id).cache = erase id s1.cache := rfl
@[simp] theorem erased_store (s1 : State) (id : ID) : (erased s1 id).store = erase id s1.store := rfl

/-- The equation. `hkey` (the cached object's id is its cache key) is needed because `Destroy` deletes
`s.id`, not the presented id; `hf` makes the `DeleteSession` call succeed. -/
theorem start_invalid_eq (hc : r.cookie = some id) (hl : r.cookieLen = 24)
    (hg : cacheGet cfg s id = (s1, .some h, e1))
    (hinv : validFor cfg s1.now (s1.obj h) r = false)
    (hkey : (s1.obj h).id = id) (hf : s1.fails = []) :
    start cfg s r = createNew cfg (erased s1 id) r (e1 ++ [.del id, .delCookie]) := by
  rw [start_invalid hc hl hg hinv, startInvalid_nil h r e1 hf, hkey]; rfl

/-- **The invalid-session theorem.** Hypotheses: the request carries a 24-byte cookie `id`; the cache
answers with the object `h` (state `s1`, events `e1`); that object fails the validity test of `Start`;
`hkey`: its id is the presented id; `hf`: no fault from there on. Then, with
`(s', res, evs) := start cfg s r`:
* `start` is `createNew` from the state where `id` was erased from cache and store;
* `e1` is a prefix of `evs`, and `.del id`, `.delCookie` are among the events;
* `res ≠ .sess h` provided `hvalid : h < s1.heap.length` (a new session lives at the NEW handle
  `s1.heap.length`; without `hvalid` a dangling `h = s1.heap.length` would be "returned");
* provided `hid : ∀ n, id = .gen n → n < s1.nextId` (the id minted next is not `id`): afterwards `id` is
  neither cached nor stored;
* when `createIfNew = false`: `s'` is exactly the erased state and `res = .nil`. -/
theorem start_invalid_destroys (hc : r.cookie = some id) (hl : r.cookieLen = 24)
    (hg : cacheGet cfg s id = (s1, .some h, e1))
    (hinv : validFor cfg s1.now (s1.obj h) r = false)
    (hkey : (s1.obj h).id = id) (hf : s1.fails = []) :
    start cfg s r = createNew cfg (erased s1 id) r (e1 ++ [.del id, .delCookie]) ∧
    (∃ post, (start cfg s r).2.2 = e1 ++ [.del id, .delCookie] ++ post) ∧
    Ev.del id ∈ (start cfg s r).2.2 ∧
    Ev.delCookie ∈ (start cfg s r).2.2 ∧
    (h < s1.heap.length → (start cfg s r).2.1 ≠ .sess h) ∧
    ((∀ n, id = .gen n → n < s1.nextId) →
      lookup id (start cfg s r).1.cache = none ∧ lookup id (start cfg s r).1.store = none) ∧
    (r.create = false → (start cfg s r).1 = erased s1 id ∧ (start cfg s r).2.1 = .nil) ∧
    (start cfg s r).1.fails = [] := by
  have heq := start_invalid_eq hc hl hg hinv hkey hf
  refine ⟨heq, ?_, ?_, ?_, ?_, ?_, ?_, ?_⟩
  · rw [heq]; exact createNew_evs_prefix cfg _ r _
  · rw [heq]; exact createNew_pre_mem cfg _ r (by simp)
  · rw [heq]; exact createNew_pre_mem cfg _ r (by simp)
  · intro hv; rw [heq]; exact createNew_res_ne cfg _ r _ (by simpa using hv)
  · intro hid
    rw [heq]
    refine createNew_absent cfg _ r _ ?_ ?_ ?_
    · intro e
      exact Nat.lt_irrefl _ (hid _ e)
    · intro x hx
      exact (mem_erase.1 hx).2 rfl
    · simp
  · intro hcr; rw [heq, createNew_no _ hcr]; exact ⟨rfl, rfl⟩
  · rw [heq]; exact createNew_fails_nil r _ (by simpa using hf)

/-- when a new session is created after the destruction, it is a brand-new object under a fresh id -/
theorem start_invalid_new (hc : r.cookie = some id) (hl : r.cookieLen = 24)
    (hg : cacheGet cfg s id = (s1, .some h, e1))
    (hinv : validFor cfg s1.now (s1.obj h) r = false)
    (hkey : (s1.obj h).id = id) (hf : s1.fails = []) (hcr : r.create = true) :
    (start cfg s r).2.1 = .sess s1.heap.length ∧
    (start cfg s r).1.obj s1.heap.length = newObj s1 r ∧
    (∀ x, x < s1.heap.length → (start cfg s r).1.obj x = s1.obj x) := by
  rw [start_invalid_eq hc hl hg hinv hkey hf, createNew_yes_nil _ hcr (by simpa using hf)]
  refine ⟨rfl, newSet_obj_new cfg (erased s1 id) r, ?_⟩
  intro x hx
  exact newSet_obj_old cfg (s := erased s1 id) (by simpa using hx) r

end invalid

/-! ## why the named hypotheses are there -/

section examples

private def exCfg : Cfg := { sessionExpiry := 60 }

/-- non-vacuity: one stale session `gen 0` (handle 0), cached and stored -/
private def exState : State :=
  { now := 100, heap := [{ id := .gen 0, created := 10, lastAccess := 40 }], cache := [(.gen 0, 0)],
    store := [(.gen 0, { created := 10, lastAccess := 40 })], nextId := 1 }

example :
    (start exCfg exState { cookie := some (.gen 0), cookieLen := 24, create := true }).2.2 =
      [.del (.gen 0), .delCookie, .save (.gen 1) { created := 100, lastAccess := 100 }, .setCookie (.gen 1)] ∧
    (start exCfg exState { cookie := some (.gen 0), cookieLen := 24, create := true }).2.1 = .sess 1 := by decide

example : (start exCfg exState { cookie := some (.gen 0), cookieLen := 24, create := true }).2.1 ≠ .sess 0 :=
  (start_invalid_destroys (cfg := exCfg) (s := exState) (r := { cookie := some (.gen 0), cookieLen := 24, create := true })
    (id := .gen 0) (h := 0) (e1 := []) rfl rfl (cacheGet_hit (by decide)) (by decide) rfl rfl).2.2.2.2.1 (by decide)

/-- `hkey` is needed: `Destroy` deletes the id written IN the object (`gen 7`), not the presented one
(`gen 0`), so the record and cache entry of `gen 0` survive. -/
example :
    let s : State := { now := 100, heap := [{ id := .gen 7, created := 10, lastAccess := 40 }], cache := [(.gen 0, 0)],
                       store := [(.gen 0, { created := 10, lastAccess := 40 })], nextId := 8 }
    (start exCfg s { cookie := some (.gen 0), cookieLen := 24 }).2.2 = [.del (.gen 7), .delCookie] ∧
    lookup (.gen 0) (start exCfg s { cookie := some (.gen 0), cookieLen := 24 }).1.cache = some 0 ∧
    (lookup (.gen 0) (start exCfg s { cookie := some (.gen 0), cookieLen := 24 }).1.store).isSome = true := by decide

/-- `hvalid` is needed for `res ≠ .sess h`: the cache maps the presented id to the dangling handle 0
(empty heap, read as the default object: id `lit ""`, last access 0, hence stale); the new session is
allocated at exactly that handle. -/
example :
    let s : State := { now := 100, cache := [(.lit "", 0)] }
    cacheGet exCfg s (.lit "") = (s, .some 0, []) ∧ (s.obj 0).id = .lit "" ∧
    (start exCfg s { cookie := some (.lit ""), cookieLen := 24, create := true }).2.1 = .sess 0 :=
  ⟨cacheGet_hit (by decide), rfl, by decide⟩

/-- `hid` is needed for "`id` is unknown afterwards": if the stale session's id is the very id that will
be minted next (`gen 5`, `nextId = 5`), the new session is cached and stored under it again. -/
example :
    let s : State := { now := 100, heap := [{ id := .gen 5, created := 10, lastAccess := 40 }], cache := [(.gen 5, 0)],
                       store := [(.gen 5, { created := 10, lastAccess := 40 })], nextId := 5 }
    lookup (.gen 5) (start exCfg s { cookie := some (.gen 5), cookieLen := 24, create := true }).1.cache = some 1 ∧
    (lookup (.gen 5) (start exCfg s { cookie := some (.gen 5), cookieLen := 24, create := true }).1.store).isSome = true := by
  decide

end examples

end Sx.Loc
