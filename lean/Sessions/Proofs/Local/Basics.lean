import Sessions.Model.World
/-!
# T-local proofs — shared rewrite lemmas

Equation lemmas and single-operation specifications for the model functions of
`Sessions/Model/{Cache,Session}.lean`. Nothing here assumes a global invariant: every statement is
about one call from an arbitrary state. Association lists may contain duplicate keys; `lookup`
finds the first entry, `erase` removes every entry of the key.
-/
namespace Sx.Loc

/-! ### association lists -/
section assoc
variable {κ : Type} [DecidableEq κ] {β : Type}

@[simp] theorem lookup_nil (k : κ) : lookup k ([] : List (κ × β)) = none := rfl

theorem lookup_cons (k k' : κ) (v : β) (m : List (κ × β)) :
    lookup k ((k', v) :: m) = if k' = k then some v else lookup k m := rfl

theorem lookup_erase (k k' : κ) (m : List (κ × β)) :
    lookup k (erase k' m) = if k' = k then none else lookup k m := by
  induction m with
  | nil => simp [erase]
  | cons e m ih =>
    obtain ⟨a, v⟩ := e
    by_cases h1 : a = k' <;> by_cases h2 : k' = k <;> simp_all [erase, lookup_cons]

@[simp] theorem lookup_erase_self (k : κ) (m : List (κ × β)) : lookup k (erase k m) = none := by
  simp [lookup_erase]

theorem lookup_erase_ne {k k' : κ} (h : k' ≠ k) (m : List (κ × β)) : lookup k (erase k' m) = lookup k m := by
  simp [lookup_erase, h]

theorem lookup_insert (k k' : κ) (v : β) (m : List (κ × β)) :
    lookup k (insert k' v m) = if k' = k then some v else lookup k m := by
  by_cases h : k' = k <;> simp [insert, lookup_cons, lookup_erase, h]

@[simp] theorem lookup_insert_self (k : κ) (v : β) (m : List (κ × β)) : lookup k (insert k v m) = some v := by
  simp [lookup_insert]

theorem lookup_insert_ne {k k' : κ} (h : k' ≠ k) (v : β) (m : List (κ × β)) :
    lookup k (insert k' v m) = lookup k m := by
  simp [lookup_insert, h]

theorem mem_erase {e : κ × β} {k : κ} {m : List (κ × β)} : e ∈ erase k m ↔ e ∈ m ∧ e.1 ≠ k := by
  induction m with
  | nil => simp [erase]
  | cons a m ih =>
    obtain ⟨a, v⟩ := a
    by_cases h1 : a = k
    · simp only [erase, h1, if_true, ih, List.mem_cons]
      constructor
      · intro h; exact ⟨Or.inr h.1, h.2⟩
      · rintro ⟨h | h, h2⟩
        · subst h; exact absurd rfl h2
        · exact ⟨h, h2⟩
    · simp only [erase, h1, if_false, List.mem_cons, ih]
      constructor
      · rintro (h | h)
        · subst h; exact ⟨Or.inl rfl, h1⟩
        · exact ⟨Or.inr h.1, h.2⟩
      · rintro ⟨h | h, h2⟩
        · exact Or.inl h
        · exact Or.inr ⟨h, h2⟩

theorem mem_of_mem_erase {e : κ × β} {k : κ} {m : List (κ × β)} (h : e ∈ erase k m) : e ∈ m := (mem_erase.1 h).1

theorem mem_insert {e : κ × β} {k : κ} {v : β} {m : List (κ × β)} :
    e ∈ insert k v m ↔ e = (k, v) ∨ (e ∈ m ∧ e.1 ≠ k) := by
  simp [insert, mem_erase]

/-- the only entry of key `k` after `insert k v` is `(k, v)`. -/
theorem mem_insert_self_key {k : κ} {v v' : β} {m : List (κ × β)} (h : (k, v') ∈ insert k v m) : v' = v := by
  rcases mem_insert.1 h with h | h
  · exact (Prod.mk.inj h).2
  · exact absurd rfl h.2

theorem mem_of_lookup {k : κ} {v : β} {m : List (κ × β)} (h : lookup k m = some v) : (k, v) ∈ m := by
  induction m with
  | nil => simp at h
  | cons a m ih =>
    obtain ⟨a, w⟩ := a
    rw [lookup_cons] at h
    by_cases h1 : a = k
    · simp [h1] at h; subst h; subst h1; exact List.mem_cons_self
    · simp [h1] at h; exact List.mem_cons_of_mem _ (ih h)

theorem lookup_none_iff {k : κ} {m : List (κ × β)} : lookup k m = none ↔ ∀ v, (k, v) ∉ m := by
  induction m with
  | nil => simp
  | cons a m ih =>
    obtain ⟨a, w⟩ := a
    rw [lookup_cons]
    by_cases h1 : a = k
    · subst h1; simp; exact ⟨w, fun h => absurd rfl h⟩
    · simp only [h1, if_false, ih, List.mem_cons, not_or]
      constructor
      · intro h v; exact ⟨fun h2 => h1 (Prod.mk.inj h2).1.symm, h v⟩
      · intro h v; exact (h v).2

theorem lookup_isSome_of_mem {k : κ} {v : β} {m : List (κ × β)} (h : (k, v) ∈ m) : (lookup k m).isSome = true := by
  cases hl : lookup k m with
  | none => exact absurd h (lookup_none_iff.1 hl v)
  | some _ => rfl

/-- with distinct keys, membership and `lookup` agree. -/
theorem lookup_of_mem_nodup {k : κ} {v : β} {m : List (κ × β)} (hn : (m.map (·.1)).Nodup) (h : (k, v) ∈ m) :
    lookup k m = some v := by
  induction m with
  | nil => simp at h
  | cons a m ih =>
    obtain ⟨a, w⟩ := a
    simp only [List.map_cons, List.nodup_cons] at hn
    rw [lookup_cons]
    rcases List.mem_cons.1 h with h | h
    · obtain ⟨rfl, rfl⟩ := Prod.mk.inj h; simp
    · have : a ≠ k := by
        intro e; subst e
        exact hn.1 (List.mem_map.2 ⟨(a, v), h, rfl⟩)
      simp [this, ih hn.2 h]

end assoc

/-! ### heap -/

@[simp] theorem obj_setObj_same_heap (s : State) (h : Nat) (o : Sess) : (s.setObj h o).heap = s.heap.set h o := rfl

theorem obj_eq_of_heap {s s' : State} (hh : s'.heap = s.heap) (h : Nat) : s'.obj h = s.obj h := by
  simp [State.obj, hh]

theorem obj_setObj (s : State) (h h' : Nat) (o : Sess) :
    (s.setObj h o).obj h' = if h = h' ∧ h < s.heap.length then o else s.obj h' := by
  simp only [State.obj, State.setObj, List.getD_eq_getElem?_getD, List.getElem?_set]
  by_cases h1 : h = h'
  · subst h1
    by_cases h2 : h < s.heap.length
    · simp [h2]
    · simp [h2]
  · simp [h1]

theorem obj_setObj_self {s : State} {h : Nat} (hv : h < s.heap.length) (o : Sess) : (s.setObj h o).obj h = o := by
  simp [obj_setObj, hv]

theorem obj_setObj_ne {s : State} {h h' : Nat} (hne : h ≠ h') (o : Sess) : (s.setObj h o).obj h' = s.obj h' := by
  simp [obj_setObj, hne]

/-- out of range `setObj` is a no-op. -/
theorem setObj_oob {s : State} {h : Nat} (hv : ¬ h < s.heap.length) (o : Sess) : s.setObj h o = s := by
  cases s; simp only [State.setObj]; congr 1
  exact List.set_eq_of_length_le (Nat.le_of_not_lt hv)

theorem obj_alloc_new (s : State) (o : Sess) : (s.alloc o).2.obj s.heap.length = o := by
  simp [State.obj, State.alloc, List.getD_eq_getElem?_getD]

theorem obj_alloc_old {s : State} {h : Nat} (hv : h < s.heap.length) (o : Sess) : (s.alloc o).2.obj h = s.obj h := by
  simp [State.obj, State.alloc, List.getD_eq_getElem?_getD, List.getElem?_append, hv]

@[simp] theorem alloc_fst (s : State) (o : Sess) : (s.alloc o).1 = s.heap.length := rfl
@[simp] theorem alloc_heap (s : State) (o : Sess) : (s.alloc o).2.heap = s.heap ++ [o] := rfl
@[simp] theorem alloc_cache (s : State) (o : Sess) : (s.alloc o).2.cache = s.cache := rfl
@[simp] theorem alloc_store (s : State) (o : Sess) : (s.alloc o).2.store = s.store := rfl
@[simp] theorem alloc_now (s : State) (o : Sess) : (s.alloc o).2.now = s.now := rfl
@[simp] theorem alloc_nextId (s : State) (o : Sess) : (s.alloc o).2.nextId = s.nextId := rfl
@[simp] theorem alloc_fails (s : State) (o : Sess) : (s.alloc o).2.fails = s.fails := rfl
@[simp] theorem alloc_picks (s : State) (o : Sess) : (s.alloc o).2.picks = s.picks := rfl
@[simp] theorem alloc_timers (s : State) (o : Sess) : (s.alloc o).2.timers = s.timers := rfl
@[simp] theorem alloc_vers (s : State) (o : Sess) : (s.alloc o).2.vers = s.vers := rfl
@[simp] theorem alloc_extra (s : State) (o : Sess) : (s.alloc o).2.extra = s.extra := rfl
@[simp] theorem setObj_cache (s : State) (h : Nat) (o : Sess) : (s.setObj h o).cache = s.cache := rfl
@[simp] theorem setObj_store (s : State) (h : Nat) (o : Sess) : (s.setObj h o).store = s.store := rfl
@[simp] theorem setObj_now (s : State) (h : Nat) (o : Sess) : (s.setObj h o).now = s.now := rfl
@[simp] theorem setObj_nextId (s : State) (h : Nat) (o : Sess) : (s.setObj h o).nextId = s.nextId := rfl
@[simp] theorem setObj_fails (s : State) (h : Nat) (o : Sess) : (s.setObj h o).fails = s.fails := rfl
@[simp] theorem setObj_picks (s : State) (h : Nat) (o : Sess) : (s.setObj h o).picks = s.picks := rfl
@[simp] theorem setObj_timers (s : State) (h : Nat) (o : Sess) : (s.setObj h o).timers = s.timers := rfl
@[simp] theorem setObj_vers (s : State) (h : Nat) (o : Sess) : (s.setObj h o).vers = s.vers := rfl
@[simp] theorem setObj_extra (s : State) (h : Nat) (o : Sess) : (s.setObj h o).extra = s.extra := rfl
@[simp] theorem setObj_heap_length (s : State) (h : Nat) (o : Sess) : (s.setObj h o).heap.length = s.heap.length := by
  simp [State.setObj]

/-! ### the oracles and the three persistence calls -/

theorem fails_tail_nil {s : State} (h : s.fails = []) : { s with fails := s.fails.tail } = s := by
  cases s; simp_all

theorem popFail_nil {s : State} (h : s.fails = []) : popFail s = (false, s) := by
  simp only [popFail, h]
  cases s; simp_all

theorem popFail_cons {s : State} {b : Bool} {fs : List Bool} (h : s.fails = b :: fs) :
    popFail s = (b, { s with fails := fs }) := by
  simp [popFail, h]

/-- the state after a persistence call consumed its oracle entry -/
def _root_.Sx.State.pop (s : State) : State := { s with fails := s.fails.tail }
/-- a save consumes an entry of both oracles -/
def _root_.Sx.State.pop2 (s : State) : State := { s with fails := s.fails.tail, picks := s.picks.tail }

/-- fields that no cache-level step changes -/
structure Fr (s s' : State) : Prop where
  now : s'.now = s.now
  heap : s'.heap = s.heap
  nextId : s'.nextId = s.nextId
  timers : s'.timers = s.timers
  vers : s'.vers = s.vers
  extra : s'.extra = s.extra

theorem Fr.refl (s : State) : Fr s s := ⟨rfl, rfl, rfl, rfl, rfl, rfl⟩
theorem Fr.trans {a b c : State} (h1 : Fr a b) (h2 : Fr b c) : Fr a c :=
  ⟨h2.now.trans h1.now, h2.heap.trans h1.heap, h2.nextId.trans h1.nextId, h2.timers.trans h1.timers,
   h2.vers.trans h1.vers, h2.extra.trans h1.extra⟩
theorem Fr.obj {s s' : State} (h : Fr s s') (x : Nat) : s'.obj x = s.obj x := obj_eq_of_heap h.heap x
theorem Fr.ver {s s' : State} (h : Fr s s') : s'.ver = s.ver := by funext u; simp [State.ver, h.vers]

theorem saveRec_eq (cfg : Cfg) (s : State) (id : ID) (o : Sess) :
    saveRec cfg s id o =
      if s.fails.headD false = true then (s.pop2, false, [.saveFail id])
      else ({ s.pop2 with store := insert id (enc cfg.codec o) s.store }, true, [.save id (enc cfg.codec o)]) := by
  simp only [saveRec, popFail, popPick, storePut, State.pop2]
  rfl

theorem saveRec_ok {cfg : Cfg} {s : State} (id : ID) (o : Sess) (h : s.fails.headD false = false) :
    saveRec cfg s id o =
      ({ s.pop2 with store := insert id (enc cfg.codec o) s.store }, true, [.save id (enc cfg.codec o)]) := by
  rw [saveRec_eq, h]; simp

theorem saveRec_fail {cfg : Cfg} {s : State} (id : ID) (o : Sess) (h : s.fails.headD false = true) :
    saveRec cfg s id o = (s.pop2, false, [.saveFail id]) := by
  rw [saveRec_eq, h]; simp

theorem saveRec_nil {cfg : Cfg} {s : State} (id : ID) (o : Sess) (h : s.fails = []) :
    saveRec cfg s id o =
      ({ s.pop2 with store := insert id (enc cfg.codec o) s.store }, true, [.save id (enc cfg.codec o)]) :=
  saveRec_ok id o (by simp [h])

theorem saveRec_fr (cfg : Cfg) (s : State) (id : ID) (o : Sess) : Fr s (saveRec cfg s id o).1 := by
  rw [saveRec_eq]; split <;> exact ⟨rfl, rfl, rfl, rfl, rfl, rfl⟩

@[simp] theorem saveRec_cache (cfg : Cfg) (s : State) (id : ID) (o : Sess) : (saveRec cfg s id o).1.cache = s.cache := by
  rw [saveRec_eq]; split <;> rfl
@[simp] theorem saveRec_fails (cfg : Cfg) (s : State) (id : ID) (o : Sess) : (saveRec cfg s id o).1.fails = s.fails.tail := by
  rw [saveRec_eq]; split <;> rfl
@[simp] theorem saveRec_picks (cfg : Cfg) (s : State) (id : ID) (o : Sess) : (saveRec cfg s id o).1.picks = s.picks.tail := by
  rw [saveRec_eq]; split <;> rfl

theorem saveRec_ok_iff (cfg : Cfg) (s : State) (id : ID) (o : Sess) :
    (saveRec cfg s id o).2.1 = true ↔ s.fails.headD false = false := by
  rw [saveRec_eq]; split <;> simp_all

theorem saveRec_store_ok {cfg : Cfg} {s : State} {id : ID} {o : Sess} (h : (saveRec cfg s id o).2.1 = true) :
    (saveRec cfg s id o).1.store = insert id (enc cfg.codec o) s.store := by
  rw [saveRec_ok_iff] at h; rw [saveRec_ok id o h]

theorem saveRec_store_fail {cfg : Cfg} {s : State} {id : ID} {o : Sess} (h : (saveRec cfg s id o).2.1 = false) :
    (saveRec cfg s id o).1.store = s.store := by
  have : s.fails.headD false = true := by
    cases hf : s.fails.headD false with
    | true => rfl
    | false => rw [(saveRec_ok_iff cfg s id o).2 hf] at h; cases h
  rw [saveRec_fail id o this]; rfl

theorem saveRec_evs (cfg : Cfg) (s : State) (id : ID) (o : Sess) :
    (saveRec cfg s id o).2.2 = [if (saveRec cfg s id o).2.1 = true then .save id (enc cfg.codec o) else .saveFail id] := by
  rw [saveRec_eq]; split <;> simp

theorem delRec_eq (s : State) (id : ID) :
    delRec s id =
      if s.fails.headD false = true then (s.pop, false, [.delFail id])
      else ({ s.pop with store := erase id s.store }, true, [.del id]) := by
  simp only [delRec, popFail, State.pop]
  rfl

theorem delRec_nil {s : State} (id : ID) (h : s.fails = []) :
    delRec s id = ({ s with store := erase id s.store }, true, [.del id]) := by
  rw [delRec_eq]; simp [h, State.pop]

theorem delRec_fr (s : State) (id : ID) : Fr s (delRec s id).1 := by
  rw [delRec_eq]; split <;> exact ⟨rfl, rfl, rfl, rfl, rfl, rfl⟩

theorem cacheDelete_eq (s : State) (id : ID) :
    cacheDelete s id =
      if s.fails.headD false = true then ({ s.pop with cache := erase id s.cache }, false, [.delFail id])
      else ({ s.pop with cache := erase id s.cache, store := erase id s.store }, true, [.del id]) := by
  simp only [cacheDelete, delRec_eq, State.pop]

theorem cacheDelete_nil {s : State} (id : ID) (h : s.fails = []) :
    cacheDelete s id = ({ s with cache := erase id s.cache, store := erase id s.store }, true, [.del id]) := by
  rw [cacheDelete_eq]; simp [h, State.pop]

theorem cacheDelete_fr (s : State) (id : ID) : Fr s (cacheDelete s id).1 := by
  rw [cacheDelete_eq]; split <;> exact ⟨rfl, rfl, rfl, rfl, rfl, rfl⟩

/-- The five outcomes of `LoadSession`. -/
inductive LoadCase (s : State) (id : ID) : State × LoadRes × List Ev → Prop
  | fail : s.fails.headD false = true → LoadCase s id (s.pop, .fail, [.loadFail id])
  | nil : s.fails.headD false = false → lookup id s.store = none → LoadCase s id (s.pop, .nil, [.load id false])
  | plain (r : Rec) : s.fails.headD false = false → lookup id s.store = some r → r.user = none →
      LoadCase s id (s.pop, .found (dec s.ver id r), [.load id true])
  | userFail (r : Rec) (uid : String) : s.fails.headD false = false → lookup id s.store = some r → r.user = some uid →
      s.pop.fails.headD false = true →
      LoadCase s id (s.pop.pop, .fail, [.load id true, .userFail uid, .loadErr id])
  | user (r : Rec) (uid : String) : s.fails.headD false = false → lookup id s.store = some r → r.user = some uid →
      s.pop.fails.headD false = false →
      LoadCase s id (s.pop.pop, .found (dec s.ver id r), [.load id true, .user uid])

theorem loadRec_eq (s : State) (id : ID) :
    loadRec s id =
      if s.fails.headD false = true then (s.pop, .fail, [.loadFail id])
      else
        match lookup id s.store with
        | none => (s.pop, .nil, [.load id false])
        | some r =>
          match r.user with
          | none => (s.pop, .found (dec s.ver id r), [.load id true])
          | some uid =>
            if s.pop.fails.headD false = true then (s.pop.pop, .fail, [.load id true, .userFail uid, .loadErr id])
            else (s.pop.pop, .found (dec s.ver id r), [.load id true, .user uid]) := by
  simp only [loadRec, popFail, State.pop]
  rfl

theorem loadRec_cases (s : State) (id : ID) : LoadCase s id (loadRec s id) := by
  rw [loadRec_eq]
  by_cases hf : s.fails.headD false = true
  · rw [if_pos hf]; exact LoadCase.fail hf
  · rw [if_neg hf]
    have hf' : s.fails.headD false = false := by simpa using hf
    cases hl : lookup id s.store with
    | none => exact LoadCase.nil hf' hl
    | some r =>
      cases hu : r.user with
      | none => simp only [hu]; exact LoadCase.plain r hf' hl hu
      | some uid =>
        simp only [hu]
        by_cases hf2 : s.pop.fails.headD false = true
        · rw [if_pos hf2]; exact LoadCase.userFail r uid hf' hl hu hf2
        · rw [if_neg hf2]; exact LoadCase.user r uid hf' hl hu (by simpa using hf2)

theorem pop_fr (s : State) : Fr s s.pop := ⟨rfl, rfl, rfl, rfl, rfl, rfl⟩
@[simp] theorem pop_cache (s : State) : s.pop.cache = s.cache := rfl
@[simp] theorem pop_store (s : State) : s.pop.store = s.store := rfl
@[simp] theorem pop_fails (s : State) : s.pop.fails = s.fails.tail := rfl
@[simp] theorem pop_picks (s : State) : s.pop.picks = s.picks := rfl
@[simp] theorem pop_heap (s : State) : s.pop.heap = s.heap := rfl
theorem pop_nil {s : State} (h : s.fails = []) : s.pop = s := fails_tail_nil h

theorem loadRec_nil_miss {s : State} {id : ID} (hf : s.fails = []) (hl : lookup id s.store = none) :
    loadRec s id = (s, .nil, [.load id false]) := by
  rw [loadRec_eq]; simp [hf, hl, pop_nil hf]

/-! ### `compact`: everything it can do is flush cached entries -/

/-- `e` is the event of a (successful or failed) flush of an entry of `c`, the object read through `obj`. -/
def IsFlush (cfg : Cfg) (c : List (ID × Nat)) (obj : Nat → Sess) (e : Ev) : Prop :=
  ∃ k h, (k, h) ∈ c ∧ (e = .save k (enc cfg.codec (obj h)) ∨ e = .saveFail k)

/-- `e` is the event of a successful flush of an entry of `c`. -/
def IsFlushOk (cfg : Cfg) (c : List (ID × Nat)) (obj : Nat → Sess) (e : Ev) : Prop :=
  ∃ k h, (k, h) ∈ c ∧ e = .save k (enc cfg.codec (obj h))

theorem IsFlushOk.isFlush {cfg c obj e} (h : IsFlushOk cfg c obj e) : IsFlush cfg c obj e := by
  obtain ⟨k, x, hm, he⟩ := h; exact ⟨k, x, hm, Or.inl he⟩

/-- What a run of flushes of entries of `c` does to the state. -/
structure Flushed (cfg : Cfg) (c : List (ID × Nat)) (s s' : State) (evs : List Ev) : Prop where
  fr : Fr s s'
  cache_sub : ∀ e, e ∈ s'.cache → e ∈ s.cache
  cache_lk : ∀ k, lookup k s'.cache = lookup k s.cache ∨ lookup k s'.cache = none
  store_lk : ∀ k, lookup k s'.store = lookup k s.store ∨
      ∃ h, (k, h) ∈ c ∧ lookup k s'.store = some (enc cfg.codec (s.obj h))
  evs_flush : ∀ e ∈ evs, IsFlush cfg c s.obj e
  fails_drop : ∃ n, s'.fails = s.fails.drop n
  nofail : s.fails = [] → ∀ e ∈ evs, IsFlushOk cfg c s.obj e

theorem Flushed.refl (cfg : Cfg) (c : List (ID × Nat)) (s : State) : Flushed cfg c s s [] :=
  ⟨Fr.refl s, fun _ h => h, fun _ => Or.inl rfl, fun _ => Or.inl rfl, by simp, ⟨0, rfl⟩, by simp⟩

theorem Flushed.trans {cfg c a b d e1 e2} (h1 : Flushed cfg c a b e1) (h2 : Flushed cfg c b d e2) :
    Flushed cfg c a d (e1 ++ e2) where
  fr := h1.fr.trans h2.fr
  cache_sub := fun e h => h1.cache_sub e (h2.cache_sub e h)
  cache_lk := fun k => by
    rcases h2.cache_lk k with h | h
    · rw [h]; exact h1.cache_lk k
    · exact Or.inr h
  store_lk := fun k => by
    rcases h2.store_lk k with h | ⟨x, hm, h⟩
    · rw [h]; exact h1.store_lk k
    · exact Or.inr ⟨x, hm, by rw [h, h1.fr.obj]⟩
  evs_flush := fun e he => by
    rcases List.mem_append.1 he with he | he
    · exact h1.evs_flush e he
    · have := h2.evs_flush e he
      rwa [show b.obj = a.obj from funext h1.fr.obj] at this
  fails_drop := by
    obtain ⟨n, hn⟩ := h1.fails_drop; obtain ⟨m, hm⟩ := h2.fails_drop
    exact ⟨n + m, by rw [hm, hn, List.drop_drop]⟩
  nofail := fun hf e he => by
    have hb : b.fails = [] := by obtain ⟨n, hn⟩ := h1.fails_drop; simp [hn, hf]
    rcases List.mem_append.1 he with he | he
    · exact h1.nofail hf e he
    · have := h2.nofail hb e he
      rwa [show b.obj = a.obj from funext h1.fr.obj] at this

theorem Flushed.fails_nil {cfg c s s' evs} (h : Flushed cfg c s s' evs) (hf : s.fails = []) : s'.fails = [] := by
  obtain ⟨n, hn⟩ := h.fails_drop; simp [hn, hf]

theorem Flushed.obj {cfg c s s' evs} (h : Flushed cfg c s s' evs) (x : Nat) : s'.obj x = s.obj x := h.fr.obj x

theorem Flushed.store_keys {cfg c s s' evs} (h : Flushed cfg c s s' evs) (k : ID)
    (hk : (lookup k s.store).isSome = true) : (lookup k s'.store).isSome = true := by
  rcases h.store_lk k with h | ⟨x, _, h⟩ <;> simp [h, hk]

theorem Flushed.mono {cfg c c' s s' evs} (h : Flushed cfg c s s' evs) (hc : ∀ e, e ∈ c → e ∈ c') :
    Flushed cfg c' s s' evs where
  fr := h.fr
  cache_sub := h.cache_sub
  cache_lk := h.cache_lk
  store_lk := fun k => by
    rcases h.store_lk k with h | ⟨x, hm, h⟩
    · exact Or.inl h
    · exact Or.inr ⟨x, hc _ hm, h⟩
  evs_flush := fun e he => by
    obtain ⟨k, x, hm, h⟩ := h.evs_flush e he; exact ⟨k, x, hc _ hm, h⟩
  fails_drop := h.fails_drop
  nofail := fun hf e he => by
    obtain ⟨k, x, hm, h⟩ := h.nofail hf e he; exact ⟨k, x, hc _ hm, h⟩

/-- no event of a flush run is a cookie, a load, a delete … -/
theorem Flushed.ev_cases {cfg c s s' evs} (h : Flushed cfg c s s' evs) {e : Ev} (he : e ∈ evs) :
    (∃ k r, e = .save k r) ∨ (∃ k, e = .saveFail k) := by
  obtain ⟨k, x, _, h | h⟩ := h.evs_flush e he
  · exact Or.inl ⟨k, _, h⟩
  · exact Or.inr ⟨k, h⟩

/-- one flush, followed by dropping the entry when it succeeded -/
theorem flush_step (cfg : Cfg) {c : List (ID × Nat)} (s : State) {id : ID} {h : Nat} (hm : (id, h) ∈ c) :
    Flushed cfg c s
      (if (saveRec cfg s id (s.obj h)).2.1 = true then
        { (saveRec cfg s id (s.obj h)).1 with cache := erase id (saveRec cfg s id (s.obj h)).1.cache }
       else (saveRec cfg s id (s.obj h)).1)
      (saveRec cfg s id (s.obj h)).2.2 := by
  rw [saveRec_eq]
  by_cases hf : s.fails.headD false = true
  · simp only [hf, if_true]
    refine ⟨⟨rfl, rfl, rfl, rfl, rfl, rfl⟩, fun _ h => h, fun _ => Or.inl rfl, fun _ => Or.inl rfl, ?_, ⟨1, by simp [State.pop2]⟩, ?_⟩
    · intro e he; simp at he; exact ⟨id, h, hm, Or.inr he⟩
    · intro hn; simp [hn] at hf
  · simp only [hf]
    refine ⟨⟨rfl, rfl, rfl, rfl, rfl, rfl⟩, fun _ h => mem_of_mem_erase h, ?_, ?_, ?_, ⟨1, by simp [State.pop2]⟩, ?_⟩
    · intro k
      show lookup k (erase id s.cache) = _ ∨ lookup k (erase id s.cache) = none
      rw [lookup_erase]; by_cases hk : id = k <;> simp [hk]
    · intro k
      show lookup k (insert id _ s.store) = _ ∨ _
      by_cases hk : id = k
      · subst hk; exact Or.inr ⟨h, hm, by simp⟩
      · exact Or.inl (lookup_insert_ne hk _ _)
    · intro e he; simp at he; exact ⟨id, h, hm, Or.inl he⟩
    · intro _ e he; simp at he; exact ⟨id, h, hm, he⟩

theorem sweep_cons (cfg : Cfg) (s : State) (id : ID) (h : Nat) (rest : List (ID × Nat)) :
    sweep cfg s ((id, h) :: rest) =
      if since s.now (s.obj h).lastAccess > cfg.cacheExpiry then
        if (saveRec cfg s id (s.obj h)).2.1 = true then
          ((sweep cfg { (saveRec cfg s id (s.obj h)).1 with cache := erase id (saveRec cfg s id (s.obj h)).1.cache } rest).1,
           (sweep cfg { (saveRec cfg s id (s.obj h)).1 with cache := erase id (saveRec cfg s id (s.obj h)).1.cache } rest).2.1,
           (saveRec cfg s id (s.obj h)).2.2 ++
            (sweep cfg { (saveRec cfg s id (s.obj h)).1 with cache := erase id (saveRec cfg s id (s.obj h)).1.cache } rest).2.2)
        else ((saveRec cfg s id (s.obj h)).1, false, (saveRec cfg s id (s.obj h)).2.2)
      else sweep cfg s rest := by
  rfl

theorem sweep_flushed (cfg : Cfg) (c : List (ID × Nat)) :
    ∀ (l : List (ID × Nat)) (s : State), (∀ e, e ∈ l → e ∈ c) →
      Flushed cfg c s (sweep cfg s l).1 (sweep cfg s l).2.2
  | [], s, _ => Flushed.refl cfg c s
  | (id, h) :: rest, s, hl => by
    rw [sweep_cons]
    have hm : (id, h) ∈ c := hl _ List.mem_cons_self
    have hrest : ∀ e, e ∈ rest → e ∈ c := fun e he => hl e (List.mem_cons_of_mem _ he)
    have st := flush_step cfg s hm
    split
    · split
      · rename_i hok
        rw [if_pos hok] at st
        exact st.trans (sweep_flushed cfg c rest _ hrest)
      · rename_i hok
        rw [if_neg hok] at st
        exact st
    · exact sweep_flushed cfg c rest s hrest

theorem mem_orderBy {picks : List ID} {l : List (ID × Nat)} {e : ID × Nat} (h : e ∈ orderBy picks l) : e ∈ l := by
  unfold orderBy at h
  rcases List.mem_append.1 h with h | h
  · rw [List.mem_eraseDups, List.mem_filterMap] at h
    obtain ⟨p, _, hp⟩ := h
    exact List.mem_of_find?_eq_some hp
  · exact (List.mem_filter.1 h).1

theorem mem_firstMin {s : State} {m : Int} : ∀ {l : List (ID × Nat)} {e : ID × Nat}, firstMin s m l = some e → e ∈ l
  | [], _, h => by simp [firstMin] at h
  | (id, x) :: r, e, h => by
    simp only [firstMin] at h
    split at h
    · cases h; exact List.mem_cons_self
    · exact List.mem_cons_of_mem _ (mem_firstMin h)

theorem mem_victim {s : State} {e : ID × Nat} (h : victim s = some e) : e ∈ s.cache := by
  unfold victim at h
  split at h
  · cases h
  · exact mem_orderBy (mem_firstMin h)

theorem evictLoop_succ (cfg : Cfg) (req : Int) (fuel : Nat) (s : State) :
    evictLoop cfg req (fuel + 1) s =
      if (s.cache.length : Int) + req > cfg.maxCache then
        match victim s with
        | none => (s, [])
        | some (id, h) =>
          if (saveRec cfg s id (s.obj h)).2.1 = true then
            ((evictLoop cfg req fuel { (saveRec cfg s id (s.obj h)).1 with cache := erase id (saveRec cfg s id (s.obj h)).1.cache }).1,
             (saveRec cfg s id (s.obj h)).2.2 ++
              (evictLoop cfg req fuel { (saveRec cfg s id (s.obj h)).1 with cache := erase id (saveRec cfg s id (s.obj h)).1.cache }).2)
          else ((saveRec cfg s id (s.obj h)).1, (saveRec cfg s id (s.obj h)).2.2)
      else (s, []) := by
  rfl

theorem evictLoop_flushed (cfg : Cfg) (req : Int) (c : List (ID × Nat)) :
    ∀ (fuel : Nat) (s : State), (∀ e, e ∈ s.cache → e ∈ c) →
      Flushed cfg c s (evictLoop cfg req fuel s).1 (evictLoop cfg req fuel s).2
  | 0, s, _ => Flushed.refl cfg c s
  | fuel + 1, s, hc => by
    rw [evictLoop_succ]
    split
    · cases hv : victim s with
      | none => exact Flushed.refl cfg c s
      | some e =>
        obtain ⟨id, h⟩ := e
        have st := flush_step cfg s (hc _ (mem_victim hv))
        simp only
        split
        · rename_i hok
          rw [if_pos hok] at st
          exact st.trans (evictLoop_flushed cfg req c fuel _ (fun e he => hc e (st.cache_sub e he)))
        · rename_i hok
          rw [if_neg hok] at st
          exact st
    · exact Flushed.refl cfg c s

theorem compact_eq (cfg : Cfg) (req : Int) (s : State) :
    compact cfg req s =
      if (sweep cfg s (orderBy s.picks s.cache)).2.1 = false then
        ((sweep cfg s (orderBy s.picks s.cache)).1, (sweep cfg s (orderBy s.picks s.cache)).2.2)
      else if cfg.maxCache < 0 ∨ ((sweep cfg s (orderBy s.picks s.cache)).1.cache.length : Int) + req ≤ cfg.maxCache then
        ((sweep cfg s (orderBy s.picks s.cache)).1, (sweep cfg s (orderBy s.picks s.cache)).2.2)
      else
        ((evictLoop cfg (if req > cfg.maxCache then cfg.maxCache else req)
            (sweep cfg s (orderBy s.picks s.cache)).1.cache.length (sweep cfg s (orderBy s.picks s.cache)).1).1,
         (sweep cfg s (orderBy s.picks s.cache)).2.2 ++
          (evictLoop cfg (if req > cfg.maxCache then cfg.maxCache else req)
            (sweep cfg s (orderBy s.picks s.cache)).1.cache.length (sweep cfg s (orderBy s.picks s.cache)).1).2) := by
  simp only [compact]
  cases (sweep cfg s (orderBy s.picks s.cache)).2.1 <;> simp

/-- **`compact` only flushes entries of the cache it was called on.** -/
theorem compact_flushed (cfg : Cfg) (req : Int) (s : State) :
    Flushed cfg s.cache s (compact cfg req s).1 (compact cfg req s).2 := by
  have h1 := sweep_flushed cfg s.cache (orderBy s.picks s.cache) s (fun e he => mem_orderBy he)
  rw [compact_eq]
  split
  · exact h1
  · split
    · exact h1
    · exact h1.trans (evictLoop_flushed cfg _ s.cache _ _ h1.cache_sub)

/-! ### `cache.Set` -/

/-- `Set` first stamps the object. -/
def setObjNow (s : State) (h : Nat) : State := s.setObj h { s.obj h with lastAccess := s.now }
/-- the space `Set` asks `compact` for -/
def setReq (s : State) (h : Nat) : Int := if (lookup (s.obj h).id s.cache).isSome then 0 else 1
/-- the compaction run inside `Set` -/
def setC (cfg : Cfg) (s : State) (h : Nat) : State × List Ev := compact cfg (setReq s h) (setObjNow s h)
/-- the state right before the write-through save of `Set` -/
def setK (cfg : Cfg) (s : State) (h : Nat) : State :=
  if cfg.maxCache != 0 then { (setC cfg s h).1 with cache := insert (s.obj h).id h (setC cfg s h).1.cache }
  else (setC cfg s h).1
/-- the write-through save of `Set` -/
def setSave (cfg : Cfg) (s : State) (h : Nat) : State × Bool × List Ev :=
  saveRec cfg (setK cfg s h) (s.obj h).id ((setK cfg s h).obj h)

theorem cacheSet_eq (cfg : Cfg) (s : State) (h : Nat) :
    cacheSet cfg s h = ((setSave cfg s h).1, (setSave cfg s h).2.1, (setC cfg s h).2 ++ (setSave cfg s h).2.2) := rfl

theorem setObjNow_fr (s : State) (h : Nat) :
    (setObjNow s h).now = s.now ∧ (setObjNow s h).nextId = s.nextId ∧ (setObjNow s h).timers = s.timers ∧
    (setObjNow s h).vers = s.vers ∧ (setObjNow s h).extra = s.extra ∧ (setObjNow s h).cache = s.cache ∧
    (setObjNow s h).store = s.store ∧ (setObjNow s h).fails = s.fails ∧ (setObjNow s h).picks = s.picks :=
  ⟨rfl, rfl, rfl, rfl, rfl, rfl, rfl, rfl, rfl⟩

@[simp] theorem setObjNow_cache (s : State) (h : Nat) : (setObjNow s h).cache = s.cache := rfl
@[simp] theorem setObjNow_store (s : State) (h : Nat) : (setObjNow s h).store = s.store := rfl
@[simp] theorem setObjNow_fails (s : State) (h : Nat) : (setObjNow s h).fails = s.fails := rfl
@[simp] theorem setObjNow_now (s : State) (h : Nat) : (setObjNow s h).now = s.now := rfl
@[simp] theorem setObjNow_nextId (s : State) (h : Nat) : (setObjNow s h).nextId = s.nextId := rfl
@[simp] theorem setObjNow_heap_length (s : State) (h : Nat) : (setObjNow s h).heap.length = s.heap.length := by
  simp [setObjNow]

/-- the stamped object keeps every field but `lastAccess` (whatever the handle) -/
theorem setObjNow_obj_self (s : State) (h : Nat) :
    (setObjNow s h).obj h = if h < s.heap.length then { s.obj h with lastAccess := s.now } else s.obj h := by
  simp [setObjNow, obj_setObj]

theorem setObjNow_obj_ne {s : State} {h x : Nat} (hne : h ≠ x) : (setObjNow s h).obj x = s.obj x := by
  simp [setObjNow, obj_setObj, hne]

theorem setObjNow_obj_id (s : State) (h x : Nat) : ((setObjNow s h).obj x).id = (s.obj x).id := by
  by_cases hx : h = x
  · subst hx; rw [setObjNow_obj_self]; split <;> rfl
  · rw [setObjNow_obj_ne hx]

/-- the compaction inside `Set` flushes entries of the cache `Set` was called on -/
theorem setC_flushed (cfg : Cfg) (s : State) (h : Nat) :
    Flushed cfg s.cache (setObjNow s h) (setC cfg s h).1 (setC cfg s h).2 :=
  compact_flushed cfg (setReq s h) (setObjNow s h)

theorem setK_fr (cfg : Cfg) (s : State) (h : Nat) : Fr (setObjNow s h) (setK cfg s h) := by
  unfold setK; split
  · exact ⟨(setC_flushed cfg s h).fr.now, (setC_flushed cfg s h).fr.heap, (setC_flushed cfg s h).fr.nextId,
      (setC_flushed cfg s h).fr.timers, (setC_flushed cfg s h).fr.vers, (setC_flushed cfg s h).fr.extra⟩
  · exact (setC_flushed cfg s h).fr

theorem setK_store (cfg : Cfg) (s : State) (h : Nat) : (setK cfg s h).store = (setC cfg s h).1.store := by
  unfold setK; split <;> rfl
theorem setK_fails (cfg : Cfg) (s : State) (h : Nat) : (setK cfg s h).fails = (setC cfg s h).1.fails := by
  unfold setK; split <;> rfl
theorem setK_cache (cfg : Cfg) (s : State) (h : Nat) :
    (setK cfg s h).cache =
      if cfg.maxCache ≠ 0 then insert (s.obj h).id h (setC cfg s h).1.cache else (setC cfg s h).1.cache := by
  unfold setK; by_cases hm : cfg.maxCache = 0 <;> simp [hm]

theorem cacheSet_fr (cfg : Cfg) (s : State) (h : Nat) : Fr (setObjNow s h) (cacheSet cfg s h).1 :=
  (setK_fr cfg s h).trans (saveRec_fr cfg _ _ _)

theorem cacheSet_obj (cfg : Cfg) (s : State) (h x : Nat) : (cacheSet cfg s h).1.obj x = (setObjNow s h).obj x :=
  (cacheSet_fr cfg s h).obj x

theorem cacheSet_obj_id (cfg : Cfg) (s : State) (h x : Nat) : ((cacheSet cfg s h).1.obj x).id = (s.obj x).id := by
  rw [cacheSet_obj, setObjNow_obj_id]

theorem cacheSet_obj_ne (cfg : Cfg) {s : State} {h x : Nat} (hne : h ≠ x) : (cacheSet cfg s h).1.obj x = s.obj x := by
  rw [cacheSet_obj, setObjNow_obj_ne hne]

theorem cacheSet_obj_self (cfg : Cfg) {s : State} {h : Nat} (hv : h < s.heap.length) :
    (cacheSet cfg s h).1.obj h = { s.obj h with lastAccess := s.now } := by
  rw [cacheSet_obj, setObjNow_obj_self, if_pos hv]

theorem cacheSet_now (cfg : Cfg) (s : State) (h : Nat) : (cacheSet cfg s h).1.now = s.now := (cacheSet_fr cfg s h).now
theorem cacheSet_nextId (cfg : Cfg) (s : State) (h : Nat) : (cacheSet cfg s h).1.nextId = s.nextId := (cacheSet_fr cfg s h).nextId
theorem cacheSet_timers (cfg : Cfg) (s : State) (h : Nat) : (cacheSet cfg s h).1.timers = s.timers := (cacheSet_fr cfg s h).timers
theorem cacheSet_vers (cfg : Cfg) (s : State) (h : Nat) : (cacheSet cfg s h).1.vers = s.vers := (cacheSet_fr cfg s h).vers
theorem cacheSet_extra (cfg : Cfg) (s : State) (h : Nat) : (cacheSet cfg s h).1.extra = s.extra := (cacheSet_fr cfg s h).extra
theorem cacheSet_heap_length (cfg : Cfg) (s : State) (h : Nat) : (cacheSet cfg s h).1.heap.length = s.heap.length := by
  rw [(cacheSet_fr cfg s h).heap]; simp

theorem cacheSet_cache (cfg : Cfg) (s : State) (h : Nat) :
    (cacheSet cfg s h).1.cache =
      if cfg.maxCache ≠ 0 then insert (s.obj h).id h (setC cfg s h).1.cache else (setC cfg s h).1.cache := by
  rw [cacheSet_eq]; simp only [setSave, saveRec_cache, setK_cache]

theorem cacheSet_fails (cfg : Cfg) (s : State) (h : Nat) : (cacheSet cfg s h).1.fails = (setC cfg s h).1.fails.tail := by
  rw [cacheSet_eq]; simp only [setSave, saveRec_fails, setK_fails]

/-- `Set` succeeds iff its write-through save does: the oracle entry left after the compaction. -/
theorem cacheSet_ok_iff (cfg : Cfg) (s : State) (h : Nat) :
    (cacheSet cfg s h).2.1 = true ↔ (setC cfg s h).1.fails.headD false = false := by
  rw [cacheSet_eq]; simp only [setSave, saveRec_ok_iff, setK_fails]

/-- the record `Set` writes is the encoding of the object as it is afterwards -/
theorem cacheSet_store_ok {cfg : Cfg} {s : State} {h : Nat} (hok : (cacheSet cfg s h).2.1 = true) :
    (cacheSet cfg s h).1.store =
      insert (s.obj h).id (enc cfg.codec ((cacheSet cfg s h).1.obj h)) (setC cfg s h).1.store := by
  have h1 : (setSave cfg s h).2.1 = true := hok
  have h2 : (cacheSet cfg s h).1.store = (setSave cfg s h).1.store := rfl
  rw [h2]; unfold setSave at h1 ⊢
  rw [saveRec_store_ok h1, setK_store, (setK_fr cfg s h).obj, cacheSet_obj]

theorem cacheSet_store_fail {cfg : Cfg} {s : State} {h : Nat} (hok : (cacheSet cfg s h).2.1 = false) :
    (cacheSet cfg s h).1.store = (setC cfg s h).1.store := by
  have h1 : (setSave cfg s h).2.1 = false := hok
  have h2 : (cacheSet cfg s h).1.store = (setSave cfg s h).1.store := rfl
  rw [h2]; unfold setSave at h1 ⊢
  rw [saveRec_store_fail h1, setK_store]

/-- the events of `Set`: the flushes of its compaction, then the write-through save -/
theorem cacheSet_evs (cfg : Cfg) (s : State) (h : Nat) :
    (cacheSet cfg s h).2.2 = (setC cfg s h).2 ++
      [if (cacheSet cfg s h).2.1 = true then .save (s.obj h).id (enc cfg.codec ((cacheSet cfg s h).1.obj h))
       else .saveFail (s.obj h).id] := by
  have h1 : (cacheSet cfg s h).2.2 = (setC cfg s h).2 ++ (setSave cfg s h).2.2 := rfl
  have h2 : (cacheSet cfg s h).2.1 = (setSave cfg s h).2.1 := rfl
  rw [h1, h2]; unfold setSave
  rw [saveRec_evs, (setK_fr cfg s h).obj, cacheSet_obj]

theorem cacheSet_nil {cfg : Cfg} {s : State} (h : Nat) (hf : s.fails = []) :
    (cacheSet cfg s h).2.1 = true ∧ (cacheSet cfg s h).1.fails = [] := by
  have := (setC_flushed cfg s h).fails_nil hf
  exact ⟨(cacheSet_ok_iff cfg s h).2 (by simp [this]), by rw [cacheSet_fails, this]; rfl⟩

/-- **C09 for `cache.Set`**: after a successful `Set` the record under the object's id is its encoding. -/
theorem cacheSet_saved {cfg : Cfg} {s : State} {h : Nat} (hok : (cacheSet cfg s h).2.1 = true) :
    lookup ((cacheSet cfg s h).1.obj h).id (cacheSet cfg s h).1.store =
      some (enc cfg.codec ((cacheSet cfg s h).1.obj h)) := by
  rw [cacheSet_store_ok hok, cacheSet_obj_id]; simp

/-- what `Set` does to the other records: nothing, or a flush of a cached entry -/
theorem cacheSet_store_lk (cfg : Cfg) (s : State) (h : Nat) (k : ID)
    (hk : (cacheSet cfg s h).2.1 = true → k ≠ (s.obj h).id) :
    lookup k (cacheSet cfg s h).1.store = lookup k s.store ∨
      ∃ x, (k, x) ∈ s.cache ∧ lookup k (cacheSet cfg s h).1.store = some (enc cfg.codec ((cacheSet cfg s h).1.obj x)) := by
  have hfl := (setC_flushed cfg s h).store_lk k
  simp only [cacheSet_obj]
  cases hok : (cacheSet cfg s h).2.1 with
  | true => rw [cacheSet_store_ok hok, lookup_insert_ne (Ne.symm (hk hok))]; exact hfl
  | false => rw [cacheSet_store_fail hok]; exact hfl

/-- what `Set` does to the cache: the object's id now maps to it (unless caching is off), other
keys keep their entry or lose it -/
theorem cacheSet_cache_lk (cfg : Cfg) (s : State) (h : Nat) (k : ID) (hk : k ≠ (s.obj h).id) :
    lookup k (cacheSet cfg s h).1.cache = lookup k s.cache ∨ lookup k (cacheSet cfg s h).1.cache = none := by
  rw [cacheSet_cache]
  have := (setC_flushed cfg s h).cache_lk k
  split
  · rw [lookup_insert_ne (Ne.symm hk)]; exact this
  · exact this

theorem cacheSet_cache_self {cfg : Cfg} (s : State) (h : Nat) (hm : cfg.maxCache ≠ 0) :
    lookup (s.obj h).id (cacheSet cfg s h).1.cache = some h := by
  rw [cacheSet_cache, if_pos hm]; simp

/-- entries of the cache after `Set`: the new one, or old ones -/
theorem cacheSet_cache_mem (cfg : Cfg) (s : State) (h : Nat) {e : ID × Nat} (he : e ∈ (cacheSet cfg s h).1.cache) :
    e = ((s.obj h).id, h) ∨ (e ∈ s.cache ∧ (cfg.maxCache ≠ 0 → e.1 ≠ (s.obj h).id)) := by
  rw [cacheSet_cache] at he
  split at he
  · rename_i hm
    rcases mem_insert.1 he with h1 | h1
    · exact Or.inl h1
    · exact Or.inr ⟨(setC_flushed cfg s h).cache_sub _ h1.1, fun _ => h1.2⟩
  · rename_i hm
    exact Or.inr ⟨(setC_flushed cfg s h).cache_sub _ he, fun h => absurd h hm⟩

/-! ### `cache.Get` -/

/-- what `Get` does with the answer of the persistence layer -/
def getOf (cfg : Cfg) (id : ID) : State × LoadRes × List Ev → State × GetRes × List Ev
  | (s0, .fail, e0) => (s0, .err, e0)
  | (s0, .nil, e0) => (s0, .nil, e0)
  | (s0, .found o, e0) =>
    if cfg.maxCache != 0 then
      ({ (compact cfg 1 (s0.alloc o).2).1 with cache := insert id s0.heap.length (compact cfg 1 (s0.alloc o).2).1.cache },
        .some s0.heap.length, e0 ++ (compact cfg 1 (s0.alloc o).2).2)
    else ((s0.alloc o).2, .some s0.heap.length, e0)

theorem cacheGet_hit {cfg : Cfg} {s : State} {id : ID} {h : Nat} (hc : lookup id s.cache = some h) :
    cacheGet cfg s id = (s, .some h, []) := by
  simp [cacheGet, hc]

theorem cacheGet_miss {cfg : Cfg} {s : State} {id : ID} (hc : lookup id s.cache = none) :
    cacheGet cfg s id = getOf cfg id (loadRec s id) := by
  simp only [cacheGet, hc]
  rfl

/-- the forged-cookie case: nothing cached, nothing stored, no fault -/
theorem cacheGet_miss_nil {cfg : Cfg} {s : State} {id : ID} (hc : lookup id s.cache = none)
    (hs : lookup id s.store = none) (hf : s.fails = []) : cacheGet cfg s id = (s, .nil, [.load id false]) := by
  rw [cacheGet_miss hc, loadRec_nil_miss hf hs]; rfl

/-- The outcomes of `Get`. -/
inductive GetCase (cfg : Cfg) (s : State) (id : ID) : State × GetRes × List Ev → Prop
  | hit (h : Nat) : lookup id s.cache = some h → GetCase cfg s id (s, .some h, [])
  | miss (x : State × LoadRes × List Ev) : lookup id s.cache = none → LoadCase s id x → GetCase cfg s id (getOf cfg id x)

theorem cacheGet_cases (cfg : Cfg) (s : State) (id : ID) : GetCase cfg s id (cacheGet cfg s id) := by
  cases hc : lookup id s.cache with
  | some h => rw [cacheGet_hit hc]; exact GetCase.hit h hc
  | none => rw [cacheGet_miss hc]; exact GetCase.miss _ hc (loadRec_cases s id)

/-- the part of `getOf` for a found record, with its compaction named -/
theorem getOf_found (cfg : Cfg) (id : ID) (s0 : State) (o : Sess) (e0 : List Ev) :
    getOf cfg id (s0, .found o, e0) =
      if cfg.maxCache != 0 then
        ({ (compact cfg 1 (s0.alloc o).2).1 with cache := insert id s0.heap.length (compact cfg 1 (s0.alloc o).2).1.cache },
          .some s0.heap.length, e0 ++ (compact cfg 1 (s0.alloc o).2).2)
      else ((s0.alloc o).2, .some s0.heap.length, e0) := rfl

/-- What `Get` guarantees whatever the oracles: the state changes only by oracle consumption, one
allocation and flushes; a returned handle is valid; a loaded object carries the requested id. -/
structure GetSpec (cfg : Cfg) (s : State) (id : ID) (s' : State) (res : GetRes) (evs : List Ev) : Prop where
  now : s'.now = s.now
  nextId : s'.nextId = s.nextId
  timers : s'.timers = s.timers
  vers : s'.vers = s.vers
  extra : s'.extra = s.extra
  heap : s'.heap = s.heap ∨ ∃ o, s'.heap = s.heap ++ [o] ∧ res = .some s.heap.length ∧ o.id = id ∧
            lookup id s.cache = none ∧ ∃ r, lookup id s.store = some r ∧ o = dec s.ver id r
  obj_old : ∀ x, x < s.heap.length → s'.obj x = s.obj x
  cache_lk : ∀ k, k ≠ id → lookup k s'.cache = lookup k s.cache ∨ lookup k s'.cache = none
  cache_mem : ∀ e, e ∈ s'.cache → e ∈ s.cache ∨ (e = (id, s.heap.length) ∧ res = .some s.heap.length ∧ lookup id s.cache = none)
  store_lk : ∀ k, lookup k s'.store = lookup k s.store ∨
      ∃ x, (k, x) ∈ s.cache ∧ lookup k s'.store = some (enc cfg.codec (s'.obj x))
  fails_drop : ∃ n, s'.fails = s.fails.drop n
  some_valid : ∀ h, res = .some h → (lookup id s.cache = some h ∧ s' = s ∧ evs = []) ∨
      (h = s.heap.length ∧ lookup id s.cache = none ∧ s'.heap.length = s.heap.length + 1 ∧ (s'.obj h).id = id)
  some_cached : ∀ h, res = .some h → cfg.maxCache ≠ 0 → lookup id s'.cache = some h
  nil_evs : res = .nil → evs = [.load id false] ∧ lookup id s.cache = none ∧ lookup id s.store = none ∧
      s'.cache = s.cache ∧ s'.store = s.store ∧ s'.heap = s.heap ∧ s'.fails = s.fails.tail ∧ s.fails.headD false = false
  err_evs : res = .err → lookup id s.cache = none ∧ s'.cache = s.cache ∧ s'.store = s.store ∧ s'.heap = s.heap ∧
      (evs = [.loadFail id] ∨ ∃ uid, evs = [.load id true, .userFail uid, .loadErr id])
  evs_shape : ∀ e ∈ evs, IsFlush cfg s.cache s'.obj e ∨ e = .load id false ∨ e = .load id true ∨ e = .loadFail id ∨
      e = .loadErr id ∨ (∃ uid, e = .user uid) ∨ (∃ uid, e = .userFail uid)

theorem pop_drop (s : State) : ∃ n, s.pop.fails = s.fails.drop n := ⟨1, by simp⟩
theorem pop_pop_drop (s : State) : ∃ n, s.pop.pop.fails = s.fails.drop n :=
  ⟨2, by show s.fails.tail.tail = _; cases s.fails with | nil => rfl | cons a l => cases l <;> rfl⟩

/-- `GetSpec` when nothing but the oracle moved and no handle is returned -/
theorem GetSpec.of_pops {cfg : Cfg} {s s' : State} {id : ID} {res : GetRes} {evs : List Ev}
    (hfr : Fr s s') (hc : s'.cache = s.cache) (hs : s'.store = s.store) (hd : ∃ n, s'.fails = s.fails.drop n)
    (hmiss : lookup id s.cache = none) (hres : ∀ h, res ≠ .some h)
    (hnil : res = .nil → evs = [.load id false] ∧ lookup id s.store = none ∧ s'.fails = s.fails.tail ∧ s.fails.headD false = false)
    (herr : res = .err → (evs = [.loadFail id] ∨ ∃ uid, evs = [.load id true, .userFail uid, .loadErr id])) :
    GetSpec cfg s id s' res evs where
  now := hfr.now
  nextId := hfr.nextId
  timers := hfr.timers
  vers := hfr.vers
  extra := hfr.extra
  heap := Or.inl hfr.heap
  obj_old := fun x _ => hfr.obj x
  cache_lk := fun k _ => Or.inl (by rw [hc])
  cache_mem := fun e he => Or.inl (hc ▸ he)
  store_lk := fun k => Or.inl (by rw [hs])
  fails_drop := hd
  some_valid := fun h hh => absurd hh (hres h)
  some_cached := fun h hh => absurd hh (hres h)
  nil_evs := fun hr => by
    obtain ⟨h1, h2, h3, h4⟩ := hnil hr
    exact ⟨h1, hmiss, h2, hc, hs, hfr.heap, h3, h4⟩
  err_evs := fun hr => ⟨hmiss, hc, hs, hfr.heap, herr hr⟩
  evs_shape := fun e he => by
    cases res with
    | some h => exact absurd rfl (hres h)
    | nil => obtain ⟨h1, _⟩ := hnil rfl; subst h1; simp at he; simp [he]
    | err =>
      rcases herr rfl with h1 | ⟨uid, h1⟩
      · subst h1; simp at he; simp [he]
      · subst h1; simp at he
        rcases he with he | he | he
        · simp [he]
        · exact Or.inr (Or.inr (Or.inr (Or.inr (Or.inr (Or.inr ⟨uid, he⟩)))))
        · simp [he]

/-- `GetSpec` for a record that was found and decoded; `s0` is the state after the load(s). -/
theorem GetSpec.of_found {cfg : Cfg} {s s0 : State} {id : ID} {r : Rec} {e0 : List Ev}
    (hfr : Fr s s0) (hc : s0.cache = s.cache) (hs : s0.store = s.store) (hd : ∃ n, s0.fails = s.fails.drop n)
    (hmiss : lookup id s.cache = none) (hr : lookup id s.store = some r)
    (he0 : ∀ e ∈ e0, e = .load id true ∨ ∃ uid, e = .user uid) :
    GetSpec cfg s id (getOf cfg id (s0, .found (dec s.ver id r), e0)).1
      (getOf cfg id (s0, .found (dec s.ver id r), e0)).2.1 (getOf cfg id (s0, .found (dec s.ver id r), e0)).2.2 := by
  have hlen : s0.heap.length = s.heap.length := by rw [hfr.heap]
  rw [getOf_found]
  by_cases hm : cfg.maxCache = 0
  · simp only [hm, bne_self_eq_false, Bool.false_eq_true, if_false]
    refine ⟨hfr.now, hfr.nextId, hfr.timers, hfr.vers, hfr.extra, Or.inr ⟨_, by simp [hfr.heap], by simp [hlen], rfl, hmiss, r, hr, rfl⟩,
      ?_, fun k _ => Or.inl (by simp [hc]), fun e he => Or.inl (by simpa [hc] using he), fun k => Or.inl (by simp [hs]),
      hd, ?_, fun _ _ h => absurd hm h, by simp, by simp, ?_⟩
    · intro x hx; rw [obj_alloc_old (by omega), hfr.obj]
    · intro h hh
      simp only [GetRes.some.injEq] at hh
      refine Or.inr ⟨by omega, hmiss, by simp [hlen], ?_⟩
      rw [← hh, obj_alloc_new]; rfl
    · intro e he
      rcases he0 e he with h | ⟨uid, h⟩
      · simp [h]
      · exact Or.inr (Or.inr (Or.inr (Or.inr (Or.inr (Or.inl ⟨uid, h⟩)))))
  · have hm' : (cfg.maxCache != 0) = true := by simpa using hm
    simp only [hm', if_true]
    have fl := compact_flushed cfg 1 (s0.alloc (dec s.ver id r)).2
    have hobj : ∀ x, (compact cfg 1 (s0.alloc (dec s.ver id r)).2).1.obj x = (s0.alloc (dec s.ver id r)).2.obj x := fl.fr.obj
    have hold : ∀ x, x < s.heap.length → (s0.alloc (dec s.ver id r)).2.obj x = s.obj x := by
      intro x hx; rw [obj_alloc_old (by omega), hfr.obj]
    refine ⟨by simp [fl.fr.now, hfr.now], by simp [fl.fr.nextId, hfr.nextId], by simp [fl.fr.timers, hfr.timers],
      by simp [fl.fr.vers, hfr.vers], by simp [fl.fr.extra, hfr.extra],
      Or.inr ⟨_, by simp [fl.fr.heap, hfr.heap], by simp [hlen], rfl, hmiss, r, hr, rfl⟩, ?_, ?_, ?_, ?_, ?_, ?_, ?_, by simp, by simp, ?_⟩
    · intro x hx
      show (compact cfg 1 (s0.alloc (dec s.ver id r)).2).1.obj x = _
      rw [hobj, hold x hx]
    · intro k hk
      show lookup k (insert id _ _) = _ ∨ lookup k (insert id _ _) = none
      rw [lookup_insert_ne (Ne.symm hk)]
      have := fl.cache_lk k
      simpa [hc] using this
    · intro e he
      rcases mem_insert.1 he with h | h
      · exact Or.inr ⟨by rw [h, hlen], by simp [hlen], hmiss⟩
      · exact Or.inl (by simpa [hc] using fl.cache_sub _ h.1)
    · intro k
      rcases fl.store_lk k with h | ⟨x, hx, h⟩
      · exact Or.inl (by simpa [hs] using h)
      · simp only [alloc_cache, hc] at hx
        exact Or.inr ⟨x, hx, by rw [h]; congr 2; exact (hobj x).symm⟩
    · obtain ⟨n, hn⟩ := hd; obtain ⟨m, hm2⟩ := fl.fails_drop
      exact ⟨n + m, by simp [hm2, hn, List.drop_drop]⟩
    · intro h hh
      simp only [GetRes.some.injEq] at hh
      refine Or.inr ⟨by omega, hmiss, by simp [fl.fr.heap, hlen], ?_⟩
      show ((compact cfg 1 (s0.alloc (dec s.ver id r)).2).1.obj h).id = id
      rw [hobj, ← hh, obj_alloc_new]; rfl
    · intro h hh _
      simp only [GetRes.some.injEq] at hh
      show lookup id (insert id _ _) = _
      simp [hh]
    · intro e he
      rcases List.mem_append.1 he with he | he
      · rcases he0 e he with h | ⟨uid, h⟩
        · simp [h]
        · exact Or.inr (Or.inr (Or.inr (Or.inr (Or.inr (Or.inl ⟨uid, h⟩)))))
      · left
        obtain ⟨k, x, hx, h⟩ := fl.evs_flush e he
        simp only [alloc_cache, hc] at hx
        exact ⟨k, x, hx, by
          rcases h with h | h
          · left; rw [h]; congr 2; exact (hobj x).symm
          · exact Or.inr h⟩

theorem GetSpec.of_hit {cfg : Cfg} {s : State} {id : ID} {h : Nat} (hc : lookup id s.cache = some h) :
    GetSpec cfg s id s (.some h) [] where
  now := rfl
  nextId := rfl
  timers := rfl
  vers := rfl
  extra := rfl
  heap := Or.inl rfl
  obj_old := fun _ _ => rfl
  cache_lk := fun _ _ => Or.inl rfl
  cache_mem := fun _ he => Or.inl he
  store_lk := fun _ => Or.inl rfl
  fails_drop := ⟨0, rfl⟩
  some_valid := fun x hx => by
    simp only [GetRes.some.injEq] at hx; subst hx; exact Or.inl ⟨hc, rfl, rfl⟩
  some_cached := fun x hx _ => by
    simp only [GetRes.some.injEq] at hx; subst hx; exact hc
  nil_evs := by simp
  err_evs := by simp
  evs_shape := by simp

/-- **the specification of `cache.Get` for every state and every oracle** -/
theorem cacheGet_spec (cfg : Cfg) (s : State) (id : ID) :
    GetSpec cfg s id (cacheGet cfg s id).1 (cacheGet cfg s id).2.1 (cacheGet cfg s id).2.2 := by
  have hcase := cacheGet_cases cfg s id
  generalize cacheGet cfg s id = out at hcase
  cases hcase with
  | hit h hc => exact GetSpec.of_hit hc
  | miss x hc hl =>
    cases hl with
    | fail hf =>
      exact GetSpec.of_pops (pop_fr s) rfl rfl (pop_drop s) hc (by intro h; simp [getOf]) (by simp [getOf]) (by simp [getOf])
    | nil hf hl =>
      exact GetSpec.of_pops (pop_fr s) rfl rfl (pop_drop s) hc (by intro h; simp [getOf])
        (by intro _; exact ⟨rfl, hl, rfl, hf⟩) (by simp [getOf])
    | plain r hf hl hu =>
      exact GetSpec.of_found (pop_fr s) rfl rfl (pop_drop s) hc hl (by simp)
    | userFail r uid hf hl hu hf2 =>
      exact GetSpec.of_pops ((pop_fr s).trans (pop_fr _)) rfl rfl (pop_pop_drop s) hc (by intro h; simp [getOf])
        (by simp [getOf]) (by intro _; exact Or.inr ⟨uid, rfl⟩)
    | user r uid hf hl hu hf2 =>
      exact GetSpec.of_found ((pop_fr s).trans (pop_fr _)) rfl rfl (pop_pop_drop s) hc hl (by simp)

theorem cacheGet_nil_fails {cfg : Cfg} {s : State} (id : ID) (hf : s.fails = []) : (cacheGet cfg s id).1.fails = [] := by
  obtain ⟨n, hn⟩ := (cacheGet_spec cfg s id).fails_drop; simp [hn, hf]


/-! ### `RegenerateID`, `Destroy`, `Start`: equation lemmas -/

theorem ite_bang {α : Type} (b : Bool) (x y : α) : (if (!b) = true then x else y) = if b = false then x else y := by
  cases b <;> rfl

/-- the state `RegenerateID` hands to its first `Set`: new id and creation time on the object, counter advanced -/
def regenS0 (s : State) (h : Nat) : State :=
  { s.setObj h { s.obj h with id := ID.gen s.nextId, created := s.now } with nextId := s.nextId + 1 }
/-- the first `Set` of `RegenerateID` (the session under its new id) -/
def regenA (cfg : Cfg) (s : State) (h : Nat) : State × Bool × List Ev := cacheSet cfg (regenS0 s h) h
/-- the state `RegenerateID` hands to its second `Set`: the reference object allocated -/
def regenS2 (cfg : Cfg) (s : State) (h : Nat) : State :=
  ((regenA cfg s h).1.alloc (refObj ((regenA cfg s h).1.obj h) (s.obj h).id (ID.gen s.nextId) (regenA cfg s h).1.now)).2
/-- the second `Set` of `RegenerateID` (the reference record under the old id) -/
def regenB (cfg : Cfg) (s : State) (h : Nat) : State × Bool × List Ev :=
  cacheSet cfg (regenS2 cfg s h) (regenA cfg s h).1.heap.length

theorem regenerate_eq (cfg : Cfg) (s : State) (h : Nat) :
    regenerate cfg s h =
      if (regenA cfg s h).2.1 = false then ((regenA cfg s h).1, false, (regenA cfg s h).2.2)
      else if (regenB cfg s h).2.1 = false then ((regenB cfg s h).1, false, (regenA cfg s h).2.2 ++ (regenB cfg s h).2.2)
      else ({ (regenB cfg s h).1 with timers := (regenB cfg s h).1.timers ++ [((regenB cfg s h).1.now + cfg.grace, (s.obj h).id)] },
            true, (regenA cfg s h).2.2 ++ (regenB cfg s h).2.2 ++ [.setCookie (ID.gen s.nextId)]) := by
  unfold regenerate
  simp only []
  rcases hA : cacheSet cfg _ h with ⟨s1, ok1, e1⟩
  have hA' : regenA cfg s h = (s1, ok1, e1) := hA
  cases ok1
  · simp [hA']
  · simp only [Bool.not_true, Bool.false_eq_true, if_false]
    rcases hB : cacheSet cfg _ _ with ⟨s3, ok3, e3⟩
    have hB' : regenB cfg s h = (s3, ok3, e3) := by
      unfold regenB regenS2; rw [hA']; exact hB
    cases ok3 <;> simp [hA', hB']

theorem destroy_eq (s : State) (h : Nat) (hasCookie : Bool) :
    destroy s h hasCookie =
      if (cacheDelete s (s.obj h).id).2.1 = false then ((cacheDelete s (s.obj h).id).1, false, (cacheDelete s (s.obj h).id).2.2)
      else if hasCookie = true then ((cacheDelete s (s.obj h).id).1, true, (cacheDelete s (s.obj h).id).2.2 ++ [.delCookie])
      else ((cacheDelete s (s.obj h).id).1, false, (cacheDelete s (s.obj h).id).2.2) := by
  unfold destroy
  simp only []
  rcases hA : cacheDelete s (s.obj h).id with ⟨s1, ok1, e1⟩
  cases ok1 <;> simp

theorem destroy_nil {s : State} (h : Nat) (hf : s.fails = []) :
    destroy s h true =
      ({ s with cache := erase (s.obj h).id s.cache, store := erase (s.obj h).id s.store }, true, [.del (s.obj h).id, .delCookie]) := by
  rw [destroy_eq, cacheDelete_nil _ hf]; simp

/-- the state `createNew` hands to `Set` -/
def newS1 (s : State) (r : Req) : State :=
  ({ s with nextId := s.nextId + 1 }.alloc
    { id := ID.gen s.nextId, created := s.now, lastAccess := s.now, ip := r.ip, ua := agentHash r.ua }).2

theorem createNew_no {cfg : Cfg} {s : State} {r : Req} (pre : List Ev) (hc : r.create = false) :
    createNew cfg s r pre = (s, .nil, pre) := by
  simp [createNew, hc]

theorem createNew_yes {cfg : Cfg} {s : State} {r : Req} (pre : List Ev) (hc : r.create = true) :
    createNew cfg s r pre =
      if (cacheSet cfg (newS1 s r) s.heap.length).2.1 = false then
        ((cacheSet cfg (newS1 s r) s.heap.length).1, .err "create", pre ++ (cacheSet cfg (newS1 s r) s.heap.length).2.2)
      else ((cacheSet cfg (newS1 s r) s.heap.length).1, .sess s.heap.length,
        pre ++ (cacheSet cfg (newS1 s r) s.heap.length).2.2 ++ [.setCookie (ID.gen s.nextId)]) := by
  unfold createNew
  simp only [hc, Bool.not_true, Bool.false_eq_true, if_false]
  rcases hA : cacheSet cfg _ _ with ⟨s1, ok1, e1⟩
  have hA' : cacheSet cfg (newS1 s r) s.heap.length = (s1, ok1, e1) := hA
  cases ok1 <;> simp [hA']

/-- `Start` when the found object fails the validity test -/
def startInvalid (cfg : Cfg) (s1 : State) (h : Nat) (r : Req) (e1 : List Ev) : State × Res × List Ev :=
  if (destroy s1 h true).2.1 = false then ((destroy s1 h true).1, .err "destroy", e1 ++ (destroy s1 h true).2.2)
  else createNew cfg (destroy s1 h true).1 r (e1 ++ (destroy s1 h true).2.2)

/-- what `Start` does with the answer of the cache -/
def startGot (cfg : Cfg) (r : Req) (id : ID) : State × GetRes × List Ev → State × Res × List Ev
  | (s1, .err, e1) => (s1, .err "get", e1)
  | (s1, .nil, e1) => createNew cfg s1 r (e1 ++ [.delCookie])
  | (s1, .some h, e1) =>
    if validFor cfg s1.now (s1.obj h) r = false then startInvalid cfg s1 h r e1 else startValid cfg s1 id h r e1

theorem start_none {cfg : Cfg} {s : State} {r : Req} (hc : r.cookie = none) : start cfg s r = createNew cfg s r [] := by
  simp [start, hc]

theorem start_len {cfg : Cfg} {s : State} {r : Req} (hl : r.cookieLen ≠ 24) : start cfg s r = createNew cfg s r [] := by
  unfold start
  cases r.cookie with
  | none => rfl
  | some id => simp [hl]

theorem start_some {cfg : Cfg} {s : State} {r : Req} {id : ID} (hc : r.cookie = some id) (hl : r.cookieLen = 24) :
    start cfg s r = startGot cfg r id (cacheGet cfg s id) := by
  unfold start
  simp only [hc, hl, bne_self_eq_false, Bool.false_eq_true, if_false]
  rcases hA : cacheGet cfg s id with ⟨s1, res, e1⟩
  cases res with
  | err => rfl
  | nil => rfl
  | some h =>
    simp only [startGot, startInvalid]
    cases validFor cfg s1.now (s1.obj h) r
    · simp only [Bool.not_false, if_true]
      rcases hD : destroy s1 h true with ⟨s2, ok2, e2⟩
      cases ok2 <;> simp
    · simp

theorem start_err {cfg : Cfg} {s s1 : State} {r : Req} {id : ID} {e1 : List Ev} (hc : r.cookie = some id)
    (hl : r.cookieLen = 24) (hg : cacheGet cfg s id = (s1, .err, e1)) : start cfg s r = (s1, .err "get", e1) := by
  rw [start_some hc hl, hg]; rfl

theorem start_miss {cfg : Cfg} {s s1 : State} {r : Req} {id : ID} {e1 : List Ev} (hc : r.cookie = some id)
    (hl : r.cookieLen = 24) (hg : cacheGet cfg s id = (s1, .nil, e1)) :
    start cfg s r = createNew cfg s1 r (e1 ++ [.delCookie]) := by
  rw [start_some hc hl, hg]; rfl

theorem start_invalid {cfg : Cfg} {s s1 : State} {r : Req} {id : ID} {h : Nat} {e1 : List Ev} (hc : r.cookie = some id)
    (hl : r.cookieLen = 24) (hg : cacheGet cfg s id = (s1, .some h, e1)) (hv : validFor cfg s1.now (s1.obj h) r = false) :
    start cfg s r = startInvalid cfg s1 h r e1 := by
  rw [start_some hc hl, hg]; simp [startGot, hv]

theorem start_valid {cfg : Cfg} {s s1 : State} {r : Req} {id : ID} {h : Nat} {e1 : List Ev} (hc : r.cookie = some id)
    (hl : r.cookieLen = 24) (hg : cacheGet cfg s id = (s1, .some h, e1)) (hv : validFor cfg s1.now (s1.obj h) r = true) :
    start cfg s r = startValid cfg s1 id h r e1 := by
  rw [start_some hc hl, hg]; simp [startGot, hv]

/-- fault-free `startInvalid`: delete, expire the cookie, then create -/
theorem startInvalid_nil {cfg : Cfg} {s1 : State} (h : Nat) (r : Req) (e1 : List Ev) (hf : s1.fails = []) :
    startInvalid cfg s1 h r e1 =
      createNew cfg { s1 with cache := erase (s1.obj h).id s1.cache, store := erase (s1.obj h).id s1.store } r
        (e1 ++ [.del (s1.obj h).id, .delCookie]) := by
  rw [startInvalid, destroy_nil h hf]; simp

/-! ### `touch`, `follow`, `startValid` -/

@[simp] theorem touch_cache (s : State) (h : Nat) (r : Req) : (touch s h r).cache = s.cache := rfl
@[simp] theorem touch_store (s : State) (h : Nat) (r : Req) : (touch s h r).store = s.store := rfl
@[simp] theorem touch_now (s : State) (h : Nat) (r : Req) : (touch s h r).now = s.now := rfl
@[simp] theorem touch_nextId (s : State) (h : Nat) (r : Req) : (touch s h r).nextId = s.nextId := rfl
@[simp] theorem touch_timers (s : State) (h : Nat) (r : Req) : (touch s h r).timers = s.timers := rfl
@[simp] theorem touch_fails (s : State) (h : Nat) (r : Req) : (touch s h r).fails = s.fails := rfl
@[simp] theorem touch_vers (s : State) (h : Nat) (r : Req) : (touch s h r).vers = s.vers := rfl
@[simp] theorem touch_extra (s : State) (h : Nat) (r : Req) : (touch s h r).extra = s.extra := rfl
@[simp] theorem touch_heap_length (s : State) (h : Nat) (r : Req) : (touch s h r).heap.length = s.heap.length := by
  simp [touch]

theorem touch_obj_self {s : State} {h : Nat} (hv : h < s.heap.length) (r : Req) :
    (touch s h r).obj h = { s.obj h with lastAccess := s.now, ip := r.ip, ua := agentHash r.ua } := by
  simp [touch, obj_setObj, hv]

theorem touch_obj_ne {s : State} {h x : Nat} (hne : h ≠ x) (r : Req) : (touch s h r).obj x = s.obj x := by
  simp [touch, obj_setObj, hne]

/-- `touch` never changes id, user, data, creation time or reference of any object -/
theorem touch_obj_keep (s : State) (h x : Nat) (r : Req) :
    ((touch s h r).obj x).id = (s.obj x).id ∧ ((touch s h r).obj x).user = (s.obj x).user ∧
    ((touch s h r).obj x).data = (s.obj x).data ∧ ((touch s h r).obj x).created = (s.obj x).created ∧
    ((touch s h r).obj x).ref = (s.obj x).ref := by
  simp only [touch, obj_setObj]
  split
  · rename_i hx; obtain ⟨rfl, _⟩ := hx; exact ⟨rfl, rfl, rfl, rfl, rfl⟩
  · exact ⟨rfl, rfl, rfl, rfl, rfl⟩

/-- one step of the reference chain -/
def followStep (cfg : Cfg) (n : Nat) : State × GetRes × List Ev → State × GetRes × List Ev
  | (s1, .err, e1) => (s1, .err, e1)
  | (s1, .nil, e1) => (s1, .nil, e1)
  | (s1, .some h2, e1) => ((follow cfg n s1 h2).1, (follow cfg n s1 h2).2.1, e1 ++ (follow cfg n s1 h2).2.2)

@[simp] theorem follow_zero (cfg : Cfg) (s : State) (h : Nat) : follow cfg 0 s h = (s, .nil, []) := rfl

theorem follow_succ_none {cfg : Cfg} {s : State} {h : Nat} (n : Nat) (href : (s.obj h).ref = none) :
    follow cfg (n + 1) s h = (s, .some h, []) := by
  simp [follow, href]

theorem follow_succ_some {cfg : Cfg} {s : State} {h : Nat} {tgt : ID} (n : Nat) (href : (s.obj h).ref = some tgt) :
    follow cfg (n + 1) s h = followStep cfg n (cacheGet cfg s tgt) := by
  simp only [follow, href]
  rcases cacheGet cfg s tgt with ⟨s1, res, e1⟩
  cases res <;> rfl

/-- what `Start` does with the end of the reference chain -/
def startRef (r : Req) (e1 : List Ev) : State × GetRes × List Ev → State × Res × List Ev
  | (s2, .err, e2) => (s2, .err "refget", e1 ++ e2)
  | (s2, .nil, e2) => (s2, .err "refmissing", e1 ++ e2)
  | (s2, .some h2, e2) => (touch s2 h2 r, .sess h2, e1 ++ e2 ++ [.setCookie (s2.obj h2).id])

theorem startValid_rotate {cfg : Cfg} {s1 : State} {h : Nat} (id : ID) (r : Req) (e1 : List Ev)
    (href : (s1.obj h).ref = none) (hage : since s1.now (s1.obj h).created ≥ cfg.idExpiry) :
    startValid cfg s1 id h r e1 =
      if (regenerate cfg s1 h).2.1 = false then ((regenerate cfg s1 h).1, .err "regenerate", e1 ++ (regenerate cfg s1 h).2.2)
      else (touch (regenerate cfg s1 h).1 h r, .sess h, e1 ++ (regenerate cfg s1 h).2.2) := by
  unfold startValid
  simp only [href, Option.isNone_none, Bool.true_and, decide_eq_true hage, if_true]
  rcases regenerate cfg s1 h with ⟨s2, ok, e2⟩
  cases ok <;> simp

theorem startValid_young {cfg : Cfg} {s1 : State} {h : Nat} (id : ID) (r : Req) (e1 : List Ev)
    (href : (s1.obj h).ref = none) (hage : since s1.now (s1.obj h).created < cfg.idExpiry) :
    startValid cfg s1 id h r e1 = (touch s1 h r, .sess h, e1) := by
  have h1 : ¬ since s1.now (s1.obj h).created ≥ cfg.idExpiry := by omega
  unfold startValid
  simp [href, h1]

theorem startValid_ref_expired {cfg : Cfg} {s1 : State} {h : Nat} {t : ID} (id : ID) (r : Req) (e1 : List Ev)
    (href : (s1.obj h).ref = some t)
    (hage : since s1.now (s1.obj h).created ≥ cfg.idExpiry ∧ since s1.now (s1.obj h).created - cfg.idExpiry ≥ cfg.grace) :
    startValid cfg s1 id h r e1 =
      if (cacheDelete s1 id).2.1 = false then ((cacheDelete s1 id).1, .err "delexpired", e1 ++ (cacheDelete s1 id).2.2)
      else ((cacheDelete s1 id).1, .err "idexpired", e1 ++ (cacheDelete s1 id).2.2) := by
  unfold startValid
  simp only [href, Option.isNone_some, Bool.false_and, Bool.false_eq_true, if_false, decide_eq_true hage.1,
    decide_eq_true hage.2, Bool.and_self, if_true]
  rcases cacheDelete s1 id with ⟨s2, ok, e2⟩
  cases ok <;> simp

theorem startValid_ref {cfg : Cfg} {s1 : State} {h : Nat} {t : ID} (id : ID) (r : Req) (e1 : List Ev)
    (href : (s1.obj h).ref = some t)
    (hage : ¬ (since s1.now (s1.obj h).created ≥ cfg.idExpiry ∧ since s1.now (s1.obj h).created - cfg.idExpiry ≥ cfg.grace)) :
    startValid cfg s1 id h r e1 = startRef r e1 (follow cfg (s1.store.length + s1.cache.length + 1) s1 h) := by
  unfold startValid
  have : (decide (since s1.now (s1.obj h).created ≥ cfg.idExpiry) &&
      decide (since s1.now (s1.obj h).created - cfg.idExpiry ≥ cfg.grace)) = false := by
    rw [Bool.and_eq_false_iff]
    by_cases h1 : since s1.now (s1.obj h).created ≥ cfg.idExpiry
    · right; simp only [decide_eq_false_iff_not]; intro h2; exact hage ⟨h1, h2⟩
    · left; simp only [decide_eq_false_iff_not]; exact h1
  simp only [href, Option.isNone_some, Bool.false_and, Bool.false_eq_true, if_false, this]
  rcases follow cfg (s1.store.length + s1.cache.length + 1) s1 h with ⟨s2, res, e2⟩
  cases res <;> rfl

/-! ### handler operations -/

theorem saveObj_eq (cfg : Cfg) (s : State) (h : Nat) : saveObj cfg s h = saveRec cfg s (s.obj h).id (s.obj h) := rfl

/-- **C09 for a direct `SaveSession`**: when it succeeds the record is the encoding of the object. -/
theorem saveObj_saved {cfg : Cfg} {s : State} {h : Nat} (hok : (saveObj cfg s h).2.1 = true) :
    lookup ((saveObj cfg s h).1.obj h).id (saveObj cfg s h).1.store = some (enc cfg.codec ((saveObj cfg s h).1.obj h)) := by
  rw [saveObj_eq] at hok ⊢
  rw [(saveRec_fr cfg s _ _).obj, saveRec_store_ok hok]; simp

theorem hset_some {cfg : Cfg} {s : State} {h : Nat} {d : Data} (k : String) (v : Val) (hd : (s.obj h).data = some d) :
    hset cfg s h k v =
      ((saveObj cfg (s.setObj h { s.obj h with data := some (insert k v d) }) h).1,
       hres (saveObj cfg (s.setObj h { s.obj h with data := some (insert k v d) }) h).2.1,
       (saveObj cfg (s.setObj h { s.obj h with data := some (insert k v d) }) h).2.2) := by
  simp [hset, hd]

theorem hset_none {cfg : Cfg} {s : State} {h : Nat} (k : String) (v : Val) (hd : (s.obj h).data = none) :
    hset cfg s h k v = (s, .panic, []) := by
  simp [hset, hd]

theorem hdel_eq (cfg : Cfg) (s : State) (h : Nat) (k : String) :
    hdel cfg s h k =
      ((saveObj cfg (s.setObj h { s.obj h with data := (s.obj h).data.map (erase k) }) h).1,
       hres (saveObj cfg (s.setObj h { s.obj h with data := (s.obj h).data.map (erase k) }) h).2.1,
       (saveObj cfg (s.setObj h { s.obj h with data := (s.obj h).data.map (erase k) }) h).2.2) := rfl

theorem hlogout_some {cfg : Cfg} {s : State} {h : Nat} {u : String × Nat} (hu : (s.obj h).user = some u) :
    hlogout cfg s h =
      ((saveObj cfg (s.setObj h { s.obj h with user := none }) h).1,
       hres (saveObj cfg (s.setObj h { s.obj h with user := none }) h).2.1,
       (saveObj cfg (s.setObj h { s.obj h with user := none }) h).2.2) := by
  simp [hlogout, hu]

theorem hlogout_none {cfg : Cfg} {s : State} {h : Nat} (hu : (s.obj h).user = none) :
    hlogout cfg s h = (s, .ok, []) := by
  simp [hlogout, hu]

theorem hres_ok_iff (b : Bool) : hres b = .ok ↔ b = true := by cases b <;> simp [hres]
theorem hres_err_iff (b : Bool) : hres b = .err ↔ b = false := by cases b <;> simp [hres]

/-! ### the user loops and `LogIn` -/

theorem setUserAll_nil (cfg : Cfg) (u : Option (String × Nat)) (s : State) : setUserAll cfg u [] s = (s, true, []) := rfl

theorem setUserAll_cons_err {cfg : Cfg} {u : Option (String × Nat)} {id : ID} {rest : List ID} {s s1 : State} {e1 : List Ev}
    (hg : cacheGet cfg s id = (s1, .err, e1)) : setUserAll cfg u (id :: rest) s = (s1, false, e1) := by
  simp [setUserAll, hg]

theorem setUserAll_cons_nil {cfg : Cfg} {u : Option (String × Nat)} {id : ID} {rest : List ID} {s s1 : State} {e1 : List Ev}
    (hg : cacheGet cfg s id = (s1, .nil, e1)) :
    setUserAll cfg u (id :: rest) s =
      ((setUserAll cfg u rest s1).1, (setUserAll cfg u rest s1).2.1, e1 ++ (setUserAll cfg u rest s1).2.2) := by
  simp [setUserAll, hg]

/-- the `Set` of one round of the user loop -/
def userSet (cfg : Cfg) (u : Option (String × Nat)) (s1 : State) (h : Nat) : State × Bool × List Ev :=
  cacheSet cfg (s1.setObj h { s1.obj h with user := u }) h

theorem setUserAll_cons_some {cfg : Cfg} {u : Option (String × Nat)} {id : ID} {rest : List ID} {s s1 : State} {h : Nat}
    {e1 : List Ev} (hg : cacheGet cfg s id = (s1, .some h, e1)) :
    setUserAll cfg u (id :: rest) s =
      if (userSet cfg u s1 h).2.1 = false then ((userSet cfg u s1 h).1, false, e1 ++ (userSet cfg u s1 h).2.2)
      else ((setUserAll cfg u rest (userSet cfg u s1 h).1).1, (setUserAll cfg u rest (userSet cfg u s1 h).1).2.1,
            e1 ++ (userSet cfg u s1 h).2.2 ++ (setUserAll cfg u rest (userSet cfg u s1 h).1).2.2) := by
  simp only [setUserAll, hg]
  rcases hC : cacheSet cfg _ h with ⟨s3, ok, e3⟩
  have hC' : userSet cfg u s1 h = (s3, ok, e3) := hC
  cases ok <;> simp [hC']

theorem forUser_eq (cfg : Cfg) (le : ID → ID → Bool) (s : State) (uid : String) (u : Option (String × Nat)) :
    forUser cfg le s uid u =
      if s.fails.headD false = true then (s.pop, false, [.usersFail uid])
      else ((setUserAll cfg u (userSessions le s.pop uid) s.pop).1, (setUserAll cfg u (userSessions le s.pop uid) s.pop).2.1,
            .users uid :: (setUserAll cfg u (userSessions le s.pop uid) s.pop).2.2) := by
  simp only [forUser, popFail, State.pop]
  rfl

/-- the first phase of `LogIn`: log everybody else out (exclusive) or log this session out -/
def loginPre (cfg : Cfg) (le : ID → ID → Bool) (s : State) (h : Nat) (uid : String) (excl : Bool) : State × Bool × List Ev :=
  if excl = true then logoutUser cfg le s uid else ((hlogout cfg s h).1, true, (hlogout cfg s h).2.2)

/-- the `Set` of `LogIn` that stores the user -/
def loginSet (cfg : Cfg) (le : ID → ID → Bool) (s : State) (h : Nat) (uid : String) (excl : Bool) : State × Bool × List Ev :=
  cacheSet cfg ((loginPre cfg le s h uid excl).1.setObj h
    { (loginPre cfg le s h uid excl).1.obj h with user := some (uid, (loginPre cfg le s h uid excl).1.ver uid) }) h

theorem hlogin_eq (cfg : Cfg) (le : ID → ID → Bool) (s : State) (h : Nat) (uid : String) (excl : Bool) :
    hlogin cfg le s h uid excl =
      if (loginPre cfg le s h uid excl).2.1 = false then
        ((loginPre cfg le s h uid excl).1, .err, (loginPre cfg le s h uid excl).2.2)
      else if (loginSet cfg le s h uid excl).2.1 = false then
        ((loginSet cfg le s h uid excl).1, .err, (loginPre cfg le s h uid excl).2.2 ++ (loginSet cfg le s h uid excl).2.2)
      else
        ((regenerate cfg (loginSet cfg le s h uid excl).1 h).1, hres (regenerate cfg (loginSet cfg le s h uid excl).1 h).2.1,
          (loginPre cfg le s h uid excl).2.2 ++ (loginSet cfg le s h uid excl).2.2 ++
            (regenerate cfg (loginSet cfg le s h uid excl).1 h).2.2) := by
  unfold hlogin
  have hP : (if excl = true then logoutUser cfg le s uid
      else match hlogout cfg s h with | (s', _, e') => (s', true, e')) = loginPre cfg le s h uid excl := by
    unfold loginPre; cases excl <;> rfl
  simp only [hP]
  rcases hPe : loginPre cfg le s h uid excl with ⟨s1, ok1, e1⟩
  cases ok1
  · simp
  · simp only [Bool.not_true, Bool.false_eq_true, if_false]
    rcases hC : cacheSet cfg _ h with ⟨s3, ok3, e3⟩
    have hC' : loginSet cfg le s h uid excl = (s3, ok3, e3) := by
      unfold loginSet; rw [hPe]; exact hC
    cases ok3 <;> simp [hC']

end Sx.Loc
