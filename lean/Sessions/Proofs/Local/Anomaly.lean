import Sessions.Proofs.Local.Basics
import Sessions.Proofs.Local.AnomalyIP
import Sessions.Proofs.Local.Invalid
/-!
# C06 — anomaly detection in `Start` (T-local), parts (d) and (e)

(d) `c06_destroy`, `c06_ip_destroy`, `c06_ua_destroy`: a session presented from a client that fails the
address or the fingerprint test (or is stale) is destroyed and never returned.
(e) `c06_moves`: whenever `Start` does return a session for a valid cookie, that session now records the
address and fingerprint of THIS request and the current time (every oracle, all three paths: rotation,
plain, reference).

Parts (a)–(c) of C06 (what `ipOK`/`uaOK` accept) are the pure lemmas `c06_ip`, `c06_ip_2/3/4`, `c06_ua`,
`ipOK_*` of `AnomalyIP.lean`.
-/
namespace Sx.Loc

/-! ## (d) an anomalous request destroys the session -/

section destroy
variable {cfg : Cfg} {s s1 : State} {r : Req} {id : ID} {h : Nat} {e1 : List Ev}

/-- **C06 (d).** The request carries the 24-byte cookie `id`; `cache.Get` answers with the object `h`
(state `s1`, events `e1`); the object fails the validity test — whatever the reason.
Named hypotheses: `hkey` — the cached object's id is its key (`Destroy` deletes `s.id`);
`hf` — fault-free from there on. Then, with `(s', res, evs) := start cfg s r`:
`start` is `createNew` from the erased state; `e1 ++ [.del id, .delCookie]` is a prefix of `evs`;
`res ≠ .sess h` provided `hvalid : h < s1.heap.length`; `id` is neither cached nor stored afterwards
provided `hid : ∀ n, id = .gen n → n < s1.nextId`; with `createIfNew = false` the state is just the
erased one. -/
theorem c06_destroy (hc : r.cookie = some id) (hl : r.cookieLen = 24)
    (hg : cacheGet cfg s id = (s1, .some h, e1))
    (hinv : validFor cfg s1.now (s1.obj h) r = false)
    (hkey : (s1.obj h).id = id) (hf : s1.fails = []) :
    start cfg s r = createNew cfg { s1 with cache := erase id s1.cache, store := erase id s1.store } r
      (e1 ++ [.del id, .delCookie]) ∧
    (∃ post, (start cfg s r).2.2 = e1 ++ [.del id, .delCookie] ++ post) ∧
    Ev.del id ∈ (start cfg s r).2.2 ∧
    Ev.delCookie ∈ (start cfg s r).2.2 ∧
    (h < s1.heap.length → (start cfg s r).2.1 ≠ .sess h) ∧
    ((∀ n, id = .gen n → n < s1.nextId) →
      lookup id (start cfg s r).1.cache = none ∧ lookup id (start cfg s r).1.store = none) ∧
    (r.create = false →
      (start cfg s r).1 = { s1 with cache := erase id s1.cache, store := erase id s1.store } ∧
      (start cfg s r).2.1 = .nil) ∧
    (start cfg s r).1.fails = [] :=
  start_invalid_destroys hc hl hg hinv hkey hf

/-- the session handed out after the destruction (if any) is brand new, and old objects are untouched -/
theorem c06_destroy_new (hc : r.cookie = some id) (hl : r.cookieLen = 24)
    (hg : cacheGet cfg s id = (s1, .some h, e1))
    (hinv : validFor cfg s1.now (s1.obj h) r = false)
    (hkey : (s1.obj h).id = id) (hf : s1.fails = []) (hcr : r.create = true) :
    (start cfg s r).2.1 = .sess s1.heap.length ∧
    (start cfg s r).1.obj s1.heap.length = newObj s1 r ∧
    (∀ x, x < s1.heap.length → (start cfg s r).1.obj x = s1.obj x) :=
  start_invalid_new hc hl hg hinv hkey hf hcr

theorem validFor_of_ip {cfg : Cfg} {now : Int} {o : Sess} {r : Req} (h : ipOK cfg o.ip r.ip = false) :
    validFor cfg now o r = false := by
  simp [validFor, h]

theorem validFor_of_ua {cfg : Cfg} {now : Int} {o : Sess} {r : Req} (h : uaOK cfg o.ua (agentHash r.ua) = false) :
    validFor cfg now o r = false := by
  simp [validFor, h]

/-- the validity test fails exactly for one of the three reasons -/
theorem validFor_false_iff {cfg : Cfg} {now : Int} {o : Sess} {r : Req} :
    validFor cfg now o r = false ↔
      since now o.lastAccess ≥ cfg.sessionExpiry ∨ ipOK cfg o.ip r.ip = false ∨ uaOK cfg o.ua (agentHash r.ua) = false := by
  unfold validFor
  cases ipOK cfg o.ip r.ip <;> cases uaOK cfg o.ua (agentHash r.ua) <;> simp

/-- **C06 (d), address**: the peer address fails `ipOK` against the recorded one. -/
theorem c06_ip_destroy (hc : r.cookie = some id) (hl : r.cookieLen = 24)
    (hg : cacheGet cfg s id = (s1, .some h, e1))
    (hip : ipOK cfg (s1.obj h).ip r.ip = false)
    (hkey : (s1.obj h).id = id) (hf : s1.fails = []) :
    start cfg s r = createNew cfg { s1 with cache := erase id s1.cache, store := erase id s1.store } r
      (e1 ++ [.del id, .delCookie]) ∧
    (∃ post, (start cfg s r).2.2 = e1 ++ [.del id, .delCookie] ++ post) ∧
    Ev.del id ∈ (start cfg s r).2.2 ∧
    Ev.delCookie ∈ (start cfg s r).2.2 ∧
    (h < s1.heap.length → (start cfg s r).2.1 ≠ .sess h) ∧
    ((∀ n, id = .gen n → n < s1.nextId) →
      lookup id (start cfg s r).1.cache = none ∧ lookup id (start cfg s r).1.store = none) ∧
    (r.create = false →
      (start cfg s r).1 = { s1 with cache := erase id s1.cache, store := erase id s1.store } ∧
      (start cfg s r).2.1 = .nil) ∧
    (start cfg s r).1.fails = [] :=
  c06_destroy hc hl hg (validFor_of_ip hip) hkey hf

/-- **C06 (d), fingerprint**: the User-Agent hash fails `uaOK` against the recorded one. -/
theorem c06_ua_destroy (hc : r.cookie = some id) (hl : r.cookieLen = 24)
    (hg : cacheGet cfg s id = (s1, .some h, e1))
    (hua : uaOK cfg (s1.obj h).ua (agentHash r.ua) = false)
    (hkey : (s1.obj h).id = id) (hf : s1.fails = []) :
    start cfg s r = createNew cfg { s1 with cache := erase id s1.cache, store := erase id s1.store } r
      (e1 ++ [.del id, .delCookie]) ∧
    (∃ post, (start cfg s r).2.2 = e1 ++ [.del id, .delCookie] ++ post) ∧
    Ev.del id ∈ (start cfg s r).2.2 ∧
    Ev.delCookie ∈ (start cfg s r).2.2 ∧
    (h < s1.heap.length → (start cfg s r).2.1 ≠ .sess h) ∧
    ((∀ n, id = .gen n → n < s1.nextId) →
      lookup id (start cfg s r).1.cache = none ∧ lookup id (start cfg s r).1.store = none) ∧
    (r.create = false →
      (start cfg s r).1 = { s1 with cache := erase id s1.cache, store := erase id s1.store } ∧
      (start cfg s r).2.1 = .nil) ∧
    (start cfg s r).1.fails = [] :=
  c06_destroy hc hl hg (validFor_of_ua hua) hkey hf

end destroy

/-! ## (e) a returned session records the client of this request -/

/-! ### extra basics: heap growth, validity of handles along `Get` and `follow` -/

theorem regenS0_heap_length (s : State) (h : Nat) : (regenS0 s h).heap.length = s.heap.length := by
  simp [regenS0, State.setObj]

theorem regenA_heap_length (cfg : Cfg) (s : State) (h : Nat) : (regenA cfg s h).1.heap.length = s.heap.length := by
  unfold regenA; rw [cacheSet_heap_length, regenS0_heap_length]

theorem regenB_heap_length (cfg : Cfg) (s : State) (h : Nat) : (regenB cfg s h).1.heap.length = s.heap.length + 1 := by
  unfold regenB; rw [cacheSet_heap_length]; unfold regenS2
  rw [alloc_heap, List.length_append, regenA_heap_length]; rfl

/-- `RegenerateID` never shrinks the heap (every oracle) -/
theorem regenerate_heap_le (cfg : Cfg) (s : State) (h : Nat) : s.heap.length ≤ (regenerate cfg s h).1.heap.length := by
  rw [regenerate_eq]
  split
  · rw [regenA_heap_length]; exact Nat.le_refl _
  · split
    · rw [regenB_heap_length]; omega
    · show s.heap.length ≤ (regenB cfg s h).1.heap.length
      rw [regenB_heap_length]; omega

/-- `cache.Get` keeps cached handles valid and returns a valid handle (every oracle) -/
theorem cacheGet_valid (cfg : Cfg) (s : State) (id : ID) (hcv : ∀ k x, (k, x) ∈ s.cache → x < s.heap.length) :
    (∀ k x, (k, x) ∈ (cacheGet cfg s id).1.cache → x < (cacheGet cfg s id).1.heap.length) ∧
    (∀ y, (cacheGet cfg s id).2.1 = .some y → y < (cacheGet cfg s id).1.heap.length) ∧
    s.heap.length ≤ (cacheGet cfg s id).1.heap.length := by
  have sp := cacheGet_spec cfg s id
  have hlen : s.heap.length ≤ (cacheGet cfg s id).1.heap.length := by
    rcases sp.heap with h | ⟨o, h, _⟩ <;> rw [h] <;> simp
  have hsome : ∀ y, (cacheGet cfg s id).2.1 = .some y → y < (cacheGet cfg s id).1.heap.length := by
    intro y hy
    rcases sp.some_valid y hy with ⟨h1, h2, _⟩ | ⟨h1, _, h3, _⟩
    · rw [h2]; exact hcv id y (mem_of_lookup h1)
    · omega
  refine ⟨?_, hsome, hlen⟩
  intro k x hm
  rcases sp.cache_mem (k, x) hm with h | ⟨h1, h2, _⟩
  · exact Nat.lt_of_lt_of_le (hcv k x h) hlen
  · have := hsome _ h2
    have hx : x = s.heap.length := (Prod.mk.inj h1).2
    omega

/-- the end of a reference chain is a valid handle, and cached handles stay valid (every oracle).
`hx`: the starting handle is valid; `hcv`: cached handles are valid (the chain is followed through
`cache.Get`, which may answer with a cached handle). -/
theorem follow_valid (cfg : Cfg) : ∀ (n : Nat) (s : State) (x : Nat), x < s.heap.length →
    (∀ k y, (k, y) ∈ s.cache → y < s.heap.length) →
    ∀ h2, (follow cfg n s x).2.1 = .some h2 → h2 < (follow cfg n s x).1.heap.length
  | 0, s, x, _, _, h2, h => by simp at h
  | n + 1, s, x, hx, hcv, h2, h => by
    cases href : (s.obj x).ref with
    | none =>
      rw [follow_succ_none n href] at h ⊢
      simp only [GetRes.some.injEq] at h
      subst h
      exact hx
    | some tgt =>
      rw [follow_succ_some n href] at h ⊢
      obtain ⟨hc1, hc2, _⟩ := cacheGet_valid cfg s tgt hcv
      generalize cacheGet cfg s tgt = G at h hc1 hc2 ⊢
      obtain ⟨s1, res, e1⟩ := G
      cases res with
      | err => simp [followStep] at h
      | nil => simp [followStep] at h
      | some y =>
        simp only [followStep] at h ⊢
        exact follow_valid cfg n s1 y (hc2 y rfl) hc1 h2 h

/-! ### the theorem -/

section moves
variable {cfg : Cfg} {s1 : State} {id : ID} {h h' : Nat} {r : Req} {e1 : List Ev}

/-- what `touch` leaves on a valid object -/
theorem touch_moves {s : State} {x : Nat} (hv : x < s.heap.length) (r : Req) :
    ((touch s x r).obj x).ip = r.ip ∧ ((touch s x r).obj x).ua = agentHash r.ua ∧
    ((touch s x r).obj x).lastAccess = (touch s x r).now := by
  rw [touch_obj_self hv]; exact ⟨rfl, rfl, rfl⟩

/-- **C06 (e).** For EVERY oracle: if the valid-cookie part of `Start` returns a session `h'`, then in the
resulting state that session carries the address and the fingerprint of this request and was accessed
now. Named hypotheses: `hv` — the object found for the cookie is a valid handle; `hcv` — cached handles
are valid (needed on the reference path, where the returned handle comes out of `cache.Get`). -/
theorem c06_moves (hv : h < s1.heap.length) (hcv : ∀ k x, (k, x) ∈ s1.cache → x < s1.heap.length)
    (hres : (startValid cfg s1 id h r e1).2.1 = .sess h') :
    ((startValid cfg s1 id h r e1).1.obj h').ip = r.ip ∧
    ((startValid cfg s1 id h r e1).1.obj h').ua = agentHash r.ua ∧
    ((startValid cfg s1 id h r e1).1.obj h').lastAccess = (startValid cfg s1 id h r e1).1.now := by
  cases href : (s1.obj h).ref with
  | none =>
    by_cases hage : since s1.now (s1.obj h).created ≥ cfg.idExpiry
    · -- rotation
      rw [startValid_rotate id r e1 href hage] at hres ⊢
      by_cases hok : (regenerate cfg s1 h).2.1 = false
      · rw [if_pos hok] at hres; cases hres
      · rw [if_neg hok] at hres ⊢
        simp only [Res.sess.injEq] at hres
        subst hres
        exact touch_moves (Nat.lt_of_lt_of_le hv (regenerate_heap_le cfg s1 h)) r
    · -- plain
      rw [startValid_young id r e1 href (by omega)] at hres ⊢
      simp only [Res.sess.injEq] at hres
      subst hres
      exact touch_moves hv r
  | some t =>
    by_cases hage : since s1.now (s1.obj h).created ≥ cfg.idExpiry ∧
        since s1.now (s1.obj h).created - cfg.idExpiry ≥ cfg.grace
    · rw [startValid_ref_expired id r e1 href hage] at hres
      split at hres <;> cases hres
    · -- reference
      rw [startValid_ref id r e1 href hage] at hres ⊢
      have hfv := follow_valid cfg (s1.store.length + s1.cache.length + 1) s1 h hv hcv
      generalize follow cfg (s1.store.length + s1.cache.length + 1) s1 h = F at hres hfv ⊢
      obtain ⟨s2, res, e2⟩ := F
      cases res with
      | err => cases hres
      | nil => cases hres
      | some h2 =>
        simp only [startRef, Res.sess.injEq] at hres ⊢
        subst hres
        exact touch_moves (hfv h2 rfl) r

/-- C06 (e) for `Start` itself: a valid cookie, every oracle. -/
theorem c06_moves_start {s : State} (hc : r.cookie = some id) (hl : r.cookieLen = 24)
    (hg : cacheGet cfg s id = (s1, .some h, e1)) (hval : validFor cfg s1.now (s1.obj h) r = true)
    (hv : h < s1.heap.length) (hcv : ∀ k x, (k, x) ∈ s1.cache → x < s1.heap.length)
    (hres : (start cfg s r).2.1 = .sess h') :
    ((start cfg s r).1.obj h').ip = r.ip ∧
    ((start cfg s r).1.obj h').ua = agentHash r.ua ∧
    ((start cfg s r).1.obj h').lastAccess = (start cfg s r).1.now := by
  rw [start_valid hc hl hg hval] at hres ⊢
  exact c06_moves hv hcv hres

/-- … where the two handle hypotheses follow from ONE hypothesis on the state `Start` was called in:
cached handles are valid (`cache.Get` preserves that and returns a valid handle, `cacheGet_valid`). -/
theorem c06_moves_start' {s : State} (hc : r.cookie = some id) (hl : r.cookieLen = 24)
    (hg : cacheGet cfg s id = (s1, .some h, e1)) (hval : validFor cfg s1.now (s1.obj h) r = true)
    (hcv : ∀ k x, (k, x) ∈ s.cache → x < s.heap.length)
    (hres : (start cfg s r).2.1 = .sess h') :
    ((start cfg s r).1.obj h').ip = r.ip ∧
    ((start cfg s r).1.obj h').ua = agentHash r.ua ∧
    ((start cfg s r).1.obj h').lastAccess = (start cfg s r).1.now := by
  obtain ⟨hc1, hc2, _⟩ := cacheGet_valid cfg s id hcv
  rw [hg] at hc1 hc2
  exact c06_moves_start hc hl hg hval (hc2 h rfl) hc1 hres

end moves

/-! ## examples -/

section examples

/-- one session `gen 0` (handle 0), cached and stored, created by a client at `10.0.0.1` with
fingerprint 7 -/
private def exState : State :=
  { now := 100,
    heap := [{ id := .gen 0, created := 10, lastAccess := 90, ip := "10.0.0.1:1", ua := 7, data := some [("k", .int 1)] }],
    cache := [(.gen 0, 0)],
    store := [(.gen 0, { created := 10, lastAccess := 90, ip := "10.0.0.1:1", ua := 7, data := some [("k", .int 1)] })],
    nextId := 1 }

/-- the thief: another network, same (absent → hash 0 ≠ 7) or different User-Agent -/
private def thief : Req := { cookie := some (.gen 0), cookieLen := 24, ip := "99.0.0.1:1", ua := "", create := true }
/-- the owner coming back from another port of the same network -/
private def owner : Req := { cookie := some (.gen 0), cookieLen := 24, ip := "10.0.0.9:5", ua := "", create := true }

private theorem exState_cv : ∀ k x, (k, x) ∈ exState.cache → x < exState.heap.length := by
  intro k x hm
  simp [exState] at hm ⊢
  omega

/-- (d) address: non-vacuity of `c06_ip_destroy` … -/
example : ipOK { acceptIP := 2, acceptUA := true } (exState.obj 0).ip thief.ip = false := by decide

example : (start { acceptIP := 2, acceptUA := true } exState thief).2.1 ≠ .sess 0 :=
  (c06_ip_destroy (cfg := { acceptIP := 2, acceptUA := true }) (s := exState) (r := thief) (id := .gen 0) (h := 0)
    (e1 := []) rfl rfl (cacheGet_hit (by decide)) (by decide) rfl rfl).2.2.2.2.1 (by decide)

/-- … and what happens: the session is deleted, the thief gets a fresh empty one. -/
example :
    (start { acceptIP := 2, acceptUA := true } exState thief).2.2 =
      [.del (.gen 0), .delCookie, .save (.gen 1) { created := 100, lastAccess := 100, ip := "99.0.0.1:1" },
        .setCookie (.gen 1)] ∧
    (start { acceptIP := 2, acceptUA := true } exState thief).2.1 = .sess 1 ∧
    (start { acceptIP := 2, acceptUA := true } exState thief).1.cache = [(.gen 1, 1)] ∧
    (start { acceptIP := 2, acceptUA := true } exState thief).1.store =
      [(.gen 1, { created := 100, lastAccess := 100, ip := "99.0.0.1:1" })] := by decide

/-- (d) fingerprint: non-vacuity of `c06_ua_destroy` (addresses not checked: `acceptIP = 1`). -/
example : uaOK {} (exState.obj 0).ua (agentHash owner.ua) = false := by decide

example : Ev.del (.gen 0) ∈ (start {} exState owner).2.2 :=
  (c06_ua_destroy (cfg := {}) (s := exState) (r := owner) (id := .gen 0) (h := 0)
    (e1 := []) rfl rfl (cacheGet_hit (by decide)) (by decide) rfl rfl).2.2.1

/-- (e) plain path: the owner is served, and the session moves to the new address. -/
example :
    (start { acceptIP := 2, acceptUA := true } exState owner).2.1 = .sess 0 ∧
    ((start { acceptIP := 2, acceptUA := true } exState owner).1.obj 0).ip = "10.0.0.9:5" ∧
    ((start { acceptIP := 2, acceptUA := true } exState owner).1.obj 0).ua = 0 ∧
    ((start { acceptIP := 2, acceptUA := true } exState owner).1.obj 0).lastAccess = 100 := by decide

example : ((startValid { acceptIP := 2, acceptUA := true } exState (.gen 0) 0 owner []).1.obj 0).ip = owner.ip :=
  (c06_moves (cfg := { acceptIP := 2, acceptUA := true }) (s1 := exState) (id := .gen 0) (h := 0) (h' := 0) (r := owner)
    (e1 := []) (by decide) exState_cv (by decide)).1

/-- (e) rotation path (`idExpiry = 50 ≤ age = 90`): same handle, new id, new address. -/
example :
    (startValid { acceptIP := 2, acceptUA := true, idExpiry := 50 } exState (.gen 0) 0 owner []).2.1 = .sess 0 ∧
    ((startValid { acceptIP := 2, acceptUA := true, idExpiry := 50 } exState (.gen 0) 0 owner []).1.obj 0).id = .gen 1 ∧
    ((startValid { acceptIP := 2, acceptUA := true, idExpiry := 50 } exState (.gen 0) 0 owner []).1.obj 0).ip = "10.0.0.9:5" := by
  decide

/-- a state after a rotation: `gen 0` is a reference record (handle 1) to `gen 1` (handle 0) -/
private def exRef : State :=
  { now := 100,
    heap := [{ id := .gen 1, created := 95, lastAccess := 95, ip := "10.0.0.1:1" },
             { id := .gen 0, created := 95, lastAccess := 95, ip := "10.0.0.1:1", ref := some (.gen 1), data := none }],
    cache := [(.gen 0, 1), (.gen 1, 0)],
    nextId := 2 }

private theorem exRef_cv : ∀ k x, (k, x) ∈ exRef.cache → x < exRef.heap.length := by
  intro k x hm
  simp [exRef] at hm ⊢
  omega

/-- (e) reference path: the old cookie `gen 0` yields the session behind the reference (handle 0),
which moves to the new address. -/
example :
    (startValid {} exRef (.gen 0) 1 owner []).2.1 = .sess 0 ∧
    ((startValid {} exRef (.gen 0) 1 owner []).1.obj 0).ip = "10.0.0.9:5" ∧
    (startValid {} exRef (.gen 0) 1 owner []).2.2 = [.setCookie (.gen 1)] := by decide

example : ((startValid {} exRef (.gen 0) 1 owner []).1.obj 0).lastAccess = (startValid {} exRef (.gen 0) 1 owner []).1.now :=
  (c06_moves (cfg := {}) (s1 := exRef) (id := .gen 0) (h := 1) (h' := 0) (r := owner) (e1 := [])
    (by decide) exRef_cv (by decide)).2.2

/-- `hv` is needed in `c06_moves`: with a dangling handle (`h = 0`, empty heap) `touch` is a no-op and the
"returned session" reads as the default object, whose address is not the request's. -/
example :
    (startValid {} { now := 100 } (.lit "") 0 owner []).2.1 = .sess 0 ∧
    ((startValid {} { now := 100 } (.lit "") 0 owner []).1.obj 0).ip ≠ owner.ip := by decide

/-- `hcv` is needed in `c06_moves`: the reference record (valid handle 0) points to `gen 1`, which the
cache maps to the dangling handle 5; that handle is returned, untouched. -/
example :
    let s : State := { now := 100,
                       heap := [{ id := .gen 0, created := 95, lastAccess := 95, ref := some (.gen 1), data := none }],
                       cache := [(.gen 0, 0), (.gen 1, 5)], nextId := 2 }
    (startValid {} s (.gen 0) 0 owner []).2.1 = .sess 5 ∧
    ((startValid {} s (.gen 0) 0 owner []).1.obj 5).ip ≠ owner.ip := by decide

end examples

end Sx.Loc
