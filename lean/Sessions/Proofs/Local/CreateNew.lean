import Sessions.Proofs.Local.Basics
/-!
# T-local proofs — extra basics about `createNew`

General lemmas about the "create a fresh session" tail of `Start` (`createNew`), valid for every state
and every oracle. Shared by `Forged.lean` (C02) and `Invalid.lean` (C03/C06); candidates for
`Basics.lean`.
-/
namespace Sx.Loc

/-! ### extra basics: the freshly allocated object -/

/-- the object `createNew` allocates -/
def newObj (s : State) (r : Req) : Sess :=
  { id := ID.gen s.nextId, created := s.now, lastAccess := s.now, ip := r.ip, ua := agentHash r.ua }

@[simp] theorem newS1_heap (s : State) (r : Req) : (newS1 s r).heap = s.heap ++ [newObj s r] := rfl
@[simp] theorem newS1_cache (s : State) (r : Req) : (newS1 s r).cache = s.cache := rfl
@[simp] theorem newS1_store (s : State) (r : Req) : (newS1 s r).store = s.store := rfl
@[simp] theorem newS1_now (s : State) (r : Req) : (newS1 s r).now = s.now := rfl
@[simp] theorem newS1_nextId (s : State) (r : Req) : (newS1 s r).nextId = s.nextId + 1 := rfl
@[simp] theorem newS1_fails (s : State) (r : Req) : (newS1 s r).fails = s.fails := rfl
@[simp] theorem newS1_picks (s : State) (r : Req) : (newS1 s r).picks = s.picks := rfl
@[simp] theorem newS1_timers (s : State) (r : Req) : (newS1 s r).timers = s.timers := rfl
@[simp] theorem newS1_vers (s : State) (r : Req) : (newS1 s r).vers = s.vers := rfl
@[simp] theorem newS1_extra (s : State) (r : Req) : (newS1 s r).extra = s.extra := rfl

theorem newS1_heap_length (s : State) (r : Req) : (newS1 s r).heap.length = s.heap.length + 1 := by simp

/-- the new handle `s.heap.length` is valid in `newS1 s r` -/
theorem newS1_valid (s : State) (r : Req) : s.heap.length < (newS1 s r).heap.length := by simp

theorem newS1_obj_new (s : State) (r : Req) : (newS1 s r).obj s.heap.length = newObj s r := by
  simp [State.obj, List.getD_eq_getElem?_getD]

theorem newS1_obj_old {s : State} {x : Nat} (hv : x < s.heap.length) (r : Req) : (newS1 s r).obj x = s.obj x := by
  simp [State.obj, List.getD_eq_getElem?_getD, List.getElem?_append, hv]

/-- the `Set` of `createNew` -/
def newSet (cfg : Cfg) (s : State) (r : Req) : State × Bool × List Ev := cacheSet cfg (newS1 s r) s.heap.length

/-- after the `Set` the new object is exactly `newObj` (stamping it with `now` changes nothing) -/
theorem newSet_obj_new (cfg : Cfg) (s : State) (r : Req) : (newSet cfg s r).1.obj s.heap.length = newObj s r := by
  unfold newSet
  rw [cacheSet_obj_self cfg (newS1_valid s r), newS1_obj_new]
  rfl

/-- the `Set` of `createNew` leaves every old object alone -/
theorem newSet_obj_old (cfg : Cfg) {s : State} {x : Nat} (hv : x < s.heap.length) (r : Req) :
    (newSet cfg s r).1.obj x = s.obj x := by
  unfold newSet
  rw [cacheSet_obj_ne cfg (by omega), newS1_obj_old hv]

theorem newSet_heap_length (cfg : Cfg) (s : State) (r : Req) : (newSet cfg s r).1.heap.length = s.heap.length + 1 := by
  unfold newSet; rw [cacheSet_heap_length]; simp

theorem newSet_now (cfg : Cfg) (s : State) (r : Req) : (newSet cfg s r).1.now = s.now := by
  unfold newSet; rw [cacheSet_now]; rfl

theorem newSet_nextId (cfg : Cfg) (s : State) (r : Req) : (newSet cfg s r).1.nextId = s.nextId + 1 := by
  unfold newSet; rw [cacheSet_nextId]; rfl

theorem newSet_nil {cfg : Cfg} {s : State} (r : Req) (hf : s.fails = []) :
    (newSet cfg s r).2.1 = true ∧ (newSet cfg s r).1.fails = [] :=
  cacheSet_nil (cfg := cfg) (s := newS1 s r) s.heap.length hf

/-- the events of the `Set` of `createNew`: flushes of cached entries, then the save of the new session -/
theorem newSet_evs (cfg : Cfg) (s : State) (r : Req) :
    (newSet cfg s r).2.2 = (setC cfg (newS1 s r) s.heap.length).2 ++
      [if (newSet cfg s r).2.1 = true then .save (.gen s.nextId) (enc cfg.codec (newObj s r)) else .saveFail (.gen s.nextId)] := by
  have h := cacheSet_evs cfg (newS1 s r) s.heap.length
  rw [newS1_obj_new] at h
  have h2 : (cacheSet cfg (newS1 s r) s.heap.length).1.obj s.heap.length = newObj s r := newSet_obj_new cfg s r
  rw [h2] at h
  exact h

/-- the flushes inside the `Set` of `createNew` concern entries of the cache `createNew` was called on,
read through the heap as it is afterwards -/
theorem newSet_flushes (cfg : Cfg) (s : State) (r : Req) :
    ∀ e ∈ (setC cfg (newS1 s r) s.heap.length).2, IsFlush cfg s.cache (newSet cfg s r).1.obj e := by
  intro e he
  have := (setC_flushed cfg (newS1 s r) s.heap.length).evs_flush e he
  rwa [show (setObjNow (newS1 s r) s.heap.length).obj = (newSet cfg s r).1.obj from
    funext (fun x => (cacheSet_obj cfg (newS1 s r) s.heap.length x).symm)] at this

/-- fault-free: all of them succeed -/
theorem newSet_flushes_ok (cfg : Cfg) {s : State} (r : Req) (hf : s.fails = []) :
    ∀ e ∈ (setC cfg (newS1 s r) s.heap.length).2, IsFlushOk cfg s.cache (newSet cfg s r).1.obj e := by
  intro e he
  have := (setC_flushed cfg (newS1 s r) s.heap.length).nofail hf e he
  rwa [show (setObjNow (newS1 s r) s.heap.length).obj = (newSet cfg s r).1.obj from
    funext (fun x => (cacheSet_obj cfg (newS1 s r) s.heap.length x).symm)] at this

/-! ### extra basics: `createNew` -/

theorem createNew_yes' {cfg : Cfg} {s : State} {r : Req} (pre : List Ev) (hc : r.create = true) :
    createNew cfg s r pre =
      if (newSet cfg s r).2.1 = false then ((newSet cfg s r).1, .err "create", pre ++ (newSet cfg s r).2.2)
      else ((newSet cfg s r).1, .sess s.heap.length, pre ++ (newSet cfg s r).2.2 ++ [.setCookie (ID.gen s.nextId)]) :=
  createNew_yes pre hc

/-- fault-free creation -/
theorem createNew_yes_nil {cfg : Cfg} {s : State} {r : Req} (pre : List Ev) (hc : r.create = true) (hf : s.fails = []) :
    createNew cfg s r pre =
      ((newSet cfg s r).1, .sess s.heap.length,
        pre ++ (setC cfg (newS1 s r) s.heap.length).2 ++
          [.save (.gen s.nextId) (enc cfg.codec (newObj s r)), .setCookie (.gen s.nextId)]) := by
  rw [createNew_yes' pre hc, newSet_evs]
  simp [(newSet_nil (cfg := cfg) r hf).1]

/-- the result of `createNew`: nothing, an error, or the NEW handle -/
theorem createNew_res (cfg : Cfg) (s : State) (r : Req) (pre : List Ev) :
    (createNew cfg s r pre).2.1 = .nil ∨ (createNew cfg s r pre).2.1 = .err "create" ∨
      (createNew cfg s r pre).2.1 = .sess s.heap.length := by
  cases hc : r.create with
  | false => rw [createNew_no pre hc]; exact Or.inl rfl
  | true => rw [createNew_yes' pre hc]; split <;> simp

/-- `createNew` never returns an existing object -/
theorem createNew_res_ne (cfg : Cfg) (s : State) (r : Req) (pre : List Ev) {h : Nat} (hv : h < s.heap.length) :
    (createNew cfg s r pre).2.1 ≠ .sess h := by
  rcases createNew_res cfg s r pre with h1 | h1 | h1 <;> rw [h1] <;> simp
  omega

/-- the events handed to `createNew` come first -/
theorem createNew_evs_prefix (cfg : Cfg) (s : State) (r : Req) (pre : List Ev) :
    ∃ post, (createNew cfg s r pre).2.2 = pre ++ post := by
  cases hc : r.create with
  | false => rw [createNew_no pre hc]; exact ⟨[], by simp⟩
  | true =>
    rw [createNew_yes' pre hc]; split
    · exact ⟨_, rfl⟩
    · exact ⟨_, by simp only [List.append_assoc]; rfl⟩

theorem createNew_pre_mem (cfg : Cfg) (s : State) (r : Req) {pre : List Ev} {e : Ev} (he : e ∈ pre) :
    e ∈ (createNew cfg s r pre).2.2 := by
  obtain ⟨post, h⟩ := createNew_evs_prefix cfg s r pre
  rw [h]; exact List.mem_append_left _ he

/-- every event of `createNew` beyond `pre` is a save (successful or not) or the cookie of the new id -/
theorem createNew_evs_cases (cfg : Cfg) (s : State) (r : Req) (pre : List Ev) {e : Ev}
    (he : e ∈ (createNew cfg s r pre).2.2) :
    e ∈ pre ∨ (∃ k rc, e = .save k rc) ∨ (∃ k, e = .saveFail k) ∨ e = .setCookie (.gen s.nextId) := by
  cases hc : r.create with
  | false => rw [createNew_no pre hc] at he; exact Or.inl he
  | true =>
    have hset : ∀ e ∈ (newSet cfg s r).2.2, (∃ k rc, e = .save k rc) ∨ (∃ k, e = .saveFail k) := by
      intro e he
      rw [newSet_evs] at he
      rcases List.mem_append.1 he with he | he
      · exact (setC_flushed cfg (newS1 s r) s.heap.length).ev_cases he
      · rw [List.mem_singleton] at he
        split at he
        · exact Or.inl ⟨_, _, he⟩
        · exact Or.inr ⟨_, he⟩
    rw [createNew_yes' pre hc] at he
    split at he
    · rcases List.mem_append.1 he with he | he
      · exact Or.inl he
      · rcases hset e he with h | h
        · exact Or.inr (Or.inl h)
        · exact Or.inr (Or.inr (Or.inl h))
    · rcases List.mem_append.1 he with he | he
      · rcases List.mem_append.1 he with he | he
        · exact Or.inl he
        · rcases hset e he with h | h
          · exact Or.inr (Or.inl h)
          · exact Or.inr (Or.inr (Or.inl h))
      · exact Or.inr (Or.inr (Or.inr (List.mem_singleton.1 he)))

/-- scalar fields after `createNew` -/
theorem createNew_now (cfg : Cfg) (s : State) (r : Req) (pre : List Ev) : (createNew cfg s r pre).1.now = s.now := by
  cases hc : r.create with
  | false => rw [createNew_no pre hc]
  | true => rw [createNew_yes' pre hc]; split <;> exact newSet_now cfg s r

theorem createNew_nextId (cfg : Cfg) (s : State) (r : Req) (pre : List Ev) :
    (createNew cfg s r pre).1.nextId = s.nextId + (if r.create then 1 else 0) := by
  cases hc : r.create with
  | false => rw [createNew_no pre hc]; simp
  | true => rw [createNew_yes' pre hc]; split <;> simp [newSet_nextId]

theorem createNew_fails_nil {cfg : Cfg} {s : State} (r : Req) (pre : List Ev) (hf : s.fails = []) :
    (createNew cfg s r pre).1.fails = [] := by
  cases hc : r.create with
  | false => rw [createNew_no pre hc]; exact hf
  | true => rw [createNew_yes' pre hc]; split <;> exact (newSet_nil (cfg := cfg) r hf).2

/-- old objects are untouched by `createNew` -/
theorem createNew_obj_old (cfg : Cfg) {s : State} {x : Nat} (hv : x < s.heap.length) (r : Req) (pre : List Ev) :
    (createNew cfg s r pre).1.obj x = s.obj x := by
  cases hc : r.create with
  | false => rw [createNew_no pre hc]
  | true => rw [createNew_yes' pre hc]; split <;> exact newSet_obj_old cfg hv r

/-- what `createNew` does to the records other than the new one: nothing, or a flush of a cached entry
(every oracle) -/
theorem createNew_store_lk (cfg : Cfg) (s : State) (r : Req) (pre : List Ev) {k : ID} (hk : k ≠ .gen s.nextId) :
    lookup k (createNew cfg s r pre).1.store = lookup k s.store ∨
      ∃ x, (k, x) ∈ s.cache ∧
        lookup k (createNew cfg s r pre).1.store = some (enc cfg.codec ((createNew cfg s r pre).1.obj x)) := by
  cases hc : r.create with
  | false => rw [createNew_no pre hc]; exact Or.inl rfl
  | true =>
    have h := cacheSet_store_lk cfg (newS1 s r) s.heap.length k (by intro _; rw [newS1_obj_new]; exact hk)
    rw [createNew_yes' pre hc]; split <;> exact h

/-- what `createNew` does to the cache entries other than the new one: kept or dropped (every oracle) -/
theorem createNew_cache_lk (cfg : Cfg) (s : State) (r : Req) (pre : List Ev) {k : ID} (hk : k ≠ .gen s.nextId) :
    lookup k (createNew cfg s r pre).1.cache = lookup k s.cache ∨ lookup k (createNew cfg s r pre).1.cache = none := by
  cases hc : r.create with
  | false => rw [createNew_no pre hc]; exact Or.inl rfl
  | true =>
    have h := cacheSet_cache_lk cfg (newS1 s r) s.heap.length k (by rw [newS1_obj_new]; exact hk)
    rw [createNew_yes' pre hc]; split <;> exact h

/-- no record disappears in `createNew` (every oracle) -/
theorem createNew_store_keys (cfg : Cfg) (s : State) (r : Req) (pre : List Ev) (k : ID)
    (hk : (lookup k s.store).isSome = true) : (lookup k (createNew cfg s r pre).1.store).isSome = true := by
  cases hc : r.create with
  | false => rw [createNew_no pre hc]; exact hk
  | true =>
    have hfl := (setC_flushed cfg (newS1 s r) s.heap.length).store_keys k hk
    have hgoal : (lookup k (newSet cfg s r).1.store).isSome = true := by
      unfold newSet
      cases hok : (cacheSet cfg (newS1 s r) s.heap.length).2.1 with
      | true =>
        rw [cacheSet_store_ok hok, lookup_insert]
        split
        · rfl
        · exact hfl
      | false => rw [cacheSet_store_fail hok]; exact hfl
    rw [createNew_yes' pre hc]; split <;> exact hgoal

/-- an id that is neither cached (no entry at all, shadowed or not) nor stored, and is not the id being
minted, is still absent from cache and store after `createNew` (every oracle). -/
theorem createNew_absent (cfg : Cfg) (s : State) (r : Req) (pre : List Ev) {k : ID} (hk : k ≠ .gen s.nextId)
    (hc : ∀ x, (k, x) ∉ s.cache) (hs : lookup k s.store = none) :
    lookup k (createNew cfg s r pre).1.cache = none ∧ lookup k (createNew cfg s r pre).1.store = none := by
  constructor
  · rcases createNew_cache_lk cfg s r pre hk with h | h
    · rw [h]; exact lookup_none_iff.2 hc
    · exact h
  · rcases createNew_store_lk cfg s r pre hk with h | ⟨x, hx, _⟩
    · rw [h]; exact hs
    · exact absurd hx (hc x)

end Sx.Loc
