import Sessions.Proofs.Local.Rotation
/-!
# C09 — acknowledged changes are stored (T-local, EVERY fault oracle)

If a mutating call reports success, the record stored under the session's id is the encoding of the
session object as it is after the call. No fault-freedom is assumed: the theorems hold for every
oracle `s.fails`, the hypothesis is only that *this* call returned success.

* `cacheSet_saved` (in `Basics.lean`): `cache.Set` returning `true`.
* `hset_ok_saved`, `hdel_ok_saved`, `hlogout_ok_saved`, `hgetdel_saved`: the key/value and logout handlers.
* `createNew_sess_saved`: `Start` creating a session.
* `regenerate_ok_saved`: `RegenerateID`.
* `hlogin_ok_saved`: `LogIn`.
-/
namespace Sx.Loc

/-! ### `cache.Set` (restated from `Basics`) -/

/-- **C09 / `Set`**: the record under the object's id is the encoding of the object, whose
`lastAccess` is now. -/
theorem c09_cacheSet (cfg : Cfg) (s : State) (h : Nat) (hok : (cacheSet cfg s h).2.1 = true) :
    lookup ((cacheSet cfg s h).1.obj h).id (cacheSet cfg s h).1.store = some (enc cfg.codec ((cacheSet cfg s h).1.obj h)) ∧
    (h < s.heap.length → ((cacheSet cfg s h).1.obj h).lastAccess = (cacheSet cfg s h).1.now) := by
  refine ⟨cacheSet_saved hok, fun hv => ?_⟩
  rw [cacheSet_obj_self cfg hv, cacheSet_now]

/-! ### the handlers that call `SaveSession` directly -/

/-- **C09 / `Set(key, value)`**: `.ok` means the record is the encoding of the object (which now
holds the value). -/
theorem hset_ok_saved (cfg : Cfg) (s : State) (h : Nat) (k : String) (v : Val)
    (hok : (hset cfg s h k v).2.1 = .ok) :
    lookup ((hset cfg s h k v).1.obj h).id (hset cfg s h k v).1.store =
      some (enc cfg.codec ((hset cfg s h k v).1.obj h)) := by
  cases hd : (s.obj h).data with
  | none => rw [hset_none k v hd] at hok; cases hok
  | some d =>
    rw [hset_some k v hd] at hok ⊢
    exact saveObj_saved ((hres_ok_iff _).1 hok)

/-- after a successful `Set(key, value)` on a valid handle the object holds the value -/
theorem hset_ok_value (cfg : Cfg) (s : State) (h : Nat) (k : String) (v : Val) (hv : h < s.heap.length)
    (hok : (hset cfg s h k v).2.1 = .ok) :
    ∃ d, ((hset cfg s h k v).1.obj h).data = some d ∧ lookup k d = some v := by
  cases hd : (s.obj h).data with
  | none => rw [hset_none k v hd] at hok; cases hok
  | some d =>
    rw [hset_some k v hd]
    refine ⟨insert k v d, ?_, lookup_insert_self k v d⟩
    show ((saveObj cfg _ h).1.obj h).data = _
    rw [saveObj_eq, (saveRec_fr cfg _ _ _).obj, obj_setObj_self hv]

/-- **C09 / `Delete(key)`** -/
theorem hdel_ok_saved (cfg : Cfg) (s : State) (h : Nat) (k : String) (hok : (hdel cfg s h k).2.1 = .ok) :
    lookup ((hdel cfg s h k).1.obj h).id (hdel cfg s h k).1.store = some (enc cfg.codec ((hdel cfg s h k).1.obj h)) := by
  rw [hdel_eq] at hok ⊢
  exact saveObj_saved ((hres_ok_iff _).1 hok)

/-- **C09 / `LogOut()`** of a logged-in session. (With no user attached `LogOut` returns `.ok`
without touching anything: `hlogout_none`.) -/
theorem hlogout_ok_saved (cfg : Cfg) (s : State) (h : Nat) (u : String × Nat) (hu : (s.obj h).user = some u)
    (hok : (hlogout cfg s h).2.1 = .ok) :
    lookup ((hlogout cfg s h).1.obj h).id (hlogout cfg s h).1.store = some (enc cfg.codec ((hlogout cfg s h).1.obj h)) := by
  rw [hlogout_some hu] at hok ⊢
  exact saveObj_saved ((hres_ok_iff _).1 hok)

theorem hlogout_ok_user (cfg : Cfg) (s : State) (h : Nat) (hv : h < s.heap.length) :
    ((hlogout cfg s h).1.obj h).user = none := by
  cases hu : (s.obj h).user with
  | none => rw [hlogout_none hu]; exact hu
  | some u =>
    rw [hlogout_some hu]
    show ((saveObj cfg _ h).1.obj h).user = _
    rw [saveObj_eq, (saveRec_fr cfg _ _ _).obj, obj_setObj_self hv]

theorem hgetdel_some {cfg : Cfg} {s : State} {h : Nat} {k : String} {v : Val}
    (hl : lookup k ((s.obj h).data.getD []) = some v) :
    hgetdel cfg s h k =
      ((saveObj cfg (s.setObj h { s.obj h with data := (s.obj h).data.map (erase k) }) h).1, .val v,
       (saveObj cfg (s.setObj h { s.obj h with data := (s.obj h).data.map (erase k) }) h).2.2) := by
  simp [hgetdel, hl]

theorem hgetdel_none {cfg : Cfg} {s : State} {h : Nat} {k : String}
    (hl : lookup k ((s.obj h).data.getD []) = none) : hgetdel cfg s h k = (s, .val .null, []) := by
  simp [hgetdel, hl]

/-- **C09 / `GetAndDelete(key)`**. It has no error result; what holds: its events are `[]` (key absent,
nothing changed), or one save event; when that event is a `.save` (the write-through succeeded) the
record is the encoding of the object. -/
theorem hgetdel_saved (cfg : Cfg) (s : State) (h : Nat) (k : String) :
    ((hgetdel cfg s h k).2.2 = [] ∧ (hgetdel cfg s h k).1 = s) ∨
    ((hgetdel cfg s h k).2.2 = [.saveFail ((hgetdel cfg s h k).1.obj h).id] ∧ (hgetdel cfg s h k).1.store = s.store) ∨
    ((hgetdel cfg s h k).2.2 = [.save ((hgetdel cfg s h k).1.obj h).id (enc cfg.codec ((hgetdel cfg s h k).1.obj h))] ∧
      lookup ((hgetdel cfg s h k).1.obj h).id (hgetdel cfg s h k).1.store =
        some (enc cfg.codec ((hgetdel cfg s h k).1.obj h))) := by
  cases hl : lookup k ((s.obj h).data.getD []) with
  | none => rw [hgetdel_none hl]; exact Or.inl ⟨rfl, rfl⟩
  | some v =>
    right
    rw [hgetdel_some hl]
    generalize hs1 : s.setObj h { s.obj h with data := (s.obj h).data.map (erase k) } = s1
    have hst : s1.store = s.store := by rw [← hs1]; rfl
    show (saveObj cfg s1 h).2.2 = _ ∧ _ ∨ (saveObj cfg s1 h).2.2 = _ ∧ _
    have hobj : (saveObj cfg s1 h).1.obj h = s1.obj h := by rw [saveObj_eq]; exact (saveRec_fr cfg _ _ _).obj h
    cases hok : (saveObj cfg s1 h).2.1 with
    | true =>
      right
      refine ⟨?_, saveObj_saved hok⟩
      rw [hobj]; rw [saveObj_eq] at hok ⊢; rw [saveRec_evs, hok]; simp
    | false =>
      left
      rw [hobj]; rw [saveObj_eq] at hok ⊢
      exact ⟨by rw [saveRec_evs, hok]; simp, by rw [saveRec_store_fail hok, hst]⟩

/-- in particular: a `.save` event of `GetAndDelete` means the change is stored -/
theorem hgetdel_save_event (cfg : Cfg) (s : State) (h : Nat) (k : String) (id : ID) (rec : Rec)
    (he : Ev.save id rec ∈ (hgetdel cfg s h k).2.2) :
    lookup ((hgetdel cfg s h k).1.obj h).id (hgetdel cfg s h k).1.store =
      some (enc cfg.codec ((hgetdel cfg s h k).1.obj h)) := by
  rcases hgetdel_saved cfg s h k with ⟨h1, _⟩ | ⟨h1, _⟩ | ⟨_, h2⟩
  · rw [h1] at he; cases he
  · rw [h1] at he; simp at he
  · exact h2

/-! ### creation -/

/-- **C09 / creation in `Start`**: when `createNew` returns a session, it is the new handle, it
carries the minted id, and the record under that id is the encoding of the object. -/
theorem createNew_sess_saved (cfg : Cfg) (s : State) (r : Req) (pre : List Ev) (h : Nat)
    (hres : (createNew cfg s r pre).2.1 = .sess h) :
    h = s.heap.length ∧ ((createNew cfg s r pre).1.obj h).id = ID.gen s.nextId ∧
    lookup (ID.gen s.nextId) (createNew cfg s r pre).1.store = some (enc cfg.codec ((createNew cfg s r pre).1.obj h)) ∧
    ((createNew cfg s r pre).1.obj h).lastAccess = s.now := by
  cases hc : r.create with
  | false => rw [createNew_no pre hc] at hres; cases hres
  | true =>
    rw [createNew_yes pre hc] at hres ⊢
    cases hok : (cacheSet cfg (newS1 s r) s.heap.length).2.1 with
    | false => rw [hok] at hres; simp at hres
    | true =>
      rw [hok] at hres
      simp only [Bool.true_eq_false, if_false, Res.sess.injEq] at hres ⊢
      subst hres
      have hid : ((cacheSet cfg (newS1 s r) s.heap.length).1.obj s.heap.length).id = ID.gen s.nextId := by
        rw [cacheSet_obj_id]; unfold newS1; rw [obj_alloc_new]
      have hsv := cacheSet_saved hok
      rw [hid] at hsv
      refine ⟨rfl, hid, hsv, ?_⟩
      rw [cacheSet_obj_self cfg (by unfold newS1; simp)]
      rfl

/-! ### `RegenerateID` -/

/-- **C09 / `RegenerateID`**: when it returns `true` the record under the (new) id of the session is
exactly the encoding of the object — `lastAccess` included: a later flush by the second `Set`'s
compaction re-writes the same record. -/
theorem regenerate_ok_saved (cfg : Cfg) (s : State) (h : Nat) (hv : h < s.heap.length)
    (hfresh : ∀ x, (ID.gen s.nextId, x) ∉ s.cache) (hne : (s.obj h).id ≠ ID.gen s.nextId)
    (hok : (regenerate cfg s h).2.1 = true) :
    lookup ((regenerate cfg s h).1.obj h).id (regenerate cfg s h).1.store =
      some (enc cfg.codec ((regenerate cfg s h).1.obj h)) := by
  obtain ⟨_, ho, _, _, _, hnew, _⟩ := regenerate_spec cfg s h hv hfresh hne hok
  rw [ho]; exact hnew

/-! ### `LogIn`

`LogIn` ends with `RegenerateID`, so the hypotheses of `regenerate_ok_saved` have to be carried
through its first two phases (the log-out loop over the user's other sessions and the `Set` that
stores the user). `Safe N S`: the id `N` about to be minted is neither a cache key nor the id of an
object of `S`. -/

/-- the id `N` is not in use in the cache or on the heap -/
def Safe (N : ID) (S : State) : Prop :=
  (∀ x, (N, x) ∉ S.cache) ∧ (∀ x, x < S.heap.length → (S.obj x).id ≠ N)

/-- `S` is a later state of the same call: nothing minted, heap only grown, old objects keep their ids -/
structure Later (s S : State) : Prop where
  nextId : S.nextId = s.nextId
  len : s.heap.length ≤ S.heap.length
  ids : ∀ x, x < s.heap.length → (S.obj x).id = (s.obj x).id

theorem Later.refl (s : State) : Later s s := ⟨rfl, Nat.le_refl _, fun _ _ => rfl⟩
theorem Later.trans {a b c : State} (h1 : Later a b) (h2 : Later b c) : Later a c :=
  ⟨h2.nextId.trans h1.nextId, Nat.le_trans h1.len h2.len,
   fun x hx => (h2.ids x (Nat.lt_of_lt_of_le hx h1.len)).trans (h1.ids x hx)⟩

theorem obj_oob {S : State} {x : Nat} (hx : ¬ x < S.heap.length) :
    S.obj x = { id := .lit "", created := 0, lastAccess := 0 } := by
  simp [State.obj, List.getD_eq_getElem?_getD, List.getElem?_eq_none (Nat.le_of_not_lt hx)]

/-- the id of any object read through a handle, valid or not, is not a fresh minted id -/
theorem Safe.obj_id_ne {n : Nat} {S : State} (hs : Safe (.gen n) S) (x : Nat) : (S.obj x).id ≠ .gen n := by
  by_cases hx : x < S.heap.length
  · exact hs.2 x hx
  · rw [obj_oob hx]; intro h; cases h

theorem cacheGet_later (cfg : Cfg) (S : State) (id : ID) : Later S (cacheGet cfg S id).1 := by
  have sp := cacheGet_spec cfg S id
  refine ⟨sp.nextId, ?_, fun x hx => by rw [sp.obj_old x hx]⟩
  rcases sp.heap with h | ⟨o, h, _⟩ <;> rw [h] <;> simp

theorem cacheGet_safe (cfg : Cfg) {N : ID} {S : State} {id : ID} (hid : id ≠ N) (hs : Safe N S) :
    Safe N (cacheGet cfg S id).1 := by
  have sp := cacheGet_spec cfg S id
  constructor
  · intro x hx
    rcases sp.cache_mem _ hx with h | ⟨h, _⟩
    · exact hs.1 x h
    · exact hid (Prod.mk.inj h).1.symm
  · intro x hx
    rcases sp.heap with h | ⟨o, h, _, ho, _⟩
    · have hx' : x < S.heap.length := by rw [h] at hx; exact hx
      rw [sp.obj_old x hx']; exact hs.2 x hx'
    · by_cases hx' : x < S.heap.length
      · rw [sp.obj_old x hx']; exact hs.2 x hx'
      · have : x = S.heap.length := by rw [h] at hx; simp at hx; omega
        subst this
        have : (cacheGet cfg S id).1.obj S.heap.length = o := by
          simp [State.obj, h, List.getD_eq_getElem?_getD]
        rw [this, ho]; exact hid

theorem cacheSet_later (cfg : Cfg) (S : State) (x : Nat) : Later S (cacheSet cfg S x).1 :=
  ⟨cacheSet_nextId cfg S x, by rw [cacheSet_heap_length]; exact Nat.le_refl _, fun y _ => cacheSet_obj_id cfg S x y⟩

theorem cacheSet_safe (cfg : Cfg) {n : Nat} {S : State} (x : Nat) (hs : Safe (.gen n) S) :
    Safe (.gen n) (cacheSet cfg S x).1 := by
  constructor
  · intro y hy
    rcases cacheSet_cache_mem cfg S x hy with h | h
    · exact hs.obj_id_ne x (Prod.mk.inj h).1.symm
    · exact hs.1 y h.1
  · intro y hy
    rw [cacheSet_obj_id]
    exact hs.2 y (by rwa [cacheSet_heap_length] at hy)

/-- replacing the user of an object changes no id -/
theorem setUser_later (S : State) (x : Nat) (u : Option (String × Nat)) :
    Later S (S.setObj x { S.obj x with user := u }) := by
  refine ⟨rfl, by simp, fun y _ => ?_⟩
  rw [obj_setObj]; split
  · rename_i h; obtain ⟨rfl, _⟩ := h; rfl
  · rfl

theorem setUser_safe {N : ID} {S : State} (x : Nat) (u : Option (String × Nat)) (hs : Safe N S) :
    Safe N (S.setObj x { S.obj x with user := u }) := by
  refine ⟨hs.1, fun y hy => ?_⟩
  rw [(setUser_later S x u).ids y (by simpa using hy)]
  exact hs.2 y (by simpa using hy)

theorem setUserAll_later_safe (cfg : Cfg) (u : Option (String × Nat)) {n : Nat} :
    ∀ (ids : List ID) (S : State), (∀ i ∈ ids, i ≠ ID.gen n) → Safe (.gen n) S →
      Later S (setUserAll cfg u ids S).1 ∧ Safe (.gen n) (setUserAll cfg u ids S).1
  | [], S, _, hs => ⟨Later.refl S, hs⟩
  | id :: rest, S, hids, hs => by
    have hid : id ≠ ID.gen n := hids id List.mem_cons_self
    have hrest : ∀ i ∈ rest, i ≠ ID.gen n := fun i hi => hids i (List.mem_cons_of_mem _ hi)
    have hl1 := cacheGet_later cfg S id
    have hs1 := cacheGet_safe cfg hid hs
    rcases hG : cacheGet cfg S id with ⟨s1, res, e1⟩
    rw [hG] at hl1 hs1
    cases res with
    | err => rw [setUserAll_cons_err hG]; exact ⟨hl1, hs1⟩
    | nil =>
      rw [setUserAll_cons_nil hG]
      obtain ⟨a, b⟩ := setUserAll_later_safe cfg u rest s1 hrest hs1
      exact ⟨hl1.trans a, b⟩
    | some x =>
      rw [setUserAll_cons_some hG]
      have hl2 : Later s1 (userSet cfg u s1 x).1 := (setUser_later s1 x u).trans (cacheSet_later cfg _ x)
      have hs2 : Safe (.gen n) (userSet cfg u s1 x).1 := cacheSet_safe cfg x (setUser_safe x u hs1)
      split
      · exact ⟨hl1.trans hl2, hs2⟩
      · obtain ⟨a, b⟩ := setUserAll_later_safe cfg u rest _ hrest hs2
        exact ⟨(hl1.trans hl2).trans a, b⟩

theorem mem_userSessions {le : ID → ID → Bool} {s : State} {uid : String} {i : ID} (h : i ∈ userSessions le s uid) :
    (∃ r, (i, r) ∈ s.store) ∨ (uid, i) ∈ s.extra := by
  unfold userSessions at h
  rw [List.mem_mergeSort, List.mem_eraseDups, List.mem_append] at h
  rcases h with h | h
  · rw [List.mem_map] at h
    obtain ⟨⟨k, r⟩, hm, rfl⟩ := h
    exact Or.inl ⟨r, (List.mem_filter.1 hm).1⟩
  · have h := (List.mem_filter.1 h).1
    rw [List.mem_map] at h
    obtain ⟨⟨u', k⟩, hm, rfl⟩ := h
    have := List.mem_filter.1 hm
    simp only [decide_eq_true_eq] at this
    right; rw [← this.2]; exact this.1

theorem logoutUser_later_safe (cfg : Cfg) (le : ID → ID → Bool) {n : Nat} (s : State) (uid : String)
    (hstore : lookup (ID.gen n) s.store = none) (hextra : ∀ u, (u, ID.gen n) ∉ s.extra) (hs : Safe (.gen n) s) :
    Later s (logoutUser cfg le s uid).1 ∧ Safe (.gen n) (logoutUser cfg le s uid).1 := by
  unfold logoutUser
  rw [forUser_eq]
  have hpop : Later s s.pop := ⟨rfl, Nat.le_refl _, fun _ _ => rfl⟩
  have hspop : Safe (.gen n) s.pop := hs
  split
  · exact ⟨hpop, hspop⟩
  · have hids : ∀ i ∈ userSessions le s.pop uid, i ≠ ID.gen n := by
      intro i hi he
      subst he
      rcases mem_userSessions hi with ⟨r, hr⟩ | hr
      · exact lookup_none_iff.1 hstore r hr
      · exact hextra uid hr
    obtain ⟨a, b⟩ := setUserAll_later_safe cfg none _ s.pop hids hspop
    exact ⟨hpop.trans a, b⟩

theorem hlogout_later_safe (cfg : Cfg) {N : ID} (s : State) (h : Nat) (hs : Safe N s) :
    Later s (hlogout cfg s h).1 ∧ Safe N (hlogout cfg s h).1 := by
  cases hu : (s.obj h).user with
  | none => rw [hlogout_none hu]; exact ⟨Later.refl s, hs⟩
  | some u =>
    rw [hlogout_some hu]
    have hfr := saveRec_fr cfg (s.setObj h { s.obj h with user := none }) (((s.setObj h { s.obj h with user := none }).obj h).id)
      ((s.setObj h { s.obj h with user := none }).obj h)
    have hl := setUser_later s h none
    have hsf := setUser_safe (N := N) h none hs
    show Later s (saveObj cfg _ h).1 ∧ Safe N (saveObj cfg _ h).1
    rw [saveObj_eq]
    refine ⟨hl.trans ⟨hfr.nextId, by rw [hfr.heap]; exact Nat.le_refl _, fun x _ => by rw [hfr.obj]⟩, ?_, ?_⟩
    · intro x hx; rw [saveRec_cache] at hx; exact hsf.1 x hx
    · intro x hx; rw [hfr.obj]; exact hsf.2 x (by rwa [hfr.heap] at hx)

theorem loginPre_later_safe (cfg : Cfg) (le : ID → ID → Bool) {n : Nat} (s : State) (h : Nat) (uid : String) (excl : Bool)
    (hstore : lookup (ID.gen n) s.store = none) (hextra : ∀ u, (u, ID.gen n) ∉ s.extra) (hs : Safe (.gen n) s) :
    Later s (loginPre cfg le s h uid excl).1 ∧ Safe (.gen n) (loginPre cfg le s h uid excl).1 := by
  unfold loginPre
  split
  · exact logoutUser_later_safe cfg le s uid hstore hextra hs
  · exact hlogout_later_safe cfg s h hs

theorem loginSet_later_safe (cfg : Cfg) (le : ID → ID → Bool) {n : Nat} (s : State) (h : Nat) (uid : String) (excl : Bool)
    (hstore : lookup (ID.gen n) s.store = none) (hextra : ∀ u, (u, ID.gen n) ∉ s.extra) (hs : Safe (.gen n) s) :
    Later s (loginSet cfg le s h uid excl).1 ∧ Safe (.gen n) (loginSet cfg le s h uid excl).1 := by
  obtain ⟨a, b⟩ := loginPre_later_safe cfg le s h uid excl hstore hextra hs
  unfold loginSet
  exact ⟨(a.trans (setUser_later _ h _)).trans (cacheSet_later cfg _ h), cacheSet_safe cfg h (setUser_safe h _ b)⟩

/-- **C09 / `LogIn`**: when it returns `.ok` the record under the session's (new) id is exactly the
encoding of the session object, which carries the user. Hypotheses (all consequences of "minted ids in
use are `< nextId`"): the handle is valid and the id about to be minted, `gen s.nextId`, is not a
cache key, not the id of a heap object, not a store key and not listed by `UserSessions`. -/
theorem hlogin_ok_saved (cfg : Cfg) (le : ID → ID → Bool) (s : State) (h : Nat) (uid : String) (excl : Bool)
    (hv : h < s.heap.length) (hs : Safe (.gen s.nextId) s)
    (hstore : lookup (ID.gen s.nextId) s.store = none) (hextra : ∀ u, (u, ID.gen s.nextId) ∉ s.extra)
    (hok : (hlogin cfg le s h uid excl).2.1 = .ok) :
    lookup ((hlogin cfg le s h uid excl).1.obj h).id (hlogin cfg le s h uid excl).1.store =
      some (enc cfg.codec ((hlogin cfg le s h uid excl).1.obj h)) ∧
    ((hlogin cfg le s h uid excl).1.obj h).id = ID.gen s.nextId ∧
    (∃ v, ((hlogin cfg le s h uid excl).1.obj h).user = some (uid, v)) := by
  obtain ⟨hl, hsafe⟩ := loginSet_later_safe cfg le s h uid excl hstore hextra hs
  rw [hlogin_eq] at hok ⊢
  by_cases h1 : (loginPre cfg le s h uid excl).2.1 = false
  · rw [if_pos h1] at hok; cases hok
  · rw [if_neg h1] at hok ⊢
    by_cases h2 : (loginSet cfg le s h uid excl).2.1 = false
    · rw [if_pos h2] at hok; cases hok
    · rw [if_neg h2] at hok ⊢
      have hok' : (regenerate cfg (loginSet cfg le s h uid excl).1 h).2.1 = true := (hres_ok_iff _).1 hok
      have hv3 : h < (loginSet cfg le s h uid excl).1.heap.length := Nat.lt_of_lt_of_le hv hl.len
      have hn3 : (loginSet cfg le s h uid excl).1.nextId = s.nextId := hl.nextId
      have hfresh3 : ∀ x, (ID.gen (loginSet cfg le s h uid excl).1.nextId, x) ∉ (loginSet cfg le s h uid excl).1.cache := by
        rw [hn3]; exact hsafe.1
      have hne3 : ((loginSet cfg le s h uid excl).1.obj h).id ≠ ID.gen (loginSet cfg le s h uid excl).1.nextId := by
        rw [hn3]; exact hsafe.2 h hv3
      refine ⟨regenerate_ok_saved cfg _ h hv3 hfresh3 hne3 hok', ?_, ?_⟩
      · show ((regenerate cfg (loginSet cfg le s h uid excl).1 h).1.obj h).id = _
        rw [regenerate_obj cfg _ h hv3, ← hn3]; rfl
      · show ∃ v, ((regenerate cfg (loginSet cfg le s h uid excl).1 h).1.obj h).user = _
        rw [regenerate_obj cfg _ h hv3]
        show ∃ v, ((loginSet cfg le s h uid excl).1.obj h).user = _
        have hv1 : h < (loginPre cfg le s h uid excl).1.heap.length :=
          Nat.lt_of_lt_of_le hv (loginPre_later_safe cfg le s h uid excl hstore hextra hs).1.len
        unfold loginSet
        rw [cacheSet_obj_self cfg (by simpa using hv1), obj_setObj_self hv1]
        exact ⟨_, rfl⟩

/-! ### non-vacuity -/

section examples

private def exS : Sess := { id := .gen 0, created := 0, lastAccess := 10, data := some [("k", .int 1)] }
private def exSt : State :=
  { now := 20, heap := [exS], cache := [(.gen 0, 0)], store := [(.gen 0, enc .gob exS)], nextId := 1 }

/-- `Set("a", 2)` succeeds on a concrete state, so `hset_ok_saved` applies -/
example : (hset {} exSt 0 "a" (.int 2)).2.1 = .ok := by decide

/-- with a failing save the handler reports the error (and `hset_ok_saved` says nothing) -/
example : (hset {} { exSt with fails := [true] } 0 "a" (.int 2)).2.1 = .err := by decide

/-- `LogIn` (non-exclusive) and `RegenerateID` succeed on the concrete state -/
example : (hlogin {} (fun _ _ => true) exSt 0 "u" false).2.1 = .ok := by decide
example : (regenerate {} exSt 0).2.1 = true := by decide

/-- the hypotheses of `hlogin_ok_saved` hold in the concrete state -/
example : Safe (.gen exSt.nextId) exSt ∧ lookup (ID.gen exSt.nextId) exSt.store = none ∧
    (∀ u, (u, ID.gen exSt.nextId) ∉ exSt.extra) := by
  refine ⟨⟨?_, ?_⟩, by decide, by simp [exSt]⟩
  · intro x hx; simp [exSt] at hx
  · intro x hx
    have : x = 0 := by simp [exSt] at hx; omega
    subst this; decide

end examples

end Sx.Loc
