import Sessions.Model.World
/-!
# Local facts about the anomaly tests of `Start`, expiry and the cookie jar

* `matchIP` on canonical `a.b.c.d:p` addresses and on bracketed (IPv6) literals;
* `ipOK` / `uaOK` characterised (C06);
* pure expiry lemmas about `validFor` / `expired` (C03);
* the cookie jar only depends on the cookie events, and on the last of them.
-/
namespace Sx.Loc

/-! ## 1. `matchIP` -/

/-- a non-empty run of ASCII digits -/
def Digits (l : List Char) : Prop := l ≠ [] ∧ ∀ c ∈ l, isDigit c = true

/-- the canonical textual form `a.b.c.d:p` -/
def canon (a b c d p : List Char) : String :=
  String.ofList (a ++ '.' :: b ++ '.' :: c ++ '.' :: d ++ ':' :: p)

theorem canon_toList (a b c d p : List Char) :
    (canon a b c d p).toList = a ++ '.' :: (b ++ '.' :: (c ++ '.' :: (d ++ ':' :: p))) := by
  simp [canon, String.toList_ofList]

theorem isDigit_dot : isDigit '.' = false := by decide
theorem isDigit_colon : isDigit ':' = false := by decide
theorem isDigit_bracket : isDigit '[' = false := by decide

theorem digitPrefix_nil : digitPrefix [] = 0 := rfl

theorem digitPrefix_cons_nondigit {x : Char} (hx : isDigit x = false) (t : List Char) :
    digitPrefix (x :: t) = 0 := by
  simp [digitPrefix, hx]

theorem digitPrefix_append_of_digits {a : List Char} (ha : ∀ c ∈ a, isDigit c = true) (rest : List Char) :
    digitPrefix (a ++ rest) = a.length + digitPrefix rest := by
  induction a with
  | nil => simp
  | cons x xs ih =>
    have hx : isDigit x = true := ha x (by simp)
    have h := ih (fun c hc => ha c (by simp [hc]))
    simp [digitPrefix, hx, h]
    omega

theorem digitPrefix_of_digits {a : List Char} (ha : ∀ c ∈ a, isDigit c = true) :
    digitPrefix a = a.length := by
  have h := digitPrefix_append_of_digits ha []
  simpa [digitPrefix_nil] using h

theorem greedyLens_zero : greedyLens 0 = [] := rfl

theorem greedyLens_succ (n : Nat) : greedyLens (n + 1) = (n + 1) :: greedyLens n := by
  simp [greedyLens, List.range_succ]

theorem matchPat_nil_nil : matchPat [] [] = some [] := rfl

theorem matchPat_digits (ps : List Pat) (cs : List Char) :
    matchPat (.digits :: ps) cs =
      (greedyLens (digitPrefix cs)).findSome?
        (fun n => (matchPat ps (cs.drop n)).map (fun caps => cs.take n :: caps)) := by
  rw [matchPat]

theorem matchPat_any_dot (ps : List Pat) (t : List Char) :
    matchPat (.any :: ps) ('.' :: t) = matchPat ps t := by
  rw [matchPat]
  simp

theorem matchPat_colon_colon (ps : List Pat) (t : List Char) :
    matchPat (.colon :: ps) (':' :: t) = matchPat ps t := by
  rw [matchPat]
  simp

/-- The greedy group takes the whole digit run when the continuation matches right after it:
no backtracking happens. -/
theorem matchPat_digits_append {ps : List Pat} {a rest : List Char} {caps : List (List Char)}
    (ha : Digits a) (hr : digitPrefix rest = 0) (hm : matchPat ps rest = some caps) :
    matchPat (.digits :: ps) (a ++ rest) = some (a :: caps) := by
  obtain ⟨hne, hd⟩ := ha
  have hpos : a.length ≠ 0 := by
    intro h
    exact hne (List.length_eq_zero_iff.mp h)
  have h1 : a.length - 1 + 1 = a.length := by omega
  have hlen : digitPrefix (a ++ rest) = (a.length - 1) + 1 := by
    rw [digitPrefix_append_of_digits hd, hr]
    omega
  rw [matchPat_digits, hlen, greedyLens_succ, List.findSome?_cons, h1, List.drop_left, List.take_left, hm]
  rfl

/-- the last group: the digit run is the whole remaining input -/
theorem matchPat_digits_last {p : List Char} (hp : Digits p) : matchPat [.digits] p = some [p] := by
  have h := matchPat_digits_append (ps := []) (rest := []) hp digitPrefix_nil matchPat_nil_nil
  simpa using h

theorem matchPat_canonical {a b c d p : List Char}
    (ha : Digits a) (hb : Digits b) (hc : Digits c) (hd : Digits d) (hp : Digits p) :
    matchPat ipPattern (a ++ '.' :: (b ++ '.' :: (c ++ '.' :: (d ++ ':' :: p)))) = some [a, b, c, d, p] := by
  have h5 : matchPat [.digits] p = some [p] := matchPat_digits_last hp
  have h4 : matchPat [.digits, .colon, .digits] (d ++ ':' :: p) = some [d, p] :=
    matchPat_digits_append hd (digitPrefix_cons_nondigit isDigit_colon p)
      (by rw [matchPat_colon_colon]; exact h5)
  have h3 : matchPat [.digits, .any, .digits, .colon, .digits] (c ++ '.' :: (d ++ ':' :: p)) = some [c, d, p] :=
    matchPat_digits_append hc (digitPrefix_cons_nondigit isDigit_dot _)
      (by rw [matchPat_any_dot]; exact h4)
  have h2 : matchPat [.digits, .any, .digits, .any, .digits, .colon, .digits]
      (b ++ '.' :: (c ++ '.' :: (d ++ ':' :: p))) = some [b, c, d, p] :=
    matchPat_digits_append hb (digitPrefix_cons_nondigit isDigit_dot _)
      (by rw [matchPat_any_dot]; exact h3)
  exact matchPat_digits_append ha (digitPrefix_cons_nondigit isDigit_dot _)
    (by rw [matchPat_any_dot]; exact h2)

/-- On a canonical address the regular expression captures exactly the four octets. -/
theorem matchIP_canonical {a b c d p : List Char}
    (ha : Digits a) (hb : Digits b) (hc : Digits c) (hd : Digits d) (hp : Digits p) :
    matchIP (canon a b c d p) = some [a, b, c, d] := by
  unfold matchIP
  rw [canon_toList, matchPat_canonical ha hb hc hd hp]
  rfl

/-- A bracketed (IPv6 literal) peer address never matches. -/
theorem matchIP_bracket {s : String} {t : List Char} (h : s.toList = '[' :: t) : matchIP s = none := by
  unfold matchIP ipPattern
  rw [h, matchPat_digits, digitPrefix_cons_nondigit isDigit_bracket, greedyLens_zero]
  rfl

example : matchIP "192.168.0.1:8080" = some ["192".toList, "168".toList, "0".toList, "1".toList] := by decide
example : matchIP "[::1]:80" = none := by decide
example : matchIP "[::1]:80" = none := matchIP_bracket (t := "::1]:80".toList) (by decide)
example : Digits "192".toList := ⟨by decide, by decide⟩
example : matchIP (canon "10".toList "0".toList "0".toList "7".toList "443".toList)
    = some ["10".toList, "0".toList, "0".toList, "7".toList] :=
  matchIP_canonical ⟨by decide, by decide⟩ ⟨by decide, by decide⟩ ⟨by decide, by decide⟩
    ⟨by decide, by decide⟩ ⟨by decide, by decide⟩

/-! ## 2. `ipOK` (C06) -/

theorem ipOK_small {cfg : Cfg} (h : cfg.acceptIP ≤ 1) (prev cur : String) : ipOK cfg prev cur = true := by
  unfold ipOK
  have : ¬ cfg.acceptIP > 1 := by omega
  simp [this]

theorem ipOK_large {cfg : Cfg} (h : cfg.acceptIP > 4) (prev cur : String) : ipOK cfg prev cur = true := by
  have h4 : ¬ cfg.acceptIP ≤ 4 := by omega
  unfold ipOK
  cases matchIP prev <;> cases matchIP cur <;> simp [h4]

theorem ipOK_v6_left {cfg : Cfg} {prev : String} (h : matchIP prev = none) (cur : String) :
    ipOK cfg prev cur = true := by
  unfold ipOK
  rw [h]
  cases matchIP cur <;> simp

theorem ipOK_v6_right {cfg : Cfg} {cur : String} (prev : String) (h : matchIP cur = none) :
    ipOK cfg prev cur = true := by
  unfold ipOK
  rw [h]
  cases matchIP prev <;> simp

theorem ipOK_bracket_left {cfg : Cfg} {prev : String} {t : List Char} (h : prev.toList = '[' :: t) (cur : String) :
    ipOK cfg prev cur = true := ipOK_v6_left (matchIP_bracket h) cur

theorem ipOK_bracket_right {cfg : Cfg} {cur : String} {t : List Char} (prev : String) (h : cur.toList = '[' :: t) :
    ipOK cfg prev cur = true := ipOK_v6_right prev (matchIP_bracket h)

/-- `ipOK` once both addresses matched -/
theorem ipOK_of_match {cfg : Cfg} {prev cur : String} {p c : List (List Char)}
    (hp : matchIP prev = some p) (hc : matchIP cur = some c) :
    ipOK cfg prev cur =
      (if cfg.acceptIP > 1 then
        (if cfg.acceptIP ≤ 4 then p.take (cfg.acceptIP.toNat - 1) == c.take (cfg.acceptIP.toNat - 1) else true)
       else true) := by
  unfold ipOK
  rw [hp, hc]

/-- C06 (addresses): on canonical IPv4 peers the request is rejected exactly when `AcceptRemoteIP`
is 2, 3 or 4 and the first `AcceptRemoteIP - 1` octets differ. -/
theorem c06_ip {a b c d p a' b' c' d' p' : List Char} (cfg : Cfg)
    (ha : Digits a) (hb : Digits b) (hc : Digits c) (hd : Digits d) (hp : Digits p)
    (ha' : Digits a') (hb' : Digits b') (hc' : Digits c') (hd' : Digits d') (hp' : Digits p') :
    ipOK cfg (canon a b c d p) (canon a' b' c' d' p') = false ↔
      2 ≤ cfg.acceptIP ∧ cfg.acceptIP ≤ 4 ∧
        [a, b, c, d].take (cfg.acceptIP.toNat - 1) ≠ [a', b', c', d'].take (cfg.acceptIP.toNat - 1) := by
  rw [ipOK_of_match (matchIP_canonical ha hb hc hd hp) (matchIP_canonical ha' hb' hc' hd' hp')]
  by_cases h1 : cfg.acceptIP > 1
  · by_cases h4 : cfg.acceptIP ≤ 4
    · have h2 : 2 ≤ cfg.acceptIP := by omega
      simp only [h1, h4, h2, if_true, true_and, ne_eq]
      rw [← Bool.not_eq_true, beq_iff_eq]
    · simp [h1, h4]
  · have h2 : ¬ 2 ≤ cfg.acceptIP := by omega
    simp [h1, h2]

theorem c06_ip_2 {a b c d p a' b' c' d' p' : List Char} (cfg : Cfg)
    (ha : Digits a) (hb : Digits b) (hc : Digits c) (hd : Digits d) (hp : Digits p)
    (ha' : Digits a') (hb' : Digits b') (hc' : Digits c') (hd' : Digits d') (hp' : Digits p')
    (hn : cfg.acceptIP = 2) :
    ipOK cfg (canon a b c d p) (canon a' b' c' d' p') = false ↔ a ≠ a' := by
  rw [c06_ip cfg ha hb hc hd hp ha' hb' hc' hd' hp', hn]
  simp

theorem c06_ip_3 {a b c d p a' b' c' d' p' : List Char} (cfg : Cfg)
    (ha : Digits a) (hb : Digits b) (hc : Digits c) (hd : Digits d) (hp : Digits p)
    (ha' : Digits a') (hb' : Digits b') (hc' : Digits c') (hd' : Digits d') (hp' : Digits p')
    (hn : cfg.acceptIP = 3) :
    ipOK cfg (canon a b c d p) (canon a' b' c' d' p') = false ↔ a ≠ a' ∨ b ≠ b' := by
  rw [c06_ip cfg ha hb hc hd hp ha' hb' hc' hd' hp', hn]
  simp
  grind

/-- the fourth octet is never compared (`for i := 1; i < AcceptRemoteIP; i++`) -/
theorem c06_ip_4 {a b c d p a' b' c' d' p' : List Char} (cfg : Cfg)
    (ha : Digits a) (hb : Digits b) (hc : Digits c) (hd : Digits d) (hp : Digits p)
    (ha' : Digits a') (hb' : Digits b') (hc' : Digits c') (hd' : Digits d') (hp' : Digits p')
    (hn : cfg.acceptIP = 4) :
    ipOK cfg (canon a b c d p) (canon a' b' c' d' p') = false ↔ a ≠ a' ∨ b ≠ b' ∨ c ≠ c' := by
  rw [c06_ip cfg ha hb hc hd hp ha' hb' hc' hd' hp', hn]
  simp
  grind

example : ipOK { acceptIP := 1 } "10.0.0.1:1" "99.9.9.9:1" = true := ipOK_small (by decide) _ _
example : ipOK { acceptIP := 5 } "10.0.0.1:1" "99.9.9.9:1" = true := ipOK_large (by decide) _ _
example : ipOK { acceptIP := 2 } "[::1]:80" "10.0.0.1:1" = true :=
  ipOK_bracket_left (t := "::1]:80".toList) (by decide) _
example : ipOK { acceptIP := 2 } "10.0.0.1:1" "[::1]:80" = true :=
  ipOK_bracket_right (t := "::1]:80".toList) _ (by decide)
example : ipOK { acceptIP := 2 } "10.0.0.1:1" "11.0.0.1:1" = false := by decide
example : ipOK { acceptIP := 3 } "10.0.0.1:1" "10.1.0.1:1" = false := by decide
example : ipOK { acceptIP := 4 } "10.0.0.1:1" "10.0.1.1:1" = false := by decide
/-- the last octet (and the port) may change freely even at the strictest setting -/
example : ipOK { acceptIP := 4 } "10.0.0.1:1" "10.0.0.2:9" = true := by decide
example : ipOK { acceptIP := 2 } (canon "10".toList "0".toList "0".toList "1".toList "1".toList)
    (canon "11".toList "0".toList "0".toList "1".toList "1".toList) = false :=
  (c06_ip_2 { acceptIP := 2 } ⟨by decide, by decide⟩ ⟨by decide, by decide⟩ ⟨by decide, by decide⟩
    ⟨by decide, by decide⟩ ⟨by decide, by decide⟩ ⟨by decide, by decide⟩ ⟨by decide, by decide⟩
    ⟨by decide, by decide⟩ ⟨by decide, by decide⟩ ⟨by decide, by decide⟩ rfl).mpr (by decide)
example : ipOK { acceptIP := 3 } (canon "10".toList "0".toList "0".toList "1".toList "1".toList)
    (canon "10".toList "1".toList "0".toList "1".toList "1".toList) = false :=
  (c06_ip_3 { acceptIP := 3 } ⟨by decide, by decide⟩ ⟨by decide, by decide⟩ ⟨by decide, by decide⟩
    ⟨by decide, by decide⟩ ⟨by decide, by decide⟩ ⟨by decide, by decide⟩ ⟨by decide, by decide⟩
    ⟨by decide, by decide⟩ ⟨by decide, by decide⟩ ⟨by decide, by decide⟩ rfl).mpr (Or.inr (by decide))
example : ipOK { acceptIP := 4 } (canon "10".toList "0".toList "0".toList "1".toList "1".toList)
    (canon "10".toList "0".toList "0".toList "2".toList "9".toList) = true := by
  have h := c06_ip_4 { acceptIP := 4 } (a := "10".toList) (b := "0".toList) (c := "0".toList) (d := "1".toList)
    (p := "1".toList) (a' := "10".toList) (b' := "0".toList) (c' := "0".toList) (d' := "2".toList) (p' := "9".toList)
    ⟨by decide, by decide⟩ ⟨by decide, by decide⟩ ⟨by decide, by decide⟩
    ⟨by decide, by decide⟩ ⟨by decide, by decide⟩ ⟨by decide, by decide⟩ ⟨by decide, by decide⟩
    ⟨by decide, by decide⟩ ⟨by decide, by decide⟩ ⟨by decide, by decide⟩ rfl
  cases hv : ipOK { acceptIP := 4 } (canon "10".toList "0".toList "0".toList "1".toList "1".toList)
    (canon "10".toList "0".toList "0".toList "2".toList "9".toList) with
  | true => rfl
  | false => exact absurd (h.mp hv) (by decide)

/-! ## 3. `uaOK` (C06) -/

theorem c06_ua (cfg : Cfg) (recorded cur : Nat) :
    uaOK cfg recorded cur = false ↔ cfg.acceptUA = false ∧ recorded ≠ 0 ∧ recorded ≠ cur := by
  simp [uaOK, and_assoc]

example : uaOK { acceptUA := false } 7 8 = false := (c06_ua _ _ _).mpr ⟨rfl, by decide, by decide⟩
example : uaOK { acceptUA := false } 0 8 = true := by decide
example : uaOK { acceptUA := true } 7 8 = true := by decide

/-! ## 4. expiry (C03) -/

theorem c03_fresh_not_stale_bool {cfg : Cfg} {now la : Int} (h : since now la < cfg.sessionExpiry) :
    (!(decide (since now la ≥ cfg.sessionExpiry))) = true := by
  have : ¬ since now la ≥ cfg.sessionExpiry := by omega
  simp [this]

/-- a session accessed less than `SessionExpiry` ago is only subject to the anomaly tests -/
theorem c03_fresh_not_stale {cfg : Cfg} {now : Int} {o : Sess} (r : Req)
    (h : since now o.lastAccess < cfg.sessionExpiry) :
    validFor cfg now o r = (ipOK cfg o.ip r.ip && uaOK cfg o.ua (agentHash r.ua)) := by
  unfold validFor
  rw [c03_fresh_not_stale_bool h, Bool.true_and]

/-- with the default `SessionExpiry = math.MaxInt64` sessions never go stale -/
theorem c03_never_stale_max {cfg : Cfg} {now : Int} {o : Sess} (r : Req)
    (hc : cfg.sessionExpiry = maxI64) (h : since now o.lastAccess < maxI64) :
    validFor cfg now o r = (ipOK cfg o.ip r.ip && uaOK cfg o.ua (agentHash r.ua)) :=
  c03_fresh_not_stale r (by rw [hc]; exact h)

theorem c03_stale_invalid {cfg : Cfg} {now : Int} {o : Sess} (r : Req)
    (h : since now o.lastAccess ≥ cfg.sessionExpiry) : validFor cfg now o r = false := by
  unfold validFor
  simp [h]

theorem c03_zero_expiry {cfg : Cfg} {now : Int} {o : Sess} (r : Req)
    (hc : cfg.sessionExpiry = 0) (h : o.lastAccess ≤ now) : validFor cfg now o r = false :=
  c03_stale_invalid r (by unfold since; omega)

/-- `Expired()` on a proper (non-reference) session implies staleness -/
theorem c03_expired_sound {cfg : Cfg} {now : Int} {o : Sess}
    (href : o.ref = none) (h : expired cfg now o = true) : since now o.lastAccess ≥ cfg.sessionExpiry := by
  unfold expired at h
  simp only [href, Option.isSome_none, Bool.false_and, Bool.false_or, Bool.and_eq_true, decide_eq_true_eq] at h
  exact h.1

theorem c03_expired_invalid {cfg : Cfg} {now : Int} {o : Sess} (r : Req)
    (href : o.ref = none) (h : expired cfg now o = true) : validFor cfg now o r = false :=
  c03_stale_invalid r (c03_expired_sound href h)

/-- a reference record (created = lastAccess at `RegenerateID`) expires exactly after the grace period -/
theorem expired_ref_iff {cfg : Cfg} {now : Int} {o : Sess} {t : ID}
    (href : o.ref = some t) (hcl : o.created = o.lastAccess) (hid : 0 ≤ cfg.idExpiry) (_hg : 0 ≤ cfg.grace) :
    expired cfg now o = true ↔ since now o.lastAccess ≥ cfg.grace := by
  unfold expired since
  simp only [href, hcl, Option.isSome_some, Bool.true_and, Bool.or_eq_true, Bool.and_eq_true, decide_eq_true_eq]
  omega

section
/-- a session object for the examples -/
private def exS (created la : Int) (ref : Option ID := none) : Sess :=
  { id := .lit "x", created := created, lastAccess := la, ref := ref }

example : (!(decide (since 10 5 ≥ ({ sessionExpiry := 6 } : Cfg).sessionExpiry))) = true :=
  c03_fresh_not_stale_bool (by decide)
example : validFor { sessionExpiry := 6 } 10 (exS 0 5) {} = true := by
  rw [c03_fresh_not_stale (cfg := { sessionExpiry := 6 }) {} (by decide)]; decide
example : validFor {} 10 (exS 0 5) {} = true := by
  rw [c03_never_stale_max (cfg := {}) {} rfl (by decide)]; decide
example : validFor { sessionExpiry := 5 } 10 (exS 0 5) {} = false := c03_stale_invalid _ (by decide)
example : validFor { sessionExpiry := 0 } 10 (exS 0 10) {} = false := c03_zero_expiry _ rfl (by decide)
example : expired { sessionExpiry := 5, idExpiry := 3, grace := 2 } 10 (exS 0 5) = true := by decide
example : since 10 (exS 0 5).lastAccess ≥ ({ sessionExpiry := 5, idExpiry := 3, grace := 2 } : Cfg).sessionExpiry :=
  c03_expired_sound rfl (by decide)
example : validFor { sessionExpiry := 5, idExpiry := 3, grace := 2 } 10 (exS 0 5) {} = false :=
  c03_expired_invalid _ rfl (by decide)
example : expired { grace := 4 } 10 (exS 6 6 (some (.gen 1))) = true :=
  (expired_ref_iff (t := .gen 1) rfl rfl (by decide) (by decide)).mpr (by decide)
example : expired { grace := 5 } 10 (exS 6 6 (some (.gen 1))) = false := by decide
end

/-! ## 5. the cookie jar -/

theorem applyCookie_not_cookie {ck : CookieCfg} {jar : Option ID} {e : Ev} (h : isCookie e = false) :
    applyCookie ck jar e = jar := by
  cases e <;> simp_all [applyCookie, isCookie]

/-- what a cookie event leaves in the jar does not depend on what was there -/
theorem applyCookie_cookie_indep {ck : CookieCfg} {e : Ev} (h : isCookie e = true) (jar jar' : Option ID) :
    applyCookie ck jar e = applyCookie ck jar' e := by
  cases e <;> simp_all [applyCookie, isCookie]

theorem applyCookie_dead {ck : CookieCfg} {e : Ev} (hd : ck.dead = true) (h : isCookie e = true) (jar : Option ID) :
    applyCookie ck jar e = none := by
  cases e <;> simp_all [applyCookie, isCookie]

/-- non-cookie events do not change the jar -/
theorem applyCookies_filter (ck : CookieCfg) (jar : Option ID) (evs : List Ev) :
    applyCookies ck jar evs = applyCookies ck jar (evs.filter isCookie) := by
  unfold applyCookies
  induction evs generalizing jar with
  | nil => rfl
  | cons e es ih =>
    cases he : isCookie e with
    | true => simp only [List.filter_cons, he, if_true, List.foldl_cons]; exact ih _
    | false =>
      simp only [List.filter_cons, he, List.foldl_cons, applyCookie_not_cookie he]
      exact ih _

theorem applyCookies_append_singleton (ck : CookieCfg) (jar : Option ID) (pre : List Ev) (e : Ev) :
    applyCookies ck jar (pre ++ [e]) = applyCookie ck (applyCookies ck jar pre) e := by
  simp [applyCookies, List.foldl_append]

/-- the jar holds the id of the last cookie when that one is a live cookie -/
theorem applyCookies_last_set {ck : CookieCfg} {jar : Option ID} {evs pre : List Ev} {i : ID}
    (h : evs.filter isCookie = pre ++ [.setCookie i]) (hd : ck.dead = false) :
    applyCookies ck jar evs = some i := by
  rw [applyCookies_filter, h, applyCookies_append_singleton]
  simp [applyCookie, hd]

/-- the jar is empty when the last cookie is the deletion cookie -/
theorem applyCookies_last_del {ck : CookieCfg} {jar : Option ID} {evs pre : List Ev}
    (h : evs.filter isCookie = pre ++ [.delCookie]) : applyCookies ck jar evs = none := by
  rw [applyCookies_filter, h, applyCookies_append_singleton]
  rfl

/-- the jar is unchanged when the response carries no cookie -/
theorem applyCookies_no_cookie {ck : CookieCfg} {jar : Option ID} {evs : List Ev}
    (h : evs.filter isCookie = []) : applyCookies ck jar evs = jar := by
  rw [applyCookies_filter, h]
  rfl

/-- with a dead template any cookie empties the jar -/
theorem applyCookies_dead {ck : CookieCfg} {jar : Option ID} {evs : List Ev}
    (hd : ck.dead = true) (h : evs.filter isCookie ≠ []) : applyCookies ck jar evs = none := by
  rw [applyCookies_filter]
  rcases List.eq_nil_or_concat (evs.filter isCookie) with hn | ⟨pre, e, hc⟩
  · exact absurd hn h
  · rw [List.concat_eq_append] at hc
    have he : isCookie e = true := by
      have hm : e ∈ evs.filter isCookie := by rw [hc]; simp
      exact (List.mem_filter.mp hm).2
    rw [hc, applyCookies_append_singleton]
    exact applyCookie_dead hd he _

example : applyCookies {} (some (.gen 0)) [.load (.gen 0) true, .setCookie (.gen 1), .save (.gen 1) { created := 0, lastAccess := 0 }]
    = applyCookies {} (some (.gen 0)) [.setCookie (.gen 1)] := applyCookies_filter _ _ _
example : applyCookies {} (some (.gen 0)) [.delCookie, .load (.gen 0) true, .setCookie (.gen 1), .del (.gen 0)] = some (.gen 1) :=
  applyCookies_last_set (pre := [.delCookie]) (by decide) (by decide)
example : applyCookies {} (some (.gen 0)) [.setCookie (.gen 1), .del (.gen 0), .delCookie] = none :=
  applyCookies_last_del (pre := [.setCookie (.gen 1)]) (by decide)
example : applyCookies {} (some (.gen 0)) [.load (.gen 0) true, .del (.gen 0)] = some (.gen 0) :=
  applyCookies_no_cookie (by decide)
example : applyCookies { maxAge := -1 } (some (.gen 0)) [.setCookie (.gen 1), .del (.gen 0)] = none :=
  applyCookies_dead (by decide) (by decide)

end Sx.Loc
