import Sessions.Proofs.Local.Basics
import Sessions.Proofs.Local.AnomalyIP
/-!
# C18 — the cookies `Start` sends (T-local)

Everything here is about ONE call `start cfg s r` from an ARBITRARY state `s`, for every
configuration, request and oracle (fault oracle included: the error results are covered too).

* building blocks: none of the cache-level calls emits a cookie event; `regenerate`, `destroy` and
  `createNew` emit exactly one, and only when they succeed;
* (a) `start_cookie_shapes`: the cookie events of one `Start` are `[]`, `[setCookie i]`, `[delCookie]`
  or `[delCookie, setCookie i]`, refined per path (`StartPath`, `start_*_out`);
  `start_sess_last_cookie`: when a session is returned the last cookie (if any) sets its id;
* (b) `c18_same_id_no_cookie`, `c18_changed_id_cookie`, `c18_no_cookie_presented`: a cookie is sent
  iff the id of the returned session is not the presented one;
* (c) `c18_deletion_only_when_looked_up`;
* (d) `start_jar_sess`, `start_jar_nil`, `start_jar_err`: what the browser's jar holds afterwards.
-/
namespace Sx.Loc

/-! ### extra basics: the cookie events of an event list -/

/-- the cookie events (`setCookie` / `delCookie`) of an event list, in order -/
def cookieEvs (evs : List Ev) : List Ev := evs.filter isCookie

@[simp] theorem cookieEvs_nil : cookieEvs [] = [] := rfl

@[simp] theorem cookieEvs_append (a b : List Ev) : cookieEvs (a ++ b) = cookieEvs a ++ cookieEvs b := by
  simp [cookieEvs]

theorem cookieEvs_cons (e : Ev) (l : List Ev) :
    cookieEvs (e :: l) = if isCookie e = true then e :: cookieEvs l else cookieEvs l := by
  simp [cookieEvs, List.filter_cons]

@[simp] theorem cookieEvs_cons_set (i : ID) (l : List Ev) : cookieEvs (.setCookie i :: l) = .setCookie i :: cookieEvs l := by
  simp [cookieEvs_cons, isCookie]

@[simp] theorem cookieEvs_cons_del (l : List Ev) : cookieEvs (.delCookie :: l) = .delCookie :: cookieEvs l := by
  simp [cookieEvs_cons, isCookie]

theorem cookieEvs_cons_of_not {e : Ev} (h : isCookie e = false) (l : List Ev) : cookieEvs (e :: l) = cookieEvs l := by
  simp [cookieEvs_cons, h]

theorem cookieEvs_singleton_of_not {e : Ev} (h : isCookie e = false) : cookieEvs [e] = [] := by
  simp [cookieEvs_cons, h]

theorem mem_cookieEvs {e : Ev} {evs : List Ev} : e ∈ cookieEvs evs ↔ e ∈ evs ∧ isCookie e = true := by
  simp [cookieEvs]

theorem cookieEvs_eq_nil_iff {evs : List Ev} : cookieEvs evs = [] ↔ ∀ e ∈ evs, isCookie e = false := by
  simp [cookieEvs, List.filter_eq_nil_iff]

/-- the deletion cookie is in the events iff it is among the cookie events -/
theorem delCookie_mem_cookieEvs {evs : List Ev} : Ev.delCookie ∈ cookieEvs evs ↔ Ev.delCookie ∈ evs := by
  simp [mem_cookieEvs, isCookie]

theorem setCookie_mem_cookieEvs {evs : List Ev} {i : ID} : Ev.setCookie i ∈ cookieEvs evs ↔ Ev.setCookie i ∈ evs := by
  simp [mem_cookieEvs, isCookie]

/-- the jar only sees the cookie events -/
theorem applyCookies_cookieEvs (ck : CookieCfg) (jar : Option ID) (evs : List Ev) :
    applyCookies ck jar evs = applyCookies ck jar (cookieEvs evs) := applyCookies_filter ck jar evs

/-! ### building blocks: the cache never sends a cookie -/

theorem cookieEvs_cacheSet (cfg : Cfg) (s : State) (h : Nat) : cookieEvs (cacheSet cfg s h).2.2 = [] := by
  rw [cookieEvs_eq_nil_iff]
  intro e he
  rw [cacheSet_evs] at he
  rcases List.mem_append.1 he with he | he
  · rcases (setC_flushed cfg s h).ev_cases he with ⟨k, r, rfl⟩ | ⟨k, rfl⟩ <;> rfl
  · simp only [List.mem_singleton] at he
    subst he
    split <;> rfl

theorem cookieEvs_cacheGet (cfg : Cfg) (s : State) (id : ID) : cookieEvs (cacheGet cfg s id).2.2 = [] := by
  rw [cookieEvs_eq_nil_iff]
  intro e he
  rcases (cacheGet_spec cfg s id).evs_shape e he with ⟨k, x, _, h | h⟩ | h | h | h | h | ⟨u, h⟩ | ⟨u, h⟩ <;>
    subst h <;> rfl

theorem cookieEvs_cacheDelete (s : State) (id : ID) : cookieEvs (cacheDelete s id).2.2 = [] := by
  rw [cacheDelete_eq]
  split <;> rfl

theorem cookieEvs_follow (cfg : Cfg) : ∀ (n : Nat) (s : State) (h : Nat), cookieEvs (follow cfg n s h).2.2 = []
  | 0, s, h => by simp
  | n + 1, s, h => by
    cases href : (s.obj h).ref with
    | none => rw [follow_succ_none n href]; rfl
    | some t =>
      rw [follow_succ_some n href]
      have hg := cookieEvs_cacheGet cfg s t
      rcases hG : cacheGet cfg s t with ⟨s1, g, e1⟩
      rw [hG] at hg
      cases g with
      | err => exact hg
      | nil => exact hg
      | some h2 =>
        have h2' := cookieEvs_follow cfg n s1 h2
        have hg' : cookieEvs e1 = [] := hg
        simp [followStep, hg', h2']

/-- `follow` only ever returns the handle of a proper session (not a reference record) -/
theorem follow_some_ref_none (cfg : Cfg) : ∀ (n : Nat) (s : State) (h h2 : Nat),
    (follow cfg n s h).2.1 = .some h2 → ((follow cfg n s h).1.obj h2).ref = none
  | 0, s, h, h2 => by simp
  | n + 1, s, h, h2 => by
    cases href : (s.obj h).ref with
    | none =>
      rw [follow_succ_none n href]
      intro hh
      simp only [GetRes.some.injEq] at hh
      subst hh; exact href
    | some t =>
      rw [follow_succ_some n href]
      rcases hG : cacheGet cfg s t with ⟨s1, g, e1⟩
      cases g with
      | err => simp [followStep]
      | nil => simp [followStep]
      | some h3 => exact follow_some_ref_none cfg n s1 h3 h2

/-! ### building blocks: `regenerate`, `destroy`, `createNew` -/

/-- `RegenerateID` sends the cookie of the new id exactly when it succeeds -/
theorem cookieEvs_regenerate (cfg : Cfg) (s : State) (h : Nat) :
    cookieEvs (regenerate cfg s h).2.2 =
      if (regenerate cfg s h).2.1 = true then [.setCookie (.gen s.nextId)] else [] := by
  have hA : cookieEvs (regenA cfg s h).2.2 = [] := cookieEvs_cacheSet _ _ _
  have hB : cookieEvs (regenB cfg s h).2.2 = [] := cookieEvs_cacheSet _ _ _
  rw [regenerate_eq]
  by_cases h1 : (regenA cfg s h).2.1 = false
  · rw [if_pos h1]; simp [hA]
  · rw [if_neg h1]
    by_cases h2 : (regenB cfg s h).2.1 = false
    · rw [if_pos h2]; simp [hA, hB]
    · rw [if_neg h2]; simp [hA, hB]

theorem regenerate_nextId (cfg : Cfg) (s : State) (h : Nat) : (regenerate cfg s h).1.nextId = s.nextId + 1 := by
  have hA : (regenA cfg s h).1.nextId = s.nextId + 1 := by
    unfold regenA; rw [cacheSet_nextId]; rfl
  have hB : (regenB cfg s h).1.nextId = s.nextId + 1 := by
    unfold regenB; rw [cacheSet_nextId]; unfold regenS2; rw [alloc_nextId, hA]
  rw [regenerate_eq]
  split
  · exact hA
  · split
    · exact hB
    · exact hB

/-- whatever the outcome of `RegenerateID` on a valid handle, the object now carries the minted id -/
theorem regenerate_obj_id (cfg : Cfg) {s : State} {h : Nat} (hv : h < s.heap.length) :
    ((regenerate cfg s h).1.obj h).id = .gen s.nextId := by
  have h0 : ((regenS0 s h).obj h).id = .gen s.nextId := by
    have : (regenS0 s h).obj h = (s.setObj h { s.obj h with id := ID.gen s.nextId, created := s.now }).obj h := rfl
    rw [this, obj_setObj_self hv]
  have hA : ((regenA cfg s h).1.obj h).id = .gen s.nextId := by
    unfold regenA; rw [cacheSet_obj_id, h0]
  have hlen : (regenA cfg s h).1.heap.length = s.heap.length := by
    unfold regenA; rw [cacheSet_heap_length]; simp [regenS0]
  have hB : ((regenB cfg s h).1.obj h).id = .gen s.nextId := by
    unfold regenB; rw [cacheSet_obj_id]; unfold regenS2
    rw [obj_alloc_old (by omega), hA]
  rw [regenerate_eq]
  split
  · exact hA
  · split
    · exact hB
    · exact hB

/-- `Destroy` on a request that carries the cookie sends the deletion cookie exactly when it succeeds -/
theorem cookieEvs_destroy (s : State) (h : Nat) :
    cookieEvs (destroy s h true).2.2 = if (destroy s h true).2.1 = true then [.delCookie] else [] := by
  have hD := cookieEvs_cacheDelete s (s.obj h).id
  rw [destroy_eq]
  by_cases h1 : (cacheDelete s (s.obj h).id).2.1 = false
  · rw [if_pos h1]; simp [hD]
  · rw [if_neg h1]; simp [hD]

theorem destroy_state (s : State) (h : Nat) (c : Bool) : (destroy s h c).1 = (cacheDelete s (s.obj h).id).1 := by
  rw [destroy_eq]
  split
  · rfl
  · split <;> rfl

theorem destroy_fr (s : State) (h : Nat) (c : Bool) : Fr s (destroy s h c).1 := by
  rw [destroy_state]; exact cacheDelete_fr s _

/-- is the result a session? -/
def _root_.Sx.Res.isSess : Res → Bool
  | .sess _ => true
  | _ => false

/-- The three outcomes of `createNew`, seen through the cookies: `n` is the id counter it started
from, `c0` the cookie events sent before it. It returns `nil` (`createIfNew` is off) or the error
`"create"` without any further cookie, or a session whose id `gen n` is sent in a cookie. -/
def NewOut (n : Nat) (c0 : List Ev) (out : State × Res × List Ev) : Prop :=
  (out.2.1 = .nil ∧ cookieEvs out.2.2 = c0) ∨
  (out.2.1 = .err "create" ∧ cookieEvs out.2.2 = c0) ∨
  (∃ h, out.2.1 = .sess h ∧ cookieEvs out.2.2 = c0 ++ [.setCookie (.gen n)] ∧ (out.1.obj h).id = .gen n)

theorem newS1_obj (s : State) (r : Req) :
    (newS1 s r).obj s.heap.length =
      { id := ID.gen s.nextId, created := s.now, lastAccess := s.now, ip := r.ip, ua := agentHash r.ua } :=
  obj_alloc_new { s with nextId := s.nextId + 1 } _

/-- the results `createNew` can return -/
theorem createNew_res (cfg : Cfg) (s : State) (r : Req) (pre : List Ev) :
    (createNew cfg s r pre).2.1 = .nil ∨ (createNew cfg s r pre).2.1 = .err "create" ∨
      (createNew cfg s r pre).2.1 = .sess s.heap.length := by
  cases hc : r.create with
  | false => rw [createNew_no pre hc]; exact Or.inl rfl
  | true =>
    rw [createNew_yes pre hc]
    split
    · exact Or.inr (Or.inl rfl)
    · exact Or.inr (Or.inr rfl)

/-- the id of the session `createNew` returns -/
theorem createNew_obj_id {cfg : Cfg} {s : State} {r : Req} {pre : List Ev} {h : Nat}
    (hres : (createNew cfg s r pre).2.1 = .sess h) : ((createNew cfg s r pre).1.obj h).id = .gen s.nextId := by
  cases hc : r.create with
  | false => rw [createNew_no pre hc] at hres; cases hres
  | true =>
    rw [createNew_yes pre hc] at hres ⊢
    by_cases hok : (cacheSet cfg (newS1 s r) s.heap.length).2.1 = false
    · rw [if_pos hok] at hres; cases hres
    · rw [if_neg hok] at hres ⊢
      simp only [Res.sess.injEq] at hres
      subst hres
      show ((cacheSet cfg (newS1 s r) s.heap.length).1.obj s.heap.length).id = _
      rw [cacheSet_obj_id, newS1_obj]

/-- the cookie events of `createNew`: those sent before, plus the cookie of the new session when one is returned -/
theorem cookieEvs_createNew (cfg : Cfg) (s : State) (r : Req) (pre : List Ev) :
    cookieEvs (createNew cfg s r pre).2.2 =
      cookieEvs pre ++ (if (createNew cfg s r pre).2.1.isSess = true then [.setCookie (.gen s.nextId)] else []) := by
  cases hc : r.create with
  | false => rw [createNew_no pre hc]; simp [Res.isSess]
  | true =>
    have hS := cookieEvs_cacheSet cfg (newS1 s r) s.heap.length
    rw [createNew_yes pre hc]
    by_cases hok : (cacheSet cfg (newS1 s r) s.heap.length).2.1 = false
    · rw [if_pos hok]; simp [Res.isSess, hS]
    · rw [if_neg hok]; simp [Res.isSess, hS]

theorem createNew_out (cfg : Cfg) (s : State) (r : Req) (pre : List Ev) :
    NewOut s.nextId (cookieEvs pre) (createNew cfg s r pre) := by
  have hck := cookieEvs_createNew cfg s r pre
  rcases createNew_res cfg s r pre with h | h | h
  · left; rw [h] at hck; exact ⟨h, by simpa [Res.isSess] using hck⟩
  · right; left; rw [h] at hck; exact ⟨h, by simpa [Res.isSess] using hck⟩
  · right; right
    refine ⟨s.heap.length, h, ?_, createNew_obj_id h⟩
    rw [h] at hck; simpa [Res.isSess] using hck

/-! ### the paths of `Start` -/

/-- `cacheGet` preserves the id counter -/
theorem cacheGet_nextId' {cfg : Cfg} {s s1 : State} {id : ID} {g : GetRes} {e1 : List Ev}
    (hg : cacheGet cfg s id = (s1, g, e1)) : s1.nextId = s.nextId := by
  have := (cacheGet_spec cfg s id).nextId; rwa [hg] at this

theorem cacheGet_cookieEvs' {cfg : Cfg} {s s1 : State} {id : ID} {g : GetRes} {e1 : List Ev}
    (hg : cacheGet cfg s id = (s1, g, e1)) : cookieEvs e1 = [] := by
  have := cookieEvs_cacheGet cfg s id; rwa [hg] at this

/-- When every cached handle is valid, so is the handle `Get` returns (a loaded object is
allocated at the valid handle `s.heap.length`). -/
theorem cacheGet_handle_valid {cfg : Cfg} {s s1 : State} {id : ID} {h0 : Nat} {e1 : List Ev}
    (hcv : ∀ k x, (k, x) ∈ s.cache → x < s.heap.length)
    (hg : cacheGet cfg s id = (s1, .some h0, e1)) : h0 < s1.heap.length := by
  have sp : GetSpec cfg s id s1 (.some h0) e1 := by
    have := cacheGet_spec cfg s id; rwa [hg] at this
  rcases sp.some_valid h0 rfl with ⟨hlk, hs, _⟩ | ⟨hh, _, hlen, _⟩
  · rw [hs]; exact hcv _ _ (mem_of_lookup hlk)
  · omega

/-- The eight paths of `Start`. -/
inductive StartPath (cfg : Cfg) (s : State) (r : Req) : Prop
  /-- no cookie, or a value that is not 24 bytes long -/
  | fresh (h : r.cookie = none ∨ r.cookieLen ≠ 24)
  /-- the look-up failed -/
  | err (id : ID) (s1 : State) (e1 : List Ev) (hc : r.cookie = some id) (hl : r.cookieLen = 24)
      (hg : cacheGet cfg s id = (s1, .err, e1))
  /-- nothing found under the presented id -/
  | nil (id : ID) (s1 : State) (e1 : List Ev) (hc : r.cookie = some id) (hl : r.cookieLen = 24)
      (hg : cacheGet cfg s id = (s1, .nil, e1))
  /-- found, but stale or anomalous -/
  | invalid (id : ID) (s1 : State) (h0 : Nat) (e1 : List Ev) (hc : r.cookie = some id) (hl : r.cookieLen = 24)
      (hg : cacheGet cfg s id = (s1, .some h0, e1)) (hv : validFor cfg s1.now (s1.obj h0) r = false)
  /-- valid session whose id is due for rotation -/
  | rotate (id : ID) (s1 : State) (h0 : Nat) (e1 : List Ev) (hc : r.cookie = some id) (hl : r.cookieLen = 24)
      (hg : cacheGet cfg s id = (s1, .some h0, e1)) (hv : validFor cfg s1.now (s1.obj h0) r = true)
      (href : (s1.obj h0).ref = none) (hage : since s1.now (s1.obj h0).created ≥ cfg.idExpiry)
  /-- valid session with a young id -/
  | young (id : ID) (s1 : State) (h0 : Nat) (e1 : List Ev) (hc : r.cookie = some id) (hl : r.cookieLen = 24)
      (hg : cacheGet cfg s id = (s1, .some h0, e1)) (hv : validFor cfg s1.now (s1.obj h0) r = true)
      (href : (s1.obj h0).ref = none) (hage : since s1.now (s1.obj h0).created < cfg.idExpiry)
  /-- reference record past the grace period -/
  | refExpired (id : ID) (s1 : State) (h0 : Nat) (e1 : List Ev) (t : ID) (hc : r.cookie = some id) (hl : r.cookieLen = 24)
      (hg : cacheGet cfg s id = (s1, .some h0, e1)) (hv : validFor cfg s1.now (s1.obj h0) r = true)
      (href : (s1.obj h0).ref = some t)
      (hage : since s1.now (s1.obj h0).created ≥ cfg.idExpiry ∧ since s1.now (s1.obj h0).created - cfg.idExpiry ≥ cfg.grace)
  /-- reference record within the grace period: the chain is followed -/
  | ref (id : ID) (s1 : State) (h0 : Nat) (e1 : List Ev) (t : ID) (hc : r.cookie = some id) (hl : r.cookieLen = 24)
      (hg : cacheGet cfg s id = (s1, .some h0, e1)) (hv : validFor cfg s1.now (s1.obj h0) r = true)
      (href : (s1.obj h0).ref = some t)
      (hage : ¬ (since s1.now (s1.obj h0).created ≥ cfg.idExpiry ∧ since s1.now (s1.obj h0).created - cfg.idExpiry ≥ cfg.grace))

/-- every call of `Start` takes one of the eight paths -/
theorem start_path (cfg : Cfg) (s : State) (r : Req) : StartPath cfg s r := by
  cases hc : r.cookie with
  | none => exact .fresh (Or.inl hc)
  | some id =>
    by_cases hl : r.cookieLen = 24
    · rcases hg : cacheGet cfg s id with ⟨s1, g, e1⟩
      cases g with
      | err => exact .err id s1 e1 hc hl hg
      | nil => exact .nil id s1 e1 hc hl hg
      | some h0 =>
        cases hv : validFor cfg s1.now (s1.obj h0) r with
        | false => exact .invalid id s1 h0 e1 hc hl hg hv
        | true =>
          cases href : (s1.obj h0).ref with
          | none =>
            by_cases hage : since s1.now (s1.obj h0).created ≥ cfg.idExpiry
            · exact .rotate id s1 h0 e1 hc hl hg hv href hage
            · exact .young id s1 h0 e1 hc hl hg hv href (by omega)
          | some t =>
            by_cases hage : since s1.now (s1.obj h0).created ≥ cfg.idExpiry ∧
                since s1.now (s1.obj h0).created - cfg.idExpiry ≥ cfg.grace
            · exact .refExpired id s1 h0 e1 t hc hl hg hv href hage
            · exact .ref id s1 h0 e1 t hc hl hg hv href hage
    · exact .fresh (Or.inr hl)

section paths
variable {cfg : Cfg} {s s1 : State} {r : Req} {id : ID} {h0 : Nat} {e1 : List Ev}

/-- no presented 24-byte id: `[]` or `[setCookie (gen s.nextId)]` -/
theorem start_fresh_out (h : r.cookie = none ∨ r.cookieLen ≠ 24) : NewOut s.nextId [] (start cfg s r) := by
  have : start cfg s r = createNew cfg s r [] := by
    rcases h with h | h
    · exact start_none h
    · exact start_len h
  rw [this]; exact createNew_out cfg s r []

/-- the look-up failed: no cookie at all -/
theorem start_err_out (hc : r.cookie = some id) (hl : r.cookieLen = 24) (hg : cacheGet cfg s id = (s1, .err, e1)) :
    (start cfg s r).2.1 = .err "get" ∧ cookieEvs (start cfg s r).2.2 = [] := by
  rw [start_err hc hl hg]; exact ⟨rfl, cacheGet_cookieEvs' hg⟩

/-- nothing found: `[delCookie]` or `[delCookie, setCookie (gen s.nextId)]` -/
theorem start_nil_out (hc : r.cookie = some id) (hl : r.cookieLen = 24) (hg : cacheGet cfg s id = (s1, .nil, e1)) :
    NewOut s.nextId [.delCookie] (start cfg s r) := by
  rw [start_miss hc hl hg]
  have := createNew_out cfg s1 r (e1 ++ [.delCookie])
  rwa [cacheGet_nextId' hg, cookieEvs_append, cacheGet_cookieEvs' hg] at this

/-- found but invalid: `[]` (the delete failed), `[delCookie]` or `[delCookie, setCookie (gen s.nextId)]` -/
theorem start_invalid_out (hc : r.cookie = some id) (hl : r.cookieLen = 24) (hg : cacheGet cfg s id = (s1, .some h0, e1))
    (hv : validFor cfg s1.now (s1.obj h0) r = false) :
    ((start cfg s r).2.1 = .err "destroy" ∧ cookieEvs (start cfg s r).2.2 = []) ∨
      NewOut s.nextId [.delCookie] (start cfg s r) := by
  rw [start_invalid hc hl hg hv]
  unfold startInvalid
  have hD := cookieEvs_destroy s1 h0
  by_cases hok : (destroy s1 h0 true).2.1 = false
  · rw [if_pos hok]; left
    rw [hok] at hD
    exact ⟨rfl, by simp [cacheGet_cookieEvs' hg, hD]⟩
  · rw [if_neg hok]; right
    have hok' : (destroy s1 h0 true).2.1 = true := by simpa using hok
    rw [hok'] at hD
    have := createNew_out cfg (destroy s1 h0 true).1 r (e1 ++ (destroy s1 h0 true).2.2)
    rwa [(destroy_fr s1 h0 true).nextId, cacheGet_nextId' hg, cookieEvs_append, cacheGet_cookieEvs' hg, hD] at this

/-- rotation: `[]` (error) or `[setCookie (gen s.nextId)]`; the returned object carries that id when its handle is valid -/
theorem start_rotate_out (hc : r.cookie = some id) (hl : r.cookieLen = 24) (hg : cacheGet cfg s id = (s1, .some h0, e1))
    (hv : validFor cfg s1.now (s1.obj h0) r = true) (href : (s1.obj h0).ref = none)
    (hage : since s1.now (s1.obj h0).created ≥ cfg.idExpiry) :
    ((start cfg s r).2.1 = .err "regenerate" ∧ cookieEvs (start cfg s r).2.2 = []) ∨
      ((start cfg s r).2.1 = .sess h0 ∧ cookieEvs (start cfg s r).2.2 = [.setCookie (.gen s.nextId)] ∧
        (h0 < s1.heap.length → ((start cfg s r).1.obj h0).id = .gen s.nextId)) := by
  have hn := cacheGet_nextId' hg
  have he1 := cacheGet_cookieEvs' hg
  have hR := cookieEvs_regenerate cfg s1 h0
  rw [start_valid hc hl hg hv, startValid_rotate id r e1 href hage]
  by_cases hok : (regenerate cfg s1 h0).2.1 = false
  · rw [if_pos hok]; left
    rw [hok] at hR
    exact ⟨rfl, by simp [he1, hR]⟩
  · rw [if_neg hok]; right
    have hok' : (regenerate cfg s1 h0).2.1 = true := by simpa using hok
    rw [hok', hn] at hR
    refine ⟨rfl, by simp [he1, hR], ?_⟩
    intro hvld
    show ((touch (regenerate cfg s1 h0).1 h0 r).obj h0).id = _
    rw [(touch_obj_keep _ h0 h0 r).1, regenerate_obj_id cfg hvld, hn]

/-- young id: no cookie, the found object is returned -/
theorem start_young_out (hc : r.cookie = some id) (hl : r.cookieLen = 24) (hg : cacheGet cfg s id = (s1, .some h0, e1))
    (hv : validFor cfg s1.now (s1.obj h0) r = true) (href : (s1.obj h0).ref = none)
    (hage : since s1.now (s1.obj h0).created < cfg.idExpiry) :
    (start cfg s r).2.1 = .sess h0 ∧ cookieEvs (start cfg s r).2.2 = [] ∧
      ((start cfg s r).1.obj h0).id = (s1.obj h0).id := by
  rw [start_valid hc hl hg hv, startValid_young id r e1 href hage]
  exact ⟨rfl, cacheGet_cookieEvs' hg, (touch_obj_keep s1 h0 h0 r).1⟩

/-- expired reference: an error and no cookie -/
theorem start_ref_expired_out {t : ID} (hc : r.cookie = some id) (hl : r.cookieLen = 24)
    (hg : cacheGet cfg s id = (s1, .some h0, e1)) (hv : validFor cfg s1.now (s1.obj h0) r = true)
    (href : (s1.obj h0).ref = some t)
    (hage : since s1.now (s1.obj h0).created ≥ cfg.idExpiry ∧ since s1.now (s1.obj h0).created - cfg.idExpiry ≥ cfg.grace) :
    ((start cfg s r).2.1 = .err "delexpired" ∨ (start cfg s r).2.1 = .err "idexpired") ∧
      cookieEvs (start cfg s r).2.2 = [] := by
  have hD := cookieEvs_cacheDelete s1 id
  rw [start_valid hc hl hg hv, startValid_ref_expired id r e1 href hage]
  split
  · exact ⟨Or.inl rfl, by simp [cacheGet_cookieEvs' hg, hD]⟩
  · exact ⟨Or.inr rfl, by simp [cacheGet_cookieEvs' hg, hD]⟩

/-- reference within the grace period: `[]` (error) or `[setCookie i]` with `i` the id of the object at the end
of the chain, which is the one returned -/
theorem start_ref_out {t : ID} (hc : r.cookie = some id) (hl : r.cookieLen = 24)
    (hg : cacheGet cfg s id = (s1, .some h0, e1)) (hv : validFor cfg s1.now (s1.obj h0) r = true)
    (href : (s1.obj h0).ref = some t)
    (hage : ¬ (since s1.now (s1.obj h0).created ≥ cfg.idExpiry ∧ since s1.now (s1.obj h0).created - cfg.idExpiry ≥ cfg.grace)) :
    (((start cfg s r).2.1 = .err "refget" ∨ (start cfg s r).2.1 = .err "refmissing") ∧
        cookieEvs (start cfg s r).2.2 = []) ∨
      (∃ h2, (follow cfg (s1.store.length + s1.cache.length + 1) s1 h0).2.1 = .some h2 ∧
        (start cfg s r).2.1 = .sess h2 ∧
        cookieEvs (start cfg s r).2.2 = [.setCookie ((follow cfg (s1.store.length + s1.cache.length + 1) s1 h0).1.obj h2).id] ∧
        ((start cfg s r).1.obj h2).id = ((follow cfg (s1.store.length + s1.cache.length + 1) s1 h0).1.obj h2).id) := by
  have hF := cookieEvs_follow cfg (s1.store.length + s1.cache.length + 1) s1 h0
  have he1 := cacheGet_cookieEvs' hg
  rw [start_valid hc hl hg hv, startValid_ref id r e1 href hage]
  rcases hX : follow cfg (s1.store.length + s1.cache.length + 1) s1 h0 with ⟨s2, g2, e2⟩
  rw [hX] at hF
  have hF' : cookieEvs e2 = [] := hF
  cases g2 with
  | err => left; exact ⟨Or.inl rfl, by simp [startRef, he1, hF']⟩
  | nil => left; exact ⟨Or.inr rfl, by simp [startRef, he1, hF']⟩
  | some h2 =>
    right
    exact ⟨h2, rfl, rfl, by simp [startRef, he1, hF'], (touch_obj_keep s2 h2 h2 r).1⟩

end paths

/-! ### consequences of `NewOut` -/

theorem NewOut.shape_nil {n : Nat} {out : State × Res × List Ev} (h : NewOut n [] out) :
    cookieEvs out.2.2 = [] ∨ cookieEvs out.2.2 = [.setCookie (.gen n)] := by
  rcases h with ⟨_, h⟩ | ⟨_, h⟩ | ⟨_, _, h, _⟩
  · exact Or.inl h
  · exact Or.inl h
  · exact Or.inr (by simpa using h)

theorem NewOut.shape_del {n : Nat} {out : State × Res × List Ev} (h : NewOut n [.delCookie] out) :
    cookieEvs out.2.2 = [.delCookie] ∨ cookieEvs out.2.2 = [.delCookie, .setCookie (.gen n)] := by
  rcases h with ⟨_, h⟩ | ⟨_, h⟩ | ⟨_, _, h, _⟩
  · exact Or.inl h
  · exact Or.inl h
  · exact Or.inr (by simpa using h)

theorem NewOut.of_nil {n : Nat} {c0 : List Ev} {out : State × Res × List Ev} (h : NewOut n c0 out)
    (hres : out.2.1 = .nil) : cookieEvs out.2.2 = c0 := by
  rcases h with ⟨_, h⟩ | ⟨h1, _⟩ | ⟨_, h1, _, _⟩
  · exact h
  · rw [h1] at hres; cases hres
  · rw [h1] at hres; cases hres

theorem NewOut.of_err {n : Nat} {c0 : List Ev} {out : State × Res × List Ev} {m : String} (h : NewOut n c0 out)
    (hres : out.2.1 = .err m) : cookieEvs out.2.2 = c0 := by
  rcases h with ⟨h1, _⟩ | ⟨_, h⟩ | ⟨_, h1, _, _⟩
  · rw [h1] at hres; cases hres
  · exact h
  · rw [h1] at hres; cases hres

/-- when `createNew` returns a session: its id is the minted one, and the cookie of that id is sent (last) -/
theorem NewOut.of_sess {n : Nat} {c0 : List Ev} {out : State × Res × List Ev} {h : Nat} (hN : NewOut n c0 out)
    (hres : out.2.1 = .sess h) :
    (out.1.obj h).id = .gen n ∧ cookieEvs out.2.2 = c0 ++ [.setCookie (.gen n)] := by
  rcases hN with ⟨h1, _⟩ | ⟨h1, _⟩ | ⟨h', h1, h2, h3⟩
  · rw [h1] at hres; cases hres
  · rw [h1] at hres; cases hres
  · rw [h1] at hres
    simp only [Res.sess.injEq] at hres
    subst hres
    exact ⟨h3, h2⟩

/-! ### concrete states for the non-vacuity examples -/

private def xCfg : Cfg := { acceptUA := true }
/-- ids are rotated at once -/
private def xCfgRot : Cfg := { acceptUA := true, idExpiry := 0 }
/-- sessions are stale at once -/
private def xCfgStale : Cfg := { acceptUA := true, sessionExpiry := 0 }
/-- reference records expire at once -/
private def xCfgNoGrace : Cfg := { acceptUA := true, idExpiry := 0, grace := 0 }
private def xA : ID := .lit "A"
private def xB : ID := .lit "B"
/-- a request presenting the 24-byte cookie `id` -/
private def xReq (id : ID) (create : Bool := true) : Req := { cookie := some id, cookieLen := 24, create := create }
private def xObj (id : ID) (ref : Option ID := none) : Sess := { id := id, created := 0, lastAccess := 0, ref := ref }
/-- nothing cached, nothing stored -/
private def xS0 : State := { nextId := 3 }
/-- one cached proper session under "A" -/
private def xS1 : State := { heap := [xObj xA], cache := [(xA, 0)], nextId := 3 }
/-- the same, with a fault oracle -/
private def xS1f (f : List Bool) : State := { heap := [xObj xA], cache := [(xA, 0)], nextId := 3, fails := f }
/-- a reference record under "A" pointing to the cached session "B" -/
private def xSref : State := { heap := [xObj xA (some xB), xObj xB], cache := [(xA, 0), (xB, 1)], nextId := 3 }

private theorem xS0_hcv : ∀ k x, (k, x) ∈ xS0.cache → x < xS0.heap.length := by
  intro k x h
  simp [xS0] at h

private theorem xS1_hcv : ∀ k x, (k, x) ∈ xS1.cache → x < xS1.heap.length := by
  intro k x h
  simp [xS1] at h
  simp [xS1, h.2]

private theorem xSref_hcv : ∀ k x, (k, x) ∈ xSref.cache → x < xSref.heap.length := by
  intro k x h
  simp [xSref] at h
  rcases h with h | h <;> simp [xSref, h.2]

/-! ## (a) the shapes -/

/-- **C18 (a).** The cookie events of one `Start`, whatever the state, the request and the oracles:
nothing, one live cookie, the deletion cookie, or the deletion cookie followed by one live cookie.
So at most one `setCookie`, at most one `delCookie`, and never a `delCookie` after a `setCookie`.
The per-path refinements are `start_fresh_out`, `start_err_out`, `start_nil_out`, `start_invalid_out`,
`start_rotate_out`, `start_young_out`, `start_ref_expired_out`, `start_ref_out`. -/
theorem start_cookie_shapes (cfg : Cfg) (s : State) (r : Req) :
    cookieEvs (start cfg s r).2.2 = [] ∨ (∃ i, cookieEvs (start cfg s r).2.2 = [.setCookie i]) ∨
      cookieEvs (start cfg s r).2.2 = [.delCookie] ∨
      (∃ i, cookieEvs (start cfg s r).2.2 = [.delCookie, .setCookie i]) := by
  cases start_path cfg s r with
  | fresh h =>
    rcases (start_fresh_out (cfg := cfg) (s := s) h).shape_nil with h | h
    · exact Or.inl h
    · exact Or.inr (Or.inl ⟨_, h⟩)
  | err id s1 e1 hc hl hg => exact Or.inl (start_err_out hc hl hg).2
  | nil id s1 e1 hc hl hg =>
    rcases (start_nil_out hc hl hg).shape_del with h | h
    · exact Or.inr (Or.inr (Or.inl h))
    · exact Or.inr (Or.inr (Or.inr ⟨_, h⟩))
  | invalid id s1 h0 e1 hc hl hg hv =>
    rcases start_invalid_out hc hl hg hv with ⟨_, h⟩ | hN
    · exact Or.inl h
    · rcases hN.shape_del with h | h
      · exact Or.inr (Or.inr (Or.inl h))
      · exact Or.inr (Or.inr (Or.inr ⟨_, h⟩))
  | rotate id s1 h0 e1 hc hl hg hv href hage =>
    rcases start_rotate_out hc hl hg hv href hage with ⟨_, h⟩ | ⟨_, h, _⟩
    · exact Or.inl h
    · exact Or.inr (Or.inl ⟨_, h⟩)
  | young id s1 h0 e1 hc hl hg hv href hage => exact Or.inl (start_young_out hc hl hg hv href hage).2.1
  | refExpired id s1 h0 e1 t hc hl hg hv href hage => exact Or.inl (start_ref_expired_out hc hl hg hv href hage).2
  | ref id s1 h0 e1 t hc hl hg hv href hage =>
    rcases start_ref_out hc hl hg hv href hage with ⟨_, h⟩ | ⟨_, _, _, h, _⟩
    · exact Or.inl h
    · exact Or.inr (Or.inl ⟨_, h⟩)

/-! Non-vacuity of (a): every shape occurs, and every path is taken. -/
-- no cookie presented
example : cookieEvs (start xCfg {} { create := false }).2.2 = [] := by decide
example : cookieEvs (start xCfg {} { create := true }).2.2 = [.setCookie (.gen 0)] := by decide
-- a cookie that is not 24 bytes long is ignored
example : cookieEvs (start xCfg xS1 { cookie := some xA, cookieLen := 23, create := true }).2.2 = [.setCookie (.gen 3)] := by decide
-- the look-up fails
example : (start xCfg (xS1f [true]) (xReq xB)).2.1 = .err "get" ∧ cookieEvs (start xCfg (xS1f [true]) (xReq xB)).2.2 = [] := by decide
-- nothing found
example : cookieEvs (start xCfg xS0 (xReq xA false)).2.2 = [.delCookie] := by decide
example : cookieEvs (start xCfg xS0 (xReq xA)).2.2 = [.delCookie, .setCookie (.gen 3)] := by decide
-- found but stale: the delete fails / the replacement is created / its creation fails
example : cookieEvs (start xCfgStale (xS1f [true]) (xReq xA)).2.2 = [] := by decide
example : cookieEvs (start xCfgStale xS1 (xReq xA)).2.2 = [.delCookie, .setCookie (.gen 3)] := by decide
example : (start xCfgStale (xS1f [false, true]) (xReq xA)).2.1 = .err "create" ∧
    cookieEvs (start xCfgStale (xS1f [false, true]) (xReq xA)).2.2 = [.delCookie] := by decide
-- valid: rotation (failed / done), young id, reference (followed / expired)
example : cookieEvs (start xCfgRot (xS1f [true]) (xReq xA)).2.2 = [] := by decide
example : cookieEvs (start xCfgRot xS1 (xReq xA)).2.2 = [.setCookie (.gen 3)] := by decide
example : (start xCfg xS1 (xReq xA)).2.1 = .sess 0 ∧ cookieEvs (start xCfg xS1 (xReq xA)).2.2 = [] := by decide
example : (start xCfg xSref (xReq xA)).2.1 = .sess 1 ∧ cookieEvs (start xCfg xSref (xReq xA)).2.2 = [.setCookie xB] := by decide
example : (start xCfgNoGrace xSref (xReq xA)).2.1 = .err "idexpired" ∧
    cookieEvs (start xCfgNoGrace xSref (xReq xA)).2.2 = [] := by decide
-- the path lemmas have satisfiable hypotheses
example : NewOut 3 [.delCookie] (start xCfg xS0 (xReq xA)) := start_nil_out (id := xA) rfl rfl rfl
example : cookieEvs (start xCfgRot xS1 (xReq xA)).2.2 = [.setCookie (.gen 3)] :=
  ((start_rotate_out (id := xA) (s1 := xS1) (h0 := 0) (e1 := []) rfl rfl rfl (by decide) (by decide)
    (by decide)).resolve_left (by decide)).2.1

/-- no presented 24-byte id ⇒ no deletion cookie, and a live cookie only for a created session -/
theorem start_cookies_fresh {cfg : Cfg} {s : State} {r : Req} (h : r.cookie = none ∨ r.cookieLen ≠ 24) :
    cookieEvs (start cfg s r).2.2 = [] ∨ cookieEvs (start cfg s r).2.2 = [.setCookie (.gen s.nextId)] :=
  (start_fresh_out h).shape_nil

/-- When `Start` returns a session for a request that presented a 24-byte id, one of three things happened:
* an id was minted (nothing found + create, invalid + create, rotation): the session carries `gen s.nextId`
  and the last cookie sets it;
* the found proper session is returned as it is, without any cookie;
* the found object was a reference record: exactly one cookie, setting the id of the returned session.

`hcv` (every cached handle is valid) is needed for the rotation path only: with a dangling handle
`setObj` is a no-op and the object read back is the default one, not one carrying the minted id. -/
theorem start_sess_presented {cfg : Cfg} {s s1 : State} {r : Req} {id : ID} {g : GetRes} {e1 : List Ev} {h : Nat}
    (hc : r.cookie = some id) (hl : r.cookieLen = 24) (hg : cacheGet cfg s id = (s1, g, e1))
    (hcv : ∀ k x, (k, x) ∈ s.cache → x < s.heap.length)
    (hres : (start cfg s r).2.1 = .sess h) :
    (((start cfg s r).1.obj h).id = .gen s.nextId ∧
        (cookieEvs (start cfg s r).2.2 = [.setCookie (.gen s.nextId)] ∨
         cookieEvs (start cfg s r).2.2 = [.delCookie, .setCookie (.gen s.nextId)])) ∨
      (g = .some h ∧ (s1.obj h).ref = none ∧ ((start cfg s r).1.obj h).id = (s1.obj h).id ∧
        cookieEvs (start cfg s r).2.2 = []) ∨
      (∃ h0 t, g = .some h0 ∧ (s1.obj h0).ref = some t ∧
        cookieEvs (start cfg s r).2.2 = [.setCookie ((start cfg s r).1.obj h).id]) := by
  cases g with
  | err => rw [(start_err_out hc hl hg).1] at hres; cases hres
  | nil =>
    obtain ⟨h1, h2⟩ := (start_nil_out hc hl hg).of_sess hres
    exact Or.inl ⟨h1, Or.inr (by simpa using h2)⟩
  | some h0 =>
    cases hv : validFor cfg s1.now (s1.obj h0) r with
    | false =>
      rcases start_invalid_out hc hl hg hv with ⟨h1, _⟩ | hN
      · rw [h1] at hres; cases hres
      · obtain ⟨h1, h2⟩ := hN.of_sess hres
        exact Or.inl ⟨h1, Or.inr (by simpa using h2)⟩
    | true =>
      cases href : (s1.obj h0).ref with
      | none =>
        by_cases hage : since s1.now (s1.obj h0).created ≥ cfg.idExpiry
        · rcases start_rotate_out hc hl hg hv href hage with ⟨h1, _⟩ | ⟨h1, h2, h3⟩
          · rw [h1] at hres; cases hres
          · rw [h1] at hres
            simp only [Res.sess.injEq] at hres
            subst hres
            exact Or.inl ⟨h3 (cacheGet_handle_valid hcv hg), Or.inl h2⟩
        · obtain ⟨h1, h2, h3⟩ := start_young_out hc hl hg hv href (by omega)
          rw [h1] at hres
          simp only [Res.sess.injEq] at hres
          subst hres
          exact Or.inr (Or.inl ⟨rfl, href, h3, h2⟩)
      | some t =>
        by_cases hage : since s1.now (s1.obj h0).created ≥ cfg.idExpiry ∧
            since s1.now (s1.obj h0).created - cfg.idExpiry ≥ cfg.grace
        · rcases (start_ref_expired_out hc hl hg hv href hage).1 with h1 | h1 <;>
            (rw [h1] at hres; cases hres)
        · rcases start_ref_out hc hl hg hv href hage with ⟨h1 | h1, _⟩ | ⟨h2, _, h1, h3, h4⟩
          · rw [h1] at hres; cases hres
          · rw [h1] at hres; cases hres
          · rw [h1] at hres
            simp only [Res.sess.injEq] at hres
            subst hres
            exact Or.inr (Or.inr ⟨h0, t, rfl, href, by rw [h3, h4]⟩)

/-- **C18 (a), continued.** Whenever `Start` returns a session, the last cookie event, if there is one, is
the live cookie of that session's id (never the deletion cookie).

`hcv`: every cached handle is valid (`< s.heap.length`). It is only used on the rotation path: `Get`
then returns a valid handle (a cached one, or `s.heap.length` for a freshly loaded object), so that the
object read after `RegenerateID` is the one carrying the minted id. With a dangling cached handle the
statement is false, see the `example` below the theorem. -/
theorem start_sess_last_cookie (cfg : Cfg) (s : State) (r : Req)
    (hcv : ∀ k x, (k, x) ∈ s.cache → x < s.heap.length) {h : Nat} (hres : (start cfg s r).2.1 = .sess h) :
    cookieEvs (start cfg s r).2.2 = [] ∨
      (cookieEvs (start cfg s r).2.2).getLast? = some (.setCookie ((start cfg s r).1.obj h).id) := by
  by_cases hp : r.cookie = none ∨ r.cookieLen ≠ 24
  · obtain ⟨h1, h2⟩ := (start_fresh_out (cfg := cfg) (s := s) hp).of_sess hres
    right; rw [h2, h1]; rfl
  · have hl : r.cookieLen = 24 := by
      by_cases hl : r.cookieLen = 24
      · exact hl
      · exact absurd (Or.inr hl) hp
    cases hc : r.cookie with
    | none => exact absurd (Or.inl hc) hp
    | some id =>
      rcases hg : cacheGet cfg s id with ⟨s1, g, e1⟩
      rcases start_sess_presented hc hl hg hcv hres with ⟨h1, h2 | h2⟩ | ⟨_, _, _, h2⟩ | ⟨_, _, _, _, h2⟩
      · right; rw [h2, h1]; rfl
      · right; rw [h2, h1]; rfl
      · exact Or.inl h2
      · right; rw [h2]; rfl

/-! Non-vacuity of `start_sess_last_cookie` (rotation path), and why `hcv` is needed: with the dangling cached
handle 5 the default object (id `""`) is "found", rotated and returned; the cookie carries `gen 0`, the
returned object still reads `""`. -/
example : (cookieEvs (start xCfgRot xS1 (xReq xA)).2.2).getLast? =
    some (.setCookie ((start xCfgRot xS1 (xReq xA)).1.obj 0).id) :=
  (start_sess_last_cookie _ _ _ xS1_hcv (h := 0) (by decide)).resolve_left (by decide)
example : (start xCfgRot { cache := [(.lit "", 5)] } (xReq (.lit ""))).2.1 = .sess 5 ∧
    ¬ (cookieEvs (start xCfgRot { cache := [(.lit "", 5)] } (xReq (.lit ""))).2.2 = [] ∨
       (cookieEvs (start xCfgRot { cache := [(.lit "", 5)] } (xReq (.lit ""))).2.2).getLast? =
         some (.setCookie ((start xCfgRot { cache := [(.lit "", 5)] } (xReq (.lit ""))).1.obj 5).id)) := by decide

/-! ## (b) a cookie is sent only when the id changes -/

/-- **C18 (b), the unconditional form.** A 24-byte id was presented, `Start` returns a session carrying that
very id: then no cookie was sent — or the found object was a reference record and the one cookie sent
re-sets the presented id.

* `hid`: a presented minted id is older than the id counter (minted ids are fresh). Without it the id minted
  by this very call may coincide with the presented one (see the `example` below).
* `hcv`: cached handles are valid, as in `start_sess_last_cookie` (rotation path). -/
theorem c18_same_id_cookie_cases {cfg : Cfg} {s s1 : State} {r : Req} {id : ID} {g : GetRes} {e1 : List Ev} {h : Nat}
    (hc : r.cookie = some id) (hl : r.cookieLen = 24) (hg : cacheGet cfg s id = (s1, g, e1))
    (hid : ∀ n, id = .gen n → n < s.nextId)
    (hcv : ∀ k x, (k, x) ∈ s.cache → x < s.heap.length)
    (hres : (start cfg s r).2.1 = .sess h) (hsame : ((start cfg s r).1.obj h).id = id) :
    cookieEvs (start cfg s r).2.2 = [] ∨
      (∃ h0 t, g = .some h0 ∧ (s1.obj h0).ref = some t ∧ cookieEvs (start cfg s r).2.2 = [.setCookie id]) := by
  rcases start_sess_presented hc hl hg hcv hres with ⟨h1, _⟩ | ⟨_, _, _, h2⟩ | ⟨h0, t, h1, h2, h3⟩
  · rw [hsame] at h1
    exact absurd (hid _ h1) (Nat.lt_irrefl _)
  · exact Or.inl h2
  · exact Or.inr ⟨h0, t, h1, h2, by rw [h3, hsame]⟩

/-- **C18 (b): same id ⇒ no cookie.** A 24-byte id was presented and `Start` returns a session carrying that
very id: no cookie is sent.

* `hid`, `hcv`: as in `c18_same_id_cookie_cases`.
* `hend`: if the found object is a reference record, the session at the end of the chain (the one `Start`
  returns) does not carry the presented id. It is stated on the result of the call, which is the form a
  global invariant delivers directly; it amounts to restricting this theorem to found objects that are not
  reference records, and `c18_same_id_cookie_cases` says exactly what happens otherwise (one cookie
  re-setting the presented id). In an arbitrary state the chain may lead back to an object carrying the
  presented id (see the `example` below), which is why the hypothesis cannot be dropped. -/
theorem c18_same_id_no_cookie {cfg : Cfg} {s s1 : State} {r : Req} {id : ID} {g : GetRes} {e1 : List Ev} {h : Nat}
    (hc : r.cookie = some id) (hl : r.cookieLen = 24) (hg : cacheGet cfg s id = (s1, g, e1))
    (hid : ∀ n, id = .gen n → n < s.nextId)
    (hcv : ∀ k x, (k, x) ∈ s.cache → x < s.heap.length)
    (hend : ∀ h0 t, g = .some h0 → (s1.obj h0).ref = some t →
      ∀ h2, (start cfg s r).2.1 = .sess h2 → ((start cfg s r).1.obj h2).id ≠ id)
    (hres : (start cfg s r).2.1 = .sess h) (hsame : ((start cfg s r).1.obj h).id = id) :
    cookieEvs (start cfg s r).2.2 = [] := by
  rcases c18_same_id_cookie_cases hc hl hg hid hcv hres hsame with h1 | ⟨h0, t, h1, h2, _⟩
  · exact h1
  · exact absurd hsame (hend h0 t h1 h2 h hres)

/-! Non-vacuity of `c18_same_id_no_cookie` (young valid session), and the three hypotheses:
* without `hid`: the presented id `gen 0` is unknown and is the very id minted for the replacement session;
* without `hcv`: the dangling-handle state above, the presented id `""` is "kept" but a cookie is sent;
* without `hend`: the reference record under "A" points to "B", but the object cached under "B" carries "A". -/
example : cookieEvs (start xCfg xS1 (xReq xA)).2.2 = [] :=
  c18_same_id_no_cookie (id := xA) (s1 := xS1) (g := .some 0) (e1 := []) rfl rfl rfl
    (by intro n h; cases h) xS1_hcv (by intro h0 t hg hr; cases hg; cases hr) (h := 0) (by decide) (by decide)
example : (start xCfg {} (xReq (.gen 0))).2.1 = .sess 0 ∧ ((start xCfg {} (xReq (.gen 0))).1.obj 0).id = .gen 0 ∧
    cookieEvs (start xCfg {} (xReq (.gen 0))).2.2 = [.delCookie, .setCookie (.gen 0)] := by decide
example : (start xCfgRot { cache := [(.lit "", 5)] } (xReq (.lit ""))).2.1 = .sess 5 ∧
    ((start xCfgRot { cache := [(.lit "", 5)] } (xReq (.lit ""))).1.obj 5).id = .lit "" ∧
    cookieEvs (start xCfgRot { cache := [(.lit "", 5)] } (xReq (.lit ""))).2.2 = [.setCookie (.gen 0)] := by decide
example : (start xCfg { xSref with heap := [xObj xA (some xB), xObj xA] } (xReq xA)).2.1 = .sess 1 ∧
    ((start xCfg { xSref with heap := [xObj xA (some xB), xObj xA] } (xReq xA)).1.obj 1).id = xA ∧
    cookieEvs (start xCfg { xSref with heap := [xObj xA (some xB), xObj xA] } (xReq xA)).2.2 = [.setCookie xA] := by decide

/-- **C18 (b): changed id ⇒ cookie.** A 24-byte id was presented and `Start` returns a session with another id:
the last cookie sent is the live cookie of that id.

* `hkey`: the object found under the presented id carries that id (an object's id is its cache key; a loaded
  object always does, see `GetSpec.some_valid`). Without it a young valid session is returned as it is, with
  "another" id and no cookie (see the `example` below).
* `hcv`: cached handles are valid (rotation path), as in `start_sess_last_cookie`. -/
theorem c18_changed_id_cookie {cfg : Cfg} {s s1 : State} {r : Req} {id : ID} {g : GetRes} {e1 : List Ev} {h : Nat}
    (hc : r.cookie = some id) (hl : r.cookieLen = 24) (hg : cacheGet cfg s id = (s1, g, e1))
    (hkey : ∀ h0, g = .some h0 → (s1.obj h0).id = id)
    (hcv : ∀ k x, (k, x) ∈ s.cache → x < s.heap.length)
    (hres : (start cfg s r).2.1 = .sess h) (hne : ((start cfg s r).1.obj h).id ≠ id) :
    (cookieEvs (start cfg s r).2.2).getLast? = some (.setCookie ((start cfg s r).1.obj h).id) := by
  rcases start_sess_presented hc hl hg hcv hres with ⟨h1, h2 | h2⟩ | ⟨h1, _, h2, _⟩ | ⟨_, _, _, _, h2⟩
  · rw [h2, h1]; rfl
  · rw [h2, h1]; rfl
  · exact absurd (h2.trans (hkey h h1)) hne
  · rw [h2]; rfl

/-! Non-vacuity of `c18_changed_id_cookie` (reference path; nothing found + create), and `hkey`: the object
cached under "A" carries "B"; it is returned as it is, without a cookie. -/
example : (cookieEvs (start xCfg xSref (xReq xA)).2.2).getLast? = some (.setCookie xB) :=
  c18_changed_id_cookie (id := xA) (s1 := xSref) (g := .some 0) (e1 := []) rfl rfl rfl
    (by intro h0 hg; cases hg; rfl) xSref_hcv (h := 1) (by decide) (by decide)
example : (cookieEvs (start xCfg xS0 (xReq xA)).2.2).getLast? = some (.setCookie (.gen 3)) :=
  c18_changed_id_cookie (id := xA) (g := .nil) rfl rfl rfl
    (by intro h0 hg; cases hg) xS0_hcv (h := 0) (by decide) (by decide)
example : (start xCfg { xS1 with heap := [xObj xB] } (xReq xA)).2.1 = .sess 0 ∧
    ((start xCfg { xS1 with heap := [xObj xB] } (xReq xA)).1.obj 0).id = xB ∧
    cookieEvs (start xCfg { xS1 with heap := [xObj xB] } (xReq xA)).2.2 = [] := by decide

/-- **C18 (b): no (usable) cookie presented.** A session returned for a request without a 24-byte cookie is a
new one, and exactly the live cookie of its id is sent. -/
theorem c18_no_cookie_presented {cfg : Cfg} {s : State} {r : Req} {h : Nat}
    (hp : r.cookie = none ∨ r.cookieLen ≠ 24) (hres : (start cfg s r).2.1 = .sess h) :
    cookieEvs (start cfg s r).2.2 = [.setCookie ((start cfg s r).1.obj h).id] := by
  obtain ⟨h1, h2⟩ := (start_fresh_out (cfg := cfg) (s := s) hp).of_sess hres
  rw [h2, h1]; rfl

example : cookieEvs (start xCfg {} { create := true }).2.2 = [.setCookie (.gen 0)] :=
  c18_no_cookie_presented (h := 0) (Or.inl rfl) (by decide)

/-! ## (c) the deletion cookie -/

/-- **C18 (c).** The deletion cookie is only sent when a 24-byte id was presented and looked up, and the
look-up found nothing or found an object that failed the validity test. -/
theorem c18_deletion_only_when_looked_up (cfg : Cfg) (s : State) (r : Req)
    (hdel : Ev.delCookie ∈ (start cfg s r).2.2) :
    ∃ id, r.cookie = some id ∧ r.cookieLen = 24 ∧
      ((cacheGet cfg s id).2.1 = .nil ∨
        ∃ h, (cacheGet cfg s id).2.1 = .some h ∧
          validFor cfg (cacheGet cfg s id).1.now ((cacheGet cfg s id).1.obj h) r = false) := by
  rw [← delCookie_mem_cookieEvs] at hdel
  cases start_path cfg s r with
  | fresh h => rcases (start_fresh_out (cfg := cfg) (s := s) h).shape_nil with h | h <;> simp [h] at hdel
  | err id s1 e1 hc hl hg => simp [(start_err_out hc hl hg).2] at hdel
  | nil id s1 e1 hc hl hg => exact ⟨id, hc, hl, Or.inl (by rw [hg])⟩
  | invalid id s1 h0 e1 hc hl hg hv => exact ⟨id, hc, hl, Or.inr ⟨h0, by rw [hg], by rw [hg]; exact hv⟩⟩
  | rotate id s1 h0 e1 hc hl hg hv href hage =>
    rcases start_rotate_out hc hl hg hv href hage with ⟨_, h⟩ | ⟨_, h, _⟩ <;> simp [h] at hdel
  | young id s1 h0 e1 hc hl hg hv href hage => simp [(start_young_out hc hl hg hv href hage).2.1] at hdel
  | refExpired id s1 h0 e1 t hc hl hg hv href hage => simp [(start_ref_expired_out hc hl hg hv href hage).2] at hdel
  | ref id s1 h0 e1 t hc hl hg hv href hage =>
    rcases start_ref_out hc hl hg hv href hage with ⟨_, h⟩ | ⟨_, _, _, h, _⟩ <;> simp [h] at hdel

/-- converse of (c) for the first case: when nothing is found the deletion cookie is always sent -/
theorem c18_deletion_when_nil {cfg : Cfg} {s : State} {r : Req} {id : ID}
    (hc : r.cookie = some id) (hl : r.cookieLen = 24) (hg : (cacheGet cfg s id).2.1 = .nil) :
    Ev.delCookie ∈ (start cfg s r).2.2 := by
  rcases hG : cacheGet cfg s id with ⟨s1, g, e1⟩
  rw [hG] at hg
  have hg' : g = .nil := hg
  subst hg'
  rw [← delCookie_mem_cookieEvs]
  rcases (start_nil_out hc hl hG).shape_del with h | h <;> simp [h]

/-! Non-vacuity of (c): the deletion cookie is sent when nothing is found, and when a stale session is found. -/
example : ∃ id, (xReq xA).cookie = some id ∧ (xReq xA).cookieLen = 24 ∧
      ((cacheGet xCfg xS0 id).2.1 = .nil ∨
        ∃ h, (cacheGet xCfg xS0 id).2.1 = .some h ∧
          validFor xCfg (cacheGet xCfg xS0 id).1.now ((cacheGet xCfg xS0 id).1.obj h) (xReq xA) = false) :=
  c18_deletion_only_when_looked_up xCfg xS0 (xReq xA) (by decide)
example : Ev.delCookie ∈ (start xCfgStale xS1 (xReq xA)).2.2 ∧ (cacheGet xCfgStale xS1 xA).2.1 = .some 0 ∧
    validFor xCfgStale (cacheGet xCfgStale xS1 xA).1.now ((cacheGet xCfgStale xS1 xA).1.obj 0) (xReq xA) = false := by decide
example : Ev.delCookie ∈ (start xCfg xS0 (xReq xA false)).2.2 := c18_deletion_when_nil (id := xA) rfl rfl (by decide)

/-! ## (d) the jar -/

/-- **C18 (d), session returned.** With a live cookie template, the browser's jar after a `Start` that returned
a session: unchanged when no cookie was sent, otherwise the id of the returned session.
`hcv` as in `start_sess_last_cookie`. -/
theorem start_jar_sess (cfg : Cfg) (s : State) (r : Req) (ck : CookieCfg) (jar : Option ID)
    (hcv : ∀ k x, (k, x) ∈ s.cache → x < s.heap.length) {h : Nat}
    (hres : (start cfg s r).2.1 = .sess h) (hd : ck.dead = false) :
    applyCookies ck jar (start cfg s r).2.2 =
      if cookieEvs (start cfg s r).2.2 = [] then jar else some ((start cfg s r).1.obj h).id := by
  rcases start_sess_last_cookie cfg s r hcv hres with h0 | hlast
  · rw [if_pos h0]; exact applyCookies_no_cookie h0
  · have hne : cookieEvs (start cfg s r).2.2 ≠ [] := by
      intro h0; rw [h0] at hlast; simp at hlast
    rw [if_neg hne]
    obtain ⟨pre, hpre⟩ := List.getLast?_eq_some_iff.1 hlast
    exact applyCookies_last_set hpre hd

/-- **C18 (d), `nil` returned** (whatever the cookie template): either no 24-byte id was presented, no cookie is
sent and the jar is unchanged; or one was presented, exactly the deletion cookie is sent and the jar is emptied. -/
theorem start_jar_nil (cfg : Cfg) (s : State) (r : Req) (ck : CookieCfg) (jar : Option ID)
    (hres : (start cfg s r).2.1 = .nil) :
    ((r.cookie = none ∨ r.cookieLen ≠ 24) ∧ cookieEvs (start cfg s r).2.2 = [] ∧
        applyCookies ck jar (start cfg s r).2.2 = jar) ∨
      ((∃ id, r.cookie = some id ∧ r.cookieLen = 24) ∧ cookieEvs (start cfg s r).2.2 = [.delCookie] ∧
        applyCookies ck jar (start cfg s r).2.2 = none) := by
  have hdel : ∀ {evs : List Ev}, cookieEvs evs = [.delCookie] → applyCookies ck jar evs = none :=
    fun h => applyCookies_last_del (pre := []) h
  cases start_path cfg s r with
  | fresh h =>
    have h0 := (start_fresh_out (cfg := cfg) (s := s) h).of_nil hres
    exact Or.inl ⟨h, h0, applyCookies_no_cookie h0⟩
  | err id s1 e1 hc hl hg => rw [(start_err_out hc hl hg).1] at hres; cases hres
  | nil id s1 e1 hc hl hg =>
    have h0 := (start_nil_out hc hl hg).of_nil hres
    exact Or.inr ⟨⟨id, hc, hl⟩, h0, hdel h0⟩
  | invalid id s1 h0 e1 hc hl hg hv =>
    rcases start_invalid_out hc hl hg hv with ⟨h1, _⟩ | hN
    · rw [h1] at hres; cases hres
    · have h0 := hN.of_nil hres
      exact Or.inr ⟨⟨id, hc, hl⟩, h0, hdel h0⟩
  | rotate id s1 h0 e1 hc hl hg hv href hage =>
    rcases start_rotate_out hc hl hg hv href hage with ⟨h1, _⟩ | ⟨h1, _, _⟩ <;> (rw [h1] at hres; cases hres)
  | young id s1 h0 e1 hc hl hg hv href hage =>
    rw [(start_young_out hc hl hg hv href hage).1] at hres; cases hres
  | refExpired id s1 h0 e1 t hc hl hg hv href hage =>
    rcases (start_ref_expired_out hc hl hg hv href hage).1 with h1 | h1 <;> (rw [h1] at hres; cases hres)
  | ref id s1 h0 e1 t hc hl hg hv href hage =>
    rcases start_ref_out hc hl hg hv href hage with ⟨h1 | h1, _⟩ | ⟨_, _, h1, _, _⟩ <;>
      (rw [h1] at hres; cases hres)

/-- **C18 (d), error returned** (whatever the cookie template): no cookie and the jar unchanged, or — when the
creation of the replacement session failed after the deletion cookie was written — exactly the deletion cookie
and an empty jar. -/
theorem start_jar_err (cfg : Cfg) (s : State) (r : Req) (ck : CookieCfg) (jar : Option ID) {m : String}
    (hres : (start cfg s r).2.1 = .err m) :
    (cookieEvs (start cfg s r).2.2 = [] ∧ applyCookies ck jar (start cfg s r).2.2 = jar) ∨
      (m = "create" ∧ (∃ id, r.cookie = some id ∧ r.cookieLen = 24) ∧
        cookieEvs (start cfg s r).2.2 = [.delCookie] ∧ applyCookies ck jar (start cfg s r).2.2 = none) := by
  have hdel : ∀ {evs : List Ev}, cookieEvs evs = [.delCookie] → applyCookies ck jar evs = none :=
    fun h => applyCookies_last_del (pre := []) h
  have hcreate : ∀ {n c0}, NewOut n c0 (start cfg s r) → m = "create" := by
    intro n c0 hN
    rcases hN with ⟨h1, _⟩ | ⟨h1, _⟩ | ⟨_, h1, _, _⟩
    · rw [h1] at hres; cases hres
    · rw [h1] at hres; cases hres; rfl
    · rw [h1] at hres; cases hres
  cases start_path cfg s r with
  | fresh h =>
    have h0 := (start_fresh_out (cfg := cfg) (s := s) h).of_err hres
    exact Or.inl ⟨h0, applyCookies_no_cookie h0⟩
  | err id s1 e1 hc hl hg =>
    have h0 := (start_err_out hc hl hg).2
    exact Or.inl ⟨h0, applyCookies_no_cookie h0⟩
  | nil id s1 e1 hc hl hg =>
    have hN := start_nil_out hc hl hg
    have h0 := hN.of_err hres
    exact Or.inr ⟨hcreate hN, ⟨id, hc, hl⟩, h0, hdel h0⟩
  | invalid id s1 h0 e1 hc hl hg hv =>
    rcases start_invalid_out hc hl hg hv with ⟨_, h0⟩ | hN
    · exact Or.inl ⟨h0, applyCookies_no_cookie h0⟩
    · have h0 := hN.of_err hres
      exact Or.inr ⟨hcreate hN, ⟨id, hc, hl⟩, h0, hdel h0⟩
  | rotate id s1 h0 e1 hc hl hg hv href hage =>
    rcases start_rotate_out hc hl hg hv href hage with ⟨_, h0⟩ | ⟨h1, _, _⟩
    · exact Or.inl ⟨h0, applyCookies_no_cookie h0⟩
    · rw [h1] at hres; cases hres
  | young id s1 h0 e1 hc hl hg hv href hage =>
    rw [(start_young_out hc hl hg hv href hage).1] at hres; cases hres
  | refExpired id s1 h0 e1 t hc hl hg hv href hage =>
    have h0 := (start_ref_expired_out hc hl hg hv href hage).2
    exact Or.inl ⟨h0, applyCookies_no_cookie h0⟩
  | ref id s1 h0 e1 t hc hl hg hv href hage =>
    rcases start_ref_out hc hl hg hv href hage with ⟨_, h0⟩ | ⟨_, _, h1, _, _⟩
    · exact Or.inl ⟨h0, applyCookies_no_cookie h0⟩
    · rw [h1] at hres; cases hres

/-- with a dead cookie template (negative `MaxAge`/`Expires`) any cookie empties the jar, whatever the result -/
theorem start_jar_dead (cfg : Cfg) (s : State) (r : Req) (ck : CookieCfg) (jar : Option ID) (hd : ck.dead = true) :
    applyCookies ck jar (start cfg s r).2.2 = if cookieEvs (start cfg s r).2.2 = [] then jar else none := by
  by_cases h0 : cookieEvs (start cfg s r).2.2 = []
  · rw [if_pos h0]; exact applyCookies_no_cookie h0
  · rw [if_neg h0]; exact applyCookies_dead hd h0

/-! Non-vacuity of (d). -/
example : applyCookies {} (some xA) (start xCfgRot xS1 (xReq xA)).2.2 = some (.gen 3) := by
  rw [start_jar_sess _ _ _ _ _ xS1_hcv (h := 0) (by decide) (by decide)]; decide
example : applyCookies {} (some xA) (start xCfg xS1 (xReq xA)).2.2 = some xA := by
  rw [start_jar_sess _ _ _ _ _ xS1_hcv (h := 0) (by decide) (by decide)]; decide
example : applyCookies {} (some xA) (start xCfg xS0 (xReq xA false)).2.2 = none := by
  rcases start_jar_nil xCfg xS0 (xReq xA false) {} (some xA) (by decide) with ⟨h, _⟩ | ⟨_, _, h⟩
  · exact absurd h (by decide)
  · exact h
example : applyCookies {} (some xA) (start xCfgStale (xS1f [false, true]) (xReq xA)).2.2 = none := by
  rcases start_jar_err xCfgStale (xS1f [false, true]) (xReq xA) {} (some xA) (m := "create") (by decide) with ⟨h, _⟩ | ⟨_, _, _, h⟩
  · exact absurd h (by decide)
  · exact h
example : applyCookies { maxAge := -1 } (some xA) (start xCfgRot xS1 (xReq xA)).2.2 = none := by
  rw [start_jar_dead _ _ _ _ _ (by decide)]; decide

end Sx.Loc
