import Sessions.Proofs.Local.Basics
import Sessions.Proofs.Local.CreateNew
/-!
# C02 — forged cookies (T-local, about one `start cfg s r`)

* `start_only_24`: a request without the cookie, or whose cookie value is not 24 bytes long, never
  reaches the cache or the persistence layer for loading: `Start` just runs `createNew`.
* `c02_forged_step`: a well-formed (24 byte) cookie whose id is neither cached nor stored, fault-free:
  one `LoadSession(id)` answering "not found", the deletion cookie, and — when `createIfNew` — a
  brand-new object under a freshly minted id. Never an existing object.
* `c02_store_untouched`: the records of the store survive; the only writes besides the new record are
  flushes of cached sessions (`compact` inside `sessions.Set`).
-/
namespace Sx.Loc

/-! ## (a) only 24-byte cookies are looked up -/

/-- Without a cookie, or with a value that is not 24 bytes long, `Start` is `createNew` (every state,
every oracle). -/
theorem start_only_24_eq {cfg : Cfg} {s : State} {r : Req} (h : r.cookie = none ∨ r.cookieLen ≠ 24) :
    start cfg s r = createNew cfg s r [] := by
  rcases h with h | h
  · exact start_none h
  · exact start_len h

/-- … and then no event is a load, a failed load or the deletion cookie: every event is a save
(successful or failed) or the cookie carrying the new id. -/
theorem start_only_24_evs {cfg : Cfg} {s : State} {r : Req} (h : r.cookie = none ∨ r.cookieLen ≠ 24) {e : Ev}
    (he : e ∈ (start cfg s r).2.2) :
    (∃ k rc, e = .save k rc) ∨ (∃ k, e = .saveFail k) ∨ e = .setCookie (.gen s.nextId) := by
  rw [start_only_24_eq h] at he
  rcases createNew_evs_cases cfg s r [] he with h1 | h1
  · cases h1
  · exact h1

/-- **C02 (a)**, bundled. -/
theorem start_only_24 {cfg : Cfg} {s : State} {r : Req} (h : r.cookie = none ∨ r.cookieLen ≠ 24) :
    start cfg s r = createNew cfg s r [] ∧
    (∀ k b, Ev.load k b ∉ (start cfg s r).2.2) ∧
    (∀ k, Ev.loadFail k ∉ (start cfg s r).2.2) ∧
    Ev.delCookie ∉ (start cfg s r).2.2 := by
  refine ⟨start_only_24_eq h, ?_, ?_, ?_⟩
  · intro k b he
    rcases start_only_24_evs h he with ⟨_, _, h1⟩ | ⟨_, h1⟩ | h1 <;> cases h1
  · intro k he
    rcases start_only_24_evs h he with ⟨_, _, h1⟩ | ⟨_, h1⟩ | h1 <;> cases h1
  · intro he
    rcases start_only_24_evs h he with ⟨_, _, h1⟩ | ⟨_, h1⟩ | h1 <;> cases h1

/-! ## (b) a forged 24-byte id -/

section forged
variable {cfg : Cfg} {s : State} {r : Req} {id : ID}

/-- a forged id: `Start` asks the store once, expires the cookie and goes on to `createNew` from the
SAME state. -/
theorem c02_forged_eq (hc : r.cookie = some id) (hl : r.cookieLen = 24) (hcache : lookup id s.cache = none)
    (hstore : lookup id s.store = none) (hf : s.fails = []) :
    start cfg s r = createNew cfg s r [.load id false, .delCookie] := by
  rw [start_miss hc hl (cacheGet_miss_nil hcache hstore hf)]; rfl

/-- `createIfNew = false`: nothing changes, nothing is returned. -/
theorem c02_forged_nocreate (hc : r.cookie = some id) (hl : r.cookieLen = 24) (hcache : lookup id s.cache = none)
    (hstore : lookup id s.store = none) (hf : s.fails = []) (hcr : r.create = false) :
    start cfg s r = (s, .nil, [.load id false, .delCookie]) := by
  rw [c02_forged_eq hc hl hcache hstore hf, createNew_no _ hcr]

/-- `createIfNew = true`: the whole outcome. -/
theorem c02_forged_create_eq (hc : r.cookie = some id) (hl : r.cookieLen = 24) (hcache : lookup id s.cache = none)
    (hstore : lookup id s.store = none) (hf : s.fails = []) (hcr : r.create = true) :
    start cfg s r =
      ((newSet cfg s r).1, .sess s.heap.length,
        [.load id false, .delCookie] ++ (setC cfg (newS1 s r) s.heap.length).2 ++
          [.save (.gen s.nextId) (enc cfg.codec (newObj s r)), .setCookie (.gen s.nextId)]) := by
  rw [c02_forged_eq hc hl hcache hstore hf, createNew_yes_nil _ hcr hf]

/-- the returned handle is the new one, and the object behind it is brand new: fresh id, empty data,
no user, not a reference, stamped with the current time and the client of THIS request. -/
theorem c02_forged_create_obj (hc : r.cookie = some id) (hl : r.cookieLen = 24) (hcache : lookup id s.cache = none)
    (hstore : lookup id s.store = none) (hf : s.fails = []) (hcr : r.create = true) :
    (start cfg s r).2.1 = .sess s.heap.length ∧
    ((start cfg s r).1.obj s.heap.length).id = .gen s.nextId ∧
    ((start cfg s r).1.obj s.heap.length).data = some [] ∧
    ((start cfg s r).1.obj s.heap.length).user = none ∧
    ((start cfg s r).1.obj s.heap.length).ref = none ∧
    ((start cfg s r).1.obj s.heap.length).created = s.now ∧
    ((start cfg s r).1.obj s.heap.length).lastAccess = s.now ∧
    ((start cfg s r).1.obj s.heap.length).ip = r.ip ∧
    ((start cfg s r).1.obj s.heap.length).ua = agentHash r.ua := by
  rw [c02_forged_create_eq hc hl hcache hstore hf hcr]
  simp [newSet_obj_new, newObj]

/-- the result is never an object that existed before (whatever `createIfNew`). -/
theorem c02_forged_not_existing (hc : r.cookie = some id) (hl : r.cookieLen = 24) (hcache : lookup id s.cache = none)
    (hstore : lookup id s.store = none) (hf : s.fails = []) {h : Nat} (hv : h < s.heap.length) :
    (start cfg s r).2.1 ≠ .sess h := by
  rw [c02_forged_eq hc hl hcache hstore hf]
  exact createNew_res_ne cfg s r _ hv

/-- old objects are not modified. -/
theorem c02_forged_obj_old (hc : r.cookie = some id) (hl : r.cookieLen = 24) (hcache : lookup id s.cache = none)
    (hstore : lookup id s.store = none) (hf : s.fails = []) {h : Nat} (hv : h < s.heap.length) :
    (start cfg s r).1.obj h = s.obj h := by
  rw [c02_forged_eq hc hl hcache hstore hf]
  exact createNew_obj_old cfg hv r _

/-- the events when `createIfNew = true`: the miss, the deletion cookie, successful flushes of cached
sessions, the save of the new session, its cookie. -/
theorem c02_forged_create_evs (hc : r.cookie = some id) (hl : r.cookieLen = 24) (hcache : lookup id s.cache = none)
    (hstore : lookup id s.store = none) (hf : s.fails = []) (hcr : r.create = true) :
    ∃ ec, (start cfg s r).2.2 =
        [.load id false, .delCookie] ++ ec ++
          [.save (.gen s.nextId) (enc cfg.codec ((start cfg s r).1.obj s.heap.length)), .setCookie (.gen s.nextId)] ∧
      ∀ e ∈ ec, IsFlushOk cfg s.cache (start cfg s r).1.obj e := by
  rw [c02_forged_create_eq hc hl hcache hstore hf hcr]
  refine ⟨(setC cfg (newS1 s r) s.heap.length).2, ?_, newSet_flushes_ok cfg r hf⟩
  simp only [newSet_obj_new]

/-- the events in both cases: exactly one load event, `.load id false`, at the head, then the deletion
cookie; nothing after that is a load, a failed load, a delete or a second deletion cookie. -/
theorem c02_forged_evs (hc : r.cookie = some id) (hl : r.cookieLen = 24) (hcache : lookup id s.cache = none)
    (hstore : lookup id s.store = none) (hf : s.fails = []) :
    ∃ post, (start cfg s r).2.2 = .load id false :: .delCookie :: post ∧
      ∀ e ∈ post, (∃ k rc, e = .save k rc) ∨ e = .setCookie (.gen s.nextId) := by
  cases hcr : r.create with
  | false => rw [c02_forged_nocreate hc hl hcache hstore hf hcr]; exact ⟨[], rfl, by simp⟩
  | true =>
    obtain ⟨ec, h1, h2⟩ := c02_forged_create_evs (cfg := cfg) hc hl hcache hstore hf hcr
    refine ⟨ec ++ [.save (.gen s.nextId) (enc cfg.codec ((start cfg s r).1.obj s.heap.length)), .setCookie (.gen s.nextId)],
      by rw [h1]; simp, ?_⟩
    intro e he
    rcases List.mem_append.1 he with he | he
    · obtain ⟨k, x, _, h⟩ := h2 e he
      exact Or.inl ⟨_, _, h⟩
    · simp only [List.mem_cons, List.not_mem_nil, or_false] at he
      rcases he with he | he
      · exact Or.inl ⟨_, _, he⟩
      · exact Or.inr he

/-- exactly one load event. -/
theorem c02_forged_one_load (hc : r.cookie = some id) (hl : r.cookieLen = 24) (hcache : lookup id s.cache = none)
    (hstore : lookup id s.store = none) (hf : s.fails = []) :
    (start cfg s r).2.2.filter (fun e => match e with | .load _ _ => true | .loadFail _ => true | .loadErr _ => true | _ => false)
      = [.load id false] := by
  obtain ⟨post, h1, h2⟩ := c02_forged_evs (cfg := cfg) hc hl hcache hstore hf
  rw [h1]
  simp only [List.filter_cons, if_true, Bool.false_eq_true, if_false, List.cons.injEq, true_and, List.filter_eq_nil_iff]
  intro e he
  rcases h2 e he with ⟨_, _, h⟩ | h <;> subst h <;> simp

/-- the minted id differs from the forged one as soon as the forged one is not an id of the future. -/
theorem c02_forged_fresh (hid : ∀ n, id = .gen n → n < s.nextId) : ID.gen s.nextId ≠ id := by
  intro h
  exact Nat.lt_irrefl _ (hid s.nextId h.symm)

theorem c02_forged_nextId (hc : r.cookie = some id) (hl : r.cookieLen = 24) (hcache : lookup id s.cache = none)
    (hstore : lookup id s.store = none) (hf : s.fails = []) :
    (start cfg s r).1.nextId = s.nextId + (if r.create then 1 else 0) := by
  rw [c02_forged_eq hc hl hcache hstore hf]; exact createNew_nextId cfg s r _

theorem c02_forged_fails (hc : r.cookie = some id) (hl : r.cookieLen = 24) (hcache : lookup id s.cache = none)
    (hstore : lookup id s.store = none) (hf : s.fails = []) : (start cfg s r).1.fails = [] := by
  rw [c02_forged_eq hc hl hcache hstore hf]; exact createNew_fails_nil r _ hf

/-- the forged id is still unknown afterwards, provided it is not the id minted next (`hid`).
(`lookup id s.cache = none` already says there is no cache entry of key `id` at all, shadowed or not.) -/
theorem c02_forged_still_absent (hc : r.cookie = some id) (hl : r.cookieLen = 24) (hcache : lookup id s.cache = none)
    (hstore : lookup id s.store = none) (hf : s.fails = []) (hid : ∀ n, id = .gen n → n < s.nextId) :
    lookup id (start cfg s r).1.cache = none ∧ lookup id (start cfg s r).1.store = none := by
  rw [c02_forged_eq hc hl hcache hstore hf]
  exact createNew_absent cfg s r _ (Ne.symm (c02_forged_fresh hid)) (lookup_none_iff.1 hcache) hstore

/-- **C02 (b)**, bundled. -/
theorem c02_forged_step (hc : r.cookie = some id) (hl : r.cookieLen = 24) (hcache : lookup id s.cache = none)
    (hstore : lookup id s.store = none) (hf : s.fails = []) :
    (r.create = false → start cfg s r = (s, .nil, [.load id false, .delCookie])) ∧
    (r.create = true →
      (start cfg s r).2.1 = .sess s.heap.length ∧
      ((start cfg s r).1.obj s.heap.length).id = .gen s.nextId ∧
      ((start cfg s r).1.obj s.heap.length).data = some [] ∧
      ((start cfg s r).1.obj s.heap.length).user = none ∧
      ((start cfg s r).1.obj s.heap.length).ref = none ∧
      ((start cfg s r).1.obj s.heap.length).created = s.now ∧
      ((start cfg s r).1.obj s.heap.length).lastAccess = s.now ∧
      ((start cfg s r).1.obj s.heap.length).ip = r.ip ∧
      ((start cfg s r).1.obj s.heap.length).ua = agentHash r.ua ∧
      ∃ ec, (start cfg s r).2.2 =
          [.load id false, .delCookie] ++ ec ++
            [.save (.gen s.nextId) (enc cfg.codec ((start cfg s r).1.obj s.heap.length)), .setCookie (.gen s.nextId)] ∧
        ∀ e ∈ ec, IsFlushOk cfg s.cache (start cfg s r).1.obj e) ∧
    (∀ h, h < s.heap.length → (start cfg s r).2.1 ≠ .sess h) ∧
    (∀ h, h < s.heap.length → (start cfg s r).1.obj h = s.obj h) ∧
    (start cfg s r).2.2.filter (fun e => match e with | .load _ _ => true | .loadFail _ => true | .loadErr _ => true | _ => false)
      = [.load id false] ∧
    ((∀ n, id = .gen n → n < s.nextId) → ID.gen s.nextId ≠ id) ∧
    (start cfg s r).1.nextId = s.nextId + (if r.create then 1 else 0) ∧
    (start cfg s r).1.fails = [] := by
  refine ⟨c02_forged_nocreate hc hl hcache hstore hf, ?_, fun h hv => c02_forged_not_existing hc hl hcache hstore hf hv,
    fun h hv => c02_forged_obj_old hc hl hcache hstore hf hv, c02_forged_one_load hc hl hcache hstore hf,
    c02_forged_fresh, c02_forged_nextId hc hl hcache hstore hf, c02_forged_fails hc hl hcache hstore hf⟩
  intro hcr
  obtain ⟨h1, h2, h3, h4, h5, h6, h7, h8, h9⟩ := c02_forged_create_obj (cfg := cfg) hc hl hcache hstore hf hcr
  exact ⟨h1, h2, h3, h4, h5, h6, h7, h8, h9, c02_forged_create_evs hc hl hcache hstore hf hcr⟩

/-! ## (c) the store is left alone -/

/-- **C02 (c)**: besides the record of the new session, a record either is what it was, or is the flush
of a cached session under its cache key (the encoding of that object as it is afterwards); and no record
disappears. -/
theorem c02_store_untouched (hc : r.cookie = some id) (hl : r.cookieLen = 24) (hcache : lookup id s.cache = none)
    (hstore : lookup id s.store = none) (hf : s.fails = []) :
    (∀ k, k ≠ .gen s.nextId →
      (lookup k (start cfg s r).1.store = lookup k s.store ∨
        ∃ h, (k, h) ∈ s.cache ∧ lookup k (start cfg s r).1.store = some (enc cfg.codec ((start cfg s r).1.obj h)))) ∧
    (∀ k, (lookup k s.store).isSome = true → (lookup k (start cfg s r).1.store).isSome = true) := by
  rw [c02_forged_eq hc hl hcache hstore hf]
  exact ⟨fun k hk => createNew_store_lk cfg s r _ hk, fun k hk => createNew_store_keys cfg s r _ k hk⟩

/-- **C02 (c)** in the pre-state vocabulary: a record other than the new one is unchanged, or is now the
encoding of the session the cache held under that id *before* the request.

Two named hypotheses are needed, both consequences of the global cache invariant:
* `hnodup` — cache keys are distinct. `compact` walks over *entries*; with a shadowed duplicate
  `(k, h₁) :: … (k, h₂)` it may flush the shadowed `h₂` under `k`, which is not `lookup k s.cache`.
* `hvalid` — cached handles are not dangling. The heap only changes by appending the new object at
  index `s.heap.length` (and stamping it); a dangling cached handle equal to `s.heap.length` would
  suddenly denote the NEW object, and its flush would write the new session's fields under an old key
  (see the `example` below `c02_store_untouched'`). -/
theorem c02_store_untouched' (hc : r.cookie = some id) (hl : r.cookieLen = 24) (hcache : lookup id s.cache = none)
    (hstore : lookup id s.store = none) (hf : s.fails = [])
    (hnodup : (s.cache.map (·.1)).Nodup) (hvalid : ∀ k h, (k, h) ∈ s.cache → h < s.heap.length) :
    ∀ k, k ≠ .gen s.nextId →
      (lookup k (start cfg s r).1.store = lookup k s.store ∨
        ∃ h, lookup k s.cache = some h ∧ lookup k (start cfg s r).1.store = some (enc cfg.codec (s.obj h))) := by
  intro k hk
  rcases (c02_store_untouched (cfg := cfg) hc hl hcache hstore hf).1 k hk with h | ⟨x, hx, h⟩
  · exact Or.inl h
  · refine Or.inr ⟨x, lookup_of_mem_nodup hnodup hx, ?_⟩
    rw [h, c02_forged_obj_old hc hl hcache hstore hf (hvalid k x hx)]

end forged

/-! ## examples -/

section examples

/-- the forged cookie value of the examples -/
private def forgedId : ID := .lit "xxxxxxxxxxxxxxxxxxxxxxxx"

/-- one live session `gen 0`, cached (handle 0) and stored -/
private def exState : State :=
  { now := 100,
    heap := [{ id := .gen 0, created := 10, lastAccess := 90, ip := "10.0.0.1:1", data := some [("k", .int 1)] }],
    cache := [(.gen 0, 0)],
    store := [(.gen 0, { created := 10, lastAccess := 90, ip := "10.0.0.1:1", data := some [("k", .int 1)] })],
    nextId := 1 }

private def exReq : Req := { cookie := some forgedId, cookieLen := 24, ip := "6.6.6.6:6", ua := "", create := true }

/-- (a) non-vacuity: a 5-byte cookie is not looked up. -/
example : (start {} exState { cookie := some (.lit "short"), cookieLen := 5, create := true }).2.2 =
    [.save (.gen 1) { created := 100, lastAccess := 100 }, .setCookie (.gen 1)] := by decide

example : Ev.delCookie ∉ (start {} exState { cookie := some (.lit "short"), cookieLen := 5, create := true }).2.2 :=
  (start_only_24 (Or.inr (by decide))).2.2.2

/-- (b) non-vacuity: the hypotheses of `c02_forged_step` hold of `exState`/`exReq` … -/
example : exReq.cookie = some forgedId ∧ exReq.cookieLen = 24 ∧ lookup forgedId exState.cache = none ∧
    lookup forgedId exState.store = none ∧ exState.fails = [] ∧ (∀ n, forgedId = .gen n → n < exState.nextId) := by
  refine ⟨rfl, rfl, by decide, by decide, rfl, ?_⟩
  intro n h; cases h

/-- … and this is what happens: a new session `gen 1` at the new handle 1, the old one untouched. -/
example :
    (start {} exState exReq).1.heap =
      exState.heap ++ [{ id := .gen 1, created := 100, lastAccess := 100, ip := "6.6.6.6:6" }] ∧
    (start {} exState exReq).1.cache = [(.gen 1, 1), (.gen 0, 0)] ∧
    (start {} exState exReq).1.store =
      (.gen 1, { created := 100, lastAccess := 100, ip := "6.6.6.6:6" }) :: exState.store ∧
    (start {} exState exReq).1.nextId = 2 ∧
    (start {} exState exReq).2.1 = .sess 1 ∧
    (start {} exState exReq).2.2 =
      [.load forgedId false, .delCookie, .save (.gen 1) { created := 100, lastAccess := 100, ip := "6.6.6.6:6" },
        .setCookie (.gen 1)] := by decide

example : (start {} exState exReq).2.1 = .sess 1 :=
  (c02_forged_create_obj (cfg := {}) (s := exState) (r := exReq) (id := forgedId) rfl rfl (by decide) (by decide) rfl rfl).1

/-- with `createIfNew = false` nothing happens but the load and the deletion cookie -/
example : start {} exState { exReq with create := false } = (exState, .nil, [.load forgedId false, .delCookie]) :=
  c02_forged_nocreate (id := forgedId) rfl rfl (by decide) (by decide) rfl rfl

/-- a flush does happen when the cache is full (`maxCache = 1`): the cached session is written back. -/
example : (start { maxCache := 1 } exState exReq).2.2 =
    [.load forgedId false, .delCookie,
     .save (.gen 0) { created := 10, lastAccess := 90, ip := "10.0.0.1:1", data := some [("k", .int 1)] },
     .save (.gen 1) { created := 100, lastAccess := 100, ip := "6.6.6.6:6" }, .setCookie (.gen 1)] := by decide

/-- `hvalid` is needed in `c02_store_untouched'`: a state whose cache holds the dangling handle `0`
(the heap is empty) under the key `lit "a"`. -/
private def danglingState : State := { now := 100, cache := [(.lit "a", 0)], nextId := 1 }

/-- The forged request allocates the new object at handle `0`; the eviction (`maxCache = 1`) then flushes
the entry `(lit "a", 0)` and so writes the NEW session's fields (creation time 100, address of the forger)
under the old key `lit "a"`: the conclusion of `c02_store_untouched'` fails although all its other
hypotheses hold. -/
example :
    exReq.cookie = some forgedId ∧ exReq.cookieLen = 24 ∧ lookup forgedId danglingState.cache = none ∧
    lookup forgedId danglingState.store = none ∧ danglingState.fails = [] ∧
    (danglingState.cache.map (·.1)).Nodup ∧
    ¬ (∀ k, k ≠ .gen danglingState.nextId →
        (lookup k (start { maxCache := 1 } danglingState exReq).1.store = lookup k danglingState.store ∨
          ∃ h, lookup k danglingState.cache = some h ∧
            lookup k (start { maxCache := 1 } danglingState exReq).1.store = some (enc Codec.gob (danglingState.obj h)))) := by
  refine ⟨rfl, rfl, by decide, by decide, rfl, by decide, ?_⟩
  intro h
  have h1 : lookup (.lit "a") (start { maxCache := 1 } danglingState exReq).1.store
      = some { created := 100, lastAccess := 100, ip := "6.6.6.6:6" } := by decide
  rcases h (.lit "a") (by decide) with h2 | ⟨x, hx, h2⟩
  · rw [h1] at h2; exact absurd h2 (by decide)
  · have hx0 : x = 0 := by
      have : lookup (ID.lit "a") danglingState.cache = some 0 := by decide
      rw [this] at hx; exact (Option.some.inj hx).symm
    subst hx0
    rw [h1] at h2; exact absurd h2 (by decide)

/-- `hnodup` is needed in `c02_store_untouched'`: the key `lit "a"` has two entries; `lookup` sees handle 0
(fresh), the idle sweep of `compact` (`cacheExpiry = 50`) flushes the SHADOWED entry (handle 1, idle since
time 0) under the same key. All handles are valid. -/
private def dupState : State :=
  { now := 100,
    heap := [{ id := .lit "a", created := 1, lastAccess := 90 }, { id := .lit "a", created := 2, lastAccess := 0 }],
    cache := [(.lit "a", 0), (.lit "a", 1)], nextId := 1 }

example :
    lookup forgedId dupState.cache = none ∧ lookup forgedId dupState.store = none ∧ dupState.fails = [] ∧
    (∀ k h, (k, h) ∈ dupState.cache → h < dupState.heap.length) ∧
    lookup (.lit "a") dupState.cache = some 0 ∧
    lookup (.lit "a") dupState.store = none ∧
    lookup (.lit "a") (start { cacheExpiry := 50 } dupState exReq).1.store = some (enc Codec.gob (dupState.obj 1)) ∧
    enc Codec.gob (dupState.obj 1) ≠ enc Codec.gob (dupState.obj 0) := by
  refine ⟨by decide, by decide, rfl, ?_, by decide, by decide, by decide, by decide⟩
  intro k h hm
  simp [dupState] at hm ⊢
  omega

end examples

end Sx.Loc
