import Sessions.Proofs.Global.Delta
/-!
# C11 / C09 with store faults — the structural invariant under EVERY oracle (model functions)

`Inv` (`Proofs/Inv`) is proved for fault-free histories only. Its coherence field and — this is a finding of this
file — its field `wf` ("the object cached under a key carries that key as its id") do NOT survive store faults
(`wf_fails_under_faults` in `Faulty11.lean`: a `RegenerateID` whose first save fails leaves the object, which already
carries the new id, cached under BOTH ids). Everything else of `Inv` is structural and survives every fault placement:

* `SInv c s` — unique cache keys; cached handles allocated; cache keys minted; EVERY heap object's id minted and
  reference minted (stronger than `Inv`, which says this of cached objects only); `SOK` of the store (unique minted
  keys, minted references, records are `c`-encodings); timers await minted ids.
* `SMono c s s' evs` — `SInv c s'`, ids only minted, objects only allocated, events well-formed (`EvsOK`).
* one theorem per model function, for every state satisfying `SInv`, every oracle `fails` and every order oracle
  `picks` (no `NoFail`, no condition on `picks` at all): `saveRec_smono`, `cacheDelete_smono`, `sweep_smono`,
  `evictLoop_smono`, `compact_smono`, `cacheGet_smono`, `cacheSet_smono`, `purge_smono`, `regenerate_smono`,
  `destroy_smono`, `createNew_smono`, `follow_smono`, `startValid_smono`, `start_smono`, `hset_smono`, `hdel_smono`,
  `hgetdel_smono`, `hlogout_smono`, `setUserAll_smono`, `forUser_smono`, `logoutUser_smono`, `refreshUser_smono`,
  `hlogin_smono`.

The only side condition is that a handle passed in is allocated (`h < s.heap.length`); handles returned are allocated.
-/
namespace Sx.Glob

/-! ### the structural invariant -/

/-- The part of `Inv` that every fault placement preserves. -/
structure SInv (c : Codec) (s : State) : Prop where
  /-- cache keys are unique -/
  cnodup : (keys s.cache).Nodup
  /-- cached handles are allocated -/
  valid : ∀ id h, (id, h) ∈ s.cache → h < s.heap.length
  /-- cache keys are minted -/
  ckeys : ∀ id h, (id, h) ∈ s.cache → Minted s.nextId id
  /-- every object on the heap carries a minted id -/
  hids : ∀ h, h < s.heap.length → Minted s.nextId (s.obj h).id
  /-- every object on the heap refers to a minted id (or to nothing) -/
  hrefs : ∀ h, h < s.heap.length → RefOK s.nextId (s.obj h).ref
  /-- the store: unique minted keys, minted references, `c`-encodings -/
  sok : SOK c s.nextId s.store
  /-- ids awaited by clean-up goroutines are minted -/
  tkeys : ∀ t id, (t, id) ∈ s.timers → Minted s.nextId id

theorem sinv_init (c : Codec) : SInv c ({} : State) :=
  ⟨List.nodup_nil, by intro _ _ h; simp at h, by intro _ _ h; simp at h, by intro h hh; simp at hh,
   by intro h hh; simp at hh, SOK.nil c 0, by intro _ _ h; simp at h⟩

/-- `Inv` (fault-free reachable states) implies `SInv` when every heap object is minted; the converse needs coherence. -/
theorem SInv.of_parts {c : Codec} {s : State} (hi : Inv c s) (hids : ∀ h, h < s.heap.length → Minted s.nextId (s.obj h).id)
    (hrefs : ∀ h, h < s.heap.length → RefOK s.nextId (s.obj h).ref) : SInv c s :=
  ⟨hi.cnodup, hi.valid, hi.ckeys, hids, hrefs, hi.sok, hi.tkeys⟩

theorem SInv.congr {c : Codec} {s s' : State} (hi : SInv c s) (h1 : s'.heap = s.heap) (h2 : s'.cache = s.cache)
    (h3 : s'.store = s.store) (h4 : s'.timers = s.timers) (h5 : s'.nextId = s.nextId) : SInv c s' := by
  have ho : ∀ k, s'.obj k = s.obj k := obj_of_heap_eq h1
  constructor
  · rw [h2]; exact hi.cnodup
  · intro id h hm; rw [h2] at hm; rw [h1]; exact hi.valid id h hm
  · intro id h hm; rw [h2] at hm; rw [h5]; exact hi.ckeys id h hm
  · intro h hv; rw [h1] at hv; rw [h5, ho]; exact hi.hids h hv
  · intro h hv; rw [h1] at hv; rw [h5, ho]; exact hi.hrefs h hv
  · rw [h3, h5]; exact hi.sok
  · intro t id hm; rw [h4] at hm; rw [h5]; exact hi.tkeys t id hm

/-- the reference of the object read through ANY handle (a dangling handle reads the default object) is minted -/
theorem SInv.ref_any {c : Codec} {s : State} (hi : SInv c s) (h : Nat) : RefOK s.nextId (s.obj h).ref := by
  by_cases hv : h < s.heap.length
  · exact hi.hrefs h hv
  · rw [Loc.obj_oob hv]; exact refOK_none _

theorem SInv.setObj {c : Codec} {s : State} (hi : SInv c s) (h : Nat) (o : Sess) (hid : Minted s.nextId o.id)
    (hr : RefOK s.nextId o.ref) : SInv c (s.setObj h o) := by
  refine ⟨hi.cnodup, ?_, hi.ckeys, ?_, ?_, hi.sok, hi.tkeys⟩
  · intro id x hm; rw [Loc.setObj_heap_length]; exact hi.valid id x hm
  · intro x hx
    rw [Loc.setObj_heap_length] at hx
    show Minted s.nextId ((s.setObj h o).obj x).id
    rw [Loc.obj_setObj]; split
    · exact hid
    · exact hi.hids x hx
  · intro x hx
    rw [Loc.setObj_heap_length] at hx
    show RefOK s.nextId ((s.setObj h o).obj x).ref
    rw [Loc.obj_setObj]; split
    · exact hr
    · exact hi.hrefs x hx

/-- overwriting an object by one with the same id and reference -/
theorem SInv.setObj_same {c : Codec} {s : State} (hi : SInv c s) (h : Nat) (o : Sess) (hid : o.id = (s.obj h).id)
    (hr : o.ref = (s.obj h).ref) : SInv c (s.setObj h o) := by
  by_cases hv : h < s.heap.length
  · exact hi.setObj h o (by rw [hid]; exact hi.hids h hv) (by rw [hr]; exact hi.hrefs h hv)
  · rw [Loc.setObj_oob hv]; exact hi

theorem SInv.alloc {c : Codec} {s : State} (hi : SInv c s) (o : Sess) (hid : Minted s.nextId o.id)
    (hr : RefOK s.nextId o.ref) : SInv c (s.alloc o).2 := by
  refine ⟨hi.cnodup, ?_, hi.ckeys, ?_, ?_, hi.sok, hi.tkeys⟩
  · intro id x hm
    have := hi.valid id x hm
    rw [alloc_len]; omega
  · intro x hx
    rw [alloc_len] at hx
    show Minted s.nextId ((s.alloc o).2.obj x).id
    by_cases hv : x < s.heap.length
    · rw [Loc.obj_alloc_old hv]; exact hi.hids x hv
    · have : x = s.heap.length := by omega
      subst this; rw [Loc.obj_alloc_new]; exact hid
  · intro x hx
    rw [alloc_len] at hx
    show RefOK s.nextId ((s.alloc o).2.obj x).ref
    by_cases hv : x < s.heap.length
    · rw [Loc.obj_alloc_old hv]; exact hi.hrefs x hv
    · have : x = s.heap.length := by omega
      subst this; rw [Loc.obj_alloc_new]; exact hr

theorem SInv.cacheIns {c : Codec} {s : State} (hi : SInv c s) (k : ID) (h : Nat) (hv : h < s.heap.length)
    (hk : Minted s.nextId k) : SInv c { s with cache := insert k h s.cache } := by
  refine ⟨nodup_insert hi.cnodup, ?_, ?_, hi.hids, hi.hrefs, hi.sok, hi.tkeys⟩
  · intro id x hm
    show x < s.heap.length
    rcases Sx.mem_insert hm with e | ⟨hm', _⟩
    · simp only [Prod.mk.injEq] at e; rw [e.2]; exact hv
    · exact hi.valid id x hm'
  · intro id x hm
    show Minted s.nextId id
    rcases Sx.mem_insert hm with e | ⟨hm', _⟩
    · simp only [Prod.mk.injEq] at e; rw [e.1]; exact hk
    · exact hi.ckeys id x hm'

theorem SInv.cacheErase {c : Codec} {s : State} (hi : SInv c s) (k : ID) : SInv c { s with cache := erase k s.cache } :=
  ⟨nodup_erase hi.cnodup, fun id x hm => hi.valid id x (Sx.mem_erase hm).1, fun id x hm => hi.ckeys id x (Sx.mem_erase hm).1,
   hi.hids, hi.hrefs, hi.sok, hi.tkeys⟩

theorem SInv.cacheNil {c : Codec} {s : State} (hi : SInv c s) : SInv c { s with cache := [] } :=
  ⟨List.nodup_nil, by intro _ _ h; simp at h, by intro _ _ h; simp at h, hi.hids, hi.hrefs, hi.sok, hi.tkeys⟩

theorem SInv.store {c : Codec} {s : State} (hi : SInv c s) (st : List (ID × Rec)) (hs : SOK c s.nextId st) :
    SInv c { s with store := st } :=
  ⟨hi.cnodup, hi.valid, hi.ckeys, hi.hids, hi.hrefs, hs, hi.tkeys⟩

theorem SInv.timers {c : Codec} {s : State} (hi : SInv c s) (tm : List (Int × ID))
    (ht : ∀ t id, (t, id) ∈ tm → Minted s.nextId id) : SInv c { s with timers := tm } :=
  ⟨hi.cnodup, hi.valid, hi.ckeys, hi.hids, hi.hrefs, hi.sok, ht⟩

theorem SInv.next {c : Codec} {s : State} (hi : SInv c s) (n : Nat) (hn : s.nextId ≤ n) : SInv c { s with nextId := n } :=
  ⟨hi.cnodup, hi.valid, fun id h hm => (hi.ckeys id h hm).mono hn, fun h hv => (hi.hids h hv).mono hn,
   fun h hv => (hi.hrefs h hv).mono hn, hi.sok.mono hn, fun t id hm => (hi.tkeys t id hm).mono hn⟩

/-- the id about to be minted is in use nowhere -/
theorem SInv.fresh {c : Codec} {s : State} (hi : SInv c s) :
    (∀ x, (ID.gen s.nextId, x) ∉ s.cache) ∧ (∀ x, x < s.heap.length → (s.obj x).id ≠ ID.gen s.nextId) ∧
    lookup (ID.gen s.nextId) s.store = none ∧ (∀ t, (t, ID.gen s.nextId) ∉ s.timers) := by
  refine ⟨fun x hm => (hi.ckeys _ x hm).ne_gen rfl, fun x hx => (hi.hids x hx).ne_gen, ?_, fun t hm => (hi.tkeys t _ hm).ne_gen rfl⟩
  cases hl : lookup (ID.gen s.nextId) s.store with
  | none => rfl
  | some r => exact absurd rfl ((hi.sok.keys _ r (lookup_some_mem hl)).ne_gen)

/-! ### the frame of an operation under an arbitrary oracle -/

/-- `SInv` afterwards, ids only minted, objects only allocated, well-formed events. -/
structure SMono (c : Codec) (s s' : State) (evs : List Ev) : Prop where
  inv : SInv c s'
  next : s.nextId ≤ s'.nextId
  len : s.heap.length ≤ s'.heap.length
  evs : EvsOK c s'.nextId evs

theorem SMono.refl {c : Codec} {s : State} (hi : SInv c s) : SMono c s s [] :=
  ⟨hi, Nat.le_refl _, Nat.le_refl _, EvsOK.nil c _⟩

theorem SMono.silent {c : Codec} {s s' : State} (hi : SInv c s') (hn : s.nextId ≤ s'.nextId) (hl : s.heap.length ≤ s'.heap.length) :
    SMono c s s' [] := ⟨hi, hn, hl, EvsOK.nil c _⟩

theorem SMono.trans {c : Codec} {a b d : State} {e1 e2 : List Ev} (h1 : SMono c a b e1) (h2 : SMono c b d e2) :
    SMono c a d (e1 ++ e2) :=
  ⟨h2.inv, Nat.le_trans h1.next h2.next, Nat.le_trans h1.len h2.len, (h1.evs.mono h2.next).append h2.evs⟩

theorem SMono.trans0 {c : Codec} {a b d : State} {e2 : List Ev} (h1 : SMono c a b []) (h2 : SMono c b d e2) :
    SMono c a d e2 := by
  have := h1.trans h2; simpa using this

theorem SMono.evs_pre {c : Codec} {s s' : State} {e : List Ev} (pre : List Ev) (h : SMono c s s' e) (hp : EvsOK c s'.nextId pre) :
    SMono c s s' (pre ++ e) := ⟨h.inv, h.next, h.len, hp.append h.evs⟩

theorem SMono.evs_post {c : Codec} {s s' : State} {e : List Ev} (post : List Ev) (h : SMono c s s' e) (hp : EvsOK c s'.nextId post) :
    SMono c s s' (e ++ post) := ⟨h.inv, h.next, h.len, h.evs.append hp⟩

theorem SMono.congr_right {c : Codec} {s s' t : State} {e : List Ev} (h : SMono c s s' e) (hi : SInv c t)
    (hn : t.nextId = s'.nextId) (hl : t.heap.length = s'.heap.length) : SMono c s t e :=
  ⟨hi, by rw [hn]; exact h.next, by rw [hl]; exact h.len, by rw [hn]; exact h.evs⟩

theorem evsOK_plain {c : Codec} {n : Nat} {l : List Ev} (h : ∀ e ∈ l, (∀ id r, e ≠ .save id r) ∧ ∀ id, e ≠ .setCookie id) :
    EvsOK c n l := by
  intro e he
  obtain ⟨h1, h2⟩ := h e he
  cases e <;> first | trivial | exact absurd rfl (h1 _ _) | exact absurd rfl (h2 _)

theorem evsOK_cookie {c : Codec} {n : Nat} {id : ID} (h : Minted n id) : EvsOK c n [.setCookie id] := by
  intro e he; simp only [List.mem_singleton] at he; subst he; exact h

/-! ### the persistence calls -/

theorem saveRec_smono (cfg : Cfg) {s : State} (hi : SInv cfg.codec s) (id : ID) (o : Sess) (hk : Minted s.nextId id)
    (hr : RefOK s.nextId o.ref) : SMono cfg.codec s (saveRec cfg s id o).1 (saveRec cfg s id o).2.2 := by
  rw [Loc.saveRec_eq]
  split
  · exact ⟨hi.congr rfl rfl rfl rfl rfl, Nat.le_refl _, Nat.le_refl _, evsOK_plain (by intro e he; simp at he; subst he; simp)⟩
  · exact ⟨(hi.store _ (hi.sok.put_enc hk hr)).congr rfl rfl rfl rfl rfl, Nat.le_refl _, Nat.le_refl _, evsOK_save hk hr⟩

theorem cacheDelete_smono {c : Codec} {s : State} (hi : SInv c s) (id : ID) :
    SMono c s (cacheDelete s id).1 (cacheDelete s id).2.2 := by
  rw [Loc.cacheDelete_eq]
  split
  · exact ⟨(hi.cacheErase id).congr rfl rfl rfl rfl rfl, Nat.le_refl _, Nat.le_refl _,
      evsOK_plain (by intro e he; simp at he; subst he; simp)⟩
  · exact ⟨((hi.cacheErase id).store _ (hi.sok.del id)).congr rfl rfl rfl rfl rfl, Nat.le_refl _, Nat.le_refl _,
      evsOK_plain (by intro e he; simp at he; subst he; simp)⟩

/-- what `LoadSession` returns, under every oracle: the state moves in the oracle only, a found object is the
decoding of the stored record (minted id, minted reference), and the events carry no save and no cookie. -/
theorem loadRec_facts {c : Codec} {s : State} (hi : SInv c s) (id : ID) :
    SInv c (loadRec s id).1 ∧ (loadRec s id).1.nextId = s.nextId ∧ (loadRec s id).1.heap = s.heap ∧
    (∀ n, EvsOK c n (loadRec s id).2.2) ∧
    (∀ o, (loadRec s id).2.1 = .found o → o.id = id ∧ Minted s.nextId o.id ∧ RefOK s.nextId o.ref) := by
  have hc := Loc.loadRec_cases s id
  generalize loadRec s id = x at hc
  have hdec : ∀ r, lookup id s.store = some r →
      (dec s.ver id r).id = id ∧ Minted s.nextId (dec s.ver id r).id ∧ RefOK s.nextId (dec s.ver id r).ref :=
    fun r hl => ⟨rfl, hi.sok.keys id r (lookup_some_mem hl), hi.sok.refs id r (lookup_some_mem hl)⟩
  cases hc with
  | fail hf =>
    exact ⟨hi.congr rfl rfl rfl rfl rfl, rfl, rfl, fun n => evsOK_plain (by intro e he; simp at he; subst he; simp),
      by intro o ho; simp at ho⟩
  | nil hf hl =>
    exact ⟨hi.congr rfl rfl rfl rfl rfl, rfl, rfl, fun n => evsOK_plain (by intro e he; simp at he; subst he; simp),
      by intro o ho; simp at ho⟩
  | plain r hf hl hu =>
    refine ⟨hi.congr rfl rfl rfl rfl rfl, rfl, rfl, fun n => evsOK_plain (by intro e he; simp at he; subst he; simp), ?_⟩
    intro o ho; simp only [LoadRes.found.injEq] at ho; subst ho; exact hdec r hl
  | userFail r uid hf hl hu hf2 =>
    exact ⟨hi.congr rfl rfl rfl rfl rfl, rfl, rfl,
      fun n => evsOK_plain (by intro e he; simp at he; rcases he with he | he | he <;> subst he <;> simp),
      by intro o ho; simp at ho⟩
  | user r uid hf hl hu hf2 =>
    refine ⟨hi.congr rfl rfl rfl rfl rfl, rfl, rfl,
      fun n => evsOK_plain (by intro e he; simp at he; rcases he with he | he <;> subst he <;> simp), ?_⟩
    intro o ho; simp only [LoadRes.found.injEq] at ho; subst ho; exact hdec r hl

/-! ### `compact` -/

/-- flushing an entry and, when the save succeeded, dropping it -/
theorem flushDrop_smono (cfg : Cfg) {s : State} (hi : SInv cfg.codec s) (id : ID) (h : Nat) (hk : Minted s.nextId id) :
    SMono cfg.codec s
      { (saveRec cfg s id (s.obj h)).1 with cache := erase id (saveRec cfg s id (s.obj h)).1.cache }
      (saveRec cfg s id (s.obj h)).2.2 := by
  have h1 := saveRec_smono cfg hi id (s.obj h) hk (hi.ref_any h)
  exact ⟨h1.inv.cacheErase id, h1.next, h1.len, h1.evs⟩

theorem sweep_smono (cfg : Cfg) : ∀ (l : List (ID × Nat)) (s : State), SInv cfg.codec s → (∀ e ∈ l, Minted s.nextId e.1) →
    SMono cfg.codec s (sweep cfg s l).1 (sweep cfg s l).2.2
  | [], s, hi, _ => SMono.refl hi
  | (id, h) :: rest, s, hi, hl => by
    have hk : Minted s.nextId id := hl (id, h) List.mem_cons_self
    have hrest : ∀ e ∈ rest, Minted s.nextId e.1 := fun e he => hl e (List.mem_cons_of_mem _ he)
    rw [Loc.sweep_cons]
    split
    · split
      · have h1 := flushDrop_smono cfg hi id h hk
        exact h1.trans (sweep_smono cfg rest _ h1.inv (fun e he => (hrest e he).mono h1.next))
      · exact saveRec_smono cfg hi id (s.obj h) hk (hi.ref_any h)
    · exact sweep_smono cfg rest s hi hrest

theorem evictLoop_smono (cfg : Cfg) (req : Int) : ∀ (fuel : Nat) (s : State), SInv cfg.codec s →
    SMono cfg.codec s (evictLoop cfg req fuel s).1 (evictLoop cfg req fuel s).2
  | 0, s, hi => SMono.refl hi
  | fuel + 1, s, hi => by
    rw [Loc.evictLoop_succ]
    split
    · cases hv : victim s with
      | none => exact SMono.refl hi
      | some e =>
        obtain ⟨id, h⟩ := e
        have hk : Minted s.nextId id := hi.ckeys id h (Loc.mem_victim hv)
        simp only
        split
        · have h1 := flushDrop_smono cfg hi id h hk
          exact h1.trans (evictLoop_smono cfg req fuel _ h1.inv)
        · exact saveRec_smono cfg hi id (s.obj h) hk (hi.ref_any h)
    · exact SMono.refl hi

theorem compact_smono (cfg : Cfg) (req : Int) {s : State} (hi : SInv cfg.codec s) :
    SMono cfg.codec s (compact cfg req s).1 (compact cfg req s).2 := by
  have h1 := sweep_smono cfg (orderBy s.picks s.cache) s hi (fun e he => hi.ckeys e.1 e.2 (Loc.mem_orderBy he))
  rw [Loc.compact_eq]
  split
  · exact h1
  · split
    · exact h1
    · exact h1.trans (evictLoop_smono cfg _ _ _ h1.inv)

theorem compact_heap (cfg : Cfg) (req : Int) (s : State) : (compact cfg req s).1.heap = s.heap :=
  (Loc.compact_flushed cfg req s).fr.heap
theorem compact_nextId (cfg : Cfg) (req : Int) (s : State) : (compact cfg req s).1.nextId = s.nextId :=
  (Loc.compact_flushed cfg req s).fr.nextId

/-! ### `cache.Get`, `cache.Set`, `PurgeSessions` -/

/-- `Get` under every oracle; a returned handle is allocated. -/
theorem cacheGet_smono (cfg : Cfg) {s : State} (hi : SInv cfg.codec s) (id : ID) :
    SMono cfg.codec s (cacheGet cfg s id).1 (cacheGet cfg s id).2.2 ∧
    (cacheGet cfg s id).1.nextId = s.nextId ∧
    ∀ h, (cacheGet cfg s id).2.1 = .some h → h < (cacheGet cfg s id).1.heap.length := by
  cases hc : lookup id s.cache with
  | some h =>
    rw [Loc.cacheGet_hit hc]
    refine ⟨SMono.refl hi, rfl, ?_⟩
    intro h' hh; simp only [GetRes.some.injEq] at hh; subst hh
    exact hi.valid id h (lookup_some_mem hc)
  | none =>
    rw [Loc.cacheGet_miss hc]
    obtain ⟨hL, hn, hh, he, hf⟩ := loadRec_facts hi id
    generalize loadRec s id = x at hL hn hh he hf
    obtain ⟨s0, res, e0⟩ := x
    simp only at hL hn hh he hf
    have hlen : s0.heap.length = s.heap.length := by rw [hh]
    cases res with
    | fail =>
      have hM : SMono cfg.codec s s0 e0 := ⟨hL, by rw [hn]; exact Nat.le_refl _, by rw [hlen]; exact Nat.le_refl _, he _⟩
      exact ⟨hM, hn, by intro h hh'; simp [Loc.getOf] at hh'⟩
    | nil =>
      have hM : SMono cfg.codec s s0 e0 := ⟨hL, by rw [hn]; exact Nat.le_refl _, by rw [hlen]; exact Nat.le_refl _, he _⟩
      exact ⟨hM, hn, by intro h hh'; simp [Loc.getOf] at hh'⟩
    | found o =>
      obtain ⟨hoe, hoid, horef⟩ := hf o rfl
      rw [← hn] at hoid horef
      have hA : SInv cfg.codec (s0.alloc o).2 := hL.alloc o hoid horef
      have hA0 : SMono cfg.codec s (s0.alloc o).2 e0 :=
        ⟨hA, by rw [Loc.alloc_nextId, hn]; exact Nat.le_refl _, by rw [alloc_len, hlen]; omega, he _⟩
      rw [Loc.getOf_found]
      split
      · have hC := compact_smono cfg 1 hA
        have hheap := compact_heap cfg 1 (s0.alloc o).2
        have hnext := compact_nextId cfg 1 (s0.alloc o).2
        have hv : s0.heap.length < (compact cfg 1 (s0.alloc o).2).1.heap.length := by rw [hheap, alloc_len]; omega
        have hk : Minted (compact cfg 1 (s0.alloc o).2).1.nextId id := by
          rw [hnext, Loc.alloc_nextId, ← hoe]; exact hoid
        have hI := hC.inv.cacheIns id s0.heap.length hv hk
        refine ⟨hA0.trans ⟨hI, hC.next, hC.len, hC.evs⟩, ?_, ?_⟩
        · show (compact cfg 1 (s0.alloc o).2).1.nextId = s.nextId
          rw [hnext, Loc.alloc_nextId, hn]
        · intro h hh'; simp only [GetRes.some.injEq] at hh'; subst hh'; exact hv
      · refine ⟨by simpa using hA0, by rw [Loc.alloc_nextId, hn], ?_⟩
        intro h hh'; simp only [GetRes.some.injEq] at hh'; subst hh'
        rw [alloc_len]; omega

/-- `Set` of an allocated object under every oracle. -/
theorem cacheSet_smono (cfg : Cfg) {s : State} (hi : SInv cfg.codec s) (h : Nat) (hv : h < s.heap.length) :
    SMono cfg.codec s (cacheSet cfg s h).1 (cacheSet cfg s h).2.2 := by
  have h0 : SInv cfg.codec (Loc.setObjNow s h) := hi.setObj_same h _ rfl rfl
  have hC : SMono cfg.codec (Loc.setObjNow s h) (Loc.setC cfg s h).1 (Loc.setC cfg s h).2 := compact_smono cfg _ h0
  have hheap : (Loc.setC cfg s h).1.heap.length = s.heap.length := by
    show (compact cfg _ (Loc.setObjNow s h)).1.heap.length = _
    rw [compact_heap]; simp
  have hnext : (Loc.setC cfg s h).1.nextId = s.nextId := by
    show (compact cfg _ (Loc.setObjNow s h)).1.nextId = _
    rw [compact_nextId]; rfl
  have hk : Minted (Loc.setC cfg s h).1.nextId (s.obj h).id := by rw [hnext]; exact hi.hids h hv
  have hK : SInv cfg.codec (Loc.setK cfg s h) := by
    unfold Loc.setK
    split
    · exact hC.inv.cacheIns _ h (by rw [hheap]; exact hv) hk
    · exact hC.inv
  have hKn : (Loc.setK cfg s h).nextId = s.nextId := by rw [(Loc.setK_fr cfg s h).nextId]; rfl
  have hKl : (Loc.setK cfg s h).heap.length = s.heap.length := by rw [(Loc.setK_fr cfg s h).heap]; simp
  have hS := saveRec_smono cfg hK (s.obj h).id ((Loc.setK cfg s h).obj h) (by rw [hKn]; exact hi.hids h hv) (hK.ref_any h)
  rw [Loc.cacheSet_eq]
  have hC' : SMono cfg.codec s (Loc.setK cfg s h) (Loc.setC cfg s h).2 :=
    ⟨hK, by rw [hKn]; exact Nat.le_refl _, by rw [hKl]; exact Nat.le_refl _, by rw [hKn, ← hnext]; exact hC.evs⟩
  exact hC'.trans hS

theorem purgeList_smono (cfg : Cfg) : ∀ (l : List (ID × Nat)) (s : State), SInv cfg.codec s → (∀ e ∈ l, Minted s.nextId e.1) →
    SMono cfg.codec s (purgeList cfg s l).1 (purgeList cfg s l).2
  | [], s, hi, _ => SMono.refl hi
  | (id, h) :: rest, s, hi, hl => by
    have hk : Minted s.nextId id := hl (id, h) List.mem_cons_self
    have hrest : ∀ e ∈ rest, Minted s.nextId e.1 := fun e he => hl e (List.mem_cons_of_mem _ he)
    have h1 := saveRec_smono cfg hi id (s.obj h) hk (hi.ref_any h)
    have h2 := purgeList_smono cfg rest (saveRec cfg s id (s.obj h)).1 h1.inv (fun e he => (hrest e he).mono h1.next)
    exact h1.trans h2

theorem purge_smono (cfg : Cfg) {s : State} (hi : SInv cfg.codec s) : SMono cfg.codec s (purge cfg s).1 (purge cfg s).2 := by
  have h1 := purgeList_smono cfg (orderBy s.picks s.cache) s hi (fun e he => hi.ckeys e.1 e.2 (Loc.mem_orderBy he))
  exact ⟨h1.inv.cacheNil, h1.next, h1.len, h1.evs⟩

/-! ### `RegenerateID`, `Destroy`, creation -/

theorem regenS0_sinv {c : Codec} {s : State} (hi : SInv c s) (h : Nat) : SInv c (Loc.regenS0 s h) := by
  have h1 : SInv c ({ s with nextId := s.nextId + 1 } : State) := hi.next _ (Nat.le_succ _)
  have h2 := h1.setObj h { s.obj h with id := ID.gen s.nextId, created := s.now } (minted_gen s.nextId)
    ((hi.ref_any h).mono (Nat.le_succ _))
  exact h2.congr rfl rfl rfl rfl rfl

/-- `RegenerateID` on an allocated object under every oracle (both saves may fail). -/
theorem regenerate_smono (cfg : Cfg) {s : State} (hi : SInv cfg.codec s) (h : Nat) (hv : h < s.heap.length) :
    SMono cfg.codec s (regenerate cfg s h).1 (regenerate cfg s h).2.2 := by
  have h0 : SMono cfg.codec s (Loc.regenS0 s h) [] :=
    SMono.silent (regenS0_sinv hi h) (Nat.le_succ _) (by rw [Loc.regenS0_heap_len]; exact Nat.le_refl _)
  have hA : SMono cfg.codec (Loc.regenS0 s h) (Loc.regenA cfg s h).1 (Loc.regenA cfg s h).2.2 :=
    cacheSet_smono cfg h0.inv h (by rw [Loc.regenS0_heap_len]; exact hv)
  have hAn : (Loc.regenA cfg s h).1.nextId = s.nextId + 1 := Loc.cacheSet_nextId cfg _ h
  have hold : Minted (Loc.regenA cfg s h).1.nextId (s.obj h).id := by
    rw [hAn]; exact (hi.hids h hv).mono (Nat.le_succ _)
  have h2i : SInv cfg.codec (Loc.regenS2 cfg s h) :=
    hA.inv.alloc _ hold (by rw [hAn]; exact refOK_some (minted_gen s.nextId))
  have h2 : SMono cfg.codec (Loc.regenA cfg s h).1 (Loc.regenS2 cfg s h) [] :=
    SMono.silent h2i (Nat.le_refl _) (by show _ ≤ ((Loc.regenA cfg s h).1.alloc _).2.heap.length; rw [alloc_len]; omega)
  have hB : SMono cfg.codec (Loc.regenS2 cfg s h) (Loc.regenB cfg s h).1 (Loc.regenB cfg s h).2.2 :=
    cacheSet_smono cfg h2i _ (by show _ < ((Loc.regenA cfg s h).1.alloc _).2.heap.length; rw [alloc_len]; omega)
  have hBn : (Loc.regenB cfg s h).1.nextId = s.nextId + 1 := by
    rw [show (Loc.regenB cfg s h).1.nextId = (Loc.regenS2 cfg s h).nextId from Loc.cacheSet_nextId cfg _ _]
    exact hAn
  have hAll : SMono cfg.codec s (Loc.regenB cfg s h).1 ((Loc.regenA cfg s h).2.2 ++ (Loc.regenB cfg s h).2.2) :=
    ((h0.trans0 hA).trans (h2.trans0 hB))
  rw [Loc.regenerate_eq]
  split
  · exact h0.trans0 hA
  · split
    · exact hAll
    · have hT : SInv cfg.codec
          { (Loc.regenB cfg s h).1 with timers := (Loc.regenB cfg s h).1.timers ++ [((Loc.regenB cfg s h).1.now + cfg.grace, (s.obj h).id)] } := by
        apply hAll.inv.timers
        intro t id hm
        rcases List.mem_append.1 hm with hm | hm
        · exact hAll.inv.tkeys t id hm
        · simp only [List.mem_singleton, Prod.mk.injEq] at hm
          rw [hm.2, hBn]; exact (hi.hids h hv).mono (Nat.le_succ _)
      exact (hAll.congr_right hT rfl rfl).evs_post _ (evsOK_cookie (by show Minted (Loc.regenB cfg s h).1.nextId _; rw [hBn]; exact minted_gen _))

theorem destroy_smono {c : Codec} {s : State} (hi : SInv c s) (h : Nat) (b : Bool) :
    SMono c s (destroy s h b).1 (destroy s h b).2.2 := by
  have h1 := cacheDelete_smono hi (s.obj h).id
  rw [Loc.destroy_eq]
  split
  · exact h1
  · split
    · exact h1.evs_post _ (evsOK_plain (by intro e he; simp at he; subst he; simp))
    · exact h1

theorem newS1_sinv {c : Codec} {s : State} (hi : SInv c s) (r : Req) : SInv c (Loc.newS1 s r) :=
  (hi.next (s.nextId + 1) (Nat.le_succ _)).alloc _ (minted_gen s.nextId) (refOK_none _)

/-- creation under every oracle; a returned handle is allocated. -/
theorem createNew_smono (cfg : Cfg) {s0 s : State} {pre : List Ev} (hp : SMono cfg.codec s0 s pre) (r : Req) :
    SMono cfg.codec s0 (createNew cfg s r pre).1 (createNew cfg s r pre).2.2 ∧
    ∀ h, (createNew cfg s r pre).2.1 = .sess h → h < (createNew cfg s r pre).1.heap.length := by
  cases hc : r.create with
  | false => rw [Loc.createNew_no pre hc]; exact ⟨hp, by intro h hh; simp at hh⟩
  | true =>
    have h1 : SMono cfg.codec s (Loc.newS1 s r) [] :=
      SMono.silent (newS1_sinv hp.inv r) (Nat.le_succ _)
        (by show _ ≤ (({ s with nextId := s.nextId + 1 } : State).alloc _).2.heap.length; rw [alloc_len]; exact Nat.le_succ _)
    have hlen : (Loc.newS1 s r).heap.length = s.heap.length + 1 := by
      show (({ s with nextId := s.nextId + 1 } : State).alloc _).2.heap.length = _; rw [alloc_len]
    have h2 := cacheSet_smono cfg h1.inv s.heap.length (by rw [hlen]; omega)
    have hn : (cacheSet cfg (Loc.newS1 s r) s.heap.length).1.nextId = s.nextId + 1 := Loc.cacheSet_nextId cfg _ _
    have hl : (cacheSet cfg (Loc.newS1 s r) s.heap.length).1.heap.length = s.heap.length + 1 := by
      rw [Loc.cacheSet_heap_length, hlen]
    have h3 := hp.trans (h1.trans0 h2)
    rw [Loc.createNew_yes pre hc]
    split
    · exact ⟨h3, by intro h hh; simp at hh⟩
    · refine ⟨?_, ?_⟩
      · have := h3.evs_post [.setCookie (ID.gen s.nextId)] (evsOK_cookie (by rw [hn]; exact minted_gen _))
        simpa [List.append_assoc] using this
      · intro h hh; simp only [Res.sess.injEq] at hh; subst hh; rw [hl]; omega

/-! ### `Start` -/

theorem touch_sinv {c : Codec} {s : State} (hi : SInv c s) (h : Nat) (r : Req) : SInv c (touch s h r) :=
  hi.setObj_same h _ rfl rfl

/-- following the reference chain under every oracle; a returned handle is allocated. -/
theorem follow_smono (cfg : Cfg) : ∀ (n : Nat) (s : State) (h : Nat), SInv cfg.codec s → h < s.heap.length →
    SMono cfg.codec s (follow cfg n s h).1 (follow cfg n s h).2.2 ∧
    ∀ h2, (follow cfg n s h).2.1 = .some h2 → h2 < (follow cfg n s h).1.heap.length
  | 0, s, h, hi, _ => by rw [Loc.follow_zero]; exact ⟨SMono.refl hi, by intro h2 hh; simp at hh⟩
  | n + 1, s, h, hi, hv => by
    cases href : (s.obj h).ref with
    | none =>
      rw [Loc.follow_succ_none n href]
      exact ⟨SMono.refl hi, by intro h2 hh; simp only [GetRes.some.injEq] at hh; subst hh; exact hv⟩
    | some tgt =>
      rw [Loc.follow_succ_some n href]
      obtain ⟨hG, _, hGv⟩ := cacheGet_smono cfg hi tgt
      generalize cacheGet cfg s tgt = x at hG hGv
      obtain ⟨s1, res, e1⟩ := x
      cases res with
      | err => exact ⟨hG, by intro h2 hh; simp [Loc.followStep] at hh⟩
      | nil => exact ⟨hG, by intro h2 hh; simp [Loc.followStep] at hh⟩
      | some h2 =>
        obtain ⟨hF, hFv⟩ := follow_smono cfg n s1 h2 hG.inv (hGv h2 rfl)
        exact ⟨hG.trans hF, hFv⟩

theorem startInvalid_smono (cfg : Cfg) {s0 s1 : State} {e1 : List Ev} (hp : SMono cfg.codec s0 s1 e1) (h : Nat) (r : Req) :
    SMono cfg.codec s0 (Loc.startInvalid cfg s1 h r e1).1 (Loc.startInvalid cfg s1 h r e1).2.2 ∧
    ∀ x, (Loc.startInvalid cfg s1 h r e1).2.1 = .sess x → x < (Loc.startInvalid cfg s1 h r e1).1.heap.length := by
  have hD := hp.trans (destroy_smono hp.inv h true)
  unfold Loc.startInvalid
  split
  · exact ⟨hD, by intro x hx; simp at hx⟩
  · exact createNew_smono cfg hD r

theorem startValid_smono (cfg : Cfg) {s0 s1 : State} {e1 : List Ev} (hp : SMono cfg.codec s0 s1 e1) (id : ID) (h : Nat)
    (hv : h < s1.heap.length) (r : Req) :
    SMono cfg.codec s0 (startValid cfg s1 id h r e1).1 (startValid cfg s1 id h r e1).2.2 ∧
    ∀ x, (startValid cfg s1 id h r e1).2.1 = .sess x → x < (startValid cfg s1 id h r e1).1.heap.length := by
  cases href : (s1.obj h).ref with
  | none =>
    by_cases hage : since s1.now (s1.obj h).created ≥ cfg.idExpiry
    · rw [Loc.startValid_rotate id r e1 href hage]
      have hR := hp.trans (regenerate_smono cfg hp.inv h hv)
      split
      · exact ⟨hR, by intro x hx; simp at hx⟩
      · refine ⟨hR.congr_right (touch_sinv hR.inv h r) rfl (by simp), ?_⟩
        intro x hx; simp only [Res.sess.injEq] at hx; subst hx
        rw [Loc.touch_heap_length]
        exact Nat.lt_of_lt_of_le hv (regenerate_smono cfg hp.inv h hv).len
    · rw [Loc.startValid_young id r e1 href (by omega)]
      refine ⟨hp.congr_right (touch_sinv hp.inv h r) rfl (by simp), ?_⟩
      intro x hx; simp only [Res.sess.injEq] at hx; subst hx
      rw [Loc.touch_heap_length]; exact hv
  | some t =>
    by_cases hage : since s1.now (s1.obj h).created ≥ cfg.idExpiry ∧ since s1.now (s1.obj h).created - cfg.idExpiry ≥ cfg.grace
    · rw [Loc.startValid_ref_expired id r e1 href hage]
      have hD := hp.trans (cacheDelete_smono hp.inv id)
      split
      · exact ⟨hD, by intro x hx; simp at hx⟩
      · exact ⟨hD, by intro x hx; simp at hx⟩
    · rw [Loc.startValid_ref id r e1 href hage]
      obtain ⟨hF, hFv⟩ := follow_smono cfg (s1.store.length + s1.cache.length + 1) s1 h hp.inv hv
      generalize follow cfg (s1.store.length + s1.cache.length + 1) s1 h = x at hF hFv
      obtain ⟨s2, res, e2⟩ := x
      have hA := hp.trans hF
      cases res with
      | err => exact ⟨hA, by intro x hx; simp [Loc.startRef] at hx⟩
      | nil => exact ⟨hA, by intro x hx; simp [Loc.startRef] at hx⟩
      | some h2 =>
        have hv2 : h2 < s2.heap.length := hFv h2 rfl
        refine ⟨?_, ?_⟩
        · have hT := hA.congr_right (touch_sinv hA.inv h2 r) rfl (by simp)
          exact hT.evs_post _ (evsOK_cookie (hA.inv.hids h2 hv2))
        · intro x hx; simp only [Loc.startRef, Res.sess.injEq] at hx; rw [← hx]
          show h2 < (touch s2 h2 r).heap.length
          rw [Loc.touch_heap_length]; exact hv2

/-- `Start` under every oracle; a returned handle is allocated. -/
theorem start_smono (cfg : Cfg) {s : State} (hi : SInv cfg.codec s) (r : Req) :
    SMono cfg.codec s (start cfg s r).1 (start cfg s r).2.2 ∧
    ∀ x, (start cfg s r).2.1 = .sess x → x < (start cfg s r).1.heap.length := by
  cases hck : r.cookie with
  | none => rw [Loc.start_none hck]; exact createNew_smono cfg (SMono.refl hi) r
  | some id =>
    by_cases hlen : r.cookieLen = 24
    · rw [Loc.start_some hck hlen]
      obtain ⟨hG, _, hGv⟩ := cacheGet_smono cfg hi id
      generalize cacheGet cfg s id = x at hG hGv
      obtain ⟨s1, res, e1⟩ := x
      cases res with
      | err => exact ⟨hG, by intro x hx; simp [Loc.startGot] at hx⟩
      | nil =>
        exact createNew_smono cfg (hG.evs_post _ (evsOK_plain (by intro e he; simp at he; subst he; simp))) r
      | some h =>
        simp only [Loc.startGot]
        split
        · exact startInvalid_smono cfg hG h r
        · exact startValid_smono cfg hG id h (hGv h rfl) r
    · rw [Loc.start_len hlen]; exact createNew_smono cfg (SMono.refl hi) r

/-! ### the handler methods -/

theorem saveObj_smono (cfg : Cfg) {s : State} (hi : SInv cfg.codec s) (h : Nat) (hv : h < s.heap.length) :
    SMono cfg.codec s (saveObj cfg s h).1 (saveObj cfg s h).2.2 := by
  rw [Loc.saveObj_eq]; exact saveRec_smono cfg hi _ _ (hi.hids h hv) (hi.ref_any h)

/-- overwrite fields other than id and reference, then `SaveSession` -/
theorem setSave_smono (cfg : Cfg) {s : State} (hi : SInv cfg.codec s) (h : Nat) (hv : h < s.heap.length) (o : Sess)
    (hid : o.id = (s.obj h).id) (hr : o.ref = (s.obj h).ref) :
    SMono cfg.codec s (saveObj cfg (s.setObj h o) h).1 (saveObj cfg (s.setObj h o) h).2.2 :=
  (SMono.silent (s := s) (hi.setObj_same h o hid hr) (Nat.le_refl _) (by simp)).trans0
    (saveObj_smono cfg (hi.setObj_same h o hid hr) h (by simpa using hv))

theorem hset_smono (cfg : Cfg) {s : State} (hi : SInv cfg.codec s) (h : Nat) (hv : h < s.heap.length) (k : String) (v : Val) :
    SMono cfg.codec s (hset cfg s h k v).1 (hset cfg s h k v).2.2 := by
  cases hd : (s.obj h).data with
  | none => rw [Loc.hset_none k v hd]; exact SMono.refl hi
  | some d => rw [Loc.hset_some k v hd]; exact setSave_smono cfg hi h hv _ rfl rfl

theorem hdel_smono (cfg : Cfg) {s : State} (hi : SInv cfg.codec s) (h : Nat) (hv : h < s.heap.length) (k : String) :
    SMono cfg.codec s (hdel cfg s h k).1 (hdel cfg s h k).2.2 := by
  rw [Loc.hdel_eq]; exact setSave_smono cfg hi h hv _ rfl rfl

theorem hgetdel_smono (cfg : Cfg) {s : State} (hi : SInv cfg.codec s) (h : Nat) (hv : h < s.heap.length) (k : String) :
    SMono cfg.codec s (hgetdel cfg s h k).1 (hgetdel cfg s h k).2.2 := by
  cases hl : lookup k ((s.obj h).data.getD []) with
  | none => rw [Loc.hgetdel_none hl]; exact SMono.refl hi
  | some v => rw [Loc.hgetdel_some hl]; exact setSave_smono cfg hi h hv _ rfl rfl

theorem hlogout_smono (cfg : Cfg) {s : State} (hi : SInv cfg.codec s) (h : Nat) (hv : h < s.heap.length) :
    SMono cfg.codec s (hlogout cfg s h).1 (hlogout cfg s h).2.2 := by
  cases hu : (s.obj h).user with
  | none => rw [Loc.hlogout_none hu]; exact SMono.refl hi
  | some u => rw [Loc.hlogout_some hu]; exact setSave_smono cfg hi h hv _ rfl rfl

/-! ### the user functions and `LogIn` -/

theorem userSet_smono (cfg : Cfg) (u : Option (String × Nat)) {s : State} (hi : SInv cfg.codec s) (h : Nat) (hv : h < s.heap.length) :
    SMono cfg.codec s (Loc.userSet cfg u s h).1 (Loc.userSet cfg u s h).2.2 :=
  (SMono.silent (s := s) (hi.setObj_same h { s.obj h with user := u } rfl rfl) (Nat.le_refl _) (by simp)).trans0
    (cacheSet_smono cfg (hi.setObj_same h { s.obj h with user := u } rfl rfl) h (by simpa using hv))

theorem setUserAll_smono (cfg : Cfg) (u : Option (String × Nat)) : ∀ (ids : List ID) (s : State), SInv cfg.codec s →
    SMono cfg.codec s (setUserAll cfg u ids s).1 (setUserAll cfg u ids s).2.2
  | [], s, hi => by rw [Loc.setUserAll_nil]; exact SMono.refl hi
  | id :: rest, s, hi => by
    obtain ⟨hG, _, hGv⟩ := cacheGet_smono cfg hi id
    rcases hg : cacheGet cfg s id with ⟨s1, res, e1⟩
    rw [hg] at hG hGv
    cases res with
    | err => rw [Loc.setUserAll_cons_err hg]; exact hG
    | nil => rw [Loc.setUserAll_cons_nil hg]; exact hG.trans (setUserAll_smono cfg u rest s1 hG.inv)
    | some h =>
      rw [Loc.setUserAll_cons_some hg]
      have hU := hG.trans (userSet_smono cfg u hG.inv h (hGv h rfl))
      split
      · exact hU
      · exact hU.trans (setUserAll_smono cfg u rest _ hU.inv)

theorem forUser_smono (cfg : Cfg) (le : ID → ID → Bool) {s : State} (hi : SInv cfg.codec s) (uid : String)
    (u : Option (String × Nat)) : SMono cfg.codec s (forUser cfg le s uid u).1 (forUser cfg le s uid u).2.2 := by
  have hp : SInv cfg.codec s.pop := hi.congr rfl rfl rfl rfl rfl
  rw [Loc.forUser_eq]
  split
  · exact ⟨hp, Nat.le_refl _, Nat.le_refl _, evsOK_plain (by intro e he; simp at he; subst he; simp)⟩
  · have h1 : SMono cfg.codec s s.pop [.users uid] :=
      ⟨hp, Nat.le_refl _, Nat.le_refl _, evsOK_plain (by intro e he; simp at he; subst he; simp)⟩
    exact h1.trans (setUserAll_smono cfg u _ s.pop hp)

theorem logoutUser_smono (cfg : Cfg) (le : ID → ID → Bool) {s : State} (hi : SInv cfg.codec s) (uid : String) :
    SMono cfg.codec s (logoutUser cfg le s uid).1 (logoutUser cfg le s uid).2.2 := forUser_smono cfg le hi uid none

theorem refreshUser_smono (cfg : Cfg) (le : ID → ID → Bool) {s : State} (hi : SInv cfg.codec s) (uid : String) :
    SMono cfg.codec s (refreshUser cfg le s uid).1 (refreshUser cfg le s uid).2.2 := by
  have h0 : SInv cfg.codec ({ s with vers := insert uid (s.ver uid + 1) s.vers } : State) := hi.congr rfl rfl rfl rfl rfl
  have h1 : SMono cfg.codec s ({ s with vers := insert uid (s.ver uid + 1) s.vers } : State) [] :=
    SMono.silent h0 (Nat.le_refl _) (Nat.le_refl _)
  exact h1.trans0 (forUser_smono cfg le h0 uid (some (uid, s.ver uid + 1)))

theorem loginPre_smono (cfg : Cfg) (le : ID → ID → Bool) {s : State} (hi : SInv cfg.codec s) (h : Nat) (hv : h < s.heap.length)
    (uid : String) (excl : Bool) :
    SMono cfg.codec s (Loc.loginPre cfg le s h uid excl).1 (Loc.loginPre cfg le s h uid excl).2.2 := by
  unfold Loc.loginPre
  split
  · exact logoutUser_smono cfg le hi uid
  · exact hlogout_smono cfg hi h hv

/-- `LogIn` under every oracle (the user listing, any load, any of up to four saves may fail). -/
theorem hlogin_smono (cfg : Cfg) (le : ID → ID → Bool) {s : State} (hi : SInv cfg.codec s) (h : Nat) (hv : h < s.heap.length)
    (uid : String) (excl : Bool) :
    SMono cfg.codec s (hlogin cfg le s h uid excl).1 (hlogin cfg le s h uid excl).2.2 := by
  have hP := loginPre_smono cfg le hi h hv uid excl
  have hv1 : h < (Loc.loginPre cfg le s h uid excl).1.heap.length := Nat.lt_of_lt_of_le hv hP.len
  have hS : SMono cfg.codec (Loc.loginPre cfg le s h uid excl).1 (Loc.loginSet cfg le s h uid excl).1
      (Loc.loginSet cfg le s h uid excl).2.2 := by
    unfold Loc.loginSet
    have hO := hP.inv.setObj_same h
      { (Loc.loginPre cfg le s h uid excl).1.obj h with user := some (uid, (Loc.loginPre cfg le s h uid excl).1.ver uid) } rfl rfl
    exact (SMono.silent (s := (Loc.loginPre cfg le s h uid excl).1) hO (Nat.le_refl _) (by simp)).trans0
      (cacheSet_smono cfg hO h (by simpa using hv1))
  have hPS := hP.trans hS
  have hv2 : h < (Loc.loginSet cfg le s h uid excl).1.heap.length := Nat.lt_of_lt_of_le hv hPS.len
  rw [Loc.hlogin_eq]
  split
  · exact hP
  · split
    · exact hPS
    · exact hPS.trans (regenerate_smono cfg hPS.inv h hv2)

end Sx.Glob
