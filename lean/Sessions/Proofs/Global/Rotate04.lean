import Sessions.Proofs.Global.Rotate04Ops
import Sessions.Proofs.Global.Own01
/-!
# C04 — "a due ID is replaced exactly once", history level

"…once an ID is older than SessionIDExpiry, the next request presenting it gets the same session under a new ID, and
the old ID keeps leading to it during the grace period. However many requests present the same due ID, exactly one
new ID is minted and all of them receive the same session."

(Concurrent requests on one id are serialised by the id mutex — proved elsewhere — so "K concurrent requests" are K
requests presenting the same id in some order, arbitrarily interleaved with other clients' operations.)

## the statements

* §1 `effEvs` (the persistence events of an operation that took effect: `Out.evs`, cut at the crash point when
  `Out.frozen` says the process died inside the operation), `Rot4 w g` (world/ghost invariant), `Step4`, **`rot4_step`**:
  every operation of a fault-free history — `crashinside` included — keeps the invariant, its effective events respect
  the ghost (`Fine`), and the ghost changes only by a replacement `X ⟶ gen n` with `n` minted *during this operation*.
* §2 `runG4`, `traceOf` (all effective persistence events of a history, in order), `Hist4OK` (= `HistOK`, nothing
  more), **`rot4_all_histories`**.
* §3 **`c04_rotated_once`** (part 1): in the trace of every such history, once a reference record `X ⟶ Y` has been
  written under `X`, every later save under `X` writes a reference record `X ⟶ Y` again: an id is turned into a
  reference once and for all (`c04_never_full_again`), and to one target only (`c04_one_target`);
  `c04_replaced_not_minted`. The literal reading "at most one event `.save X r` with `r.ref.isSome`" is FALSE in the
  model — a reference record that sits in the cache is flushed again by `PurgeSessions`/eviction — see
  `c04_refsave_twice`; what is unique is the *replacement* (first reference save, the only one that mints).
* §4 (part 2) `c04_req_mints` (what a request presenting `X` can do to the id counter: nothing / deletion cookie and a
  brand-new session / rotation of `X`), `RotatesAt`, **`c04_one_mint_per_due_id`** (at most one step of a history mints
  an id for `X` by rotation; as a count: `c04_rotation_count`), `c04_presented_mints_once` / `c04_mints_count` (of the
  requests presenting `X`, at most one mints without sending the deletion cookie); `hist4_split`, `hist4_at`, `rot4_later` (boundaries of a history).
* §5 (part 3) `ServedAt`, `served_root`, **`c04_same_session`** (all requests presenting `X` that are given a session
  without a deletion cookie are given ids with the same session number `rootOf`, that of `X`), `c04_same_handle`.
* §6 non-vacuity (`c04_script`: eviction + reload, purge, automatic and explicit rotation, the due id presented three
  times, handler call after `Destroy`, crash) with `#guard`s for parts 1–3; `c04_refsave_twice`; a crash point inside a
  rotation (`c04_crashinside_script`).

## hypotheses

* `OrcOK` (fault-free), `OpOK` (no codec switch; `SoleObject`): inherited from the coherence invariant (`Sx.step_inv`;
  failing cases in `Inv/Examples.lean`). Nothing else: `crash`, `crashinside k`, `dropcache`, handler calls after
  `Destroy` (the proviso of C07) are all allowed.
* the trace consists of the events that **took effect**. With the events merely *shown* the statement would be false
  when the process dies inside a rotation (`c04_crashinside_script`: the reference record `gen 0 ⟶ gen 1` is shown
  but not written; after the restart `gen 0` is rotated again, to `gen 2`).
* the request-level statements (`c04_req_mints`, `MintsFor`, `ServedAt`) speak about requests that arrive while the
  process is alive and no crash point is armed (`skip = false`, `freezeAt = none`): a request inside which the process
  dies sends no response.
-/
namespace Sx.Glob
open Sx.More
open Sx.More.C10 (refAt refAt_of_lookup)

/-! ## 1. the world invariant and one step of a history -/

/-- **the persistence events of an operation that took effect.** Normally all the events it shows (`Out.evs`); when
the process died inside the operation (`crashinside k` struck: `Out.frozen = some (some k)`) only the first `k` store
mutations shown were carried out. -/
def effEvs (out : Out) : List Ev :=
  match out.frozen with
  | some (some k) => (out.evs.filter isMut).take k
  | _ => out.evs

/-- the ghost update for one operation of a history: fold the persistence events that took effect. -/
def g4Step (g : G4) (out : Out) : G4 := (effEvs out).foldl g4Ev g

/-- **the invariant of C04** at an operation boundary (on top of `WInv3`): the store/ghost invariant `RI` holds —
always, also between a crash inside an operation and the restart —, and while the process is alive the id of the
request's session has not been replaced. -/
structure Rot4 (w : World) (g : G4) : Prop where
  ri : RI w.st g
  cur_req : ∀ h, w.cur = some h → w.inReq = true
  cur : w.skip = false → ∀ h, w.cur = some h → lookup (w.st.obj h).id g.repl = none

/-- how one operation changes the ghost: not at all, or by the replacement of one id `X` (not replaced before) by an
id minted during this very operation. -/
def GhostCase (n0 n1 : Nat) (g g' : G4) : Prop :=
  g' = g ∨ ∃ X n, n0 ≤ n ∧ n < n1 ∧ lookup X g.repl = none ∧ g' = g.link X (.gen n)

/-- what one operation of a history guarantees. -/
structure Step4 (w : World) (g : G4) (w' : World) (out : Out) : Prop where
  rot : Rot4 w' (g4Step g out)
  fine : Fine g (effEvs out)
  next : w.st.nextId ≤ w'.st.nextId
  ghost : GhostCase w.st.nextId w'.st.nextId g (g4Step g out)

theorem rot4_finW {w : World} {g : G4} (hd : Rot4 w g) : Rot4 (finW w) g := by
  unfold finW
  split
  · rename_i hc
    simp only [Bool.and_eq_true, Bool.not_eq_true'] at hc
    refine ⟨hd.ri.congr rfl rfl, hd.cur_req, ?_⟩
    intro _ h hcur
    have := hd.cur_req h hcur
    rw [hc.2] at this; cases this
  · exact hd

theorem finW_nextId (w : World) : (finW w).st.nextId = w.st.nextId := by
  unfold finW; split <;> rfl

theorem finish_eff (w : World) (o : Out) : effEvs (finish w o).2 = effEvs o := by
  unfold finish; split <;> rfl

theorem step4_finish {w w' : World} {g : G4} {o : Out} (h : Step4 w g w' o) : Step4 w g (finish w' o).1 (finish w' o).2 := by
  have he := finish_eff w' o
  have hg : g4Step g (finish w' o).2 = g4Step g o := by unfold g4Step; rw [he]
  refine ⟨?_, by rw [he]; exact h.fine, ?_, ?_⟩
  · rw [hg, finish_fst]; exact rot4_finW h.rot
  · rw [finish_fst, finW_nextId]; exact h.next
  · rw [hg, finish_fst, finW_nextId]; exact h.ghost

theorem step4_input {w w' : World} {g : G4} {o : Out} (x : Option (Option ID)) (h : Step4 w g w' o) :
    Step4 w g w' { o with input := x } := ⟨h.rot, h.fine, h.next, h.ghost⟩

theorem step4_st {w w1 w' : World} {g : G4} {o : Out} (h : Step4 w1 g w' o) (e : w1.st = w.st) : Step4 w g w' o :=
  ⟨h.rot, h.fine, by rw [← e]; exact h.next, by rw [← e]; exact h.ghost⟩

/-- an operation that shows no persistence event. -/
theorem step4_plain {w w' : World} {g : G4} {o : Out} (he : effEvs o = []) (hr : Rot4 w' g) (hn : w.st.nextId ≤ w'.st.nextId) :
    Step4 w g (finish w' o).1 (finish w' o).2 := by
  apply step4_finish
  have hg : g4Step g o = g := by unfold g4Step; rw [he]; rfl
  exact ⟨by rw [hg]; exact hr, by rw [he]; trivial, hn, Or.inl hg⟩

theorem apiCall_nextId (w : World) (orc : Orc) (run : State → State × RetV × Option String × List Ev) (b : Bool) :
    (apiCall w orc run b).1.st.nextId = (run (orcSt w orc)).1.nextId := by
  rw [apiCall_fst]
  show (advance (apiMid w _ _) 1).1.nextId = _
  rw [(advance_delta _ 1).2.2.2.2.2.1]
  unfold apiMid; split <;> rfl

/-- the events of an API call that took effect. -/
theorem apiCall_eff (w : World) (orc : Orc) (run : State → State × RetV × Option String × List Ev) (b : Bool) :
    effEvs (apiCall w orc run b).2 =
      match apiFrz w (run (orcSt w orc)).2.2.2 with
      | none => (run (orcSt w orc)).2.2.2.filter (fun e => !isCookie e)
      | some k => (apiMuts (run (orcSt w orc)).2.2.2).take k := by
  unfold apiCall apiFrz apiMuts effEvs
  show _ = match (match w.freezeAt with
      | none => none
      | some k => if k ≤ (((run { w.st with fails := orc.fails, picks := orc.picks }).2.2.2.filter
          (fun e => !isCookie e)).filter isMut).length then some k else none) with
    | none => (run { w.st with fails := orc.fails, picks := orc.picks }).2.2.2.filter (fun e => !isCookie e)
    | some k => (((run { w.st with fails := orc.fails, picks := orc.picks }).2.2.2.filter
          (fun e => !isCookie e)).filter isMut).take k
  generalize run { w.st with fails := orc.fails, picks := orc.picks } = r
  obtain ⟨s1, ret, msg, evs⟩ := r
  simp only []
  cases w.freezeAt with
  | none => rfl
  | some k =>
    simp only []
    by_cases hk : k ≤ (List.filter isMut (List.filter (fun e => !isCookie e) evs)).length
    · simp only [hk, if_true]
    · simp only [hk, if_false]

theorem apiMuts_fold (g : G4) (evs : List Ev) : (apiMuts evs).foldl g4Ev g = evs.foldl g4Ev g := by
  unfold apiMuts; rw [fold4_muts, fold4_filter]

theorem apiMuts_fine {g : G4} {evs : List Ev} (h : Fine g evs) : Fine g (apiMuts evs) := by
  unfold apiMuts; rw [fine_muts, fine_filter]; exact h

theorem ghostCase_length {n0 n1 : Nat} {g g' : G4} (h : GhostCase n0 n1 g g') : g'.repl.length ≤ g.repl.length + 1 := by
  rcases h with e | ⟨X, n, _, _, _, e⟩
  · rw [e]; omega
  · rw [e, link_repl_length]; omega

/-- **one API call**: what the function run guarantees on the state with the oracles installed carries over to the
world after the quiescence tick — and when an armed `crashinside k` strikes, the store left by the first `k` mutations
agrees with the ghost folded over exactly these mutations. -/
theorem api4 (w : World) (orc : Orc) (run : State → State × RetV × Option String × List Ev) (b : Bool)
    {g : G4} (hsk : w.skip = false) (hri0 : RI w.st g) (hcr : ∀ h, w.cur = some h → w.inReq = true)
    (hri : RI (run (orcSt w orc)).1 ((run (orcSt w orc)).2.2.2.foldl g4Ev g))
    (hcur : ∀ h, w.cur = some h →
      lookup ((run (orcSt w orc)).1.obj h).id ((run (orcSt w orc)).2.2.2.foldl g4Ev g).repl = none)
    (hfine : Fine g (run (orcSt w orc)).2.2.2) (hnext : w.st.nextId ≤ (run (orcSt w orc)).1.nextId)
    (hgc : GhostCase w.st.nextId (run (orcSt w orc)).1.nextId g ((run (orcSt w orc)).2.2.2.foldl g4Ev g)) :
    Step4 w g (apiCall w orc run b).1 (apiCall w orc run b).2 := by
  have hn := apiCall_nextId w orc run b
  have heff := apiCall_eff w orc run b
  have hcr' : ∀ h, (apiCall w orc run b).1.cur = some h → (apiCall w orc run b).1.inReq = true := by
    intro h hc; rw [apiCall_cur] at hc; rw [apiCall_inReq]; exact hcr h hc
  cases hfz : apiFrz w (run (orcSt w orc)).2.2.2 with
  | none =>
    rw [hfz] at heff
    have hg : g4Step g (apiCall w orc run b).2 = (run (orcSt w orc)).2.2.2.foldl g4Ev g := by
      unfold g4Step; rw [heff, fold4_filter]
    refine ⟨⟨?_, hcr', ?_⟩, by rw [heff, fine_filter]; exact hfine, by rw [hn]; exact hnext, by rw [hg, hn]; exact hgc⟩
    · rw [hg, apiCall_fst]
      show RI (advance (apiMid w _ _) 1).1 _
      have hmid : apiMid w (run (orcSt w orc)).1 (run (orcSt w orc)).2.2.2 =
          { (run (orcSt w orc)).1 with fails := [], picks := [] } := by unfold apiMid; rw [hfz]
      rw [hmid]
      exact (hri.congr (s' := { (run (orcSt w orc)).1 with fails := [], picks := [] }) rfl rfl).advance 1
    · intro _ h hc
      rw [apiCall_cur] at hc
      rw [hg, apiCall_fst]
      show lookup ((advance (apiMid w _ _) 1).1.obj h).id _ = none
      rw [obj_of_heap_eq (advance_delta _ 1).2.2.2.2.1]
      have hmid : apiMid w (run (orcSt w orc)).1 (run (orcSt w orc)).2.2.2 =
          { (run (orcSt w orc)).1 with fails := [], picks := [] } := by unfold apiMid; rw [hfz]
      rw [hmid]
      exact hcur h hc
  | some k =>
    rw [hfz] at heff
    have hfP : Fine g ((apiMuts (run (orcSt w orc)).2.2.2).take k) := fine_take (apiMuts_fine hfine) k
    have hg : g4Step g (apiCall w orc run b).2 = ((apiMuts (run (orcSt w orc)).2.2.2).take k).foldl g4Ev g := by
      unfold g4Step; rw [heff]
    have hpre := fold4_prefix (g := g) (l := apiMuts (run (orcSt w orc)).2.2.2)
      (by rw [apiMuts_fold]; exact ghostCase_length hgc) k
    rw [apiMuts_fold] at hpre
    have hmid : apiMid w (run (orcSt w orc)).1 (run (orcSt w orc)).2.2.2 =
        { (run (orcSt w orc)).1 with fails := [], picks := [], store := ((apiMuts (run (orcSt w orc)).2.2.2).take k).foldl applyMut w.st.store, timers := [] } := by
      unfold apiMid; rw [hfz]
    have hrs : RS (((apiMuts (run (orcSt w orc)).2.2.2).take k).foldl applyMut w.st.store)
        (((apiMuts (run (orcSt w orc)).2.2.2).take k).foldl g4Ev g) := hri0.rs.fold hfP
    have hskip' : (apiCall w orc run b).1.skip = w.inReq := by
      rw [apiCall_fst]; simp [hsk, hfz]
    refine ⟨⟨?_, hcr', ?_⟩, by rw [heff]; exact hfP, by rw [hn]; exact hnext, ?_⟩
    · rw [hg, apiCall_fst]
      show RI (advance (apiMid w _ _) 1).1 _
      rw [hmid]
      apply RI.advance
      rcases hpre with e | e
      · rw [e] at hrs ⊢
        exact hri0.of_rs (s' := { (run (orcSt w orc)).1 with fails := [], picks := [], store := ((apiMuts (run (orcSt w orc)).2.2.2).take k).foldl applyMut w.st.store, timers := [] }) hrs hnext
      · rw [e] at hrs ⊢
        exact hri.of_rs (s' := { (run (orcSt w orc)).1 with fails := [], picks := [], store := ((apiMuts (run (orcSt w orc)).2.2.2).take k).foldl applyMut w.st.store, timers := [] }) hrs
            (Nat.le_refl _)
    · intro hs h hc
      rw [hskip'] at hs
      rw [apiCall_cur] at hc
      have := hcr h hc
      rw [hs] at this; cases this
    · rw [hg, hn]
      rcases hpre with e | e
      · exact Or.inl e
      · rw [e]; exact hgc

theorem step_skip_out4 (le : ID → ID → Bool) (w : World) (orc : Orc) (op : Op) (hsk : w.skip = true)
    (hne : op ≠ .endReq) : (w.step le orc op).2 = { silent := true } := by
  unfold World.step
  cases op <;> first | exact absurd rfl hne | simp only [hsk, Bool.true_and, Bool.not_false, if_true]

/-- **every operation of a fault-free history keeps the C04 invariant** — `crashinside` included —, the ghost being
updated from the persistence events of the operation that took effect (`g4Step`); these events respect the ghost; and
the ghost changes at most by one replacement `X ⟶ gen n` with `n` minted during this operation. -/
theorem rot4_step {c : Codec} (le : ID → ID → Bool) (w : World) (orc : Orc) (op : Op) (hw : WInv3 c w) {g : G4}
    (hd : Rot4 w g) (ho : OrcOK orc) (hopk : OpOK le w op) :
    Step4 w g (w.step le orc op).1 (w.step le orc op).2 := by
  by_cases hsk : w.skip = true
  · by_cases he : op = .endReq
    · subst he
      unfold World.step
      simp only [Bool.not_true, Bool.and_false, Bool.false_eq_true, if_false]
      exact step4_plain rfl ⟨hd.ri, by intro h hc; simp at hc, by intro _ h hc; simp at hc⟩ (Nat.le_refl _)
    · have h1 := step_skip le w orc op hsk he
      have h2 := step_skip_out4 le w orc op hsk he
      rw [h1, h2]
      exact ⟨hd, trivial, Nat.le_refl _, Or.inl rfl⟩
  have hsk' : w.skip = false := by simpa using hsk
  obtain ⟨hinv, hcur⟩ := hw.inv.good hsk'
  obtain ⟨hi3, hcref⟩ := hw.w3.good hsk'
  have hcd := hw.inv.codec
  subst hcd
  have hnf0 : NoFail (orcSt w orc) := ho
  have hinv0 : Inv w.cfg.codec (orcSt w orc) := hinv.congr rfl rfl rfl rfl rfl
  have hcur0 : ∀ h, w.cur = some h → HOK (orcSt w orc) h := fun h hh => (hcur h hh).congr rfl rfl rfl
  have hri0 : RI (orcSt w orc) g := hd.ri.congr rfl rfl
  have hcref0 : ∀ h, w.cur = some h → ((orcSt w orc).obj h).ref = none := hcref
  have hrep0 : ∀ h, w.cur = some h → lookup ((orcSt w orc).obj h).id g.repl = none := hd.cur hsk'
  -- a quiet API call that keeps the ids of the objects
  have quiet : ∀ (run : State → State × RetV × Option String × List Ev) (b : Bool),
      RQ (FullX g) (orcSt w orc) (run (orcSt w orc)).1 (run (orcSt w orc)).2.2.2 →
      (orcSt w orc).nextId ≤ (run (orcSt w orc)).1.nextId →
      (∀ h, w.cur = some h → ((run (orcSt w orc)).1.obj h).id = ((orcSt w orc).obj h).id) →
      Step4 w g (apiCall w orc run b).1 (apiCall w orc run b).2 := by
    intro run b hq hn hid
    obtain ⟨h1, h2, h3⟩ := hri0.rq hq (fun _ _ hx => hx) hn
    refine api4 w orc run b hsk' hd.ri hd.cur_req (by rw [h3]; exact h1) ?_ h2 hn (Or.inl h3)
    intro h hc
    rw [h3, hid h hc]; exact hrep0 h hc
  unfold World.step
  cases op with
  | codec c' => exact absurd hopk (by simp [OpOK])
  | crashinside k =>
    simp only [hsk', Bool.false_and, Bool.false_eq_true, if_false]
    exact step4_plain rfl ⟨hd.ri, hd.cur_req, fun _ => hd.cur hsk'⟩ (Nat.le_refl _)
  | cfg n v =>
    simp only [hsk', Bool.false_and, Bool.false_eq_true, if_false]
    exact step4_plain rfl ⟨hd.ri, hd.cur_req, fun _ => hd.cur hsk'⟩ (Nat.le_refl _)
  | cookiecfg ck =>
    simp only [hsk', Bool.false_and, Bool.false_eq_true, if_false]
    exact step4_plain rfl ⟨hd.ri, hd.cur_req, fun _ => hd.cur hsk'⟩ (Nat.le_refl _)
  | fault =>
    simp only [hsk', Bool.false_and, Bool.false_eq_true, if_false]
    exact step4_plain rfl hd (Nat.le_refl _)
  | expiredRec id =>
    simp only [hsk', Bool.false_and, Bool.false_eq_true, if_false]
    exact step4_plain rfl hd (Nat.le_refl _)
  | crash =>
    simp only [hsk', Bool.false_and, Bool.false_eq_true, if_false]
    exact step4_plain rfl ⟨hd.ri, hd.cur_req, fun _ => hd.cur hsk'⟩ (Nat.le_refl _)
  | stale uid id =>
    simp only [hsk', Bool.false_and, Bool.false_eq_true, if_false]
    exact step4_plain rfl ⟨hd.ri.congr rfl rfl, hd.cur_req, fun _ => hd.cur hsk'⟩ (Nat.le_refl _)
  | dropcache =>
    simp only [hsk', Bool.false_and, Bool.false_eq_true, if_false]
    exact step4_plain rfl ⟨hd.ri.congr rfl rfl, hd.cur_req, fun _ => hd.cur hsk'⟩ (Nat.le_refl _)
  | wait d =>
    simp only [hsk', Bool.false_and, Bool.false_eq_true, if_false]
    have a := advance_delta w.st d
    refine step4_plain rfl ⟨hd.ri.advance d, hd.cur_req, ?_⟩ (by rw [a.2.2.2.2.2.1]; exact Nat.le_refl _)
    intro _ h hc
    show lookup ((advance w.st d).1.obj h).id g.repl = none
    rw [obj_of_heap_eq a.2.2.2.2.1]; exact hd.cur hsk' h hc
  | endReq =>
    simp only [hsk', Bool.false_and, Bool.false_eq_true, if_false]
    exact step4_plain rfl ⟨hd.ri, by intro h hc; simp at hc, by intro _ h hc; simp at hc⟩ (Nat.le_refl _)
  | purge =>
    simp only [hsk', Bool.false_and, Bool.false_eq_true, if_false]
    refine step4_finish (quiet _ false ?_ ?_ ?_)
    · exact (rq_purge hinv0).mono (fun _ _ hx => absurd hx id)
    · exact (purge_spec w.cfg (orcSt w orc) hnf0 hinv0).1.step.next
    · intro h _
      exact congrArg Sess.id (obj_of_heap_eq (purge_delta w.cfg (orcSt w orc) hinv0).2.1 h)
  | logoutUser uid =>
    simp only [hsk', Bool.false_and, Bool.false_eq_true, if_false]
    have hP := logoutUser_spec w.cfg le (orcSt w orc) uid hnf0 hinv0
    refine step4_finish (quiet _ false ?_ ?_ ?_)
    · exact (rq_logoutUser w.cfg le (orcSt w orc) uid hnf0 hinv0).mono (fun _ _ hx => absurd hx id)
    · exact hP.step.next
    · intro h hc; exact (hP.step.ids h (hcur0 h hc).valid).1
  | refresh uid =>
    simp only [hsk', Bool.false_and, Bool.false_eq_true, if_false]
    have hP := refreshUser_spec w.cfg le (orcSt w orc) uid hnf0 hinv0
    refine step4_finish (quiet _ false ?_ ?_ ?_)
    · exact (rq_refreshUser w.cfg le (orcSt w orc) uid hnf0 hinv0).mono (fun _ _ hx => absurd hx id)
    · exact hP.step.next
    · intro h hc; exact (hP.step.ids h (hcur0 h hc).valid).1
  | req client spec ip ua create =>
    simp only [hsk', Bool.false_and, Bool.false_eq_true, if_false]
    generalize ({ cookie := _, cookieLen := _, ip := ip, ua := ua, create := create } : Req) = r
    have hS := start_g4 w.cfg (orcSt w orc) r hnf0 hinv0 hri0
    have hstep := (start_spec w.cfg (orcSt w orc) r hnf0 hinv0).mono.next
    refine step4_st (step4_input _ (api4 _ orc _ true (g := g) rfl hd.ri (fun _ _ => rfl) hS.ri ?_ hS.fine hstep ?_)) rfl
    · intro h hh
      apply hS.cur h
      simp only at hh
      split at hh
      · rename_i h' hres
        simp only [Option.some.injEq] at hh
        rw [← hh]; exact hres
      · simp at hh
    · rcases hS.cases with ⟨_, e⟩ | ⟨_, e, _⟩ | ⟨X, h, _, _, e1, e2, e3, _, _, _, _⟩
      · exact Or.inl e
      · exact Or.inl e
      · exact Or.inr ⟨X, (orcSt w orc).nextId, Nat.le_refl _, by rw [e1]; exact Nat.lt_succ_self _, e2, e3⟩
  | h hop =>
    simp only [hsk', Bool.false_and, Bool.false_eq_true, if_false]
    cases hc : w.cur with
    | none =>
      exact ⟨hd, trivial, Nat.le_refl _, Or.inl rfl⟩
    | some h =>
      simp only []
      have hk0 := hcur0 h hc
      have hr0 := hcref0 h hc
      have hp0 := hrep0 h hc
      have hself : FullX g ((orcSt w orc).obj h).id ((orcSt w orc).obj h).ref ∨
          refAt (orcSt w orc).store ((orcSt w orc).obj h).id = some ((orcSt w orc).obj h).ref := Or.inl ⟨hr0, hp0⟩
      have hsame : ∀ h', w.cur = some h' → h' = h := by intro h' hh'; rw [hc] at hh'; simp at hh'; exact hh'.symm
      cases hop with
      | set k v =>
        have hP := hset_spec w.cfg (orcSt w orc) h k v hnf0 hinv0 hk0
        exact quiet _ true (rqX_hset _ w.cfg (orcSt w orc) h k v hk0.valid hself)
          hP.step.next (fun h' hh' => by rw [hsame h' hh']; exact (hP.step.ids h hk0.valid).1)
      | del k =>
        have hP := hdel_spec w.cfg (orcSt w orc) h k hnf0 hinv0 hk0
        exact quiet _ true (rqX_hdel _ w.cfg (orcSt w orc) h k hk0.valid hself)
          hP.step.next (fun h' hh' => by rw [hsame h' hh']; exact (hP.step.ids h hk0.valid).1)
      | get k => exact quiet _ true (RQ.refl _ _) (Nat.le_refl _) (fun _ _ => rfl)
      | getdel k =>
        have hP := hgetdel_spec w.cfg (orcSt w orc) h k hnf0 hinv0 hk0
        exact quiet _ true (rqX_hgetdel _ w.cfg (orcSt w orc) h k hk0.valid hself)
          hP.step.next (fun h' hh' => by rw [hsame h' hh']; exact (hP.step.ids h hk0.valid).1)
      | logout =>
        have hP := hlogout_spec w.cfg (orcSt w orc) h hnf0 hinv0 hk0
        exact quiet _ true (rqX_hlogout _ w.cfg (orcSt w orc) h hk0.valid hself)
          hP.step.next (fun h' hh' => by rw [hsame h' hh']; exact (hP.step.ids h hk0.valid).1)
      | expired => exact quiet _ true (RQ.refl _ _) (Nat.le_refl _) (fun _ _ => rfl)
      | lastaccess => exact quiet _ true (RQ.refl _ _) (Nat.le_refl _) (fun _ _ => rfl)
      | user => exact quiet _ true (RQ.refl _ _) (Nat.le_refl _) (fun _ _ => rfl)
      | destroy =>
        refine api4 w orc _ true hsk' hd.ri hd.cur_req ?_ ?_ ?_ ?_ ?_
        all_goals (show _; dsimp only []; rw [destroy_nf _ h _ hnf0])
        · have : (if w.hasCookie = true then [Ev.del ((orcSt w orc).obj h).id, Ev.delCookie]
              else [Ev.del ((orcSt w orc).obj h).id]).foldl g4Ev g = g := by cases w.hasCookie <;> rfl
          rw [this]; exact delSt_g4 hri0 _
        · intro h' hh'
          have : (if w.hasCookie = true then [Ev.del ((orcSt w orc).obj h).id, Ev.delCookie]
              else [Ev.del ((orcSt w orc).obj h).id]).foldl g4Ev g = g := by cases w.hasCookie <;> rfl
          rw [this, hsame h' hh']
          exact hp0
        · cases w.hasCookie <;> simp [Fine, evFine]
        · exact Nat.le_refl _
        · left; cases w.hasCookie <;> rfl
      | regen =>
        obtain ⟨r1, r2, r3, r4⟩ := regenerate_g4 w.cfg (orcSt w orc) h hnf0 hinv0 hk0 hri0 hr0 hp0
        have d := regenerate_delta w.cfg (orcSt w orc) h hnf0 hinv0 hk0
        refine api4 w orc _ true hsk' hd.ri hd.cur_req ?_ ?_ ?_ ?_ ?_
        all_goals (show _; dsimp only [])
        · rw [r3]; exact r1
        · intro h' hh'
          rw [r3, hsame h' hh', d.obj_h]
          show lookup (ID.gen (orcSt w orc).nextId) _ = none
          rw [link_repl_ne g _ d.ne]
          exact hri0.fresh_repl (Nat.le_refl _)
        · exact r2
        · rw [d.fr.2.1]; exact Nat.le_succ _
        · exact Or.inr ⟨_, (orcSt w orc).nextId, Nat.le_refl _, by rw [d.fr.2.1]; exact Nat.lt_succ_self _, hp0, r3⟩
      | login uid excl =>
        obtain ⟨l1, n, l2, l3, l4, l5, l6, l7⟩ := hlogin_g4 w.cfg le (orcSt w orc) h uid excl hnf0 hinv0 hk0 hri0 hr0 hp0
        refine api4 w orc _ true hsk' hd.ri hd.cur_req ?_ ?_ ?_ ?_ ?_
        all_goals (show _; dsimp only [])
        · rw [l4]; exact l5
        · intro h' hh'
          have hne : ((orcSt w orc).obj h).id ≠ .gen n := (hk0.minted.mono l2).ne_gen
          rw [l4, hsame h' hh', l6, link_repl_ne g _ hne]
          exact hri0.fresh_repl l2
        · exact l1
        · have : (orcSt w orc).nextId = w.st.nextId := rfl
          omega
        · exact Or.inr ⟨_, n, l2, l3, hp0, l4⟩

/-! ## 2. histories -/

/-- run a history, stepping the world and the ghost together (the ghost only sees the events shown). -/
def runG4 (le : ID → ID → Bool) (w : World) (g : G4) : List (Orc × Op) → World × G4
  | [] => (w, g)
  | (o, op) :: r => runG4 le (w.step le o op).1 (g4Step g (w.step le o op).2) r

/-- **the trace of a history**: the persistence events of its operations that took effect (`effEvs`: what the
operations show, `Out.evs`, cut at the crash point when the process died inside an operation), in order. -/
def traceOf (le : ID → ID → Bool) (w : World) : List (Orc × Op) → List Ev
  | [] => []
  | (o, op) :: r => effEvs (w.step le o op).2 ++ traceOf le (w.step le o op).1 r

theorem runG4_fst (le : ID → ID → Bool) (w : World) (g : G4) (hist : List (Orc × Op)) :
    (runG4 le w g hist).1 = runHist le w hist := by
  induction hist generalizing w g with
  | nil => rfl
  | cons p r ih => obtain ⟨o, op⟩ := p; exact ih _ _

/-- the ghost at the end of a history is the ghost folded over its trace. -/
theorem runG4_snd (le : ID → ID → Bool) (w : World) (g : G4) (hist : List (Orc × Op)) :
    (runG4 le w g hist).2 = (traceOf le w hist).foldl g4Ev g := by
  induction hist generalizing w g with
  | nil => rfl
  | cons p r ih =>
    obtain ⟨o, op⟩ := p
    simp only [runG4, traceOf, List.foldl_append]
    exact ih _ _

theorem runG4_append (le : ID → ID → Bool) (w : World) (g : G4) (a b : List (Orc × Op)) :
    runG4 le w g (a ++ b) = runG4 le (runG4 le w g a).1 (runG4 le w g a).2 b := by
  induction a generalizing w g with
  | nil => rfl
  | cons p r ih => obtain ⟨o, op⟩ := p; exact ih _ _

theorem traceOf_append (le : ID → ID → Bool) (w : World) (a b : List (Orc × Op)) :
    traceOf le w (a ++ b) = traceOf le w a ++ traceOf le (runHist le w a) b := by
  induction a generalizing w with
  | nil => rfl
  | cons p r ih => obtain ⟨o, op⟩ := p; simp only [List.cons_append, traceOf, runHist, ih, List.append_assoc]

/-- **the side conditions of C04** are those of the coherence invariant and nothing else (`HistOK`: fault-free oracles,
no codec switch, `SoleObject` for user-wide calls during a request). Everything else is arbitrary: presented ids
(`.val X 24` included), configuration, time, purges, cache drops, crashes between operations **and inside operations**
(`crashinside`), handler calls after `Destroy`. -/
abbrev Hist4OK (le : ID → ID → Bool) (w : World) (hist : List (Orc × Op)) : Prop := HistOK le w hist

theorem Hist4OK.cons {le : ID → ID → Bool} {w : World} {o : Orc} {op : Op} {r : List (Orc × Op)}
    (h : Hist4OK le w ((o, op) :: r)) : OrcOK o ∧ OpOK le w op ∧ Hist4OK le (w.step le o op).1 r := h

/-- what a history guarantees, from any world satisfying the invariants. -/
theorem rot4_hist {c : Codec} (le : ID → ID → Bool) (hist : List (Orc × Op)) (w : World) (g : G4) (hw : WInv3 c w)
    (hd : Rot4 w g) (hok : Hist4OK le w hist) :
    WInv3 c (runG4 le w g hist).1 ∧ Rot4 (runG4 le w g hist).1 (runG4 le w g hist).2 ∧ Fine g (traceOf le w hist) ∧
    w.st.nextId ≤ (runG4 le w g hist).1.st.nextId := by
  induction hist generalizing w g with
  | nil => exact ⟨hw, hd, trivial, Nat.le_refl _⟩
  | cons p r ih =>
    obtain ⟨o, op⟩ := p
    obtain ⟨h1, h2, h4⟩ := hok.cons
    have st := rot4_step le w o op hw hd h1 h2
    obtain ⟨i1, i2, i3, i4⟩ := ih _ _ (step_inv3 le w o op hw h1 h2) st.rot h4
    refine ⟨i1, i2, ?_, Nat.le_trans st.next i4⟩
    show Fine g (effEvs (w.step le o op).2 ++ _)
    rw [fine_append]
    exact ⟨st.fine, i3⟩

theorem rot4_init (cfg : Cfg) (ck : CookieCfg) : Rot4 { cfg := cfg, ck := ck } {} :=
  ⟨ri_init, by intro h hh; simp at hh, by intro _ h hh; simp at hh⟩

/-- **C04, the invariant at the end of every history** (hence at every boundary: `Hist4OK.take`): from the empty world
with any configuration, after every history satisfying `Hist4OK`, the coherence invariants and `Rot4` hold for the
world and the ghost computed along the way, and the trace of the history is `Fine`. -/
theorem rot4_all_histories (le : ID → ID → Bool) (cfg : Cfg) (ck : CookieCfg) (hist : List (Orc × Op))
    (hok : Hist4OK le { cfg := cfg, ck := ck } hist) :
    WInv3 cfg.codec (runG4 le { cfg := cfg, ck := ck } {} hist).1 ∧
    Rot4 (runG4 le { cfg := cfg, ck := ck } {} hist).1 (runG4 le { cfg := cfg, ck := ck } {} hist).2 ∧
    Fine {} (traceOf le { cfg := cfg, ck := ck } hist) := by
  obtain ⟨h1, h2, h3, _⟩ := rot4_hist le hist _ _ (init_winv3 cfg ck) (rot4_init cfg ck) hok
  exact ⟨h1, h2, h3⟩

/-! ## 3. part 1 — an id is replaced once and for all -/

/-- **C04 (1), `c04_rotated_once`.** In the trace (all persistence events, in order) of every fault-free history
without `crashinside` — any presented ids, `.val X 24` included, any configuration changes, waits, purges, cache drops,
crashes between operations —: once a reference record `X ⟶ Y` has been saved under `X` (position `i`), every later
save under `X` (position `j > i`) saves a reference record `X ⟶ Y` again. So `X` is turned into a reference **once**:
it never holds a full session again (`c04_never_full_again`), and it is never redirected to another id — exactly one
new id is ever minted for `X` (`c04_one_target`). The later saves are the flushes of that reference record when it
leaves the cache (`c04_refsave_twice` shows that they do occur, so "at most one event `.save X r` with `r.ref.isSome`"
would be false). -/
theorem c04_rotated_once (le : ID → ID → Bool) (cfg : Cfg) (ck : CookieCfg) (hist : List (Orc × Op))
    (hok : Hist4OK le { cfg := cfg, ck := ck } hist) {X Y : ID} {i j : Nat} {r r' : Rec} (hij : i < j)
    (hi : (traceOf le { cfg := cfg, ck := ck } hist)[i]? = some (.save X r)) (hr : r.ref = some Y)
    (hj : (traceOf le { cfg := cfg, ck := ck } hist)[j]? = some (.save X r')) : r'.ref = some Y :=
  fine_same_target (rot4_all_histories le cfg ck hist hok).2.2 hij hi hr hj

/-- a replaced id never becomes a full session again. -/
theorem c04_never_full_again (le : ID → ID → Bool) (cfg : Cfg) (ck : CookieCfg) (hist : List (Orc × Op))
    (hok : Hist4OK le { cfg := cfg, ck := ck } hist) {X : ID} {i j : Nat} {r r' : Rec} (hij : i < j)
    (hi : (traceOf le { cfg := cfg, ck := ck } hist)[i]? = some (.save X r)) (hr : r.ref.isSome = true)
    (hj : (traceOf le { cfg := cfg, ck := ck } hist)[j]? = some (.save X r')) : r'.ref ≠ none := by
  obtain ⟨Y, hY⟩ := Option.isSome_iff_exists.1 hr
  rw [c04_rotated_once le cfg ck hist hok hij hi hY hj]; simp

/-- all reference records ever saved under `X` point to the same id. -/
theorem c04_one_target (le : ID → ID → Bool) (cfg : Cfg) (ck : CookieCfg) (hist : List (Orc × Op))
    (hok : Hist4OK le { cfg := cfg, ck := ck } hist) {X Y Y' : ID} {i j : Nat} {r r' : Rec}
    (hi : (traceOf le { cfg := cfg, ck := ck } hist)[i]? = some (.save X r)) (hr : r.ref = some Y)
    (hj : (traceOf le { cfg := cfg, ck := ck } hist)[j]? = some (.save X r')) (hr' : r'.ref = some Y') : Y = Y' := by
  rcases Nat.lt_trichotomy i j with h | h | h
  · have := c04_rotated_once le cfg ck hist hok h hi hr hj
    rw [hr'] at this; exact (Option.some.inj this).symm
  · subst h; rw [hi] at hj; cases hj; rw [hr] at hr'; exact Option.some.inj hr'
  · have := c04_rotated_once le cfg ck hist hok h hj hr' hi
    rw [hr] at this; exact Option.some.inj this

/-- **a replaced id is never minted again** (and its replacement is a minted id): at every boundary the ghost's
replacements concern minted ids only; the ids still to be minted have not been replaced. -/
theorem c04_replaced_not_minted (le : ID → ID → Bool) (cfg : Cfg) (ck : CookieCfg) (hist : List (Orc × Op))
    (hok : Hist4OK le { cfg := cfg, ck := ck } hist) :
    let w := (runG4 le { cfg := cfg, ck := ck } {} hist).1
    let g := (runG4 le { cfg := cfg, ck := ck } {} hist).2
    (∀ X Y, lookup X g.repl = some Y → Minted w.st.nextId X ∧ Minted w.st.nextId Y) ∧
    (∀ n, w.st.nextId ≤ n → lookup (.gen n) g.repl = none) ∧
    (∀ X Y, lookup X g.repl = some Y → ∀ r, lookup X w.st.store = some r → r.ref = some Y) := by
  intro w g
  obtain ⟨_, h2, _⟩ := rot4_all_histories le cfg ck hist hok
  refine ⟨fun X Y h => h2.ri.mrepl X Y (Sx.lookup_some_mem h), fun n hn => h2.ri.fresh_repl hn, ?_⟩
  intro X Y h r hl
  cases hr : r.ref with
  | none =>
    have := h2.ri.full X (by rw [refAt_of_lookup hl, hr])
    rw [this] at h; cases h
  | some t =>
    have := h2.ri.ref X t (by rw [refAt_of_lookup hl, hr])
    rw [this] at h; exact h

/-! ## 4. part 2 — one mint per due id -/

theorem startRun_proj (cfg : Cfg) (r : Req) (s : State) :
    (startRun cfg r s).1 = (start cfg s r).1 ∧ (startRun cfg r s).2.1 = (resStr (start cfg s r).2.1).1 ∧
    (startRun cfg r s).2.2.2 = (start cfg s r).2.2 := by
  unfold startRun
  generalize start cfg s r = p
  obtain ⟨a, b, c⟩ := p
  exact ⟨rfl, rfl, rfl⟩

/-- **a request step seen through `Start`**: what `World.step` shows for `.req …` in terms of the run of `Start` on the
state with the oracles installed, together with `StartG4` for that run. -/
theorem req4_view {c : Codec} (le : ID → ID → Bool) (w : World) (orc : Orc) (client : String) (spec : CookieSpec)
    (ip ua : String) (create : Bool) (hw : WInv3 c w) {g : G4} (hd : Rot4 w g) (ho : OrcOK orc) (hsk : w.skip = false)
    (hfz : w.freezeAt = none) :
    StartG4 (orcSt w orc) (reqOf1 w client spec ip ua create) g (start w.cfg (orcSt w orc) (reqOf1 w client spec ip ua create)) ∧
    effEvs (w.step le orc (.req client spec ip ua create)).2 = (w.step le orc (.req client spec ip ua create)).2.evs ∧
    (w.step le orc (.req client spec ip ua create)).2.evs =
      (start w.cfg (orcSt w orc) (reqOf1 w client spec ip ua create)).2.2.filter (fun e => !isCookie e) ∧
    (w.step le orc (.req client spec ip ua create)).2.cookies =
      (start w.cfg (orcSt w orc) (reqOf1 w client spec ip ua create)).2.2.filter isCookie ∧
    (w.step le orc (.req client spec ip ua create)).2.ret =
      some (resStr (start w.cfg (orcSt w orc) (reqOf1 w client spec ip ua create)).2.1).1 ∧
    (w.step le orc (.req client spec ip ua create)).1.cur =
      curOf (start w.cfg (orcSt w orc) (reqOf1 w client spec ip ua create)).2.1 ∧
    g4Step g (w.step le orc (.req client spec ip ua create)).2 =
      (start w.cfg (orcSt w orc) (reqOf1 w client spec ip ua create)).2.2.foldl g4Ev g ∧
    (w.step le orc (.req client spec ip ua create)).1.st.nextId =
      (start w.cfg (orcSt w orc) (reqOf1 w client spec ip ua create)).1.nextId ∧
    (∀ h, (w.step le orc (.req client spec ip ua create)).1.st.obj h =
      (start w.cfg (orcSt w orc) (reqOf1 w client spec ip ua create)).1.obj h) ∧
    (w.step le orc (.req client spec ip ua create)).1.skip = false := by
  obtain ⟨hinv, _⟩ := hw.inv.good hsk
  have hcd := hw.inv.codec
  subst hcd
  have hnf0 : NoFail (orcSt w orc) := ho
  have hinv0 : Inv w.cfg.codec (orcSt w orc) := hinv.congr rfl rfl rfl rfl rfl
  have hS := start_g4 w.cfg (orcSt w orc) (reqOf1 w client spec ip ua create) hnf0 hinv0 (hd.ri.congr rfl rfl)
  refine ⟨hS, ?_⟩
  rw [step_req le w orc client spec ip ua create hsk]
  generalize reqOf1 w client spec ip ua create = r
  have hfr : (reqWorld w orc client (presOf w client spec).isSome r).freezeAt = none := hfz
  have hpr := startRun_proj w.cfg r (orcSt w orc)
  have hout := apiCall_out (reqWorld w orc client (presOf w client spec).isSome r) orc (startRun w.cfg r) true
  have hev := apiCall_evs (reqWorld w orc client (presOf w client spec).isSome r) orc (startRun w.cfg r) true
  have ho1 : orcSt (reqWorld w orc client (presOf w client spec).isSome r) orc = orcSt w orc := rfl
  rw [ho1] at hout hev
  have hfrz : apiFrz (reqWorld w orc client (presOf w client spec).isSome r) (startRun w.cfg r (orcSt w orc)).2.2.2 = none := by
    unfold apiFrz; rw [hfr]
  have heff : effEvs (apiCall (reqWorld w orc client (presOf w client spec).isSome r) orc (startRun w.cfg r) true).2 =
      (apiCall (reqWorld w orc client (presOf w client spec).isSome r) orc (startRun w.cfg r) true).2.evs := by
    rw [apiCall_eff, hev, ho1, hfrz]
  refine ⟨heff, ?_, ?_, ?_, ?_, ?_, ?_, ?_, ?_⟩
  rotate_left 7
  · rw [apiCall_fst]
    show ((reqWorld w orc client (presOf w client spec).isSome r).skip ||
      ((apiFrz (reqWorld w orc client (presOf w client spec).isSome r) (startRun w.cfg r (orcSt w orc)).2.2.2).isSome &&
        (reqWorld w orc client (presOf w client spec).isSome r).inReq)) = false
    rw [hfrz]
    simp [reqWorld, hsk]
  · show (apiCall _ orc (startRun w.cfg r) true).2.evs = _
    rw [hev, hpr.2.2]
  · show (apiCall _ orc (startRun w.cfg r) true).2.cookies = _
    rw [hout.2.1, hpr.2.2]
  · show (apiCall _ orc (startRun w.cfg r) true).2.ret = _
    rw [hout.1, hpr.2.1]
  · rw [apiCall_cur]; rfl
  · show (effEvs (apiCall _ orc (startRun w.cfg r) true).2).foldl g4Ev g = _
    rw [heff, hev, fold4_filter, hpr.2.2]
  · rw [apiCall_nextId _ orc _ true, ho1, hpr.1]
  · intro h
    rw [apiCall_obj_nf _ orc _ true hfr h, ho1, hpr.1]

theorem reqOf1_pres {w : World} {client : String} {spec : CookieSpec} {X : ID} (ip ua : String) (create : Bool)
    (hp : presOf w client spec = some (X, 24)) :
    (reqOf1 w client spec ip ua create).cookie = some X ∧ (reqOf1 w client spec ip ua create).cookieLen = 24 := by
  simp [reqOf1, hp]

/-- **C04 (2), the request level: what a request presenting `X` can do to the id counter.** Fault-free, at a boundary
satisfying the invariants, with the process alive and no crash point armed, a request presenting `X` (jar = `X`, or
`.val X 24`) either (N) mints nothing; or (C) is
answered with the deletion cookie (`X` was refused or unknown, and if anything was minted it is the id of a brand-new
session); or (R) **rotates `X`**: `X` had not been replaced before, exactly one id is minted, the reference record
`X ⟶ gen nextId` is among the events shown, the request returns the session — now under the id just minted — and the
response carries no deletion cookie. -/
theorem c04_req_mints {c : Codec} (le : ID → ID → Bool) (w : World) (orc : Orc) (client : String) (spec : CookieSpec)
    (ip ua : String) (create : Bool) (hw : WInv3 c w) {g : G4} (hd : Rot4 w g) (ho : OrcOK orc) (hsk : w.skip = false)
    (hfz : w.freezeAt = none) {X : ID} (hp : presOf w client spec = some (X, 24)) :
    (w.step le orc (.req client spec ip ua create)).1.st.nextId = w.st.nextId ∨
    Ev.delCookie ∈ (w.step le orc (.req client spec ip ua create)).2.cookies ∨
    (lookup X g.repl = none ∧ (w.step le orc (.req client spec ip ua create)).1.st.nextId = w.st.nextId + 1 ∧
      (∃ rc, Ev.save X rc ∈ (w.step le orc (.req client spec ip ua create)).2.evs ∧ rc.ref = some (.gen w.st.nextId)) ∧
      (w.step le orc (.req client spec ip ua create)).2.ret = some (.str "sess") ∧
      Ev.delCookie ∉ (w.step le orc (.req client spec ip ua create)).2.cookies ∧
      ∃ h, (w.step le orc (.req client spec ip ua create)).1.cur = some h ∧
        ((w.step le orc (.req client spec ip ua create)).1.st.obj h).id = .gen w.st.nextId) := by
  obtain ⟨hS, _, v1, v2, v3, v4, _, v6, v7, _⟩ := req4_view le w orc client spec ip ua create hw hd ho hsk hfz
  obtain ⟨hc1, hc2⟩ := reqOf1_pres ip ua create hp
  rw [v6, v2, v1, v3, v4]
  rcases hS.cases with ⟨e, _⟩ | ⟨_, _, e, _⟩ | ⟨X', h, e1, _, e3, e4, _, e6, e7, ⟨rc, e8, e9⟩, e10⟩
  · exact Or.inl e
  · rcases e with e | e | e
    · rw [hc1] at e; cases e
    · exact absurd hc2 e
    · exact Or.inr (Or.inl (List.mem_filter.2 ⟨e, rfl⟩))
  · rw [hc1] at e1; simp only [Option.some.injEq] at e1; subst e1
    refine Or.inr (Or.inr ⟨e4, e3, ⟨rc, List.mem_filter.2 ⟨e8, rfl⟩, e9⟩, by rw [e6]; rfl, ?_, h, by rw [e6]; rfl, ?_⟩)
    · intro hm; exact e10 (List.mem_filter.1 hm).1
    · rw [v7, e7]

/-! ### positions in a history -/

theorem histOK_append {le : ID → ID → Bool} {w : World} {a b : List (Orc × Op)} :
    HistOK le w (a ++ b) ↔ HistOK le w a ∧ HistOK le (runHist le w a) b := by
  induction a generalizing w with
  | nil => simp [HistOK, runHist]
  | cons p r ih =>
    obtain ⟨o, op⟩ := p
    simp only [List.cons_append, HistOK, runHist, ih]
    constructor
    · rintro ⟨h1, h2, h3, h4⟩; exact ⟨⟨h1, h2, h3⟩, h4⟩
    · rintro ⟨⟨h1, h2, h3⟩, h4⟩; exact ⟨h1, h2, h3, h4⟩

/-- **any boundary of a history**: the invariants hold there, and the rest of the history is a history from there. -/
theorem hist4_split (le : ID → ID → Bool) (cfg : Cfg) (ck : CookieCfg) (hist : List (Orc × Op))
    (hok : Hist4OK le { cfg := cfg, ck := ck } hist) (k : Nat) :
    WInv3 cfg.codec (runG4 le { cfg := cfg, ck := ck } {} (hist.take k)).1 ∧
    Rot4 (runG4 le { cfg := cfg, ck := ck } {} (hist.take k)).1 (runG4 le { cfg := cfg, ck := ck } {} (hist.take k)).2 ∧
    Hist4OK le (runG4 le { cfg := cfg, ck := ck } {} (hist.take k)).1 (hist.drop k) ∧
    runG4 le { cfg := cfg, ck := ck } {} hist =
      runG4 le (runG4 le { cfg := cfg, ck := ck } {} (hist.take k)).1
        (runG4 le { cfg := cfg, ck := ck } {} (hist.take k)).2 (hist.drop k) := by
  obtain ⟨h1, h2, _⟩ := rot4_all_histories le cfg ck _ (HistOK.take hok k)
  refine ⟨h1, h2, ?_, ?_⟩
  · have : HistOK le { cfg := cfg, ck := ck } hist := hok
    rw [← List.take_append_drop k hist, histOK_append] at this
    rw [runG4_fst]; exact this.2
  · rw [← runG4_append, List.take_append_drop]

/-- from a boundary to the end of a history: ids are only minted, replacements are never forgotten, and minted ids
keep their root (session number). -/
theorem rot4_later {c : Codec} (le : ID → ID → Bool) (hist : List (Orc × Op)) (w : World) (g : G4) (hw : WInv3 c w)
    (hd : Rot4 w g) (hok : Hist4OK le w hist) :
    w.st.nextId ≤ (runG4 le w g hist).1.st.nextId ∧
    (∀ X t, lookup X g.repl = some t → lookup X (runG4 le w g hist).2.repl = some t) ∧
    (∀ y, Minted w.st.nextId y → (runG4 le w g hist).2.rootOf y = g.rootOf y) := by
  refine ⟨(rot4_hist le hist w g hw hd hok).2.2.2, ?_, ?_⟩
  · intro X t h
    rw [runG4_snd]; exact repl_mono_fold g _ h
  · induction hist generalizing w g with
    | nil => intro y _; rfl
    | cons p r ih =>
      obtain ⟨o, op⟩ := p
      obtain ⟨h1, h2, h4⟩ := hok.cons
      have st := rot4_step le w o op hw hd h1 h2
      intro y hy
      have := ih _ _ (step_inv3 le w o op hw h1 h2) st.rot h4 y (hy.mono st.next)
      show (runG4 le (w.step le o op).1 (g4Step g (w.step le o op).2) r).2.rootOf y = _
      rw [this]
      rcases st.ghost with e | ⟨X, n, hn, _, _, e⟩
      · rw [e]
      · rw [e, rootOf_link4, if_neg]
        intro e'
        exact (hy.mono hn).ne_gen e'.symm

theorem histOK_at {le : ID → ID → Bool} {w : World} {hist : List (Orc × Op)} (h : Hist4OK le w hist) {k : Nat} {o : Orc} {op : Op}
    (hk : hist[k]? = some (o, op)) : OrcOK o ∧ OpOK le (runHist le w (hist.take k)) op := by
  induction hist generalizing w k with
  | nil => simp at hk
  | cons p r ih =>
    cases k with
    | zero =>
      simp only [List.getElem?_cons_zero, Option.some.injEq] at hk
      subst hk
      exact ⟨h.cons.1, h.cons.2.1⟩
    | succ k =>
      obtain ⟨o', op'⟩ := p
      simp only [List.getElem?_cons_succ] at hk
      exact ih h.cons.2.2 hk

/-- **one step inside a history**: the invariants before it, what the step guarantees, and the run up to the next
boundary. -/
theorem hist4_at (le : ID → ID → Bool) (cfg : Cfg) (ck : CookieCfg) (hist : List (Orc × Op))
    (hok : Hist4OK le { cfg := cfg, ck := ck } hist) {k : Nat} {o : Orc} {op : Op} (hk : hist[k]? = some (o, op)) :
    WInv3 cfg.codec (runG4 le { cfg := cfg, ck := ck } {} (hist.take k)).1 ∧
    Rot4 (runG4 le { cfg := cfg, ck := ck } {} (hist.take k)).1 (runG4 le { cfg := cfg, ck := ck } {} (hist.take k)).2 ∧
    OrcOK o ∧
    Step4 (runG4 le { cfg := cfg, ck := ck } {} (hist.take k)).1 (runG4 le { cfg := cfg, ck := ck } {} (hist.take k)).2
      ((runG4 le { cfg := cfg, ck := ck } {} (hist.take k)).1.step le o op).1
      ((runG4 le { cfg := cfg, ck := ck } {} (hist.take k)).1.step le o op).2 ∧
    runG4 le { cfg := cfg, ck := ck } {} (hist.take (k + 1)) =
      (((runG4 le { cfg := cfg, ck := ck } {} (hist.take k)).1.step le o op).1,
       g4Step (runG4 le { cfg := cfg, ck := ck } {} (hist.take k)).2
         ((runG4 le { cfg := cfg, ck := ck } {} (hist.take k)).1.step le o op).2) := by
  obtain ⟨h1, h2, _⟩ := rot4_all_histories le cfg ck _ (HistOK.take hok k)
  obtain ⟨a1, a2⟩ := histOK_at hok hk
  rw [← runG4_fst le _ {}] at a2
  refine ⟨h1, h2, a1, rot4_step le _ o op h1 h2 a1 a2, ?_⟩
  rw [List.take_add_one, hk, runG4_append]
  rfl

theorem fine_mem_repl {g : G4} {evs : List Ev} (hf : Fine g evs) {X t : ID} {rc : Rec} (hm : Ev.save X rc ∈ evs)
    (hr : rc.ref = some t) : lookup X (evs.foldl g4Ev g).repl = some t := by
  obtain ⟨a, b, rfl⟩ := List.append_of_mem hm
  rw [fine_append] at hf
  rw [List.foldl_append, List.foldl_cons]
  exact repl_mono_fold _ b (repl_after_save hf.2.1 hr)

theorem fine_mem_replaced {g : G4} {evs : List Ev} (hf : Fine g evs) {X t : ID} (hl : lookup X g.repl = some t) {r : Rec}
    (hm : Ev.save X r ∈ evs) : r.ref = some t := by
  obtain ⟨i, hi⟩ := List.mem_iff_getElem?.1 hm
  exact fine_replaced hf hl hi

/-- **step `k` of the history mints an id for `X` by rotation**: it carries out the save of a reference record under
`X` whose target is an id that was not minted before this step. -/
def RotatesAt (le : ID → ID → Bool) (w0 : World) (hist : List (Orc × Op)) (k : Nat) (X : ID) : Prop :=
  ∃ o op rc n, hist[k]? = some (o, op) ∧
    Ev.save X rc ∈ effEvs ((runG4 le w0 {} (hist.take k)).1.step le o op).2 ∧ rc.ref = some (.gen n) ∧
    (runG4 le w0 {} (hist.take k)).1.st.nextId ≤ n

/-- **C04 (2), `c04_one_mint_per_due_id`.** In every fault-free history without `crashinside`, for every id `X`, at
most one step mints an id for `X`'s session by rotation — however many requests present the due id `X`, in whatever
order and interleaving with other operations (`RegenerateID`/`LogIn` called by a handler count as well). By
`c04_req_mints` every other request presenting `X` mints nothing, or answers with the deletion cookie. -/
theorem c04_one_mint_per_due_id (le : ID → ID → Bool) (cfg : Cfg) (ck : CookieCfg) (hist : List (Orc × Op))
    (hok : Hist4OK le { cfg := cfg, ck := ck } hist) (X : ID) {k k' : Nat} (hkk : k < k') :
    ¬ (RotatesAt le { cfg := cfg, ck := ck } hist k X ∧ RotatesAt le { cfg := cfg, ck := ck } hist k' X) := by
  rintro ⟨⟨o, op, rc, n, hk, hm, hr, hn⟩, ⟨o', op', rc', n', hk', hm', hr', hn'⟩⟩
  obtain ⟨_, _, _, st, hrun⟩ := hist4_at le cfg ck hist hok hk
  obtain ⟨_, _, _, st', _⟩ := hist4_at le cfg ck hist hok hk'
  -- after step k, `X` is recorded as replaced by `gen n`, which is minted by then
  have hrep : lookup X (runG4 le { cfg := cfg, ck := ck } {} (hist.take (k + 1))).2.repl = some (.gen n) := by
    rw [hrun]; exact fine_mem_repl st.fine hm hr
  have hmint : n < (runG4 le { cfg := cfg, ck := ck } {} (hist.take (k + 1))).1.st.nextId := by
    have := (st.rot.ri.mrepl X (.gen n) (Sx.lookup_some_mem (by rw [hrun] at hrep; exact hrep))).2
    obtain ⟨m, e, hm⟩ := this
    rw [hrun]
    cases e; exact hm
  -- from the boundary k+1 to the boundary k'
  have hsp := hist4_split le cfg ck (hist.take k') (HistOK.take hok k') (k + 1)
  rw [List.take_take, Nat.min_eq_left (by omega : k + 1 ≤ k')] at hsp
  obtain ⟨s1, s2, s3, s4⟩ := hsp
  obtain ⟨l1, l2, _⟩ := rot4_later le _ _ _ s1 s2 s3
  rw [← s4] at l1 l2
  have hrep' := l2 X _ hrep
  have := fine_mem_replaced st'.fine hrep' hm'
  rw [hr'] at this
  simp only [Option.some.injEq, ID.gen.injEq] at this
  omega

/-- **step `k` is a request that presents `X`, mints an id, and sends no deletion cookie** (the process being alive
and no crash point armed when it arrives). -/
def MintsFor (le : ID → ID → Bool) (w0 : World) (hist : List (Orc × Op)) (k : Nat) (X : ID) : Prop :=
  ∃ o client spec ip ua create, hist[k]? = some (o, .req client spec ip ua create) ∧
    (runG4 le w0 {} (hist.take k)).1.skip = false ∧ (runG4 le w0 {} (hist.take k)).1.freezeAt = none ∧
    presOf (runG4 le w0 {} (hist.take k)).1 client spec = some (X, 24) ∧
    ((runG4 le w0 {} (hist.take k)).1.step le o (.req client spec ip ua create)).1.st.nextId ≠
      (runG4 le w0 {} (hist.take k)).1.st.nextId ∧
    Ev.delCookie ∉ ((runG4 le w0 {} (hist.take k)).1.step le o (.req client spec ip ua create)).2.cookies

theorem mintsFor_rotates (le : ID → ID → Bool) (cfg : Cfg) (ck : CookieCfg) (hist : List (Orc × Op))
    (hok : Hist4OK le { cfg := cfg, ck := ck } hist) {k : Nat} {X : ID}
    (h : MintsFor le { cfg := cfg, ck := ck } hist k X) : RotatesAt le { cfg := cfg, ck := ck } hist k X := by
  obtain ⟨o, client, spec, ip, ua, create, hk, hsk, hfz, hp, hne, hnd⟩ := h
  obtain ⟨hw, hd, ho, _, _⟩ := hist4_at le cfg ck hist hok hk
  have heff := (req4_view le _ o client spec ip ua create hw hd ho hsk hfz).2.1
  rcases c04_req_mints le _ o client spec ip ua create hw hd ho hsk hfz hp with e | e | ⟨_, _, ⟨rc, e1, e2⟩, _⟩
  · exact absurd e hne
  · exact absurd e hnd
  · exact ⟨o, _, rc, _, hk, by rw [heff]; exact e1, e2, Nat.le_refl _⟩

/-- **C04 (2), in the words of the property**: of all the requests of a history that present the same id `X`, at most
one mints an id without refusing `X` (without sending the deletion cookie) — the one that rotates `X`; all the others
mint nothing, or were refused and created a brand-new session (`c04_req_mints`). -/
theorem c04_presented_mints_once (le : ID → ID → Bool) (cfg : Cfg) (ck : CookieCfg) (hist : List (Orc × Op))
    (hok : Hist4OK le { cfg := cfg, ck := ck } hist) (X : ID) {k k' : Nat} (hkk : k < k') :
    ¬ (MintsFor le { cfg := cfg, ck := ck } hist k X ∧ MintsFor le { cfg := cfg, ck := ck } hist k' X) :=
  fun ⟨h1, h2⟩ => c04_one_mint_per_due_id le cfg ck hist hok X hkk
    ⟨mintsFor_rotates le cfg ck hist hok h1, mintsFor_rotates le cfg ck hist hok h2⟩

/-- … as a count: any list of distinct steps that all mint an id for `X` by rotation has at most one element. -/
theorem c04_rotation_count (le : ID → ID → Bool) (cfg : Cfg) (ck : CookieCfg) (hist : List (Orc × Op))
    (hok : Hist4OK le { cfg := cfg, ck := ck } hist) (X : ID) (ks : List Nat) (hnd : ks.Nodup)
    (hall : ∀ k ∈ ks, RotatesAt le { cfg := cfg, ck := ck } hist k X) : ks.length ≤ 1 := by
  match ks, hnd, hall with
  | [], _, _ => simp
  | [_], _, _ => simp
  | a :: b :: rest, hnd, hall =>
    exfalso
    have hab : a ≠ b := by
      intro e; subst e
      exact (List.nodup_cons.1 hnd).1 List.mem_cons_self
    have ha := hall a List.mem_cons_self
    have hb := hall b (List.mem_cons_of_mem _ List.mem_cons_self)
    rcases Nat.lt_or_gt_of_ne hab with h | h
    · exact c04_one_mint_per_due_id le cfg ck hist hok X h ⟨ha, hb⟩
    · exact c04_one_mint_per_due_id le cfg ck hist hok X h ⟨hb, ha⟩

/-- **the number of requests that present `X` and mint without refusing it is at most one.** -/
theorem c04_mints_count (le : ID → ID → Bool) (cfg : Cfg) (ck : CookieCfg) (hist : List (Orc × Op))
    (hok : Hist4OK le { cfg := cfg, ck := ck } hist) (X : ID) (ks : List Nat) (hnd : ks.Nodup)
    (hall : ∀ k ∈ ks, MintsFor le { cfg := cfg, ck := ck } hist k X) : ks.length ≤ 1 :=
  c04_rotation_count le cfg ck hist hok X ks hnd (fun k hk => mintsFor_rotates le cfg ck hist hok (hall k hk))

/-! ## 5. part 3 — all of them receive the same session -/

/-- **step `k` of the history is a request that presents `X` and is given a session** (whose id is then `i`) without a
deletion cookie in the response (the process being alive and no crash point armed when it arrives). -/
def ServedAt (le : ID → ID → Bool) (w0 : World) (hist : List (Orc × Op)) (k : Nat) (X i : ID) : Prop :=
  ∃ o client spec ip ua create h, hist[k]? = some (o, .req client spec ip ua create) ∧
    (runG4 le w0 {} (hist.take k)).1.skip = false ∧ (runG4 le w0 {} (hist.take k)).1.freezeAt = none ∧
    presOf (runG4 le w0 {} (hist.take k)).1 client spec = some (X, 24) ∧
    Ev.delCookie ∉ ((runG4 le w0 {} (hist.take k)).1.step le o (.req client spec ip ua create)).2.cookies ∧
    ((runG4 le w0 {} (hist.take k)).1.step le o (.req client spec ip ua create)).1.cur = some h ∧
    (((runG4 le w0 {} (hist.take k)).1.step le o (.req client spec ip ua create)).1.st.obj h).id = i

/-- a request that presents `X` and is given a session without a deletion cookie is given **the session of `X`**: the
id of the returned object has the root (session number) of `X` — at the end of the history (hence at every later
boundary: apply it to a prefix). -/
theorem served_root (le : ID → ID → Bool) (cfg : Cfg) (ck : CookieCfg) (hist : List (Orc × Op))
    (hok : Hist4OK le { cfg := cfg, ck := ck } hist) {k : Nat} {X i : ID}
    (hs : ServedAt le { cfg := cfg, ck := ck } hist k X i) :
    (runG4 le { cfg := cfg, ck := ck } {} hist).2.rootOf i = (runG4 le { cfg := cfg, ck := ck } {} hist).2.rootOf X := by
  obtain ⟨o, client, spec, ip, ua, create, h, hk, hsk, hfz, hp, hnd, hcur, hid⟩ := hs
  obtain ⟨hw, hd, ho, st, hrun⟩ := hist4_at le cfg ck hist hok hk
  obtain ⟨hS, _, _, v2, _, v4, v5, v6, v7, v8⟩ := req4_view le _ o client spec ip ua create hw hd ho hsk hfz
  obtain ⟨hc1, hc2⟩ := reqOf1_pres ip ua create hp
  rw [v2] at hnd
  rw [v4] at hcur
  generalize hout : start _ _ (reqOf1 _ client spec ip ua create) = out at hS hnd hcur v5 v6 v7
  have hres : out.2.1 = .sess h := by
    cases hr : out.2.1 with
    | sess h' => rw [hr] at hcur; simp only [curOf, Option.some.injEq] at hcur; rw [hcur]
    | nil => rw [hr] at hcur; cases hcur
    | err m => rw [hr] at hcur; cases hcur
  have hnd2 : Ev.delCookie ∉ out.2.2 := fun hm => hnd (List.mem_filter.2 ⟨hm, rfl⟩)
  have hsame := hS.same X h hc1 hc2 hres hnd2
  rw [← v5, ← v7, hid] at hsame
  -- both ids are minted at the boundary k+1
  have hmX : Minted ((runG4 le { cfg := cfg, ck := ck } {} (hist.take k)).1.step le o (.req client spec ip ua create)).1.st.nextId X := by
    rcases hS.mintX X hc1 hc2 hnd2 with e | e
    · exact e.mono st.next
    · exact absurd hres (e h)
  have hop := (histOK_at hok hk).2
  rw [← runG4_fst le _ {}] at hop
  have hw' := step_inv3 le _ o (.req client spec ip ua create) hw ho hop
  have hmi : Minted ((runG4 le { cfg := cfg, ck := ck } {} (hist.take k)).1.step le o (.req client spec ip ua create)).1.st.nextId i := by
    have := ((hw'.inv.good v8).2 h (by rw [v4, hout, hres]; rfl)).minted
    rw [hid] at this; exact this
  -- stability from the boundary k+1 to the end
  obtain ⟨s1, s2, s3, s4⟩ := hist4_split le cfg ck hist hok (k + 1)
  obtain ⟨_, _, l3⟩ := rot4_later le _ _ _ s1 s2 s3
  rw [← s4, hrun] at l3
  rw [l3 i hmi, l3 X hmX]
  exact hsame

/-- **C04 (3), `c04_same_session`.** If two requests of a fault-free history without `crashinside` present the same id
`X` and both are given sessions without a deletion cookie in the response — whatever happened in between: the
rotation of `X`, further rotations, evictions, purges, cache loss, other clients' requests — then both were given **the
same session**: the ids `i`, `i'` of the two returned objects have the same session number (`rootOf`, the first id of
the session: all ids of one reference chain share it), which is the session number of `X`. (If the session of `X`
was ended in between — `Destroy`, expiry, anomaly — the second request is not given a session without a deletion
cookie, so the hypothesis `ServedAt … k'` already excludes it.) -/
theorem c04_same_session (le : ID → ID → Bool) (cfg : Cfg) (ck : CookieCfg) (hist : List (Orc × Op))
    (hok : Hist4OK le { cfg := cfg, ck := ck } hist) {k k' : Nat} {X i i' : ID}
    (hs : ServedAt le { cfg := cfg, ck := ck } hist k X i) (hs' : ServedAt le { cfg := cfg, ck := ck } hist k' X i') :
    (runG4 le { cfg := cfg, ck := ck } {} hist).2.rootOf i = (runG4 le { cfg := cfg, ck := ck } {} hist).2.rootOf i' ∧
    (runG4 le { cfg := cfg, ck := ck } {} hist).2.rootOf i = (runG4 le { cfg := cfg, ck := ck } {} hist).2.rootOf X := by
  have h1 := served_root le cfg ck hist hok hs
  have h2 := served_root le cfg ck hist hok hs'
  exact ⟨h1.trans h2.symm, h1⟩

/-- **… and the same object**: when the session proper is cached under the presented id `X` (handle `h0`), a request
presenting `X` that is given a session without a deletion cookie is given that very object `h0` — also when this
request rotates the id (`RegenerateID` keeps the object). Hence two requests that both find `X` cached under `h0`
both return `h0`. (After an eviction the session is re-loaded into a new object; the two handles then differ although
the session is the same — `c04_same_session`.) -/
theorem c04_same_handle (cfg : Cfg) (s : State) (r : Req) (hnf : NoFail s) (hi : Inv cfg.codec s) {X : ID} {h0 h : Nat}
    (hc : r.cookie = some X) (hl : r.cookieLen = 24) (hcache : lookup X s.cache = some h0) (href : (s.obj h0).ref = none)
    (hres : (start cfg s r).2.1 = .sess h) (hnd : Ev.delCookie ∉ (start cfg s r).2.2) : h = h0 := by
  rcases start_cases cfg s r hnf hi with ⟨hck, _⟩ | ⟨id, s1, res, e1, hck, _, hg, gd, hcase⟩
  · rcases hck with e | e
    · rw [hc] at e; cases e
    · exact absurd hl e
  · rw [hc] at hck; simp only [Option.some.injEq] at hck; subst hck
    rcases gd.res with ⟨_, _, e⟩ | ⟨h1, r0, e1', _, _, _, _, hwhere⟩
    · rw [hcache] at e; cases e
    · rcases hwhere with ⟨e2, e3⟩ | ⟨e2, _⟩
      · rw [hcache] at e2; simp only [Option.some.injEq] at e2; subst e2
        subst e3
        rcases hcase with ⟨e, _⟩ | ⟨h2, e, _, _, hfound⟩
        · rw [e] at e1'; cases e1'
        · rw [e] at e1'; simp only [GetRes.some.injEq] at e1'; subst e1'
          rcases hfound with ⟨_, heq⟩ | ⟨_, _, _, heq⟩ | ⟨_, _, _, heq⟩ | ⟨t, _, hr, _, _⟩ | ⟨t, _, hr, _, _⟩
          · rw [heq] at hnd
            have hsub : ∀ pre : List Ev, Ev.delCookie ∈ pre → Ev.delCookie ∈ (createNew cfg (delSt s1 X) r pre).2.2 := by
              intro pre he
              cases hcr : r.create with
              | false => rw [Loc.createNew_no pre hcr]; exact he
              | true =>
                rw [(createNew_delta cfg (delSt s1 X) r pre (delSt_nofail X hnf) (delSt_inv X hi) hcr).evs]
                exact List.mem_append_left _ (List.mem_append_left _ he)
            exact absurd (hsub _ (by simp)) hnd
          · rw [heq] at hres; simp only [Res.sess.injEq] at hres; exact hres.symm
          · rw [heq] at hres; simp only [Res.sess.injEq] at hres; exact hres.symm
          · rw [href] at hr; cases hr
          · rw [href] at hr; cases hr
      · rw [hcache] at e2; cases e2

/-! ## 6. non-vacuity, and the failing cases -/

/-- a syntactic sufficient condition for `Hist4OK` (decidable by the kernel): fault-free oracles, no codec switch,
user-wide `LogOut`/`RefreshUser` only between requests (`bracketedB`). -/
theorem hist4OK_of_synt (le : ID → ID → Bool) (hist : List (Orc × Op)) (cfg : Cfg) (ck : CookieCfg)
    (hb : bracketedB false hist = true) : Hist4OK le { cfg := cfg, ck := ck } hist :=
  histOK_of_bracketed le hist _ false hb (fun _ => rfl)

/-- what the trace says about saves: (id, reference field). -/
def saveView (tr : List Ev) : List (ID × Option ID) :=
  tr.filterMap (fun e => match e with | .save k r => some (k, r.ref) | _ => none)

/-- three clients and two strangers; a cache of size 2, so that `gen 0` is **evicted** by other clients' traffic and
**reloaded**; an automatic rotation by `Start` (`gen 0 ↦ gen 3`); the due id `gen 0` presented twice more
(`.val (gen 0) 24`): the same session, nothing minted; `purge` (which flushes the cached reference record `gen 0` a
second time) and `dropcache`; an explicit rotation (`gen 3 ↦ gen 4`); `Destroy` followed by a handler call (allowed
here, unlike in C07); a wait past the grace period (the reference records are cleaned up), a `crash`; `gen 0`
presented once more: gone, a new session `gen 5` with the deletion cookie. -/
def c04_script : List (Orc × Op) :=
  [ ({}, .cfg "maxCache" 2),
    ({}, .req "a" .none "1.2.3.4:5" "ua" true),                   -- gen 0
    ({}, .h (.set "k" (.int 1))),
    ({}, .endReq),
    ({}, .req "b" .none "5.6.7.8:9" "ub" true),                   -- gen 1
    ({}, .endReq),
    ({}, .req "c" .none "9.9.9.9:1" "uc" true),                   -- gen 2 (evicts gen 0)
    ({}, .endReq),
    ({}, .cfg "idExpiry" 0),
    ({}, .req "a" .jar "1.2.3.4:5" "ua" false),                   -- 9: gen 0 reloaded and rotated: gen 0 ↦ gen 3
    ({}, .endReq),
    ({}, .cfg "idExpiry" 3600000000000),
    ({}, .req "x" (.val (.gen 0) 24) "1.2.3.4:5" "ua" false),     -- 12: the due id again: same session, nothing minted
    ({}, .endReq),
    ({}, .req "y" (.val (.gen 0) 24) "1.2.3.4:5" "ua" false),     -- 14: and again
    ({}, .endReq),
    ({}, .purge),
    ({}, .dropcache),
    ({}, .req "a" .jar "1.2.3.4:5" "ua" false),                   -- 18: gen 3 reloaded
    ({}, .h .regen),                                              -- 19: gen 3 ↦ gen 4
    ({}, .h .destroy),
    ({}, .h (.set "k" (.int 2))),                                 -- a handler call after Destroy
    ({}, .endReq),
    ({}, .wait 400000000000),                                     -- the reference records are cleaned up
    ({}, .crash),
    ({}, .req "x" (.val (.gen 0) 24) "1.2.3.4:5" "ua" true),      -- 25: gone: a new session, with the deletion cookie
    ({}, .endReq) ]

theorem c04_script_ok : Hist4OK idLe {} c04_script := hist4OK_of_synt idLe c04_script {} {} (by decide)

/-- the theorems apply to the script. -/
example : Rot4 (runG4 idLe {} {} c04_script).1 (runG4 idLe {} {} c04_script).2 ∧ Fine {} (traceOf idLe {} c04_script) :=
  (rot4_all_histories idLe {} {} c04_script c04_script_ok).2
example (n : Nat) : Rot4 (runG4 idLe {} {} (c04_script.take n)).1 (runG4 idLe {} {} (c04_script.take n)).2 :=
  (rot4_all_histories idLe {} {} _ (HistOK.take c04_script_ok n)).2.1

-- two replacements, each recorded once; both ids have the session number of `gen 0`
#guard (runG4 idLe {} {} c04_script).2.repl == [(.gen 3, .gen 4), (.gen 0, .gen 3)]
#guard (runG4 idLe {} {} c04_script).2.root == [(.gen 4, .gen 0), (.gen 3, .gen 0)]
-- the saves of the trace, in order: `gen 0` is full (create, set, eviction flush), then the reference `gen 0 ⟶ gen 3`
-- twice (rotation; flush by `purge`) and never full again
#guard saveView (traceOf idLe {} c04_script) ==
  [(.gen 0, none), (.gen 0, none), (.gen 1, none), (.gen 0, none), (.gen 2, none), (.gen 1, none), (.gen 2, none),
   (.gen 3, none), (.gen 0, some (.gen 3)), (.gen 0, some (.gen 3)), (.gen 3, none), (.gen 4, none),
   (.gen 3, some (.gen 4)), (.gen 4, none), (.gen 5, none)]
-- ids minted: one per creation / rotation, none by the requests 12 and 14 that present the due id again
#guard (List.range 28).map (fun n => (runG4 idLe {} {} (c04_script.take n)).1.st.nextId) ==
  [0, 0, 1, 1, 1, 2, 2, 3, 3, 3, 4, 4, 4, 4, 4, 4, 4, 4, 4, 4, 5, 5, 5, 5, 5, 5, 6, 6]

/-- **"at most one event `.save X r` with `r.ref.isSome`" is false**: the reference record is cached by
`RegenerateID` and flushed again by `PurgeSessions` (or an eviction, or the idle sweep). -/
def c04_flush_script : List (Orc × Op) :=
  [ ({}, .req "a" .none "" "" true), ({}, .h .regen), ({}, .endReq), ({}, .purge) ]

theorem c04_refsave_twice : Hist4OK idLe {} c04_flush_script := hist4OK_of_synt idLe _ {} {} (by decide)
#guard saveView (traceOf idLe {} c04_flush_script) ==
  [(.gen 0, none), (.gen 1, none), (.gen 0, some (.gen 1)), (.gen 0, some (.gen 1)), (.gen 1, none)]

/-- **a crash point inside a rotation**: the process dies inside the rotation of `gen 0`, after the first of its two
mutations (`crashinside 1`): the record under the new id `gen 1` is written, the reference record under `gen 0` is
*shown* (`Out.evs`) but not written. After the restart `gen 0` is still a full session and is rotated again, to `gen 2`.
The events shown contain two reference saves under `gen 0` with different targets — which is why the trace is made of
the events that took effect (`effEvs`, honouring `Out.frozen`): in it `gen 0` is replaced once, by `gen 2`, and the
theorems apply (`gen 1` stays behind as an orphan record, cf. C10). -/
def c04_crashinside_script : List (Orc × Op) :=
  [ ({}, .req "a" .none "" "" true), ({}, .endReq), ({}, .cfg "idExpiry" 0),
    ({}, .crashinside 1), ({}, .req "a" .jar "" "" false), ({}, .endReq),
    ({}, .req "a" .jar "" "" false), ({}, .endReq) ]

theorem c04_crashinside_ok : Hist4OK idLe {} c04_crashinside_script := hist4OK_of_synt idLe _ {} {} (by decide)

example : Fine {} (traceOf idLe {} c04_crashinside_script) := (rot4_all_histories idLe {} {} _ c04_crashinside_ok).2.2

/-- the events *shown*, in order. -/
def shownOf (le : ID → ID → Bool) (w : World) : List (Orc × Op) → List Ev
  | [] => []
  | (o, op) :: r => (w.step le o op).2.evs ++ shownOf le (w.step le o op).1 r

#guard saveView (shownOf idLe {} c04_crashinside_script) ==
  [(.gen 0, none), (.gen 1, none), (.gen 0, some (.gen 1)), (.gen 2, none), (.gen 0, some (.gen 2))]
#guard saveView (traceOf idLe {} c04_crashinside_script) ==
  [(.gen 0, none), (.gen 1, none), (.gen 2, none), (.gen 0, some (.gen 2))]
#guard (runG4 idLe {} {} c04_crashinside_script).2.repl == [(.gen 0, .gen 2)]

/-! ### parts 2 and 3 on the script -/

/-- Boolean version of `RotatesAt`. -/
def rotatesAtB (le : ID → ID → Bool) (w0 : World) (hist : List (Orc × Op)) (k : Nat) (X : ID) : Bool :=
  match hist[k]? with
  | none => false
  | some (o, op) =>
    (effEvs ((runG4 le w0 {} (hist.take k)).1.step le o op).2).any (fun e =>
      match e with
      | .save X' rc => X' == X && (match rc.ref with
          | some (.gen n) => decide ((runG4 le w0 {} (hist.take k)).1.st.nextId ≤ n)
          | _ => false)
      | _ => false)

theorem rotatesAt_of_b {le : ID → ID → Bool} {w0 : World} {hist : List (Orc × Op)} {k : Nat} {X : ID}
    (h : rotatesAtB le w0 hist k X = true) : RotatesAt le w0 hist k X := by
  unfold rotatesAtB at h
  split at h
  · cases h
  · rename_i o op hk
    obtain ⟨e, he, hp⟩ := List.any_eq_true.1 h
    cases e with
    | save X' rc =>
      simp only [Bool.and_eq_true, beq_iff_eq] at hp
      obtain ⟨rfl, hp⟩ := hp
      cases hr : rc.ref with
      | none => rw [hr] at hp; cases hp
      | some t =>
        rw [hr] at hp
        cases t with
        | lit s => cases hp
        | gen n => exact ⟨o, op, rc, n, hk, he, hr, of_decide_eq_true hp⟩
    | _ => cases hp

/-- the steps of the script that mint an id for `X` by rotation. -/
def rotSteps (X : ID) : List Nat := (List.range c04_script.length).filter (fun k => rotatesAtB idLe {} c04_script k X)

-- `gen 0` is rotated by the request of step 9 only, although it is presented by the requests of the steps 9, 12, 14, 25;
-- `gen 3` by the handler's `RegenerateID` of step 19 only
#guard rotSteps (.gen 0) == [9] && rotSteps (.gen 3) == [19] && rotSteps (.gen 4) == [] && rotSteps (.gen 1) == []

/-- (presented id, id of the session given, deletion cookie sent?) for the request at step `k` of the script. -/
def servedView (k : Nat) : Option (Option ID × Option ID × Bool) :=
  match c04_script[k]? with
  | some (o, .req client spec ip ua create) =>
    let w := (runG4 idLe {} {} (c04_script.take k)).1
    let st := w.step idLe o (.req client spec ip ua create)
    some ((presOf w client spec).map (·.1), st.1.cur.map (fun h => (st.1.st.obj h).id), st.2.cookies.contains .delCookie)
  | _ => none

-- the requests presenting the due id `gen 0` (steps 9, 12, 14) are all given the session `gen 3`, none mints but the
-- first; at the end `gen 0` is gone and the request of step 25 gets a new session with the deletion cookie
#guard [9, 12, 14, 18, 25].map servedView ==
  [some (some (.gen 0), some (.gen 3), false), some (some (.gen 0), some (.gen 3), false),
   some (some (.gen 0), some (.gen 3), false), some (some (.gen 3), some (.gen 3), false),
   some (some (.gen 0), some (.gen 5), true)]
#guard [ID.gen 0, .gen 3, .gen 4, .gen 5].map (runG4 idLe {} {} c04_script).2.rootOf == [.gen 0, .gen 0, .gen 0, .gen 5]

end Sx.Glob
