import Sessions.Proofs.Global.Delta
import Sessions.Proofs.Global.Users08
/-!
# C01 — state-level material for `Own01.lean`

* `normVal`/`normData`: values up to the conversion a codec applies (`gob`: none; `json`: integers become floats);
* `EssEq`: two stores agree key by key on the essentials (`ess`: user, creation time, reference, data);
* `Holds st c k d u`: the record under `k` is a session proper holding the data `d` (up to the codec) and the user `u`;
* the state-level invariant: `Rest` (the clients not in flight), `Live`/`Dead`/`Idle`/`Flight` (the request in flight);
* how every model function transports it, fault-free, from a state satisfying `Inv` — on top of the store deltas of
  `Delta.lean` and `Users08.lean`: `Rest.step`/`Rest.stepU`/`Rest.advance`, `Flight.keep`/`Flight.advance`,
  `save_flight` (handler writes), `regen_flight`, `login_flight`, `destroy_flight`, `start_flight` (+ `start_new`,
  `start_continues`), `end_rest` (the browser applies the response cookies), `logoutUser_rest`, `refreshUser_rest`.
-/
namespace Sx.Glob
open Sx Sx.More

/-! ## 1. values up to the codec -/

/-- what a value looks like after a round trip through the codec. -/
def normVal : Codec → Val → Val
  | .gob, v => v
  | .json, v => convVal v

/-- what a data map looks like after a round trip through the codec. -/
def normData : Codec → Data → Data
  | .gob, d => d
  | .json, d => convData d

theorem convData_erase (k : String) (d : Data) : convData (erase k d) = erase k (convData d) := by
  induction d with
  | nil => rfl
  | cons p r ih =>
    obtain ⟨k', v⟩ := p
    show convData (if k' = k then erase k r else (k', v) :: erase k r) =
      (if k' = k then erase k (convData r) else (k', convVal v) :: erase k (convData r))
    split
    · exact ih
    · show (k', convVal v) :: convData (erase k r) = _
      rw [ih]

theorem convData_insert (k : String) (v : Val) (d : Data) : convData (insert k v d) = insert k (convVal v) (convData d) := by
  show (k, convVal v) :: convData (erase k d) = (k, convVal v) :: erase k (convData d)
  rw [convData_erase]

theorem normData_insert (c : Codec) (k : String) (v : Val) (d : Data) :
    normData c (insert k v d) = insert k (normVal c v) (normData c d) := by
  cases c
  · rfl
  · exact convData_insert k v d

theorem normData_erase (c : Codec) (k : String) (d : Data) : normData c (erase k d) = erase k (normData c d) := by
  cases c
  · rfl
  · exact convData_erase k d

theorem normData_idem (c : Codec) (d : Data) : normData c (normData c d) = normData c d := by
  cases c
  · rfl
  · exact convData_idem d

theorem normVal_idem (c : Codec) (v : Val) : normVal c (normVal c v) = normVal c v := by
  cases c
  · rfl
  · exact convVal_idem v

@[simp] theorem normData_nil (c : Codec) : normData c [] = [] := by cases c <;> rfl

/-- the data of the encoding of an object with a non-nil map. -/
theorem enc_data_some (c : Codec) {o : Sess} {d : Data} (h : o.data = some d) : (enc c o).data = some (normData c d) := by
  cases c <;> simp [enc, h, normData]

/-- … spelled out, codec by codec. -/
theorem enc_data_gob {o : Sess} {d : Data} : (enc .gob o).data = some (normData .gob d) ↔ o.data.getD [] = d := by
  simp [enc, normData]

theorem enc_data_json {o : Sess} {d : Data} :
    (enc .json o).data = some (normData .json d) ↔ ∃ d', o.data = some d' ∧ convData d' = convData d := by
  simp [enc, normData]

/-! ## 2. what a record holds -/

/-- the record under `k` is a session proper with the data `d` (as the codec `c` keeps it) and the user `u`. -/
def Holds (st : List (ID × Rec)) (c : Codec) (k : ID) (d : Data) (u : Option String) : Prop :=
  ∃ r, lookup k st = some r ∧ r.ref = none ∧ r.data = some (normData c d) ∧ r.user = u

theorem Holds.of_ess {st st' : List (ID × Rec)} {c : Codec} {k : ID} {d : Data} {u : Option String}
    (h : Holds st c k d u) (he : (lookup k st').map ess = (lookup k st).map ess) : Holds st' c k d u := by
  obtain ⟨r, hl, h1, h2, h3⟩ := h
  rw [hl] at he
  cases hl' : lookup k st' with
  | none => rw [hl'] at he; simp at he
  | some r' =>
    rw [hl'] at he
    simp only [Option.map_some, Option.some.injEq] at he
    exact ⟨r', hl', (ess_ref he).trans h1, (ess_data he).trans h2, (ess_user he).trans h3⟩

theorem Holds.full {st : List (ID × Rec)} {c : Codec} {k : ID} {d : Data} {u : Option String} (h : Holds st c k d u) :
    ∃ r, lookup k st = some r ∧ r.ref = none := by
  obtain ⟨r, hl, h1, _⟩ := h; exact ⟨r, hl, h1⟩

/-- what the handle's object holds, read off handle coherence and `Holds` of its record. -/
theorem holds_obj {c : Codec} {s : State} {h : Nat} {d : Data} {u : Option String} (hc : HCoh c s h)
    (hh : Holds s.store c (s.obj h).id d u) :
    (enc c (s.obj h)).data = some (normData c d) ∧ (s.obj h).user.map (·.1) = u := by
  obtain ⟨r, hl, he⟩ := hc
  obtain ⟨r', hl', _, h2, h3⟩ := hh
  rw [hl] at hl'
  simp only [Option.some.injEq] at hl'
  subst hl'
  exact ⟨(ess_data he).trans h2, by rw [← enc_user c]; exact (ess_user he).trans h3⟩

/-! ## 3. the state-level invariant -/

/-- per client: the data and the user it last wrote through its own session. -/
abbrev Exp := List (String × (Data × Option String))

/-- **the clients that are not in flight** (`fl`: the client whose request is being handled, if any).
* jar ids are minted, and distinct clients hold distinct ids;
* a client with an expectation `(d, u)` and the cookie `j`: the record under `j` is a session proper holding
  exactly `d` and `u`;
* a client without expectation but with a cookie `j` (it destroyed its session in a request that had come without
  cookie): there is no record under `j`;
* the clean-up goroutines wait for reference records only. -/
structure Rest (c : Codec) (st : State) (jars : List (String × ID)) (exp : Exp) (fl : Option String) : Prop where
  minted : ∀ cl j, lookup cl jars = some j → Minted st.nextId j
  inj : ∀ cl cl' j, lookup cl jars = some j → lookup cl' jars = some j → cl = cl'
  holds : ∀ cl j d u, fl ≠ some cl → lookup cl jars = some j → lookup cl exp = some (d, u) → Holds st.store c j d u
  gone : ∀ cl j, fl ≠ some cl → lookup cl jars = some j → lookup cl exp = none → lookup j st.store = none
  tref : ∀ t x r, (t, x) ∈ st.timers → lookup x st.store = some r → r.ref ≠ none

/-- a step that is quiet outside `X`, where `X` contains no jar id of a client not in flight. -/
theorem Rest.step {c : Codec} {st st' : State} {jars : List (String × ID)} {exp exp' : Exp} {fl : Option String}
    (X : ID → Prop) (hr : Rest c st jars exp fl) (hess : EssEqX X st.store st'.store)
    (hX : ∀ cl j, fl ≠ some cl → lookup cl jars = some j → ¬ X j)
    (ht : ∀ t x, (t, x) ∈ st'.timers → ((t, x) ∈ st.timers ∧ ¬ X x) ∨ ∀ r, lookup x st'.store = some r → r.ref ≠ none)
    (hn : st.nextId ≤ st'.nextId)
    (hexp : ∀ cl, fl ≠ some cl → lookup cl exp' = lookup cl exp) : Rest c st' jars exp' fl := by
  refine ⟨fun cl j hj => (hr.minted cl j hj).mono hn, hr.inj, ?_, ?_, ?_⟩
  · intro cl j d u hfl hj he
    rw [hexp cl hfl] at he
    exact (hr.holds cl j d u hfl hj he).of_ess (hess j (hX cl j hfl hj))
  · intro cl j hfl hj he
    rw [hexp cl hfl] at he
    exact hess.none_fwd (hX cl j hfl hj) (hr.gone cl j hfl hj he)
  · intro t x r hm hl
    rcases ht t x hm with ⟨hm0, hx⟩ | h
    · obtain ⟨r0, hl0, he⟩ := hess.bwd hx hl
      rw [ess_ref he]; exact hr.tref t x r0 hm0 hl0
    · exact h r hl

/-- time passes (`wait`, the tick after an API call): only records awaited by a clean-up goroutine disappear,
and those are reference records. -/
theorem Rest.advance {c : Codec} {st : State} {jars : List (String × ID)} {exp : Exp} {fl : Option String}
    (hr : Rest c st jars exp fl) (d : Int) : Rest c (Sx.advance st d).1 jars exp fl := by
  obtain ⟨a1, _, a3, _, _, a6, _⟩ := advance_delta st d
  refine ⟨fun cl j hj => by rw [a6]; exact hr.minted cl j hj, hr.inj, ?_, ?_, ?_⟩
  · intro cl j dd u hfl hj he
    have hh := hr.holds cl j dd u hfl hj he
    rcases a1 j with h | ⟨_, t, hm, _⟩
    · exact hh.of_ess (by rw [h])
    · obtain ⟨r, hl, hf⟩ := hh.full
      exact absurd hf (hr.tref t j r hm hl)
  · intro cl j hfl hj he
    rcases a1 j with h | ⟨h, _⟩
    · rw [h]; exact hr.gone cl j hfl hj he
    · exact h
  · intro t x r hm hl
    rcases a1 x with h | ⟨h, _⟩
    · rw [h] at hl; exact hr.tref t x r (a3 _ hm) hl
    · rw [h] at hl; cases hl

/-- how the request's session id is linked to the cookie the client will hold. -/
def Link (jars : List (String × ID)) (client : String) (resp : List Ev) (id : ID) : Prop :=
  (resp = [] ∧ lookup client jars = some id) ∨ resp.getLast? = some (.setCookie id)

/-- **the request in flight holds a live session** `h`. -/
structure Live (c : Codec) (st : State) (jars : List (String × ID)) (exp : Exp) (client : String) (resp : List Ev)
    (h : Nat) : Prop where
  other : ∀ cl j, cl ≠ client → lookup cl jars = some j → j ≠ (st.obj h).id
  notimer : ∀ t, (t, (st.obj h).id) ∉ st.timers
  minted : Minted st.nextId (st.obj h).id
  link : Link jars client resp (st.obj h).id
  coh : HCoh c st h
  ref : (st.obj h).ref = none
  exp : ∃ d u, lookup client exp = some (d, u) ∧ Holds st.store c (st.obj h).id d u

/-- **the request in flight has destroyed its session** `h`. -/
structure Dead (c : Codec) (st : State) (jars : List (String × ID)) (exp : Exp) (client : String) (resp : List Ev)
    (h : Nat) : Prop where
  other : ∀ cl j, cl ≠ client → lookup cl jars = some j → j ≠ (st.obj h).id
  minted : Minted st.nextId (st.obj h).id
  gone : lookup (st.obj h).id st.store = none
  noexp : lookup client exp = none
  link : Link jars client resp (st.obj h).id ∨ resp.getLast? = some .delCookie

/-- **the request in flight got no session**: nothing happened, or the deletion cookie was sent last. -/
def Idle (c : Codec) (st : State) (jars : List (String × ID)) (exp : Exp) (resp : List Ev) : Prop :=
  (resp = [] ∧ Rest c st jars exp none) ∨ resp.getLast? = some .delCookie

/-- the request in flight (`dead`: the handler has called `Destroy` in this request). -/
structure Flight (c : Codec) (st : State) (jars : List (String × ID)) (exp : Exp) (client : String) (resp : List Ev)
    (cur : Option Nat) (dead : Bool) : Prop where
  some : ∀ h, cur = some h →
    (dead = false ∧ Live c st jars exp client resp h) ∨ (dead = true ∧ Dead c st jars exp client resp h)
  none : cur = none → Idle c st jars exp resp

theorem Live.keep {c : Codec} {st st' : State} {jars : List (String × ID)} {exp exp' : Exp} {client : String}
    {resp : List Ev} {h : Nat} (hl : Live c st jars exp client resp h) (X : ID → Prop)
    (hess : EssEqX X st.store st'.store) (hx : ¬ X (st.obj h).id) (ho : st'.obj h = st.obj h)
    (ht : ∀ p ∈ st'.timers, p ∈ st.timers) (hn : st.nextId ≤ st'.nextId)
    (hexp : lookup client exp' = lookup client exp) : Live c st' jars exp' client resp h := by
  obtain ⟨d, u, he, hh⟩ := hl.exp
  obtain ⟨r, hlk, hce⟩ := hl.coh
  refine ⟨by rw [ho]; exact hl.other, ?_, by rw [ho]; exact hl.minted.mono hn, by rw [ho]; exact hl.link, ?_,
    by rw [ho]; exact hl.ref, ⟨d, u, by rw [hexp]; exact he, ?_⟩⟩
  · intro t hm; rw [ho] at hm; exact hl.notimer t (ht _ hm)
  · obtain ⟨r', hl', he'⟩ := hess.fwd hx hlk
    exact ⟨r', by rw [ho]; exact hl', by rw [ho, hce, he']⟩
  · rw [ho]; exact hh.of_ess (hess _ hx)

theorem Dead.keep {c : Codec} {st st' : State} {jars : List (String × ID)} {exp exp' : Exp} {client : String}
    {resp : List Ev} {h : Nat} (hl : Dead c st jars exp client resp h) (X : ID → Prop)
    (hess : EssEqX X st.store st'.store) (hx : ¬ X (st.obj h).id) (ho : st'.obj h = st.obj h)
    (hn : st.nextId ≤ st'.nextId)
    (hexp : lookup client exp' = lookup client exp) : Dead c st' jars exp' client resp h :=
  ⟨by rw [ho]; exact hl.other, by rw [ho]; exact hl.minted.mono hn, by rw [ho]; exact hess.none_fwd hx hl.gone,
   by rw [hexp]; exact hl.noexp, by rw [ho]; exact hl.link⟩

theorem Live.advance {c : Codec} {st : State} {jars : List (String × ID)} {exp : Exp} {client : String}
    {resp : List Ev} {h : Nat} (hl : Live c st jars exp client resp h) (d : Int) :
    Live c (Sx.advance st d).1 jars exp client resp h := by
  obtain ⟨a1, _, a3, _, a5, a6, _⟩ := advance_delta st d
  have ho : (Sx.advance st d).1.obj h = st.obj h := obj_of_heap_eq a5 h
  have hlk : lookup (st.obj h).id (Sx.advance st d).1.store = lookup (st.obj h).id st.store := by
    rcases a1 (st.obj h).id with e | ⟨_, t, hm, _⟩
    · exact e
    · exact absurd hm (hl.notimer t)
  obtain ⟨dd, u, he, hh⟩ := hl.exp
  obtain ⟨r, hlr, hce⟩ := hl.coh
  refine ⟨by rw [ho]; exact hl.other, ?_, by rw [ho, a6]; exact hl.minted, by rw [ho]; exact hl.link, ?_,
    by rw [ho]; exact hl.ref, ⟨dd, u, he, ?_⟩⟩
  · intro t hm; rw [ho] at hm; exact hl.notimer t (a3 _ hm)
  · exact ⟨r, by rw [ho, hlk]; exact hlr, by rw [ho]; exact hce⟩
  · rw [ho]; exact hh.of_ess (by rw [hlk])

theorem Dead.advance {c : Codec} {st : State} {jars : List (String × ID)} {exp : Exp} {client : String}
    {resp : List Ev} {h : Nat} (hl : Dead c st jars exp client resp h) (d : Int) :
    Dead c (Sx.advance st d).1 jars exp client resp h := by
  obtain ⟨a1, _, _, _, a5, a6, _⟩ := advance_delta st d
  have ho : (Sx.advance st d).1.obj h = st.obj h := obj_of_heap_eq a5 h
  refine ⟨by rw [ho]; exact hl.other, by rw [ho, a6]; exact hl.minted, ?_, hl.noexp, by rw [ho]; exact hl.link⟩
  rw [ho]
  rcases a1 (st.obj h).id with e | ⟨e, _⟩
  · rw [e]; exact hl.gone
  · exact e

theorem Flight.advance {c : Codec} {st : State} {jars : List (String × ID)} {exp : Exp} {client : String}
    {resp : List Ev} {cur : Option Nat} {dead : Bool} (hf : Flight c st jars exp client resp cur dead) (d : Int) :
    Flight c (Sx.advance st d).1 jars exp client resp cur dead := by
  refine ⟨?_, ?_⟩
  · intro h hc
    rcases hf.some h hc with ⟨h1, h2⟩ | ⟨h1, h2⟩
    · exact Or.inl ⟨h1, h2.advance d⟩
    · exact Or.inr ⟨h1, h2.advance d⟩
  · intro hc
    rcases hf.none hc with ⟨h1, h2⟩ | h
    · exact Or.inl ⟨h1, h2.advance d⟩
    · exact Or.inr h

/-- a quiet step (flushes, configuration, cache loss, …) that leaves the heap, the timers and the counter alone
or only lets them grow harmlessly. -/
theorem Flight.keep {c : Codec} {st st' : State} {jars : List (String × ID)} {exp : Exp} {client : String}
    {resp : List Ev} {cur : Option Nat} {dead : Bool} (hf : Flight c st jars exp client resp cur dead)
    (hess : EssEqX NoX st.store st'.store) (ho : st'.heap = st.heap)
    (ht : ∀ p ∈ st'.timers, p ∈ st.timers) (hn : st.nextId ≤ st'.nextId) :
    Flight c st' jars exp client resp cur dead := by
  have hobj : ∀ h, st'.obj h = st.obj h := obj_of_heap_eq ho
  refine ⟨?_, ?_⟩
  · intro h hc
    rcases hf.some h hc with ⟨h1, h2⟩ | ⟨h1, h2⟩
    · exact Or.inl ⟨h1, h2.keep NoX hess (fun hx => hx) (hobj h) ht hn rfl⟩
    · exact Or.inr ⟨h1, h2.keep NoX hess (fun hx => hx) (hobj h) hn rfl⟩
  · intro hc
    rcases hf.none hc with ⟨h1, h2⟩ | h
    · refine Or.inl ⟨h1, h2.step NoX hess (fun _ _ _ _ hx => hx) ?_ hn (fun _ _ => rfl)⟩
      intro t x hm; exact Or.inl ⟨ht _ hm, fun hx => hx⟩
    · exact Or.inr h

theorem Rest.keep {c : Codec} {st st' : State} {jars : List (String × ID)} {exp : Exp} {fl : Option String}
    (hr : Rest c st jars exp fl) (hess : EssEqX NoX st.store st'.store)
    (ht : ∀ p ∈ st'.timers, p ∈ st.timers) (hn : st.nextId ≤ st'.nextId) : Rest c st' jars exp fl :=
  hr.step NoX hess (fun _ _ _ _ hx => hx) (fun _ _ hm => Or.inl ⟨ht _ hm, fun hx => hx⟩) hn (fun _ _ => rfl)

/-! ### a handler writes the request's object through -/

/-- the request's object is replaced by `o'` (same id, still a session proper) and saved under its id:
the expectation of the client in flight becomes what `o'` holds. -/
theorem Live.put {c : Codec} {st st' : State} {jars : List (String × ID)} {exp : Exp} {client : String}
    {resp : List Ev} {h : Nat} (hl : Live c st jars exp client resp h) (hr : Rest c st jars exp (some client))
    {o' : Sess} (hid : o'.id = (st.obj h).id) (href : o'.ref = none)
    (hst : st'.store = insert (st.obj h).id (enc c o') st.store) (ho : st'.obj h = o') (ht : st'.timers = st.timers)
    (hn : st'.nextId = st.nextId) {d' : Data} {u' : Option String}
    (hd : (enc c o').data = some (normData c d')) (hu : (enc c o').user = u') :
    Rest c st' jars (insert client (d', u') exp) (some client) ∧
    Live c st' jars (insert client (d', u') exp) client resp h := by
  have hid' : (st'.obj h).id = (st.obj h).id := by rw [ho, hid]
  have hess : EssEqX (fun k => k = (st.obj h).id) st.store st'.store := by
    intro k hk
    rw [hst, Loc.lookup_insert_ne (fun e => hk e.symm)]
  constructor
  · refine hr.step _ hess ?_ ?_ (by rw [hn]; exact Nat.le_refl _) ?_
    · intro cl j hfl hj e
      exact hl.other cl j (fun e' => hfl (by rw [e'])) hj e
    · intro t x hm
      rw [ht] at hm
      exact Or.inl ⟨hm, fun e => hl.notimer t (e ▸ hm)⟩
    · intro cl hfl
      rw [Loc.lookup_insert_ne (fun e => hfl (by rw [e]))]
  · refine ⟨by rw [hid']; exact hl.other, by rw [hid', ht]; exact hl.notimer, by rw [hid', hn]; exact hl.minted,
      by rw [hid']; exact hl.link, ?_, by rw [ho]; exact href, ⟨d', u', Loc.lookup_insert_self _ _ _, ?_⟩⟩
    · exact ⟨enc c o', by rw [hid', hst]; exact Loc.lookup_insert_self _ _ _, by rw [ho]⟩
    · exact ⟨enc c o', by rw [hid', hst]; exact Loc.lookup_insert_self _ _ _, by rw [enc_ref]; exact href, hd, hu⟩

theorem Rest.weaken {c : Codec} {st : State} {jars : List (String × ID)} {exp : Exp} (hr : Rest c st jars exp none)
    (fl : Option String) : Rest c st jars exp fl :=
  ⟨hr.minted, hr.inj, fun cl j d u _ => hr.holds cl j d u (by simp), fun cl j _ => hr.gone cl j (by simp), hr.tref⟩

/-- the same state up to fields the invariant does not read. -/
theorem Rest.congr {c : Codec} {st st' : State} {jars : List (String × ID)} {exp : Exp} {fl : Option String}
    (hr : Rest c st jars exp fl) (h1 : st'.store = st.store) (h2 : st'.timers = st.timers) (h3 : st'.nextId = st.nextId) :
    Rest c st' jars exp fl := by
  refine ⟨by rw [h3]; exact hr.minted, hr.inj, by rw [h1]; exact hr.holds, by rw [h1]; exact hr.gone, ?_⟩
  rw [h1, h2]; exact hr.tref

theorem Live.congr {c : Codec} {st st' : State} {jars : List (String × ID)} {exp : Exp} {client : String}
    {resp : List Ev} {h : Nat} (hl : Live c st jars exp client resp h) (h0 : st'.heap = st.heap)
    (h1 : st'.store = st.store) (h2 : st'.timers = st.timers) (h3 : st'.nextId = st.nextId) :
    Live c st' jars exp client resp h := by
  have ho : st'.obj h = st.obj h := obj_of_heap_eq h0 h
  refine ⟨by rw [ho]; exact hl.other, by rw [ho, h2]; exact hl.notimer, by rw [ho, h3]; exact hl.minted,
    by rw [ho]; exact hl.link, ?_, by rw [ho]; exact hl.ref, ?_⟩
  · obtain ⟨r, a, b⟩ := hl.coh; exact ⟨r, by rw [ho, h1]; exact a, by rw [ho]; exact b⟩
  · obtain ⟨d, u, a, b⟩ := hl.exp; exact ⟨d, u, a, by rw [ho, h1]; exact b⟩

theorem Dead.congr {c : Codec} {st st' : State} {jars : List (String × ID)} {exp : Exp} {client : String}
    {resp : List Ev} {h : Nat} (hl : Dead c st jars exp client resp h) (h0 : st'.heap = st.heap)
    (h1 : st'.store = st.store) (h3 : st'.nextId = st.nextId) :
    Dead c st' jars exp client resp h := by
  have ho : st'.obj h = st.obj h := obj_of_heap_eq h0 h
  exact ⟨by rw [ho]; exact hl.other, by rw [ho, h3]; exact hl.minted, by rw [ho, h1]; exact hl.gone, hl.noexp,
    by rw [ho]; exact hl.link⟩

theorem Flight.congr {c : Codec} {st st' : State} {jars : List (String × ID)} {exp : Exp} {client : String}
    {resp : List Ev} {cur : Option Nat} {dead : Bool} (hf : Flight c st jars exp client resp cur dead)
    (h0 : st'.heap = st.heap) (h1 : st'.store = st.store) (h2 : st'.timers = st.timers) (h3 : st'.nextId = st.nextId) :
    Flight c st' jars exp client resp cur dead := by
  refine ⟨?_, ?_⟩
  · intro h hc
    rcases hf.some h hc with ⟨a, b⟩ | ⟨a, b⟩
    · exact Or.inl ⟨a, b.congr h0 h1 h2 h3⟩
    · exact Or.inr ⟨a, b.congr h0 h1 h3⟩
  · intro hc
    rcases hf.none hc with ⟨a, b⟩ | a
    · exact Or.inl ⟨a, b.congr h1 h2 h3⟩
    · exact Or.inr a

/-- `touch` (last access, address, user agent) changes nothing the invariant reads. -/
theorem Live.touch {c : Codec} {st : State} {jars : List (String × ID)} {exp : Exp} {client : String}
    {resp : List Ev} {h : Nat} (hl : Live c st jars exp client resp h) (x : Nat) (r : Req) :
    Live c (Sx.touch st x r) jars exp client resp h := by
  obtain ⟨k1, _, _, _, k5⟩ := Loc.touch_obj_keep st x h r
  refine ⟨by rw [k1]; exact hl.other, by rw [k1]; exact hl.notimer, by rw [k1]; exact hl.minted,
    by rw [k1]; exact hl.link, hl.coh.touch x r, by rw [k5]; exact hl.ref, ?_⟩
  obtain ⟨d, u, a, b⟩ := hl.exp
  exact ⟨d, u, a, by rw [k1]; exact b⟩

theorem filter_nocookie {l : List Ev} (h : ∀ e ∈ l, isCookie e = false) : l.filter isCookie = [] := by
  rw [List.filter_eq_nil_iff]
  intro e he; rw [h e he]; simp

theorem enc_data_rotObj (c : Codec) (s : State) (h : Nat) : (enc c (Loc.rotObj s h)).data = (enc c (s.obj h)).data := by
  cases c <;> rfl

theorem enc_user_rotObj (c : Codec) (s : State) (h : Nat) : (enc c (Loc.rotObj s h)).user = (enc c (s.obj h)).user := by
  cases c <;> rfl

/-! ### `RegenerateID` in a request -/

/-- the request's session gets a new id: the client in flight is sent the new id, its expectation is unchanged. -/
theorem regen_flight {cfg : Cfg} {s : State} {jars : List (String × ID)} {exp : Exp} {client : String}
    {resp : List Ev} {h : Nat} {out : State × Bool × List Ev} (hi : Inv cfg.codec s)
    (hl : Live cfg.codec s jars exp client resp h) (hr : Rest cfg.codec s jars exp (some client))
    (rd : RegenDelta cfg s h out) :
    Rest cfg.codec out.1 jars exp (some client) ∧
    Live cfg.codec out.1 jars exp client (resp ++ [.setCookie (.gen s.nextId)]) h := by
  obtain ⟨f1, f2, f3, _, _⟩ := rd.fr
  have hoid : (out.1.obj h).id = .gen s.nextId := by rw [rd.obj_h]; rfl
  constructor
  · refine hr.step _ rd.quiet.ess ?_ ?_ (by rw [f2]; omega) (fun _ _ => rfl)
    · intro cl j hfl hj hx
      rcases hx with e | e
      · exact hl.other cl j (fun e' => hfl (by rw [e'])) hj e
      · exact (hr.minted cl j hj).ne_gen e
    · intro t x hm
      rw [f3] at hm
      rcases List.mem_append.mp hm with hm | hm
      · left
        refine ⟨hm, ?_⟩
        intro hx
        rcases hx with e | e
        · exact hl.notimer t (e ▸ hm)
        · exact (hi.tkeys t x hm).ne_gen e
      · right
        simp only [List.mem_singleton, Prod.mk.injEq] at hm
        intro r hlr
        rw [hm.2, rd.old_rec] at hlr
        simp only [Option.some.injEq] at hlr
        rw [← hlr, enc_ref]
        simp [Loc.rotRef]
  · obtain ⟨d, u, he, hh⟩ := hl.exp
    obtain ⟨hd, hu⟩ := holds_obj hl.coh hh
    refine ⟨?_, ?_, by rw [hoid, f2]; exact minted_gen _, ?_, ?_, by rw [rd.obj_h]; exact hl.ref, ⟨d, u, he, ?_⟩⟩
    · intro cl j _ hj
      rw [hoid]; exact (hr.minted cl j hj).ne_gen
    · intro t hm
      rw [hoid, f3] at hm
      rcases List.mem_append.mp hm with hm | hm
      · exact (hi.tkeys t _ hm).ne_gen rfl
      · simp only [List.mem_singleton, Prod.mk.injEq] at hm
        exact rd.ne hm.2.symm
    · right; rw [hoid]; simp
    · exact ⟨_, by rw [hoid]; exact rd.new_rec, by rw [rd.obj_h]⟩
    · refine ⟨_, by rw [hoid]; exact rd.new_rec, by rw [enc_ref]; exact hl.ref, ?_, ?_⟩
      · rw [enc_data_rotObj]; exact hd
      · rw [enc_user_rotObj, enc_user]; exact hu

/-! ### `Destroy` in a request -/

theorem destroy_flight {c : Codec} {s : State} {jars : List (String × ID)} {exp : Exp} {client : String}
    {resp : List Ev} {h : Nat} (hl : Live c s jars exp client resp h) (hr : Rest c s jars exp (some client)) (b : Bool) :
    Rest c (delSt s (s.obj h).id) jars (erase client exp) (some client) ∧
    Dead c (delSt s (s.obj h).id) jars (erase client exp) client (resp ++ if b = true then [.delCookie] else []) h := by
  constructor
  · refine hr.step _ (delSt_quiet s _).ess ?_ ?_ (Nat.le_refl _) ?_
    · intro cl j hfl hj e
      exact hl.other cl j (fun e' => hfl (by rw [e'])) hj e
    · intro t x hm
      exact Or.inl ⟨hm, fun e => hl.notimer t (e ▸ hm)⟩
    · intro cl hfl
      rw [Loc.lookup_erase_ne (fun e => hfl (by rw [e]))]
  · refine ⟨hl.other, hl.minted, ?_, ?_, ?_⟩
    · show lookup (s.obj h).id (erase (s.obj h).id s.store) = none
      exact Sx.lookup_erase_self _ _
    · exact Sx.lookup_erase_self _ _
    · cases b
      · left
        show Link jars client (resp ++ []) (s.obj h).id
        rw [List.append_nil]; exact hl.link
      · right; simp

/-! ### `Start` -/

/-- a new session is created for the client in flight (`resp`: the cookies of the response so far, the last one
being the new id). -/
theorem new_flight {cfg : Cfg} {s : State} {r : Req} {pre : List Ev} {jars : List (String × ID)} {exp : Exp}
    {client : String} {out : State × Res × List Ev} (hi : Inv cfg.codec s)
    (hr : Rest cfg.codec s jars exp (some client)) (nd : NewDelta cfg s r pre out) (resp : List Ev)
    (hresp : resp.getLast? = some (.setCookie (.gen s.nextId))) :
    Rest cfg.codec out.1 jars (insert client ([], none) exp) (some client) ∧
    Live cfg.codec out.1 jars (insert client ([], none) exp) client resp s.heap.length := by
  obtain ⟨_, f2, f3, _, _⟩ := nd.fr
  have hoid : (out.1.obj s.heap.length).id = .gen s.nextId := by rw [nd.obj_new]; rfl
  constructor
  · refine hr.step _ nd.quiet.ess ?_ ?_ (by rw [f2]; omega) ?_
    · intro cl j _ hj e
      exact (hr.minted cl j hj).ne_gen e
    · intro t x hm
      rw [f3] at hm
      exact Or.inl ⟨hm, fun e => (hi.tkeys t x hm).ne_gen e⟩
    · intro cl hfl
      rw [Loc.lookup_insert_ne (fun e => hfl (by rw [e]))]
  · refine ⟨?_, ?_, by rw [hoid, f2]; exact minted_gen _, by rw [hoid]; exact Or.inr hresp, ?_,
      by rw [nd.obj_new]; rfl, ⟨[], none, Loc.lookup_insert_self _ _ _, ?_⟩⟩
    · intro cl j _ hj
      rw [hoid]; exact (hr.minted cl j hj).ne_gen
    · intro t hm
      rw [hoid, f3] at hm
      exact (hi.tkeys t _ hm).ne_gen rfl
    · exact ⟨_, by rw [hoid]; exact nd.saved, by rw [nd.obj_new]⟩
    · refine ⟨_, by rw [hoid]; exact nd.saved, by rw [enc_ref]; rfl, ?_, ?_⟩
      · exact enc_data_some _ (newObj_fields s r).2.2.1
      · rw [enc_user]; rfl

/-- the session `Start` has found under the id in the client's jar is live. -/
theorem found_live {cfg : Cfg} {s s1 : State} {id : ID} {res : GetRes} {e1 : List Ev} {jars : List (String × ID)}
    {exp : Exp} {client : String} {h : Nat} {r0 : Rec} (hr : Rest cfg.codec s jars exp none)
    (hj : lookup client jars = some id) (gd : GetDelta cfg s id (s1, res, e1))
    (hl0 : lookup id s.store = some r0) (he0 : ess (enc cfg.codec (s1.obj h)) = ess r0) (hid : (s1.obj h).id = id) :
    (∃ d u, lookup client exp = some (d, u)) ∧ Rest cfg.codec s1 jars exp (some client) ∧
    Live cfg.codec s1 jars exp client [] h := by
  obtain ⟨_, f2, f3, _, _⟩ := gd.fr
  simp only at f2 f3
  have hr1 : Rest cfg.codec s1 jars exp none :=
    hr.keep gd.quiet.ess (by rw [f3]; exact fun _ hp => hp) (by rw [f2]; exact Nat.le_refl _)
  cases he : lookup client exp with
  | none =>
    have := hr.gone client id (by simp) hj he
    rw [hl0] at this; cases this
  | some p =>
    obtain ⟨d, u⟩ := p
    have hh := hr.holds client id d u (by simp) hj he
    obtain ⟨r, hlr, hf⟩ := hh.full
    rw [hl0] at hlr
    simp only [Option.some.injEq] at hlr
    subst hlr
    obtain ⟨r', hl', he'⟩ := gd.quiet.ess.fwd (fun hx => hx) hl0
    simp only at hl'
    refine ⟨⟨d, u, rfl⟩, hr1.weaken _, ?_, ?_, by rw [hid]; exact hr1.minted client id hj, by rw [hid]; exact Or.inl ⟨rfl, hj⟩,
      ⟨r', by rw [hid]; exact hl', he0.trans he'.symm⟩, ?_, ⟨d, u, he, ?_⟩⟩
    · intro cl j hne hjj e
      rw [hid] at e; subst e
      exact hne (hr.inj cl client j hjj hj)
    · intro t hm
      rw [hid, f3] at hm
      exact hr.tref t id r0 hm hl0 hf
    · rw [← enc_ref cfg.codec, ess_ref he0]; exact hf
    · rw [hid]; exact hh.of_ess (gd.quiet.ess id (fun hx => hx))

/-- the session of the request, if any. -/
def curOf : Res → Option Nat
  | .sess h => some h
  | _ => none

/-- the ghost update of a request of client `c`: when a session is returned and the client had no
expectation, or presented no cookie, or was first sent the deletion cookie, the session is a new one. -/
def expReq (exp : Exp) (c : String) (sess noCookie delFirst : Bool) : Exp :=
  if sess && ((lookup c exp).isNone || noCookie || delFirst) then insert c ([], none) exp else exp

theorem expReq_nosess (exp : Exp) (c : String) (a b : Bool) : expReq exp c false a b = exp := by simp [expReq]
theorem expReq_reset (exp : Exp) (c : String) {a b : Bool} (h : a = true ∨ b = true) :
    expReq exp c true a b = insert c ([], none) exp := by
  rcases h with h | h <;> simp [expReq, h]
theorem expReq_keep {exp : Exp} {c : String} {p : Data × Option String} (h : lookup c exp = some p) :
    expReq exp c true false false = exp := by simp [expReq, h]

/-- `createNew` inside `Start`, after the response cookies `pre` (none, or the deletion cookie). -/
theorem createNew_flight (cfg : Cfg) (s : State) (r : Req) (pre : List Ev) (jars : List (String × ID)) (exp : Exp)
    (client : String) (nc : Bool) (hnf : NoFail s) (hi : Inv cfg.codec s) (hr : Rest cfg.codec s jars exp (some client))
    (hpre : (pre.filter isCookie = [] ∧ nc = true ∧ Rest cfg.codec s jars exp none) ∨ pre.filter isCookie = [.delCookie]) :
    Rest cfg.codec (createNew cfg s r pre).1 jars
      (expReq exp client (createNew cfg s r pre).2.1.isSess nc
        (((createNew cfg s r pre).2.2.filter isCookie).head? == some .delCookie)) (some client) ∧
    Flight cfg.codec (createNew cfg s r pre).1 jars
      (expReq exp client (createNew cfg s r pre).2.1.isSess nc
        (((createNew cfg s r pre).2.2.filter isCookie).head? == some .delCookie)) client
      ((createNew cfg s r pre).2.2.filter isCookie) (curOf (createNew cfg s r pre).2.1) false := by
  cases hc : r.create with
  | false =>
    rw [Loc.createNew_no pre hc]
    simp only [Res.isSess, expReq_nosess, curOf]
    refine ⟨hr, ?_, ?_⟩
    · intro h hh; cases hh
    · intro _
      rcases hpre with ⟨h1, _, h3⟩ | h1
      · exact Or.inl ⟨h1, h3⟩
      · right; rw [h1]; rfl
  | true =>
    have nd := createNew_delta cfg s r pre hnf hi hc
    generalize createNew cfg s r pre = out at nd
    have hcks : out.2.2.filter isCookie = pre.filter isCookie ++ [.setCookie (.gen s.nextId)] := by
      rw [nd.evs, List.filter_append, List.filter_append, filter_nocookie nd.nocookie]
      simp [isCookie]
    have hreset : nc = true ∨ ((out.2.2.filter isCookie).head? == some Ev.delCookie) = true := by
      rcases hpre with ⟨_, h2, _⟩ | h1
      · exact Or.inl h2
      · right; rw [hcks, h1]; rfl
    rw [nd.res]
    simp only [Res.isSess, curOf]
    rw [expReq_reset exp client hreset]
    obtain ⟨a, b⟩ := new_flight hi hr nd (out.2.2.filter isCookie) (by rw [hcks]; simp)
    refine ⟨a, ?_, ?_⟩
    · intro h hh
      simp only [Option.some.injEq] at hh
      subst hh
      exact Or.inl ⟨rfl, b⟩
    · intro hh; cases hh

/-- **`Start` for a cookie-following client**, fault-free, from a state in which no request is in flight:
the client presents nothing or the id in its jar. -/
theorem start_flight (cfg : Cfg) (s : State) (r : Req) (jars : List (String × ID)) (exp : Exp) (client : String)
    (hnf : NoFail s) (hi : Inv cfg.codec s) (hr : Rest cfg.codec s jars exp none)
    (hck : r.cookie = none ∨ (r.cookie = lookup client jars ∧ r.cookieLen = 24)) :
    Rest cfg.codec (start cfg s r).1 jars
      (expReq exp client (start cfg s r).2.1.isSess r.cookie.isNone
        (((start cfg s r).2.2.filter isCookie).head? == some .delCookie)) (some client) ∧
    Flight cfg.codec (start cfg s r).1 jars
      (expReq exp client (start cfg s r).2.1.isSess r.cookie.isNone
        (((start cfg s r).2.2.filter isCookie).head? == some .delCookie)) client
      ((start cfg s r).2.2.filter isCookie) (curOf (start cfg s r).2.1) false := by
  rcases start_cases cfg s r hnf hi with ⟨hc, heq⟩ | ⟨id, s1, res, e1, hc, hl, hg, gd, hcase⟩
  · have hcn : r.cookie = none := by
      rcases hc with h | h
      · exact h
      · rcases hck with h' | ⟨_, h'⟩
        · exact h'
        · exact absurd h' h
    rw [heq, hcn]
    exact createNew_flight cfg s r [] jars exp client true hnf hi (hr.weaken _) (Or.inl ⟨rfl, rfl, hr⟩)
  · have hj : lookup client jars = some id := by
      rcases hck with h | ⟨h, _⟩
      · rw [hc] at h; cases h
      · rw [← h, hc]
    have hisn : r.cookie.isNone = false := by rw [hc]; rfl
    rw [hisn]
    obtain ⟨_, f2, f3, _, _⟩ := gd.fr
    simp only at f2 f3
    have hr1 : Rest cfg.codec s1 jars exp none :=
      hr.keep gd.quiet.ess (by rw [f3]; exact fun _ hp => hp) (by rw [f2]; exact Nat.le_refl _)
    rcases hcase with ⟨hres, heq⟩ | ⟨h, hres, hk, hid, hfound⟩
    · rw [heq]
      have hpre : (e1 ++ [Ev.delCookie]).filter isCookie = [.delCookie] := by
        rw [List.filter_append, filter_nocookie gd.nocookie]; rfl
      exact createNew_flight cfg s1 r _ jars exp client false gd.nofail gd.inv (hr1.weaken _) (Or.inr hpre)
    · subst hres
      rcases gd.res with ⟨hn, _⟩ | ⟨h', r0, hres', _, _, hl0, he0, _⟩
      · exact absurd hn (by simp)
      · simp only [GetRes.some.injEq] at hres'
        subst hres'
        simp only at hl0 he0
        obtain ⟨⟨d, u, hexp⟩, hrest1, hlive1⟩ := found_live hr hj gd hl0 he0 hid
        rcases hfound with ⟨hv, heq⟩ | ⟨hv, href, hage, heq⟩ | ⟨hv, href, hage, heq⟩ | ⟨t, hv, href, _⟩ | ⟨t, hv, href, _⟩
        · -- the session is stale or anomalous: destroyed, deletion cookie, then `createNew`
          rw [heq]
          have hpre : (e1 ++ [Ev.del id, Ev.delCookie]).filter isCookie = [.delCookie] := by
            rw [List.filter_append, filter_nocookie gd.nocookie]; rfl
          have hrd : Rest cfg.codec (delSt s1 id) jars exp (some client) := by
            refine hrest1.step (fun k => k = id) (delSt_quiet s1 id).ess ?_ ?_ (Nat.le_refl _) (fun _ _ => rfl)
            · intro cl j hfl hjj e
              subst e
              exact hfl (by rw [hr.inj cl client j hjj hj])
            · intro t x hm
              by_cases hx : x = id
              · right
                intro r hlr
                rw [hx] at hlr
                have : lookup id (erase id s1.store) = some r := hlr
                rw [Sx.lookup_erase_self] at this; cases this
              · exact Or.inl ⟨hm, hx⟩
          exact createNew_flight cfg (delSt s1 id) r _ jars exp client false (delSt_nofail id gd.nofail)
            (delSt_inv id gd.inv) hrd (Or.inr hpre)
        · -- valid, young id: the same session, no cookie
          rw [heq]
          have hcks : e1.filter isCookie = [] := filter_nocookie gd.nocookie
          simp only [Res.isSess, curOf, hcks]
          rw [show ((([] : List Ev).head? == some Ev.delCookie)) = false from rfl, expReq_keep hexp]
          refine ⟨hrest1.congr rfl rfl rfl, ?_, ?_⟩
          · intro h' hh
            simp only [Option.some.injEq] at hh
            subst hh
            exact Or.inl ⟨rfl, hlive1.touch _ r⟩
          · intro hh; cases hh
        · -- valid, old id: rotation
          have rd := regenerate_delta cfg s1 h gd.nofail gd.inv hk
          rw [heq]
          have hcks : (e1 ++ (regenerate cfg s1 h).2.2).filter isCookie = [.setCookie (.gen s1.nextId)] := by
            rw [List.filter_append, filter_nocookie gd.nocookie, rd.cookies]; rfl
          simp only [Res.isSess, curOf, hcks]
          rw [show (([Ev.setCookie (ID.gen s1.nextId)].head? == some Ev.delCookie)) = false from rfl, expReq_keep hexp]
          obtain ⟨a, b⟩ := regen_flight gd.inv hlive1 hrest1 rd
          refine ⟨a.congr rfl rfl rfl, ?_, ?_⟩
          · intro h' hh
            simp only [Option.some.injEq] at hh
            subst hh
            exact Or.inl ⟨rfl, b.touch _ r⟩
          · intro hh; cases hh
        · rw [hlive1.ref] at href; cases href
        · rw [hlive1.ref] at href; cases href

/-! ### the end of a request: the browser applies the response cookies -/

theorem applyCookies_last_set {ck : CookieCfg} {jar : Option ID} {resp : List Ev} {id : ID}
    (h : resp.getLast? = some (.setCookie id)) : applyCookies ck jar resp = if ck.dead then none else some id := by
  obtain ⟨pre, hpre⟩ := List.getLast?_eq_some_iff.1 h
  subst hpre
  unfold applyCookies
  rw [List.foldl_append]
  rfl

theorem applyCookies_last_del {ck : CookieCfg} {jar : Option ID} {resp : List Ev}
    (h : resp.getLast? = some .delCookie) : applyCookies ck jar resp = none := by
  obtain ⟨pre, hpre⟩ := List.getLast?_eq_some_iff.1 h
  subst hpre
  unfold applyCookies
  rw [List.foldl_append]
  rfl

/-- the jars after the browser of `client` ended up with `jar`. -/
def jarsAfter (jars : List (String × ID)) (client : String) (jar : Option ID) : List (String × ID) :=
  match jar with
  | some id => insert client id jars
  | none => erase client jars

/-- the ghost update at the end of a request: a client left without cookie has no session. -/
def expAfter (exp : Exp) (client : String) (jar : Option ID) : Exp :=
  match jar with
  | some _ => exp
  | none => erase client exp

theorem rest_end_none {c : Codec} {st : State} {jars : List (String × ID)} {exp : Exp} {client : String}
    (hr : Rest c st jars exp (some client)) : Rest c st (erase client jars) (erase client exp) none := by
  have hj : ∀ cl j, lookup cl (erase client jars) = some j → cl ≠ client ∧ lookup cl jars = some j := by
    intro cl j h
    rw [Loc.lookup_erase] at h
    split at h
    · cases h
    · rename_i hne; exact ⟨fun e => hne e.symm, h⟩
  refine ⟨fun cl j h => hr.minted cl j (hj cl j h).2, fun cl cl' j h h' => hr.inj cl cl' j (hj cl j h).2 (hj cl' j h').2, ?_, ?_, hr.tref⟩
  · intro cl j d u _ h he
    obtain ⟨hne, h⟩ := hj cl j h
    rw [Loc.lookup_erase_ne (Ne.symm hne)] at he
    exact hr.holds cl j d u (fun e => hne (Option.some.inj e).symm) h he
  · intro cl j _ h he
    obtain ⟨hne, h⟩ := hj cl j h
    rw [Loc.lookup_erase_ne (Ne.symm hne)] at he
    exact hr.gone cl j (fun e => hne (Option.some.inj e).symm) h he

theorem rest_end_some {c : Codec} {st : State} {jars : List (String × ID)} {exp : Exp} {client : String} {id : ID}
    (hr : Rest c st jars exp (some client)) (hm : Minted st.nextId id)
    (hother : ∀ cl j, cl ≠ client → lookup cl jars = some j → j ≠ id)
    (hh : ∀ d u, lookup client exp = some (d, u) → Holds st.store c id d u)
    (hg : lookup client exp = none → lookup id st.store = none) : Rest c st (insert client id jars) exp none := by
  have hj : ∀ cl j, lookup cl (insert client id jars) = some j → (cl = client ∧ j = id) ∨ (cl ≠ client ∧ lookup cl jars = some j) := by
    intro cl j h
    rw [Loc.lookup_insert] at h
    split at h
    · rename_i e; exact Or.inl ⟨e.symm, (Option.some.inj h).symm⟩
    · rename_i hne; exact Or.inr ⟨fun e => hne e.symm, h⟩
  refine ⟨?_, ?_, ?_, ?_, hr.tref⟩
  · intro cl j h
    rcases hj cl j h with ⟨_, e⟩ | ⟨_, h⟩
    · rw [e]; exact hm
    · exact hr.minted cl j h
  · intro cl cl' j h h'
    rcases hj cl j h with ⟨e1, e2⟩ | ⟨n1, h1⟩ <;> rcases hj cl' j h' with ⟨e3, e4⟩ | ⟨n2, h2⟩
    · rw [e1, e3]
    · exact absurd e2 (hother cl' j n2 h2)
    · exact absurd e4 (hother cl j n1 h1)
    · exact hr.inj cl cl' j h1 h2
  · intro cl j d u _ h he
    rcases hj cl j h with ⟨e1, e2⟩ | ⟨n1, h1⟩
    · subst e1; subst e2; exact hh d u he
    · exact hr.holds cl j d u (fun e => n1 (Option.some.inj e).symm) h1 he
  · intro cl j _ h he
    rcases hj cl j h with ⟨e1, e2⟩ | ⟨n1, h1⟩
    · subst e1; subst e2; exact hg he
    · exact hr.gone cl j (fun e => n1 (Option.some.inj e).symm) h1 he

/-- **the end of a request**: whatever the request did, afterwards every client (the one that was in flight
included) is at rest. -/
theorem end_rest {c : Codec} {st : State} {jars : List (String × ID)} {exp : Exp} {client : String} {resp : List Ev}
    {cur : Option Nat} {dead : Bool} (ck : CookieCfg) (hr : Rest c st jars exp (some client))
    (hf : Flight c st jars exp client resp cur dead) :
    Rest c st (jarsAfter jars client (applyCookies ck (lookup client jars) resp))
      (expAfter exp client (applyCookies ck (lookup client jars) resp)) none := by
  -- the three shapes of the cookie link
  have hnone : applyCookies ck (lookup client jars) resp = none →
      Rest c st (jarsAfter jars client (applyCookies ck (lookup client jars) resp))
        (expAfter exp client (applyCookies ck (lookup client jars) resp)) none := by
    intro e; rw [e]; exact rest_end_none hr
  have hsome : ∀ id, applyCookies ck (lookup client jars) resp = some id → Minted st.nextId id →
      (∀ cl j, cl ≠ client → lookup cl jars = some j → j ≠ id) →
      (∀ d u, lookup client exp = some (d, u) → Holds st.store c id d u) →
      (lookup client exp = none → lookup id st.store = none) →
      Rest c st (jarsAfter jars client (applyCookies ck (lookup client jars) resp))
        (expAfter exp client (applyCookies ck (lookup client jars) resp)) none := by
    intro id e h1 h2 h3 h4; rw [e]; exact rest_end_some hr h1 h2 h3 h4
  have hlink : ∀ id, Link jars client resp id → applyCookies ck (lookup client jars) resp = none ∨
      applyCookies ck (lookup client jars) resp = some id := by
    intro id hl
    rcases hl with ⟨h1, h2⟩ | h1
    · right; rw [h1, h2]; rfl
    · rw [applyCookies_last_set h1]
      cases ck.dead
      · exact Or.inr rfl
      · exact Or.inl rfl
  cases hc : cur with
  | none =>
    rcases hf.none hc with ⟨h1, h2⟩ | h1
    · subst h1
      show Rest c st (jarsAfter jars client (lookup client jars)) (expAfter exp client (lookup client jars)) none
      cases hj : lookup client jars with
      | none => exact rest_end_none hr
      | some id =>
        exact rest_end_some hr (h2.minted client id hj)
          (fun cl j hne hjj e => hne (h2.inj cl client j hjj (e ▸ hj)))
          (fun d u he => h2.holds client id d u (by simp) hj he) (fun he => h2.gone client id (by simp) hj he)
    · exact hnone (applyCookies_last_del h1)
  | some h =>
    rcases hf.some h hc with ⟨_, hl⟩ | ⟨_, hd⟩
    · obtain ⟨d, u, he, hh⟩ := hl.exp
      rcases hlink _ hl.link with e | e
      · exact hnone e
      · refine hsome _ e hl.minted hl.other ?_ ?_
        · intro d' u' he'
          rw [he] at he'
          simp only [Option.some.injEq, Prod.mk.injEq] at he'
          rw [← he'.1, ← he'.2]; exact hh
        · intro he'; rw [he] at he'; cases he'
    · rcases hd.link with hl | hl
      · rcases hlink _ hl with e | e
        · exact hnone e
        · refine hsome _ e hd.minted hd.other ?_ (fun _ => hd.gone)
          intro d' u' he'
          rw [hd.noexp] at he'; cases he'
      · exact hnone (applyCookies_last_del hl)

/-! ### handler operations -/

theorem erase_of_lookup_none {β : Type} (k : String) (d : List (String × β)) (h : lookup k d = none) : erase k d = d := by
  induction d with
  | nil => rfl
  | cons p r ih =>
    obtain ⟨k', v⟩ := p
    rw [Loc.lookup_cons] at h
    split at h
    · cases h
    · rename_i hne
      show (if k' = k then erase k r else (k', v) :: erase k r) = _
      rw [if_neg hne, ih h]

theorem Rest.exp_congr {c : Codec} {st : State} {jars : List (String × ID)} {exp exp' : Exp} {fl : Option String}
    (hr : Rest c st jars exp fl) (hexp : ∀ cl, fl ≠ some cl → lookup cl exp' = lookup cl exp) : Rest c st jars exp' fl :=
  hr.step NoX (EssEqX.refl _ _) (fun _ _ _ _ hx => hx) (fun _ _ hm => Or.inl ⟨hm, fun hx => hx⟩) (Nat.le_refl _) hexp

theorem Rest.exp_insert {c : Codec} {st : State} {jars : List (String × ID)} {exp : Exp} {client : String}
    (hr : Rest c st jars exp (some client)) (p : Data × Option String) : Rest c st jars (insert client p exp) (some client) :=
  hr.exp_congr (fun cl hfl => Loc.lookup_insert_ne (fun e => hfl (by rw [e])) _ _)

/-- the expectation of the client in flight may be replaced by one that is equal up to the codec. -/
theorem Live.reexp {c : Codec} {st : State} {jars : List (String × ID)} {exp : Exp} {client : String}
    {resp : List Ev} {h : Nat} (hl : Live c st jars exp client resp h) {d d' : Data} {u : Option String}
    (he : lookup client exp = some (d, u)) (hn : normData c d' = normData c d) :
    Live c st jars (insert client (d', u) exp) client resp h := by
  obtain ⟨d0, u0, he0, r, h1, h2, h3, h4⟩ := hl.exp
  rw [he] at he0
  simp only [Option.some.injEq, Prod.mk.injEq] at he0
  obtain ⟨rfl, rfl⟩ := he0
  exact ⟨hl.other, hl.notimer, hl.minted, hl.link, hl.coh, hl.ref,
    ⟨d', _, Loc.lookup_insert_self _ _ _, r, h1, h2, by rw [hn]; exact h3, h4⟩⟩

/-- the request's object is overwritten by `o'` and written through with `SaveSession`. -/
theorem save_flight {cfg : Cfg} {s : State} {jars : List (String × ID)} {exp : Exp} {client : String}
    {resp : List Ev} {h : Nat} (hnf : NoFail s) (hv : h < s.heap.length)
    (hl : Live cfg.codec s jars exp client resp h) (hr : Rest cfg.codec s jars exp (some client))
    (o' : Sess) (hid : o'.id = (s.obj h).id) (href : o'.ref = none) {d' : Data} {u' : Option String}
    (hd : (enc cfg.codec o').data = some (normData cfg.codec d')) (hu : (enc cfg.codec o').user = u') :
    (saveObj cfg (s.setObj h o') h).2.1 = true ∧ (saveObj cfg (s.setObj h o') h).2.2.filter isCookie = [] ∧
    (saveObj cfg (s.setObj h o') h).1.extra = s.extra ∧
    Rest cfg.codec (saveObj cfg (s.setObj h o') h).1 jars (insert client (d', u') exp) (some client) ∧
    Live cfg.codec (saveObj cfg (s.setObj h o') h).1 jars (insert client (d', u') exp) client resp h := by
  have hobj : (s.setObj h o').obj h = o' := Sx.obj_setObj_self s h o' hv
  have hnf1 : NoFail (s.setObj h o') := hnf
  rw [Loc.saveObj_eq, hobj, Sx.saveRec_eq cfg o'.id o' hnf1]
  refine ⟨rfl, rfl, rfl, ?_⟩
  exact hl.put (st' := saveS cfg (s.setObj h o') o'.id o') hr hid href (by rw [← hid]; rfl) hobj rfl rfl hd hu

theorem hgetdel_none {cfg : Cfg} {s : State} {h : Nat} {k : String} (hl : lookup k ((s.obj h).data.getD []) = none) :
    hgetdel cfg s h k = (s, .val .null, []) := by
  simp [hgetdel, hl]

theorem hgetdel_some {cfg : Cfg} {s : State} {h : Nat} {k : String} {v : Val}
    (hl : lookup k ((s.obj h).data.getD []) = some v) :
    hgetdel cfg s h k =
      ((saveObj cfg (s.setObj h { s.obj h with data := (s.obj h).data.map (erase k) }) h).1, .val v,
       (saveObj cfg (s.setObj h { s.obj h with data := (s.obj h).data.map (erase k) }) h).2.2) := by
  simp [hgetdel, hl]

/-! ### users -/

/-- what `LogOut(uid)` does to a user field. -/
def dropUo (uid : String) (u : Option String) : Option String := if u = some uid then none else u

/-- a transformation of the user of every expectation. -/
def mapU (f : Option String → Option String) (e : Exp) : Exp := e.map (fun p => (p.1, (p.2.1, f p.2.2)))

/-- `LogOut(uid)`: every expectation that carries the user loses it. -/
def dropU (uid : String) (e : Exp) : Exp := mapU (dropUo uid) e

theorem lookup_mapU (f : Option String → Option String) (e : Exp) (cl : String) :
    lookup cl (mapU f e) = (lookup cl e).map (fun p => (p.1, f p.2)) := by
  induction e with
  | nil => rfl
  | cons p r ih =>
    obtain ⟨k, d, u⟩ := p
    show lookup cl ((k, (d, f u)) :: mapU f r) = (lookup cl ((k, (d, u)) :: r)).map _
    rw [Loc.lookup_cons, Loc.lookup_cons]
    split
    · rfl
    · exact ih

/-- a step that outside `X` keeps every record but for its user, transformed by `fu`, the expectations of the
clients not in flight being transformed alike. -/
theorem Rest.stepU {c : Codec} {st st' : State} {jars : List (String × ID)} {exp exp' : Exp} {fl : Option String}
    (fu : Option String → Option String) (X : ID → Prop) (hr : Rest c st jars exp fl)
    (hfw : ∀ k, ¬ X k → ∀ r, lookup k st.store = some r →
      ∃ r', lookup k st'.store = some r' ∧ r'.ref = r.ref ∧ r'.data = r.data ∧ r'.user = fu r.user)
    (hnone : ∀ k, ¬ X k → lookup k st.store = none → lookup k st'.store = none)
    (hX : ∀ cl j, fl ≠ some cl → lookup cl jars = some j → ¬ X j)
    (ht : ∀ t x, (t, x) ∈ st'.timers → ((t, x) ∈ st.timers ∧ ¬ X x) ∨ ∀ r, lookup x st'.store = some r → r.ref ≠ none)
    (hn : st.nextId ≤ st'.nextId)
    (hexp : ∀ cl, fl ≠ some cl → lookup cl exp' = (lookup cl exp).map (fun p => (p.1, fu p.2))) :
    Rest c st' jars exp' fl := by
  refine ⟨fun cl j hj => (hr.minted cl j hj).mono hn, hr.inj, ?_, ?_, ?_⟩
  · intro cl j d u' hfl hj he
    rw [hexp cl hfl] at he
    cases he0 : lookup cl exp with
    | none => rw [he0] at he; cases he
    | some p =>
      obtain ⟨d0, u⟩ := p
      rw [he0] at he
      simp only [Option.map_some, Option.some.injEq, Prod.mk.injEq] at he
      obtain ⟨rfl, rfl⟩ := he
      obtain ⟨r, hl, h1, h2, h3⟩ := hr.holds cl j d0 u hfl hj he0
      obtain ⟨r', hl', g1, g2, g3⟩ := hfw j (hX cl j hfl hj) r hl
      exact ⟨r', hl', g1.trans h1, g2.trans h2, by rw [g3, h3]⟩
  · intro cl j hfl hj he
    rw [hexp cl hfl] at he
    cases he0 : lookup cl exp with
    | none => exact hnone j (hX cl j hfl hj) (hr.gone cl j hfl hj he0)
    | some p => rw [he0] at he; cases he
  · intro t x r' hm hl'
    rcases ht t x hm with ⟨hm0, hx⟩ | h
    · cases hl0 : lookup x st.store with
      | none => rw [hnone x hx hl0] at hl'; cases hl'
      | some r =>
        obtain ⟨r'', hl'', g1, _⟩ := hfw x hx r hl0
        rw [hl'] at hl''
        simp only [Option.some.injEq] at hl''
        subst hl''
        rw [g1]; exact hr.tref t x r hm0 hl0
    · exact h r' hl'

/-- the user loop of `LogOut(uid)` / `RefreshUser`, read record by record (no stale entries in the user index). -/
theorem usersDelta_fw {cfg : Cfg} {le : ID → ID → Bool} {s : State} {uid : String} {u : Option (String × Nat)}
    {r : State × Bool × List Ev} (D : UsersDelta cfg s (userSessions le s uid) u r) (hi : Inv cfg.codec s)
    (hx : s.extra = []) :
    (∀ k r0, lookup k s.store = some r0 → ∃ rc, lookup k r.1.store = some rc ∧ rc.ref = r0.ref ∧ rc.data = r0.data ∧
      rc.user = if r0.user = some uid then u.map (·.1) else r0.user) ∧
    (∀ k, lookup k s.store = none → lookup k r.1.store = none) := by
  constructor
  · intro k r0 hl0
    obtain ⟨rc, hl, h1, _, h3, h4⟩ := D.rec_to hl0
    refine ⟨rc, hl, h3, h4, ?_⟩
    rw [h1]
    have hm := mem_userSessions_noextra le s uid k hi.sok hx
    by_cases hk : k ∈ userSessions le s uid
    · obtain ⟨r1, hl1, hu1⟩ := hm.1 hk
      rw [hl0] at hl1
      simp only [Option.some.injEq] at hl1
      subst hl1
      rw [if_pos hk, if_pos hu1]
    · have : ¬ r0.user = some uid := fun e => hk (hm.2 ⟨r0, hl0, e⟩)
      rw [if_neg hk, if_neg this]
  · intro k hl0
    have := D.store k
    rw [hl0] at this
    cases hl : lookup k r.1.store with
    | none => rfl
    | some rc => rw [hl] at this; simp at this

/-- `LogOut(uid)` between requests. -/
theorem logoutUser_rest {cfg : Cfg} {le : ID → ID → Bool} {s : State} {uid : String} {jars : List (String × ID)} {exp : Exp}
    (hnf : NoFail s) (hi : Inv cfg.codec s) (hx : s.extra = []) (hr : Rest cfg.codec s jars exp none) :
    Rest cfg.codec (logoutUser cfg le s uid).1 jars (dropU uid exp) none := by
  have D := logoutUser_delta cfg le s uid hnf hi
  obtain ⟨hfw, hnone⟩ := usersDelta_fw D hi hx
  refine hr.stepU (dropUo uid) NoX (fun k _ r0 hl0 => hfw k r0 hl0) (fun k _ h => hnone k h) (fun _ _ _ _ hx' => hx') ?_
    (by rw [D.nextId]; exact Nat.le_refl _) (fun cl _ => lookup_mapU _ _ _)
  intro t x hm
  rw [D.timers] at hm
  exact Or.inl ⟨hm, fun hx' => hx'⟩

/-- `RefreshUser` between requests: nothing the invariant reads changes. -/
theorem refreshUser_rest {cfg : Cfg} {le : ID → ID → Bool} {s : State} {uid : String} {jars : List (String × ID)} {exp : Exp}
    (hnf : NoFail s) (hi : Inv cfg.codec s) (hx : s.extra = []) (hr : Rest cfg.codec s jars exp none) :
    Rest cfg.codec (refreshUser cfg le s uid).1 jars exp none := by
  have D := refreshUser_delta cfg le s uid hnf hi
  obtain ⟨hfw, hnone⟩ := usersDelta_fw D hi hx
  refine hr.stepU id NoX ?_ (fun k _ h => hnone k h) (fun _ _ _ _ hx' => hx') ?_
    (by rw [D.nextId]; exact Nat.le_refl _) ?_
  · intro k _ r0 hl0
    obtain ⟨rc, hl, h1, h2, h3⟩ := hfw k r0 hl0
    refine ⟨rc, hl, h1, h2, ?_⟩
    rw [h3]
    split
    · rename_i e; rw [e]; rfl
    · rfl
  · intro t x hm
    rw [D.timers] at hm
    exact Or.inl ⟨hm, fun hx' => hx'⟩
  · intro cl _
    cases lookup cl exp <;> rfl

/-- `LogIn` in a request: new id (as `RegenerateID`), the user in the client's expectation; an exclusive log-in
logs the user out of every other client's session. -/
theorem login_flight {cfg : Cfg} {le : ID → ID → Bool} {s : State} {jars : List (String × ID)} {exp : Exp}
    {client : String} {resp : List Ev} {h : Nat} {uid : String} {excl : Bool} {out : State × HRes × List Ev}
    (hi : Inv cfg.codec s) (hx : s.extra = []) (hl : Live cfg.codec s jars exp client resp h)
    (hr : Rest cfg.codec s jars exp (some client)) (ld : LoginDelta cfg le s h uid excl out)
    {d : Data} {u : Option String} (he : lookup client exp = some (d, u)) :
    Rest cfg.codec out.1 jars (insert client (d, some uid) (if excl = true then dropU uid exp else exp)) (some client) ∧
    Live cfg.codec out.1 jars (insert client (d, some uid) (if excl = true then dropU uid exp else exp)) client
      (resp ++ [.setCookie (.gen s.nextId)]) h := by
  have hoid : (out.1.obj h).id = .gen s.nextId := by rw [ld.obj]
  have hne : (s.obj h).id ≠ .gen s.nextId := hl.minted.ne_gen
  obtain ⟨d0, u0, he0, hh⟩ := hl.exp
  rw [he] at he0
  simp only [Option.some.injEq, Prod.mk.injEq] at he0
  obtain ⟨rfl, rfl⟩ := he0
  obtain ⟨hd, _⟩ := holds_obj hl.coh hh
  constructor
  · refine hr.stepU (if excl = true then dropUo uid else id) (fun k => k = (s.obj h).id ∨ k = .gen s.nextId) ?_ ?_ ?_ ?_
      (by rw [ld.nextId]; omega) ?_
    · intro k hk r0 hl0
      have ho := ld.others k (fun e => hk (Or.inl e)) (fun e => hk (Or.inr e))
      rw [hl0] at ho
      cases hl' : lookup k out.1.store with
      | none => rw [hl'] at ho; simp at ho
      | some rc =>
        rw [hl'] at ho
        simp only [Option.map_some, Option.some.injEq] at ho
        have hm := mem_userSessions_noextra le s uid k hi.sok hx
        refine ⟨rc, rfl, ?_⟩
        by_cases hc : excl = true ∧ k ∈ userSessions le s uid
        · rw [if_pos hc] at ho
          obtain ⟨r1, hl1, hu1⟩ := hm.1 hc.2
          rw [hl0] at hl1
          simp only [Option.some.injEq] at hl1
          subst hl1
          refine ⟨(ess_ref ho).trans rfl, (ess_data ho).trans rfl, ?_⟩
          rw [(ess_user ho).trans rfl, if_pos hc.1]
          simp [dropUo, hu1]
        · rw [if_neg hc] at ho
          refine ⟨ess_ref ho, ess_data ho, ?_⟩
          rw [ess_user ho]
          by_cases hex : excl = true
          · have : ¬ r0.user = some uid := fun e => hc ⟨hex, hm.2 ⟨r0, hl0, e⟩⟩
            rw [if_pos hex]; simp [dropUo, this]
          · rw [if_neg hex]; rfl
    · intro k hk hl0
      have ho := ld.others k (fun e => hk (Or.inl e)) (fun e => hk (Or.inr e))
      rw [hl0] at ho
      cases hl' : lookup k out.1.store with
      | none => rfl
      | some rc => rw [hl'] at ho; simp at ho
    · intro cl j hfl hj hxx
      rcases hxx with e | e
      · exact hl.other cl j (fun e' => hfl (by rw [e'])) hj e
      · exact (hr.minted cl j hj).ne_gen e
    · intro t x hm
      rw [ld.timers] at hm
      rcases List.mem_append.mp hm with hm | hm
      · left
        refine ⟨hm, ?_⟩
        intro hxx
        rcases hxx with e | e
        · exact hl.notimer t (e ▸ hm)
        · exact (hi.tkeys t x hm).ne_gen e
      · right
        simp only [List.mem_singleton, Prod.mk.injEq] at hm
        intro r hlr
        obtain ⟨rc, hlc, hrf, _⟩ := ld.old
        rw [hm.2, hlc] at hlr
        simp only [Option.some.injEq] at hlr
        rw [← hlr, hrf]; simp
    · intro cl hfl
      rw [Loc.lookup_insert_ne (fun e => hfl (by rw [e]))]
      cases excl
      · simp only [Bool.false_eq_true, if_false]
        cases lookup cl exp <;> rfl
      · simp only [if_true]
        exact lookup_mapU _ _ _
  · refine ⟨?_, ?_, by rw [hoid, ld.nextId]; exact minted_gen _, ?_, ?_, by rw [ld.obj]; exact hl.ref,
      ⟨d, some uid, Loc.lookup_insert_self _ _ _, ?_⟩⟩
    · intro cl j _ hj
      rw [hoid]; exact (hr.minted cl j hj).ne_gen
    · intro t hm
      rw [hoid, ld.timers] at hm
      rcases List.mem_append.mp hm with hm | hm
      · exact (hi.tkeys t _ hm).ne_gen rfl
      · simp only [List.mem_singleton, Prod.mk.injEq] at hm
        exact hne hm.2.symm
    · right; rw [hoid]; simp
    · exact ⟨_, by rw [hoid]; exact ld.new, rfl⟩
    · refine ⟨_, by rw [hoid]; exact ld.new, ?_, ?_, ?_⟩
      · rw [enc_ref, ld.obj]; exact hl.ref
      · rw [← hd, ld.obj]; cases cfg.codec <;> rfl
      · rw [enc_user, ld.obj]; rfl

/-! ### `PurgeSessions` -/

theorem purgeList_fr_nc (cfg : Cfg) : ∀ (l : List (ID × Nat)) (s : State),
    Loc.Fr s (purgeList cfg s l).1 ∧ ∀ e ∈ (purgeList cfg s l).2, isCookie e = false
  | [], s => ⟨Loc.Fr.refl s, by simp [purgeList]⟩
  | (id, h) :: rest, s => by
    obtain ⟨a, b⟩ := purgeList_fr_nc cfg rest (saveRec cfg s id (s.obj h)).1
    simp only [purgeList]
    refine ⟨(Loc.saveRec_fr cfg s id (s.obj h)).trans a, ?_⟩
    intro e he
    rcases List.mem_append.mp he with he | he
    · rw [Loc.saveRec_evs] at he
      simp only [List.mem_singleton] at he
      split at he <;> subst he <;> rfl
    · exact b e he

theorem purge_fr_nc (cfg : Cfg) (s : State) : Loc.Fr s (purge cfg s).1 ∧ (purge cfg s).2.filter isCookie = [] := by
  obtain ⟨a, b⟩ := purgeList_fr_nc cfg (orderBy s.picks s.cache) s
  rw [More.purge_eq]
  exact ⟨⟨a.now, a.heap, a.nextId, a.timers, a.vers, a.extra⟩, filter_nocookie b⟩

/-! ### when `Start` returns a new session -/

theorem createNew_sess {cfg : Cfg} {s : State} {r : Req} {pre : List Ev} {h : Nat} (hnf : NoFail s) (hi : Inv cfg.codec s)
    (hres : (createNew cfg s r pre).2.1 = .sess h) : (createNew cfg s r pre).1.obj h = Loc.newObj s r := by
  cases hc : r.create with
  | false => rw [Loc.createNew_no pre hc] at hres; cases hres
  | true =>
    have nd := createNew_delta cfg s r pre hnf hi hc
    rw [nd.res] at hres
    simp only [Res.sess.injEq] at hres
    rw [← hres]; exact nd.obj_new

/-- **when the ghost says "new session", `Start` has created one**: it carries the id minted by this request, an
empty data map and no user. -/
theorem start_new (cfg : Cfg) (s : State) (r : Req) (jars : List (String × ID)) (exp : Exp) (client : String)
    (hnf : NoFail s) (hi : Inv cfg.codec s) (hr : Rest cfg.codec s jars exp none)
    (hck : r.cookie = none ∨ (r.cookie = lookup client jars ∧ r.cookieLen = 24)) (h : Nat)
    (hres : (start cfg s r).2.1 = .sess h)
    (hnew : lookup client exp = none ∨ r.cookie = none ∨ ((start cfg s r).2.2.filter isCookie).head? = some .delCookie) :
    ((start cfg s r).1.obj h).id = .gen s.nextId ∧ ((start cfg s r).1.obj h).data = some [] ∧
    ((start cfg s r).1.obj h).user = none := by
  have fin : ∀ (s1 : State) (pre : List Ev), NoFail s1 → Inv cfg.codec s1 → s1.nextId = s.nextId →
      start cfg s r = createNew cfg s1 r pre →
      ((start cfg s r).1.obj h).id = .gen s.nextId ∧ ((start cfg s r).1.obj h).data = some [] ∧
      ((start cfg s r).1.obj h).user = none := by
    intro s1 pre hnf1 hi1 hn heq
    rw [heq] at hres ⊢
    rw [createNew_sess hnf1 hi1 hres, ← hn]
    exact ⟨rfl, rfl, rfl⟩
  rcases start_cases cfg s r hnf hi with ⟨hc, heq⟩ | ⟨id, s1, res, e1, hc, hl, hg, gd, hcase⟩
  · exact fin s [] hnf hi rfl heq
  · have hj : lookup client jars = some id := by
      rcases hck with h' | ⟨h', _⟩
      · rw [hc] at h'; cases h'
      · rw [← h', hc]
    have hn1 : s1.nextId = s.nextId := gd.fr.2.1
    rcases hcase with ⟨_, heq⟩ | ⟨h0, hres0, hk, hid, hfound⟩
    · exact fin s1 _ gd.nofail gd.inv hn1 heq
    · subst hres0
      rcases gd.res with ⟨hn, _⟩ | ⟨h', r0, hres', _, _, hl0, he0, _⟩
      · exact absurd hn (by simp)
      · simp only [GetRes.some.injEq] at hres'
        subst hres'
        simp only at hl0 he0
        obtain ⟨⟨d, u, hexp⟩, _, hlive1⟩ := found_live hr hj gd hl0 he0 hid
        have hcontra : ∀ l : List Ev, (l.head? = some Ev.delCookie → False) → start cfg s r = start cfg s r →
            (start cfg s r).2.2.filter isCookie = l → False := by
          intro l hl' _ hcks
          rcases hnew with h1 | h1 | h1
          · rw [hexp] at h1; cases h1
          · rw [hc] at h1; cases h1
          · rw [hcks] at h1; exact hl' h1
        rcases hfound with ⟨_, heq⟩ | ⟨_, _, _, heq⟩ | ⟨_, _, _, heq⟩ | ⟨t, _, href, _⟩ | ⟨t, _, href, _⟩
        · exact fin (delSt s1 id) _ (delSt_nofail id gd.nofail) (delSt_inv id gd.inv) hn1 heq
        · exact (hcontra [] (by intro h1; cases h1) rfl (by rw [heq]; exact filter_nocookie gd.nocookie)).elim
        · have rd := regenerate_delta cfg s1 h0 gd.nofail gd.inv hk
          refine (hcontra [.setCookie (.gen s1.nextId)] (by intro h1; cases h1) rfl ?_).elim
          rw [heq]
          show (e1 ++ (regenerate cfg s1 h0).2.2).filter isCookie = _
          rw [List.filter_append, filter_nocookie gd.nocookie, rd.cookies]; rfl
        · rw [hlive1.ref] at href; cases href
        · rw [hlive1.ref] at href; cases href

/-! ### a valid session is continued -/

/-- **continuity, T-local part**: the client presents the id `j` in its jar, it has an expectation, and the object
`j` resolves to (`More.PresObj`: the cached object, else the decoded record) passes the validity test of `Start`.
Then `Start` returns a session and does not send the deletion cookie. -/
theorem start_continues (cfg : Cfg) (s : State) (r : Req) (jars : List (String × ID)) (exp : Exp) (client : String)
    (j : ID) (o : Sess) (hnf : NoFail s) (hi : Inv cfg.codec s) (hr : Rest cfg.codec s jars exp none)
    (hc : r.cookie = some j) (hl : r.cookieLen = 24) (hj : lookup client jars = some j)
    (ho : More.PresObj s j o) (hv : validFor cfg s.now o r = true) :
    (start cfg s r).2.1.isSess = true ∧ ((start cfg s r).2.2.filter isCookie).head? ≠ some .delCookie := by
  rcases start_cases cfg s r hnf hi with ⟨hcn, _⟩ | ⟨id, s1, res, e1, hc', hl', hg, gd, hcase⟩
  · rcases hcn with h | h
    · rw [hc] at h; cases h
    · exact absurd hl h
  · rw [hc] at hc'
    simp only [Option.some.injEq] at hc'
    subst hc'
    have hrec : ∃ r0, lookup j s.store = some r0 := by
      rcases ho with ⟨x, hx, _⟩ | ⟨_, r0, h0, _⟩
      · obtain ⟨r0, h0, _⟩ := hi.coh j x (lookup_some_mem hx) (by simp)
        exact ⟨r0, h0⟩
      · exact ⟨r0, h0⟩
    obtain ⟨r00, hl00⟩ := hrec
    rcases hcase with ⟨hres, _⟩ | ⟨h, hres, hk, hid, hfound⟩
    · subst hres
      rcases gd.res with ⟨_, hn, _⟩ | ⟨h', r0, hres', _⟩
      · rw [hl00] at hn; cases hn
      · exact absurd hres' (by simp)
    · subst hres
      rcases gd.res with ⟨hn, _⟩ | ⟨h', r0, hres', _, _, hl0, he0, hhow⟩
      · exact absurd hn (by simp)
      · simp only [GetRes.some.injEq] at hres'
        subst hres'
        simp only at hl0 he0 hhow
        obtain ⟨_, _, hlive1⟩ := found_live hr hj gd hl0 he0 hid
        have hobj : s1.obj h = o := by
          rcases hhow with ⟨hcache, hs1⟩ | ⟨hcache, _, hdec⟩
          · rcases ho with ⟨x, hx, rfl⟩ | ⟨hx, _⟩
            · rw [hcache] at hx
              simp only [Option.some.injEq] at hx
              rw [hs1, hx]
            · rw [hcache] at hx; cases hx
          · rcases ho with ⟨x, hx, _⟩ | ⟨_, r1, h1, rfl⟩
            · rw [hcache] at hx; cases hx
            · rw [hl0] at h1
              simp only [Option.some.injEq] at h1
              rw [hdec, h1]
        have hnow : s1.now = s.now := gd.fr.1
        have hv1 : validFor cfg s1.now (s1.obj h) r = true := by rw [hnow, hobj]; exact hv
        rcases hfound with ⟨hvf, _⟩ | ⟨_, _, _, heq⟩ | ⟨_, _, _, heq⟩ | ⟨t, _, href, _⟩ | ⟨t, _, href, _⟩
        · rw [hv1] at hvf; cases hvf
        · rw [heq]
          refine ⟨rfl, ?_⟩
          show (e1.filter isCookie).head? ≠ _
          rw [filter_nocookie gd.nocookie]; simp
        · have rd := regenerate_delta cfg s1 h gd.nofail gd.inv hk
          rw [heq]
          refine ⟨rfl, ?_⟩
          show ((e1 ++ (regenerate cfg s1 h).2.2).filter isCookie).head? ≠ _
          rw [List.filter_append, filter_nocookie gd.nocookie, rd.cookies]; simp
        · rw [hlive1.ref] at href; cases href
        · rw [hlive1.ref] at href; cases href

/-! ### the stale user index is not touched by `Start` -/

theorem createNew_extra (cfg : Cfg) (s : State) (r : Req) (pre : List Ev) : (createNew cfg s r pre).1.extra = s.extra := by
  cases hc : r.create with
  | false => rw [Loc.createNew_no pre hc]
  | true =>
    rw [Loc.createNew_yes pre hc]
    split <;> exact Loc.cacheSet_extra cfg _ _

theorem follow_extra (cfg : Cfg) : ∀ (n : Nat) (s : State) (h : Nat), (follow cfg n s h).1.extra = s.extra
  | 0, s, h => rfl
  | n + 1, s, h => by
    cases href : (s.obj h).ref with
    | none => rw [Loc.follow_succ_none n href]
    | some tgt =>
      rw [Loc.follow_succ_some n href]
      have hg := (Loc.cacheGet_spec cfg s tgt).extra
      generalize cacheGet cfg s tgt = g at hg
      obtain ⟨s1, res, e1⟩ := g
      cases res with
      | err => exact hg
      | nil => exact hg
      | some h2 =>
        show (follow cfg n s1 h2).1.extra = _
        rw [follow_extra cfg n s1 h2]; exact hg

theorem start_extra (cfg : Cfg) (s : State) (r : Req) (hnf : NoFail s) (hi : Inv cfg.codec s) :
    (start cfg s r).1.extra = s.extra := by
  rcases start_cases cfg s r hnf hi with ⟨_, heq⟩ | ⟨id, s1, res, e1, hc, hl, hg, gd, hcase⟩
  · rw [heq]; exact createNew_extra cfg s r []
  · have h5 : s1.extra = s.extra := gd.fr.2.2.2.2
    rcases hcase with ⟨_, heq⟩ | ⟨h, hres, hk, hid, hfound⟩
    · rw [heq, createNew_extra]; exact h5
    · rcases hfound with ⟨_, heq⟩ | ⟨_, _, _, heq⟩ | ⟨_, _, _, heq⟩ | ⟨t, _, _, _, heq⟩ | ⟨t, _, _, _, heq⟩
      · rw [heq, createNew_extra]; exact h5
      · rw [heq]; exact h5
      · rw [heq]
        show (regenerate cfg s1 h).1.extra = _
        rw [(regenerate_vers_extra cfg s1 h).2]; exact h5
      · rw [heq]; exact h5
      · rw [heq]
        have hf := follow_extra cfg (s1.store.length + s1.cache.length + 1) s1 h
        generalize follow cfg (s1.store.length + s1.cache.length + 1) s1 h = f at hf
        obtain ⟨s2, res2, e2⟩ := f
        cases res2 with
        | err => exact hf.trans h5
        | nil => exact hf.trans h5
        | some h2 => exact hf.trans h5

end Sx.Glob
