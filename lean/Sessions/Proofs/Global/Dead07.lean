import Sessions.Proofs.Global.Dead07Ops
/-!
# C07 — destroyed or invalidated sessions never come back

"Once Destroy has returned, or a request has invalidated a session (expiry, anomaly), no later request presenting
any ID that ever belonged to it obtains that session, its data or its user — including after the cache was dropped
or the process restarted — provided the application makes no further calls on the destroyed object."

## the statement, in the terms of this file

* §1 **the ghost** `G7` (`root`, `refd`, `deadRoots`, `destroyed`), updated by `g7Step` from the operation and the
  persistence events it shows (`Out.evs`) only. `dead g id`: the session `id` belonged to was destroyed / invalidated;
  `deadIds g candidates` lists the dead ids among candidates. `dead_g7Step`, `dead_persistent`, `dead_later`: dead
  stays dead (a property of the ghost alone). `dead_del`: deleting the record of a full session kills its root class.
* §2 **`SI s g`**, the store/ghost invariant (G1 `ref`, G3 `full`, G2 as the pure ghost fact `cls`, G4 `mroot/mrefd/
  mdead`, G6 `timers`); `SI.frame`, `SI.delete`, `SI.regen`.
* §3 the model functions on the ghost, fault-free from an `Inv` state: `SI.rq`/`SI.quietX` (quiet operations),
  `createNew_g7`, `delSt_g7`, `regenerate_g7`, `start_g7`, `hlogin_g7` (store-level facts from `Delta.lean`, reference-
  level event facts from `Dead07Ops.lean`).
* §4 **`Dead7 w g`** = alive ∧ `SI` ∧ G5 (`cur`), `Op7OK` (the proviso + no `crashinside`), **`dead7_step`**: every `Op`
  keeps `Dead7` — including `login`, `logoutUser`, `refresh`.
* §5 `runG7`, `Hist7OK`, **`dead_all_histories`**, `dead_every_boundary`; corollaries **`c07_no_dead_full`**,
  **`c07_dead_chain`**, `c07_dead_no_chain` (`More.Leads`), **`c07_dead_not_minted`**, **`c07_served_not_dead`**;
  checkers `hist7OKb` (`hist7OK_of_b`) and the kernel-decidable `synt7B` (`hist7OK_of_synt`).
* §5b `follow_dead`, `start_dead`, **`c07_no_resurrection`**; `c07_destroy_marks`, `c07_invalid_marks(_step)`;
  **`c07_never_comes_back`** (C07 in one statement).
* §5c **`c07_ending_cookie`** (`_destroy`, `_start`): T-local, fault-free.
* §6 non-vacuity `c07_script` (3 clients, rotation ×3, eviction, purge, dropcache, crash, waits, a destroy, an anomaly,
  an expiry, all dead ids presented), `c07_userScript` (exclusive `LogIn`, `LogOut(uid)`, `RefreshUser`).

## hypotheses, each with its failing case

* `OrcOK` (fault-free), `OpOK` (no codec switch; `SoleObject`): inherited from the coherence invariant
  (`Sx.step_inv`; failing cases in `Inv/Examples.lean`).
* `Op7OK`, first half — **the proviso**: between the handler's `Destroy` and the end of the request (or the next
  request) no handler call. Failing case `c07_provisoScript`: `set` after `Destroy` re-creates the record, the dead id
  gets the session back.
* `Op7OK`, second half — **no `crashinside`**: excluded because the ghost is fed with the events an operation *shows*;
  after a crash point only a prefix of them took effect (`Out.frozen`). `c07_crashinsideScript` shows the ghost
  bookkeeping going wrong (a session counted dead whose `Destroy` never happened). C07 itself is not known to fail
  there; the theorems simply do not speak about such histories.

## deviations from the design note

* G2 is stated as a pure ghost fact (`SI.cls`: in every root class at most one id is outside `refd`), which implies
  "full records have distinct roots" via G1 and needs no store reasoning.
* `destroyed` is reset by `req` as well as by `endReq` (a new request replaces the request's object).
* a reference write `.save k r`, `r.ref = some t`, only links when `t` is new to the ghost (`G7.fresh`). In the
  histories considered it always is (`SI.fresh`); the guard makes "dead stays dead" a fact about the ghost alone.
-/
namespace Sx.Glob
open Sx.More
open Sx.More.C10 (refAt refAt_insert_self refAt_insert_ne refAt_of_lookup refAt_none)

/-! ## 1. the ghost

The ghost state is computed from the operations of a history and the persistence events they show
(`Out.evs`) alone — never from the model state.

* `root`: `id ↦ first id of its session`. A session is born under an id that is its own root; every
  `RegenerateID` (explicit, at `LogIn`, or the automatic rotation of `Start`) shows up as the event
  `.save old r` with `r.ref = some new` — the reference record left under the old id — and gives `new` the
  root of `old`. So all ids a session ever had, and only they, share its root.
* `refd`: the ids under which a reference record has been written. Such an id never holds a full session again.
* `deadRoots`: the roots of the sessions that were destroyed or invalidated: a `.del k` of an id that is not in
  `refd` deletes a *full* session record (`Destroy`, or `Start` refusing / expiring the presented session);
  a `.del k` of an id in `refd` only removes a reference record (back-stop, anomaly on an old id) and kills
  nothing.
* `destroyed`: the handler called `Destroy` in the request in flight (reset by the next `req` / `endReq`).

`dead g id`: the session `id` belonged to has been destroyed or invalidated. -/

structure G7 where
  root : List (ID × ID) := []
  refd : List ID := []
  deadRoots : List ID := []
  destroyed : Bool := false
deriving Repr, Inhabited

/-- the first id of the session `id` belongs (belonged) to. -/
def G7.rootOf (g : G7) (id : ID) : ID := (lookup id g.root).getD id

/-- **`id` is one of the ids of a session that has been destroyed or invalidated.** -/
def dead (g : G7) (id : ID) : Prop := g.rootOf id ∈ g.deadRoots

instance (g : G7) (id : ID) : Decidable (dead g id) := inferInstanceAs (Decidable (_ ∈ _))

/-- the dead ids among the candidates (e.g. `(List.range n).map ID.gen`). -/
def deadIds (g : G7) (cands : List ID) : List ID := cands.filter (fun id => decide (dead g id))

/-- `RegenerateID old ⟶ new` -/
def G7.link (g : G7) (k t : ID) : G7 := { g with root := insert t (g.rootOf k) g.root, refd := k :: g.refd }
/-- the session with the id `k` is destroyed / invalidated -/
def G7.kill (g : G7) (k : ID) : G7 := { g with deadRoots := g.rootOf k :: g.deadRoots }

/-- `t` is new to the ghost: it has no `root` entry and is not a dead root. (The target of the reference record a
`RegenerateID` writes is the id just minted, so it always is — `SI.fresh`; a reference write with a target that is
not new to the ghost is ignored, which makes `dead` monotone by construction: `dead_g7Ev`.) -/
def G7.fresh (g : G7) (t : ID) : Prop := lookup t g.root = none ∧ t ∉ g.deadRoots

instance (g : G7) (t : ID) : Decidable (g.fresh t) := inferInstanceAs (Decidable (_ ∧ _))

/-- a record with reference field `ref` is written under `k` -/
def g7Save (g : G7) (k : ID) (ref : Option ID) : G7 :=
  match ref with
  | some t => if k ∈ g.refd ∨ ¬ g.fresh t then g else g.link k t
  | none => g

/-- the record under `k` is deleted -/
def g7Del (g : G7) (k : ID) : G7 := if k ∈ g.refd ∨ g.rootOf k ∈ g.deadRoots then g else g.kill k

/-- the ghost update for one persistence event. -/
def g7Ev (g : G7) : Ev → G7
  | .save k r => g7Save g k r.ref
  | .del k => g7Del g k
  | _ => g

theorem g7Ev_save (g : G7) (k : ID) (r : Rec) : g7Ev g (.save k r) = g7Save g k r.ref := rfl
theorem g7Ev_del (g : G7) (k : ID) : g7Ev g (.del k) = g7Del g k := rfl
theorem g7Save_none (g : G7) (k : ID) : g7Save g k none = g := rfl
theorem g7Save_in {g : G7} {k : ID} (t : ID) (h : k ∈ g.refd) : g7Save g k (some t) = g := by simp [g7Save, h]
theorem g7Save_new {g : G7} {k : ID} {t : ID} (h : k ∉ g.refd) (hf : g.fresh t) : g7Save g k (some t) = g.link k t := by
  simp [g7Save, h, hf]
theorem g7Del_ign {g : G7} {k : ID} (h : k ∈ g.refd ∨ g.rootOf k ∈ g.deadRoots) : g7Del g k = g := by simp [g7Del, h]
theorem g7Del_kill {g : G7} {k : ID} (h : ¬ (k ∈ g.refd ∨ g.rootOf k ∈ g.deadRoots)) : g7Del g k = g.kill k := by simp [g7Del, h]

/-- the `destroyed` flag: set by the handler's `Destroy`, reset when a request begins or ends. -/
def g7Op (g1 : G7) : Op → G7
  | .h .destroy => { g1 with destroyed := true }
  | .req _ _ _ _ _ => { g1 with destroyed := false }
  | .endReq => { g1 with destroyed := false }
  | _ => g1

/-- the ghost update for one operation of a history, from the operation and the persistence events it showed. -/
def g7Step (g : G7) (op : Op) (out : Out) : G7 := g7Op (out.evs.foldl g7Ev g) op

/-! ### folding the ghost over events -/

theorem foldG_ign {g : G7} {evs : List Ev} (h : ∀ e ∈ evs, g7Ev g e = g) : evs.foldl g7Ev g = g := by
  induction evs with
  | nil => rfl
  | cons e rest ih =>
    simp only [List.foldl_cons]
    rw [h e List.mem_cons_self]
    exact ih (fun e' he' => h e' (List.mem_cons_of_mem _ he'))

/-- all events are ignored except (copies of) one significant event, which does occur, and after which everything
is ignored. -/
theorem foldG_sig {g : G7} {evs : List Ev} (sig : Ev) (h : ∀ e ∈ evs, g7Ev g e = g ∨ e = sig) (hm : sig ∈ evs)
    (h' : ∀ e ∈ evs, g7Ev (g7Ev g sig) e = g7Ev g sig) : evs.foldl g7Ev g = g7Ev g sig := by
  induction evs with
  | nil => simp at hm
  | cons e rest ih =>
    simp only [List.foldl_cons]
    by_cases he : e = sig
    · subst he
      exact foldG_ign (fun e' he' => h' e' (List.mem_cons_of_mem _ he'))
    · rcases h e List.mem_cons_self with h1 | h1
      · rw [h1]
        rcases List.mem_cons.1 hm with h2 | h2
        · exact absurd h2.symm he
        · exact ih (fun e' he' => h e' (List.mem_cons_of_mem _ he')) h2 (fun e' he' => h' e' (List.mem_cons_of_mem _ he'))
      · exact absurd h1 he

theorem g7Ev_cookie {g : G7} {e : Ev} (h : isCookie e = true) : g7Ev g e = g := by
  cases e <;> first | rfl | simp [isCookie] at h

/-- the ghost does not see cookie events: folding over the persistence events shown (`Out.evs`) is folding over all
events of the call. -/
theorem foldG_filter (g : G7) (evs : List Ev) :
    (evs.filter (fun e => !isCookie e)).foldl g7Ev g = evs.foldl g7Ev g := by
  induction evs generalizing g with
  | nil => rfl
  | cons e rest ih =>
    cases hc : isCookie e with
    | true =>
      rw [List.filter_cons_of_neg (by simp [hc])]
      simp only [List.foldl_cons]
      rw [g7Ev_cookie hc]; exact ih g
    | false =>
      rw [List.filter_cons_of_pos (by simp [hc])]
      simp only [List.foldl_cons]
      exact ih _

theorem rootOf_link (g : G7) (k t y : ID) : (g.link k t).rootOf y = if t = y then g.rootOf k else g.rootOf y := by
  unfold G7.rootOf G7.link
  simp only []
  rw [Loc.lookup_insert]
  split <;> rfl

@[simp] theorem link_refd (g : G7) (k t : ID) : (g.link k t).refd = k :: g.refd := rfl
@[simp] theorem link_deadRoots (g : G7) (k t : ID) : (g.link k t).deadRoots = g.deadRoots := rfl
@[simp] theorem kill_refd (g : G7) (k : ID) : (g.kill k).refd = g.refd := rfl
@[simp] theorem kill_root (g : G7) (k : ID) : (g.kill k).root = g.root := rfl
theorem rootOf_kill (g : G7) (k y : ID) : (g.kill k).rootOf y = g.rootOf y := rfl
@[simp] theorem kill_deadRoots (g : G7) (k : ID) : (g.kill k).deadRoots = g.rootOf k :: g.deadRoots := rfl

/-! ### dead stays dead (a pure ghost fact) -/

/-- **no event revives a dead id.** -/
theorem dead_g7Ev {g : G7} {id : ID} (e : Ev) (h : dead g id) : dead (g7Ev g e) id := by
  cases e with
  | save k r =>
    rw [g7Ev_save]
    unfold g7Save
    split
    · rename_i t _
      split
      · exact h
      · rename_i hc
        have hf : g.fresh t := by
          by_cases hf : g.fresh t
          · exact hf
          · exact absurd (Or.inr hf) hc
        unfold dead at h ⊢
        rw [rootOf_link, link_deadRoots]
        split
        · rename_i e
          subst e
          have : g.rootOf t = t := by unfold G7.rootOf; rw [hf.1]; rfl
          rw [this] at h
          exact absurd h hf.2
        · exact h
    · exact h
  | del k =>
    rw [g7Ev_del]
    unfold g7Del
    split
    · exact h
    · unfold dead at h ⊢
      rw [rootOf_kill, kill_deadRoots]
      exact List.mem_cons_of_mem _ h
  | _ => exact h

theorem dead_fold {g : G7} {id : ID} (evs : List Ev) (h : dead g id) : dead (evs.foldl g7Ev g) id := by
  induction evs generalizing g with
  | nil => exact h
  | cons e rest ih => exact ih (dead_g7Ev e h)

theorem dead_g7Op {g : G7} {id : ID} (op : Op) : dead (g7Op g op) id ↔ dead g id := by
  unfold g7Op
  split <;> exact Iff.rfl

/-- **no operation revives a dead id**, whatever it shows. -/
theorem dead_g7Step {g : G7} {id : ID} (op : Op) (out : Out) (h : dead g id) : dead (g7Step g op out) id :=
  (dead_g7Op op).2 (dead_fold _ h)

/-- deleting the record of a full session (an id outside `refd`) makes it dead — it and every id of its root class. -/
theorem dead_del {g : G7} {id k : ID} (hid : id ∉ g.refd) (hk : g.rootOf k = g.rootOf id) : dead (g7Ev g (.del id)) k := by
  rw [g7Ev_del]
  by_cases hc : id ∈ g.refd ∨ g.rootOf id ∈ g.deadRoots
  · rw [g7Del_ign hc]
    rcases hc with hc | hc
    · exact absurd hc hid
    · unfold dead; rw [hk]; exact hc
  · rw [g7Del_kill hc]
    unfold dead
    rw [rootOf_kill, kill_deadRoots, hk]
    exact List.mem_cons_self

/-! ## 2. the state part of the invariant -/

/-- **the invariant relating the store and the ghost** (G1–G4, G6 of the design):
* `ref`: a reference record `k ⟶ t` has `k ∈ refd`, and `t` has the root of `k`;
* `full`: a full record `k` has `k ∉ refd` and **is not dead** (G3, the heart of C07);
* `cls`: the ids of one root class are linearly chained: at most one of them is not in `refd` (a pure ghost fact);
* `mroot/mrefd/mdead`: the ghost only knows minted ids (so the next id to be minted is fresh for it);
* `timers`: the clean-up goroutines only wait for ids in `refd` (they never delete a full record). -/
structure SI (s : State) (g : G7) : Prop where
  ref : ∀ k t, refAt s.store k = some (some t) → k ∈ g.refd ∧ g.rootOf t = g.rootOf k
  full : ∀ k, refAt s.store k = some none → k ∉ g.refd ∧ g.rootOf k ∉ g.deadRoots
  cls : ∀ x y, x ∉ g.refd → y ∉ g.refd → g.rootOf x = g.rootOf y → x = y
  mroot : ∀ k v, (k, v) ∈ g.root → Minted s.nextId k ∧ Minted s.nextId v
  mrefd : ∀ k, k ∈ g.refd → Minted s.nextId k
  mdead : ∀ k, k ∈ g.deadRoots → Minted s.nextId k
  timers : ∀ t id, (t, id) ∈ s.timers → id ∈ g.refd

theorem si_init (g : G7) (hg : g.root = [] ∧ g.refd = [] ∧ g.deadRoots = []) : SI ({} : State) g := by
  obtain ⟨h1, h2, h3⟩ := hg
  refine ⟨?_, ?_, ?_, ?_, ?_, ?_, ?_⟩
  · intro k t h; simp [refAt, lookup] at h
  · intro k h; simp [refAt, lookup] at h
  · intro x y _ _ h
    simpa [G7.rootOf, h1, lookup] using h
  · intro k v h; rw [h1] at h; simp at h
  · intro k h; rw [h2] at h; simp at h
  · intro k h; rw [h3] at h; simp at h
  · intro t id h; simp at h

section fresh
variable {s : State} {g : G7} (hs : SI s g) {n : Nat} (hn : s.nextId ≤ n)
include hs hn

theorem SI.fresh_refd : ID.gen n ∉ g.refd := fun h => ((hs.mrefd _ h).mono hn).ne_gen rfl
theorem SI.fresh_dead : ID.gen n ∉ g.deadRoots := fun h => ((hs.mdead _ h).mono hn).ne_gen rfl

theorem SI.fresh_root : g.rootOf (.gen n) = .gen n := by
  unfold G7.rootOf
  cases hl : lookup (ID.gen n) g.root with
  | none => rfl
  | some v => exact absurd rfl (((hs.mroot _ v (Sx.lookup_some_mem hl)).1.mono hn).ne_gen)

theorem SI.fresh : g.fresh (.gen n) := by
  refine ⟨?_, hs.fresh_dead hn⟩
  cases hl : lookup (ID.gen n) g.root with
  | none => rfl
  | some v => exact absurd rfl (((hs.mroot _ v (Sx.lookup_some_mem hl)).1.mono hn).ne_gen)

/-- nobody has the fresh id as its root -/
theorem SI.fresh_notroot {y : ID} (h : g.rootOf y = .gen n) : y = .gen n := by
  unfold G7.rootOf at h
  cases hl : lookup y g.root with
  | none => rw [hl] at h; exact h
  | some v =>
    rw [hl] at h
    simp only [Option.getD_some] at h
    exact absurd h (((hs.mroot y v (Sx.lookup_some_mem hl)).2.mono hn).ne_gen)

end fresh

theorem SI.rootOf_minted {s : State} {g : G7} (hs : SI s g) {k : ID} (hk : Minted s.nextId k) : Minted s.nextId (g.rootOf k) := by
  unfold G7.rootOf
  cases hl : lookup k g.root with
  | none => exact hk
  | some v => exact (hs.mroot k v (Sx.lookup_some_mem hl)).2

/-- **dead ids are minted ids** — the ids minted from now on are not dead. -/
theorem SI.dead_minted {s : State} {g : G7} (hs : SI s g) {id : ID} (hd : dead g id) : Minted s.nextId id := by
  unfold dead G7.rootOf at hd
  cases hl : lookup id g.root with
  | none => rw [hl] at hd; exact hs.mdead _ hd
  | some v => exact (hs.mroot id v (Sx.lookup_some_mem hl)).1

/-- the frame lemma: records keep their reference view, disappear, or a full record appears under the id being
minted; no timer is added. -/
theorem SI.frame {s s' : State} {g : G7} (hs : SI s g)
    (hst : ∀ k, refAt s'.store k = refAt s.store k ∨ refAt s'.store k = none ∨
      (k = .gen s.nextId ∧ refAt s'.store k = some none))
    (ht : ∀ p ∈ s'.timers, p ∈ s.timers) (hn : s.nextId ≤ s'.nextId) : SI s' g := by
  refine ⟨?_, ?_, hs.cls, ?_, ?_, ?_, ?_⟩
  · intro k t h
    rcases hst k with h1 | h1 | ⟨_, h1⟩
    · rw [h1] at h; exact hs.ref k t h
    · rw [h1] at h; simp at h
    · rw [h1] at h; simp at h
  · intro k h
    rcases hst k with h1 | h1 | ⟨h0, _⟩
    · rw [h1] at h; exact hs.full k h
    · rw [h1] at h; simp at h
    · subst h0
      refine ⟨hs.fresh_refd (Nat.le_refl _), ?_⟩
      rw [hs.fresh_root (Nat.le_refl _)]
      exact hs.fresh_dead (Nat.le_refl _)
  · intro k v h; exact ⟨(hs.mroot k v h).1.mono hn, (hs.mroot k v h).2.mono hn⟩
  · intro k h; exact (hs.mrefd k h).mono hn
  · intro k h; exact (hs.mdead k h).mono hn
  · intro t id h; exact hs.timers t id (ht _ h)

/-- the events the ghost ignores in a state satisfying the invariant: saves of full records, and saves that
re-write a record with the reference it has. -/
theorem SI.ign_save {s : State} {g : G7} (hs : SI s g) {k : ID} {r : Rec}
    (h : r.ref = none ∨ refAt s.store k = some r.ref) : g7Ev g (.save k r) = g := by
  rw [g7Ev_save]
  cases hr : r.ref with
  | none => rfl
  | some t =>
    rcases h with h | h
    · rw [hr] at h; simp at h
    · rw [hr] at h
      exact g7Save_in t (hs.ref k t h).1

/-- **a fault-free cache.Delete(id)** on the ghost: deleting a full record kills its session, deleting a reference
record (or an id already dead) changes nothing. -/
theorem SI.delete {s s' : State} {g : G7} (hs : SI s g) (id : ID) (hm : Minted s.nextId id)
    (hgone : refAt s'.store id = none) (hst : ∀ k, k ≠ id → refAt s'.store k = refAt s.store k)
    (ht : ∀ p ∈ s'.timers, p ∈ s.timers) (hn : s'.nextId = s.nextId) : SI s' (g7Ev g (.del id)) := by
  have hfr : SI s' g := hs.frame (fun k => by
    by_cases hk : k = id
    · subst hk; exact Or.inr (Or.inl hgone)
    · exact Or.inl (hst k hk)) ht (by rw [hn]; exact Nat.le_refl _)
  rw [g7Ev_del]
  by_cases hc : id ∈ g.refd ∨ g.rootOf id ∈ g.deadRoots
  · rw [g7Del_ign hc]; exact hfr
  · rw [g7Del_kill hc]
    have hnr : id ∉ g.refd := fun h => hc (Or.inl h)
    refine ⟨hfr.ref, ?_, hfr.cls, hfr.mroot, hfr.mrefd, ?_, hfr.timers⟩
    · intro k h
      obtain ⟨h1, h2⟩ := hfr.full k h
      refine ⟨h1, ?_⟩
      show g.rootOf k ∉ g.rootOf id :: g.deadRoots
      intro hmem
      rcases List.mem_cons.1 hmem with e | e
      · have := hs.cls k id h1 hnr e
        subst this
        rw [hgone] at h; simp at h
      · exact h2 e
    · intro k h
      rcases List.mem_cons.1 h with e | e
      · rw [e, hn]; exact hs.rootOf_minted hm
      · exact hfr.mdead k e

/-- **a fault-free RegenerateID `old ⟶ new`** on the ghost. -/
theorem SI.regen {s s' : State} {g : G7} (hs : SI s g) {old : ID} {r : Rec} (hold : refAt s.store old = some none)
    (hmo : Minted s.nextId old) (hrefs : ∀ k t, refAt s.store k = some (some t) → Minted s.nextId t)
    (hr : r.ref = some (.gen s.nextId))
    (hso : refAt s'.store old = some (some (.gen s.nextId))) (hsn : refAt s'.store (.gen s.nextId) = some none)
    (hst : ∀ k, k ≠ old → k ≠ .gen s.nextId → refAt s'.store k = refAt s.store k)
    (ht : ∀ p ∈ s'.timers, p ∈ s.timers ∨ p.2 = old) (hn : s'.nextId = s.nextId + 1) :
    g7Ev g (.save old r) = g.link old (.gen s.nextId) ∧ SI s' (g.link old (.gen s.nextId)) := by
  obtain ⟨hnr, hnd⟩ := hs.full old hold
  have hne : old ≠ .gen s.nextId := hmo.ne_gen
  have hfr := hs.fresh_refd (Nat.le_refl _)
  have hfroot := hs.fresh_root (Nat.le_refl _)
  constructor
  · rw [g7Ev_save, hr, g7Save_new hnr (hs.fresh (Nat.le_refl _))]
  have hroot : ∀ y, y ≠ .gen s.nextId → (g.link old (.gen s.nextId)).rootOf y = g.rootOf y := by
    intro y hy; rw [rootOf_link, if_neg (fun e => hy e.symm)]
  have hrootn : (g.link old (.gen s.nextId)).rootOf (.gen s.nextId) = g.rootOf old := by
    rw [rootOf_link, if_pos rfl]
  refine ⟨?_, ?_, ?_, ?_, ?_, ?_, ?_⟩
  · intro k t h
    by_cases hk : k = old
    · subst hk
      rw [hso] at h
      simp only [Option.some.injEq] at h
      subst h
      exact ⟨by simp, by rw [hrootn, hroot k hne]⟩
    · by_cases hk2 : k = .gen s.nextId
      · subst hk2; rw [hsn] at h; simp at h
      · rw [hst k hk hk2] at h
        obtain ⟨h1, h2⟩ := hs.ref k t h
        have htn : t ≠ .gen s.nextId := (hrefs k t h).ne_gen
        exact ⟨by simp [h1], by rw [hroot t htn, hroot k hk2]; exact h2⟩
  · intro k h
    by_cases hk : k = old
    · subst hk; rw [hso] at h; simp at h
    · by_cases hk2 : k = .gen s.nextId
      · subst hk2
        refine ⟨?_, ?_⟩
        · simp only [link_refd, List.mem_cons, not_or]
          exact ⟨fun e => hne e.symm, hfr⟩
        · rw [hrootn]; exact hnd
      · rw [hst k hk hk2] at h
        obtain ⟨h1, h2⟩ := hs.full k h
        refine ⟨?_, ?_⟩
        · simp only [link_refd, List.mem_cons, not_or]; exact ⟨hk, h1⟩
        · rw [hroot k hk2]; exact h2
  · intro x y hx hy hxy
    simp only [link_refd, List.mem_cons, not_or] at hx hy
    by_cases hxn : x = .gen s.nextId
    · by_cases hyn : y = .gen s.nextId
      · rw [hxn, hyn]
      · subst hxn
        rw [hrootn, hroot y hyn] at hxy
        exact absurd (hs.cls old y hnr hy.2 hxy) (fun e => hy.1 e.symm)
    · by_cases hyn : y = .gen s.nextId
      · subst hyn
        rw [hrootn, hroot x hxn] at hxy
        exact absurd (hs.cls x old hx.2 hnr hxy) hx.1
      · rw [hroot x hxn, hroot y hyn] at hxy
        exact hs.cls x y hx.2 hy.2 hxy
  · intro k v h
    rw [hn]
    have : (k, v) ∈ insert (ID.gen s.nextId) (g.rootOf old) g.root := h
    rcases Loc.mem_insert.1 this with e | ⟨e, _⟩
    · obtain ⟨rfl, rfl⟩ := Prod.mk.inj e
      exact ⟨minted_gen _, (hs.rootOf_minted hmo).mono (Nat.le_succ _)⟩
    · exact ⟨(hs.mroot k v e).1.mono (Nat.le_succ _), (hs.mroot k v e).2.mono (Nat.le_succ _)⟩
  · intro k h
    rw [hn]
    simp only [link_refd, List.mem_cons] at h
    rcases h with rfl | h
    · exact hmo.mono (Nat.le_succ _)
    · exact (hs.mrefd k h).mono (Nat.le_succ _)
  · intro k h
    rw [hn]; exact (hs.mdead k h).mono (Nat.le_succ _)
  · intro t id h
    simp only [link_refd, List.mem_cons]
    rcases ht _ h with h1 | h1
    · exact Or.inr (hs.timers t id h1)
    · exact Or.inl h1

/-! ## 3. the model functions on the ghost (fault-free, from an `Inv` state) -/

theorem refAt_essEq {X : ID → Prop} {a b : List (ID × Rec)} (h : EssEqX X a b) {k : ID} (hk : ¬ X k) : refAt b k = refAt a k := by
  have := h k hk
  unfold refAt
  cases ha : lookup k a with
  | none => rw [ha] at this; cases hb : lookup k b with
    | none => rfl
    | some r' => rw [hb] at this; simp at this
  | some r => rw [ha] at this; cases hb : lookup k b with
    | none => rw [hb] at this; simp at this
    | some r' =>
      rw [hb] at this
      simp only [Option.map_some, Option.some.injEq] at this ⊢
      exact Glob.ess_ref this

theorem QuietX.toRQ {s s' : State} {evs : List Ev} (h : QuietX NoX s s' evs) : RQ NoXR s s' evs := by
  refine ⟨fun k => Or.inl (refAt_essEq h.ess (fun hx => hx)), ?_⟩
  intro e he
  cases e with
  | save k r =>
    obtain ⟨r0, hl, hess⟩ := h.saves k r he (fun hx => hx)
    exact Or.inr (by rw [refAt_of_lookup hl, Glob.ess_ref hess])
  | del k => exact h.dels k he
  | _ => trivial

/-- the exceptional write of `createNew`: a full record under the id being minted -/
def NewX (n : Nat) : ID → Option ID → Prop := fun k ρ => k = .gen n ∧ ρ = none

/-- **a quiet operation** (up to the creation of a full record under the new id) keeps the invariant and leaves the
ghost alone. -/
theorem SI.rq {s s' : State} {g : G7} {evs : List Ev} {X : ID → Option ID → Prop} (hs : SI s g) (hq : RQ X s s' evs)
    (hX : ∀ k ρ, X k ρ → NewX s.nextId k ρ) (ht : ∀ p ∈ s'.timers, p ∈ s.timers) (hn : s.nextId ≤ s'.nextId) :
    SI s' g ∧ evs.foldl g7Ev g = g := by
  constructor
  · apply hs.frame _ ht hn
    intro k
    rcases hq.store k with h | ⟨ρ, hx, h⟩
    · exact Or.inl h
    · obtain ⟨h1, h2⟩ := hX k ρ hx
      subst h2
      exact Or.inr (Or.inr ⟨h1, h⟩)
  · apply foldG_ign
    intro e he
    have := hq.evs e he
    cases e with
    | save k r =>
      rcases this with hx | hr
      · exact hs.ign_save (Or.inl (hX _ _ hx).2)
      · exact hs.ign_save (Or.inr hr)
    | del k => exact absurd this (by simp [QEv])
    | _ => rfl

theorem SI.quietX {s s' : State} {g : G7} {evs : List Ev} (hs : SI s g) (hq : QuietX NoX s s' evs)
    (ht : ∀ p ∈ s'.timers, p ∈ s.timers) (hn : s.nextId ≤ s'.nextId) : SI s' g ∧ evs.foldl g7Ev g = g :=
  hs.rq hq.toRQ (fun _ _ hx => absurd hx id) ht hn

/-- the invariant only reads store, timers and the id counter. -/
theorem SI.congr {s s' : State} {g : G7} (hs : SI s g) (h1 : s'.store = s.store) (h2 : s'.timers = s.timers)
    (h3 : s'.nextId = s.nextId) : SI s' g :=
  ⟨by rw [h1]; exact hs.ref, by rw [h1]; exact hs.full, hs.cls, by rw [h3]; exact hs.mroot, by rw [h3]; exact hs.mrefd,
   by rw [h3]; exact hs.mdead, by rw [h2]; exact hs.timers⟩

/-- `destroyed` is not touched by events -/
theorem g7Ev_destroyed (g : G7) (e : Ev) : (g7Ev g e).destroyed = g.destroyed := by
  cases e with
  | save k r =>
    rw [g7Ev_save]; unfold g7Save
    split
    · split <;> rfl
    · rfl
  | del k => rw [g7Ev_del]; unfold g7Del; split <;> rfl
  | _ => rfl

theorem foldG_destroyed (g : G7) (evs : List Ev) : (evs.foldl g7Ev g).destroyed = g.destroyed := by
  induction evs generalizing g with
  | nil => rfl
  | cons e rest ih => simp only [List.foldl_cons]; rw [ih, g7Ev_destroyed]

/-- the request's session: a full record lies under the id of the object. -/
def CurOK (s : State) (h : Nat) : Prop := refAt s.store (s.obj h).id = some none

/-- **`createNew`**: the ghost is what the events `pre` made of it; a session it returns is new and full. -/
theorem createNew_g7 (cfg : Cfg) (s : State) (r : Req) (pre : List Ev) (hnf : NoFail s) (hi : Inv cfg.codec s)
    {g0 : G7} (hs : SI s g0) :
    SI (createNew cfg s r pre).1 g0 ∧
    (∀ g, pre.foldl g7Ev g = g0 → (createNew cfg s r pre).2.2.foldl g7Ev g = g0) ∧
    (∀ h, (createNew cfg s r pre).2.1 = .sess h → CurOK (createNew cfg s r pre).1 h) := by
  cases hc : r.create with
  | false =>
    rw [Loc.createNew_no pre hc]
    exact ⟨hs, fun g hg => hg, by intro h hh; cases hh⟩
  | true =>
    have d := createNew_delta cfg s r pre hnf hi hc
    have hq : RQ (NewX s.nextId) s (createNew cfg s r pre).1 (Loc.newSet cfg s r).2.2 := by
      rw [d.st]
      refine (rq_cacheSet (NewX s.nextId) cfg (Loc.newS1 s r) s.heap.length ?_ ?_).congr_left rfl
      · intro k x hm
        have hm' : (k, x) ∈ s.cache := hm
        rw [Loc.newS1_obj_old (hi.valid k x hm')]
        exact Or.inr (inv_rcoh hi hm')
      · rw [Loc.newS1_obj_new]; exact Or.inl ⟨rfl, rfl⟩
    obtain ⟨h1, h2⟩ := hs.rq hq (fun _ _ hx => hx) (by rw [d.fr.2.2.1]; exact fun _ hp => hp) (by rw [d.fr.2.1]; omega)
    refine ⟨h1, ?_, ?_⟩
    · intro g hg
      rw [d.evs, List.foldl_append, List.foldl_append, hg, h2]
      rfl
    · intro h hh
      rw [d.res] at hh
      simp only [Res.sess.injEq] at hh
      subst hh
      unfold CurOK
      rw [d.obj_new]
      show refAt _ (ID.gen s.nextId) = some none
      rw [refAt_of_lookup d.saved, enc_ref]
      rfl

/-- **fault-free `cache.Delete(id)`** (`delSt`). -/
theorem delSt_g7 {s : State} {g : G7} (hs : SI s g) (id : ID) (hm : Minted s.nextId id) :
    SI (delSt s id) (g7Ev g (.del id)) := by
  apply hs.delete id hm
  · show refAt (erase id s.store) id = none
    exact refAt_none (Loc.lookup_erase_self id s.store)
  · intro k hk
    show refAt (erase id s.store) k = refAt s.store k
    unfold refAt
    rw [Loc.lookup_erase_ne (fun e => hk e.symm)]
  · intro p hp; exact hp
  · rfl

/-- **fault-free `RegenerateID`** of a full session whose record lies under its id. -/
theorem regenerate_g7 (cfg : Cfg) (s : State) (h : Nat) (hnf : NoFail s) (hi : Inv cfg.codec s) (hk : HOK s h)
    {g : G7} (hs : SI s g) (hcur : CurOK s h) (href : (s.obj h).ref = none) :
    SI (regenerate cfg s h).1 (g.link (s.obj h).id (.gen s.nextId)) ∧
    (regenerate cfg s h).2.2.foldl g7Ev g = g.link (s.obj h).id (.gen s.nextId) ∧
    CurOK (regenerate cfg s h).1 h := by
  have d := regenerate_delta cfg s h hnf hi hk
  have hrr : (enc cfg.codec (Loc.rotRef s h)).ref = some (ID.gen s.nextId) := by rw [enc_ref]; rfl
  have hrefs : ∀ k t, refAt s.store k = some (some t) → Minted s.nextId t := by
    intro k t hk'
    unfold refAt at hk'
    cases hl : lookup k s.store with
    | none => rw [hl] at hk'; simp at hk'
    | some r0 =>
      rw [hl] at hk'
      simp only [Option.map_some, Option.some.injEq] at hk'
      exact hi.sok.refs k r0 (Sx.lookup_some_mem hl) t hk'
  have hoth : ∀ k, k ≠ (s.obj h).id → k ≠ .gen s.nextId → refAt (regenerate cfg s h).1.store k = refAt s.store k :=
    fun k h1 h2 => refAt_essEq d.quiet.ess (fun hx => hx.elim h1 h2)
  obtain ⟨hev, hsi⟩ := hs.regen (r := enc cfg.codec (Loc.rotRef s h)) hcur hk.minted hrefs hrr
    (by rw [refAt_of_lookup d.old_rec, hrr]) (by rw [refAt_of_lookup d.new_rec, enc_ref]; exact congrArg some href)
    hoth (by
      intro p hp
      rw [d.fr.2.2.1] at hp
      rcases List.mem_append.1 hp with hp | hp
      · exact Or.inl hp
      · simp only [List.mem_singleton] at hp; subst hp; exact Or.inr rfl) d.fr.2.1
  refine ⟨hsi, ?_, ?_⟩
  · rw [← hev]
    apply foldG_sig _ _ d.ref_saved
    · -- after the significant event everything is ignored
      intro e he
      rw [hev]
      cases e with
      | save k r =>
        by_cases hx : k = (s.obj h).id ∨ k = .gen s.nextId
        · rcases d.xsaves k r he hx with h1 | ⟨h1, h2⟩
          · rw [g7Ev_save, h1, href]; rfl
          · subst h1; rw [h2, g7Ev_save, hrr]; exact g7Save_in _ (by simp)
        · obtain ⟨r0, hl, hess⟩ := d.quiet.saves k r he hx
          rw [g7Ev_save]
          cases hr : r.ref with
          | none => rfl
          | some t =>
            have : refAt s.store k = some (some t) := by rw [refAt_of_lookup hl, ← Glob.ess_ref hess, hr]
            exact g7Save_in _ (by simp [(hs.ref k t this).1])
      | del k => exact absurd he (regen_no_del cfg s h k)
      | _ => rfl
    · intro e he
      cases e with
      | save k r =>
        by_cases hx : k = (s.obj h).id ∨ k = .gen s.nextId
        · rcases d.xsaves k r he hx with h1 | ⟨h1, h2⟩
          · left; rw [g7Ev_save, h1, href]; rfl
          · right; rw [h1, h2]
        · obtain ⟨r0, hl, hess⟩ := d.quiet.saves k r he hx
          left
          exact hs.ign_save (Or.inr (by rw [refAt_of_lookup hl, Glob.ess_ref hess]))
      | del k => exact absurd he (regen_no_del cfg s h k)
      | _ => left; rfl
  · unfold CurOK
    rw [d.obj_h]
    show refAt _ (ID.gen s.nextId) = some none
    rw [refAt_of_lookup d.new_rec, enc_ref]
    exact congrArg some href

theorem curOK_touch {s : State} {k : Nat} (hc : CurOK s k) (h : Nat) (r : Req) : CurOK (touch s h r) k := by
  unfold CurOK at hc ⊢
  rw [(Loc.touch_obj_keep s h k r).1]
  exact hc

theorem curOK_of_hcoh {c : Codec} {s : State} {h : Nat} (hc : HCoh c s h) (href : (s.obj h).ref = none) : CurOK s h := by
  obtain ⟨r, hl, hess⟩ := hc
  unfold CurOK
  rw [refAt_of_lookup hl, ← Glob.ess_ref hess, enc_ref, href]

theorem hcoh_of_get {cfg : Cfg} {s s1 : State} {id : ID} {h : Nat} {e1 : List Ev} (hi : Inv cfg.codec s)
    (hg : cacheGet cfg s id = (s1, .some h, e1)) (hid : (s1.obj h).id = id) : HCoh cfg.codec s1 h := by
  have := C10.get_coh (cfg := cfg) (s := s) (id := id) (h1 := h) hi (by rw [hg])
  rw [hg] at this
  obtain ⟨r, hl, hess⟩ := this
  exact ⟨r, by rw [hid]; exact hl, hess⟩

/-- **`Start`** (fault-free, from an `Inv` state, any request): the invariant holds for the ghost folded over the
events, and a session it returns has a full record under its id. -/
theorem start_g7 (cfg : Cfg) (s : State) (r : Req) (hnf : NoFail s) (hi : Inv cfg.codec s) {g : G7} (hs : SI s g) :
    SI (start cfg s r).1 ((start cfg s r).2.2.foldl g7Ev g) ∧
    (∀ h, (start cfg s r).2.1 = .sess h → CurOK (start cfg s r).1 h) := by
  rcases start_cases cfg s r hnf hi with ⟨_, heq⟩ | ⟨id, s1, res, e1, hck, hlen, hg, gd, hcase⟩
  · rw [heq]
    obtain ⟨h1, h2, h3⟩ := createNew_g7 cfg s r [] hnf hi hs
    rw [h2 g rfl]
    exact ⟨h1, h3⟩
  · obtain ⟨hs1, hf1⟩ := hs.quietX gd.quiet (by rw [gd.fr.2.2.1]; exact fun _ hp => hp) (by rw [gd.fr.2.1]; exact Nat.le_refl _)
    simp only at hs1 hf1
    have hi1 : Inv cfg.codec s1 := gd.inv
    have hnf1 : NoFail s1 := gd.nofail
    rcases hcase with ⟨hres, heq⟩ | ⟨h, hres, hk, hid, hfound⟩
    · rw [heq]
      obtain ⟨h1, h2, h3⟩ := createNew_g7 cfg s1 r (e1 ++ [.delCookie]) hnf1 hi1 hs1
      rw [h2 g (by rw [List.foldl_append, hf1]; rfl)]
      exact ⟨h1, h3⟩
    · subst hres
      have hcoh : HCoh cfg.codec s1 h := hcoh_of_get hi hg hid
      have hmint : Minted s1.nextId id := by rw [← hid]; exact hk.minted
      rcases hfound with ⟨_, heq⟩ | ⟨_, href, _, heq⟩ | ⟨_, href, _, heq⟩ | ⟨t, _, href, _, heq⟩ | ⟨t, _, href, _, heq⟩
      · -- invalid: destroyed, then `createNew`
        rw [heq]
        have hsd := delSt_g7 hs1 id hmint
        obtain ⟨h1, h2, h3⟩ := createNew_g7 cfg (delSt s1 id) r (e1 ++ [.del id, .delCookie]) (delSt_nofail id hnf1)
          (delSt_inv id hi1) hsd
        rw [h2 g (by rw [List.foldl_append, hf1]; rfl)]
        exact ⟨h1, h3⟩
      · -- valid, full, young
        rw [heq]
        simp only [hf1]
        exact ⟨hs1.congr rfl rfl rfl, fun h' hh => by
          simp only [Res.sess.injEq] at hh; subst hh
          exact curOK_touch (curOK_of_hcoh hcoh href) _ _⟩
      · -- valid, full, rotated
        rw [heq]
        obtain ⟨h1, h2, h3⟩ := regenerate_g7 cfg s1 h hnf1 hi1 hk hs1 (curOK_of_hcoh hcoh href) href
        simp only [List.foldl_append, hf1, h2]
        exact ⟨h1.congr rfl rfl rfl, fun h' hh => by
          simp only [Res.sess.injEq] at hh; subst hh
          exact curOK_touch h3 _ _⟩
      · -- the back-stop
        rw [heq]
        simp only [List.foldl_append, hf1, List.foldl_cons, List.foldl_nil]
        exact ⟨delSt_g7 hs1 id hmint, by intro h' hh; cases hh⟩
      · -- a reference: follow the chain
        rw [heq]
        have fd := follow_delta cfg (s1.store.length + s1.cache.length + 1) s1 h hnf1 hi1 hk hcoh
        generalize follow cfg (s1.store.length + s1.cache.length + 1) s1 h = out at fd
        obtain ⟨s2, res2, e2⟩ := out
        obtain ⟨hs2, hf2⟩ := hs1.quietX fd.quiet (by rw [fd.fr.2.2.1]; exact fun _ hp => hp) (by rw [fd.fr.2.1]; exact Nat.le_refl _)
        simp only at hs2 hf2
        cases res2 with
        | err =>
          simp only [Loc.startRef, List.foldl_append, hf1, hf2]
          exact ⟨hs2, by intro h' hh; cases hh⟩
        | nil =>
          simp only [Loc.startRef, List.foldl_append, hf1, hf2]
          exact ⟨hs2, by intro h' hh; cases hh⟩
        | some h2 =>
          simp only [Loc.startRef, List.foldl_append, hf1, hf2, List.foldl_cons, List.foldl_nil]
          refine ⟨hs2.congr rfl rfl rfl, ?_⟩
          intro h' hh
          simp only [Res.sess.injEq] at hh; subst hh
          rcases fd.res with hn | ⟨h3, he, _, href2, hc2⟩
          · cases hn
          · simp only [GetRes.some.injEq] at he; subst he
            exact curOK_touch (curOK_of_hcoh hc2 href2) _ _

/-- a quiet operation that leaves the id of the object alone keeps `CurOK`. -/
theorem CurOK.rq {s s' : State} {evs : List Ev} {h : Nat} (hc : CurOK s h) (hq : RQ NoXR s s' evs)
    (hid : (s'.obj h).id = (s.obj h).id) : CurOK s' h := by
  unfold CurOK at hc ⊢
  rw [hid, hq.same]; exact hc

/-- **`s.LogIn`** (fault-free): logging out (this session or, exclusively, every session of the user), storing the
user and the final `RegenerateID`. -/
theorem hlogin_g7 (cfg : Cfg) (le : ID → ID → Bool) (s : State) (h : Nat) (uid : String) (excl : Bool) (hnf : NoFail s)
    (hi : Inv cfg.codec s) (hk : HOK s h) {g : G7} (hs : SI s g) (hcur : CurOK s h) (href : (s.obj h).ref = none) :
    SI (hlogin cfg le s h uid excl).1 ((hlogin cfg le s h uid excl).2.2.foldl g7Ev g) ∧
    CurOK (hlogin cfg le s h uid excl).1 h := by
  rw [Sx.hlogin_eq]
  obtain ⟨h1, h2, h3⟩ := loginFirst_spec cfg le s h uid excl hnf hi hk
  have hself : refAt s.store (s.obj h).id = some (s.obj h).ref := by rw [href]; exact hcur
  have hQ := rq_loginFirst cfg le s h uid excl hnf hi hk.valid hself
  have ht1 := loginFirst_timers cfg le s h uid excl
  generalize loginFirst cfg le s h uid excl = g1 at h1 h2 h3 hQ ht1
  obtain ⟨s1, ok1, e1⟩ := g1
  simp only at h1 h2 h3 hQ ht1
  subst h1
  have hl1 : HL s1 h := hk.toHL.step h3
  have hid1 : (s1.obj h).id = (s.obj h).id := (h3.ids h hk.valid).1
  have href1 : (s1.obj h).ref = none := by rw [(h3.ids h hk.valid).2]; exact href
  have hcur1 : CurOK s1 h := hcur.rq hQ hid1
  have hstep1 : s.nextId ≤ s1.nextId := h3.next
  -- timers: the frame of the first phase
  obtain ⟨hs1, hf1⟩ := hs.rq hQ (fun _ _ hx => absurd hx id) (by rw [ht1]; exact fun _ hp => hp) hstep1
  unfold loginTail
  simp only [Bool.not_true, Bool.false_eq_true, if_false]
  have hS := setObj_cacheSet_spec cfg s1 h { s1.obj h with user := some (uid, s1.ver uid) } h3.nofail h2 hl1 rfl rfl
  have hQ3 := rq_setObj_cacheSet h2 h { s1.obj h with user := some (uid, s1.ver uid) } rfl rfl
    (by rw [href1]; exact hcur1)
  have ht3 := Loc.cacheSet_timers cfg (s1.setObj h { s1.obj h with user := some (uid, s1.ver uid) }) h
  generalize cacheSet cfg (s1.setObj h { s1.obj h with user := some (uid, s1.ver uid) }) h = g3 at hS hQ3 ht3
  obtain ⟨s3, ok3, e3⟩ := g3
  obtain ⟨hok3, hinv3, hst3, hhok3, hnext3, _⟩ := hS
  simp only at hok3 hinv3 hst3 hhok3 hQ3 ht3 hnext3
  subst hok3
  simp only [Bool.not_true, Bool.false_eq_true, if_false]
  have hid3 : (s3.obj h).id = (s1.obj h).id := (hst3.ids h hl1.valid).1
  have href3 : (s3.obj h).ref = none := by rw [(hst3.ids h hl1.valid).2]; exact href1
  have hcur3 : CurOK s3 h := hcur1.rq hQ3 hid3
  obtain ⟨hs3, hf3⟩ := hs1.rq hQ3 (fun _ _ hx => absurd hx id) (by rw [ht3]; exact fun _ hp => hp) (by rw [hnext3]; exact Nat.le_refl _)
  obtain ⟨r1, r2, r3⟩ := regenerate_g7 cfg s3 h hst3.nofail hinv3 hhok3 hs3 hcur3 href3
  generalize regenerate cfg s3 h = g4 at r1 r2 r3
  obtain ⟨s4, ok4, e4⟩ := g4
  simp only at r1 r2 r3 ⊢
  rw [List.foldl_append, List.foldl_append, hf1, hf3, r2]
  exact ⟨r1, r3⟩

/-! ## 4. the world invariant and one step of a history -/

/-- **the invariant of C07** at an operation boundary (on top of `WInv3 = WInv ∧ W3`): the process did not die
inside an operation (no `crashinside`), the store/ghost invariant `SI` holds, and — unless the handler has called
`Destroy` — the record of the request's session exists and is a full record (G5). -/
structure Dead7 (w : World) (g : G7) : Prop where
  alive : w.skip = false ∧ w.freezeAt = none
  si : SI w.st g
  cur : ∀ h, w.cur = some h → g.destroyed = false → CurOK w.st h

theorem SI.flag {s : State} {g : G7} (hs : SI s g) (b : Bool) : SI s { g with destroyed := b } :=
  ⟨hs.ref, hs.full, hs.cls, hs.mroot, hs.mrefd, hs.mdead, hs.timers⟩

theorem g7Op_si {s : State} {g : G7} (hs : SI s g) (op : Op) : SI s (g7Op g op) := by
  unfold g7Op
  split <;> first | exact hs.flag _ | exact hs

/-- time: the clean-up goroutines only remove reference records. -/
theorem SI.advance {s : State} {g : G7} (hs : SI s g) (d : Int) : SI (advance s d).1 g := by
  obtain ⟨a1, _, a3, _, _, a6, _⟩ := advance_delta s d
  apply hs.frame _ a3 (by rw [a6]; exact Nat.le_refl _)
  intro k
  rcases a1 k with h | ⟨h, _⟩
  · exact Or.inl (by unfold refAt; rw [h])
  · exact Or.inr (Or.inl (refAt_none h))

theorem CurOK.advance {s : State} {g : G7} {h : Nat} (hs : SI s g) (hc : CurOK s h) (d : Int) : CurOK (advance s d).1 h := by
  obtain ⟨a1, _, _, _, a5, _⟩ := advance_delta s d
  unfold CurOK at hc ⊢
  rw [obj_of_heap_eq a5]
  rcases a1 (s.obj h).id with h1 | ⟨_, t, ht, _⟩
  · unfold refAt at hc ⊢; rw [h1]; exact hc
  · exact absurd (hs.timers t _ ht) (hs.full _ hc).1

theorem CurOK.congr {s s' : State} {h : Nat} (hc : CurOK s h) (h1 : s'.store = s.store) (h2 : s'.heap = s.heap) : CurOK s' h := by
  unfold CurOK at hc ⊢
  rw [h1, obj_of_heap_eq h2]; exact hc

theorem dead7_finW {w : World} {g : G7} (hd : Dead7 w g) : Dead7 (finW w) g := by
  unfold finW
  split
  · refine ⟨⟨rfl, hd.alive.2⟩, ?_, ?_⟩
    · exact hd.si.frame (fun k => Or.inl rfl) (by intro p hp; simp [crashState] at hp) (Nat.le_refl _)
    · intro h hc hg; exact (hd.cur h hc hg).congr rfl rfl
  · exact hd

theorem finish_evs (w : World) (o : Out) : (finish w o).2.evs = o.evs := by
  unfold finish; split <;> rfl

/-- a top-level operation: the world `w'` before `finish`, the output `o`. -/
theorem dead7_finish {w' : World} {o : Out} {g g' : G7} (op : Op) (hd : Dead7 w' g')
    (hg : g7Op (o.evs.foldl g7Ev g) op = g') : Dead7 (finish w' o).1 (g7Step g op (finish w' o).2) := by
  rw [finish_fst]
  unfold g7Step
  rw [finish_evs, hg]
  exact dead7_finW hd

theorem apiCall_evs (w : World) (orc : Orc) (run : State → State × RetV × Option String × List Ev) (b : Bool) :
    (apiCall w orc run b).2.evs = (run (orcSt w orc)).2.2.2.filter (fun e => !isCookie e) := by
  unfold apiCall
  show _ = (run { w.st with fails := orc.fails, picks := orc.picks }).2.2.2.filter (fun e => !isCookie e)
  generalize run { w.st with fails := orc.fails, picks := orc.picks } = r
  obtain ⟨s1, ret, msg, evs⟩ := r
  simp only []

/-- the ghost after an API call is the ghost folded over all events of the call. -/
theorem apiCall_fold (w : World) (orc : Orc) (run : State → State × RetV × Option String × List Ev) (b : Bool) (g : G7) :
    (apiCall w orc run b).2.evs.foldl g7Ev g = (run (orcSt w orc)).2.2.2.foldl g7Ev g := by
  rw [apiCall_evs, foldG_filter]

/-- **one API call**: if the function run keeps the invariant for the ghost folded over its events, and the record of
the request's session stays in place, the same holds after the quiescence tick. -/
theorem apiCall_dead7 (w : World) (orc : Orc) (run : State → State × RetV × Option String × List Ev) (b : Bool)
    {g : G7} (hal : w.skip = false ∧ w.freezeAt = none) (flag : Bool)
    (hsi : SI (run (orcSt w orc)).1 ((run (orcSt w orc)).2.2.2.foldl g7Ev g))
    (hcur : ∀ h, w.cur = some h → flag = false → CurOK (run (orcSt w orc)).1 h) :
    Dead7 (apiCall w orc run b).1 { (apiCall w orc run b).2.evs.foldl g7Ev g with destroyed := flag } := by
  rw [apiCall_fold, apiCall_fst]
  have hf : ∀ evs, apiFrz w evs = none := by intro evs; unfold apiFrz; rw [hal.2]
  show Dead7 _ { (run (orcSt w orc)).2.2.2.foldl g7Ev g with destroyed := flag }
  generalize run { w.st with fails := orc.fails, picks := orc.picks } = r at hsi hcur ⊢
  obtain ⟨s1, ret, msg, evs⟩ := r
  simp only at hsi hcur ⊢
  have hmid : apiMid w s1 evs = { s1 with fails := [], picks := [] } := by unfold apiMid; rw [hf]
  rw [hmid, hf]
  have hsi' : SI ({ s1 with fails := [], picks := [] } : State) (evs.foldl g7Ev g) := hsi.congr rfl rfl rfl
  refine ⟨⟨by simp [hal.1], rfl⟩, (hsi'.advance 1).flag flag, ?_⟩
  intro h hc hfl
  have : CurOK ({ s1 with fails := [], picks := [] } : State) h := (hcur h hc hfl).congr rfl rfl
  exact this.advance hsi' 1

theorem flag_self {g1 : G7} {b : Bool} (h : g1.destroyed = b) : ({ g1 with destroyed := b } : G7) = g1 := by
  subst h; rfl

/-- **the proviso of C07** and the exclusion of crash points inside operations: while the handler has called
`Destroy` in the request in flight (`g.destroyed`), the application makes no further call on the session object
(`.h _`) — the request may only end (or anything else may happen that is not a handler call). `crashinside` is
excluded (the process dying between two persistence calls: the ghost reads `Out.evs`, of which only a prefix took
effect; see `c07_crashinsideScript`). -/
def Op7OK (g : G7) : Op → Prop
  | .crashinside _ => False
  | .h _ => g.destroyed = false
  | _ => True

/-- **every operation of a fault-free history that respects the proviso keeps the C07 invariant**, the ghost being
updated from the operation and the events it showed (`g7Step`). -/
theorem dead7_step {c : Codec} (le : ID → ID → Bool) (w : World) (orc : Orc) (op : Op) (hw : WInv3 c w) {g : G7}
    (hd : Dead7 w g) (ho : OrcOK orc) (hopk : OpOK le w op) (h7 : Op7OK g op) :
    Dead7 (w.step le orc op).1 (g7Step g op (w.step le orc op).2) := by
  have hsk' : w.skip = false := hd.alive.1
  obtain ⟨hinv, hcur⟩ := hw.inv.good hsk'
  obtain ⟨hi3, hcref⟩ := hw.w3.good hsk'
  have hcd := hw.inv.codec
  subst hcd
  have hnf0 : NoFail (orcSt w orc) := ho
  have hinv0 : Inv w.cfg.codec (orcSt w orc) := hinv.congr rfl rfl rfl rfl rfl
  have hcur0 : ∀ h, w.cur = some h → HOK (orcSt w orc) h := fun h hh => (hcur h hh).congr rfl rfl rfl
  have hsi0 : SI (orcSt w orc) g := hd.si.congr rfl rfl rfl
  have hcref0 : ∀ h, w.cur = some h → ((orcSt w orc).obj h).ref = none := hcref
  have hck0 : ∀ h, w.cur = some h → g.destroyed = false → CurOK (orcSt w orc) h :=
    fun h hc hg => (hd.cur h hc hg).congr rfl rfl
  -- an API call that does not concern the `destroyed` flag
  have plain : ∀ (run : State → State × RetV × Option String × List Ev) (b : Bool),
      SI (run (orcSt w orc)).1 ((run (orcSt w orc)).2.2.2.foldl g7Ev g) →
      (∀ h, w.cur = some h → g.destroyed = false → CurOK (run (orcSt w orc)).1 h) →
      Dead7 (apiCall w orc run b).1 ((apiCall w orc run b).2.evs.foldl g7Ev g) := by
    intro run b hsi hcu
    have := apiCall_dead7 w orc run b hd.alive g.destroyed hsi hcu
    rwa [flag_self (by rw [foldG_destroyed])] at this
  -- a quiet API call
  have quiet : ∀ (run : State → State × RetV × Option String × List Ev) (b : Bool),
      RQ NoXR (orcSt w orc) (run (orcSt w orc)).1 (run (orcSt w orc)).2.2.2 →
      (run (orcSt w orc)).1.timers = (orcSt w orc).timers → (orcSt w orc).nextId ≤ (run (orcSt w orc)).1.nextId →
      (∀ h, w.cur = some h → ((run (orcSt w orc)).1.obj h).id = ((orcSt w orc).obj h).id) →
      Dead7 (apiCall w orc run b).1 ((apiCall w orc run b).2.evs.foldl g7Ev g) := by
    intro run b hq ht hn hid
    obtain ⟨h1, h2⟩ := hsi0.rq hq (fun _ _ hx => absurd hx id) (by rw [ht]; exact fun _ hp => hp) hn
    exact plain run b (by rw [h2]; exact h1) (fun h hc hg => (hck0 h hc hg).rq hq (hid h hc))
  unfold World.step
  cases op with
  | codec c' => exact absurd hopk (by simp [OpOK])
  | crashinside k => exact absurd h7 (by simp [Op7OK])
  | cfg n v =>
    simp only [hsk', Bool.false_and, Bool.false_eq_true, if_false]
    exact dead7_finish (.cfg n v) (g' := g) ⟨⟨rfl, hd.alive.2⟩, hd.si, hd.cur⟩ rfl
  | cookiecfg ck =>
    simp only [hsk', Bool.false_and, Bool.false_eq_true, if_false]
    exact dead7_finish (.cookiecfg ck) (g' := g) ⟨⟨rfl, hd.alive.2⟩, hd.si, hd.cur⟩ rfl
  | fault =>
    simp only [hsk', Bool.false_and, Bool.false_eq_true, if_false]
    exact dead7_finish .fault (g' := g) hd rfl
  | expiredRec id =>
    simp only [hsk', Bool.false_and, Bool.false_eq_true, if_false]
    exact dead7_finish (.expiredRec id) (g' := g) hd rfl
  | crash =>
    simp only [hsk', Bool.false_and, Bool.false_eq_true, if_false]
    exact dead7_finish .crash (g' := g) ⟨⟨rfl, hd.alive.2⟩, hd.si, hd.cur⟩ rfl
  | stale uid id =>
    simp only [hsk', Bool.false_and, Bool.false_eq_true, if_false]
    exact dead7_finish (.stale uid id) (g' := g)
      ⟨⟨rfl, hd.alive.2⟩, hd.si.congr rfl rfl rfl, fun h hc hg => (hd.cur h hc hg).congr rfl rfl⟩ rfl
  | dropcache =>
    simp only [hsk', Bool.false_and, Bool.false_eq_true, if_false]
    exact dead7_finish .dropcache (g' := g)
      ⟨⟨rfl, hd.alive.2⟩, hd.si.congr rfl rfl rfl, fun h hc hg => (hd.cur h hc hg).congr rfl rfl⟩ rfl
  | wait d =>
    simp only [hsk', Bool.false_and, Bool.false_eq_true, if_false]
    exact dead7_finish (.wait d) (g' := g)
      ⟨⟨rfl, hd.alive.2⟩, hd.si.advance d, fun h hc hg => (hd.cur h hc hg).advance hd.si d⟩ rfl
  | endReq =>
    simp only [hsk', Bool.false_and, Bool.false_eq_true, if_false]
    exact dead7_finish .endReq (g' := { g with destroyed := false })
      ⟨⟨rfl, hd.alive.2⟩, hd.si.flag false, by intro h hc; simp at hc⟩ rfl
  | purge =>
    simp only [hsk', Bool.false_and, Bool.false_eq_true, if_false]
    refine dead7_finish .purge (quiet _ false ?_ ?_ ?_ ?_) rfl
    · exact rq_purge hinv0
    · exact purge_timers w.cfg (orcSt w orc)
    · exact (purge_spec w.cfg (orcSt w orc) hnf0 hinv0).1.step.next
    · intro h _
      exact congrArg Sess.id (obj_of_heap_eq (purge_delta w.cfg (orcSt w orc) hinv0).2.1 h)
  | logoutUser uid =>
    simp only [hsk', Bool.false_and, Bool.false_eq_true, if_false]
    have hP := logoutUser_spec w.cfg le (orcSt w orc) uid hnf0 hinv0
    refine dead7_finish (.logoutUser uid) (quiet _ false ?_ ?_ ?_ ?_) rfl
    · exact rq_logoutUser w.cfg le (orcSt w orc) uid hnf0 hinv0
    · exact logoutUser_timers w.cfg le (orcSt w orc) uid
    · exact hP.step.next
    · intro h hc; exact (hP.step.ids h (hcur0 h hc).valid).1
  | refresh uid =>
    simp only [hsk', Bool.false_and, Bool.false_eq_true, if_false]
    have hP := refreshUser_spec w.cfg le (orcSt w orc) uid hnf0 hinv0
    refine dead7_finish (.refresh uid) (quiet _ false ?_ ?_ ?_ ?_) rfl
    · exact rq_refreshUser w.cfg le (orcSt w orc) uid hnf0 hinv0
    · exact refreshUser_timers w.cfg le (orcSt w orc) uid
    · exact hP.step.next
    · intro h hc; exact (hP.step.ids h (hcur0 h hc).valid).1
  | req client spec ip ua create =>
    simp only [hsk', Bool.false_and, Bool.false_eq_true, if_false]
    generalize ({ cookie := _, cookieLen := _, ip := ip, ua := ua, create := create } : Req) = r
    have hS := start_g7 w.cfg (orcSt w orc) r hnf0 hinv0 hsi0
    unfold g7Step
    dsimp only []
    refine apiCall_dead7 _ orc _ true ?_ false ?_ ?_
    · exact ⟨rfl, hd.alive.2⟩
    · exact hS.1
    intro h hh _
    apply hS.2 h
    simp only at hh
    split at hh
    · rename_i h' hres
      simp only [Option.some.injEq] at hh
      rw [← hh]; exact hres
    · simp at hh
  | h hop =>
    simp only [hsk', Bool.false_and, Bool.false_eq_true, if_false]
    cases hc : w.cur with
    | none =>
      exact ⟨hd.alive, g7Op_si hd.si _, fun h hh => by rw [hc] at hh; cases hh⟩
    | some h =>
      simp only []
      have hk0 := hcur0 h hc
      have hr0 := hcref0 h hc
      have hg0 : g.destroyed = false := h7
      have hc0 : CurOK (orcSt w orc) h := hck0 h hc hg0
      have hself : refAt (orcSt w orc).store ((orcSt w orc).obj h).id = some ((orcSt w orc).obj h).ref := by
        rw [hr0]; exact hc0
      have hsame : ∀ h', w.cur = some h' → h' = h := by intro h' hh'; rw [hc] at hh'; simp at hh'; exact hh'.symm
      cases hop with
      | set k v =>
        have hP := hset_spec w.cfg (orcSt w orc) h k v hnf0 hinv0 hk0
        exact quiet _ true (rq_hset w.cfg (orcSt w orc) h k v hk0.valid hself) (hset_timers w.cfg (orcSt w orc) h k v)
          hP.step.next (fun h' hh' => by rw [hsame h' hh']; exact (hP.step.ids h hk0.valid).1)
      | del k =>
        have hP := hdel_spec w.cfg (orcSt w orc) h k hnf0 hinv0 hk0
        exact quiet _ true (rq_hdel w.cfg (orcSt w orc) h k hk0.valid hself) (hdel_timers w.cfg (orcSt w orc) h k)
          hP.step.next (fun h' hh' => by rw [hsame h' hh']; exact (hP.step.ids h hk0.valid).1)
      | get k => exact quiet _ true (RQ.refl _ _) rfl (Nat.le_refl _) (fun _ _ => rfl)
      | getdel k =>
        have hP := hgetdel_spec w.cfg (orcSt w orc) h k hnf0 hinv0 hk0
        exact quiet _ true (rq_hgetdel w.cfg (orcSt w orc) h k hk0.valid hself) (hgetdel_timers w.cfg (orcSt w orc) h k)
          hP.step.next (fun h' hh' => by rw [hsame h' hh']; exact (hP.step.ids h hk0.valid).1)
      | login uid excl =>
        obtain ⟨h1, h2⟩ := hlogin_g7 w.cfg le (orcSt w orc) h uid excl hnf0 hinv0 hk0 hsi0 hc0 hr0
        exact plain _ true h1 (fun h' hh' _ => by rw [hsame h' hh']; exact h2)
      | logout =>
        have hP := hlogout_spec w.cfg (orcSt w orc) h hnf0 hinv0 hk0
        exact quiet _ true (rq_hlogout w.cfg (orcSt w orc) h hk0.valid hself) (hlogout_timers w.cfg (orcSt w orc) h)
          hP.step.next (fun h' hh' => by rw [hsame h' hh']; exact (hP.step.ids h hk0.valid).1)
      | regen =>
        obtain ⟨h1, h2, h3⟩ := regenerate_g7 w.cfg (orcSt w orc) h hnf0 hinv0 hk0 hsi0 hc0 hr0
        exact plain _ true (by rw [h2]; exact h1) (fun h' hh' _ => by rw [hsame h' hh']; exact h3)
      | destroy =>
        show Dead7 (apiCall w orc _ true).1 { (apiCall w orc _ true).2.evs.foldl g7Ev g with destroyed := true }
        refine apiCall_dead7 w orc _ true hd.alive true ?_ (fun _ _ hf => by cases hf)
        show SI (destroy (orcSt w orc) h w.hasCookie).1 ((destroy (orcSt w orc) h w.hasCookie).2.2.foldl g7Ev g)
        rw [destroy_nf _ h _ hnf0]
        have := delSt_g7 hsi0 ((orcSt w orc).obj h).id hk0.minted
        cases w.hasCookie <;> exact this
      | expired => exact quiet _ true (RQ.refl _ _) rfl (Nat.le_refl _) (fun _ _ => rfl)
      | lastaccess => exact quiet _ true (RQ.refl _ _) rfl (Nat.le_refl _) (fun _ _ => rfl)
      | user => exact quiet _ true (RQ.refl _ _) rfl (Nat.le_refl _) (fun _ _ => rfl)

/-! ## 5. histories -/

/-- run a history, stepping the world and the ghost together (the ghost only sees the operation and its output). -/
def runG7 (le : ID → ID → Bool) (w : World) (g : G7) : List (Orc × Op) → World × G7
  | [] => (w, g)
  | (o, op) :: r => runG7 le (w.step le o op).1 (g7Step g op (w.step le o op).2) r

theorem runG7_fst (le : ID → ID → Bool) (w : World) (g : G7) (hist : List (Orc × Op)) :
    (runG7 le w g hist).1 = runHist le w hist := by
  induction hist generalizing w g with
  | nil => rfl
  | cons p r ih => obtain ⟨o, op⟩ := p; exact ih _ _

/-- **the side conditions of C07**, checked along the run: fault-free oracles (`OrcOK`), the side conditions of the
coherence invariant (`OpOK`: no codec switch; `SoleObject` for a user-wide `LogOut`/`RefreshUser` issued while a
request is in flight), and `Op7OK` (the proviso; no `crashinside`). Everything else is arbitrary: presented ids,
configuration, cookie template, time, purges, cache drops, crashes, stale index entries. -/
def Hist7OK (le : ID → ID → Bool) (w : World) (g : G7) : List (Orc × Op) → Prop
  | [] => True
  | (o, op) :: r =>
    OrcOK o ∧ OpOK le w op ∧ Op7OK g op ∧ Hist7OK le (w.step le o op).1 (g7Step g op (w.step le o op).2) r

theorem Hist7OK.histOK {le : ID → ID → Bool} {w : World} {g : G7} {hist : List (Orc × Op)} (h : Hist7OK le w g hist) :
    HistOK le w hist := by
  induction hist generalizing w g with
  | nil => trivial
  | cons p r ih => obtain ⟨o, op⟩ := p; exact ⟨h.1, h.2.1, ih h.2.2.2⟩

theorem Hist7OK.take {le : ID → ID → Bool} {w : World} {g : G7} {hist : List (Orc × Op)} (h : Hist7OK le w g hist) (n : Nat) :
    Hist7OK le w g (hist.take n) := by
  induction hist generalizing w g n with
  | nil => simp [Hist7OK]
  | cons p r ih =>
    obtain ⟨o, op⟩ := p
    cases n with
    | zero => trivial
    | succ n => exact ⟨h.1, h.2.1, h.2.2.1, ih h.2.2.2 n⟩

theorem dead7_hist {c : Codec} (le : ID → ID → Bool) (hist : List (Orc × Op)) (w : World) (g : G7) (hw : WInv3 c w)
    (hd : Dead7 w g) (hok : Hist7OK le w g hist) :
    WInv3 c (runG7 le w g hist).1 ∧ Dead7 (runG7 le w g hist).1 (runG7 le w g hist).2 := by
  induction hist generalizing w g with
  | nil => exact ⟨hw, hd⟩
  | cons p r ih =>
    obtain ⟨o, op⟩ := p
    obtain ⟨h1, h2, h3, h4⟩ := hok
    exact ih _ _ (step_inv3 le w o op hw h1 h2) (dead7_step le w o op hw hd h1 h2 h3) h4

theorem dead7_init (cfg : Cfg) (ck : CookieCfg) : Dead7 { cfg := cfg, ck := ck } {} :=
  ⟨⟨rfl, rfl⟩, si_init {} ⟨rfl, rfl, rfl⟩, by intro h hh; simp at hh⟩

/-- **C07, the invariant at the end of every history** (hence at every operation boundary: `dead_every_boundary`).
From the empty world with any configuration and cookie template and the empty ghost, after every history that
satisfies `Hist7OK`: the coherence invariants `WInv3` and the C07 invariant `Dead7` hold for the world and the ghost
computed along the way. -/
theorem dead_all_histories (le : ID → ID → Bool) (cfg : Cfg) (ck : CookieCfg) (hist : List (Orc × Op))
    (hok : Hist7OK le { cfg := cfg, ck := ck } {} hist) :
    WInv3 cfg.codec (runG7 le { cfg := cfg, ck := ck } {} hist).1 ∧
    Dead7 (runG7 le { cfg := cfg, ck := ck } {} hist).1 (runG7 le { cfg := cfg, ck := ck } {} hist).2 :=
  dead7_hist le hist _ _ (init_winv3 cfg ck) (dead7_init cfg ck) hok

theorem dead_every_boundary (le : ID → ID → Bool) (cfg : Cfg) (ck : CookieCfg) (hist : List (Orc × Op))
    (hok : Hist7OK le { cfg := cfg, ck := ck } {} hist) (n : Nat) :
    WInv3 cfg.codec (runG7 le { cfg := cfg, ck := ck } {} (hist.take n)).1 ∧
    Dead7 (runG7 le { cfg := cfg, ck := ck } {} (hist.take n)).1 (runG7 le { cfg := cfg, ck := ck } {} (hist.take n)).2 :=
  dead_all_histories le cfg ck _ (hok.take n)

theorem runG7_append (le : ID → ID → Bool) (w : World) (g : G7) (a b : List (Orc × Op)) :
    runG7 le w g (a ++ b) = runG7 le (runG7 le w g a).1 (runG7 le w g a).2 b := by
  induction a generalizing w g with
  | nil => rfl
  | cons p r ih => obtain ⟨o, op⟩ := p; exact ih _ _

/-- **dead stays dead**: along any history whatsoever (this is a property of the ghost alone). -/
theorem dead_persistent (le : ID → ID → Bool) (w : World) (g : G7) (hist : List (Orc × Op)) {id : ID} (h : dead g id) :
    dead (runG7 le w g hist).2 id := by
  induction hist generalizing w g with
  | nil => exact h
  | cons p r ih => obtain ⟨o, op⟩ := p; exact ih _ _ (dead_g7Step op _ h)

/-- … in particular from any boundary of a history to any later one. -/
theorem dead_later (le : ID → ID → Bool) (w : World) (g : G7) (hist : List (Orc × Op)) {id : ID} {n m : Nat} (hnm : n ≤ m)
    (h : dead (runG7 le w g (hist.take n)).2 id) : dead (runG7 le w g (hist.take m)).2 id := by
  have : hist.take m = hist.take n ++ (hist.take m).drop n := by
    have h1 := (List.take_append_drop n (hist.take m)).symm
    rwa [List.take_take, Nat.min_eq_left hnm] at h1
  rw [this, runG7_append]
  exact dead_persistent le _ _ _ h

/-! ### the consequences in plain terms -/

section consequences
variable {c : Codec} {w : World} {g : G7} (hw : WInv3 c w) (hd : Dead7 w g)
include hw hd

/-- **no dead id is the key of a full session**: neither of a full record in the store, nor of a cached session
object. Whatever is still stored or cached under a dead id is a reference record. -/
theorem c07_no_dead_full {id : ID} (hdead : dead g id) :
    (∀ r, lookup id w.st.store = some r → r.ref ≠ none) ∧ (∀ h, (id, h) ∈ w.st.cache → (w.st.obj h).ref ≠ none) := by
  have hstore : ∀ r, lookup id w.st.store = some r → r.ref ≠ none := by
    intro r hl hr
    have : refAt w.st.store id = some none := by rw [refAt_of_lookup hl, hr]
    exact (hd.si.full id this).2 hdead
  refine ⟨hstore, ?_⟩
  intro h hm hr
  obtain ⟨r, hl, hess⟩ := (hw.inv.good hd.alive.1).1.coh id h hm (by simp)
  exact hstore r hl (by rw [← Glob.ess_ref hess, enc_ref, hr])

/-- **a dead id that is still a key holds a reference to a dead id.** -/
theorem c07_dead_chain {id : ID} (hdead : dead g id) {r : Rec} (hl : lookup id w.st.store = some r) :
    ∃ t, r.ref = some t ∧ dead g t := by
  cases hr : r.ref with
  | none => exact absurd hr ((c07_no_dead_full hw hd hdead).1 r hl)
  | some t =>
    refine ⟨t, rfl, ?_⟩
    have : refAt w.st.store id = some (some t) := by rw [refAt_of_lookup hl, hr]
    unfold dead at hdead ⊢
    rw [(hd.si.ref id t this).2]; exact hdead

/-- what `cache.Get` would find under `k`, at the level of the store. -/
theorem refAt_of_RefAt {k : ID} {t : Option ID} (h : More.RefAt w.st k t) : refAt w.st.store k = some t := by
  rcases h with ⟨x, hl, hr⟩ | ⟨_, r, hl, hr⟩
  · rw [inv_rcoh (hw.inv.good hd.alive.1).1 (Sx.lookup_some_mem hl), hr]
  · rw [refAt_of_lookup hl, hr]

/-- … hence **the reference chain of a dead id never reaches a session** (`More.Leads`: the chain `cache.Get` and
`follow` walk, cache and store). -/
theorem c07_dead_no_chain : ∀ (l : List ID) (id cur : ID), dead g id → ¬ More.Leads w.st id l cur
  | [], id, cur, hdead, ⟨he, hr⟩ => by
    subst he
    exact (hd.si.full id (refAt_of_RefAt hw hd hr)).2 hdead
  | m :: l, id, cur, hdead, ⟨h1, h2⟩ => by
    have := (hd.si.ref id m (refAt_of_RefAt hw hd h1)).2
    exact c07_dead_no_chain l m cur (by unfold dead at hdead ⊢; rw [this]; exact hdead) h2

omit hw in
/-- **dead ids are never minted again**: a dead id is one of the ids minted so far, so the ids `Start` and
`RegenerateID` will mint from now on (`gen n`, `n ≥ nextId`) are not dead. -/
theorem c07_dead_not_minted : (∀ id, dead g id → Minted w.st.nextId id) ∧ (∀ n, w.st.nextId ≤ n → ¬ dead g (.gen n)) := by
  refine ⟨fun id h => hd.si.dead_minted h, ?_⟩
  intro n hn hdead
  obtain ⟨k, e, hk⟩ := hd.si.dead_minted hdead
  injection e with e
  omega

omit hw in
/-- **the session a request is served with is not dead** (every request, every presented id; until the handler
itself calls `Destroy`). -/
theorem c07_served_not_dead {h : Nat} (hc : w.cur = some h) (hg : g.destroyed = false) : ¬ dead g (w.st.obj h).id :=
  (hd.si.full _ (hd.cur h hc hg)).2

end consequences

/-! ### a Boolean checker for the side conditions -/

def op7OKb (g : G7) : Op → Bool
  | .crashinside _ => false
  | .h _ => !g.destroyed
  | _ => true

def hist7OKb (le : ID → ID → Bool) (w : World) (g : G7) : List (Orc × Op) → Bool
  | [] => true
  | (o, op) :: r =>
    orcOKb o && opOKb le w op && op7OKb g op && hist7OKb le (w.step le o op).1 (g7Step g op (w.step le o op).2) r

theorem op7OK_of_b {g : G7} {op : Op} (h : op7OKb g op = true) : Op7OK g op := by
  cases op <;> first | trivial | (simpa [op7OKb, Op7OK] using h)

theorem hist7OK_of_b (le : ID → ID → Bool) (hist : List (Orc × Op)) (w : World) (g : G7)
    (h : hist7OKb le w g hist = true) : Hist7OK le w g hist := by
  induction hist generalizing w g with
  | nil => trivial
  | cons p r ih =>
    obtain ⟨o, op⟩ := p
    simp only [hist7OKb, Bool.and_eq_true] at h
    exact ⟨orcOK_of_b h.1.1.1, opOK_of_b h.1.1.2, op7OK_of_b h.1.2, ih _ _ h.2⟩

/-- Boolean versions of G1–G3 (`SI.ref`, `SI.full`, distinct roots of the full records). -/
def si123B (s : State) (g : G7) : Bool :=
  s.store.all (fun e =>
    match e.2.ref with
    | some t => g.refd.contains e.1 && (g.rootOf t == g.rootOf e.1)
    | none => !g.refd.contains e.1 && !g.deadRoots.contains (g.rootOf e.1)) &&
  (let roots := (s.store.filter (fun e => e.2.ref.isNone)).map (fun e => g.rootOf e.1)
   roots.eraseDups.length == roots.length)

/-! ### a syntactic sufficient condition (decidable by the kernel) -/

theorem g7Step_destroyed (g : G7) (op : Op) (out : Out) :
    (g7Step g op out).destroyed =
      match op with
      | .h .destroy => true
      | .req _ _ _ _ _ => false
      | .endReq => false
      | _ => g.destroyed := by
  unfold g7Step g7Op
  split <;> first | rfl | exact foldG_destroyed _ _

/-- fault-free oracles; no codec switch, no `crashinside`; user-wide `LogOut`/`RefreshUser` only between requests
(second Boolean: a request is open); and between a handler's `Destroy` and the next `req`/`endReq` no handler call
(first Boolean: the `destroyed` flag). -/
def synt7B : Bool → Bool → List (Orc × Op) → Bool
  | _, _, [] => true
  | d, q, (o, op) :: r =>
    orcOKb o &&
      (match op with
       | .codec _ => false
       | .crashinside _ => false
       | .logoutUser _ => !q && synt7B d q r
       | .refresh _ => !q && synt7B d q r
       | .h .destroy => !d && synt7B true q r
       | .h _ => !d && synt7B d q r
       | .req _ _ _ _ _ => synt7B false true r
       | .endReq => synt7B false false r
       | _ => synt7B d q r)

theorem hist7OK_of_synt (le : ID → ID → Bool) (hist : List (Orc × Op)) (w : World) (g : G7) (q : Bool)
    (h : synt7B g.destroyed q hist = true) (hq : q = false → w.cur = none) : Hist7OK le w g hist := by
  induction hist generalizing w g q with
  | nil => trivial
  | cons p r ih =>
    obtain ⟨o, op⟩ := p
    simp only [synt7B, Bool.and_eq_true] at h
    obtain ⟨ho, hop⟩ := h
    have hd := g7Step_destroyed g op (w.step le o op).2
    have hsole : q = false → ∀ uid, SoleObject le w uid := by
      intro hb' uid h hh; rw [hq hb'] at hh; simp at hh
    have hkeep : ∀ (_ : ∀ client spec ip ua create, op ≠ .req client spec ip ua create),
        q = false → (w.step le o op).1.cur = none := fun hne hb' => step_cur_none le w o op (hq hb') hne
    cases op with
    | codec c => simp at hop
    | crashinside k => simp at hop
    | logoutUser uid =>
      simp only [Bool.and_eq_true, Bool.not_eq_true'] at hop
      exact ⟨orcOK_of_b ho, Or.inr (hsole hop.1 uid), trivial, ih _ _ q (by rw [hd]; exact hop.2) (hkeep (by intros; simp))⟩
    | refresh uid =>
      simp only [Bool.and_eq_true, Bool.not_eq_true'] at hop
      exact ⟨orcOK_of_b ho, Or.inr (hsole hop.1 uid), trivial, ih _ _ q (by rw [hd]; exact hop.2) (hkeep (by intros; simp))⟩
    | h hop' =>
      cases hop' <;> simp only [Bool.and_eq_true, Bool.not_eq_true'] at hop <;>
        exact ⟨orcOK_of_b ho, trivial, hop.1, ih _ _ q (by rw [hd]; exact hop.2) (hkeep (by intros; simp))⟩
    | req client spec ip ua create =>
      exact ⟨orcOK_of_b ho, trivial, trivial, ih _ _ true (by rw [hd]; exact hop) (by intro h; simp at h)⟩
    | endReq =>
      exact ⟨orcOK_of_b ho, trivial, trivial, ih _ _ false (by rw [hd]; exact hop) (fun _ => step_endReq_cur le w o)⟩
    | cfg n v => exact ⟨orcOK_of_b ho, trivial, trivial, ih _ _ q (by rw [hd]; exact hop) (hkeep (by intros; simp))⟩
    | cookiecfg ck => exact ⟨orcOK_of_b ho, trivial, trivial, ih _ _ q (by rw [hd]; exact hop) (hkeep (by intros; simp))⟩
    | wait d => exact ⟨orcOK_of_b ho, trivial, trivial, ih _ _ q (by rw [hd]; exact hop) (hkeep (by intros; simp))⟩
    | stale uid id => exact ⟨orcOK_of_b ho, trivial, trivial, ih _ _ q (by rw [hd]; exact hop) (hkeep (by intros; simp))⟩
    | purge => exact ⟨orcOK_of_b ho, trivial, trivial, ih _ _ q (by rw [hd]; exact hop) (hkeep (by intros; simp))⟩
    | dropcache => exact ⟨orcOK_of_b ho, trivial, trivial, ih _ _ q (by rw [hd]; exact hop) (hkeep (by intros; simp))⟩
    | expiredRec id => exact ⟨orcOK_of_b ho, trivial, trivial, ih _ _ q (by rw [hd]; exact hop) (hkeep (by intros; simp))⟩
    | crash => exact ⟨orcOK_of_b ho, trivial, trivial, ih _ _ q (by rw [hd]; exact hop) (hkeep (by intros; simp))⟩
    | fault => exact ⟨orcOK_of_b ho, trivial, trivial, ih _ _ q (by rw [hd]; exact hop) (hkeep (by intros; simp))⟩

/-! ## 5b. a request presenting a dead id -/

/-- a session `createNew` returns is new: the id just minted, an empty data map, no user. -/
theorem createNew_new (cfg : Cfg) (s : State) (r : Req) (pre : List Ev) (hnf : NoFail s) (hi : Inv cfg.codec s) :
    ∀ h, (createNew cfg s r pre).2.1 = .sess h →
      ((createNew cfg s r pre).1.obj h).id = .gen s.nextId ∧ ((createNew cfg s r pre).1.obj h).data = some [] ∧
      ((createNew cfg s r pre).1.obj h).user = none := by
  intro h hh
  cases hc : r.create with
  | false => rw [Loc.createNew_no pre hc] at hh; cases hh
  | true =>
    have d := createNew_delta cfg s r pre hnf hi hc
    rw [d.res] at hh
    simp only [Res.sess.injEq] at hh
    subst hh
    rw [d.obj_new]
    exact ⟨rfl, rfl, rfl⟩

/-- **the chain of a dead id never ends in a session**: `follow`, started on an object under a dead id, meets only
dead ids — a missing record ends it with `.nil`, a reference leads on; it cannot return a session. -/
theorem follow_dead (cfg : Cfg) (n : Nat) (s : State) (h : Nat) (hnf : NoFail s) (hi : Inv cfg.codec s) (hk : HOK s h)
    (hc : HCoh cfg.codec s h) {g : G7} (hs : SI s g) (hdead : dead g (s.obj h).id) :
    ∀ h2, (follow cfg n s h).2.1 ≠ .some h2 := by
  induction n generalizing s h with
  | zero => intro h2 hh; rw [Loc.follow_zero] at hh; cases hh
  | succ n ih =>
    cases href : (s.obj h).ref with
    | none => exact absurd hdead (hs.full _ (curOK_of_hcoh hc href)).2
    | some tgt =>
      rw [Loc.follow_succ_some n href]
      have hdt : dead g tgt := by
        obtain ⟨r0, hl, hess⟩ := hc
        have : refAt s.store (s.obj h).id = some (some tgt) := by
          rw [refAt_of_lookup hl, ← Glob.ess_ref hess, enc_ref, href]
        unfold dead at hdead ⊢
        rw [(hs.ref _ tgt this).2]; exact hdead
      have gd := cacheGet_delta cfg s tgt hnf hi
      generalize hg : cacheGet cfg s tgt = out at gd
      obtain ⟨s1, res, e1⟩ := out
      cases res with
      | err => intro h2 hh; cases hh
      | nil => intro h2 hh; cases hh
      | some h1 =>
        obtain ⟨hs1, _⟩ := hs.quietX gd.quiet (by rw [gd.fr.2.2.1]; exact fun _ hp => hp) (by rw [gd.fr.2.1]; exact Nat.le_refl _)
        rcases gd.res with ⟨hn, _⟩ | ⟨h', r0, he, hk1, hid, _⟩
        · cases hn
        · simp only [GetRes.some.injEq] at he; subst he
          exact ih s1 h1 gd.nofail gd.inv hk1 (hcoh_of_get hi hg hid) hs1 (by rw [hid]; exact hdt)

/-- **`Start` on a dead id**: whatever it returns, a session it returns is a new one. -/
theorem start_dead (cfg : Cfg) (s : State) (r : Req) (hnf : NoFail s) (hi : Inv cfg.codec s) {g : G7} (hs : SI s g) {id : ID}
    (hck : r.cookie = some id) (hdead : dead g id) :
    ∀ h, (start cfg s r).2.1 = .sess h →
      ((start cfg s r).1.obj h).id = .gen s.nextId ∧ ((start cfg s r).1.obj h).data = some [] ∧
      ((start cfg s r).1.obj h).user = none := by
  rcases start_cases cfg s r hnf hi with ⟨_, heq⟩ | ⟨id', s1, res, e1, hck', hlen, hg, gd, hcase⟩
  · rw [heq]; exact createNew_new cfg s r [] hnf hi
  · rw [hck] at hck'
    simp only [Option.some.injEq] at hck'
    subst hck'
    obtain ⟨hs1, _⟩ := hs.quietX gd.quiet (by rw [gd.fr.2.2.1]; exact fun _ hp => hp) (by rw [gd.fr.2.1]; exact Nat.le_refl _)
    simp only at hs1
    have hn1 : s1.nextId = s.nextId := gd.fr.2.1
    rcases hcase with ⟨hres, heq⟩ | ⟨h, hres, hk, hid, hfound⟩
    · rw [heq, ← hn1]; exact createNew_new cfg s1 r _ gd.nofail gd.inv
    · subst hres
      have hcoh : HCoh cfg.codec s1 h := hcoh_of_get hi hg hid
      have hfull : (s1.obj h).ref = none → False := fun href =>
        (hs1.full _ (curOK_of_hcoh hcoh href)).2 (by rw [hid]; exact hdead)
      rcases hfound with ⟨_, heq⟩ | ⟨_, href, _, _⟩ | ⟨_, href, _, _⟩ | ⟨t, _, href, _, heq⟩ | ⟨t, _, href, _, heq⟩
      · rw [heq, ← hn1]
        exact createNew_new cfg (delSt s1 id) r _ (delSt_nofail id gd.nofail) (delSt_inv id gd.inv)
      · exact absurd href (fun e => hfull e)
      · exact absurd href (fun e => hfull e)
      · rw [heq]; intro h' hh; cases hh
      · rw [heq]
        have hF := follow_dead cfg (s1.store.length + s1.cache.length + 1) s1 h gd.nofail gd.inv hk hcoh hs1
          (by rw [hid]; exact hdead)
        generalize follow cfg (s1.store.length + s1.cache.length + 1) s1 h = out at hF
        obtain ⟨s2, res2, e2⟩ := out
        cases res2 with
        | err => intro h' hh; cases hh
        | nil => intro h' hh; cases hh
        | some h2 => exact absurd rfl (hF h2)

/-- the id a request presents (`CookieSpec`: none, the client's jar, or an arbitrary value). -/
def presentedId (w : World) (client : String) : CookieSpec → Option ID
  | .none => none
  | .jar => lookup client w.jars
  | .val id _ => some id

/-- the cookie pair `World.step` builds for a request -/
def presentedOf (w : World) (client : String) (spec : CookieSpec) : Option (ID × Nat) :=
  match spec with
  | .none => none
  | .jar => (lookup client w.jars).map (fun id => (id, 24))
  | .val id len => some (id, len)

/-- the request `World.step` hands to `Start` -/
def reqOf (w : World) (client : String) (spec : CookieSpec) (ip ua : String) (create : Bool) : Req :=
  { cookie := (presentedOf w client spec).map (·.1), cookieLen := ((presentedOf w client spec).map (·.2)).getD 0,
    ip := ip, ua := ua, create := create }

theorem reqOf_cookie (w : World) (client : String) (spec : CookieSpec) (ip ua : String) (create : Bool) :
    (reqOf w client spec ip ua create).cookie = presentedId w client spec := by
  cases spec with
  | none => rfl
  | jar => show ((lookup client w.jars).map (fun id => (id, 24))).map (·.1) = lookup client w.jars; cases lookup client w.jars <;> rfl
  | val id len => rfl

/-- the session (if any) a request is served with, and its object, in terms of `Start` (alive process). -/
theorem step_req_view (le : ID → ID → Bool) (w : World) (orc : Orc) (client : String) (spec : CookieSpec) (ip ua : String)
    (create : Bool) (hsk : w.skip = false) (hfz : w.freezeAt = none) :
    (w.step le orc (.req client spec ip ua create)).1.cur =
      (match (start w.cfg (orcSt w orc) (reqOf w client spec ip ua create)).2.1 with | .sess h => some h | _ => none) ∧
    (w.step le orc (.req client spec ip ua create)).1.st.heap =
      (start w.cfg (orcSt w orc) (reqOf w client spec ip ua create)).1.heap := by
  unfold World.step
  simp only [hsk, Bool.false_and, Bool.false_eq_true, if_false]
  constructor
  · exact apiCall_cur _ orc _ true
  · show (apiCall _ orc _ true).1.st.heap = _
    rw [apiCall_fst]
    simp only []
    rw [i3_advance_heap]
    unfold apiMid apiFrz
    simp only [hfz]
    rfl

/-- **C07, no resurrection.** In a world satisfying the invariants, a request (any client, address, User-Agent,
`createIfNew`) that presents a dead id — by value or from a cookie jar — is answered with no session (`nil`, or an
error such as "refmissing"/"idexpired"), or with a NEW session: the id minted for it right now, an empty data map, no
user. It never obtains the dead session, its data or its user. -/
theorem c07_no_resurrection {c : Codec} (le : ID → ID → Bool) (w : World) (orc : Orc) (hw : WInv3 c w) {g : G7}
    (hd : Dead7 w g) (ho : OrcOK orc) (client : String) (spec : CookieSpec) (ip ua : String) (create : Bool) {id : ID}
    (hp : presentedId w client spec = some id) (hdead : dead g id) :
    (w.step le orc (.req client spec ip ua create)).1.cur = none ∨
    ∃ h, (w.step le orc (.req client spec ip ua create)).1.cur = some h ∧
      ((w.step le orc (.req client spec ip ua create)).1.st.obj h).id = .gen w.st.nextId ∧
      ((w.step le orc (.req client spec ip ua create)).1.st.obj h).data = some [] ∧
      ((w.step le orc (.req client spec ip ua create)).1.st.obj h).user = none := by
  have hsk' : w.skip = false := hd.alive.1
  obtain ⟨hinv, _⟩ := hw.inv.good hsk'
  have hcd := hw.inv.codec
  subst hcd
  obtain ⟨h1, h2⟩ := step_req_view le w orc client spec ip ua create hsk' hd.alive.2
  have hS := start_dead w.cfg (orcSt w orc) (reqOf w client spec ip ua create) ho (hinv.congr rfl rfl rfl rfl rfl)
    (hd.si.congr rfl rfl rfl) (by rw [reqOf_cookie]; exact hp) hdead
  rw [h1]
  cases hres : (start w.cfg (orcSt w orc) (reqOf w client spec ip ua create)).2.1 with
  | nil => exact Or.inl rfl
  | err m => exact Or.inl rfl
  | sess h =>
    right
    refine ⟨h, rfl, ?_⟩
    rw [obj_of_heap_eq h2]
    exact hS h hres

/-! ### when a session becomes dead -/

/-- **`Destroy` makes the session dead**: after the handler's `Destroy` (fault-free; whether or not the request carried
the cookie) the id of the request's session, and every id of its root class — every id that ever belonged to it —,
is dead in the ghost of the next boundary. -/
theorem c07_destroy_marks {c : Codec} (le : ID → ID → Bool) (w : World) (orc : Orc) (_hw : WInv3 c w) {g : G7} (hd : Dead7 w g)
    (ho : OrcOK orc) {h : Nat} (hc : w.cur = some h) (hg : g.destroyed = false) {k : ID}
    (hk : g.rootOf k = g.rootOf (w.st.obj h).id) :
    dead (g7Step g (.h .destroy) (w.step le orc (.h .destroy)).2) k := by
  have hsk' : w.skip = false := hd.alive.1
  have hnf0 : NoFail (orcSt w orc) := ho
  unfold g7Step
  rw [dead_g7Op]
  have hev : (w.step le orc (.h .destroy)).2.evs.foldl g7Ev g = g7Ev g (.del (w.st.obj h).id) := by
    unfold World.step
    simp only [hsk', Bool.false_and, Bool.false_eq_true, if_false, hc]
    rw [apiCall_fold]
    show (destroy (orcSt w orc) h w.hasCookie).2.2.foldl g7Ev g = _
    rw [destroy_nf _ h _ hnf0]
    cases w.hasCookie <;> rfl
  rw [hev]
  exact dead_del (hd.si.full _ (hd.cur h hc hg)).1 hk

/-- the ghost after a request is the ghost folded over the events of its `Start`. -/
theorem step_req_fold (le : ID → ID → Bool) (w : World) (orc : Orc) (client : String) (spec : CookieSpec) (ip ua : String)
    (create : Bool) (hsk : w.skip = false) (g : G7) :
    (w.step le orc (.req client spec ip ua create)).2.evs.foldl g7Ev g =
      (start w.cfg (orcSt w orc) (reqOf w client spec ip ua create)).2.2.foldl g7Ev g := by
  unfold World.step
  simp only [hsk, Bool.false_and, Bool.false_eq_true, if_false]
  exact apiCall_fold _ orc _ true g

/-- **`Start` refusing a session makes it dead** (state level; `dead7_step` shows that the ghost of the next boundary
is the ghost folded over the events of `Start`): when the validity test fails on a full session found under the
presented id (expiry, address or User-Agent anomaly), that id and every id of its root class is dead afterwards. -/
theorem c07_invalid_marks (cfg : Cfg) (s : State) (r : Req) (hnf : NoFail s) (hi : Inv cfg.codec s) {g : G7} (hs : SI s g) {id : ID}
    {s1 : State} {h : Nat} {e1 : List Ev} (hck : r.cookie = some id) (hl : r.cookieLen = 24)
    (hg : cacheGet cfg s id = (s1, .some h, e1)) (hv : validFor cfg s1.now (s1.obj h) r = false)
    (href : (s1.obj h).ref = none) {k : ID} (hk : g.rootOf k = g.rootOf id) :
    dead ((start cfg s r).2.2.foldl g7Ev g) k := by
  have gd := cacheGet_delta cfg s id hnf hi
  rw [hg] at gd
  obtain ⟨hs1, hf1⟩ := hs.quietX gd.quiet (by rw [gd.fr.2.2.1]; exact fun _ hp => hp) (by rw [gd.fr.2.1]; exact Nat.le_refl _)
  simp only at hs1 hf1
  have hid : (s1.obj h).id = id := by
    rcases gd.res with ⟨hn, _⟩ | ⟨h', r0, he, _, hid, _⟩
    · cases hn
    · simp only [GetRes.some.injEq] at he; subst he; exact hid
  have hk1 : HOK s1 h := by
    rcases gd.res with ⟨hn, _⟩ | ⟨h', r0, he, hk1, _⟩
    · cases hn
    · simp only [GetRes.some.injEq] at he; subst he; exact hk1
  have hcoh : HCoh cfg.codec s1 h := hcoh_of_get hi hg hid
  have hnr : id ∉ g.refd := by rw [← hid]; exact (hs1.full _ (curOK_of_hcoh hcoh href)).1
  rw [Loc.start_invalid hck hl hg hv, startInvalid_nf cfg s1 h r e1 gd.nofail, hid]
  have hsd := delSt_g7 hs1 id (by rw [← hid]; exact hk1.minted)
  obtain ⟨_, h2, _⟩ := createNew_g7 cfg (delSt s1 id) r (e1 ++ [.del id, .delCookie]) (delSt_nofail id gd.nofail)
    (delSt_inv id gd.inv) hsd
  rw [h2 g (by rw [List.foldl_append, hf1]; rfl)]
  exact dead_del hnr hk

/-- … the same at the level of a history step. -/
theorem c07_invalid_marks_step {c : Codec} (le : ID → ID → Bool) (w : World) (orc : Orc) (hw : WInv3 c w) {g : G7} (hd : Dead7 w g)
    (ho : OrcOK orc) (client : String) (spec : CookieSpec) (ip ua : String) (create : Bool) {id : ID} {s1 : State} {h : Nat}
    {e1 : List Ev} (hp : presentedId w client spec = some id) (hl : (reqOf w client spec ip ua create).cookieLen = 24)
    (hg : cacheGet w.cfg (orcSt w orc) id = (s1, .some h, e1))
    (hv : validFor w.cfg s1.now (s1.obj h) (reqOf w client spec ip ua create) = false) (href : (s1.obj h).ref = none) {k : ID}
    (hk : g.rootOf k = g.rootOf id) :
    dead (g7Step g (.req client spec ip ua create) (w.step le orc (.req client spec ip ua create)).2) k := by
  have hsk' : w.skip = false := hd.alive.1
  obtain ⟨hinv, _⟩ := hw.inv.good hsk'
  have hcd := hw.inv.codec
  subst hcd
  unfold g7Step
  rw [dead_g7Op, step_req_fold le w orc client spec ip ua create hsk' g]
  exact c07_invalid_marks w.cfg (orcSt w orc) _ ho (hinv.congr rfl rfl rfl rfl rfl) (hd.si.congr rfl rfl rfl)
    (by rw [reqOf_cookie]; exact hp) hl hg hv href hk

/-- **C07 in one statement.** Take any history satisfying the side conditions `Hist7OK` (fault-free; the proviso; no
crash point inside an operation; otherwise arbitrary: presented ids, configuration, time, purges, cache drops,
crashes …), and an id that was dead at some operation boundary `n` of it (it belonged to a session on which `Destroy`
had returned — `c07_destroy_marks` — or which a request had invalidated — `c07_invalid_marks`). Then a request
issued after the history that presents this id (any client, address, User-Agent, `createIfNew`; by value or from a
cookie jar) is answered with no session or with a brand-new one: the id minted right now, empty data, no user. -/
theorem c07_never_comes_back (le : ID → ID → Bool) (cfg : Cfg) (ck : CookieCfg) (hist : List (Orc × Op))
    (hok : Hist7OK le { cfg := cfg, ck := ck } {} hist) (n : Nat) {id : ID}
    (hdead : dead (runG7 le { cfg := cfg, ck := ck } {} (hist.take n)).2 id)
    (orc : Orc) (ho : OrcOK orc) (client : String) (spec : CookieSpec) (ip ua : String) (create : Bool)
    (hp : presentedId (runG7 le { cfg := cfg, ck := ck } {} hist).1 client spec = some id) :
    ((runG7 le { cfg := cfg, ck := ck } {} hist).1.step le orc (.req client spec ip ua create)).1.cur = none ∨
    ∃ h, ((runG7 le { cfg := cfg, ck := ck } {} hist).1.step le orc (.req client spec ip ua create)).1.cur = some h ∧
      (((runG7 le { cfg := cfg, ck := ck } {} hist).1.step le orc (.req client spec ip ua create)).1.st.obj h).id =
        .gen (runG7 le { cfg := cfg, ck := ck } {} hist).1.st.nextId ∧
      (((runG7 le { cfg := cfg, ck := ck } {} hist).1.step le orc (.req client spec ip ua create)).1.st.obj h).data = some [] ∧
      (((runG7 le { cfg := cfg, ck := ck } {} hist).1.step le orc (.req client spec ip ua create)).1.st.obj h).user = none := by
  obtain ⟨hw, hd⟩ := dead_all_histories le cfg ck hist hok
  have hdead' : dead (runG7 le { cfg := cfg, ck := ck } {} hist).2 id := by
    have h1 := dead_persistent le (runG7 le { cfg := cfg, ck := ck } {} (hist.take n)).1
      (runG7 le { cfg := cfg, ck := ck } {} (hist.take n)).2 (hist.drop n) hdead
    rwa [← runG7_append, List.take_append_drop] at h1
  exact c07_no_resurrection le _ orc hw hd ho client spec ip ua create hp hdead'

/-! ## 5c. the cookie of a response that ends a session (T-local, fault-free) -/

/-- **`Destroy` with the request's cookie**: it succeeds and sends exactly the deletion cookie. -/
theorem c07_ending_cookie_destroy (s : State) (h : Nat) (hnf : NoFail s) :
    (destroy s h true).2.1 = true ∧ (destroy s h true).2.2.filter isCookie = [.delCookie] := by
  rw [destroy_nf s h true hnf]
  exact ⟨rfl, rfl⟩

/-- **`Start` refusing the presented session** (expired, or an address / User-Agent anomaly: the validity test
fails on the object found under the presented id): the cookie events of the response are the deletion cookie,
followed — when a new session is created (`createIfNew`) — by the live cookie of the NEW id `gen nextId`. -/
theorem c07_ending_cookie_start (cfg : Cfg) (s : State) (r : Req) (hnf : NoFail s) (hi : Inv cfg.codec s) {id : ID} {s1 : State}
    {h : Nat} {e1 : List Ev} (hck : r.cookie = some id) (hl : r.cookieLen = 24) (hg : cacheGet cfg s id = (s1, .some h, e1))
    (hv : validFor cfg s1.now (s1.obj h) r = false) :
    (start cfg s r).2.2.filter isCookie = [.delCookie] ∨
    (start cfg s r).2.2.filter isCookie = [.delCookie, .setCookie (.gen s.nextId)] := by
  have gd := cacheGet_delta cfg s id hnf hi
  rw [hg] at gd
  rw [Loc.start_invalid hck hl hg hv, startInvalid_nf cfg s1 h r e1 gd.nofail]
  have := Loc.createNew_out cfg (delSt s1 (s1.obj h).id) r (e1 ++ [.del (s1.obj h).id, .delCookie])
  rw [Loc.cookieEvs_append, Loc.cacheGet_cookieEvs' hg] at this
  have hn : (delSt s1 (s1.obj h).id).nextId = s.nextId := gd.fr.2.1
  rw [hn] at this
  exact Loc.NewOut.shape_del this

/-- … so the last cookie event of a response that ends a session is the deletion cookie or the live cookie of a
new session — never a live cookie for the id that was ended. -/
theorem c07_ending_cookie (cfg : Cfg) (s : State) (hnf : NoFail s) (hi : Inv cfg.codec s) :
    (∀ h, ((destroy s h true).2.2.filter isCookie).getLast? = some .delCookie) ∧
    (∀ r id s1 h e1, r.cookie = some id → r.cookieLen = 24 → cacheGet cfg s id = (s1, .some h, e1) →
      validFor cfg s1.now (s1.obj h) r = false →
      ((start cfg s r).2.2.filter isCookie).getLast? = some .delCookie ∨
      ((start cfg s r).2.2.filter isCookie).getLast? = some (.setCookie (.gen s.nextId))) := by
  refine ⟨fun h => by rw [(c07_ending_cookie_destroy s h hnf).2]; rfl, ?_⟩
  intro r id s1 h e1 hck hl hg hv
  rcases c07_ending_cookie_start cfg s r hnf hi hck hl hg hv with e | e
  · left; rw [e]; rfl
  · right; rw [e]; rfl

/-! ## 6. non-vacuity, and the failing cases without the side conditions -/

/-- three clients; data; an explicit rotation (`gen 0 ↦ gen 1`), a `LogIn` (`gen 2 ↦ gen 3`), an automatic rotation by
`Start` (`gen 4 ↦ gen 5`); a cache of size 2 (eviction), `purge`, `dropcache`; the old id `gen 0` presented during
grace reaches the session `gen 1`, which the handler **destroys**; `gen 0` presented again during grace ("refmissing",
no session); the session `gen 3` presented with another User-Agent is **invalidated** (anomaly); a wait past the
grace period, a `crash`; then all four dead ids are presented and get NEW sessions; finally `sessionExpiry` is
lowered, time passes and `gen 5` **expires** when presented; `gen 4` and `gen 5` presented again get new sessions. -/
def c07_script : List (Orc × Op) :=
  [ ({}, .cfg "maxCache" 2),
    ({}, .req "a" .none "1.2.3.4:5" "ua" true),                   -- gen 0
    ({}, .h (.set "k" (.int 1))),
    ({}, .h .regen),                                              -- gen 0 ↦ gen 1
    ({}, .endReq),
    ({}, .req "b" .none "5.6.7.8:9" "ub" true),                   -- gen 2
    ({}, .h (.login "u" false)),                                  -- gen 2 ↦ gen 3
    ({}, .endReq),
    ({}, .req "c" .none "9.9.9.9:1" "uc" true),                   -- gen 4 (evicts)
    ({}, .endReq),
    ({}, .purge),
    ({}, .dropcache),
    ({}, .cfg "idExpiry" 0),
    ({}, .req "c" .jar "9.9.9.9:1" "uc" false),                   -- gen 4 ↦ gen 5 by `Start`
    ({}, .endReq),
    ({}, .cfg "idExpiry" 3600000000000),
    ({}, .req "a" (.val (.gen 0) 24) "1.2.3.4:5" "ua" false),     -- 16: the old id still reaches the session gen 1 …
    ({}, .h .destroy),                                            -- 17: … which is destroyed
    ({}, .endReq),
    ({}, .req "a" (.val (.gen 0) 24) "1.2.3.4:5" "ua" true),      -- 19: the reference is still there, its target is not
    ({}, .endReq),
    ({}, .req "x" (.val (.gen 3) 24) "5.6.7.8:9" "other" true),   -- 21: anomaly: gen 3 invalidated, gen 6 created
    ({}, .endReq),
    ({}, .wait 400000000000),                                     -- the reference records are cleaned up
    ({}, .crash),
    ({}, .req "a" (.val (.gen 0) 24) "1.2.3.4:5" "ua" true),      -- 25: gen 7
    ({}, .endReq),
    ({}, .req "a" (.val (.gen 1) 24) "1.2.3.4:5" "ua" true),      -- 27: gen 8
    ({}, .endReq),
    ({}, .req "b" (.val (.gen 3) 24) "5.6.7.8:9" "ub" true),      -- 29: gen 9
    ({}, .endReq),
    ({}, .req "b" (.val (.gen 2) 24) "5.6.7.8:9" "ub" true),      -- 31: gen 10
    ({}, .endReq),
    ({}, .cfg "sessionExpiry" 1000),
    ({}, .wait 2000),
    ({}, .req "c" (.val (.gen 5) 24) "9.9.9.9:1" "uc" true),      -- 35: expired: gen 5 invalidated, gen 11 created
    ({}, .endReq),
    ({}, .cfg "sessionExpiry" 9223372036854775807),
    ({}, .req "c" (.val (.gen 4) 24) "9.9.9.9:1" "uc" true),      -- 38: gen 12
    ({}, .endReq),
    ({}, .req "c" (.val (.gen 5) 24) "9.9.9.9:1" "uc" true),      -- 40: gen 13
    ({}, .endReq) ]

theorem c07_script_ok : Hist7OK idLe {} {} c07_script := hist7OK_of_synt idLe c07_script {} {} false (by decide) (fun _ => rfl)

/-- the theorem applies to the script, at the end and at every boundary. -/
example : Dead7 (runG7 idLe {} {} c07_script).1 (runG7 idLe {} {} c07_script).2 :=
  (dead_all_histories idLe {} {} c07_script c07_script_ok).2
example (n : Nat) : Dead7 (runG7 idLe {} {} (c07_script.take n)).1 (runG7 idLe {} {} (c07_script.take n)).2 :=
  (dead_every_boundary idLe {} {} c07_script c07_script_ok n).2

/-- the id and the data of the session the request in flight is served with -/
def curView (p : World × G7) : Option (ID × Option Data) := p.1.cur.map (fun h => ((p.1.st.obj h).id, (p.1.st.obj h).data))

#guard hist7OKb idLe {} {} c07_script
-- the dead set grows exactly at the destroy (18), the anomaly (22) and the expiry (36)
#guard (runG7 idLe {} {} (c07_script.take 17)).2.deadRoots == []
#guard curView (runG7 idLe {} {} (c07_script.take 17)) == some (.gen 1, some [("k", .int 1)])
#guard (runG7 idLe {} {} (c07_script.take 18)).2.deadRoots == [.gen 0]
#guard curView (runG7 idLe {} {} (c07_script.take 20)) == none            -- "refmissing"
#guard (runG7 idLe {} {} (c07_script.take 22)).2.deadRoots == [.gen 2, .gen 0]
#guard (runG7 idLe {} {} (c07_script.take 36)).2.deadRoots == [.gen 4, .gen 2, .gen 0]
#guard (runG7 idLe {} {} c07_script).2.root == [(.gen 5, .gen 4), (.gen 3, .gen 2), (.gen 1, .gen 0)]
#guard deadIds (runG7 idLe {} {} c07_script).2 ((List.range 20).map ID.gen) == (List.range 6).map ID.gen
-- every dead id presented gets a NEW session with empty data
#guard [26, 28, 30, 32, 36, 39, 41].map (fun n => curView (runG7 idLe {} {} (c07_script.take n))) ==
  [7, 8, 9, 10, 11, 12, 13].map (fun k => some (ID.gen k, some []))
-- G1–G3 hold at every boundary; the cache stayed within its size; the reference records were cleaned up
#guard (List.range 43).all (fun n => si123B (runG7 idLe {} {} (c07_script.take n)).1.st (runG7 idLe {} {} (c07_script.take n)).2)
#guard (List.range 43).all (fun n => (runG7 idLe {} {} (c07_script.take n)).1.st.cache.length ≤ 2)
#guard ((runG7 idLe {} {} (c07_script.take 24)).1.st.store.map (·.1)) == [.gen 6, .gen 5]

/-- user-wide operations: an exclusive `LogIn`, `LogOut(uid)` and `RefreshUser` between requests, a destroy, and the
dead ids presented afterwards. -/
def c07_userScript : List (Orc × Op) :=
  [ ({}, .req "a" .none "" "" true), ({}, .h (.login "u" true)), ({}, .endReq),      -- gen 0 ↦ gen 1
    ({}, .req "b" .none "" "" true), ({}, .h (.login "u" true)), ({}, .endReq),      -- gen 2 ↦ gen 3, logs `a` out
    ({}, .refresh "u"), ({}, .dropcache), ({}, .logoutUser "u"),
    ({}, .req "b" .jar "" "" false), ({}, .h .destroy), ({}, .endReq),
    ({}, .req "b" (.val (.gen 3) 24) "" "" true), ({}, .endReq),
    ({}, .req "b" (.val (.gen 2) 24) "" "" true), ({}, .endReq) ]

#guard hist7OKb idLe {} {} c07_userScript
example : Dead7 (runG7 idLe {} {} c07_userScript).1 (runG7 idLe {} {} c07_userScript).2 :=
  (dead_all_histories idLe {} {} c07_userScript (hist7OK_of_synt idLe _ {} {} false (by decide) (fun _ => rfl))).2
#guard deadIds (runG7 idLe {} {} c07_userScript).2 ((List.range 10).map ID.gen) == [.gen 2, .gen 3]
#guard (List.range 17).all (fun n =>
  si123B (runG7 idLe {} {} (c07_userScript.take n)).1.st (runG7 idLe {} {} (c07_userScript.take n)).2)
#guard curView (runG7 idLe {} {} (c07_userScript.take 13)) == some (.gen 4, some [])

/-- **the proviso is needed**: after `Destroy` the handler writes through the destroyed object, which re-creates the
record under the destroyed id; the next request presenting it gets the session back, with the data written. The
history satisfies everything but the proviso. -/
def c07_provisoScript : List (Orc × Op) :=
  [ ({}, .req "a" .none "" "" true), ({}, .h (.set "k" (.int 1))), ({}, .h .destroy), ({}, .h (.set "k" (.int 2))),
    ({}, .endReq), ({}, .req "a" (.val (.gen 0) 24) "" "" false) ]

#guard histOKb idLe {} c07_provisoScript && !hist7OKb idLe {} {} c07_provisoScript
#guard curView (runG7 idLe {} {} c07_provisoScript) == some (.gen 0, some [("k", .int 2)]) &&
  decide (dead (runG7 idLe {} {} c07_provisoScript).2 (.gen 0))

/-- **why `crashinside` is excluded**: the ghost reads the events an operation *shows*; when the process dies inside
the operation (`crashinside k`), only the first `k` store mutations took effect (`Out.frozen`). Here the process dies
inside `Destroy` before `DeleteSession` (so `Destroy` never returned, and C07 promises nothing): the session is
still there after the restart, but a ghost fed with `Out.evs` counts it as dead. (A ghost that honours `Out.frozen`
would be needed; the statement is not claimed for such histories.) -/
def c07_crashinsideScript : List (Orc × Op) :=
  [ ({}, .req "a" .none "" "" true), ({}, .h (.set "k" (.int 1))), ({}, .crashinside 0), ({}, .h .destroy), ({}, .endReq),
    ({}, .req "a" (.val (.gen 0) 24) "" "" false) ]

#guard histOKb idLe {} c07_crashinsideScript && !hist7OKb idLe {} {} c07_crashinsideScript
#guard curView (runG7 idLe {} {} c07_crashinsideScript) == some (.gen 0, some [("k", .int 1)]) &&
  decide (dead (runG7 idLe {} {} c07_crashinsideScript).2 (.gen 0))

end Sx.Glob
