import Sessions.Proofs.Global.Delta
import Sessions.Proofs.Global.Users08Ops
import Sessions.Proofs.Global.Users08
import Sessions.Proofs.Global.Dead07Ops
import Sessions.Proofs.Global.Dead07
import Sessions.Proofs.Global.Own01Ops
import Sessions.Proofs.Global.Own01
import Sessions.Proofs.Global.Rotate04Ops
import Sessions.Proofs.Global.Rotate04
import Sessions.Proofs.Global.Active03Ops
import Sessions.Proofs.Global.Active03
import Sessions.Proofs.Global.Active03Link
import Sessions.Proofs.Global.Faulty11Ops
import Sessions.Proofs.Global.Faulty11Store
import Sessions.Proofs.Global.Faulty11Sim
import Sessions.Proofs.Global.Faulty11
/-!
# History-level ("T-global") theorems for C01, C03, C04, C07, C08 (namespace `Sx.Glob`)

* `Delta`      — shared: what every model function does to the stored records, fault-free from an `Inv` state, up to
                 `ess` (`EssEqX`, `QuietX`, `cacheGet_delta`, `createNew_delta`, `regenerate_delta`, `follow_delta`,
                 `start_cases`, `advance_delta`, …)
* `Users08Ops`, `Users08` — C08: `c08_logoutUser`, `c08_refresh`, `c08_refresh_users` (`StaleOK`), `c08_missing_skipped`,
                 `c08_login`, `c08_logout` (`RecOf`); reusable deltas `forUser_delta`, `logoutUser_delta`,
                 `refreshUser_delta`, `hlogin_delta`, `hlogin_saves` (`RefAgrees`), `hlogout_delta`
* `Dead07Ops`, `Dead07` — C07: ghost `G7`/`dead`, invariant `Dead7`, `dead7_step`, `dead_all_histories`,
                 `c07_no_dead_full`, `c07_dead_chain`, `c07_dead_not_minted`, `c07_served_not_dead`,
                 `c07_no_resurrection`, `c07_never_comes_back`, `c07_ending_cookie`; proviso `Op7OK`
* `Own01Ops`, `Own01` — C01: ghost `G1`/`exp`, invariant `Own1`/`Own`, `step_own1`, `own_all_histories`, `c01_exact`,
                 `c01_isolation`, `c01_continuity`; history-level C08 corollary `c08_after_logoutUser`
* `Rotate04Ops`, `Rotate04` — C04: ghost `G4` (`repl`, `root`), trace judgment `Fine`, invariant `RI`/`Rot4`, `rot4_step`,
                 `rot4_all_histories`, `c04_rotated_once`, `c04_never_full_again`, `c04_one_target`,
                 `c04_replaced_not_minted`, `c04_req_mints`, `c04_one_mint_per_due_id`, `c04_presented_mints_once`,
                 `c04_same_session`, `c04_same_handle` (crash points inside operations included: `effEvs`)
* `Faulty11Ops`, `Faulty11Store`, `Faulty11Sim`, `Faulty11` — C11 and the fault side of C09, histories WITH store faults,
                 EVERY oracle: structural invariant `SInv`/`WSInv` (`Inv` minus coherence minus `wf`), `*_smono` per
                 model function, `sinv_step`, `sinv_all_histories` (side condition `OpOKs`: no codec switch);
                 `applyEvs`, `follows_*`, `store_follows_events`, `step_store_follows_events`, `step_store_frozen`,
                 `hist_store_follows_events`, `c11_failed_call_changes_nothing`; `sim_*`, `step_eq_clear`,
                 `step_inv_of_not_faulted`; `c09_ack_saved_global`, `c09_created_saved_global`, `hlogin_ok_saved'`;
                 `start_failed_load_quiet`, `start_del_cases`, `c11_no_silent_loss`, `c11_del_only_by_invalidation`,
                 `c11_failed_load_global`; ghost `taint`, `cohf_all_histories_partial`, `coh_lost_only_by_shown_fault`,
                 `c09_untainted_crash_equiv`; findings `wf_fails_under_faults`, `pkScript` (the per-id dirty-set
                 statement is false in the model)
* `Active03Ops`, `Active03`, `Active03Link` — C03: ghost `G3` (`served`, `lastOK`), relation `KM`, invariant `KS`/`Knows`,
                 `knows_step`, `knows_all_histories`, `c03_active_not_stale`, `c03_active_kept_id` (sessions proper and
                 reference records), `c03_expired_sound_global`, `c03_expired_refused`; jar/ghost link `Linked`,
                 `linked_all_histories`, client level `c03_active_kept`, `c03_active_kept_client`; provisos `Op3OK` (cache
                 enabled, no cache loss, time forward), `Op3LOK` (requests closed by `endReq`), `AcceptAll`
-/
