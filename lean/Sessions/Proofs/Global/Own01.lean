import Sessions.Proofs.Global.Own01Ops
/-!
# C01 — a cookie-following client always gets back its own session, and only its own

"For any sequence of requests by any number of clients that each keep the last session cookie they were sent, every
request made while the client's session is still valid returns that client's session holding exactly the key/value
data and user last written to it, regardless of intervening ID changes, cache evictions, idle purges or PurgeSessions
calls. No request ever returns a session that contains data or a user written through another client's session."

Formalised over the fault-free histories (`OrcOK`) of `Sx.World.step`.

## the ghost (§1)
`G1 = (exp, client, dead)`, updated by `g1Step g op out` from the operation and what the harness printed for it ONLY:
`exp : Exp` maps a client to the data and user it last wrote through its own session.
* `.req c …` returning a session: the expectation of `c` is reset to `([], none)` when `c` had none, or presented no
  cookie (`out.input = some none` — a client that sends nothing gets a new session), or was first sent the deletion
  cookie; otherwise it is unchanged (`expReq`);
* `.h op` (not answered "nosession"): `set`/`del`/`getdel` update the data, `login uid excl` sets the user (and, if
  exclusive, removes `uid` from every other client's expectation: `dropU`), `logout` clears it, `destroy` erases the
  expectation and sets `dead`;
* `.endReq`: a client whose browser ends up without cookie (`out.jar = (c, none)`: deletion cookie, or a cookie
  template the browser drops at once) has no session: its expectation is erased (`expAfter`). (Given the rule "nothing
  presented ⇒ new session" this rule is not needed for the theorems — `deadCookieScript` —; it keeps the ghost tidy.)
* `.logoutUser uid` (ok): `dropU uid`. `.refresh`: nothing (only the version of the user object changes).
Values are compared up to the conversion the codec applies: `normData` (`Own01Ops.lean`; gob: identity; json: `convData`).

## the histories (§2): `Hist1OK le w g hist`, Boolean checker `hist1OKb` (`hist1OK_of_b`)
every oracle `OrcOK`; operation by operation `Op1OK`:
* `.req c spec …` only with `spec = .jar` or `.none` (cookie-following; `.val` is excluded: `wrongLenScript`) and only
  when no request is in flight — **WellBracketed** (`lostResponseScript`);
* `.h _` only when the handler has not called `Destroy` in this request — **NoUseAfterDestroy**
  (`useAfterDestroyScript`);
* `.logoutUser`/`.refresh` only between requests; no `.codec`, `.crashinside`, `.stale` (`staleScript`);
* everything else (`cfg` — any value, also `maxCache ≤ 0` —, `cookiecfg`, `wait`, `purge`, `dropcache`, `crash`,
  `expiredRec`, `fault`, `endReq`) at any time.

## the invariant (§3) and the theorems
`Own1 c w g` (on top of `WInv`, `W3`): state-level parts `Rest` (clients at rest: jar ids minted and pairwise
distinct; the record under the jar id is a session proper holding the expectation — or there is no record if there is
no expectation; clean-up goroutines wait for reference records only) and `Flight` (`Live`/`Dead`/`Idle`: the request in
flight) from `Own01Ops.lean`. KEY OBSERVATION: in these histories the jar of a client always holds the CURRENT id of
its session, so "what the jar resolves to" needs no reference link (`own_leads`: `More.Leads w.st j [] j`).
* `step_own1`, `own1_all_histories`, `own1_every_boundary` — the invariant after every C01 history;
* `Own`/`cid`, `own_of_wown`, `own_all_histories`, `own_every_boundary` — in terms of the cookie a client holds / will hold;
* `c01_exact_spec` / `c01_exact` / `c01_exact_lost` — the session returned holds exactly the client's expectation, or is new;
* `c01_isolation` — it is not the session of any other client, whose records and expectations are untouched;
* `c01_continuity` — while the session is valid (`validFor` of the object the jar id resolves to), a session IS
  returned, without deletion cookie, and it is the client's own;
* `c08_after_logoutUser` — after `LogOut(uid)` no request returns a session of `uid` until a handler logs `uid` in;
* §7: `ownScript` (3 clients, 66 operations), `jsonScript`, the counter-examples, checked by `#guard`
  (world-level facts cannot be `decide`d: `List.mergeSort` does not reduce in the kernel).
-/
namespace Sx.Glob
open Sx Sx.More

/-! ## 1. the ghost: what each client last wrote through its own session -/

/-- The ghost state. It is computed from the operations of the script and the outputs the harness prints for
them only (`g1Step`), never from the model state.
* `exp`: per client, the key/value data and the user it last wrote through its own session;
* `client`: the client of the request in flight (taken from the `.req` operation);
* `dead`: the handler has called `Destroy` in the request in flight. -/
structure G1 where
  exp : Exp := []
  client : String := ""
  dead : Bool := false
deriving Repr

def isOk (out : Out) : Bool := out.ret == some (.str "ok")

/-- a handler operation on the session of the request in flight. -/
def g1H (g : G1) (hop : HOp) (out : Out) : G1 :=
  match hop, lookup g.client g.exp with
  | .destroy, _ => { g with exp := erase g.client g.exp, dead := true }
  | .set k v, some (d, u) => if isOk out then { g with exp := insert g.client (insert k v d, u) g.exp } else g
  | .del k, some (d, u) => if isOk out then { g with exp := insert g.client (erase k d, u) g.exp } else g
  | .getdel k, some (d, u) => { g with exp := insert g.client (erase k d, u) g.exp }
  | .login uid excl, some (d, _) =>
    if isOk out then { g with exp := insert g.client (d, some uid) (if excl then dropU uid g.exp else g.exp) } else g
  | .logout, some (d, _) => if isOk out then { g with exp := insert g.client (d, none) g.exp } else g
  | _, _ => g

/-- the ghost update for one operation and what the harness printed for it. -/
def g1Step (g : G1) (op : Op) (out : Out) : G1 :=
  match op with
  | .req c _ _ _ _ =>
    { exp := expReq g.exp c (out.ret == some (.str "sess")) (out.input == some none)
        (out.cookies.head? == some .delCookie),
      client := c, dead := false }
  | .h hop => if out.ret == some (.str "nosession") then g else g1H g hop out
  | .endReq =>
    match out.jar with
    | some (c, jar) => { g with exp := expAfter g.exp c jar, dead := false }
    | none => g
  | .logoutUser uid => if isOk out then { g with exp := dropU uid g.exp } else g
  | _ => g

/-! ## 2. the histories -/

/-- the client follows its cookies: it presents what its jar holds (or nothing at all, having lost it). -/
def _root_.Sx.CookieSpec.following : CookieSpec → Bool
  | .jar => true
  | .none => true
  | .val _ _ => false

/-- **the side conditions of a C01 history**, operation by operation.
* `WellBracketed` (`.req` only when no request is in flight): a `.req` inside a request throws away the pending
  response cookies of the first request — a lost response, after which the client no longer follows its cookies;
* `NoUseAfterDestroy` (`.h _` only when the handler has not called `Destroy` in this request): the application makes
  no further calls on a destroyed session object — a later `Set` would write the record back under the destroyed id;
* `LogOut(uid)`/`RefreshUser` from outside a request only between requests (`Sx.SoleObject`);
* no codec switch, no crash inside an operation, no stale entries in the user index. -/
def Op1OK (w : World) (g : G1) : Op → Prop
  | .req _ spec _ _ _ => w.inReq = false ∧ spec.following = true
  | .h _ => g.dead = false
  | .logoutUser _ => w.inReq = false
  | .refresh _ => w.inReq = false
  | .codec _ => False
  | .crashinside _ => False
  | .stale _ _ => False
  | _ => True

/-- the side conditions of a history, checked along its run together with the ghost. -/
def Hist1OK (le : ID → ID → Bool) (w : World) (g : G1) : List (Orc × Op) → Prop
  | [] => True
  | (o, op) :: r => OrcOK o ∧ Op1OK w g op ∧ Hist1OK le (w.step le o op).1 (g1Step g op (w.step le o op).2) r

/-- the ghost after a history. -/
def runG1 (le : ID → ID → Bool) (w : World) (g : G1) : List (Orc × Op) → G1
  | [] => g
  | (o, op) :: r => runG1 le (w.step le o op).1 (g1Step g op (w.step le o op).2) r

/-! ## 3. the world invariant -/

/-- **the C01 invariant of a world and its ghost**, at every operation boundary (on top of `WInv` and `W3`). -/
structure Own1 (c : Codec) (w : World) (g : G1) : Prop where
  skip : w.skip = false
  frz : w.freezeAt = none
  extra : w.st.extra = []
  out : w.inReq = false → w.respCookies = [] ∧ Rest c w.st w.jars g.exp none
  inn : w.inReq = true → g.client = w.client ∧ Rest c w.st w.jars g.exp (some w.client) ∧
    Flight c w.st w.jars g.exp w.client w.respCookies w.cur g.dead

theorem rest_crashState {c : Codec} {st : State} {jars : List (String × ID)} {exp : Exp} {fl : Option String}
    (hr : Rest c st jars exp fl) : Rest c (crashState st) jars exp fl :=
  ⟨hr.minted, hr.inj, hr.holds, hr.gone, by intro t x r hm; simp [crashState] at hm⟩

theorem Own1.finW {c : Codec} {w : World} {g : G1} (h : Own1 c w g) : Own1 c (finW w) g := by
  unfold Sx.finW
  split
  · rename_i hc
    simp only [Bool.and_eq_true, Bool.not_eq_true'] at hc
    refine ⟨rfl, h.frz, h.extra, ?_, ?_⟩
    · intro _
      obtain ⟨a, b⟩ := h.out hc.2
      exact ⟨a, rest_crashState b⟩
    · intro hr
      have : w.inReq = true := hr
      rw [hc.2] at this; cases this
  · exact h

theorem finish_snd_ret (w : World) (o : Out) : (finish w o).2.ret = o.ret := by unfold finish; split <;> rfl
theorem finish_snd_jar (w : World) (o : Out) : (finish w o).2.jar = o.jar := by unfold finish; split <;> rfl

/-! ### one API call -/

theorem apiCall_out (w : World) (orc : Orc) (run : State → State × RetV × Option String × List Ev) (b : Bool) :
    (apiCall w orc run b).2.ret = some (run (orcSt w orc)).2.1 ∧
    (apiCall w orc run b).2.cookies = (run (orcSt w orc)).2.2.2.filter isCookie ∧
    (apiCall w orc run b).2.jar = none := by
  unfold apiCall
  generalize run { w.st with fails := orc.fails, picks := orc.picks } = r
  obtain ⟨s1, ret, msg, evs⟩ := r
  cases w.freezeAt with
  | none => simp
  | some k => simp

/-- what the function run by an API call must establish on the state it returns. -/
theorem apiCall_own1 {c : Codec} {w : World} {g' : G1} (orc : Orc) (run : State → State × RetV × Option String × List Ev)
    (b : Bool) (hfrz : w.freezeAt = none) (hskip : w.skip = false)
    (hextra : (run (orcSt w orc)).1.extra = [])
    (hout : w.inReq = false → w.respCookies ++ (run (orcSt w orc)).2.2.2.filter isCookie = [] ∧
      Rest c (run (orcSt w orc)).1 w.jars g'.exp none)
    (hinn : w.inReq = true → g'.client = w.client ∧ Rest c (run (orcSt w orc)).1 w.jars g'.exp (some w.client) ∧
      Flight c (run (orcSt w orc)).1 w.jars g'.exp w.client
        (w.respCookies ++ (run (orcSt w orc)).2.2.2.filter isCookie) w.cur g'.dead) :
    Own1 c (apiCall w orc run b).1 g' := by
  rw [apiCall_fst]
  have hf : ∀ evs, apiFrz w evs = none := by intro evs; unfold apiFrz; rw [hfrz]
  generalize run { w.st with fails := orc.fails, picks := orc.picks } = r at hextra hout hinn ⊢
  obtain ⟨s1, ret, msg, evs⟩ := r
  simp only at hextra hout hinn ⊢
  have hmid : apiMid w s1 evs = { s1 with fails := [], picks := [] } := by unfold apiMid; rw [hf]
  rw [hmid, hf]
  obtain ⟨_, _, _, _, _, _, _, a8, _⟩ := advance_delta ({ s1 with fails := [], picks := [] } : State) 1
  refine ⟨by simp [hskip], rfl, by rw [a8]; exact hextra, ?_, ?_⟩
  · intro hr
    obtain ⟨a, b⟩ := hout hr
    exact ⟨a, (b.congr (st' := { s1 with fails := [], picks := [] }) rfl rfl rfl).advance 1⟩
  · intro hr
    obtain ⟨a, b, d⟩ := hinn hr
    exact ⟨a, (b.congr (st' := { s1 with fails := [], picks := [] }) rfl rfl rfl).advance 1,
      (d.congr (st' := { s1 with fails := [], picks := [] }) rfl rfl rfl rfl).advance 1⟩

/-! ### `World.step`, operation by operation -/

/-- the cookie value `World.step` presents for `.req client spec …`. -/
def presOf (w : World) (client : String) (spec : CookieSpec) : Option (ID × Nat) :=
  match spec with
  | .none => none
  | .jar => (lookup client w.jars).map (fun id => (id, 24))
  | .val id len => some (id, len)

/-- the request `World.step` builds for `.req client spec …`. -/
def reqOf1 (w : World) (client : String) (spec : CookieSpec) (ip ua : String) (create : Bool) : Req :=
  { cookie := (presOf w client spec).map (·.1), cookieLen := ((presOf w client spec).map (·.2)).getD 0, ip := ip, ua := ua,
    create := create }

/-- the function `World.step` runs for `.req`. -/
def startRun (cfg : Cfg) (r : Req) : State → State × RetV × Option String × List Ev :=
  fun s => let (s1, res, evs) := start cfg s r; (s1, (resStr res).1, (resStr res).2, evs)

/-- the world in which the `Start` of a request runs. -/
def reqWorld (w : World) (orc : Orc) (client : String) (hc : Bool) (r : Req) : World :=
  { w with inReq := true, client := client, cur := curOf (start w.cfg (orcSt w orc) r).2.1,
           hasCookie := hc, respCookies := [] }

theorem step_req (le : ID → ID → Bool) (w : World) (orc : Orc) (client : String) (spec : CookieSpec) (ip ua : String)
    (create : Bool) (hsk : w.skip = false) :
    w.step le orc (.req client spec ip ua create) =
      ((apiCall (reqWorld w orc client (presOf w client spec).isSome (reqOf1 w client spec ip ua create)) orc
          (startRun w.cfg (reqOf1 w client spec ip ua create)) true).1,
       { (apiCall (reqWorld w orc client (presOf w client spec).isSome (reqOf1 w client spec ip ua create)) orc
          (startRun w.cfg (reqOf1 w client spec ip ua create)) true).2 with
          input := some (reqOf1 w client spec ip ua create).cookie }) := by
  unfold World.step reqWorld
  rw [hsk]
  rfl

theorem reqOf1_cookie (w : World) (client : String) (spec : CookieSpec) (ip ua : String) (create : Bool)
    (hs : spec.following = true) :
    (reqOf1 w client spec ip ua create).cookie = none ∨
    ((reqOf1 w client spec ip ua create).cookie = lookup client w.jars ∧ (reqOf1 w client spec ip ua create).cookieLen = 24) := by
  cases spec with
  | none => exact Or.inl rfl
  | val id len => cases hs
  | jar =>
    cases hj : lookup client w.jars with
    | none => left; simp [reqOf1, presOf, hj]
    | some id => right; simp [reqOf1, presOf, hj]

/-- the function `World.step` runs for a handler operation on the session `h`. -/
def hRun (le : ID → ID → Bool) (cfg : Cfg) (hasCookie : Bool) (h : Nat) (hop : HOp) :
    State → State × RetV × Option String × List Ev := fun s =>
  match hop with
  | .set k v => let (s', r, e) := hset cfg s h k v; (s', hresStr r, none, e)
  | .del k => let (s', r, e) := hdel cfg s h k; (s', hresStr r, none, e)
  | .get k => (s, hresStr (hget s h k), none, [])
  | .getdel k => let (s', r, e) := hgetdel cfg s h k; (s', hresStr r, none, e)
  | .login uid excl => let (s', r, e) := hlogin cfg le s h uid excl; (s', hresStr r, none, e)
  | .logout => let (s', r, e) := hlogout cfg s h; (s', hresStr r, none, e)
  | .regen => let (s', ok, e) := regenerate cfg s h; (s', boolStr ok, none, e)
  | .destroy => let (s', ok, e) := destroy s h hasCookie; (s', boolStr ok, none, e)
  | .expired => (s, hresStr (.bool (expired cfg s.now (s.obj h))), none, [])
  | .lastaccess => (s, .time (s.obj h).lastAccess, none, [])
  | .user => (s, .user (s.obj h).user, none, [])

theorem step_h_some (le : ID → ID → Bool) (w : World) (orc : Orc) (hop : HOp) (h : Nat) (hsk : w.skip = false)
    (hc : w.cur = some h) : w.step le orc (.h hop) = apiCall w orc (hRun le w.cfg w.hasCookie h hop) true := by
  obtain ⟨st, cfg, ck, jars, inReq, client, cur, hasCookie, respCookies, skip, freezeAt, crashed⟩ := w
  simp only at hsk hc
  subst hsk hc
  rfl

theorem step_h_none (le : ID → ID → Bool) (w : World) (orc : Orc) (hop : HOp) (hsk : w.skip = false)
    (hc : w.cur = none) : w.step le orc (.h hop) = (w, { t := w.st.now, ret := some (.str "nosession") }) := by
  unfold World.step
  simp only [hsk, hc, Bool.false_and, Bool.false_eq_true, if_false]

theorem step_endReq (le : ID → ID → Bool) (w : World) (orc : Orc) (hsk : w.skip = false) :
    w.step le orc .endReq =
      finish { w with jars := jarsAfter w.jars w.client (applyCookies w.ck (lookup w.client w.jars) w.respCookies),
                      inReq := false, cur := none, respCookies := [], skip := false }
        { t := w.st.now, jar := some (w.client, applyCookies w.ck (lookup w.client w.jars) w.respCookies) } := by
  obtain ⟨st, cfg, ck, jars, inReq, client, cur, hasCookie, respCookies, skip, freezeAt, crashed⟩ := w
  simp only at hsk
  subst hsk
  rfl

/-- a world that differs from `w` only in fields the invariant does not read. -/
theorem Own1.congr {c : Codec} {w w' : World} {g : G1} (h : Own1 c w g) (h1 : w'.st = w.st) (h2 : w'.jars = w.jars)
    (h3 : w'.inReq = w.inReq) (h4 : w'.client = w.client) (h5 : w'.cur = w.cur) (h6 : w'.respCookies = w.respCookies)
    (h7 : w'.skip = w.skip) (h8 : w'.freezeAt = w.freezeAt) : Own1 c w' g := by
  refine ⟨by rw [h7]; exact h.skip, by rw [h8]; exact h.frz, by rw [h1]; exact h.extra, ?_, ?_⟩
  · rw [h3, h6, h1, h2]; exact h.out
  · rw [h3, h4, h1, h2, h5, h6]; exact h.inn

theorem ret_sess (res : Res) : ((some (resStr res).1 : Option RetV) == some (.str "sess")) = res.isSess := by
  cases res <;> simp [resStr, Res.isSess] <;> decide

theorem input_none (x : Option ID) : ((some x : Option (Option ID)) == some none) = x.isNone := by
  cases x <;> simp

theorem boolStr_ne (b : Bool) : ((some (boolStr b) : Option RetV) == some (.str "nosession")) = false := by
  cases b <;> simp [boolStr] <;> decide

/-- an API call of a handler, given what the function it runs returns. -/
theorem h_api {c : Codec} {w : World} {g' : G1} (orc : Orc) (le : ID → ID → Bool) (h : Nat) (hop : HOp) {s1 : State}
    {ret : RetV} {evs : List Ev}
    (key : hRun le w.cfg w.hasCookie h hop (orcSt w orc) = (s1, ret, none, evs))
    (hr : w.inReq = true) (hfrz : w.freezeAt = none) (hsk : w.skip = false) (hextra : s1.extra = [])
    (hc : g'.client = w.client) (hrest : Rest c s1 w.jars g'.exp (some w.client))
    (hfl : Flight c s1 w.jars g'.exp w.client (w.respCookies ++ evs.filter isCookie) w.cur g'.dead) :
    Own1 c (apiCall w orc (hRun le w.cfg w.hasCookie h hop) true).1 g' := by
  apply apiCall_own1 orc _ true hfrz hsk
  · rw [key]; exact hextra
  · intro hf; rw [hr] at hf; cases hf
  · intro _; rw [key]; exact ⟨hc, hrest, hfl⟩

theorem h_ret {w : World} (orc : Orc) (le : ID → ID → Bool) (h : Nat) (hop : HOp) {s1 : State}
    {ret : RetV} {evs : List Ev}
    (key : hRun le w.cfg w.hasCookie h hop (orcSt w orc) = (s1, ret, none, evs)) :
    (apiCall w orc (hRun le w.cfg w.hasCookie h hop) true).2.ret = some ret := by
  rw [(apiCall_out w orc _ true).1, key]

/-- the Boolean side condition: a handler operation that only reads. -/
theorem flight_nil {c : Codec} {st : State} {jars : List (String × ID)} {exp : Exp} {client : String} {resp : List Ev}
    {cur : Option Nat} {dead : Bool} (h : Flight c st jars exp client resp cur dead) :
    Flight c st jars exp client (resp ++ ([] : List Ev).filter isCookie) cur dead := by
  simpa using h

theorem g1H_read (g : G1) (hop : HOp) (out : Out)
    (h : (∃ k, hop = .get k) ∨ hop = .regen ∨ hop = .expired ∨ hop = .lastaccess ∨ hop = .user) :
    g1Step g (.h hop) out = g := by
  have : g1H g hop out = g := by
    rcases h with ⟨k, rfl⟩ | rfl | rfl | rfl | rfl <;> (unfold g1H; cases lookup g.client g.exp <;> rfl)
  show (if out.ret == some (.str "nosession") then g else g1H g hop out) = g
  rw [this]; split <;> rfl

theorem g1Step_h_ok (g : G1) (hop : HOp) (out : Out) (hret : out.ret = some (.str "ok")) :
    g1Step g (.h hop) out = g1H g hop out := by
  show (if out.ret == some (.str "nosession") then g else _) = _
  rw [hret, if_neg (by decide)]

theorem g1Step_h_err (g : G1) (hop : HOp) (out : Out) (hret : out.ret = some (.str "err")) :
    g1Step g (.h hop) out = g1H g hop out := by
  show (if out.ret == some (.str "nosession") then g else _) = _
  rw [hret, if_neg (by decide)]

theorem g1Step_h_val (g : G1) (hop : HOp) (out : Out) (v : Val) (hret : out.ret = some (.val v)) :
    g1Step g (.h hop) out = g1H g hop out := by
  show (if out.ret == some (.str "nosession") then g else _) = _
  rw [hret, if_neg (by simp)]

theorem g1H_set {g : G1} {out : Out} {d : Data} {u : Option String} (k : String) (v : Val)
    (he : lookup g.client g.exp = some (d, u)) (hret : out.ret = some (.str "ok")) :
    g1H g (.set k v) out = { g with exp := insert g.client (insert k v d, u) g.exp } := by
  simp [g1H, he, isOk, hret]

theorem g1H_del {g : G1} {out : Out} {d : Data} {u : Option String} (k : String)
    (he : lookup g.client g.exp = some (d, u)) (hret : out.ret = some (.str "ok")) :
    g1H g (.del k) out = { g with exp := insert g.client (erase k d, u) g.exp } := by
  simp [g1H, he, isOk, hret]

theorem g1H_getdel {g : G1} {out : Out} {d : Data} {u : Option String} (k : String)
    (he : lookup g.client g.exp = some (d, u)) :
    g1H g (.getdel k) out = { g with exp := insert g.client (erase k d, u) g.exp } := by
  simp [g1H, he]

theorem g1H_logout {g : G1} {out : Out} {d : Data} {u : Option String}
    (he : lookup g.client g.exp = some (d, u)) (hret : out.ret = some (.str "ok")) :
    g1H g .logout out = { g with exp := insert g.client (d, none) g.exp } := by
  simp [g1H, he, isOk, hret]

theorem g1H_login {g : G1} {out : Out} {d : Data} {u : Option String} (uid : String) (excl : Bool)
    (he : lookup g.client g.exp = some (d, u)) (hret : out.ret = some (.str "ok")) :
    g1H g (.login uid excl) out =
      { g with exp := insert g.client (d, some uid) (if excl = true then dropU uid g.exp else g.exp) } := by
  simp [g1H, he, isOk, hret]

theorem g1H_destroy (g : G1) (out : Out) :
    g1H g .destroy out = { g with exp := erase g.client g.exp, dead := true } := by
  unfold g1H; cases lookup g.client g.exp <;> rfl

theorem Flight.of_live {c : Codec} {st : State} {jars : List (String × ID)} {exp : Exp} {client : String}
    {resp : List Ev} {cur : Option Nat} {h : Nat} (hc : cur = Option.some h) (hl : Live c st jars exp client resp h) :
    Flight c st jars exp client resp cur false :=
  ⟨fun h' hh => by rw [hc] at hh; cases hh; exact Or.inl ⟨rfl, hl⟩, fun hh => by rw [hc] at hh; cases hh⟩

theorem Flight.of_dead {c : Codec} {st : State} {jars : List (String × ID)} {exp : Exp} {client : String}
    {resp : List Ev} {cur : Option Nat} {h : Nat} (hc : cur = Option.some h) (hl : Dead c st jars exp client resp h) :
    Flight c st jars exp client resp cur true :=
  ⟨fun h' hh => by rw [hc] at hh; cases hh; exact Or.inr ⟨rfl, hl⟩, fun hh => by rw [hc] at hh; cases hh⟩

/-- **every operation of a C01 history keeps the C01 invariant** (given `WInv` and `W3` before the step; both
hold after the step by `Sx.step_inv` and `More.step_w3`). -/
theorem step_own1 {c : Codec} (le : ID → ID → Bool) (w : World) (g : G1) (orc : Orc) (op : Op) (hw : WInv c w)
    (h3 : W3 w) (ho1 : Own1 c w g) (ho : OrcOK orc) (hop : Op1OK w g op) :
    Own1 c (w.step le orc op).1 (g1Step g op (w.step le orc op).2) := by
  have hsk := ho1.skip
  obtain ⟨hinv, hcur⟩ := hw.good hsk
  obtain ⟨hi3, hcref⟩ := h3.good hsk
  have hcd := hw.codec
  subst hcd
  have hnf0 : NoFail (orcSt w orc) := ho
  have hinv0 : Inv w.cfg.codec (orcSt w orc) := hinv.congr rfl rfl rfl rfl rfl
  have simple : ∀ (w' : World) (o : Out), w'.st = w.st → w'.jars = w.jars → w'.inReq = w.inReq → w'.client = w.client →
      w'.cur = w.cur → w'.respCookies = w.respCookies → w'.skip = w.skip → w'.freezeAt = w.freezeAt →
      Own1 w.cfg.codec (finish w' o).1 g := by
    intro w' o h1 h2 h3 h4 h5 h6 h7 h8
    rw [finish_fst]; exact (ho1.congr h1 h2 h3 h4 h5 h6 h7 h8).finW
  cases op with
  | codec c' => exact absurd hop (by simp [Op1OK])
  | crashinside k => exact absurd hop (by simp [Op1OK])
  | stale uid id => exact absurd hop (by simp [Op1OK])
  | logoutUser uid =>
    have hnr : w.inReq = false := hop
    have e : w.step le orc (.logoutUser uid) =
        finish (apiCall w orc (fun s => ((logoutUser w.cfg le s uid).1, boolStr (logoutUser w.cfg le s uid).2.1, none,
            (logoutUser w.cfg le s uid).2.2)) false).1
          (apiCall w orc (fun s => ((logoutUser w.cfg le s uid).1, boolStr (logoutUser w.cfg le s uid).2.1, none,
            (logoutUser w.cfg le s uid).2.2)) false).2 := by
      unfold World.step; rw [hsk]; rfl
    rw [e]
    have D := logoutUser_delta w.cfg le (orcSt w orc) uid hnf0 hinv0
    have hg : g1Step g (.logoutUser uid)
        (finish (apiCall w orc (fun s => ((logoutUser w.cfg le s uid).1, boolStr (logoutUser w.cfg le s uid).2.1, none,
            (logoutUser w.cfg le s uid).2.2)) false).1
          (apiCall w orc (fun s => ((logoutUser w.cfg le s uid).1, boolStr (logoutUser w.cfg le s uid).2.1, none,
            (logoutUser w.cfg le s uid).2.2)) false).2).2 = { g with exp := dropU uid g.exp } := by
      show (if isOk _ then _ else g) = _
      unfold isOk
      rw [finish_snd_ret, (apiCall_out w orc _ false).1]
      show (if ((some (boolStr (logoutUser w.cfg le (orcSt w orc) uid).2.1) : Option RetV) == some (.str "ok")) = true then _ else _) = _
      rw [D.ok]; rfl
    rw [hg, finish_fst]
    apply Own1.finW
    apply apiCall_own1 orc _ false ho1.frz hsk
    · show (logoutUser w.cfg le (orcSt w orc) uid).1.extra = []
      rw [D.extra]; exact ho1.extra
    · intro _
      obtain ⟨a, b⟩ := ho1.out hnr
      refine ⟨?_, logoutUser_rest hnf0 hinv0 ho1.extra (b.congr (st' := orcSt w orc) rfl rfl rfl)⟩
      show w.respCookies ++ (logoutUser w.cfg le (orcSt w orc) uid).2.2.filter isCookie = []
      rw [D.nocookie, a]; rfl
    · intro hr; rw [hnr] at hr; cases hr
  | refresh uid =>
    have hnr : w.inReq = false := hop
    have e : w.step le orc (.refresh uid) =
        finish (apiCall w orc (fun s => ((refreshUser w.cfg le s uid).1, boolStr (refreshUser w.cfg le s uid).2.1, none,
            (refreshUser w.cfg le s uid).2.2)) false).1
          (apiCall w orc (fun s => ((refreshUser w.cfg le s uid).1, boolStr (refreshUser w.cfg le s uid).2.1, none,
            (refreshUser w.cfg le s uid).2.2)) false).2 := by
      unfold World.step; rw [hsk]; rfl
    rw [e, finish_fst]
    have D := refreshUser_delta w.cfg le (orcSt w orc) uid hnf0 hinv0
    apply Own1.finW
    apply apiCall_own1 orc _ false ho1.frz hsk
    · show (refreshUser w.cfg le (orcSt w orc) uid).1.extra = []
      rw [D.extra]; exact ho1.extra
    · intro _
      obtain ⟨a, b⟩ := ho1.out hnr
      refine ⟨?_, refreshUser_rest hnf0 hinv0 ho1.extra (b.congr (st' := orcSt w orc) rfl rfl rfl)⟩
      show w.respCookies ++ (refreshUser w.cfg le (orcSt w orc) uid).2.2.filter isCookie = []
      rw [D.nocookie, a]; rfl
    · intro hr; rw [hnr] at hr; cases hr
  | cfg n v =>
    have e : w.step le orc (.cfg n v) = finish { w with cfg := setCfg w.cfg n v } { t := w.st.now } := by
      unfold World.step; rw [hsk]; rfl
    rw [e]; exact simple _ _ rfl rfl rfl rfl rfl rfl rfl rfl
  | cookiecfg ck =>
    have e : w.step le orc (.cookiecfg ck) = finish { w with ck := ck } { t := w.st.now } := by
      unfold World.step; rw [hsk]; rfl
    rw [e]; exact simple _ _ rfl rfl rfl rfl rfl rfl rfl rfl
  | fault =>
    have e : w.step le orc .fault = finish w { t := w.st.now } := by
      unfold World.step; rw [hsk]; rfl
    rw [e]; exact simple _ _ rfl rfl rfl rfl rfl rfl rfl rfl
  | crash =>
    have e : w.step le orc .crash = finish { w with crashed := true } { t := w.st.now } := by
      unfold World.step; rw [hsk]; rfl
    rw [e]; exact simple _ _ rfl rfl rfl rfl rfl rfl rfl rfl
  | expiredRec id =>
    have e : (w.step le orc (.expiredRec id)).1 = finW w := by
      unfold World.step; rw [hsk]; exact finish_fst _ _
    rw [e]; exact ho1.finW
  | dropcache =>
    have e : w.step le orc .dropcache = finish { w with st := { w.st with cache := [] } } { t := w.st.now, dump := true } := by
      unfold World.step; rw [hsk]; rfl
    rw [e, finish_fst]
    apply Own1.finW
    refine ⟨hsk, ho1.frz, ho1.extra, ?_, ?_⟩
    · intro hr
      obtain ⟨a, b⟩ := ho1.out hr
      exact ⟨a, b.congr rfl rfl rfl⟩
    · intro hr
      obtain ⟨a, b, d⟩ := ho1.inn hr
      exact ⟨a, b.congr rfl rfl rfl, d.congr rfl rfl rfl rfl⟩
  | wait d =>
    have e : w.step le orc (.wait d) =
        finish { w with st := (advance w.st d).1 } { t := w.st.now, bg := (advance w.st d).2, dump := true } := by
      unfold World.step; rw [hsk]; rfl
    rw [e, finish_fst]
    apply Own1.finW
    obtain ⟨_, _, _, _, _, _, _, a8, _⟩ := advance_delta w.st d
    refine ⟨hsk, ho1.frz, by rw [← ho1.extra]; exact a8, ?_, ?_⟩
    · intro hr
      obtain ⟨a, b⟩ := ho1.out hr
      exact ⟨a, b.advance d⟩
    · intro hr
      obtain ⟨a, b, f⟩ := ho1.inn hr
      exact ⟨a, b.advance d, f.advance d⟩
  | purge =>
    have e : w.step le orc .purge =
        finish (apiCall w orc (fun s => ((purge w.cfg s).1, .str "ok", none, (purge w.cfg s).2)) false).1
          (apiCall w orc (fun s => ((purge w.cfg s).1, .str "ok", none, (purge w.cfg s).2)) false).2 := by
      unfold World.step; rw [hsk]; rfl
    rw [e, finish_fst]
    apply Own1.finW
    obtain ⟨hq, hheap, _⟩ := purge_delta w.cfg (orcSt w orc) hinv0
    obtain ⟨hfr, hnc⟩ := purge_fr_nc w.cfg (orcSt w orc)
    apply apiCall_own1 orc _ false ho1.frz hsk
    · show (purge w.cfg (orcSt w orc)).1.extra = []
      rw [hfr.extra]; exact ho1.extra
    · intro hr
      obtain ⟨a, b⟩ := ho1.out hr
      refine ⟨by show w.respCookies ++ (purge w.cfg (orcSt w orc)).2.filter isCookie = []; rw [hnc, a]; rfl, ?_⟩
      exact (b.congr (st' := orcSt w orc) rfl rfl rfl).keep hq.ess (by rw [hfr.timers]; exact fun _ hp => hp)
        (by rw [hfr.nextId]; exact Nat.le_refl _)
    · intro hr
      obtain ⟨a, b, f⟩ := ho1.inn hr
      refine ⟨a, ?_, ?_⟩
      · exact (b.congr (st' := orcSt w orc) rfl rfl rfl).keep hq.ess (by rw [hfr.timers]; exact fun _ hp => hp)
          (by rw [hfr.nextId]; exact Nat.le_refl _)
      · show Flight _ (purge w.cfg (orcSt w orc)).1 _ _ _ (w.respCookies ++ (purge w.cfg (orcSt w orc)).2.filter isCookie) _ _
        rw [hnc, List.append_nil]
        exact (f.congr (st' := orcSt w orc) rfl rfl rfl rfl).keep hq.ess hheap (by rw [hfr.timers]; exact fun _ hp => hp)
          (by rw [hfr.nextId]; exact Nat.le_refl _)
  | endReq =>
    rw [step_endReq le w orc hsk]
    simp only [g1Step, finish_snd_jar, finish_fst]
    apply Own1.finW
    have hcore : Rest w.cfg.codec w.st (jarsAfter w.jars w.client (applyCookies w.ck (lookup w.client w.jars) w.respCookies))
        (expAfter g.exp w.client (applyCookies w.ck (lookup w.client w.jars) w.respCookies)) none := by
      cases hr : w.inReq with
      | true =>
        obtain ⟨_, b, f⟩ := ho1.inn hr
        exact end_rest w.ck b f
      | false =>
        obtain ⟨a, b⟩ := ho1.out hr
        have hcn : w.cur = none := by
          cases hc : w.cur with
          | none => rfl
          | some h => have := hw.cur_req h hc; rw [hr] at this; cases this
        have f : Flight w.cfg.codec w.st w.jars g.exp w.client w.respCookies w.cur g.dead :=
          ⟨fun h hc => (by rw [hcn] at hc; cases hc), fun _ => Or.inl ⟨a, b⟩⟩
        exact end_rest w.ck (b.weaken _) f
    exact ⟨rfl, ho1.frz, ho1.extra, fun _ => ⟨rfl, hcore⟩, fun hr => by cases hr⟩
  | req client spec ip ua create =>
    obtain ⟨hnr, hfo⟩ := hop
    obtain ⟨hresp, hrest⟩ := ho1.out hnr
    rw [step_req le w orc client spec ip ua create hsk]
    generalize hrq : reqOf1 w client spec ip ua create = r
    have hck : r.cookie = none ∨ (r.cookie = lookup client w.jars ∧ r.cookieLen = 24) := by
      rw [← hrq]; exact reqOf1_cookie w client spec ip ua create hfo
    have hS := start_flight w.cfg (orcSt w orc) r w.jars g.exp client hnf0 hinv0
      (hrest.congr (st' := orcSt w orc) rfl rfl rfl) hck
    have hout := apiCall_out (reqWorld w orc client (presOf w client spec).isSome r) orc (startRun w.cfg r) true
    have hg : g1Step g (.req client spec ip ua create)
        { (apiCall (reqWorld w orc client (presOf w client spec).isSome r) orc (startRun w.cfg r) true).2 with
          input := some r.cookie } =
        { exp := expReq g.exp client (start w.cfg (orcSt w orc) r).2.1.isSess r.cookie.isNone
            (((start w.cfg (orcSt w orc) r).2.2.filter isCookie).head? == some .delCookie),
          client := client, dead := false } := by
      show ({ exp := expReq g.exp client _ _ _, client := client, dead := false } : G1) = _
      simp only [hout.1, hout.2.1, input_none]
      show ({ exp := expReq g.exp client ((some (resStr (start w.cfg (orcSt w orc) r).2.1).1 : Option RetV) == some (.str "sess")) _ _,
              client := client, dead := false } : G1) = _
      rw [ret_sess]
      rfl
    rw [hg]
    show Own1 _ (apiCall (reqWorld w orc client (presOf w client spec).isSome r) orc (startRun w.cfg r) true).1 _
    apply apiCall_own1 (w := reqWorld w orc client (presOf w client spec).isSome r) orc _ true ho1.frz hsk
    · show (start w.cfg (orcSt w orc) r).1.extra = []
      rw [start_extra w.cfg (orcSt w orc) r hnf0 hinv0]; exact ho1.extra
    · intro hf; cases hf
    · intro _
      exact ⟨rfl, hS.1, hS.2⟩
  | h hop' =>
    cases hc : w.cur with
    | none =>
      rw [step_h_none le w orc hop' hsk hc]
      exact ho1
    | some h =>
      rw [step_h_some le w orc hop' h hsk hc]
      have hr := hw.cur_req h hc
      obtain ⟨hgc, hrest, hfl⟩ := ho1.inn hr
      have hdead : g.dead = false := hop
      have hlive : Live w.cfg.codec w.st w.jars g.exp w.client w.respCookies h := by
        rcases hfl.some h hc with ⟨_, a⟩ | ⟨a, _⟩
        · exact a
        · rw [hdead] at a; cases a
      have hk0 : HOK (orcSt w orc) h := (hcur h hc).congr rfl rfl rfl
      have hlive0 : Live w.cfg.codec (orcSt w orc) w.jars g.exp w.client w.respCookies h := hlive.congr rfl rfl rfl rfl
      have hrest0 : Rest w.cfg.codec (orcSt w orc) w.jars g.exp (some w.client) := hrest.congr rfl rfl rfl
      obtain ⟨d, u, hexp, hholds⟩ := hlive0.exp
      have hexp' : lookup g.client g.exp = some (d, u) := by rw [hgc]; exact hexp
      obtain ⟨hdat, husr⟩ := holds_obj hlive0.coh hholds
      have hextra0 : (orcSt w orc).extra = [] := ho1.extra
      -- an operation that only reads
      have hread : ∀ (ret : RetV), hRun le w.cfg w.hasCookie h hop' (orcSt w orc) = (orcSt w orc, ret, none, []) →
          g1Step g (.h hop') (apiCall w orc (hRun le w.cfg w.hasCookie h hop') true).2 = g →
          Own1 w.cfg.codec (apiCall w orc (hRun le w.cfg w.hasCookie h hop') true).1
            (g1Step g (.h hop') (apiCall w orc (hRun le w.cfg w.hasCookie h hop') true).2) := by
        intro ret key hg
        rw [hg]
        exact h_api orc le h hop' key hr ho1.frz hsk hextra0 hgc hrest0
          (flight_nil (hfl.congr (st' := orcSt w orc) rfl rfl rfl rfl))
      have hd0ne : ((orcSt w orc).obj h).data ≠ none := (hi3.heap h).2 (hcref h hc)
      obtain ⟨d0, hd0⟩ : ∃ d0, ((orcSt w orc).obj h).data = some d0 := by
        cases hx : ((orcSt w orc).obj h).data with
        | none => exact absurd hx hd0ne
        | some d0 => exact ⟨d0, rfl⟩
      have hnd : normData w.cfg.codec d0 = normData w.cfg.codec d := by
        have := enc_data_some w.cfg.codec hd0
        rw [hdat] at this
        exact (Option.some.inj this).symm
      cases hop' with
      | get k => exact hread _ rfl (g1H_read g _ _ (Or.inl ⟨k, rfl⟩))
      | expired => exact hread _ rfl (g1H_read g _ _ (by simp))
      | lastaccess => exact hread _ rfl (g1H_read g _ _ (by simp))
      | user => exact hread _ rfl (g1H_read g _ _ (by simp))
      | set k v =>
        have heq := Loc.hset_some (cfg := w.cfg) k v hd0
        obtain ⟨ok, nc, ex, r', l'⟩ := save_flight hnf0 hk0.valid hlive0 hrest0
          { (orcSt w orc).obj h with data := some (insert k v d0) } rfl hlive0.ref
          (d' := insert k v d) (u' := u)
          (by rw [enc_data_some _ rfl, normData_insert, normData_insert, hnd]) (by rw [enc_user]; exact husr)
        have key : hRun le w.cfg w.hasCookie h (.set k v) (orcSt w orc) =
            ((saveObj w.cfg ((orcSt w orc).setObj h { (orcSt w orc).obj h with data := some (insert k v d0) }) h).1,
              .str "ok", none,
             (saveObj w.cfg ((orcSt w orc).setObj h { (orcSt w orc).obj h with data := some (insert k v d0) }) h).2.2) := by
          show ((hset w.cfg (orcSt w orc) h k v).1, hresStr (hset w.cfg (orcSt w orc) h k v).2.1, none,
            (hset w.cfg (orcSt w orc) h k v).2.2) = _
          rw [heq, ok]; rfl
        have hret := h_ret orc le h _ key
        rw [g1Step_h_ok g _ _ hret, g1H_set k v hexp' hret]
        exact h_api orc le h _ key hr ho1.frz hsk (by rw [ex]; exact hextra0) hgc (by rw [hgc]; exact r')
          (by rw [nc, List.append_nil, hgc]
              show Flight _ _ _ _ _ _ _ g.dead
              rw [hdead]; exact Flight.of_live hc l')
      | del k =>
        have heq := Loc.hdel_eq w.cfg (orcSt w orc) h k
        have hod : ({ (orcSt w orc).obj h with data := ((orcSt w orc).obj h).data.map (erase k) } : Sess).data =
            some (erase k d0) := by
          show ((orcSt w orc).obj h).data.map (erase k) = _
          rw [hd0]; rfl
        obtain ⟨ok, nc, ex, r', l'⟩ := save_flight hnf0 hk0.valid hlive0 hrest0
          { (orcSt w orc).obj h with data := ((orcSt w orc).obj h).data.map (erase k) } rfl hlive0.ref
          (d' := erase k d) (u' := u)
          (by rw [enc_data_some _ hod, normData_erase, normData_erase, hnd]) (by rw [enc_user]; exact husr)
        have key : hRun le w.cfg w.hasCookie h (.del k) (orcSt w orc) =
            ((saveObj w.cfg ((orcSt w orc).setObj h
                { (orcSt w orc).obj h with data := ((orcSt w orc).obj h).data.map (erase k) }) h).1,
              .str "ok", none,
             (saveObj w.cfg ((orcSt w orc).setObj h
                { (orcSt w orc).obj h with data := ((orcSt w orc).obj h).data.map (erase k) }) h).2.2) := by
          show ((hdel w.cfg (orcSt w orc) h k).1, hresStr (hdel w.cfg (orcSt w orc) h k).2.1, none,
            (hdel w.cfg (orcSt w orc) h k).2.2) = _
          rw [heq, ok]; rfl
        have hret := h_ret orc le h _ key
        rw [g1Step_h_ok g _ _ hret, g1H_del k hexp' hret]
        exact h_api orc le h _ key hr ho1.frz hsk (by rw [ex]; exact hextra0) hgc (by rw [hgc]; exact r')
          (by rw [nc, List.append_nil, hgc]
              show Flight _ _ _ _ _ _ _ g.dead
              rw [hdead]; exact Flight.of_live hc l')
      | getdel k =>
        have hgd : ((orcSt w orc).obj h).data.getD [] = d0 := by rw [hd0]; rfl
        cases hlk : lookup k (((orcSt w orc).obj h).data.getD []) with
        | none =>
          have heq := hgetdel_none (cfg := w.cfg) hlk
          have key : hRun le w.cfg w.hasCookie h (.getdel k) (orcSt w orc) = (orcSt w orc, .val .null, none, []) := by
            show ((hgetdel w.cfg (orcSt w orc) h k).1, hresStr (hgetdel w.cfg (orcSt w orc) h k).2.1, none,
              (hgetdel w.cfg (orcSt w orc) h k).2.2) = _
            rw [heq]; rfl
          have hret := h_ret orc le h _ key
          rw [g1Step_h_val g _ _ _ hret, g1H_getdel k hexp']
          have hne : normData w.cfg.codec (erase k d) = normData w.cfg.codec d := by
            rw [normData_erase, ← hnd, ← normData_erase, erase_of_lookup_none k d0 (by rw [← hgd]; exact hlk)]
          exact h_api orc le h _ key hr ho1.frz hsk hextra0 hgc (by rw [hgc]; exact hrest0.exp_insert _)
            (by rw [hgc]
                show Flight _ _ _ _ _ (w.respCookies ++ []) _ g.dead
                rw [hdead, List.append_nil]; exact Flight.of_live hc (hlive0.reexp hexp hne))
        | some v =>
          have heq := hgetdel_some (cfg := w.cfg) hlk
          have hod : ({ (orcSt w orc).obj h with data := ((orcSt w orc).obj h).data.map (erase k) } : Sess).data =
              some (erase k d0) := by
            show ((orcSt w orc).obj h).data.map (erase k) = _
            rw [hd0]; rfl
          obtain ⟨ok, nc, ex, r', l'⟩ := save_flight hnf0 hk0.valid hlive0 hrest0
            { (orcSt w orc).obj h with data := ((orcSt w orc).obj h).data.map (erase k) } rfl hlive0.ref
            (d' := erase k d) (u' := u)
            (by rw [enc_data_some _ hod, normData_erase, normData_erase, hnd]) (by rw [enc_user]; exact husr)
          have key : hRun le w.cfg w.hasCookie h (.getdel k) (orcSt w orc) =
              ((saveObj w.cfg ((orcSt w orc).setObj h
                  { (orcSt w orc).obj h with data := ((orcSt w orc).obj h).data.map (erase k) }) h).1,
                .val v, none,
               (saveObj w.cfg ((orcSt w orc).setObj h
                  { (orcSt w orc).obj h with data := ((orcSt w orc).obj h).data.map (erase k) }) h).2.2) := by
            show ((hgetdel w.cfg (orcSt w orc) h k).1, hresStr (hgetdel w.cfg (orcSt w orc) h k).2.1, none,
              (hgetdel w.cfg (orcSt w orc) h k).2.2) = _
            rw [heq]; rfl
          have hret := h_ret orc le h _ key
          rw [g1Step_h_val g _ _ _ hret, g1H_getdel k hexp']
          exact h_api orc le h _ key hr ho1.frz hsk (by rw [ex]; exact hextra0) hgc (by rw [hgc]; exact r')
            (by rw [nc, List.append_nil, hgc]
                show Flight _ _ _ _ _ _ _ g.dead
                rw [hdead]; exact Flight.of_live hc l')
      | logout =>
        cases hus : ((orcSt w orc).obj h).user with
        | none =>
          have heq := Loc.hlogout_none (cfg := w.cfg) hus
          have key : hRun le w.cfg w.hasCookie h .logout (orcSt w orc) = (orcSt w orc, .str "ok", none, []) := by
            show ((hlogout w.cfg (orcSt w orc) h).1, hresStr (hlogout w.cfg (orcSt w orc) h).2.1, none,
              (hlogout w.cfg (orcSt w orc) h).2.2) = _
            rw [heq]; rfl
          have hret := h_ret orc le h _ key
          rw [g1Step_h_ok g _ _ hret, g1H_logout hexp' hret]
          have hun : u = none := by rw [← husr, hus]; rfl
          subst hun
          exact h_api orc le h _ key hr ho1.frz hsk hextra0 hgc (by rw [hgc]; exact hrest0.exp_insert _)
            (by rw [hgc]
                show Flight _ _ _ _ _ (w.respCookies ++ []) _ g.dead
                rw [hdead, List.append_nil]; exact Flight.of_live hc (hlive0.reexp hexp rfl))
        | some usr =>
          have heq := Loc.hlogout_some (cfg := w.cfg) hus
          obtain ⟨ok, nc, ex, r', l'⟩ := save_flight hnf0 hk0.valid hlive0 hrest0
            { (orcSt w orc).obj h with user := none } rfl hlive0.ref
            (d' := d) (u' := none)
            (by rw [enc_data_some _ (show ({ (orcSt w orc).obj h with user := none } : Sess).data = some d0 from hd0), hnd])
            (by simp [enc_user])
          have key : hRun le w.cfg w.hasCookie h .logout (orcSt w orc) =
              ((saveObj w.cfg ((orcSt w orc).setObj h { (orcSt w orc).obj h with user := none }) h).1,
                .str "ok", none,
               (saveObj w.cfg ((orcSt w orc).setObj h { (orcSt w orc).obj h with user := none }) h).2.2) := by
            show ((hlogout w.cfg (orcSt w orc) h).1, hresStr (hlogout w.cfg (orcSt w orc) h).2.1, none,
              (hlogout w.cfg (orcSt w orc) h).2.2) = _
            rw [heq, ok]; rfl
          have hret := h_ret orc le h _ key
          rw [g1Step_h_ok g _ _ hret, g1H_logout hexp' hret]
          exact h_api orc le h _ key hr ho1.frz hsk (by rw [ex]; exact hextra0) hgc (by rw [hgc]; exact r')
            (by rw [nc, List.append_nil, hgc]
                show Flight _ _ _ _ _ _ _ g.dead
                rw [hdead]; exact Flight.of_live hc l')
      | regen =>
        have rd := regenerate_delta w.cfg (orcSt w orc) h hnf0 hinv0 hk0
        obtain ⟨a, b⟩ := regen_flight hinv0 hlive0 hrest0 rd
        have key : hRun le w.cfg w.hasCookie h .regen (orcSt w orc) =
            ((regenerate w.cfg (orcSt w orc) h).1, .str "ok", none, (regenerate w.cfg (orcSt w orc) h).2.2) := by
          show ((regenerate w.cfg (orcSt w orc) h).1, boolStr (regenerate w.cfg (orcSt w orc) h).2.1, none,
            (regenerate w.cfg (orcSt w orc) h).2.2) = _
          rw [rd.ok]; rfl
        rw [g1H_read g _ _ (by simp)]
        exact h_api orc le h _ key hr ho1.frz hsk (by rw [rd.fr.2.2.2.2]; exact hextra0) hgc a
          (by rw [rd.cookies, hdead]; exact Flight.of_live hc b)
      | destroy =>
        have heq := destroy_nf (orcSt w orc) h w.hasCookie hnf0
        obtain ⟨a, b⟩ := destroy_flight hlive0 hrest0 w.hasCookie
        have key : hRun le w.cfg w.hasCookie h .destroy (orcSt w orc) =
            (delSt (orcSt w orc) ((orcSt w orc).obj h).id, boolStr w.hasCookie, none,
              if w.hasCookie = true then [.del ((orcSt w orc).obj h).id, .delCookie] else [.del ((orcSt w orc).obj h).id]) := by
          show ((destroy (orcSt w orc) h w.hasCookie).1, boolStr (destroy (orcSt w orc) h w.hasCookie).2.1, none,
            (destroy (orcSt w orc) h w.hasCookie).2.2) = _
          rw [heq]
        have hret := h_ret orc le h _ key
        have hg : g1Step g (.h .destroy) (apiCall w orc (hRun le w.cfg w.hasCookie h .destroy) true).2 =
            { g with exp := erase g.client g.exp, dead := true } := by
          show (if (apiCall w orc (hRun le w.cfg w.hasCookie h .destroy) true).2.ret == some (.str "nosession") then g
            else g1H g .destroy _) = _
          rw [hret, boolStr_ne, g1H_destroy]; rfl
        rw [hg]
        have hcks : (if w.hasCookie = true then [Ev.del ((orcSt w orc).obj h).id, Ev.delCookie]
            else [Ev.del ((orcSt w orc).obj h).id]).filter isCookie = if w.hasCookie = true then [.delCookie] else [] := by
          cases w.hasCookie <;> rfl
        exact h_api orc le h _ key hr ho1.frz hsk hextra0 hgc (by rw [hgc]; exact a)
          (by rw [hgc, hcks]; exact Flight.of_dead hc b)
      | login uid excl =>
        have ld := hlogin_delta w.cfg le (orcSt w orc) h uid excl hnf0 hinv0 hk0 hlive0.ref
        obtain ⟨a, b⟩ := login_flight hinv0 hextra0 hlive0 hrest0 ld hexp
        have key : hRun le w.cfg w.hasCookie h (.login uid excl) (orcSt w orc) =
            ((hlogin w.cfg le (orcSt w orc) h uid excl).1, .str "ok", none, (hlogin w.cfg le (orcSt w orc) h uid excl).2.2) := by
          show ((hlogin w.cfg le (orcSt w orc) h uid excl).1, hresStr (hlogin w.cfg le (orcSt w orc) h uid excl).2.1, none,
            (hlogin w.cfg le (orcSt w orc) h uid excl).2.2) = _
          rw [ld.ok]; rfl
        have hret := h_ret orc le h _ key
        rw [g1Step_h_ok g _ _ hret, g1H_login uid excl hexp' hret]
        exact h_api orc le h _ key hr ho1.frz hsk (by rw [ld.extra]; exact hextra0) hgc (by rw [hgc]; exact a)
          (by rw [ld.cookies, hgc]
              show Flight _ _ _ _ _ _ _ g.dead
              rw [hdead]; exact Flight.of_live hc b)

/-! ## 4. all histories -/

/-- the world invariant of C01: I0 + I1 (`WInv`), I3 (`W3`) and the ownership invariant `Own1`. -/
structure WOwn (c : Codec) (w : World) (g : G1) : Prop where
  inv : WInv3 c w
  own : Own1 c w g

theorem op1OK_opOK {c : Codec} (le : ID → ID → Bool) {w : World} {g : G1} {op : Op} (hw : WInv c w) (h : Op1OK w g op) :
    OpOK le w op := by
  have hsole : w.inReq = false → ∀ uid, SoleObject le w uid := by
    intro hr uid x hx
    have := hw.cur_req x hx
    rw [hr] at this; cases this
  cases op with
  | codec _ => exact h.elim
  | logoutUser uid => exact Or.inr (hsole h uid)
  | refresh uid => exact Or.inr (hsole h uid)
  | _ => trivial

theorem step_wown {c : Codec} (le : ID → ID → Bool) (w : World) (g : G1) (orc : Orc) (op : Op) (h : WOwn c w g)
    (ho : OrcOK orc) (hop : Op1OK w g op) : WOwn c (w.step le orc op).1 (g1Step g op (w.step le orc op).2) :=
  ⟨step_inv3 le w orc op h.inv ho (op1OK_opOK le h.inv.inv hop), step_own1 le w g orc op h.inv.inv h.inv.w3 h.own ho hop⟩

theorem runHist_cons (le : ID → ID → Bool) (w : World) (o : Orc) (op : Op) (r : List (Orc × Op)) :
    runHist le w ((o, op) :: r) = runHist le (w.step le o op).1 r := rfl

theorem hist_wown {c : Codec} (le : ID → ID → Bool) (hist : List (Orc × Op)) (w : World) (g : G1) (h : WOwn c w g)
    (hok : Hist1OK le w g hist) : WOwn c (runHist le w hist) (runG1 le w g hist) := by
  induction hist generalizing w g with
  | nil => exact h
  | cons p r ih =>
    obtain ⟨o, op⟩ := p
    obtain ⟨h1, h2, h3⟩ := hok
    exact ih _ _ (step_wown le w g o op h h1 h2) h3

theorem rest_init (c : Codec) : Rest c ({} : State) [] [] none :=
  ⟨fun cl j h => (by cases h), fun cl cl' j h => (by cases h), fun cl j d u _ h => (by cases h),
   fun cl j _ h => (by cases h), fun t x r h => (by cases h)⟩

theorem init_wown (cfg : Cfg) (ck : CookieCfg) : WOwn cfg.codec { cfg := cfg, ck := ck } {} :=
  ⟨init_winv3 cfg ck, ⟨rfl, rfl, rfl, fun _ => ⟨rfl, rest_init _⟩, fun h => by cases h⟩⟩

theorem Hist1OK.take {le : ID → ID → Bool} {w : World} {g : G1} {hist : List (Orc × Op)} (h : Hist1OK le w g hist) (n : Nat) :
    Hist1OK le w g (hist.take n) := by
  induction hist generalizing w g n with
  | nil => simp [Hist1OK]
  | cons p r ih =>
    obtain ⟨o, op⟩ := p
    cases n with
    | zero => trivial
    | succ n => exact ⟨h.1, h.2.1, ih h.2.2 n⟩

/-- **the C01 invariant at the end of every C01 history** — from the empty world with any configuration and cookie
template and the empty ghost. -/
theorem own1_all_histories (le : ID → ID → Bool) (cfg : Cfg) (ck : CookieCfg) (hist : List (Orc × Op))
    (hok : Hist1OK le { cfg := cfg, ck := ck } {} hist) :
    WOwn cfg.codec (runHist le { cfg := cfg, ck := ck } hist) (runG1 le { cfg := cfg, ck := ck } {} hist) :=
  hist_wown le hist _ _ (init_wown cfg ck) hok

/-- … hence at every operation boundary. -/
theorem own1_every_boundary (le : ID → ID → Bool) (cfg : Cfg) (ck : CookieCfg) (hist : List (Orc × Op))
    (hok : Hist1OK le { cfg := cfg, ck := ck } {} hist) (n : Nat) :
    WOwn cfg.codec (runHist le { cfg := cfg, ck := ck } (hist.take n)) (runG1 le { cfg := cfg, ck := ck } {} (hist.take n)) :=
  own1_all_histories le cfg ck _ (hok.take n)

/-! ## 5. C01: the request returns the client's own session, and only its own -/

theorem reqOf1_jar (w : World) (client ip ua : String) (create : Bool) :
    (reqOf1 w client .jar ip ua create).cookie = lookup client w.jars := by
  cases hj : lookup client w.jars <;> simp [reqOf1, presOf, hj]

theorem apiCall_obj_nf (w : World) (orc : Orc) (run : State → State × RetV × Option String × List Ev) (b : Bool)
    (hfrz : w.freezeAt = none) (h : Nat) : (apiCall w orc run b).1.st.obj h = (run (orcSt w orc)).1.obj h := by
  rw [apiCall_fst]
  have hf : ∀ evs, apiFrz w evs = none := by intro evs; unfold apiFrz; rw [hfrz]
  generalize run { w.st with fails := orc.fails, picks := orc.picks } = r
  obtain ⟨s1, ret, msg, evs⟩ := r
  have hmid : apiMid w s1 evs = { s1 with fails := [], picks := [] } := by unfold apiMid; rw [hf]
  show (advance (apiMid w s1 evs) 1).1.obj h = s1.obj h
  rw [hmid]
  exact obj_of_heap_eq (advance_delta _ 1).2.2.2.2.1 h

/-- the id a cookie-following request presents: the content of the jar (`.jar`) or nothing (`.none`). -/
def presented (w : World) (client : String) (spec : CookieSpec) : Option ID := (presOf w client spec).map (·.1)

theorem presented_jar (w : World) (client : String) : presented w client .jar = lookup client w.jars := by
  unfold presented presOf
  cases lookup client w.jars <;> rfl

theorem presented_none (w : World) (client : String) : presented w client .none = none := rfl

/-- **C01 (exactness), for every request a C01 history admits** (`spec = .jar` or `.none`). A world satisfying the
invariants, no request in flight; client `client` sends a request presenting `presented w client spec` (fault-free).
If a session is returned, then
* if the client has an expectation `(d, u)` (it wrote through a session of its own before), did present a cookie
  and was not first sent the deletion cookie, the session holds exactly the data `d` (up to the codec's value
  conversion `normData`) and the user `u`;
* otherwise it is a NEW session: empty data map, no user, the id minted by this very request. -/
theorem c01_exact_spec {c : Codec} (le : ID → ID → Bool) (w : World) (g : G1) (orc : Orc) (client ip ua : String)
    (spec : CookieSpec) (create : Bool) (hw : WOwn c w g) (hnr : w.inReq = false) (hsp : spec.following = true)
    (ho : OrcOK orc)
    (hret : (w.step le orc (.req client spec ip ua create)).2.ret = some (.str "sess")) :
    ∃ h, (w.step le orc (.req client spec ip ua create)).1.cur = some h ∧
      (∀ d u, lookup client g.exp = some (d, u) → presented w client spec ≠ none →
        (w.step le orc (.req client spec ip ua create)).2.cookies.head? ≠ some .delCookie →
        (enc c ((w.step le orc (.req client spec ip ua create)).1.st.obj h)).data = some (normData c d) ∧
        ((w.step le orc (.req client spec ip ua create)).1.st.obj h).user.map (·.1) = u) ∧
      ((lookup client g.exp = none ∨ presented w client spec = none ∨
          (w.step le orc (.req client spec ip ua create)).2.cookies.head? = some .delCookie) →
        ((w.step le orc (.req client spec ip ua create)).1.st.obj h).data = some [] ∧
        ((w.step le orc (.req client spec ip ua create)).1.st.obj h).user = none ∧
        ((w.step le orc (.req client spec ip ua create)).1.st.obj h).id = .gen w.st.nextId) := by
  have hsk := hw.own.skip
  obtain ⟨hinv, _⟩ := hw.inv.inv.good hsk
  have hcd := hw.inv.inv.codec
  subst hcd
  have hnf0 : NoFail (orcSt w orc) := ho
  have hinv0 : Inv w.cfg.codec (orcSt w orc) := hinv.congr rfl rfl rfl rfl rfl
  obtain ⟨_, hrest⟩ := hw.own.out hnr
  have hrest0 : Rest w.cfg.codec (orcSt w orc) w.jars g.exp none := hrest.congr rfl rfl rfl
  rw [step_req le w orc client spec ip ua create hsk] at hret ⊢
  have hrc : (reqOf1 w client spec ip ua create).cookie = presented w client spec := rfl
  have hck := reqOf1_cookie w client spec ip ua create hsp
  generalize reqOf1 w client spec ip ua create = r at hret hrc hck ⊢
  have hS := start_flight w.cfg (orcSt w orc) r w.jars g.exp client hnf0 hinv0 hrest0 hck
  have hout := apiCall_out (reqWorld w orc client (presOf w client spec).isSome r) orc (startRun w.cfg r) true
  have hfrz : (reqWorld w orc client (presOf w client spec).isSome r).freezeAt = none := hw.own.frz
  have hsess : (start w.cfg (orcSt w orc) r).2.1.isSess = true := by
    have h1 : (apiCall (reqWorld w orc client (presOf w client spec).isSome r) orc (startRun w.cfg r) true).2.ret =
        some (.str "sess") := hret
    rw [hout.1] at h1
    have h2 : (some (resStr (start w.cfg (orcSt w orc) r).2.1).1 : Option RetV) = some (.str "sess") := h1
    rw [← ret_sess, h2]; decide
  obtain ⟨h, hres⟩ : ∃ h, (start w.cfg (orcSt w orc) r).2.1 = .sess h := by
    cases hx : (start w.cfg (orcSt w orc) r).2.1 with
    | sess h => exact ⟨h, rfl⟩
    | nil => rw [hx] at hsess; cases hsess
    | err m => rw [hx] at hsess; cases hsess
  have hcks : (apiCall (reqWorld w orc client (presOf w client spec).isSome r) orc (startRun w.cfg r) true).2.cookies =
      (start w.cfg (orcSt w orc) r).2.2.filter isCookie := hout.2.1
  have hobj : ∀ x, (apiCall (reqWorld w orc client (presOf w client spec).isSome r) orc (startRun w.cfg r) true).1.st.obj x =
      (start w.cfg (orcSt w orc) r).1.obj x := fun x => apiCall_obj_nf _ orc _ true hfrz x
  refine ⟨h, ?_, ?_, ?_⟩
  · show (apiCall (reqWorld w orc client (presOf w client spec).isSome r) orc (startRun w.cfg r) true).1.cur = some h
    rw [apiCall_cur]
    show curOf (start w.cfg (orcSt w orc) r).2.1 = some h
    rw [hres]; rfl
  · intro d u he hj hhead
    show (enc w.cfg.codec ((apiCall (reqWorld w orc client (presOf w client spec).isSome r) orc (startRun w.cfg r) true).1.st.obj h)).data = _ ∧
      ((apiCall (reqWorld w orc client (presOf w client spec).isSome r) orc (startRun w.cfg r) true).1.st.obj h).user.map (·.1) = u
    rw [hobj]
    have hhead' : (((start w.cfg (orcSt w orc) r).2.2.filter isCookie).head? == some Ev.delCookie) = false := by
      have : ((start w.cfg (orcSt w orc) r).2.2.filter isCookie).head? ≠ some Ev.delCookie := by rw [← hcks]; exact hhead
      simpa using this
    have hisn : r.cookie.isNone = false := by
      rw [hrc]
      cases hx : presented w client spec with
      | none => exact absurd hx hj
      | some j => rfl
    have hfl := hS.2
    rw [hsess, hisn, hhead', expReq_keep he] at hfl
    rcases hfl.some h (by rw [hres]; rfl) with ⟨_, hl⟩ | ⟨hd, _⟩
    · obtain ⟨d', u', he', hh⟩ := hl.exp
      rw [he] at he'
      simp only [Option.some.injEq, Prod.mk.injEq] at he'
      obtain ⟨rfl, rfl⟩ := he'
      exact holds_obj hl.coh hh
    · cases hd
  · intro hnew
    show ((apiCall (reqWorld w orc client (presOf w client spec).isSome r) orc (startRun w.cfg r) true).1.st.obj h).data = _ ∧
      ((apiCall (reqWorld w orc client (presOf w client spec).isSome r) orc (startRun w.cfg r) true).1.st.obj h).user = none ∧
      ((apiCall (reqWorld w orc client (presOf w client spec).isSome r) orc (startRun w.cfg r) true).1.st.obj h).id = _
    rw [hobj]
    have hn := start_new w.cfg (orcSt w orc) r w.jars g.exp client hnf0 hinv0 hrest0 hck h hres (by
      rcases hnew with h1 | h1 | h1
      · exact Or.inl h1
      · exact Or.inr (Or.inl (by rw [hrc]; exact h1))
      · exact Or.inr (Or.inr (by rw [← hcks]; exact h1)))
    exact ⟨hn.2.1, hn.2.2, hn.1⟩

/-- **C01 (exactness)** for a request with the cookie in the client's jar. -/
theorem c01_exact {c : Codec} (le : ID → ID → Bool) (w : World) (g : G1) (orc : Orc) (client ip ua : String)
    (create : Bool) (hw : WOwn c w g) (hnr : w.inReq = false) (ho : OrcOK orc)
    (hret : (w.step le orc (.req client .jar ip ua create)).2.ret = some (.str "sess")) :
    ∃ h, (w.step le orc (.req client .jar ip ua create)).1.cur = some h ∧
      (∀ d u, lookup client g.exp = some (d, u) → lookup client w.jars ≠ none →
        (w.step le orc (.req client .jar ip ua create)).2.cookies.head? ≠ some .delCookie →
        (enc c ((w.step le orc (.req client .jar ip ua create)).1.st.obj h)).data = some (normData c d) ∧
        ((w.step le orc (.req client .jar ip ua create)).1.st.obj h).user.map (·.1) = u) ∧
      ((lookup client g.exp = none ∨ lookup client w.jars = none ∨
          (w.step le orc (.req client .jar ip ua create)).2.cookies.head? = some .delCookie) →
        ((w.step le orc (.req client .jar ip ua create)).1.st.obj h).data = some [] ∧
        ((w.step le orc (.req client .jar ip ua create)).1.st.obj h).user = none ∧
        ((w.step le orc (.req client .jar ip ua create)).1.st.obj h).id = .gen w.st.nextId) := by
  have := c01_exact_spec le w g orc client ip ua .jar create hw hnr rfl ho hret
  rw [presented_jar] at this
  exact this

/-- a client that presents nothing (it lost its cookie) always gets a NEW session. -/
theorem c01_exact_lost {c : Codec} (le : ID → ID → Bool) (w : World) (g : G1) (orc : Orc) (client ip ua : String)
    (create : Bool) (hw : WOwn c w g) (hnr : w.inReq = false) (ho : OrcOK orc)
    (hret : (w.step le orc (.req client .none ip ua create)).2.ret = some (.str "sess")) :
    ∃ h, (w.step le orc (.req client .none ip ua create)).1.cur = some h ∧
      ((w.step le orc (.req client .none ip ua create)).1.st.obj h).data = some [] ∧
      ((w.step le orc (.req client .none ip ua create)).1.st.obj h).user = none ∧
      ((w.step le orc (.req client .none ip ua create)).1.st.obj h).id = .gen w.st.nextId := by
  obtain ⟨h, hc, _, hB⟩ := c01_exact_spec le w g orc client ip ua .none create hw hnr rfl ho hret
  exact ⟨h, hc, hB (Or.inr (Or.inl rfl))⟩

theorem lookup_expReq_ne (exp : Exp) (c cl : String) (a b d : Bool) (hne : cl ≠ c) :
    lookup cl (expReq exp c a b d) = lookup cl exp := by
  unfold expReq
  split
  · exact Loc.lookup_insert_ne (Ne.symm hne) _ _
  · rfl

/-- **C01 (isolation).** In the situation of `c01_exact`: whatever the OTHER clients have written through their
sessions — for every other client `cl'` holding a cookie `j'` (with whatever expectation `(d', u')`) —
the session served to `client` is not the session under `j'`; `cl'` keeps its cookie and its expectation, and the
record under `j'` still holds exactly `d'` and `u'`. Together with `c01_exact` (the served session holds the
requesting client's own expectation, or it is new and empty): no request returns a session containing data or a
user written through another client's session. -/
theorem c01_isolation {c : Codec} (le : ID → ID → Bool) (w : World) (g : G1) (orc : Orc) (client ip ua : String)
    (spec : CookieSpec) (create : Bool) (hw : WOwn c w g) (hnr : w.inReq = false) (hsp : spec.following = true) (ho : OrcOK orc)
    (h : Nat) (hcur : (w.step le orc (.req client spec ip ua create)).1.cur = some h)
    (cl' : String) (j' : ID) (hne : cl' ≠ client) (hj : lookup cl' w.jars = some j') :
    ((w.step le orc (.req client spec ip ua create)).1.st.obj h).id ≠ j' ∧
    lookup cl' (w.step le orc (.req client spec ip ua create)).1.jars = some j' ∧
    lookup cl' (g1Step g (.req client spec ip ua create) (w.step le orc (.req client spec ip ua create)).2).exp =
      lookup cl' g.exp ∧
    ∀ d' u', lookup cl' g.exp = some (d', u') →
      Holds (w.step le orc (.req client spec ip ua create)).1.st.store c j' d' u' := by
  have hpost := step_own1 le w g orc (.req client spec ip ua create) hw.inv.inv hw.inv.w3 hw.own ho ⟨hnr, hsp⟩
  have hsk := hw.own.skip
  have hexp : lookup cl' (g1Step g (.req client spec ip ua create) (w.step le orc (.req client spec ip ua create)).2).exp =
      lookup cl' g.exp := lookup_expReq_ne _ _ _ _ _ _ hne
  have hfields : (w.step le orc (.req client spec ip ua create)).1.inReq = true ∧
      (w.step le orc (.req client spec ip ua create)).1.client = client ∧
      (w.step le orc (.req client spec ip ua create)).1.jars = w.jars := by
    rw [step_req le w orc client spec ip ua create hsk]
    generalize reqOf1 w client spec ip ua create = r
    show (apiCall (reqWorld w orc client (presOf w client spec).isSome r) orc (startRun w.cfg r) true).1.inReq = true ∧
      (apiCall (reqWorld w orc client (presOf w client spec).isSome r) orc (startRun w.cfg r) true).1.client = client ∧
      (apiCall (reqWorld w orc client (presOf w client spec).isSome r) orc (startRun w.cfg r) true).1.jars = w.jars
    rw [apiCall_fst]
    exact ⟨rfl, rfl, rfl⟩
  obtain ⟨f1, f2, f3⟩ := hfields
  obtain ⟨_, hrest, hfl⟩ := hpost.inn f1
  rw [f2, f3] at hrest hfl
  have hdead : (g1Step g (.req client spec ip ua create) (w.step le orc (.req client spec ip ua create)).2).dead = false := rfl
  refine ⟨?_, by rw [f3]; exact hj, hexp, ?_⟩
  · rcases hfl.some h hcur with ⟨_, hl⟩ | ⟨hd, _⟩
    · exact fun e => hl.other cl' j' hne hj e.symm
    · rw [hdead] at hd; cases hd
  · intro d' u' he
    exact hrest.holds cl' j' d' u' (fun e => hne (Option.some.inj e).symm) hj (by rw [hexp]; exact he)

/-- **C01 (continuity).** A world satisfying the invariants, no request in flight; client `client` holds the cookie
`j` and has the expectation `(d, u)`; the object `j` resolves to (`More.PresObj`: the cached object, else the decoded
stored record) is still valid for this request (`validFor`: not idle beyond `sessionExpiry`, address and user agent
acceptable). Then the request (fault-free) returns a session, sends no deletion cookie, and the session holds exactly
`d` (up to the codec) and `u` — whatever happened in between: ID changes, evictions, idle purges, `PurgeSessions`,
cache loss, restarts, other clients' requests. -/
theorem c01_continuity {c : Codec} (le : ID → ID → Bool) (w : World) (g : G1) (orc : Orc) (client ip ua : String)
    (create : Bool) (hw : WOwn c w g) (hnr : w.inReq = false) (ho : OrcOK orc) (j : ID) (d : Data) (u : Option String)
    (hj : lookup client w.jars = some j) (he : lookup client g.exp = some (d, u)) (o : Sess)
    (hobj : More.PresObj w.st j o) (hv : validFor w.cfg w.st.now o { ip := ip, ua := ua } = true) :
    (w.step le orc (.req client .jar ip ua create)).2.ret = some (.str "sess") ∧
    (w.step le orc (.req client .jar ip ua create)).2.cookies.head? ≠ some .delCookie ∧
    ∃ h, (w.step le orc (.req client .jar ip ua create)).1.cur = some h ∧
      (enc c ((w.step le orc (.req client .jar ip ua create)).1.st.obj h)).data = some (normData c d) ∧
      ((w.step le orc (.req client .jar ip ua create)).1.st.obj h).user.map (·.1) = u := by
  have hsk := hw.own.skip
  obtain ⟨hinv, _⟩ := hw.inv.inv.good hsk
  have hcd := hw.inv.inv.codec
  have hnf0 : NoFail (orcSt w orc) := ho
  have hinv0 : Inv w.cfg.codec (orcSt w orc) := by rw [hcd]; exact hinv.congr rfl rfl rfl rfl rfl
  obtain ⟨_, hrest⟩ := hw.own.out hnr
  have hrest0 : Rest w.cfg.codec (orcSt w orc) w.jars g.exp none := by rw [hcd]; exact hrest.congr rfl rfl rfl
  have hrc : (reqOf1 w client .jar ip ua create).cookie = some j := by rw [reqOf1_jar, hj]
  have hlen : (reqOf1 w client .jar ip ua create).cookieLen = 24 := by
    rcases reqOf1_cookie w client .jar ip ua create rfl with h | ⟨_, h⟩
    · rw [hrc] at h; cases h
    · exact h
  have hS := start_continues w.cfg (orcSt w orc) (reqOf1 w client .jar ip ua create) w.jars g.exp client j o hnf0 hinv0
    hrest0 hrc hlen hj hobj hv
  have key : (w.step le orc (.req client .jar ip ua create)).2.ret = some (.str "sess") ∧
      (w.step le orc (.req client .jar ip ua create)).2.cookies.head? ≠ some .delCookie := by
    rw [step_req le w orc client .jar ip ua create hsk]
    generalize reqOf1 w client .jar ip ua create = r at hS
    have hout := apiCall_out (reqWorld w orc client (presOf w client .jar).isSome r) orc (startRun w.cfg r) true
    constructor
    · show (apiCall (reqWorld w orc client (presOf w client .jar).isSome r) orc (startRun w.cfg r) true).2.ret = _
      rw [hout.1]
      show (some (resStr (start w.cfg (orcSt w orc) r).2.1).1 : Option RetV) = _
      cases hx : (start w.cfg (orcSt w orc) r).2.1 with
      | sess h => rfl
      | nil => rw [hx] at hS; cases hS.1
      | err m => rw [hx] at hS; cases hS.1
    · show (apiCall (reqWorld w orc client (presOf w client .jar).isSome r) orc (startRun w.cfg r) true).2.cookies.head? ≠ _
      rw [hout.2.1]
      exact hS.2
  obtain ⟨h, hc, hA, _⟩ := c01_exact le w g orc client ip ua create hw hnr ho key.1
  exact ⟨key.1, key.2, h, hc, hA d u he (by rw [hj]; simp) key.2⟩

/-! ## 6. `Own`: the invariant in terms of the cookie each client holds / will hold -/

/-- the cookie client `cl` holds — for the client of the request in flight: the one it will hold once the
response cookies sent so far have been applied. -/
def cid (w : World) (cl : String) : Option ID :=
  if w.inReq = true ∧ cl = w.client then applyCookies w.ck (lookup cl w.jars) w.respCookies else lookup cl w.jars

/-- **Own.** (1) For every client with an expectation `(d, u)` holding the cookie `j`: the record under `j` is a
session proper (`ref = none` — the jar always holds the CURRENT id, no reference link has to be followed) with
exactly the data `d` (up to the codec) and the user `u`; and so is the cached object, if any. (2) Distinct clients
hold distinct, minted ids. -/
def Own (c : Codec) (w : World) (g : G1) : Prop :=
  (∀ cl j d u, cid w cl = some j → lookup cl g.exp = some (d, u) →
    Holds w.st.store c j d u ∧
    ∀ h, lookup j w.st.cache = some h →
      (enc c (w.st.obj h)).data = some (normData c d) ∧ (w.st.obj h).user.map (·.1) = u) ∧
  (∀ cl cl' j j', cl ≠ cl' → cid w cl = some j → cid w cl' = some j' →
    j ≠ j' ∧ Minted w.st.nextId j ∧ Minted w.st.nextId j')

theorem lookup_jarsAfter (jars : List (String × ID)) (client cl : String) (jar : Option ID) :
    lookup cl (jarsAfter jars client jar) = if client = cl then jar else lookup cl jars := by
  cases jar with
  | none => exact Loc.lookup_erase cl client jars
  | some id => exact Loc.lookup_insert cl client id jars

theorem lookup_expAfter_some (exp : Exp) (client cl : String) (jar : Option ID) (h : client = cl → jar ≠ none) :
    lookup cl (expAfter exp client jar) = lookup cl exp := by
  cases jar with
  | some id => rfl
  | none =>
    show lookup cl (erase client exp) = _
    rw [Loc.lookup_erase]
    split
    · rename_i e; exact absurd rfl (h e)
    · rfl

/-- everybody at rest after the (virtual) end of the request in flight. -/
theorem own1_rest {c : Codec} {w : World} {g : G1} (h : Own1 c w g) :
    ∃ jars exp, Rest c w.st jars exp none ∧ (∀ cl, lookup cl jars = cid w cl) ∧
      (∀ cl, cid w cl ≠ none → lookup cl exp = lookup cl g.exp) := by
  cases hr : w.inReq with
  | false =>
    refine ⟨w.jars, g.exp, (h.out hr).2, ?_, fun _ _ => rfl⟩
    intro cl; unfold cid; rw [hr]; simp
  | true =>
    obtain ⟨_, b, f⟩ := h.inn hr
    refine ⟨_, _, end_rest w.ck b f, ?_, ?_⟩
    · intro cl
      rw [lookup_jarsAfter]
      unfold cid
      rw [hr]
      by_cases e : w.client = cl
      · subst e; simp
      · have : ¬ (true = true ∧ cl = w.client) := fun x => e x.2.symm
        rw [if_neg e, if_neg this]
    · intro cl hne
      apply lookup_expAfter_some
      intro e
      subst e
      unfold cid at hne
      rw [hr] at hne
      simpa using hne

/-- **`Own` follows from the world invariant.** -/
theorem own_of_wown {c : Codec} {w : World} {g : G1} (h : WOwn c w g) : Own c w g := by
  obtain ⟨hinv, _⟩ := h.inv.inv.good h.own.skip
  obtain ⟨jars, exp, hr, hj, he⟩ := own1_rest h.own
  constructor
  · intro cl j d u hc hx
    have hjj : lookup cl jars = some j := by rw [hj]; exact hc
    have hxx : lookup cl exp = some (d, u) := by rw [he cl (by rw [hc]; simp)]; exact hx
    have hh := hr.holds cl j d u (by simp) hjj hxx
    refine ⟨hh, ?_⟩
    intro x hx'
    obtain ⟨r, hl, hce⟩ := hinv.coh j x (lookup_some_mem hx') (by simp)
    obtain ⟨r', hl', _, h2, h3⟩ := hh
    rw [hl] at hl'
    simp only [Option.some.injEq] at hl'
    subst hl'
    exact ⟨(ess_data hce).trans h2, by rw [← enc_user c]; exact (ess_user hce).trans h3⟩
  · intro cl cl' j j' hne hc hc'
    have h1 : lookup cl jars = some j := by rw [hj]; exact hc
    have h2 : lookup cl' jars = some j' := by rw [hj]; exact hc'
    refine ⟨?_, hr.minted cl j h1, hr.minted cl' j' h2⟩
    intro e
    subst e
    exact hne (hr.inj cl cl' j h1 h2)

/-- **C01 (invariant form), every C01 history**: `Own` holds at the end — hence, via `Hist1OK.take`, at every
operation boundary. -/
theorem own_all_histories (le : ID → ID → Bool) (cfg : Cfg) (ck : CookieCfg) (hist : List (Orc × Op))
    (hok : Hist1OK le { cfg := cfg, ck := ck } {} hist) :
    Own cfg.codec (runHist le { cfg := cfg, ck := ck } hist) (runG1 le { cfg := cfg, ck := ck } {} hist) :=
  own_of_wown (own1_all_histories le cfg ck hist hok)

theorem own_every_boundary (le : ID → ID → Bool) (cfg : Cfg) (ck : CookieCfg) (hist : List (Orc × Op))
    (hok : Hist1OK le { cfg := cfg, ck := ck } {} hist) (n : Nat) :
    Own cfg.codec (runHist le { cfg := cfg, ck := ck } (hist.take n)) (runG1 le { cfg := cfg, ck := ck } {} (hist.take n)) :=
  own_all_histories le cfg ck _ (hok.take n)

/-- the general-looking form: the cookie a client holds leads to its session through a chain of reference records
of length ZERO (`More.Leads` with no link). -/
theorem own_leads {c : Codec} {w : World} {g : G1} (h : WOwn c w g) (cl : String) (j : ID) (d : Data) (u : Option String)
    (hc : cid w cl = some j) (he : lookup cl g.exp = some (d, u)) : More.Leads w.st j [] j := by
  obtain ⟨⟨r, hl, hf, _⟩, hcache⟩ := (own_of_wown h).1 cl j d u hc he
  obtain ⟨hinv, _⟩ := h.inv.inv.good h.own.skip
  refine ⟨rfl, ?_⟩
  cases hx : lookup j w.st.cache with
  | none => exact Or.inr ⟨hx, r, hl, hf⟩
  | some x =>
    left
    refine ⟨x, hx, ?_⟩
    obtain ⟨r', hl', hce⟩ := hinv.coh j x (lookup_some_mem hx) (by simp)
    rw [hl] at hl'
    simp only [Option.some.injEq] at hl'
    subst hl'
    rw [← enc_ref c, ess_ref hce]; exact hf

/-! ## 6b. C08 at history level: after `LogOut(uid)` no request returns a session of `uid` -/

/-- no expectation carries the user `uid`. -/
def NoU (uid : String) (e : Exp) : Prop := ∀ cl d u, lookup cl e = some (d, u) → u ≠ some uid

theorem NoU.insert {uid : String} {e : Exp} (h : NoU uid e) (c : String) (d : Data) (u : Option String) (hu : u ≠ some uid) :
    NoU uid (insert c (d, u) e) := by
  intro cl d' u' hl
  rw [Loc.lookup_insert] at hl
  split at hl
  · simp only [Option.some.injEq, Prod.mk.injEq] at hl; rw [← hl.2]; exact hu
  · exact h cl d' u' hl

theorem NoU.erase {uid : String} {e : Exp} (h : NoU uid e) (c : String) : NoU uid (erase c e) := by
  intro cl d' u' hl
  rw [Loc.lookup_erase] at hl
  split at hl
  · cases hl
  · exact h cl d' u' hl

theorem NoU.dropU {uid : String} {e : Exp} (h : NoU uid e) (uid' : String) : NoU uid (dropU uid' e) := by
  intro cl d' u' hl
  unfold Sx.Glob.dropU at hl
  rw [lookup_mapU] at hl
  cases hx : lookup cl e with
  | none => rw [hx] at hl; cases hl
  | some p =>
    obtain ⟨d0, u0⟩ := p
    rw [hx] at hl
    simp only [Option.map_some, Option.some.injEq, Prod.mk.injEq] at hl
    rw [← hl.2]
    unfold dropUo
    split
    · simp
    · exact h cl d0 u0 hx

theorem noU_dropU (uid : String) (e : Exp) : NoU uid (dropU uid e) := by
  intro cl d' u' hl
  unfold dropU at hl
  rw [lookup_mapU] at hl
  cases hx : lookup cl e with
  | none => rw [hx] at hl; cases hl
  | some p =>
    obtain ⟨d0, u0⟩ := p
    rw [hx] at hl
    simp only [Option.map_some, Option.some.injEq, Prod.mk.injEq] at hl
    rw [← hl.2]
    unfold dropUo
    split
    · simp
    · rename_i hne; exact hne

/-- **ghost lemma**: every operation but a log-in of `uid` keeps "no expectation carries `uid`" — whatever it
printed. -/
theorem noU_step (uid : String) (g : G1) (op : Op) (out : Out) (hno : ∀ e, op ≠ .h (.login uid e)) (h : NoU uid g.exp) :
    NoU uid (g1Step g op out).exp := by
  cases op with
  | req c spec ip ua create =>
    show NoU uid (expReq g.exp c _ _ _)
    unfold expReq
    split
    · exact h.insert c [] none (by simp)
    · exact h
  | endReq =>
    show NoU uid (match out.jar with | some (c, jar) => ({ g with exp := expAfter g.exp c jar, dead := false } : G1) | none => g).exp
    cases out.jar with
    | none => exact h
    | some p =>
      obtain ⟨c, jar⟩ := p
      cases jar with
      | none => exact h.erase c
      | some id => exact h
  | logoutUser uid' =>
    show NoU uid (if isOk out then ({ g with exp := dropU uid' g.exp } : G1) else g).exp
    split
    · exact h.dropU uid'
    · exact h
  | h hop =>
    show NoU uid (if out.ret == some (.str "nosession") then g else g1H g hop out).exp
    split
    · exact h
    · unfold g1H
      cases hx : lookup g.client g.exp with
      | none => cases hop <;> first | exact h | exact h.erase _
      | some p =>
        obtain ⟨d, u⟩ := p
        have hu := h g.client d u hx
        cases hop with
        | destroy => exact h.erase _
        | set k v => simp only []; split <;> first | exact h.insert _ _ _ hu | exact h
        | del k => simp only []; split <;> first | exact h.insert _ _ _ hu | exact h
        | getdel k => exact h.insert _ _ _ hu
        | logout => simp only []; split <;> first | exact h.insert _ _ _ (by simp) | exact h
        | login uid' excl =>
          simp only []
          split
          · have hne : uid' ≠ uid := fun e => hno excl (by rw [e])
            cases excl
            · exact h.insert _ _ _ (by simp [hne])
            · exact (h.dropU uid').insert _ _ _ (by simp [hne])
          · exact h
        | get k => exact h
        | regen => exact h
        | expired => exact h
        | lastaccess => exact h
        | user => exact h
  | _ => exact h

theorem runG1_append (le : ID → ID → Bool) (w : World) (g : G1) (a b : List (Orc × Op)) :
    runG1 le w g (a ++ b) = runG1 le (runHist le w a) (runG1 le w g a) b := by
  induction a generalizing w g with
  | nil => rfl
  | cons p r ih => obtain ⟨o, op⟩ := p; exact ih _ _

theorem hist1OK_append (le : ID → ID → Bool) (w : World) (g : G1) (a b : List (Orc × Op)) :
    Hist1OK le w g (a ++ b) ↔ Hist1OK le w g a ∧ Hist1OK le (runHist le w a) (runG1 le w g a) b := by
  induction a generalizing w g with
  | nil => simp [Hist1OK, runHist, runG1]
  | cons p r ih =>
    obtain ⟨o, op⟩ := p
    show (OrcOK o ∧ Op1OK w g op ∧ Hist1OK le _ _ (r ++ b)) ↔ (OrcOK o ∧ Op1OK w g op ∧ Hist1OK le _ _ r) ∧ _
    rw [ih]
    constructor
    · rintro ⟨h1, h2, h3, h4⟩; exact ⟨⟨h1, h2, h3⟩, h4⟩
    · rintro ⟨⟨h1, h2, h3⟩, h4⟩; exact ⟨h1, h2, h3, h4⟩

/-- "no expectation carries `uid`" along a history without a log-in of `uid`. -/
theorem noU_hist (le : ID → ID → Bool) (uid : String) (hist : List (Orc × Op)) (w : World) (g : G1)
    (hno : ∀ p ∈ hist, ∀ e, p.2 ≠ .h (.login uid e)) (h : NoU uid g.exp) : NoU uid (runG1 le w g hist).exp := by
  induction hist generalizing w g with
  | nil => exact h
  | cons p r ih =>
    obtain ⟨o, op⟩ := p
    exact ih _ _ (fun q hq => hno q (List.mem_cons_of_mem _ hq))
      (noU_step uid g op _ (hno (o, op) List.mem_cons_self) h)

/-- the ghost update of a `LogOut(uid)` between requests: it succeeds, so every expectation loses `uid`. -/
theorem g1Step_logoutUser {c : Codec} (le : ID → ID → Bool) (w : World) (g : G1) (orc : Orc) (uid : String)
    (hw : WOwn c w g) (ho : OrcOK orc) :
    (g1Step g (.logoutUser uid) (w.step le orc (.logoutUser uid)).2).exp = dropU uid g.exp := by
  have hsk := hw.own.skip
  obtain ⟨hinv, _⟩ := hw.inv.inv.good hsk
  have hcd := hw.inv.inv.codec
  have hnf0 : NoFail (orcSt w orc) := ho
  have hinv0 : Inv w.cfg.codec (orcSt w orc) := by rw [hcd]; exact hinv.congr rfl rfl rfl rfl rfl
  have e : w.step le orc (.logoutUser uid) =
      finish (apiCall w orc (fun s => ((logoutUser w.cfg le s uid).1, boolStr (logoutUser w.cfg le s uid).2.1, none,
          (logoutUser w.cfg le s uid).2.2)) false).1
        (apiCall w orc (fun s => ((logoutUser w.cfg le s uid).1, boolStr (logoutUser w.cfg le s uid).2.1, none,
          (logoutUser w.cfg le s uid).2.2)) false).2 := by
    unfold World.step; rw [hsk]; rfl
  rw [e]
  have D := logoutUser_delta w.cfg le (orcSt w orc) uid hnf0 hinv0
  show (if isOk _ then ({ g with exp := dropU uid g.exp } : G1) else g).exp = _
  unfold isOk
  rw [finish_snd_ret, (apiCall_out w orc _ false).1]
  show (if ((some (boolStr (logoutUser w.cfg le (orcSt w orc) uid).2.1) : Option RetV) == some (.str "ok")) = true
    then ({ g with exp := dropU uid g.exp } : G1) else g).exp = _
  rw [D.ok]; rfl

/-- **C08 at history level.** In a C01 history: after a `LogOut(uid)` (between requests; fault-free it succeeds),
as long as no handler logs `uid` in again, no request of a cookie-following client returns a session whose user
is `uid`. -/
theorem c08_after_logoutUser (le : ID → ID → Bool) (cfg : Cfg) (ck : CookieCfg) (pre post : List (Orc × Op))
    (o o' : Orc) (uid client ip ua : String) (create : Bool)
    (hok : Hist1OK le { cfg := cfg, ck := ck } {}
      (pre ++ [(o, .logoutUser uid)] ++ post ++ [(o', .req client .jar ip ua create)]))
    (hno : ∀ p ∈ post, ∀ e, p.2 ≠ .h (.login uid e))
    (hret : ((runHist le { cfg := cfg, ck := ck } (pre ++ [(o, .logoutUser uid)] ++ post)).step le o'
      (.req client .jar ip ua create)).2.ret = some (.str "sess")) :
    ∃ h, ((runHist le { cfg := cfg, ck := ck } (pre ++ [(o, .logoutUser uid)] ++ post)).step le o'
        (.req client .jar ip ua create)).1.cur = some h ∧
      (((runHist le { cfg := cfg, ck := ck } (pre ++ [(o, .logoutUser uid)] ++ post)).step le o'
        (.req client .jar ip ua create)).1.st.obj h).user.map (·.1) ≠ some uid := by
  obtain ⟨hok1, hok2⟩ := (hist1OK_append le _ _ _ _).1 hok
  obtain ⟨hok3, hok4⟩ := (hist1OK_append le _ _ _ _).1 hok1
  obtain ⟨hok5, hok6⟩ := (hist1OK_append le _ _ _ _).1 hok3
  have hW := own1_all_histories le cfg ck _ hok1
  have hWpre := own1_all_histories le cfg ck _ hok5
  -- the ghost after the log-out carries no `uid`
  have hG1 : NoU uid (runG1 le { cfg := cfg, ck := ck } {} (pre ++ [(o, .logoutUser uid)])).exp := by
    rw [runG1_append]
    show NoU uid (g1Step _ (.logoutUser uid) _).exp
    rw [g1Step_logoutUser le _ _ o uid hWpre hok6.1]
    exact noU_dropU uid _
  have hG : NoU uid (runG1 le { cfg := cfg, ck := ck } {} (pre ++ [(o, .logoutUser uid)] ++ post)).exp := by
    rw [runG1_append]
    exact noU_hist le uid post _ _ hno hG1
  have hnr : (runHist le { cfg := cfg, ck := ck } (pre ++ [(o, .logoutUser uid)] ++ post)).inReq = false := hok2.2.1.1
  obtain ⟨h, hc, hA, hB⟩ := c01_exact le _ _ o' client ip ua create hW hnr hok2.1 hret
  refine ⟨h, hc, ?_⟩
  cases he : lookup client (runG1 le { cfg := cfg, ck := ck } {} (pre ++ [(o, .logoutUser uid)] ++ post)).exp with
  | none => rw [(hB (Or.inl he)).2.1]; simp
  | some p =>
    obtain ⟨d, u⟩ := p
    by_cases h1 : lookup client (runHist le { cfg := cfg, ck := ck } (pre ++ [(o, .logoutUser uid)] ++ post)).jars = none
    · rw [(hB (Or.inr (Or.inl h1))).2.1]; simp
    · by_cases h2 : ((runHist le { cfg := cfg, ck := ck } (pre ++ [(o, .logoutUser uid)] ++ post)).step le o'
          (.req client .jar ip ua create)).2.cookies.head? = some .delCookie
      · rw [(hB (Or.inr (Or.inr h2))).2.1]; simp
      · rw [(hA d u he h1 h2).2]
        exact hG client d u he

/-! ## 7. a Boolean checker for `Hist1OK`, and non-vacuity -/

def op1OKb (w : World) (g : G1) : Op → Bool
  | .req _ spec _ _ _ => !w.inReq && spec.following
  | .h _ => !g.dead
  | .logoutUser _ => !w.inReq
  | .refresh _ => !w.inReq
  | .codec _ => false
  | .crashinside _ => false
  | .stale _ _ => false
  | _ => true

def hist1OKb (le : ID → ID → Bool) (w : World) (g : G1) : List (Orc × Op) → Bool
  | [] => true
  | (o, op) :: r => orcOKb o && op1OKb w g op && hist1OKb le (w.step le o op).1 (g1Step g op (w.step le o op).2) r

theorem op1OK_of_b {w : World} {g : G1} {op : Op} (h : op1OKb w g op = true) : Op1OK w g op := by
  cases op <;> simp_all [op1OKb, Op1OK]

theorem hist1OK_of_b (le : ID → ID → Bool) (hist : List (Orc × Op)) (w : World) (g : G1)
    (h : hist1OKb le w g hist = true) : Hist1OK le w g hist := by
  induction hist generalizing w g with
  | nil => trivial
  | cons p r ih =>
    obtain ⟨o, op⟩ := p
    simp only [hist1OKb, Bool.and_eq_true] at h
    exact ⟨orcOK_of_b h.1.1, op1OK_of_b h.1.2, ih _ _ h.2⟩

/-- world, ghost and outputs of a run. -/
def runAll (le : ID → ID → Bool) : World → G1 → List (Orc × Op) → World × G1 × List Out
  | w, g, [] => (w, g, [])
  | w, g, (o, op) :: r =>
    ((runAll le (w.step le o op).1 (g1Step g op (w.step le o op).2) r).1,
     (runAll le (w.step le o op).1 (g1Step g op (w.step le o op).2) r).2.1,
     (w.step le o op).2 :: (runAll le (w.step le o op).1 (g1Step g op (w.step le o op).2) r).2.2)

/-- what a printed session holds, as an expectation: data (as the codec keeps it) and user id. -/
def sessView (c : Codec) (o : Out) : Option (Option Data × Option String) :=
  o.sess.map (fun s => ((enc c s.2).data, s.2.user.map (·.1)))

def expView (c : Codec) (g : G1) (cl : String) : Option (Option Data × Option String) :=
  (lookup cl g.exp).map (fun p => (some (normData c p.1), p.2))

/-- along a run: every request that returns a session returns what the ghost (after the step) expects for its client. -/
def reqsMatchB (le : ID → ID → Bool) (c : Codec) : World → G1 → List (Orc × Op) → Bool
  | _, _, [] => true
  | w, g, (o, op) :: r =>
    (match op with
     | .req cl _ _ _ _ =>
       (w.step le o op).2.ret != some (.str "sess") ||
         sessView c (w.step le o op).2 == expView c (g1Step g op (w.step le o op).2) cl
     | _ => true) &&
    reqsMatchB le c (w.step le o op).1 (g1Step g op (w.step le o op).2) r

/-- a Boolean version of `Own` for the listed clients. -/
def ownB (c : Codec) (w : World) (g : G1) (clients : List String) : Bool :=
  clients.all (fun cl =>
    match cid w cl, lookup cl g.exp with
    | some j, some (d, u) =>
      (match lookup j w.st.store with
       | some r => r.ref == none && r.data == some (normData c d) && r.user == u
       | none => false) &&
      (match lookup j w.st.cache with
       | some h => (enc c (w.st.obj h)).data == some (normData c d) && (w.st.obj h).user.map (·.1) == u
       | none => true)
    | _, _ => true) &&
  clients.all (fun cl => clients.all (fun cl' => cl == cl' || cid w cl == none || cid w cl != cid w cl'))

def rq (c : String) (create : Bool := true) : Orc × Op := ({}, .req c .jar "1.2.3.4:5" "ua" create)

/-- three clients; rotation (automatic, `RegenerateID`, `LogIn`), eviction (`maxCache` 2, then 0), `PurgeSessions`,
cache loss, a crash, a wait beyond the grace period, an expiry (deletion cookie + new session), an exclusive
log-in that logs another client out, `LogOut(uid)`, `RefreshUser`, `Destroy`. -/
def ownScript : List (Orc × Op) :=
  [({}, .cfg "maxCache" 2),
   rq "a", ({}, .h (.set "k" (.str "a1"))), ({}, .h (.set "n" (.int 1))), ({}, .endReq),
   rq "b", ({}, .h (.set "k" (.str "b1"))), ({}, .h (.login "bob" false)), ({}, .endReq),
   rq "c", ({}, .h (.set "k" (.str "c1"))), ({}, .h (.login "bob" false)), ({}, .endReq),     -- evicts
   ({}, .cfg "idExpiry" 0),
   rq "a", ({}, .endReq),                                                                    -- automatic rotation
   ({}, .cfg "idExpiry" 3600000000000),
   rq "b", ({}, .h .regen), ({}, .h (.del "k")), ({}, .endReq),
   ({}, .purge), ({}, .dropcache),
   rq "c", ({}, .h (.getdel "k")), ({}, .h (.getdel "nokey")), ({}, .h (.set "z" .null)), ({}, .endReq),
   ({}, .crash),
   rq "a" false, ({}, .h (.get "k")), ({}, .h (.login "bob" true)), ({}, .endReq),           -- logs b and c out
   ({}, .wait 400000000000),                                                                 -- beyond the grace period
   ({}, .cfg "maxCache" 0),
   rq "a", ({}, .h (.set "m" (.bool true))), ({}, .endReq),
   rq "b", ({}, .h .logout), ({}, .h (.set "q" (.int 7))), ({}, .endReq),
   ({}, .cfg "sessionExpiry" 100000000000),
   rq "c", ({}, .endReq),                                                                    -- c's session has expired
   ({}, .cfg "sessionExpiry" 9223372036854775807),
   rq "c", ({}, .h (.set "k" (.str "c2"))), ({}, .h (.login "carl" false)), ({}, .endReq),
   ({}, .logoutUser "bob"),
   ({}, .refresh "carl"),
   rq "b", ({}, .h .destroy), ({}, .endReq),
   rq "b", ({}, .endReq),
   rq "a" false, ({}, .endReq), rq "b" false, ({}, .endReq), rq "c" false, ({}, .endReq)]

-- the script is a C01 history …
#guard hist1OKb idLe {} {} ownScript
-- … every request that returns a session returns exactly what the ghost expects for its client …
#guard reqsMatchB idLe .gob {} {} ownScript
-- … `Own` (Boolean version) holds at every operation boundary …
#guard (List.range (ownScript.length + 1)).all (fun n =>
  ownB .gob (runAll idLe {} {} (ownScript.take n)).1 (runAll idLe {} {} (ownScript.take n)).2.1 ["a", "b", "c"])
-- … and this is what the ghost ends with, and what the last three requests returned
#guard (runAll idLe {} {} ownScript).2.1.exp ==
  [("b", [], none), ("c", [("k", .str "c2")], some "carl"),
   ("a", [("m", .bool true), ("n", .int 1), ("k", .str "a1")], none)]
#guard ((runAll idLe {} {} ownScript).2.2.drop (ownScript.length - 6)).map (sessView .gob) ==
  [some (some [("m", .bool true), ("n", .int 1), ("k", .str "a1")], none), none,
   some (some [], none), none, some (some [("k", .str "c2")], some "carl"), none]

-- the expiry gave a deletion cookie, then a new session
#guard (((runAll idLe {} {} ownScript).2.2)[43]?).map (·.cookies) == some [.delCookie, .setCookie (.gen 8)]

/-- JSON: an integer comes back as a float, so the session returned differs from what was written — and equals it
up to `normData`. -/
def jsonScript : List (Orc × Op) :=
  [rq "a", ({}, .h (.set "n" (.int 5))), ({}, .endReq), ({}, .dropcache), rq "a" false, ({}, .endReq)]

#guard hist1OKb idLe { cfg := { codec := .json } } {} jsonScript
#guard reqsMatchB idLe .json { cfg := { codec := .json } } {} jsonScript
#guard (runAll idLe { cfg := { codec := .json } } {} jsonScript).2.1.exp == [("a", [("n", .int 5)], none)]
#guard (((runAll idLe { cfg := { codec := .json } } {} jsonScript).2.2)[4]?).map (fun o => o.sess.map (·.2.data)) ==
  some (some (some [("n", .flt 5)]))

/-! ### the hypotheses are needed -/

/-- **`WellBracketed` is needed**: a `.req` inside a request loses the pending response (the cookie of the first
session never reaches the jar), so the client presents nothing and gets a new, empty session although it has
written `k`. -/
def lostResponseScript : List (Orc × Op) := [rq "a", ({}, .h (.set "k" (.str "v"))), rq "a"]

#guard hist1OKb idLe {} {} (lostResponseScript.take 2) && !hist1OKb idLe {} {} lostResponseScript
#guard (runAll idLe {} {} (lostResponseScript.take 2)).2.1.exp == [("a", [("k", .str "v")], none)]
#guard ((runAll idLe {} {} lostResponseScript).2.2[2]?).map (fun o => (o.input, sessView .gob o)) ==
  some (some none, some (some [], none))

/-- **`NoUseAfterDestroy` is needed**: the request came without cookie, so `Destroy` sends no deletion cookie; a
`Set` on the destroyed object writes the record back under the destroyed id, which the client still gets in its
jar. The next request finds it: a session with data, where the ghost (`Destroy` = the session is gone) expects a new
one. -/
def useAfterDestroyScript : List (Orc × Op) :=
  [rq "a", ({}, .h (.set "k" (.str "v"))), ({}, .h .destroy), ({}, .h (.set "k2" (.str "w"))), ({}, .endReq), rq "a" false]

#guard hist1OKb idLe {} {} (useAfterDestroyScript.take 3) && !hist1OKb idLe {} {} (useAfterDestroyScript.take 4)
#guard !reqsMatchB idLe .gob {} {} useAfterDestroyScript
#guard ((runAll idLe {} {} useAfterDestroyScript).2.2[5]?).map (sessView .gob) ==
  some (some (some [("k2", .str "w"), ("k", .str "v")], none))
#guard (runAll idLe {} {} useAfterDestroyScript).2.1.exp == [("a", [], none)]

/-- **"no stale entries in the user index" is needed**: with the stale entry `("bob", gen 1)`, `LogOut("bob")`
also removes the user of a's session — which belongs to alice. -/
def staleScript : List (Orc × Op) :=
  [rq "a", ({}, .h (.login "alice" false)), ({}, .endReq), ({}, .stale "bob" (.gen 1)), ({}, .logoutUser "bob"),
   rq "a" false]

#guard hist1OKb idLe {} {} (staleScript.take 3) && !hist1OKb idLe {} {} (staleScript.take 4)
#guard (runAll idLe {} {} staleScript).2.1.exp == [("a", [], some "alice")]
#guard ((runAll idLe {} {} staleScript).2.2[5]?).map (sessView .gob) == some (some (some [], none))

/-- **only `.jar` / `.none` requests**: a value of the wrong length is ignored WITHOUT a deletion cookie — the client
gets a new session and a new cookie although it "presented" one (it does not follow its cookies). -/
def wrongLenScript : List (Orc × Op) :=
  [rq "a", ({}, .h (.set "k" (.str "v"))), ({}, .endReq), ({}, .req "a" (.val (.gen 0) 5) "" "" true)]

#guard !hist1OKb idLe {} {} wrongLenScript
#guard ((runAll idLe {} {} wrongLenScript).2.2[3]?).map (fun o => (o.input, o.cookies, sessView .gob o)) ==
  some (some (some (.gen 0)), [.setCookie (.gen 1)], some (some [], none))

/-- a cookie template the browser drops at once (`CookieCfg.dead`): the client never holds a cookie, so every request
gets a new session; the ghost forgets the expectation at `endReq` (`expAfter`) — and again at the next request,
which presents nothing (`expReq`): either rule alone would do. -/
def deadCookieScript : List (Orc × Op) :=
  [({}, .cookiecfg { maxAge := -1 }), rq "a", ({}, .h (.set "k" (.str "v"))), ({}, .endReq), rq "a", ({}, .endReq)]

#guard hist1OKb idLe {} {} deadCookieScript && reqsMatchB idLe .gob {} {} deadCookieScript
#guard (runAll idLe {} {} (deadCookieScript.take 3)).2.1.exp == [("a", [("k", .str "v")], none)] &&
  (runAll idLe {} {} (deadCookieScript.take 4)).2.1.exp == [] && (runAll idLe {} {} (deadCookieScript.take 4)).1.jars == []
#guard ((runAll idLe {} {} deadCookieScript).2.2[4]?).map (fun o => (o.input, sessView .gob o)) ==
  some (some none, some (some [], none))

end Sx.Glob

namespace Sx.Glob
/-! ### `c08_after_logoutUser` is not vacuous -/

/-- b is logged in as "bob"; `LogOut("bob")`; a is busy; b comes back: no user. -/
def c08Pre : List (Orc × Op) := [rq "a", ({}, .endReq), rq "b", ({}, .h (.login "bob" false)), ({}, .endReq)]
def c08Mid : List (Orc × Op) := [({}, .logoutUser "bob")]
def c08Post : List (Orc × Op) := [rq "a", ({}, .h (.login "alice" true)), ({}, .h (.set "k" (.int 1))), ({}, .endReq), ({}, .purge)]

#guard hist1OKb idLe {} {} (c08Pre ++ c08Mid ++ c08Post ++ [rq "b" false])
#guard c08Post.all (fun p => match p.2 with | .h (.login u _) => u != "bob" | _ => true)
#guard ((runAll idLe {} {} c08Pre).2.1.exp == [("b", [], some "bob"), ("a", [], none)])
#guard (((runAll idLe {} {} (c08Pre ++ c08Mid ++ c08Post ++ [rq "b" false])).2.2.getLast?).map
  (fun o => (o.ret, sessView .gob o))) == some (some (.str "sess"), some (some [], none))

end Sx.Glob
