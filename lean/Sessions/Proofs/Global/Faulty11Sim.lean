import Sessions.Proofs.Global.Delta
/-!
# A run that shows no failure event is the fault-free run

Every persistence call that fails emits a failure event (`isFailEv`). Hence a run of any model function
whose events contain no failure event consumed only `false` entries of the fault oracle, and it is — result,
events and final state up to the oracle — the run on the emptied oracle (`sim_<fn>`). At the world level
(`step_eq_clear`): an operation whose output says `faulted = 0` is the operation of the fault-free oracle,
so it keeps the world invariant (`step_inv_of_not_faulted`).
-/
namespace Sx.Glob
open Sx.Loc

/-- the state with the fault oracle emptied (an exhausted oracle never fails) -/
def clearF (s : State) : State := { s with fails := [] }
/-- no event of the list reports a failed persistence call -/
def NoFailEv (evs : List Ev) : Prop := ∀ e ∈ evs, isFailEv e = false

/-! ## 1. basics -/

@[simp] theorem clearF_now (s : State) : (clearF s).now = s.now := rfl
@[simp] theorem clearF_heap (s : State) : (clearF s).heap = s.heap := rfl
@[simp] theorem clearF_cache (s : State) : (clearF s).cache = s.cache := rfl
@[simp] theorem clearF_store (s : State) : (clearF s).store = s.store := rfl
@[simp] theorem clearF_timers (s : State) : (clearF s).timers = s.timers := rfl
@[simp] theorem clearF_nextId (s : State) : (clearF s).nextId = s.nextId := rfl
@[simp] theorem clearF_vers (s : State) : (clearF s).vers = s.vers := rfl
@[simp] theorem clearF_extra (s : State) : (clearF s).extra = s.extra := rfl
@[simp] theorem clearF_picks (s : State) : (clearF s).picks = s.picks := rfl
@[simp] theorem clearF_fails (s : State) : (clearF s).fails = [] := rfl
@[simp] theorem clearF_obj (s : State) (h : Nat) : (clearF s).obj h = s.obj h := rfl
@[simp] theorem clearF_ver (s : State) (uid : String) : (clearF s).ver uid = s.ver uid := rfl
theorem clearF_ver' (s : State) : (clearF s).ver = s.ver := rfl
@[simp] theorem clearF_clearF (s : State) : clearF (clearF s) = clearF s := rfl
theorem clearF_headD (s : State) : (clearF s).fails.headD false = false := rfl

theorem clearF_setObj (s : State) (h : Nat) (o : Sess) : (clearF s).setObj h o = clearF (s.setObj h o) := rfl
theorem clearF_alloc (s : State) (o : Sess) : (clearF s).alloc o = ((s.alloc o).1, clearF (s.alloc o).2) := rfl
theorem clearF_alloc_snd (s : State) (o : Sess) : ((clearF s).alloc o).2 = clearF (s.alloc o).2 := rfl
theorem clearF_set_cache (s : State) (c : List (ID × Nat)) : { clearF s with cache := c } = clearF { s with cache := c } := rfl
theorem clearF_set_store (s : State) (c : List (ID × Rec)) : { clearF s with store := c } = clearF { s with store := c } := rfl
theorem clearF_set_timers (s : State) (c : List (Int × ID)) : { clearF s with timers := c } = clearF { s with timers := c } := rfl
theorem clearF_set_nextId (s : State) (n : Nat) : { clearF s with nextId := n } = clearF { s with nextId := n } := rfl
theorem clearF_set_vers (s : State) (v : List (String × Nat)) : { clearF s with vers := v } = clearF { s with vers := v } := rfl
theorem clearF_set_picks (s : State) (p : List ID) : { clearF s with picks := p } = clearF { s with picks := p } := rfl

theorem clearF_pop (s : State) : clearF s.pop = clearF s := rfl
theorem pop_clearF (s : State) : (clearF s).pop = clearF s := rfl
theorem clearF_pop2 (s : State) : clearF s.pop2 = { clearF s with picks := s.picks.tail } := rfl
theorem pop2_clearF (s : State) : (clearF s).pop2 = clearF s.pop2 := rfl
theorem clearF_touch (s : State) (h : Nat) (r : Req) : touch (clearF s) h r = clearF (touch s h r) := rfl
theorem clearF_minLA (s : State) : ∀ l : List (ID × Nat), minLA (clearF s) l = minLA s l
  | [] => rfl
  | (_, h) :: r => by simp only [minLA, clearF_minLA s r, clearF_obj]
theorem clearF_firstMin (s : State) (m : Int) : ∀ l : List (ID × Nat), firstMin (clearF s) m l = firstMin s m l
  | [] => rfl
  | (id, h) :: r => by simp only [firstMin, clearF_firstMin s m r, clearF_obj]
theorem clearF_victim (s : State) : victim (clearF s) = victim s := by
  simp only [victim, clearF_minLA, clearF_firstMin, clearF_cache, clearF_picks]
theorem clearF_userSessions (le : ID → ID → Bool) (s : State) (uid : String) :
    userSessions le (clearF s) uid = userSessions le s uid := rfl

theorem NoFailEv.nil : NoFailEv [] := by intro e he; cases he
theorem noFailEv_append {a b : List Ev} : NoFailEv (a ++ b) ↔ NoFailEv a ∧ NoFailEv b := by
  unfold NoFailEv
  constructor
  · intro h; exact ⟨fun e he => h e (List.mem_append_left _ he), fun e he => h e (List.mem_append_right _ he)⟩
  · rintro ⟨h1, h2⟩ e he
    rcases List.mem_append.1 he with he | he
    · exact h1 e he
    · exact h2 e he
theorem NoFailEv.left {a b : List Ev} (h : NoFailEv (a ++ b)) : NoFailEv a := (noFailEv_append.1 h).1
theorem NoFailEv.right {a b : List Ev} (h : NoFailEv (a ++ b)) : NoFailEv b := (noFailEv_append.1 h).2
theorem noFailEv_cons {e : Ev} {l : List Ev} : NoFailEv (e :: l) ↔ isFailEv e = false ∧ NoFailEv l := by
  unfold NoFailEv; simp
theorem NoFailEv.tail {e : Ev} {l : List Ev} (h : NoFailEv (e :: l)) : NoFailEv l := (noFailEv_cons.1 h).2
theorem NoFailEv.head {e : Ev} {l : List Ev} (h : NoFailEv (e :: l)) : isFailEv e = false := (noFailEv_cons.1 h).1
theorem noFailEv_single {e : Ev} : NoFailEv [e] ↔ isFailEv e = false := by
  rw [noFailEv_cons]; exact ⟨fun h => h.1, fun h => ⟨h, NoFailEv.nil⟩⟩

/-! ## 2. the persistence calls -/

theorem saveRec_headD_of_noFail {cfg : Cfg} {s : State} {id : ID} {o : Sess} (h : NoFailEv (saveRec cfg s id o).2.2) :
    s.fails.headD false = false := by
  cases hf : s.fails.headD false with
  | false => rfl
  | true => rw [Loc.saveRec_fail id o hf] at h; exact absurd (h _ List.mem_cons_self) (by simp [isFailEv])

theorem sim_saveRec (cfg : Cfg) (s : State) (id : ID) (o : Sess) (h : NoFailEv (saveRec cfg s id o).2.2) :
    saveRec cfg (clearF s) id o = (clearF (saveRec cfg s id o).1, (saveRec cfg s id o).2.1, (saveRec cfg s id o).2.2) := by
  have hf := saveRec_headD_of_noFail h
  rw [Loc.saveRec_ok id o hf, Loc.saveRec_ok id o (clearF_headD s)]
  rfl

theorem sim_saveObj (cfg : Cfg) (s : State) (h : Nat) (hn : NoFailEv (saveObj cfg s h).2.2) :
    saveObj cfg (clearF s) h = (clearF (saveObj cfg s h).1, (saveObj cfg s h).2.1, (saveObj cfg s h).2.2) :=
  sim_saveRec cfg s _ _ hn

theorem sim_delRec (s : State) (id : ID) (h : NoFailEv (delRec s id).2.2) :
    delRec (clearF s) id = (clearF (delRec s id).1, (delRec s id).2.1, (delRec s id).2.2) := by
  rw [Loc.delRec_eq] at h ⊢
  rw [Loc.delRec_eq]
  cases hf : s.fails.headD false with
  | true => rw [hf] at h; exact absurd (h _ List.mem_cons_self) (by simp [isFailEv])
  | false => simp only [clearF_headD]; rfl

theorem sim_cacheDelete (s : State) (id : ID) (h : NoFailEv (cacheDelete s id).2.2) :
    cacheDelete (clearF s) id = (clearF (cacheDelete s id).1, (cacheDelete s id).2.1, (cacheDelete s id).2.2) :=
  sim_delRec { s with cache := erase id s.cache } id h

theorem sim_loadRec (s : State) (id : ID) (h : NoFailEv (loadRec s id).2.2) :
    loadRec (clearF s) id = (clearF (loadRec s id).1, (loadRec s id).2.1, (loadRec s id).2.2) := by
  rw [Loc.loadRec_eq (clearF s)]
  simp only [clearF_headD, Bool.false_eq_true, if_false, pop_clearF, clearF_store, clearF_ver']
  have hc := Loc.loadRec_cases s id
  generalize loadRec s id = out at hc h
  cases hc with
  | fail hf => exact absurd (h _ List.mem_cons_self) (by simp [isFailEv])
  | nil hf hl => rw [hl]; rfl
  | plain r hf hl hu => rw [hl]; simp only [hu]; rfl
  | userFail r uid hf hl hu hf2 =>
    exact absurd (h (.userFail uid) (by simp)) (by simp [isFailEv])
  | user r uid hf hl hu hf2 => rw [hl]; simp only [hu]; rfl

/-! ## 3. `compact` -/

theorem sim_sweep (cfg : Cfg) : ∀ (l : List (ID × Nat)) (s : State), NoFailEv (sweep cfg s l).2.2 →
    sweep cfg (clearF s) l = (clearF (sweep cfg s l).1, (sweep cfg s l).2.1, (sweep cfg s l).2.2)
  | [], s, _ => rfl
  | (id, h) :: rest, s, hn => by
    rw [Loc.sweep_cons] at hn
    rw [Loc.sweep_cons cfg (clearF s), Loc.sweep_cons cfg s]
    by_cases hc : since s.now (s.obj h).lastAccess > cfg.cacheExpiry
    · have hc' : since (clearF s).now ((clearF s).obj h).lastAccess > cfg.cacheExpiry := hc
      rw [if_pos hc] at hn
      rw [if_pos hc, if_pos hc']
      have hs : NoFailEv (saveRec cfg s id (s.obj h)).2.2 → saveRec cfg (clearF s) id ((clearF s).obj h) = _ :=
        sim_saveRec cfg s id (s.obj h)
      rcases hX : saveRec cfg s id (s.obj h) with ⟨s1, ok, e1⟩
      rw [hX] at hn hs
      dsimp only at hn hs ⊢
      cases ok with
      | false =>
        simp only [Bool.false_eq_true, if_false] at hn
        simp only [hs hn, Bool.false_eq_true, if_false]
      | true =>
        simp only [if_true] at hn
        simp only [hs hn.left, if_true]
        rw [clearF_set_cache, clearF_cache, sim_sweep cfg rest _ hn.right]
    · have hc' : ¬ since (clearF s).now ((clearF s).obj h).lastAccess > cfg.cacheExpiry := hc
      rw [if_neg hc] at hn
      rw [if_neg hc, if_neg hc']
      exact sim_sweep cfg rest s hn

theorem sim_evictLoop (cfg : Cfg) (req : Int) : ∀ (fuel : Nat) (s : State), NoFailEv (evictLoop cfg req fuel s).2 →
    evictLoop cfg req fuel (clearF s) = (clearF (evictLoop cfg req fuel s).1, (evictLoop cfg req fuel s).2)
  | 0, s, _ => rfl
  | fuel + 1, s, hn => by
    rw [Loc.evictLoop_succ] at hn
    rw [Loc.evictLoop_succ cfg req fuel (clearF s), Loc.evictLoop_succ cfg req fuel s]
    by_cases hc : (s.cache.length : Int) + req > cfg.maxCache
    · have hc' : ((clearF s).cache.length : Int) + req > cfg.maxCache := hc
      rw [if_pos hc] at hn
      rw [if_pos hc, if_pos hc', clearF_victim]
      cases hv : victim s with
      | none => rfl
      | some e =>
        obtain ⟨id, h⟩ := e
        rw [hv] at hn
        simp only [] at hn ⊢
        have hs : NoFailEv (saveRec cfg s id (s.obj h)).2.2 → saveRec cfg (clearF s) id ((clearF s).obj h) = _ :=
          sim_saveRec cfg s id (s.obj h)
        rcases hX : saveRec cfg s id (s.obj h) with ⟨s1, ok, e1⟩
        rw [hX] at hn hs
        dsimp only at hn hs ⊢
        cases ok with
        | false =>
          simp only [Bool.false_eq_true, if_false] at hn
          simp only [hs hn, Bool.false_eq_true, if_false]
        | true =>
          simp only [if_true] at hn
          simp only [hs hn.left, if_true]
          rw [clearF_set_cache, clearF_cache, sim_evictLoop cfg req fuel _ hn.right]
    · have hc' : ¬ ((clearF s).cache.length : Int) + req > cfg.maxCache := hc
      rw [if_neg hc, if_neg hc']

theorem sim_compact (cfg : Cfg) (req : Int) (s : State) (hn : NoFailEv (compact cfg req s).2) :
    compact cfg req (clearF s) = (clearF (compact cfg req s).1, (compact cfg req s).2) := by
  rw [Loc.compact_eq] at hn
  rw [Loc.compact_eq cfg req (clearF s), Loc.compact_eq cfg req s]
  have hsw : NoFailEv (sweep cfg s (orderBy s.picks s.cache)).2.2 →
      sweep cfg (clearF s) (orderBy (clearF s).picks (clearF s).cache) = _ := sim_sweep cfg (orderBy s.picks s.cache) s
  rcases hX : sweep cfg s (orderBy s.picks s.cache) with ⟨s1, ok, e1⟩
  rw [hX] at hn hsw
  dsimp only at hn hsw ⊢
  cases ok with
  | false =>
    simp only [if_true] at hn
    rw [hsw hn]
    simp only [if_true]
  | true =>
    simp only [Bool.true_eq_false, if_false] at hn
    by_cases hc : cfg.maxCache < 0 ∨ (s1.cache.length : Int) + req ≤ cfg.maxCache
    · simp only [hc, if_true] at hn
      rw [hsw hn]
      simp only [Bool.true_eq_false, if_false, clearF_cache, hc, if_true]
    · simp only [hc, if_false] at hn
      rw [hsw hn.left]
      simp only [Bool.true_eq_false, if_false, clearF_cache, hc]
      rw [sim_evictLoop cfg _ _ s1 hn.right]

/-! ## 4. `cache.Set`, `cache.Get`, `PurgeSessions` -/

theorem clearF_setObjNow (s : State) (h : Nat) : setObjNow (clearF s) h = clearF (setObjNow s h) := rfl
theorem clearF_setReq (s : State) (h : Nat) : setReq (clearF s) h = setReq s h := rfl

theorem sim_setC (cfg : Cfg) (s : State) (h : Nat) (hn : NoFailEv (setC cfg s h).2) :
    setC cfg (clearF s) h = (clearF (setC cfg s h).1, (setC cfg s h).2) := by
  unfold setC
  rw [clearF_setObjNow, clearF_setReq]
  exact sim_compact cfg _ _ hn

theorem sim_setK (cfg : Cfg) (s : State) (h : Nat) (hn : NoFailEv (setC cfg s h).2) :
    setK cfg (clearF s) h = clearF (setK cfg s h) := by
  unfold setK
  rw [sim_setC cfg s h hn]
  cases hm : (cfg.maxCache != 0) <;> simp only [Bool.false_eq_true, if_true, if_false] <;> rfl

theorem sim_setSave (cfg : Cfg) (s : State) (h : Nat) (h1 : NoFailEv (setC cfg s h).2)
    (h2 : NoFailEv (setSave cfg s h).2.2) :
    setSave cfg (clearF s) h = (clearF (setSave cfg s h).1, (setSave cfg s h).2.1, (setSave cfg s h).2.2) := by
  unfold setSave
  rw [sim_setK cfg s h h1]
  exact sim_saveRec cfg (setK cfg s h) _ _ h2

theorem sim_cacheSet (cfg : Cfg) (s : State) (h : Nat) (hn : NoFailEv (cacheSet cfg s h).2.2) :
    cacheSet cfg (clearF s) h = (clearF (cacheSet cfg s h).1, (cacheSet cfg s h).2.1, (cacheSet cfg s h).2.2) := by
  rw [Loc.cacheSet_eq] at hn
  have h1 : NoFailEv (setC cfg s h).2 := NoFailEv.left hn
  have h2 : NoFailEv (setSave cfg s h).2.2 := NoFailEv.right hn
  rw [Loc.cacheSet_eq cfg (clearF s), Loc.cacheSet_eq cfg s, sim_setSave cfg s h h1 h2, sim_setC cfg s h h1]

theorem sim_cacheGet (cfg : Cfg) (s : State) (id : ID) (hn : NoFailEv (cacheGet cfg s id).2.2) :
    cacheGet cfg (clearF s) id = (clearF (cacheGet cfg s id).1, (cacheGet cfg s id).2.1, (cacheGet cfg s id).2.2) := by
  cases hc : lookup id s.cache with
  | some h =>
    have hc' : lookup id (clearF s).cache = some h := hc
    rw [Loc.cacheGet_hit hc, Loc.cacheGet_hit hc']
  | none =>
    have hc' : lookup id (clearF s).cache = none := hc
    rw [Loc.cacheGet_miss hc] at hn ⊢
    rw [Loc.cacheGet_miss hc']
    have hl := sim_loadRec s id
    rcases hX : loadRec s id with ⟨s0, res, e0⟩
    rw [hX] at hn hl
    dsimp only at hl
    cases res with
    | fail => rw [hl hn]; rfl
    | nil => rw [hl hn]; rfl
    | found o =>
      rw [Loc.getOf_found] at hn
      cases hm : (cfg.maxCache != 0) with
      | false =>
        simp only [hm, Bool.false_eq_true, if_false] at hn
        rw [hl hn, Loc.getOf_found, Loc.getOf_found]
        simp only [hm, Bool.false_eq_true, if_false]
        rfl
      | true =>
        simp only [hm, if_true] at hn
        rw [hl hn.left, Loc.getOf_found, Loc.getOf_found]
        simp only [hm, if_true]
        rw [clearF_alloc_snd, sim_compact cfg 1 _ hn.right]
        rfl

theorem purgeList_cons (cfg : Cfg) (s : State) (id : ID) (h : Nat) (rest : List (ID × Nat)) :
    purgeList cfg s ((id, h) :: rest) =
      ((purgeList cfg (saveRec cfg s id (s.obj h)).1 rest).1,
       (saveRec cfg s id (s.obj h)).2.2 ++ (purgeList cfg (saveRec cfg s id (s.obj h)).1 rest).2) := rfl

theorem sim_purgeList (cfg : Cfg) : ∀ (l : List (ID × Nat)) (s : State), NoFailEv (purgeList cfg s l).2 →
    purgeList cfg (clearF s) l = (clearF (purgeList cfg s l).1, (purgeList cfg s l).2)
  | [], s, _ => rfl
  | (id, h) :: rest, s, hn => by
    rw [purgeList_cons] at hn
    rw [purgeList_cons cfg (clearF s), purgeList_cons cfg s]
    have hs : saveRec cfg (clearF s) id ((clearF s).obj h) = _ := sim_saveRec cfg s id (s.obj h) hn.left
    rw [hs]
    dsimp only
    rw [sim_purgeList cfg rest _ hn.right]

theorem purge_eq (cfg : Cfg) (s : State) :
    purge cfg s = ({ (purgeList cfg s (orderBy s.picks s.cache)).1 with cache := [] },
      (purgeList cfg s (orderBy s.picks s.cache)).2) := rfl

theorem sim_purge (cfg : Cfg) (s : State) (hn : NoFailEv (purge cfg s).2) :
    purge cfg (clearF s) = (clearF (purge cfg s).1, (purge cfg s).2) := by
  rw [purge_eq] at hn
  rw [purge_eq cfg (clearF s), purge_eq cfg s]
  have hp : purgeList cfg (clearF s) (orderBy (clearF s).picks (clearF s).cache) = _ := sim_purgeList cfg _ s hn
  rw [hp]
  rfl

/-! ## 5. the handler methods -/

theorem sim_hset (cfg : Cfg) (s : State) (h : Nat) (k : String) (v : Val) (hn : NoFailEv (hset cfg s h k v).2.2) :
    hset cfg (clearF s) h k v = (clearF (hset cfg s h k v).1, (hset cfg s h k v).2.1, (hset cfg s h k v).2.2) := by
  cases hd : (s.obj h).data with
  | none =>
    have hd' : ((clearF s).obj h).data = none := hd
    rw [Loc.hset_none k v hd, Loc.hset_none k v hd']
  | some d =>
    have hd' : ((clearF s).obj h).data = some d := hd
    rw [Loc.hset_some k v hd] at hn ⊢
    rw [Loc.hset_some k v hd']
    have hs : saveObj cfg ((clearF s).setObj h { (clearF s).obj h with data := some (insert k v d) }) h = _ :=
      sim_saveObj cfg _ h hn
    rw [hs]

theorem sim_hdel (cfg : Cfg) (s : State) (h : Nat) (k : String) (hn : NoFailEv (hdel cfg s h k).2.2) :
    hdel cfg (clearF s) h k = (clearF (hdel cfg s h k).1, (hdel cfg s h k).2.1, (hdel cfg s h k).2.2) := by
  rw [Loc.hdel_eq] at hn
  rw [Loc.hdel_eq cfg (clearF s), Loc.hdel_eq cfg s]
  have hs : saveObj cfg ((clearF s).setObj h { (clearF s).obj h with data := ((clearF s).obj h).data.map (erase k) }) h = _ :=
    sim_saveObj cfg _ h hn
  rw [hs]

theorem sim_hgetdel (cfg : Cfg) (s : State) (h : Nat) (k : String) (hn : NoFailEv (hgetdel cfg s h k).2.2) :
    hgetdel cfg (clearF s) h k = (clearF (hgetdel cfg s h k).1, (hgetdel cfg s h k).2.1, (hgetdel cfg s h k).2.2) := by
  cases hl : lookup k ((s.obj h).data.getD []) with
  | none =>
    have hl' : lookup k (((clearF s).obj h).data.getD []) = none := hl
    rw [Loc.hgetdel_none hl, Loc.hgetdel_none hl']
  | some v =>
    have hl' : lookup k (((clearF s).obj h).data.getD []) = some v := hl
    rw [Loc.hgetdel_some hl] at hn ⊢
    rw [Loc.hgetdel_some hl']
    have hs : saveObj cfg ((clearF s).setObj h { (clearF s).obj h with data := ((clearF s).obj h).data.map (erase k) }) h = _ :=
      sim_saveObj cfg _ h hn
    rw [hs]

theorem sim_hlogout (cfg : Cfg) (s : State) (h : Nat) (hn : NoFailEv (hlogout cfg s h).2.2) :
    hlogout cfg (clearF s) h = (clearF (hlogout cfg s h).1, (hlogout cfg s h).2.1, (hlogout cfg s h).2.2) := by
  cases hu : (s.obj h).user with
  | none =>
    have hu' : ((clearF s).obj h).user = none := hu
    rw [Loc.hlogout_none hu, Loc.hlogout_none hu']
  | some u =>
    have hu' : ((clearF s).obj h).user = some u := hu
    rw [Loc.hlogout_some hu] at hn ⊢
    rw [Loc.hlogout_some hu']
    have hs : saveObj cfg ((clearF s).setObj h { (clearF s).obj h with user := none }) h = _ :=
      sim_saveObj cfg _ h hn
    rw [hs]

/-! ## 6. `Destroy`, `RegenerateID`, `createNew` -/

theorem sim_destroy (s : State) (h : Nat) (hasCookie : Bool) (hn : NoFailEv (destroy s h hasCookie).2.2) :
    destroy (clearF s) h hasCookie =
      (clearF (destroy s h hasCookie).1, (destroy s h hasCookie).2.1, (destroy s h hasCookie).2.2) := by
  rw [Loc.destroy_eq] at hn
  rw [Loc.destroy_eq (clearF s), Loc.destroy_eq s]
  have hs : NoFailEv (cacheDelete s (s.obj h).id).2.2 → cacheDelete (clearF s) ((clearF s).obj h).id = _ :=
    sim_cacheDelete s (s.obj h).id
  rcases hX : cacheDelete s (s.obj h).id with ⟨s1, ok, e1⟩
  rw [hX] at hn hs
  dsimp only at hn hs ⊢
  cases ok with
  | false =>
    simp only [if_true] at hn
    rw [hs hn]
    simp only [if_true]
  | true =>
    simp only [Bool.true_eq_false, if_false] at hn
    cases hasCookie with
    | true =>
      simp only [if_true] at hn
      rw [hs hn.left]
      simp only [Bool.true_eq_false, if_false, if_true]
    | false =>
      simp only [Bool.false_eq_true, if_false] at hn
      rw [hs hn]
      simp only [Bool.true_eq_false, Bool.false_eq_true, if_false]

theorem clearF_regenS0 (s : State) (h : Nat) : Loc.regenS0 (clearF s) h = clearF (Loc.regenS0 s h) := rfl

theorem sim_regenA (cfg : Cfg) (s : State) (h : Nat) (hn : NoFailEv (regenA cfg s h).2.2) :
    regenA cfg (clearF s) h = (clearF (regenA cfg s h).1, (regenA cfg s h).2.1, (regenA cfg s h).2.2) := by
  unfold regenA
  rw [clearF_regenS0]
  exact sim_cacheSet cfg _ h hn

theorem sim_regenS2 (cfg : Cfg) (s : State) (h : Nat) (hn : NoFailEv (regenA cfg s h).2.2) :
    regenS2 cfg (clearF s) h = clearF (regenS2 cfg s h) := by
  unfold regenS2
  rw [sim_regenA cfg s h hn]
  rfl

theorem sim_regenB (cfg : Cfg) (s : State) (h : Nat) (hA : NoFailEv (regenA cfg s h).2.2)
    (hB : NoFailEv (regenB cfg s h).2.2) :
    regenB cfg (clearF s) h = (clearF (regenB cfg s h).1, (regenB cfg s h).2.1, (regenB cfg s h).2.2) := by
  unfold regenB
  rw [sim_regenS2 cfg s h hA, sim_regenA cfg s h hA]
  dsimp only [clearF_heap]
  exact sim_cacheSet cfg (regenS2 cfg s h) (regenA cfg s h).1.heap.length hB

theorem sim_regenerate (cfg : Cfg) (s : State) (h : Nat) (hn : NoFailEv (regenerate cfg s h).2.2) :
    regenerate cfg (clearF s) h =
      (clearF (regenerate cfg s h).1, (regenerate cfg s h).2.1, (regenerate cfg s h).2.2) := by
  rw [Loc.regenerate_eq] at hn
  rw [Loc.regenerate_eq cfg (clearF s), Loc.regenerate_eq cfg s]
  cases hA : (regenA cfg s h).2.1 with
  | false =>
    simp only [hA, if_true] at hn
    rw [sim_regenA cfg s h hn]
    simp only [hA, if_true]
  | true =>
    simp only [hA, Bool.true_eq_false, if_false] at hn
    cases hB : (regenB cfg s h).2.1 with
    | false =>
      simp only [hB, if_true] at hn
      rw [sim_regenB cfg s h hn.left hn.right, sim_regenA cfg s h hn.left]
      simp only [hA, hB, Bool.true_eq_false, if_false, if_true]
    | true =>
      simp only [hB, Bool.true_eq_false, if_false] at hn
      rw [sim_regenB cfg s h hn.left.left hn.left.right, sim_regenA cfg s h hn.left.left]
      simp only [hA, hB, Bool.true_eq_false, if_false]
      rfl

theorem clearF_newS1 (s : State) (r : Req) : newS1 (clearF s) r = clearF (newS1 s r) := rfl

theorem sim_createNew (cfg : Cfg) (s : State) (r : Req) (pre : List Ev) (hn : NoFailEv (createNew cfg s r pre).2.2) :
    createNew cfg (clearF s) r pre =
      (clearF (createNew cfg s r pre).1, (createNew cfg s r pre).2.1, (createNew cfg s r pre).2.2) := by
  cases hc : r.create with
  | false => rw [Loc.createNew_no pre hc, Loc.createNew_no pre hc]
  | true =>
    rw [Loc.createNew_yes pre hc] at hn
    rw [Loc.createNew_yes (s := clearF s) pre hc, Loc.createNew_yes (s := s) pre hc]
    have hs : NoFailEv (cacheSet cfg (newS1 s r) s.heap.length).2.2 →
        cacheSet cfg (newS1 (clearF s) r) (clearF s).heap.length = _ := sim_cacheSet cfg (newS1 s r) s.heap.length
    rcases hX : cacheSet cfg (newS1 s r) s.heap.length with ⟨s1, ok, e1⟩
    rw [hX] at hn hs
    dsimp only at hn hs ⊢
    cases ok with
    | false =>
      simp only [if_true] at hn
      rw [hs hn.right]
      simp only [if_true]
    | true =>
      simp only [Bool.true_eq_false, if_false] at hn
      rw [hs hn.left.right]
      simp only [Bool.true_eq_false, if_false]
      rfl

/-! ## 7. `Start` -/

theorem sim_follow (cfg : Cfg) : ∀ (n : Nat) (s : State) (h : Nat), NoFailEv (follow cfg n s h).2.2 →
    follow cfg n (clearF s) h = (clearF (follow cfg n s h).1, (follow cfg n s h).2.1, (follow cfg n s h).2.2)
  | 0, s, h, _ => rfl
  | n + 1, s, h, hn => by
    cases href : (s.obj h).ref with
    | none =>
      have href' : ((clearF s).obj h).ref = none := href
      rw [Loc.follow_succ_none n href, Loc.follow_succ_none n href']
    | some tgt =>
      have href' : ((clearF s).obj h).ref = some tgt := href
      rw [Loc.follow_succ_some n href] at hn ⊢
      rw [Loc.follow_succ_some n href']
      have hg := sim_cacheGet cfg s tgt
      rcases hX : cacheGet cfg s tgt with ⟨s1, res, e1⟩
      rw [hX] at hn hg
      dsimp only at hg
      cases res with
      | err => rw [hg hn]; rfl
      | nil => rw [hg hn]; rfl
      | some h2 =>
        have hn' : NoFailEv (e1 ++ (follow cfg n s1 h2).2.2) := hn
        rw [hg hn'.left]
        show ((follow cfg n (clearF s1) h2).1, (follow cfg n (clearF s1) h2).2.1,
          e1 ++ (follow cfg n (clearF s1) h2).2.2) = _
        rw [sim_follow cfg n s1 h2 hn'.right]
        rfl

theorem startRef_evs_prefix (r : Req) (e1 : List Ev) (x : State × GetRes × List Ev) :
    ∃ tl, (startRef r e1 x).2.2 = e1 ++ x.2.2 ++ tl := by
  obtain ⟨s2, res, e2⟩ := x
  cases res with
  | err => exact ⟨[], by simp [startRef]⟩
  | nil => exact ⟨[], by simp [startRef]⟩
  | some h2 => exact ⟨_, rfl⟩

theorem sim_startRef (r : Req) (e1 : List Ev) (x : State × GetRes × List Ev) :
    startRef r e1 (clearF x.1, x.2.1, x.2.2) = (clearF (startRef r e1 x).1, (startRef r e1 x).2.1, (startRef r e1 x).2.2) := by
  obtain ⟨s2, res, e2⟩ := x
  cases res <;> rfl

theorem sim_startValid (cfg : Cfg) (s1 : State) (id : ID) (h : Nat) (r : Req) (e1 : List Ev)
    (hn : NoFailEv (startValid cfg s1 id h r e1).2.2) :
    startValid cfg (clearF s1) id h r e1 =
      (clearF (startValid cfg s1 id h r e1).1, (startValid cfg s1 id h r e1).2.1, (startValid cfg s1 id h r e1).2.2) := by
  cases href : (s1.obj h).ref with
  | none =>
    have href' : ((clearF s1).obj h).ref = none := href
    by_cases hage : since s1.now (s1.obj h).created ≥ cfg.idExpiry
    · have hage' : since (clearF s1).now ((clearF s1).obj h).created ≥ cfg.idExpiry := hage
      rw [Loc.startValid_rotate id r e1 href hage] at hn ⊢
      rw [Loc.startValid_rotate id r e1 href' hage']
      have hs := sim_regenerate cfg s1 h
      rcases hX : regenerate cfg s1 h with ⟨s2, ok, e2⟩
      rw [hX] at hn hs
      dsimp only at hn hs ⊢
      cases ok with
      | false =>
        simp only [if_true] at hn
        rw [hs hn.right]
        simp only [if_true]
      | true =>
        simp only [Bool.true_eq_false, if_false] at hn
        rw [hs hn.right]
        simp only [Bool.true_eq_false, if_false]
        rfl
    · have hage1 : since s1.now (s1.obj h).created < cfg.idExpiry := by omega
      have hage' : since (clearF s1).now ((clearF s1).obj h).created < cfg.idExpiry := hage1
      rw [Loc.startValid_young id r e1 href hage1, Loc.startValid_young id r e1 href' hage']
      rfl
  | some t =>
    have href' : ((clearF s1).obj h).ref = some t := href
    by_cases hage : since s1.now (s1.obj h).created ≥ cfg.idExpiry ∧ since s1.now (s1.obj h).created - cfg.idExpiry ≥ cfg.grace
    · have hage' : since (clearF s1).now ((clearF s1).obj h).created ≥ cfg.idExpiry ∧
          since (clearF s1).now ((clearF s1).obj h).created - cfg.idExpiry ≥ cfg.grace := hage
      rw [Loc.startValid_ref_expired id r e1 href hage] at hn ⊢
      rw [Loc.startValid_ref_expired id r e1 href' hage']
      have hs := sim_cacheDelete s1 id
      rcases hX : cacheDelete s1 id with ⟨s2, ok, e2⟩
      rw [hX] at hn hs
      dsimp only at hn hs ⊢
      cases ok with
      | false =>
        simp only [if_true] at hn
        rw [hs hn.right]
        simp only [if_true]
      | true =>
        simp only [Bool.true_eq_false, if_false] at hn
        rw [hs hn.right]
        simp only [Bool.true_eq_false, if_false]
    · have hage' : ¬ (since (clearF s1).now ((clearF s1).obj h).created ≥ cfg.idExpiry ∧
          since (clearF s1).now ((clearF s1).obj h).created - cfg.idExpiry ≥ cfg.grace) := hage
      have e' : startValid cfg (clearF s1) id h r e1 =
          startRef r e1 (follow cfg (s1.store.length + s1.cache.length + 1) (clearF s1) h) :=
        Loc.startValid_ref id r e1 href' hage'
      rw [Loc.startValid_ref id r e1 href hage] at hn ⊢
      rw [e']
      obtain ⟨tl, htl⟩ := startRef_evs_prefix r e1 (follow cfg (s1.store.length + s1.cache.length + 1) s1 h)
      rw [htl] at hn
      rw [sim_follow cfg _ s1 h hn.left.right]
      exact sim_startRef r e1 _

theorem startValid_evs_prefix (cfg : Cfg) (s1 : State) (id : ID) (h : Nat) (r : Req) (e1 : List Ev) :
    ∃ tl, (startValid cfg s1 id h r e1).2.2 = e1 ++ tl := by
  cases href : (s1.obj h).ref with
  | none =>
    by_cases hage : since s1.now (s1.obj h).created ≥ cfg.idExpiry
    · rw [Loc.startValid_rotate id r e1 href hage]
      split <;> exact ⟨_, rfl⟩
    · have hage1 : since s1.now (s1.obj h).created < cfg.idExpiry := by omega
      rw [Loc.startValid_young id r e1 href hage1]
      exact ⟨[], by simp⟩
  | some t =>
    by_cases hage : since s1.now (s1.obj h).created ≥ cfg.idExpiry ∧ since s1.now (s1.obj h).created - cfg.idExpiry ≥ cfg.grace
    · rw [Loc.startValid_ref_expired id r e1 href hage]
      split <;> exact ⟨_, rfl⟩
    · rw [Loc.startValid_ref id r e1 href hage]
      obtain ⟨tl, htl⟩ := startRef_evs_prefix r e1 (follow cfg (s1.store.length + s1.cache.length + 1) s1 h)
      exact ⟨(follow cfg (s1.store.length + s1.cache.length + 1) s1 h).2.2 ++ tl, by rw [htl, List.append_assoc]⟩

theorem startInvalid_evs_prefix (cfg : Cfg) (s1 : State) (h : Nat) (r : Req) (e1 : List Ev) :
    ∃ tl, (startInvalid cfg s1 h r e1).2.2 = e1 ++ (destroy s1 h true).2.2 ++ tl := by
  unfold startInvalid
  split
  · exact ⟨[], by simp⟩
  · exact Loc.createNew_evs_prefix cfg _ r _

theorem sim_startInvalid (cfg : Cfg) (s1 : State) (h : Nat) (r : Req) (e1 : List Ev)
    (hn : NoFailEv (startInvalid cfg s1 h r e1).2.2) :
    startInvalid cfg (clearF s1) h r e1 =
      (clearF (startInvalid cfg s1 h r e1).1, (startInvalid cfg s1 h r e1).2.1, (startInvalid cfg s1 h r e1).2.2) := by
  have hd : NoFailEv (destroy s1 h true).2.2 := by
    obtain ⟨tl, htl⟩ := startInvalid_evs_prefix cfg s1 h r e1
    rw [htl] at hn
    exact hn.left.right
  unfold startInvalid at hn ⊢
  rw [sim_destroy s1 h true hd]
  dsimp only
  cases hok : (destroy s1 h true).2.1 with
  | false => simp only [if_true]
  | true =>
    simp only [hok, Bool.true_eq_false, if_false] at hn ⊢
    exact sim_createNew cfg _ r _ hn

theorem startGot_evs_prefix (cfg : Cfg) (r : Req) (id : ID) (x : State × GetRes × List Ev) :
    ∃ tl, (startGot cfg r id x).2.2 = x.2.2 ++ tl := by
  obtain ⟨s1, res, e1⟩ := x
  cases res with
  | err => exact ⟨[], by simp [startGot]⟩
  | nil =>
    obtain ⟨tl, htl⟩ := Loc.createNew_evs_prefix cfg s1 r (e1 ++ [.delCookie])
    exact ⟨[.delCookie] ++ tl, by show (createNew cfg s1 r (e1 ++ [.delCookie])).2.2 = _; rw [htl, List.append_assoc]⟩
  | some h =>
    show ∃ tl, (if validFor cfg s1.now (s1.obj h) r = false then startInvalid cfg s1 h r e1
      else startValid cfg s1 id h r e1).2.2 = e1 ++ tl
    split
    · obtain ⟨tl, htl⟩ := startInvalid_evs_prefix cfg s1 h r e1
      exact ⟨(destroy s1 h true).2.2 ++ tl, by rw [htl, List.append_assoc]⟩
    · exact startValid_evs_prefix cfg s1 id h r e1

theorem sim_startGot (cfg : Cfg) (r : Req) (id : ID) (x : State × GetRes × List Ev)
    (hn : NoFailEv (startGot cfg r id x).2.2) :
    startGot cfg r id (clearF x.1, x.2.1, x.2.2) =
      (clearF (startGot cfg r id x).1, (startGot cfg r id x).2.1, (startGot cfg r id x).2.2) := by
  obtain ⟨s1, res, e1⟩ := x
  cases res with
  | err => rfl
  | nil => exact sim_createNew cfg s1 r _ hn
  | some h =>
    have e : ∀ s : State, startGot cfg r id (s, .some h, e1) =
        if validFor cfg s.now (s.obj h) r = false then startInvalid cfg s h r e1 else startValid cfg s id h r e1 :=
      fun _ => rfl
    rw [e] at hn
    dsimp only
    rw [e (clearF s1), e s1]
    cases hv : validFor cfg s1.now (s1.obj h) r with
    | false =>
      have hv' : validFor cfg (clearF s1).now ((clearF s1).obj h) r = false := hv
      simp only [hv, if_true] at hn
      simp only [hv', if_true]
      exact sim_startInvalid cfg s1 h r e1 hn
    | true =>
      have hv' : validFor cfg (clearF s1).now ((clearF s1).obj h) r = true := hv
      simp only [hv, Bool.true_eq_false, if_false] at hn
      simp only [hv', Bool.true_eq_false, if_false]
      exact sim_startValid cfg s1 id h r e1 hn

theorem sim_start (cfg : Cfg) (s : State) (r : Req) (hn : NoFailEv (start cfg s r).2.2) :
    start cfg (clearF s) r = (clearF (start cfg s r).1, (start cfg s r).2.1, (start cfg s r).2.2) := by
  cases hc : r.cookie with
  | none =>
    rw [Loc.start_none hc] at hn ⊢
    rw [Loc.start_none hc]
    exact sim_createNew cfg s r [] hn
  | some id =>
    by_cases hl : r.cookieLen = 24
    · rw [Loc.start_some hc hl] at hn ⊢
      rw [Loc.start_some hc hl]
      have hg : NoFailEv (cacheGet cfg s id).2.2 := by
        obtain ⟨tl, htl⟩ := startGot_evs_prefix cfg r id (cacheGet cfg s id)
        rw [htl] at hn
        exact hn.left
      rw [sim_cacheGet cfg s id hg]
      exact sim_startGot cfg r id _ hn
    · rw [Loc.start_len hl] at hn ⊢
      rw [Loc.start_len hl]
      exact sim_createNew cfg s r [] hn

/-! ## 8. the user loops and `LogIn` -/

theorem sim_userSet (cfg : Cfg) (u : Option (String × Nat)) (s1 : State) (h : Nat) (hn : NoFailEv (userSet cfg u s1 h).2.2) :
    userSet cfg u (clearF s1) h = (clearF (userSet cfg u s1 h).1, (userSet cfg u s1 h).2.1, (userSet cfg u s1 h).2.2) := by
  unfold userSet at hn ⊢
  exact sim_cacheSet cfg (s1.setObj h { s1.obj h with user := u }) h hn

theorem sim_setUserAll (cfg : Cfg) (u : Option (String × Nat)) : ∀ (l : List ID) (s : State),
    NoFailEv (setUserAll cfg u l s).2.2 →
    setUserAll cfg u l (clearF s) = (clearF (setUserAll cfg u l s).1, (setUserAll cfg u l s).2.1, (setUserAll cfg u l s).2.2)
  | [], s, _ => rfl
  | id :: rest, s, hn => by
    have hg := sim_cacheGet cfg s id
    rcases hX : cacheGet cfg s id with ⟨s1, res, e1⟩
    rw [hX] at hg
    dsimp only at hg
    cases res with
    | err =>
      rw [Loc.setUserAll_cons_err hX] at hn ⊢
      rw [Loc.setUserAll_cons_err (hg hn)]
    | nil =>
      rw [Loc.setUserAll_cons_nil hX] at hn ⊢
      rw [Loc.setUserAll_cons_nil (hg hn.left), sim_setUserAll cfg u rest s1 hn.right]
    | some h =>
      rw [Loc.setUserAll_cons_some hX] at hn ⊢
      have he1 : NoFailEv e1 ∧ NoFailEv (userSet cfg u s1 h).2.2 := by
        split at hn
        · exact ⟨hn.left, hn.right⟩
        · exact ⟨hn.left.left, hn.left.right⟩
      rw [Loc.setUserAll_cons_some (hg he1.1), sim_userSet cfg u s1 h he1.2]
      dsimp only
      cases hok : (userSet cfg u s1 h).2.1 with
      | false => simp only [if_true]
      | true =>
        simp only [hok, Bool.true_eq_false, if_false] at hn ⊢
        rw [sim_setUserAll cfg u rest _ hn.right]

theorem sim_forUser (cfg : Cfg) (le : ID → ID → Bool) (s : State) (uid : String) (u : Option (String × Nat))
    (hn : NoFailEv (forUser cfg le s uid u).2.2) :
    forUser cfg le (clearF s) uid u =
      (clearF (forUser cfg le s uid u).1, (forUser cfg le s uid u).2.1, (forUser cfg le s uid u).2.2) := by
  rw [Loc.forUser_eq] at hn
  rw [Loc.forUser_eq cfg le (clearF s), Loc.forUser_eq cfg le s]
  cases hf : s.fails.headD false with
  | true =>
    simp only [hf, if_true] at hn
    exact absurd (hn _ List.mem_cons_self) (by simp [isFailEv])
  | false =>
    have hf' : ¬ (clearF s).fails.headD false = true := by simp
    simp only [hf, Bool.false_eq_true, if_false] at hn
    rw [if_neg hf']
    simp only [Bool.false_eq_true, if_false]
    have h1 : setUserAll cfg u (userSessions le (clearF s).pop uid) (clearF s).pop = _ :=
      sim_setUserAll cfg u (userSessions le s.pop uid) s.pop hn.tail
    rw [h1]

theorem sim_logoutUser (cfg : Cfg) (le : ID → ID → Bool) (s : State) (uid : String)
    (hn : NoFailEv (logoutUser cfg le s uid).2.2) :
    logoutUser cfg le (clearF s) uid =
      (clearF (logoutUser cfg le s uid).1, (logoutUser cfg le s uid).2.1, (logoutUser cfg le s uid).2.2) :=
  sim_forUser cfg le s uid none hn

theorem sim_refreshUser (cfg : Cfg) (le : ID → ID → Bool) (s : State) (uid : String)
    (hn : NoFailEv (refreshUser cfg le s uid).2.2) :
    refreshUser cfg le (clearF s) uid =
      (clearF (refreshUser cfg le s uid).1, (refreshUser cfg le s uid).2.1, (refreshUser cfg le s uid).2.2) :=
  sim_forUser cfg le { s with vers := insert uid (s.ver uid + 1) s.vers } uid (some (uid, s.ver uid + 1)) hn

theorem sim_loginPre (cfg : Cfg) (le : ID → ID → Bool) (s : State) (h : Nat) (uid : String) (excl : Bool)
    (hn : NoFailEv (loginPre cfg le s h uid excl).2.2) :
    loginPre cfg le (clearF s) h uid excl =
      (clearF (loginPre cfg le s h uid excl).1, (loginPre cfg le s h uid excl).2.1, (loginPre cfg le s h uid excl).2.2) := by
  unfold loginPre at hn ⊢
  cases excl with
  | true =>
    simp only [if_true] at hn ⊢
    exact sim_logoutUser cfg le s uid hn
  | false =>
    simp only [Bool.false_eq_true, if_false] at hn ⊢
    rw [sim_hlogout cfg s h hn]

theorem sim_loginSet (cfg : Cfg) (le : ID → ID → Bool) (s : State) (h : Nat) (uid : String) (excl : Bool)
    (hP : NoFailEv (loginPre cfg le s h uid excl).2.2) (hS : NoFailEv (loginSet cfg le s h uid excl).2.2) :
    loginSet cfg le (clearF s) h uid excl =
      (clearF (loginSet cfg le s h uid excl).1, (loginSet cfg le s h uid excl).2.1, (loginSet cfg le s h uid excl).2.2) := by
  unfold loginSet at hS ⊢
  rw [sim_loginPre cfg le s h uid excl hP]
  dsimp only
  exact sim_cacheSet cfg ((loginPre cfg le s h uid excl).1.setObj h
    { (loginPre cfg le s h uid excl).1.obj h with user := some (uid, (loginPre cfg le s h uid excl).1.ver uid) }) h hS

theorem sim_hlogin (cfg : Cfg) (le : ID → ID → Bool) (s : State) (h : Nat) (uid : String) (excl : Bool)
    (hn : NoFailEv (hlogin cfg le s h uid excl).2.2) :
    hlogin cfg le (clearF s) h uid excl =
      (clearF (hlogin cfg le s h uid excl).1, (hlogin cfg le s h uid excl).2.1, (hlogin cfg le s h uid excl).2.2) := by
  rw [Loc.hlogin_eq] at hn
  rw [Loc.hlogin_eq cfg le (clearF s), Loc.hlogin_eq cfg le s]
  cases hA : (loginPre cfg le s h uid excl).2.1 with
  | false =>
    simp only [hA, if_true] at hn
    rw [sim_loginPre cfg le s h uid excl hn]
    simp only [hA, if_true]
  | true =>
    simp only [hA, Bool.true_eq_false, if_false] at hn
    cases hB : (loginSet cfg le s h uid excl).2.1 with
    | false =>
      simp only [hB, if_true] at hn
      rw [sim_loginSet cfg le s h uid excl hn.left hn.right, sim_loginPre cfg le s h uid excl hn.left]
      simp only [hA, hB, Bool.true_eq_false, if_false, if_true]
    | true =>
      simp only [hB, Bool.true_eq_false, if_false] at hn
      rw [sim_loginSet cfg le s h uid excl hn.left.left hn.left.right, sim_loginPre cfg le s h uid excl hn.left.left]
      simp only [hA, hB, Bool.true_eq_false, if_false]
      rw [sim_regenerate cfg _ h hn.right]

/-! ## 9. the world level -/

/-- everything `apiCall` does with the answer of the function it runs -/
def apiPost (w : World) (r : State × RetV × Option String × List Ev) (showSess : Bool) : World × Out :=
  let pre := w.st
  let (s1, ret, msg, evs) := r
  let s1 := { s1 with fails := [], picks := [] }
  let pers := evs.filter (fun e => !isCookie e)
  let cks := evs.filter isCookie
  let muts := pers.filter isMut
  let rng := (s1.nextId - pre.nextId) * 16
  let (frozen, s2, crashed) :=
    match w.freezeAt with
    | none => (none, s1, false)
    | some k =>
      if k ≤ muts.length then
        (some (some k), { s1 with store := (muts.take k).foldl applyMut pre.store, timers := [] }, true)
      else (some none, s1, false)
  let (s3, bg) := advance s2 1
  let w' := { w with st := s3, freezeAt := none, respCookies := w.respCookies ++ cks,
                     crashed := w.crashed || crashed, skip := w.skip || (crashed && w.inReq) }
  let sessOut := if showSess then w.cur.map (fun h => (lookup (s1.obj h).id s1.cache == some h, s1.obj h)) else none
  (w', { t := pre.now, evs := pers, ret := some ret, msg := msg, sess := sessOut, cookies := cks,
         rng := some rng, faulted := (pers.filter isFailEv).length, frozen := frozen, bg := bg, dump := true,
         dumpCache := !(w.crashed || crashed) })

theorem apiCall_eq_post (w : World) (orc : Orc) (run : State → State × RetV × Option String × List Ev) (b : Bool) :
    apiCall w orc run b = apiPost w (run { w.st with fails := orc.fails, picks := orc.picks }) b := rfl

/-- the oracle left over by the call is not observable -/
theorem apiPost_clear (w : World) (r : State × RetV × Option String × List Ev) (b : Bool) :
    apiPost w (clearF r.1, r.2.1, r.2.2.1, r.2.2.2) b = apiPost w r b := by
  obtain ⟨s1, ret, msg, evs⟩ := r
  rfl

theorem apiPost_faulted (w : World) (r : State × RetV × Option String × List Ev) (b : Bool) :
    (apiPost w r b).2.faulted = ((r.2.2.2.filter (fun e => !isCookie e)).filter isFailEv).length := by
  obtain ⟨s1, ret, msg, evs⟩ := r
  unfold apiPost
  dsimp only

theorem apiCall_faulted (w : World) (orc : Orc) (run : State → State × RetV × Option String × List Ev) (b : Bool) :
    (apiCall w orc run b).2.faulted =
      (((run { w.st with fails := orc.fails, picks := orc.picks }).2.2.2.filter (fun e => !isCookie e)).filter isFailEv).length := by
  rw [apiCall_eq_post, apiPost_faulted]

/-- cookie events are not failure events: `faulted = 0` says that no event reports a failure -/
theorem noFailEv_of_faulted {evs : List Ev}
    (h : ((evs.filter (fun e => !isCookie e)).filter isFailEv).length = 0) : NoFailEv evs := by
  intro e he
  cases hf : isFailEv e with
  | false => rfl
  | true =>
    have hck : isCookie e = false := by cases e <;> simp_all [isFailEv, isCookie]
    have hm : e ∈ (evs.filter (fun e => !isCookie e)).filter isFailEv := by
      simp [List.mem_filter, he, hck, hf]
    rw [List.length_eq_zero_iff] at h
    rw [h] at hm
    cases hm

/-- the function run by an API call satisfies the `sim` equation -/
def RunSim (run : State → State × RetV × Option String × List Ev) : Prop :=
  ∀ s, NoFailEv (run s).2.2.2 → run (clearF s) = (clearF (run s).1, (run s).2.1, (run s).2.2.1, (run s).2.2.2)

/-- **an API call that reports no failed persistence call is the call of the fault-free oracle** -/
theorem apiCall_eq_clear (w : World) (orc : Orc) (run : State → State × RetV × Option String × List Ev) (b : Bool)
    (hrun : RunSim run) (h : (apiCall w orc run b).2.faulted = 0) :
    apiCall w orc run b = apiCall w { orc with fails := [] } run b := by
  rw [apiCall_faulted] at h
  have hn := noFailEv_of_faulted h
  rw [apiCall_eq_post, apiCall_eq_post]
  have e : ({ w.st with fails := ({ orc with fails := [] } : Orc).fails, picks := ({ orc with fails := [] } : Orc).picks } : State) =
      clearF { w.st with fails := orc.fails, picks := orc.picks } := rfl
  rw [e, hrun _ hn, apiPost_clear]

theorem finish_faulted (w : World) (o : Out) : (finish w o).2.faulted = o.faulted := by
  unfold finish; split <;> rfl

theorem fin_api_eq_clear (w : World) (orc : Orc) (run : State → State × RetV × Option String × List Ev) (b : Bool)
    (hrun : RunSim run) (h : (finish (apiCall w orc run b).1 (apiCall w orc run b).2).2.faulted = 0) :
    finish (apiCall w orc run b).1 (apiCall w orc run b).2 =
      finish (apiCall w { orc with fails := [] } run b).1 (apiCall w { orc with fails := [] } run b).2 := by
  rw [finish_faulted] at h
  rw [apiCall_eq_clear w orc run b hrun h]

theorem runSim_P (f : State → State × List Ev) (ret : RetV)
    (hf : ∀ s, NoFailEv (f s).2 → f (clearF s) = (clearF (f s).1, (f s).2)) :
    RunSim (fun s => let (s', e) := f s; (s', ret, (none : Option String), e)) := by
  intro s hn
  have h1 := hf s hn
  dsimp only at hn ⊢
  rw [h1]

theorem runSim_B (f : State → State × Bool × List Ev)
    (hf : ∀ s, NoFailEv (f s).2.2 → f (clearF s) = (clearF (f s).1, (f s).2.1, (f s).2.2)) :
    RunSim (fun s => let (s', ok, e) := f s; (s', boolStr ok, (none : Option String), e)) := by
  intro s hn
  have h1 := hf s hn
  dsimp only at hn ⊢
  rw [h1]

theorem runSim_H (f : State → State × HRes × List Ev)
    (hf : ∀ s, NoFailEv (f s).2.2 → f (clearF s) = (clearF (f s).1, (f s).2.1, (f s).2.2)) :
    RunSim (fun s => let (s', r, e) := f s; (s', hresStr r, (none : Option String), e)) := by
  intro s hn
  have h1 := hf s hn
  dsimp only at hn ⊢
  rw [h1]

theorem runSim_read (g : State → RetV) (hg : ∀ s, g (clearF s) = g s) :
    RunSim (fun s => (s, g s, (none : Option String), ([] : List Ev))) := by
  intro s _
  dsimp only
  rw [hg]

theorem runSim_start (cfg : Cfg) (r : Req) :
    RunSim (fun s => let (s1, res, evs) := start cfg s r; (s1, (resStr res).1, (resStr res).2, evs)) := by
  intro s hn
  have h1 := sim_start cfg s r hn
  dsimp only at hn ⊢
  rw [h1]

theorem step_skip_eq (le : ID → ID → Bool) (w : World) (orc : Orc) (op : Op) (hsk : w.skip = true)
    (hne : op ≠ .endReq) : w.step le orc op = (w, { silent := true }) := by
  unfold World.step
  cases op <;> first | exact absurd rfl hne | simp only [hsk, Bool.true_and, Bool.not_false, if_true]

/-- the `req` line: the session handed to the handler and the call itself are those of the fault-free oracle -/
theorem req_eq_clear (w0 : World) (cfg : Cfg) (orc : Orc) (r : Req) (inp : Option (Option ID))
    (h : (apiCall { w0 with cur := match (start cfg { w0.st with fails := orc.fails, picks := orc.picks } r).2.1 with
                                    | .sess h => some h | _ => none } orc
            (fun s => let (s1, res, evs) := start cfg s r; (s1, (resStr res).1, (resStr res).2, evs)) true).2.faulted = 0) :
    (let res := (start cfg { w0.st with fails := orc.fails, picks := orc.picks } r).2.1
     let w1 := { w0 with cur := match res with | .sess h => some h | _ => none }
     let (w2, o) := apiCall w1 orc (fun s => let (s1, res, evs) := start cfg s r; (s1, (resStr res).1, (resStr res).2, evs)) true
     (w2, { o with input := inp })) =
    (let res := (start cfg { w0.st with fails := ({ orc with fails := [] } : Orc).fails, picks := ({ orc with fails := [] } : Orc).picks } r).2.1
     let w1 := { w0 with cur := match res with | .sess h => some h | _ => none }
     let (w2, o) := apiCall w1 { orc with fails := [] } (fun s => let (s1, res, evs) := start cfg s r; (s1, (resStr res).1, (resStr res).2, evs)) true
     (w2, { o with input := inp })) := by
  have hE : NoFailEv (start cfg { w0.st with fails := orc.fails, picks := orc.picks } r).2.2 := by
    rw [apiCall_faulted] at h
    exact noFailEv_of_faulted h
  have hres : (start cfg { w0.st with fails := [], picks := orc.picks } r).2.1 =
      (start cfg { w0.st with fails := orc.fails, picks := orc.picks } r).2.1 := by
    have h1 := sim_start cfg { w0.st with fails := orc.fails, picks := orc.picks } r hE
    show (start cfg (clearF { w0.st with fails := orc.fails, picks := orc.picks }) r).2.1 = _
    rw [h1]
  dsimp only
  rw [hres]
  rw [apiCall_eq_clear _ orc _ true (runSim_start cfg r) h]

/-- **An operation whose output reports no failed persistence call is the operation of the fault-free oracle**:
the same world and the same output. -/
theorem step_eq_clear (le : ID → ID → Bool) (w : World) (orc : Orc) (op : Op) (h : (w.step le orc op).2.faulted = 0) :
    w.step le orc op = w.step le { orc with fails := [] } op := by
  by_cases hsk : w.skip = true
  · by_cases he : op = .endReq
    · subst he; rfl
    · rw [step_skip_eq le w orc op hsk he, step_skip_eq le w _ op hsk he]
  · have hsk' : w.skip = false := by simpa using hsk
    have hif : ∀ (b : Bool) (x y : World × Out), (if (w.skip && b) = true then x else y) = y := by
      intro b x y; rw [hsk']; rfl
    unfold World.step at h ⊢
    cases op with
    | purge =>
      rw [hif] at h
      rw [hif, hif]
      exact fin_api_eq_clear w orc _ false (runSim_P (purge w.cfg) _ (sim_purge w.cfg)) h
    | logoutUser uid =>
      rw [hif] at h
      rw [hif, hif]
      exact fin_api_eq_clear w orc _ false
        (runSim_B (fun s => logoutUser w.cfg le s uid) (fun s => sim_logoutUser w.cfg le s uid)) h
    | refresh uid =>
      rw [hif] at h
      rw [hif, hif]
      exact fin_api_eq_clear w orc _ false
        (runSim_B (fun s => refreshUser w.cfg le s uid) (fun s => sim_refreshUser w.cfg le s uid)) h
    | req client spec ip ua create =>
      rw [hif] at h
      rw [hif, hif]
      exact req_eq_clear
        { w with inReq := true, client := client, cur := none,
                 hasCookie := (match (generalizing := false) spec with
                    | .none => none
                    | .jar => (lookup client w.jars).map (fun id => (id, 24))
                    | .val id len => some (id, len) : Option (ID × Nat)).isSome,
                 respCookies := [] } w.cfg orc _ _ h
    | h hop =>
      rw [hif] at h
      rw [hif, hif]
      cases hc : w.cur with
      | none => rfl
      | some x =>
        rw [hc] at h
        simp only [] at h ⊢
        cases hop with
        | set k v =>
          exact apiCall_eq_clear w orc _ true (runSim_H (fun s => hset w.cfg s x k v) (fun s => sim_hset w.cfg s x k v)) h
        | del k =>
          exact apiCall_eq_clear w orc _ true (runSim_H (fun s => hdel w.cfg s x k) (fun s => sim_hdel w.cfg s x k)) h
        | get k =>
          exact apiCall_eq_clear w orc _ true (runSim_read (fun s => hresStr (hget s x k)) (fun _ => rfl)) h
        | getdel k =>
          exact apiCall_eq_clear w orc _ true (runSim_H (fun s => hgetdel w.cfg s x k) (fun s => sim_hgetdel w.cfg s x k)) h
        | login uid excl =>
          exact apiCall_eq_clear w orc _ true
            (runSim_H (fun s => hlogin w.cfg le s x uid excl) (fun s => sim_hlogin w.cfg le s x uid excl)) h
        | logout =>
          exact apiCall_eq_clear w orc _ true (runSim_H (fun s => hlogout w.cfg s x) (fun s => sim_hlogout w.cfg s x)) h
        | regen =>
          exact apiCall_eq_clear w orc _ true (runSim_B (fun s => regenerate w.cfg s x) (fun s => sim_regenerate w.cfg s x)) h
        | destroy =>
          exact apiCall_eq_clear w orc _ true
            (runSim_B (fun s => destroy s x w.hasCookie) (fun s => sim_destroy s x w.hasCookie)) h
        | expired =>
          exact apiCall_eq_clear w orc _ true
            (runSim_read (fun s => hresStr (.bool (expired w.cfg s.now (s.obj x)))) (fun _ => rfl)) h
        | lastaccess =>
          exact apiCall_eq_clear w orc _ true (runSim_read (fun s => .time (s.obj x).lastAccess) (fun _ => rfl)) h
        | user =>
          exact apiCall_eq_clear w orc _ true (runSim_read (fun s => .user (s.obj x).user) (fun _ => rfl)) h
    | _ => rfl

/-- **an operation that reports no failed persistence call keeps the world invariant**, whatever its oracle
contains beyond the entries it consumed. -/
theorem step_inv_of_not_faulted {c : Codec} (le : ID → ID → Bool) (w : World) (orc : Orc) (op : Op) (hw : WInv c w)
    (hop : OpOK le w op) (h : (w.step le orc op).2.faulted = 0) : WInv c (w.step le orc op).1 := by
  rw [step_eq_clear le w orc op h]
  exact Sx.step_inv le w { orc with fails := [] } op hw (by intro b hb; cases hb) hop

/-- non-vacuity: the oracle of this step contains a failure that is not consumed -/
example :
    let w : World := { inReq := true, cur := some 0,
                       st := { heap := [{ id := .gen 0, created := 0, lastAccess := 0 }], cache := [(.gen 0, 0)], nextId := 1 } }
    let orc : Orc := { fails := [false, true] }
    true ∈ orc.fails ∧ (w.step (fun _ _ => true) orc (.h (.set "k" (.int 1)))).2.faulted = 0 ∧
      (w.step (fun _ _ => true) orc (.h (.set "k" (.int 1)))).2.ret = some (.str "ok") ∧
      (w.step (fun _ _ => true) orc (.h (.set "k" (.int 1)))).2.evs.length = 1 := by
  decide

/-
#print axioms step_eq_clear              -- [propext, Classical.choice, Quot.sound]
#print axioms step_inv_of_not_faulted    -- [propext, Classical.choice, Quot.sound]
-/

end Sx.Glob
