import Sessions.Proofs.Global.Delta
/-!
# C03 (second half), per function: the access time the package knows never goes back

`known s i` is the access time the package can know for the id `i`: the `lastAccess` of the cached object when
the id is cached, otherwise the `lastAccess` of the stored record. `KM c x s s'` says that a model function run from
`s` to `s'` leaves time alone, never lowers the `lastAccess` of an object, and that every `known s' i` is at least
(the codec's truncation of) `known s i`, or of the current time, or of the `lastAccess` of the request's object `x`
(when a handler writes that object through although it is no longer cached). Every way out of the cache (idle
sweep, eviction, `PurgeSessions`) saves the object first (`More.Drops`), `cache.Set` stamps before it compacts,
`cache.Get` inserts what it loaded: so every model function satisfies `KM`.
-/
namespace Sx.Glob

/-! ## 1. what a codec keeps of an instant -/

/-- gob keeps the instant, JSON keeps it to the second. -/
def truncC : Codec → Int → Int
  | .gob, t => t
  | .json, t => truncSec t

theorem truncSec_le (t : Int) : truncSec t ≤ t := by unfold truncSec; omega
theorem truncSec_mono {a b : Int} (h : a ≤ b) : truncSec a ≤ truncSec b := by unfold truncSec; omega

theorem truncC_le (c : Codec) (t : Int) : truncC c t ≤ t := by
  cases c
  · exact Int.le_refl _
  · exact truncSec_le t

theorem truncC_mono (c : Codec) {a b : Int} (h : a ≤ b) : truncC c a ≤ truncC c b := by
  cases c
  · exact h
  · exact truncSec_mono h

theorem truncC_idem (c : Codec) (t : Int) : truncC c (truncC c t) = truncC c t := by
  cases c
  · rfl
  · exact truncSec_idem t

/-- `truncC a ≤ b` survives truncating `b`. -/
theorem truncC_le_trunc (c : Codec) {a b : Int} (h : truncC c a ≤ b) : truncC c a ≤ truncC c b := by
  have := truncC_mono c h
  rwa [truncC_idem] at this

theorem enc_lastAccess (c : Codec) (o : Sess) : (enc c o).lastAccess = truncC c o.lastAccess := by cases c <;> rfl

/-! ## 2. the access time the package knows -/

/-- the access time the package can know for `i`: in memory when cached, else as last handed to the store. -/
def known (s : State) (i : ID) : Option Int :=
  match lookup i s.cache with
  | some h => some (s.obj h).lastAccess
  | none => (lookup i s.store).map (·.lastAccess)

theorem known_hit {s : State} {i : ID} {h : Nat} (hc : lookup i s.cache = some h) : known s i = some (s.obj h).lastAccess := by
  simp [known, hc]

theorem known_miss {s : State} {i : ID} (hc : lookup i s.cache = none) : known s i = (lookup i s.store).map (·.lastAccess) := by
  simp [known, hc]

theorem known_congr {s s' : State} {i : ID} (hc : lookup i s'.cache = lookup i s.cache) (hs : lookup i s'.store = lookup i s.store)
    (ho : ∀ y, lookup i s.cache = some y → (s'.obj y).lastAccess = (s.obj y).lastAccess) : known s' i = known s i := by
  unfold known
  rw [hc, hs]
  cases hl : lookup i s.cache with
  | none => rfl
  | some h => simp [ho h hl]

/-! ## 3. the relation -/

/-- a run from `s` to `s'` during which the clock stands still, no object's `lastAccess` goes back (an object that
changes its id is stamped), and no known access time goes back — `x` is the request's object, which a handler may
write through when it is no longer cached. -/
structure KM (c : Codec) (x : Option Nat) (s s' : State) : Prop where
  now : s'.now = s.now
  len : s.heap.length ≤ s'.heap.length
  obj : ∀ y, y < s.heap.length →
    ((s'.obj y).id = (s.obj y).id ∧ (s.obj y).lastAccess ≤ (s'.obj y).lastAccess) ∨ s.now ≤ (s'.obj y).lastAccess
  le : ∀ i k', known s' i = some k' →
    (∃ k, known s i = some k ∧ truncC c k ≤ k') ∨ truncC c s.now ≤ k' ∨
    (∃ h, x = some h ∧ (s.obj h).id = i ∧ truncC c (s.obj h).lastAccess ≤ k')

theorem KM.of_same {c : Codec} {x : Option Nat} {s s' : State} (hnow : s'.now = s.now) (hlen : s.heap.length ≤ s'.heap.length)
    (hobj : ∀ y, y < s.heap.length → (s'.obj y).id = (s.obj y).id ∧ (s'.obj y).lastAccess = (s.obj y).lastAccess)
    (hk : ∀ i, known s' i = known s i) : KM c x s s' := by
  refine ⟨hnow, hlen, ?_, ?_⟩
  · intro y hy
    obtain ⟨h1, h2⟩ := hobj y hy
    exact Or.inl ⟨h1, by rw [h2]; exact Int.le_refl _⟩
  · intro i k' hk'
    rw [hk] at hk'
    exact Or.inl ⟨k', hk', truncC_le c k'⟩

theorem KM.refl (c : Codec) (x : Option Nat) (s : State) : KM c x s s :=
  KM.of_same rfl (Nat.le_refl _) (fun _ _ => ⟨rfl, rfl⟩) (fun _ => rfl)

/-- states that differ in oracles, counters, timers, user table only. -/
theorem KM.of_eq {c : Codec} {x : Option Nat} {s s' : State} (hnow : s'.now = s.now) (hheap : s'.heap = s.heap)
    (hcache : s'.cache = s.cache) (hstore : s'.store = s.store) : KM c x s s' := by
  have ho : ∀ y, s'.obj y = s.obj y := obj_of_heap_eq hheap
  refine KM.of_same hnow (by rw [hheap]; exact Nat.le_refl _) (fun y _ => by rw [ho]; exact ⟨rfl, rfl⟩) ?_
  intro i
  exact known_congr (by rw [hcache]) (by rw [hstore]) (fun y _ => by rw [ho])

theorem KM.weaken {c : Codec} {s s' : State} (x : Option Nat) (h : KM c none s s') : KM c x s s' := by
  refine ⟨h.now, h.len, h.obj, ?_⟩
  intro i k' hk'
  rcases h.le i k' hk' with h1 | h1 | ⟨_, h1, _⟩
  · exact Or.inl h1
  · exact Or.inr (Or.inl h1)
  · cases h1

theorem KM.trans {c : Codec} {x : Option Nat} {a b d : State} (h1 : KM c x a b) (h2 : KM c none b d) : KM c x a d := by
  refine ⟨h2.now.trans h1.now, Nat.le_trans h1.len h2.len, ?_, ?_⟩
  · intro y hy
    rcases h2.obj y (Nat.lt_of_lt_of_le hy h1.len) with ⟨e2, l2⟩ | l2
    · rcases h1.obj y hy with ⟨e1, l1⟩ | l1
      · exact Or.inl ⟨e2.trans e1, Int.le_trans l1 l2⟩
      · exact Or.inr (Int.le_trans l1 l2)
    · exact Or.inr (by rw [← h1.now]; exact l2)
  · intro i k'' hk''
    rcases h2.le i k'' hk'' with ⟨k', hk', hl'⟩ | hl' | ⟨_, hx, _⟩
    · rcases h1.le i k' hk' with ⟨k, hk, hl⟩ | hl | ⟨h, hx, hid, hl⟩
      · exact Or.inl ⟨k, hk, Int.le_trans (truncC_le_trunc c hl) hl'⟩
      · exact Or.inr (Or.inl (Int.le_trans (truncC_le_trunc c hl) hl'))
      · exact Or.inr (Or.inr ⟨h, hx, hid, Int.le_trans (truncC_le_trunc c hl) hl'⟩)
    · exact Or.inr (Or.inl (by rw [← h1.now]; exact hl'))
    · cases hx

/-! ## 4. leaving the cache: flush first -/

theorem km_dropS (cfg : Cfg) (x : Option Nat) {s : State} {id : ID} {h : Nat} (hn : (keys s.cache).Nodup)
    (hm : (id, h) ∈ s.cache) : KM cfg.codec x s (dropS cfg s id h) := by
  have hobj : ∀ y, (dropS cfg s id h).obj y = s.obj y := fun _ => rfl
  refine ⟨rfl, Nat.le_refl _, fun y _ => Or.inl ⟨rfl, Int.le_refl _⟩, ?_⟩
  intro i k' hk'
  left
  by_cases hi : i = id
  · subst hi
    have hc : lookup i (dropS cfg s i h).cache = none := Loc.lookup_erase_self i s.cache
    have hs : lookup i (dropS cfg s i h).store = some (enc cfg.codec (s.obj h)) := Loc.lookup_insert_self i _ s.store
    rw [known_miss hc, hs] at hk'
    simp only [Option.map_some, Option.some.injEq] at hk'
    refine ⟨(s.obj h).lastAccess, known_hit (lookup_of_mem_nodup hn hm), ?_⟩
    rw [← hk', enc_lastAccess]
    exact Int.le_refl _
  · have hc : lookup i (dropS cfg s id h).cache = lookup i s.cache := Loc.lookup_erase_ne (Ne.symm hi) s.cache
    have hs : lookup i (dropS cfg s id h).store = lookup i s.store := Loc.lookup_insert_ne (Ne.symm hi) _ s.store
    rw [known_congr hc hs (fun y _ => by rw [hobj])] at hk'
    exact ⟨k', hk', truncC_le _ _⟩

/-- **a run of flush-and-drop steps** (idle sweep, eviction, every oracle) never lowers a known access time. -/
theorem km_drops {cfg : Cfg} {P : State → ID × Nat → Prop} (hP : ∀ s p, P s p → p ∈ s.cache)
    {s s' : State} {evs : List Ev} (hd : More.Drops cfg P s s' evs) (hn : (keys s.cache).Nodup) : KM cfg.codec none s s' := by
  induction hd with
  | refl s => exact KM.refl _ _ s
  | @step s s' id h evs hp hok rest ih =>
    exact (km_dropS cfg none hn (hP _ _ hp)).trans (ih (nodup_erase hn))
  | fail hp hf => exact KM.of_eq rfl rfl rfl rfl

/-- `compact`, every oracle. -/
theorem km_compact (cfg : Cfg) (req : Int) (s : State) (hn : (keys s.cache).Nodup) : KM cfg.codec none s (compact cfg req s).1 :=
  km_drops More.compactP_mem (More.compact_drops cfg req s hn) hn

theorem compact_nodup (cfg : Cfg) (req : Int) (s : State) (hn : (keys s.cache).Nodup) : (keys (compact cfg req s).1.cache).Nodup :=
  More.nodup_of_sublist (More.compact_drops cfg req s hn).sublist hn


/-! ## 5. stamping -/

/-- cache and store untouched, every object keeps id and `lastAccess` or is stamped with the current time. -/
theorem KM.of_stamp {c : Codec} {x : Option Nat} {s s' : State} (hnow : s'.now = s.now) (hlen : s.heap.length ≤ s'.heap.length)
    (hcache : s'.cache = s.cache) (hstore : s'.store = s.store)
    (hobj : ∀ y, ((s'.obj y).id = (s.obj y).id ∧ (s'.obj y).lastAccess = (s.obj y).lastAccess) ∨ (s'.obj y).lastAccess = s.now) :
    KM c x s s' := by
  refine ⟨hnow, hlen, ?_, ?_⟩
  · intro y _
    rcases hobj y with ⟨h1, h2⟩ | h1
    · exact Or.inl ⟨h1, by rw [h2]; exact Int.le_refl _⟩
    · exact Or.inr (by rw [h1]; exact Int.le_refl _)
  · intro i k' hk'
    cases hl : lookup i s.cache with
    | none =>
      rw [known_miss (by rw [hcache]; exact hl), hstore, ← known_miss hl] at hk'
      exact Or.inl ⟨k', hk', truncC_le _ _⟩
    | some y =>
      rw [known_hit (by rw [hcache]; exact hl)] at hk'
      simp only [Option.some.injEq] at hk'
      rcases hobj y with ⟨_, h2⟩ | h1
      · exact Or.inl ⟨(s.obj y).lastAccess, known_hit hl, by rw [← hk', h2]; exact truncC_le _ _⟩
      · exact Or.inr (Or.inl (by rw [← hk', h1]; exact truncC_le _ _))

theorem km_setObjNow (c : Codec) (x : Option Nat) (s : State) (h : Nat) : KM c x s (Loc.setObjNow s h) := by
  refine KM.of_stamp rfl (by simp) rfl rfl ?_
  intro y
  by_cases hy : h = y
  · subst hy
    rw [Loc.setObjNow_obj_self]
    split
    · exact Or.inr rfl
    · exact Or.inl ⟨rfl, rfl⟩
  · rw [Loc.setObjNow_obj_ne hy]; exact Or.inl ⟨rfl, rfl⟩

theorem km_touch (c : Codec) (x : Option Nat) (s : State) (h : Nat) (r : Req) : KM c x s (touch s h r) := by
  refine KM.of_stamp rfl (by simp) rfl rfl ?_
  intro y
  by_cases hy : h = y
  · subst hy
    by_cases hv : h < s.heap.length
    · rw [Loc.touch_obj_self hv]; exact Or.inr rfl
    · have : touch s h r = s := Loc.setObj_oob hv _
      rw [this]; exact Or.inl ⟨rfl, rfl⟩
  · rw [Loc.touch_obj_ne hy]; exact Or.inl ⟨rfl, rfl⟩

/-- overwriting an object by one with the same id and the same `lastAccess`. -/
theorem km_setObj_same (c : Codec) (x : Option Nat) (s : State) (h : Nat) (o : Sess) (hid : o.id = (s.obj h).id)
    (hla : o.lastAccess = (s.obj h).lastAccess) : KM c x s (s.setObj h o) := by
  refine KM.of_stamp rfl (by simp) rfl rfl ?_
  intro y
  left
  rw [Loc.obj_setObj]
  split
  · rename_i hh; obtain ⟨rfl, _⟩ := hh; exact ⟨hid, hla⟩
  · exact ⟨rfl, rfl⟩

/-- allocation. -/
theorem km_alloc (c : Codec) (x : Option Nat) (s : State) (o : Sess) (hvld : ∀ k y, (k, y) ∈ s.cache → y < s.heap.length) :
    KM c x s (s.alloc o).2 := by
  refine KM.of_same rfl (by simp) (fun y hy => by rw [Loc.obj_alloc_old hy]; exact ⟨rfl, rfl⟩) ?_
  intro i
  exact known_congr rfl rfl (fun y hl => by rw [Loc.obj_alloc_old (hvld i y (lookup_some_mem hl))])


/-! ## 6. `cache.Set`, `cache.Get` -/

theorem cacheSet_nodup (cfg : Cfg) (s : State) (h : Nat) (hn : (keys s.cache).Nodup) : (keys (cacheSet cfg s h).1.cache).Nodup := by
  rw [Loc.cacheSet_cache]
  have hc : (keys (Loc.setC cfg s h).1.cache).Nodup := compact_nodup cfg (Loc.setReq s h) (Loc.setObjNow s h) hn
  split
  · exact nodup_insert hc
  · exact hc

/-- **`cache.Set`** (every oracle, cache enabled): stamp, compact (flush before drop), insert, write through. -/
theorem km_cacheSet (cfg : Cfg) (s : State) (h : Nat) (hn : (keys s.cache).Nodup) (hv : h < s.heap.length)
    (hm : cfg.maxCache ≠ 0) : KM cfg.codec none s (cacheSet cfg s h).1 := by
  have hA : KM cfg.codec none s (Loc.setObjNow s h) := km_setObjNow _ _ s h
  have hB : KM cfg.codec none (Loc.setObjNow s h) (Loc.setC cfg s h).1 := km_compact cfg (Loc.setReq s h) (Loc.setObjNow s h) hn
  have hfrC := (Loc.setC_flushed cfg s h).fr
  have hfrS := Loc.cacheSet_fr cfg s h
  have hobj : ∀ y, (cacheSet cfg s h).1.obj y = (Loc.setC cfg s h).1.obj y := fun y => by rw [hfrS.obj, hfrC.obj]
  have hC : KM cfg.codec none (Loc.setC cfg s h).1 (cacheSet cfg s h).1 := by
    refine ⟨by rw [hfrS.now, hfrC.now], by rw [hfrS.heap, hfrC.heap]; exact Nat.le_refl _,
      fun y _ => Or.inl ⟨by rw [hobj], by rw [hobj]; exact Int.le_refl _⟩, ?_⟩
    intro i k' hk'
    by_cases hi : i = (s.obj h).id
    · subst hi
      rw [known_hit (Loc.cacheSet_cache_self s h hm), Loc.cacheSet_obj_self cfg hv] at hk'
      simp only [Option.some.injEq] at hk'
      exact Or.inr (Or.inl (by rw [← hk', hfrC.now]; exact truncC_le _ _))
    · have hc : lookup i (cacheSet cfg s h).1.cache = lookup i (Loc.setC cfg s h).1.cache := by
        rw [Loc.cacheSet_cache, if_pos hm, Loc.lookup_insert_ne (Ne.symm hi)]
      have hs : lookup i (cacheSet cfg s h).1.store = lookup i (Loc.setC cfg s h).1.store := by
        cases hok : (cacheSet cfg s h).2.1 with
        | true => rw [Loc.cacheSet_store_ok hok, Loc.lookup_insert_ne (Ne.symm hi)]
        | false => rw [Loc.cacheSet_store_fail hok]
      rw [known_congr hc hs (fun y _ => by rw [hobj])] at hk'
      exact Or.inl ⟨k', hk', truncC_le _ _⟩
  exact (hA.trans hB).trans hC

/-- after `cache.Set` (cache enabled) the object is cached under its id and carries the current time. -/
theorem cacheSet_served (cfg : Cfg) (s : State) (h : Nat) (hv : h < s.heap.length) (hm : cfg.maxCache ≠ 0) :
    ((cacheSet cfg s h).1.obj h).lastAccess = s.now ∧ ((cacheSet cfg s h).1.obj h).id = (s.obj h).id ∧
    known (cacheSet cfg s h).1 (s.obj h).id = some s.now := by
  refine ⟨by rw [Loc.cacheSet_obj_self cfg hv], Loc.cacheSet_obj_id cfg s h h, ?_⟩
  rw [known_hit (Loc.cacheSet_cache_self s h hm), Loc.cacheSet_obj_self cfg hv]

/-- the part of `cache.Get` after a record was found. -/
theorem km_getFound (cfg : Cfg) (id : ID) (s0 : State) (o : Sess) (e0 : List Ev) (hn : (keys s0.cache).Nodup)
    (hvld : ∀ k y, (k, y) ∈ s0.cache → y < s0.heap.length) (hmiss : lookup id s0.cache = none) {r : Rec}
    (hr : lookup id s0.store = some r) (ho : o.lastAccess = r.lastAccess) :
    KM cfg.codec none s0 (Loc.getOf cfg id (s0, .found o, e0)).1 := by
  have hA : KM cfg.codec none s0 (s0.alloc o).2 := km_alloc _ _ s0 o hvld
  rw [Loc.getOf_found]
  split
  · have hn1 : (keys (s0.alloc o).2.cache).Nodup := hn
    have hD := More.compact_drops cfg 1 (s0.alloc o).2 hn1
    have hB : KM cfg.codec none (s0.alloc o).2 (compact cfg 1 (s0.alloc o).2).1 := km_compact cfg 1 _ hn1
    refine (hA.trans hB).trans ?_
    refine ⟨rfl, Nat.le_refl _, fun y _ => Or.inl ⟨rfl, Int.le_refl _⟩, ?_⟩
    intro i k' hk'
    left
    by_cases hi : i = id
    · subst hi
      have hc : lookup i (insert i s0.heap.length (compact cfg 1 (s0.alloc o).2).1.cache) = some s0.heap.length :=
        Loc.lookup_insert_self _ _ _
      rw [known_hit hc] at hk'
      simp only [Option.some.injEq] at hk'
      have hobj : (compact cfg 1 (s0.alloc o).2).1.obj s0.heap.length = o := by
        rw [hD.obj]; exact Loc.obj_alloc_new s0 o
      have hc2 : lookup i (compact cfg 1 (s0.alloc o).2).1.cache = none := by
        cases hl : lookup i (compact cfg 1 (s0.alloc o).2).1.cache with
        | none => rfl
        | some y => exact absurd (hD.sub _ (lookup_some_mem hl)) (lookup_none_not_mem hmiss y)
      have hs2 : lookup i (compact cfg 1 (s0.alloc o).2).1.store = some r := by
        rcases hD.store_lk More.compactP_mem i with e | ⟨y, hy, _⟩
        · rw [e]; exact hr
        · exact absurd hy (lookup_none_not_mem hmiss y)
      refine ⟨r.lastAccess, by rw [known_miss hc2, hs2]; rfl, ?_⟩
      have : ((compact cfg 1 (s0.alloc o).2).1.obj s0.heap.length).lastAccess = k' := hk'
      rw [hobj, ho] at this
      rw [← this]; exact truncC_le _ _
    · have hc : lookup i (insert id s0.heap.length (compact cfg 1 (s0.alloc o).2).1.cache) =
          lookup i (compact cfg 1 (s0.alloc o).2).1.cache := Loc.lookup_insert_ne (Ne.symm hi) _ _
      have : known ({ (compact cfg 1 (s0.alloc o).2).1 with
          cache := insert id s0.heap.length (compact cfg 1 (s0.alloc o).2).1.cache } : State) i =
          known (compact cfg 1 (s0.alloc o).2).1 i := known_congr hc rfl (fun _ _ => rfl)
      rw [this] at hk'
      exact ⟨k', hk', truncC_le _ _⟩
  · exact hA

/-- **`cache.Get`** (every oracle): a loaded object carries the stored access time and is inserted after the compaction. -/
theorem km_cacheGet (cfg : Cfg) (s : State) (id : ID) (hn : (keys s.cache).Nodup)
    (hvld : ∀ k y, (k, y) ∈ s.cache → y < s.heap.length) : KM cfg.codec none s (cacheGet cfg s id).1 := by
  have hcase := Loc.cacheGet_cases cfg s id
  generalize cacheGet cfg s id = out at hcase
  cases hcase with
  | hit h hc => exact KM.refl _ _ s
  | miss y hc hl =>
    cases hl with
    | fail hf => exact KM.of_eq rfl rfl rfl rfl
    | nil hf hl => exact KM.of_eq rfl rfl rfl rfl
    | plain r hf hl hu =>
      exact (KM.of_eq (c := cfg.codec) (x := none) (s := s) (s' := s.pop) rfl rfl rfl rfl).trans (km_getFound cfg id s.pop (dec s.ver id r) _ hn hvld hc hl rfl)
    | userFail r uid hf hl hu hf2 => exact KM.of_eq rfl rfl rfl rfl
    | user r uid hf hl hu hf2 =>
      exact (KM.of_eq (c := cfg.codec) (x := none) (s := s) (s' := s.pop.pop) rfl rfl rfl rfl).trans (km_getFound cfg id s.pop.pop (dec s.ver id r) _ hn hvld hc hl rfl)


/-! ## 7. deleting, purging, direct saves -/

theorem km_delSt (c : Codec) (x : Option Nat) (s : State) (id : ID) : KM c x s (delSt s id) := by
  refine ⟨rfl, Nat.le_refl _, fun y _ => Or.inl ⟨rfl, Int.le_refl _⟩, ?_⟩
  intro i k' hk'
  left
  by_cases hi : i = id
  · subst hi
    have hc : lookup i (delSt s i).cache = none := Loc.lookup_erase_self i s.cache
    have hs : lookup i (delSt s i).store = none := Loc.lookup_erase_self i s.store
    rw [known_miss hc, hs] at hk'
    cases hk'
  · have hc : lookup i (delSt s id).cache = lookup i s.cache := Loc.lookup_erase_ne (Ne.symm hi) s.cache
    have hs : lookup i (delSt s id).store = lookup i s.store := Loc.lookup_erase_ne (Ne.symm hi) s.store
    rw [known_congr hc hs (fun _ _ => rfl)] at hk'
    exact ⟨k', hk', truncC_le _ _⟩

theorem purgeList_fr (cfg : Cfg) (l : List (ID × Nat)) (s : State) : Loc.Fr s (purgeList cfg s l).1 := by
  induction l generalizing s with
  | nil => exact Loc.Fr.refl s
  | cons p rest ih =>
    obtain ⟨id, h⟩ := p
    simp only [purgeList]
    exact (Loc.saveRec_fr cfg s id (s.obj h)).trans (ih _)

/-- **`PurgeSessions`** (fault-free): every entry is saved before the cache is emptied. -/
theorem km_purge (cfg : Cfg) (s : State) (hnf : NoFail s) (hn : (keys s.cache).Nodup) : KM cfg.codec none s (purge cfg s).1 := by
  have hfr := purgeList_fr cfg (orderBy s.picks s.cache) s
  obtain ⟨_, h2⟩ := More.purgeList_flush cfg (orderBy s.picks s.cache) s hnf
  rw [More.purge_eq]
  refine ⟨hfr.now, by rw [show ({ (purgeList cfg s (orderBy s.picks s.cache)).1 with cache := [] } : State).heap =
      (purgeList cfg s (orderBy s.picks s.cache)).1.heap from rfl, hfr.heap]; exact Nat.le_refl _,
    fun y _ => Or.inl ⟨by show ((purgeList cfg s (orderBy s.picks s.cache)).1.obj y).id = _; rw [hfr.obj],
      by show _ ≤ ((purgeList cfg s (orderBy s.picks s.cache)).1.obj y).lastAccess; rw [hfr.obj]; exact Int.le_refl _⟩, ?_⟩
  intro i k' hk'
  left
  have hc : lookup i ({ (purgeList cfg s (orderBy s.picks s.cache)).1 with cache := [] } : State).cache = none := rfl
  rw [known_miss hc] at hk'
  have hk2 : (lookup i (purgeList cfg s (orderBy s.picks s.cache)).1.store).map (·.lastAccess) = some k' := hk'
  rcases h2 i with ⟨e, hno⟩ | ⟨y, hy, e⟩
  · have hmiss : lookup i s.cache = none := by
      cases hl : lookup i s.cache with
      | none => rfl
      | some y => exact absurd (mem_orderBy_of_mem (picks := s.picks) hn (lookup_some_mem hl)) (hno y)
    rw [e, ← known_miss hmiss] at hk2
    exact ⟨k', hk2, truncC_le _ _⟩
  · rw [e] at hk2
    simp only [Option.map_some, Option.some.injEq] at hk2
    refine ⟨(s.obj y).lastAccess, known_hit (lookup_of_mem_nodup hn (mem_orderBy_sub hy)), ?_⟩
    rw [← hk2, enc_lastAccess]; exact Int.le_refl _

/-- a direct `SaveSession` of the object `h` under its id (every oracle): only the record under that id changes; the
cached time (if the id is cached) is not affected. -/
theorem km_saveObj (cfg : Cfg) (s : State) (h : Nat) : KM cfg.codec (some h) s (saveObj cfg s h).1 := by
  rw [Loc.saveObj_eq]
  have hfr := Loc.saveRec_fr cfg s (s.obj h).id (s.obj h)
  refine ⟨hfr.now, by rw [hfr.heap]; exact Nat.le_refl _,
    fun y _ => Or.inl ⟨by rw [hfr.obj], by rw [hfr.obj]; exact Int.le_refl _⟩, ?_⟩
  intro i k' hk'
  have hc : lookup i (saveRec cfg s (s.obj h).id (s.obj h)).1.cache = lookup i s.cache := by rw [Loc.saveRec_cache]
  cases hok : (saveRec cfg s (s.obj h).id (s.obj h)).2.1 with
  | false =>
    rw [known_congr hc (by rw [Loc.saveRec_store_fail hok]) (fun y _ => by rw [hfr.obj])] at hk'
    exact Or.inl ⟨k', hk', truncC_le _ _⟩
  | true =>
    by_cases hi : i = (s.obj h).id
    · cases hl : lookup i s.cache with
      | some y =>
        rw [known_hit (hc.trans hl), hfr.obj] at hk'
        exact Or.inl ⟨_, known_hit hl, by simp only [Option.some.injEq] at hk'; rw [← hk']; exact truncC_le _ _⟩
      | none =>
        rw [known_miss (hc.trans hl), Loc.saveRec_store_ok hok, hi, Loc.lookup_insert_self] at hk'
        simp only [Option.map_some, Option.some.injEq] at hk'
        exact Or.inr (Or.inr ⟨h, rfl, hi.symm, by rw [← hk', enc_lastAccess]; exact Int.le_refl _⟩)
    · rw [known_congr hc (by rw [Loc.saveRec_store_ok hok, Loc.lookup_insert_ne (Ne.symm hi)]) (fun y _ => by rw [hfr.obj])] at hk'
      exact Or.inl ⟨k', hk', truncC_le _ _⟩

/-- overwrite the request's object (same id, same `lastAccess`) and save it directly. -/
theorem km_setObj_save (cfg : Cfg) (s : State) (h : Nat) (o : Sess) (hv : h < s.heap.length) (hid : o.id = (s.obj h).id)
    (hla : o.lastAccess = (s.obj h).lastAccess) : KM cfg.codec (some h) s (saveObj cfg (s.setObj h o) h).1 := by
  have h1 : KM cfg.codec (some h) s (s.setObj h o) := km_setObj_same _ _ s h o hid hla
  have h2 := km_saveObj cfg (s.setObj h o) h
  have ho : (s.setObj h o).obj h = o := Loc.obj_setObj_self hv o
  refine ⟨h2.now.trans h1.now, Nat.le_trans h1.len h2.len, ?_, ?_⟩
  · intro y hy
    rcases h2.obj y (by simpa using hy) with ⟨e2, l2⟩ | l2
    · rcases h1.obj y hy with ⟨e1, l1⟩ | l1
      · exact Or.inl ⟨e2.trans e1, Int.le_trans l1 l2⟩
      · exact Or.inr (Int.le_trans l1 l2)
    · exact Or.inr l2
  · intro i k' hk'
    rcases h2.le i k' hk' with ⟨k, hk, hl⟩ | hl | ⟨h', hx, hid', hl⟩
    · rcases h1.le i k hk with ⟨k0, hk0, hl0⟩ | hl0 | ⟨h', hx, hid', hl0⟩
      · exact Or.inl ⟨k0, hk0, Int.le_trans (truncC_le_trunc _ hl0) hl⟩
      · exact Or.inr (Or.inl (Int.le_trans (truncC_le_trunc _ hl0) hl))
      · exact Or.inr (Or.inr ⟨h', hx, hid', Int.le_trans (truncC_le_trunc _ hl0) hl⟩)
    · exact Or.inr (Or.inl hl)
    · simp only [Option.some.injEq] at hx
      subst hx
      rw [ho] at hid' hl
      exact Or.inr (Or.inr ⟨h, rfl, by rw [← hid, hid'], by rw [← hla]; exact hl⟩)

theorem km_hset (cfg : Cfg) (s : State) (h : Nat) (k : String) (v : Val) (hv : h < s.heap.length) :
    KM cfg.codec (some h) s (hset cfg s h k v).1 := by
  cases hd : (s.obj h).data with
  | none => rw [Loc.hset_none k v hd]; exact KM.refl _ _ s
  | some d => rw [Loc.hset_some k v hd]; exact km_setObj_save cfg s h _ hv rfl rfl

theorem km_hdel (cfg : Cfg) (s : State) (h : Nat) (k : String) (hv : h < s.heap.length) :
    KM cfg.codec (some h) s (hdel cfg s h k).1 := by
  rw [Loc.hdel_eq]; exact km_setObj_save cfg s h _ hv rfl rfl

theorem km_hgetdel (cfg : Cfg) (s : State) (h : Nat) (k : String) (hv : h < s.heap.length) :
    KM cfg.codec (some h) s (hgetdel cfg s h k).1 := by
  have hS := km_setObj_save cfg s h { s.obj h with data := (s.obj h).data.map (erase k) } hv rfl rfl
  unfold hgetdel
  split
  · exact KM.refl _ _ s
  · simp only []
    generalize saveObj cfg (s.setObj h { s.obj h with data := (s.obj h).data.map (erase k) }) h = g at hS
    obtain ⟨s2, ok, e⟩ := g
    exact hS

theorem km_hlogout (cfg : Cfg) (s : State) (h : Nat) (hv : h < s.heap.length) :
    KM cfg.codec (some h) s (hlogout cfg s h).1 := by
  cases hu : (s.obj h).user with
  | none => rw [Loc.hlogout_none hu]; exact KM.refl _ _ s
  | some u => rw [Loc.hlogout_some hu]; exact km_setObj_save cfg s h _ hv rfl rfl


/-! ## 8. being served -/

/-- the object `h` was handed out at `t`: it carries `t`, and the time known for its id is at least (the codec's
truncation of) `t` — in memory when the object is (still) cached, in the store when it was evicted in mid-request. -/
structure Served (c : Codec) (s : State) (h : Nat) (t : Int) : Prop where
  la : (s.obj h).lastAccess = t
  kn : ∀ k, known s (s.obj h).id = some k → truncC c t ≤ k

/-- `touch` on an object that is cached under its id. -/
theorem served_touch_cached (c : Codec) {s : State} {h : Nat} (r : Req) (hv : h < s.heap.length)
    (hc : lookup (s.obj h).id s.cache = some h) : Served c (touch s h r) h s.now := by
  have hid : ((touch s h r).obj h).id = (s.obj h).id := (Loc.touch_obj_keep s h h r).1
  have hla : ((touch s h r).obj h).lastAccess = s.now := by rw [Loc.touch_obj_self hv]
  refine ⟨hla, ?_⟩
  intro k hk
  rw [hid, known_hit (s := touch s h r) hc, hla] at hk
  simp only [Option.some.injEq] at hk
  rw [← hk]; exact truncC_le _ _

/-- `touch` on an object that was just served (`RegenerateID` inside `Start`). -/
theorem Served.after_touch {c : Codec} {s : State} {h : Nat} (hs : Served c s h s.now) (r : Req) (hv : h < s.heap.length) :
    Served c (touch s h r) h s.now := by
  have hid : ((touch s h r).obj h).id = (s.obj h).id := (Loc.touch_obj_keep s h h r).1
  have hla : ((touch s h r).obj h).lastAccess = s.now := by rw [Loc.touch_obj_self hv]
  refine ⟨hla, ?_⟩
  intro k hk
  rw [hid] at hk
  cases hl : lookup (s.obj h).id s.cache with
  | none =>
    rw [known_miss (s := touch s h r) hl] at hk
    exact hs.kn k (by rw [known_miss hl]; exact hk)
  | some y =>
    rw [known_hit (s := touch s h r) hl] at hk
    simp only [Option.some.injEq] at hk
    by_cases hy : h = y
    · subst hy; rw [hla] at hk; rw [← hk]; exact truncC_le _ _
    · rw [Loc.touch_obj_ne hy] at hk
      exact hs.kn k (by rw [known_hit hl, hk])

/-! ## 9. `RegenerateID` -/

theorem km_regenA (cfg : Cfg) (s : State) (h : Nat) (hn : (keys s.cache).Nodup) (hv : h < s.heap.length)
    (hm : cfg.maxCache ≠ 0) : KM cfg.codec none s (Loc.regenA cfg s h).1 := by
  have hfr := Loc.regenA_fr cfg s h
  have hS : KM cfg.codec none (Loc.regenS0 s h) (cacheSet cfg (Loc.regenS0 s h) h).1 :=
    km_cacheSet cfg (Loc.regenS0 s h) h hn (by rw [Loc.regenS0_heap_length]; exact hv) hm
  refine ⟨hfr.1, by rw [hfr.2.2.2.2.2]; exact Nat.le_refl _, ?_, ?_⟩
  · intro y _
    by_cases hy : h = y
    · subst hy
      right
      rw [Loc.regenA_obj_self cfg s h hv]; exact Int.le_refl _
    · left
      rw [Loc.regenA_obj_ne cfg s h hy]; exact ⟨rfl, Int.le_refl _⟩
  · intro i k' hk'
    have hk0 : known (Loc.regenS0 s h) i = known s i := by
      refine known_congr rfl rfl ?_
      intro y _
      by_cases hy : h = y
      · subst hy; rw [Loc.regenS0_obj_self s h hv]
      · rw [Loc.regenS0_obj_ne s h hy]
    rcases hS.le i k' hk' with ⟨k, hk, hl⟩ | hl | ⟨_, hx, _⟩
    · exact Or.inl ⟨k, by rw [← hk0]; exact hk, hl⟩
    · exact Or.inr (Or.inl hl)
    · cases hx

theorem regenA_valid (cfg : Cfg) (s : State) (h : Nat) (hv : h < s.heap.length)
    (hvld : ∀ k y, (k, y) ∈ s.cache → y < s.heap.length) :
    ∀ k y, (k, y) ∈ (Loc.regenA cfg s h).1.cache → y < (Loc.regenA cfg s h).1.heap.length := by
  intro k y hm
  rw [(Loc.regenA_fr cfg s h).2.2.2.2.2]
  rcases Loc.regenA_cache_mem cfg s h hv hm with e | e
  · rw [(Prod.mk.inj e).2]; exact hv
  · exact hvld k y e

theorem km_regenB (cfg : Cfg) (s : State) (h : Nat) (hn : (keys s.cache).Nodup) (hv : h < s.heap.length)
    (hvld : ∀ k y, (k, y) ∈ s.cache → y < s.heap.length) (hm : cfg.maxCache ≠ 0) :
    KM cfg.codec none (Loc.regenA cfg s h).1 (Loc.regenB cfg s h).1 := by
  have hnA : (keys (Loc.regenA cfg s h).1.cache).Nodup := cacheSet_nodup cfg (Loc.regenS0 s h) h hn
  have h1 : KM cfg.codec none (Loc.regenA cfg s h).1 (Loc.regenS2 cfg s h) := by
    unfold Loc.regenS2
    exact km_alloc _ _ _ _ (regenA_valid cfg s h hv hvld)
  have hc2 : (Loc.regenS2 cfg s h).cache = (Loc.regenA cfg s h).1.cache := by unfold Loc.regenS2; simp
  rw [Loc.regenB_eq]
  exact h1.trans (km_cacheSet cfg (Loc.regenS2 cfg s h) s.heap.length (by rw [hc2]; exact hnA)
    (by rw [Loc.regenS2_heap_length]; omega) hm)

/-- **`RegenerateID`** (every oracle, cache enabled). -/
theorem km_regenerate (cfg : Cfg) (s : State) (h : Nat) (hn : (keys s.cache).Nodup) (hv : h < s.heap.length)
    (hvld : ∀ k y, (k, y) ∈ s.cache → y < s.heap.length) (hm : cfg.maxCache ≠ 0) :
    KM cfg.codec none s (regenerate cfg s h).1 := by
  have hA := km_regenA cfg s h hn hv hm
  have hB := km_regenB cfg s h hn hv hvld hm
  rw [Loc.regenerate_eq]
  split
  · exact hA
  · split
    · exact hA.trans hB
    · exact (hA.trans hB).trans (KM.of_eq rfl rfl rfl rfl)

/-- after a fault-free `RegenerateID` the session is served under its new id: it is stamped with the current time, and
when the second `Set` evicted it (a size-1 cache) the eviction saved it with that stamp. -/
theorem regenerate_served (cfg : Cfg) (s : State) (h : Nat) (hnf : NoFail s) (hi : Inv cfg.codec s) (hk : HOK s h) :
    Served cfg.codec (regenerate cfg s h).1 h s.now := by
  have rd := regenerate_delta cfg s h hnf hi hk
  have hobj : (regenerate cfg s h).1.obj h = Loc.rotObj s h := rd.obj_h
  refine ⟨by rw [hobj]; rfl, ?_⟩
  intro k hk'
  have hid : ((regenerate cfg s h).1.obj h).id = .gen s.nextId := by rw [hobj]; rfl
  cases hl : lookup ((regenerate cfg s h).1.obj h).id (regenerate cfg s h).1.cache with
  | some y =>
    have : y = h := rd.hok.only y (lookup_some_mem hl)
    subst this
    rw [known_hit hl, hobj] at hk'
    simp only [Option.some.injEq] at hk'
    rw [← hk']; exact truncC_le _ _
  | none =>
    rw [known_miss hl, hid, rd.new_rec] at hk'
    simp only [Option.map_some, Option.some.injEq] at hk'
    rw [← hk', enc_lastAccess]; exact Int.le_refl _

/-! ## 10. creating a session -/

theorem km_createNew (cfg : Cfg) (s : State) (r : Req) (pre : List Ev) (hn : (keys s.cache).Nodup)
    (hvld : ∀ k y, (k, y) ∈ s.cache → y < s.heap.length) (hm : cfg.maxCache ≠ 0) :
    KM cfg.codec none s (createNew cfg s r pre).1 := by
  cases hc : r.create with
  | false => rw [Loc.createNew_no pre hc]; exact KM.refl _ _ s
  | true =>
    have h0 : KM cfg.codec none s ({ s with nextId := s.nextId + 1 } : State) := KM.of_eq rfl rfl rfl rfl
    have h1 : KM cfg.codec none s (Loc.newS1 s r) := by
      unfold Loc.newS1
      exact h0.trans (km_alloc _ _ _ _ hvld)
    have h2 : KM cfg.codec none (Loc.newS1 s r) (cacheSet cfg (Loc.newS1 s r) s.heap.length).1 :=
      km_cacheSet cfg (Loc.newS1 s r) s.heap.length hn (by simp [Loc.newS1]) hm
    rw [Loc.createNew_yes pre hc]
    split <;> exact h1.trans h2

theorem createNew_served (cfg : Cfg) (s : State) (r : Req) (pre : List Ev) (hm : cfg.maxCache ≠ 0) {h : Nat}
    (hres : (createNew cfg s r pre).2.1 = .sess h) :
    h < (createNew cfg s r pre).1.heap.length ∧ Served cfg.codec (createNew cfg s r pre).1 h s.now := by
  cases hc : r.create with
  | false => rw [Loc.createNew_no pre hc] at hres; cases hres
  | true =>
    rw [Loc.createNew_yes pre hc] at hres ⊢
    have hv : s.heap.length < (Loc.newS1 s r).heap.length := by simp [Loc.newS1]
    obtain ⟨s1, s2, s3⟩ := cacheSet_served cfg (Loc.newS1 s r) s.heap.length hv hm
    split at hres
    · cases hres
    · rename_i hok
      simp only [Res.sess.injEq] at hres
      subst hres
      rw [if_neg hok]
      refine ⟨by rw [Loc.cacheSet_heap_length]; exact hv, s1, ?_⟩
      intro k hk
      rw [s2, s3] at hk
      simp only [Option.some.injEq] at hk
      rw [← hk]; exact truncC_le _ _


/-! ## 11. `Start` -/

theorem inv_valid {c : Codec} {s : State} (hi : Inv c s) : ∀ k y, (k, y) ∈ s.cache → y < s.heap.length := hi.valid

/-- what `cache.Get` returns is cached under the requested id when the cache is enabled. -/
theorem cacheGet_cached {cfg : Cfg} {s s1 : State} {id : ID} {h : Nat} {e1 : List Ev} (hnf : NoFail s) (hi : Inv cfg.codec s)
    (hm : cfg.maxCache ≠ 0) (hg : cacheGet cfg s id = (s1, .some h, e1)) :
    h < s1.heap.length ∧ (s1.obj h).id = id ∧ lookup (s1.obj h).id s1.cache = some h := by
  have sp := Loc.cacheGet_spec cfg s id
  have gd := cacheGet_delta cfg s id hnf hi
  rw [hg] at sp gd
  have hc : lookup id s1.cache = some h := sp.some_cached h rfl hm
  rcases gd.res with ⟨h0, _⟩ | ⟨h', r0, h0, hk, hid, _⟩
  · cases h0
  · simp only [GetRes.some.injEq] at h0
    subst h0
    have hid' : (s1.obj h).id = id := hid
    exact ⟨hk.valid, hid', by rw [hid']; exact hc⟩

/-- **following references**: the end of the chain is cached under its id (it is what the last `cache.Get` returned). -/
theorem km_follow (cfg : Cfg) (n : Nat) (s : State) (h : Nat) (hnf : NoFail s) (hi : Inv cfg.codec s) (hm : cfg.maxCache ≠ 0) :
    KM cfg.codec none s (follow cfg n s h).1 ∧
    (∀ h2, (follow cfg n s h).2.1 = .some h2 → h < s.heap.length → lookup (s.obj h).id s.cache = some h →
      h2 < (follow cfg n s h).1.heap.length ∧
      lookup ((follow cfg n s h).1.obj h2).id (follow cfg n s h).1.cache = some h2) := by
  induction n generalizing s h with
  | zero =>
    rw [Loc.follow_zero]
    exact ⟨KM.refl _ _ s, by intro h2 hh; cases hh⟩
  | succ n ih =>
    cases href : (s.obj h).ref with
    | none =>
      rw [Loc.follow_succ_none n href]
      refine ⟨KM.refl _ _ s, ?_⟩
      intro h2 hh hv hc
      simp only [GetRes.some.injEq] at hh
      subst hh
      exact ⟨hv, hc⟩
    | some tgt =>
      rw [Loc.follow_succ_some n href]
      have hK := km_cacheGet cfg s tgt hi.cnodup hi.valid
      have gd := cacheGet_delta cfg s tgt hnf hi
      generalize hg : cacheGet cfg s tgt = g at hK gd
      obtain ⟨s1, res, e1⟩ := g
      cases res with
      | err => exact ⟨hK, by intro h2 hh; cases hh⟩
      | nil => exact ⟨hK, by intro h2 hh; cases hh⟩
      | some h1 =>
        obtain ⟨hv1, _, hc1⟩ := cacheGet_cached hnf hi hm hg
        obtain ⟨ih1, ih2⟩ := ih s1 h1 gd.nofail gd.inv
        simp only [Loc.followStep]
        exact ⟨hK.trans ih1, fun h2 hh _ _ => ih2 h2 hh hv1 hc1⟩

/-- **`Start`** (fault-free, from an `Inv` state, cache enabled): no known access time goes back, and a session it
returns is served at the current time. -/
theorem km_start (cfg : Cfg) (s : State) (r : Req) (hnf : NoFail s) (hi : Inv cfg.codec s) (hm : cfg.maxCache ≠ 0) :
    KM cfg.codec none s (start cfg s r).1 ∧
    (∀ h, (start cfg s r).2.1 = .sess h → h < (start cfg s r).1.heap.length ∧ Served cfg.codec (start cfg s r).1 h s.now) := by
  rcases start_cases cfg s r hnf hi with ⟨_, heq⟩ | ⟨id, s1, res, e1, hck, hlen, hg, gd, hcase⟩
  · rw [heq]
    exact ⟨km_createNew cfg s r [] hi.cnodup hi.valid hm, fun h hh => createNew_served cfg s r [] hm hh⟩
  · have hK1 : KM cfg.codec none s s1 := by
      have := km_cacheGet cfg s id hi.cnodup hi.valid
      rwa [hg] at this
    have hi1 : Inv cfg.codec s1 := gd.inv
    have hnf1 : NoFail s1 := gd.nofail
    have hnow1 : s1.now = s.now := gd.fr.1
    rcases hcase with ⟨hres, heq⟩ | ⟨h, hres, hk, hid, hfound⟩
    · rw [heq]
      refine ⟨hK1.trans (km_createNew cfg s1 r _ hi1.cnodup hi1.valid hm), fun h hh => ?_⟩
      rw [← hnow1]; exact createNew_served cfg s1 r _ hm hh
    · subst hres
      obtain ⟨hv, hid', hc⟩ := cacheGet_cached hnf hi hm hg
      rcases hfound with ⟨_, heq⟩ | ⟨_, href, _, heq⟩ | ⟨_, href, _, heq⟩ | ⟨t, _, href, _, heq⟩ | ⟨t, _, href, _, heq⟩
      · -- invalid: destroyed, then `createNew`
        rw [heq]
        have hid2 : Inv cfg.codec (delSt s1 id) := delSt_inv id hi1
        refine ⟨(hK1.trans (km_delSt _ _ s1 id)).trans (km_createNew cfg _ r _ hid2.cnodup hid2.valid hm), fun h' hh => ?_⟩
        have := createNew_served cfg (delSt s1 id) r _ hm hh
        rw [delSt_now, hnow1] at this
        exact this
      · -- valid, full, young
        rw [heq]
        refine ⟨hK1.trans (km_touch _ _ s1 h r), fun h' hh => ?_⟩
        simp only [Res.sess.injEq] at hh; subst hh
        rw [← hnow1]
        exact ⟨by simpa using hv, served_touch_cached _ r hv hc⟩
      · -- valid, full, rotated
        rw [heq]
        refine ⟨(hK1.trans (km_regenerate cfg s1 h hi1.cnodup hv hi1.valid hm)).trans (km_touch _ _ _ h r), fun h' hh => ?_⟩
        simp only [Res.sess.injEq] at hh; subst hh
        have hS := regenerate_served cfg s1 h hnf1 hi1 hk
        have hnowR : (regenerate cfg s1 h).1.now = s1.now := Loc.regenerate_now cfg s1 h
        have hvR : h < (regenerate cfg s1 h).1.heap.length := Nat.lt_of_lt_of_le hv (Loc.regenerate_heap_length_ge cfg s1 h)
        rw [← hnowR] at hS
        have := hS.after_touch r hvR
        rw [hnowR, hnow1] at this
        exact ⟨by simpa using hvR, this⟩
      · -- the back-stop
        rw [heq]
        exact ⟨hK1.trans (km_delSt _ _ s1 id), by intro h' hh; cases hh⟩
      · -- a reference: follow the chain
        rw [heq]
        obtain ⟨hF1, hF2⟩ := km_follow cfg (s1.store.length + s1.cache.length + 1) s1 h hnf1 hi1 hm
        have fd := follow_delta cfg (s1.store.length + s1.cache.length + 1) s1 h hnf1 hi1 hk
          (by
            have := More.C10.get_coh (cfg := cfg) (s := s) (id := id) (h1 := h) hi (by rw [hg])
            rw [hg] at this
            obtain ⟨r0, hl, hess⟩ := this
            exact ⟨r0, by rw [hid']; exact hl, hess⟩)
        generalize follow cfg (s1.store.length + s1.cache.length + 1) s1 h = out at hF1 hF2 fd
        obtain ⟨s2, res2, e2⟩ := out
        cases res2 with
        | err => exact ⟨hK1.trans hF1, by intro h' hh; cases hh⟩
        | nil => exact ⟨hK1.trans hF1, by intro h' hh; cases hh⟩
        | some h2 =>
          simp only [Loc.startRef]
          refine ⟨(hK1.trans hF1).trans (km_touch _ _ s2 h2 r), fun h' hh => ?_⟩
          simp only [Res.sess.injEq] at hh; subst hh
          obtain ⟨hv2, hc2⟩ := hF2 h2 rfl hv hc
          have hnow2 : s2.now = s1.now := fd.fr.1
          rw [← hnow1, ← hnow2]
          exact ⟨by simpa using hv2, served_touch_cached _ r hv2 hc2⟩


/-! ## 12. the user loops, `LogIn`, `Destroy` -/

/-- overwrite an object (same id, same `lastAccess`) and `cache.Set` it. -/
theorem km_setObj_cacheSet (cfg : Cfg) (s : State) (h : Nat) (o : Sess) (hn : (keys s.cache).Nodup) (hv : h < s.heap.length)
    (hm : cfg.maxCache ≠ 0) (hid : o.id = (s.obj h).id) (hla : o.lastAccess = (s.obj h).lastAccess) :
    KM cfg.codec none s (cacheSet cfg (s.setObj h o) h).1 :=
  (km_setObj_same _ _ s h o hid hla).trans (km_cacheSet cfg (s.setObj h o) h hn (by simpa using hv) hm)

theorem km_setUserAll (cfg : Cfg) (u : Option (String × Nat)) (ids : List ID) (s : State) (hnf : NoFail s)
    (hi : Inv cfg.codec s) (hm : cfg.maxCache ≠ 0) : KM cfg.codec none s (setUserAll cfg u ids s).1 := by
  induction ids generalizing s with
  | nil => exact KM.refl _ _ s
  | cons id rest ih =>
    have hG := km_cacheGet cfg s id hi.cnodup hi.valid
    have hP := Sx.cacheGet_spec cfg s id hnf hi
    generalize hg : cacheGet cfg s id = g at hG hP
    obtain ⟨s1, res, e1⟩ := g
    simp only at hG hP
    cases res with
    | err => rw [Loc.setUserAll_cons_err hg]; exact hG
    | nil => rw [Loc.setUserAll_cons_nil hg]; exact hG.trans (ih s1 hP.step.nofail hP.inv)
    | some h =>
      rw [Loc.setUserAll_cons_some hg]
      have hk : HOK s1 h := by
        rcases hP.res with h0 | ⟨h', h0, hk, _⟩
        · cases h0
        · simp only [GetRes.some.injEq] at h0; subst h0; exact hk
      have hS : KM cfg.codec none s1 (Loc.userSet cfg u s1 h).1 :=
        km_setObj_cacheSet cfg s1 h { s1.obj h with user := u } hP.inv.cnodup hk.valid hm rfl rfl
      have hSP := setObj_cacheSet_spec cfg s1 h { s1.obj h with user := u } hP.step.nofail hP.inv hk.toHL rfl rfl
      split
      · exact hG.trans hS
      · exact (hG.trans hS).trans (ih (Loc.userSet cfg u s1 h).1 hSP.step.nofail hSP.inv)

theorem km_forUser (cfg : Cfg) (le : ID → ID → Bool) (s : State) (uid : String) (u : Option (String × Nat)) (hnf : NoFail s)
    (hi : Inv cfg.codec s) (hm : cfg.maxCache ≠ 0) : KM cfg.codec none s (forUser cfg le s uid u).1 := by
  rw [Loc.forUser_eq]
  split
  · exact KM.of_eq rfl rfl rfl rfl
  · have hnf' : NoFail s.pop := hnf.popF
    have hi' : Inv cfg.codec s.pop := hi.congr rfl rfl rfl rfl rfl
    exact (KM.of_eq (c := cfg.codec) (x := none) (s := s) (s' := s.pop) rfl rfl rfl rfl).trans
      (km_setUserAll cfg u (userSessions le s.pop uid) s.pop hnf' hi' hm)

theorem km_logoutUser (cfg : Cfg) (le : ID → ID → Bool) (s : State) (uid : String) (hnf : NoFail s) (hi : Inv cfg.codec s)
    (hm : cfg.maxCache ≠ 0) : KM cfg.codec none s (logoutUser cfg le s uid).1 := km_forUser cfg le s uid none hnf hi hm

theorem km_refreshUser (cfg : Cfg) (le : ID → ID → Bool) (s : State) (uid : String) (hnf : NoFail s) (hi : Inv cfg.codec s)
    (hm : cfg.maxCache ≠ 0) : KM cfg.codec none s (refreshUser cfg le s uid).1 := by
  unfold refreshUser
  exact (KM.of_eq (c := cfg.codec) (x := none) (s := s)
      (s' := ({ s with vers := insert uid (s.ver uid + 1) s.vers } : State)) rfl rfl rfl rfl).trans
    (km_forUser cfg le ({ s with vers := insert uid (s.ver uid + 1) s.vers } : State) uid _ hnf
      (hi.congr rfl rfl rfl rfl rfl) hm)

theorem km_loginFirst (cfg : Cfg) (le : ID → ID → Bool) (s : State) (h : Nat) (uid : String) (excl : Bool) (hnf : NoFail s)
    (hi : Inv cfg.codec s) (hv : h < s.heap.length) (hm : cfg.maxCache ≠ 0) :
    KM cfg.codec (some h) s (loginFirst cfg le s h uid excl).1 := by
  unfold loginFirst
  cases excl with
  | true => exact (km_logoutUser cfg le s uid hnf hi hm).weaken _
  | false =>
    have hL := km_hlogout cfg s h hv
    simp only [Bool.false_eq_true, if_false]
    generalize hlogout cfg s h = g at hL
    obtain ⟨s1, r1, e1⟩ := g
    exact hL

/-- **`s.LogIn`** (fault-free): the first phase may write the request's object through; the `Set` and the final
`RegenerateID` stamp it, and afterwards it is served under its new id. -/
theorem km_hlogin (cfg : Cfg) (le : ID → ID → Bool) (s : State) (h : Nat) (uid : String) (excl : Bool) (hnf : NoFail s)
    (hi : Inv cfg.codec s) (hk : HOK s h) (hm : cfg.maxCache ≠ 0) :
    KM cfg.codec (some h) s (hlogin cfg le s h uid excl).1 ∧ Served cfg.codec (hlogin cfg le s h uid excl).1 h s.now := by
  rw [Sx.hlogin_eq]
  obtain ⟨h1, h2, h3⟩ := loginFirst_spec cfg le s h uid excl hnf hi hk
  have hK1 := km_loginFirst cfg le s h uid excl hnf hi hk.valid hm
  generalize loginFirst cfg le s h uid excl = g1 at h1 h2 h3 hK1
  obtain ⟨s1, ok1, e1⟩ := g1
  simp only at h1 h2 h3 hK1
  subst h1
  have hl1 : HL s1 h := hk.toHL.step h3
  unfold loginTail
  simp only [Bool.not_true, Bool.false_eq_true, if_false]
  have hS := setObj_cacheSet_spec cfg s1 h { s1.obj h with user := some (uid, s1.ver uid) } h3.nofail h2 hl1 rfl rfl
  have hK3 := km_setObj_cacheSet cfg s1 h { s1.obj h with user := some (uid, s1.ver uid) } h2.cnodup hl1.valid hm rfl rfl
  have hnow3 := Loc.cacheSet_now cfg (s1.setObj h { s1.obj h with user := some (uid, s1.ver uid) }) h
  generalize cacheSet cfg (s1.setObj h { s1.obj h with user := some (uid, s1.ver uid) }) h = g3 at hS hK3 hnow3
  obtain ⟨s3, ok3, e3⟩ := g3
  obtain ⟨hok3, hinv3, hst3, hhok3, _, _⟩ := hS
  simp only at hok3 hinv3 hst3 hhok3 hK3 hnow3
  subst hok3
  simp only [Bool.not_true, Bool.false_eq_true, if_false]
  have hK4 := km_regenerate cfg s3 h hinv3.cnodup hhok3.valid hinv3.valid hm
  have hS4 := regenerate_served cfg s3 h hst3.nofail hinv3 hhok3
  generalize regenerate cfg s3 h = g4 at hK4 hS4
  obtain ⟨s4, ok4, e4⟩ := g4
  simp only at hK4 hS4 ⊢
  have hnow : s3.now = s.now := by
    have : s3.now = s1.now := hnow3
    rw [this]; exact hK1.now
  exact ⟨(hK1.trans hK3).trans hK4, by rw [← hnow]; exact hS4⟩

theorem km_destroy (c : Codec) (x : Option Nat) (s : State) (h : Nat) (b : Bool) (hnf : NoFail s) : KM c x s (destroy s h b).1 := by
  rw [destroy_nf s h b hnf]
  exact km_delSt c x s _

end Sx.Glob
