import Sessions.Proofs.Inv.All
import Sessions.Proofs.Local.All
import Sessions.Proofs.More.All
/-!
# What every model function does to the *store*, up to `ess` (shared by Own01 / Dead07 / Users08)

The history-level invariants of C01/C07/C08 are statements about the stored records (the cache follows by
`Inv.coh`). This file describes, for every model function run fault-free from an `Inv` state, what happens to
every stored record:

* `EssEqX X st st'` — outside the keys in `X`, no key appears or disappears and every record keeps its
  essentials (`ess = (user, created, ref, data)`); flushes (idle sweep, eviction, `PurgeSessions`, the
  compaction runs inside `cache.Get`/`cache.Set`) only re-write the encoding of a coherent cached object, so
  they are invisible up to `ess`.
* `QuietX X s s' evs` — additionally the events: outside `X` every `.save` re-writes an existing record
  with the same `ess`; every `.del` concerns a key in `X`.
* per function: `cacheSet_quiet`, `cacheGet_delta`, `compact_quiet`, `purge_delta`, `createNew_delta`,
  `regenerate_delta`, `follow_delta`, fault-free equation lemmas for `Start`, `advance_delta`.
-/
namespace Sx.Glob

open Sx.Loc (Flushed IsFlush)

/-! ## 1. relations on stores -/

/-- outside `X`: the same keys, and the same essentials under every key. -/
def EssEqX (X : ID → Prop) (st st' : List (ID × Rec)) : Prop :=
  ∀ k, ¬ X k → (lookup k st').map ess = (lookup k st).map ess

/-- no key is excepted. -/
def NoX : ID → Prop := fun _ => False

theorem EssEqX.refl (X : ID → Prop) (st : List (ID × Rec)) : EssEqX X st st := fun _ _ => rfl

theorem EssEqX.of_eq {X : ID → Prop} {st st' : List (ID × Rec)} (h : st' = st) : EssEqX X st st' := by
  subst h; exact EssEqX.refl X _

theorem EssEqX.trans {X : ID → Prop} {a b d : List (ID × Rec)} (h1 : EssEqX X a b) (h2 : EssEqX X b d) : EssEqX X a d :=
  fun k hk => (h2 k hk).trans (h1 k hk)

theorem EssEqX.mono {X Y : ID → Prop} {a b : List (ID × Rec)} (h : EssEqX X a b) (hxy : ∀ k, X k → Y k) : EssEqX Y a b :=
  fun k hk => h k (fun hx => hk (hxy k hx))

/-- reading a record through `EssEqX`, forwards. -/
theorem EssEqX.fwd {X : ID → Prop} {a b : List (ID × Rec)} (h : EssEqX X a b) {k : ID} (hk : ¬ X k) {r : Rec}
    (hl : lookup k a = some r) : ∃ r', lookup k b = some r' ∧ ess r' = ess r := by
  have := h k hk
  rw [hl] at this
  cases hb : lookup k b with
  | none => rw [hb] at this; simp at this
  | some r' => rw [hb] at this; simp only [Option.map_some, Option.some.injEq] at this; exact ⟨r', rfl, this⟩

/-- … and backwards. -/
theorem EssEqX.bwd {X : ID → Prop} {a b : List (ID × Rec)} (h : EssEqX X a b) {k : ID} (hk : ¬ X k) {r' : Rec}
    (hl : lookup k b = some r') : ∃ r, lookup k a = some r ∧ ess r' = ess r := by
  have := h k hk
  rw [hl] at this
  cases ha : lookup k a with
  | none => rw [ha] at this; simp at this
  | some r => rw [ha] at this; simp only [Option.map_some, Option.some.injEq] at this; exact ⟨r, rfl, this⟩

theorem EssEqX.none_fwd {X : ID → Prop} {a b : List (ID × Rec)} (h : EssEqX X a b) {k : ID} (hk : ¬ X k)
    (hl : lookup k a = none) : lookup k b = none := by
  have := h k hk
  rw [hl] at this
  cases hb : lookup k b with
  | none => rfl
  | some r' => rw [hb] at this; simp at this

theorem EssEqX.none_bwd {X : ID → Prop} {a b : List (ID × Rec)} (h : EssEqX X a b) {k : ID} (hk : ¬ X k)
    (hl : lookup k b = none) : lookup k a = none := by
  have := h k hk
  rw [hl] at this
  cases ha : lookup k a with
  | none => rfl
  | some r' => rw [ha] at this; simp at this

theorem ess_ref {r r' : Rec} (h : ess r = ess r') : r.ref = r'.ref := congrArg (·.2.2.1) h
theorem ess_user {r r' : Rec} (h : ess r = ess r') : r.user = r'.user := congrArg (·.1) h
theorem ess_data {r r' : Rec} (h : ess r = ess r') : r.data = r'.data := congrArg (·.2.2.2) h
theorem ess_created {r r' : Rec} (h : ess r = ess r') : r.created = r'.created := congrArg (·.2.1) h

/-- the cache entries outside `X`, read through `obj`, agree with the store on the essentials. -/
def CohX (c : Codec) (X : ID → Prop) (cache : List (ID × Nat)) (obj : Nat → Sess) (st : List (ID × Rec)) : Prop :=
  ∀ k h, (k, h) ∈ cache → ¬ X k → ∃ r, lookup k st = some r ∧ ess (enc c (obj h)) = ess r

theorem cohX_of_inv {c : Codec} {s : State} (hi : Inv c s) (X : ID → Prop) : CohX c X s.cache s.obj s.store :=
  fun k h hm _ => hi.coh k h hm (by simp)

theorem cohX_of_invX {c : Codec} {x : ID} {s : State} (hi : InvX c (some x) s) : CohX c (fun k => k = x) s.cache s.obj s.store :=
  fun k h hm hk => hi.coh k h hm (by intro e; simp only [Option.some.injEq] at e; exact hk e)

/-- coherence survives a change of the store up to `ess`, a shrinking cache and objects that keep their essentials. -/
theorem CohX.step {c : Codec} {X : ID → Prop} {cache cache' : List (ID × Nat)} {obj obj' : Nat → Sess}
    {st st' : List (ID × Rec)} (h : CohX c X cache obj st) (hs : EssEqX X st st')
    (hc : ∀ k x, (k, x) ∈ cache' → ¬ X k → (k, x) ∈ cache ∧ ess (enc c (obj' x)) = ess (enc c (obj x))) :
    CohX c X cache' obj' st' := by
  intro k x hm hk
  obtain ⟨hm0, he⟩ := hc k x hm hk
  obtain ⟨r, hl, her⟩ := h k x hm0 hk
  obtain ⟨r', hl', he'⟩ := hs.fwd hk hl
  exact ⟨r', hl', by rw [he, her, he']⟩

theorem CohX.mono {c : Codec} {X Y : ID → Prop} {cache : List (ID × Nat)} {obj : Nat → Sess} {st : List (ID × Rec)}
    (h : CohX c X cache obj st) (hxy : ∀ k, X k → Y k) : CohX c Y cache obj st :=
  fun k x hm hk => h k x hm (fun hx => hk (hxy k hx))

/-- **quiet outside `X`**: records keep their essentials, saves re-write existing records, deletes stay in `X`. -/
structure QuietX (X : ID → Prop) (s s' : State) (evs : List Ev) : Prop where
  ess : EssEqX X s.store s'.store
  saves : ∀ k r, Ev.save k r ∈ evs → ¬ X k → ∃ r0, lookup k s.store = some r0 ∧ Sx.ess r = Sx.ess r0
  dels : ∀ k, Ev.del k ∈ evs → X k

theorem QuietX.refl (X : ID → Prop) (s : State) : QuietX X s s [] :=
  ⟨EssEqX.refl X _, by intro k r h; simp at h, by intro k h; simp at h⟩

/-- a step that leaves the store alone and emits neither a save nor a delete. -/
theorem QuietX.of_store_eq {X : ID → Prop} {s s' : State} {evs : List Ev} (h : s'.store = s.store)
    (hs : ∀ k r, Ev.save k r ∉ evs) (hd : ∀ k, Ev.del k ∉ evs) : QuietX X s s' evs :=
  ⟨EssEqX.of_eq h, fun k r hm _ => absurd hm (hs k r), fun k hm => absurd hm (hd k)⟩

theorem QuietX.trans {X : ID → Prop} {a b d : State} {e1 e2 : List Ev} (h1 : QuietX X a b e1) (h2 : QuietX X b d e2) :
    QuietX X a d (e1 ++ e2) := by
  refine ⟨h1.ess.trans h2.ess, ?_, ?_⟩
  · intro k r hm hk
    rcases List.mem_append.mp hm with hm | hm
    · exact h1.saves k r hm hk
    · obtain ⟨r1, hl1, he1⟩ := h2.saves k r hm hk
      obtain ⟨r0, hl0, he0⟩ := h1.ess.bwd hk hl1
      exact ⟨r0, hl0, he1.trans he0⟩
  · intro k hm
    rcases List.mem_append.mp hm with hm | hm
    · exact h1.dels k hm
    · exact h2.dels k hm

theorem QuietX.mono {X Y : ID → Prop} {s s' : State} {evs : List Ev} (h : QuietX X s s' evs) (hxy : ∀ k, X k → Y k) :
    QuietX Y s s' evs :=
  ⟨h.ess.mono hxy, fun k r hm hk => h.saves k r hm (fun hx => hk (hxy k hx)), fun k hm => hxy k (h.dels k hm)⟩

/-- events that are neither saves nor deletes may be added anywhere. -/
theorem QuietX.evs_congr {X : ID → Prop} {s s' : State} {evs evs' : List Ev} (h : QuietX X s s' evs)
    (hs : ∀ k r, Ev.save k r ∈ evs' → Ev.save k r ∈ evs) (hd : ∀ k, Ev.del k ∈ evs' → Ev.del k ∈ evs) :
    QuietX X s s' evs' :=
  ⟨h.ess, fun k r hm hk => h.saves k r (hs k r hm) hk, fun k hm => h.dels k (hd k hm)⟩

/-- the same step seen from / to states with the same store. -/
theorem QuietX.congr {X : ID → Prop} {s s' t t' : State} {evs : List Ev} (h : QuietX X s s' evs)
    (h1 : t.store = s.store) (h2 : t'.store = s'.store) : QuietX X t t' evs :=
  ⟨by rw [h1, h2]; exact h.ess, by rw [h1]; exact h.saves, h.dels⟩

/-! ## 2. flushes -/

theorem ess_enc_lastAccess (c : Codec) (o : Sess) (t : Int) : ess (enc c { o with lastAccess := t }) = ess (enc c o) :=
  ess_enc_congr c rfl rfl rfl rfl

/-- a run of flushes of entries of `cache`, the objects read through `s.obj`, is quiet outside `X` when those
entries are coherent outside `X`. -/
theorem flushed_quiet {cfg : Cfg} {X : ID → Prop} {cache : List (ID × Nat)} {s s' : State} {evs : List Ev}
    (hf : Flushed cfg cache s s' evs) (hc : CohX cfg.codec X cache s.obj s.store) : QuietX X s s' evs := by
  refine ⟨?_, ?_, ?_⟩
  · intro k hk
    rcases hf.store_lk k with h | ⟨x, hm, h⟩
    · rw [h]
    · obtain ⟨r, hl, he⟩ := hc k x hm hk
      rw [h, hl]; simp only [Option.map_some, he]
  · intro k r hm hk
    obtain ⟨k', x, hmx, h | h⟩ := hf.evs_flush _ hm
    · simp only [Ev.save.injEq] at h
      obtain ⟨rfl, rfl⟩ := h
      obtain ⟨r0, hl, he⟩ := hc k x hmx hk
      exact ⟨r0, hl, he⟩
    · cases h
  · intro k hm
    obtain ⟨k', x, _, h | h⟩ := hf.evs_flush _ hm <;> cases h

/-! ## 3. `cache.Set` -/

theorem setObjNow_ess (c : Codec) (s : State) (h x : Nat) :
    ess (enc c ((Loc.setObjNow s h).obj x)) = ess (enc c (s.obj x)) := by
  by_cases hx : h = x
  · subst hx
    rw [Loc.setObjNow_obj_self]
    split
    · exact ess_enc_lastAccess c _ _
    · rfl
  · rw [Loc.setObjNow_obj_ne hx]

/-- **`cache.Set`, every oracle**: outside `X` and the object's own id it is quiet, provided the cache entries
outside `X` are coherent. -/
theorem cacheSet_quiet (cfg : Cfg) (X : ID → Prop) (s : State) (h : Nat)
    (hc : CohX cfg.codec X s.cache s.obj s.store) :
    QuietX (fun k => X k ∨ k = (s.obj h).id) s (cacheSet cfg s h).1 (cacheSet cfg s h).2.2 := by
  have hc0 : CohX cfg.codec X (Loc.setObjNow s h).cache (Loc.setObjNow s h).obj (Loc.setObjNow s h).store := by
    intro k x hm hk
    obtain ⟨r, hl, he⟩ := hc k x hm hk
    exact ⟨r, hl, by rw [setObjNow_ess]; exact he⟩
  have hq := flushed_quiet (Loc.setC_flushed cfg s h) hc0
  refine ⟨?_, ?_, ?_⟩
  · intro k hk
    have hk1 : ¬ X k := fun hx => hk (Or.inl hx)
    have hk2 : k ≠ (s.obj h).id := fun e => hk (Or.inr e)
    have hst : lookup k (cacheSet cfg s h).1.store = lookup k (Loc.setC cfg s h).1.store := by
      cases hok : (cacheSet cfg s h).2.1 with
      | true => rw [Loc.cacheSet_store_ok hok, Loc.lookup_insert_ne (Ne.symm hk2)]
      | false => rw [Loc.cacheSet_store_fail hok]
    rw [hst]
    exact hq.ess k hk1
  · intro k r hm hk
    have hk1 : ¬ X k := fun hx => hk (Or.inl hx)
    have hk2 : k ≠ (s.obj h).id := fun e => hk (Or.inr e)
    rw [Loc.cacheSet_evs] at hm
    rcases List.mem_append.mp hm with hm | hm
    · exact hq.saves k r hm hk1
    · simp only [List.mem_singleton] at hm
      split at hm
      · simp only [Ev.save.injEq] at hm; exact absurd hm.1 hk2
      · cases hm
  · intro k hm
    rw [Loc.cacheSet_evs] at hm
    rcases List.mem_append.mp hm with hm | hm
    · exact Or.inl (hq.dels k hm)
    · simp only [List.mem_singleton] at hm
      split at hm <;> cases hm

/-- fault-free, `cache.Set` succeeds and writes the encoding of the (stamped) object under its id. -/
theorem cacheSet_nf (cfg : Cfg) (s : State) (h : Nat) (hnf : NoFail s) :
    (cacheSet cfg s h).2.1 = true ∧ NoFail (cacheSet cfg s h).1 ∧
    lookup (s.obj h).id (cacheSet cfg s h).1.store = some (enc cfg.codec ((cacheSet cfg s h).1.obj h)) := by
  have hfl := Loc.setC_flushed cfg s h
  have hnfC : NoFail (Loc.setC cfg s h).1 := More.c05_nofail_of_drop (s := Loc.setObjNow s h) hnf hfl.fails_drop
  have hok : (cacheSet cfg s h).2.1 = true := by
    rw [Loc.cacheSet_ok_iff]
    cases hf : (Loc.setC cfg s h).1.fails with
    | nil => rfl
    | cons b r =>
      have : b = false := hnfC b (by rw [hf]; exact List.mem_cons_self)
      subst this; rfl
  refine ⟨hok, ?_, ?_⟩
  · intro b hb
    rw [Loc.cacheSet_fails] at hb
    exact hnfC b (List.mem_of_mem_tail hb)
  · rw [Loc.cacheSet_store_ok hok]; simp

/-! ## 4. `cache.Get` -/

/-- **`cache.Get`, fault-free from an `Inv` state**: quiet; `.nil` exactly when there is no record; a returned
handle satisfies `HOK`, carries the id and agrees with the stored record on the essentials; never `.err`. -/
structure GetDelta (cfg : Cfg) (s : State) (id : ID) (r : State × GetRes × List Ev) : Prop where
  inv : Inv cfg.codec r.1
  nofail : NoFail r.1
  quiet : QuietX NoX s r.1 r.2.2
  fr : r.1.now = s.now ∧ r.1.nextId = s.nextId ∧ r.1.timers = s.timers ∧ r.1.vers = s.vers ∧ r.1.extra = s.extra
  len : s.heap.length ≤ r.1.heap.length
  obj_old : ∀ x, x < s.heap.length → r.1.obj x = s.obj x
  nocookie : ∀ e ∈ r.2.2, isCookie e = false
  res : (r.2.1 = .nil ∧ lookup id s.store = none ∧ lookup id s.cache = none) ∨
        ∃ h r0, r.2.1 = .some h ∧ HOK r.1 h ∧ (r.1.obj h).id = id ∧ lookup id s.store = some r0 ∧
          ess (enc cfg.codec (r.1.obj h)) = ess r0 ∧
          ((lookup id s.cache = some h ∧ r.1 = s) ∨
           (lookup id s.cache = none ∧ h = s.heap.length ∧ r.1.obj h = dec s.ver id r0))
  step : Step cfg.codec s r.1 r.2.2
  cache_src : ∀ p ∈ r.1.cache, p ∈ s.cache ∨ p.1 = id

theorem cacheGet_delta (cfg : Cfg) (s : State) (id : ID) (hnf : NoFail s) (hi : Inv cfg.codec s) :
    GetDelta cfg s id (cacheGet cfg s id) := by
  have sp := Loc.cacheGet_spec cfg s id
  have gp := Sx.cacheGet_spec cfg s id hnf hi
  have hobj : ∀ k x, (k, x) ∈ s.cache → (cacheGet cfg s id).1.obj x = s.obj x :=
    fun k x hm => sp.obj_old x (hi.valid k x hm)
  have hquiet : QuietX NoX s (cacheGet cfg s id).1 (cacheGet cfg s id).2.2 := by
    refine ⟨?_, ?_, ?_⟩
    · intro k _
      rcases sp.store_lk k with h | ⟨x, hm, h⟩
      · rw [h]
      · obtain ⟨r, hl, he⟩ := hi.coh k x hm (by simp)
        rw [h, hl, hobj k x hm]; simp only [Option.map_some, he]
    · intro k r hm _
      rcases sp.evs_shape _ hm with h | h | h | h | h | ⟨u, h⟩ | ⟨u, h⟩
      · obtain ⟨k', x, hmx, h | h⟩ := h
        · simp only [Ev.save.injEq] at h
          obtain ⟨rfl, rfl⟩ := h
          obtain ⟨r0, hl, he⟩ := hi.coh k x hmx (by simp)
          exact ⟨r0, hl, by rw [hobj k x hmx]; exact he⟩
        · cases h
      all_goals cases h
    · intro k hm
      rcases sp.evs_shape _ hm with h | h | h | h | h | ⟨u, h⟩ | ⟨u, h⟩
      · obtain ⟨k', x, _, h | h⟩ := h <;> cases h
      all_goals cases h
  have hnoc : ∀ e ∈ (cacheGet cfg s id).2.2, isCookie e = false := by
    intro e hm
    rcases sp.evs_shape _ hm with h | h | h | h | h | ⟨u, h⟩ | ⟨u, h⟩
    · obtain ⟨k', x, _, h | h⟩ := h <;> subst h <;> rfl
    all_goals (subst h; rfl)
  have hlen : s.heap.length ≤ (cacheGet cfg s id).1.heap.length := by
    rcases sp.heap with h | ⟨o, h, _⟩ <;> rw [h] <;> simp
  refine ⟨gp.inv, gp.step.nofail, hquiet, ⟨sp.now, sp.nextId, sp.timers, sp.vers, sp.extra⟩, hlen, sp.obj_old, hnoc, ?_,
    gp.step, gp.src⟩
  rcases gp.res with hnil | ⟨h, hres, hk, hid⟩
  · left
    obtain ⟨_, h2, h3, _⟩ := sp.nil_evs hnil
    exact ⟨hnil, h3, h2⟩
  · right
    rcases sp.some_valid h hres with ⟨hc, heq, _⟩ | ⟨hh, hmiss, hl1, _⟩
    · have hm := lookup_some_mem hc
      obtain ⟨r0, hl, he⟩ := hi.coh id h hm (by simp)
      refine ⟨h, r0, hres, hk, hid, hl, ?_, Or.inl ⟨hc, heq⟩⟩
      rw [heq]; exact he
    · rcases sp.heap with hh0 | ⟨o, hheap, _, _, _, r0, hl, ho⟩
      · rw [hh0] at hl1; omega
      · have hobjh : (cacheGet cfg s id).1.obj h = dec s.ver id r0 := by
          rw [More.i3_obj_append hheap, if_pos hh, ho]
        have hnorm : Norm cfg.codec r0 := hi.sok.norm id r0 (lookup_some_mem hl)
        exact ⟨h, r0, hres, hk, hid, hl, by rw [hobjh]; exact ess_enc_dec hnorm _ _, Or.inr ⟨hmiss, hh, hobjh⟩⟩

/-! ## 5. `compact`, `PurgeSessions` -/

theorem compact_quiet (cfg : Cfg) (req : Int) (s : State) (hi : Inv cfg.codec s) :
    QuietX NoX s (compact cfg req s).1 (compact cfg req s).2 :=
  flushed_quiet (Loc.compact_flushed cfg req s) (cohX_of_inv hi NoX)

theorem purgeList_quiet (cfg : Cfg) (cache : List (ID × Nat)) (obj : Nat → Sess) :
    ∀ (l : List (ID × Nat)) (s : State), (∀ p ∈ l, p ∈ cache) → s.obj = obj →
      CohX cfg.codec NoX cache obj s.store →
      QuietX NoX s (purgeList cfg s l).1 (purgeList cfg s l).2 ∧ (purgeList cfg s l).1.heap = s.heap
  | [], s, _, _, _ => ⟨QuietX.refl _ s, rfl⟩
  | (id, h) :: rest, s, hl, ho, hc => by
    have hm : (id, h) ∈ cache := hl _ List.mem_cons_self
    obtain ⟨r0, hl0, he0⟩ := hc id h hm (fun hx => hx)
    have hfr := Loc.saveRec_fr cfg s id (s.obj h)
    have h1 : QuietX NoX s (saveRec cfg s id (s.obj h)).1 (saveRec cfg s id (s.obj h)).2.2 := by
      rw [Loc.saveRec_eq]
      split
      · exact QuietX.of_store_eq rfl (by intro k r hm; simp at hm) (by intro k hm; simp at hm)
      · refine ⟨?_, ?_, ?_⟩
        · intro k _
          show (lookup k (insert id _ s.store)).map ess = _
          by_cases hk : id = k
          · subst hk; rw [Loc.lookup_insert_self, hl0, ho]; simp only [Option.map_some, he0]
          · rw [Loc.lookup_insert_ne hk]
        · intro k r hm _
          simp only [List.mem_singleton, Ev.save.injEq] at hm
          obtain ⟨rfl, rfl⟩ := hm
          exact ⟨r0, hl0, by rw [ho]; exact he0⟩
        · intro k hm; simp at hm
    have ho1 : (saveRec cfg s id (s.obj h)).1.obj = obj := by
      funext x; rw [hfr.obj, ho]
    have hc1 : CohX cfg.codec NoX cache obj (saveRec cfg s id (s.obj h)).1.store :=
      hc.step h1.ess (fun k x hm _ => ⟨hm, rfl⟩)
    obtain ⟨h2, h3⟩ := purgeList_quiet cfg cache obj rest _ (fun p hp => hl p (List.mem_cons_of_mem _ hp)) ho1 hc1
    simp only [purgeList]
    exact ⟨h1.trans h2, h3.trans hfr.heap⟩

/-- **`PurgeSessions`** (every oracle, from an `Inv` state): quiet, the heap is untouched, the cache is empty. -/
theorem purge_delta (cfg : Cfg) (s : State) (hi : Inv cfg.codec s) :
    QuietX NoX s (purge cfg s).1 (purge cfg s).2 ∧ (purge cfg s).1.heap = s.heap ∧ (purge cfg s).1.cache = [] := by
  obtain ⟨h1, h2⟩ := purgeList_quiet cfg s.cache s.obj (orderBy s.picks s.cache) s (fun p hp => mem_orderBy_sub hp) rfl
    (cohX_of_inv hi NoX)
  unfold purge
  generalize purgeList cfg s (orderBy s.picks s.cache) = g at h1 h2
  obtain ⟨s1, e1⟩ := g
  exact ⟨h1.congr rfl rfl, h2, rfl⟩
/-! ## 6. creating a session -/

/-- **`createNew` with `create = true`, fault-free from an `Inv` state.** -/
structure NewDelta (cfg : Cfg) (s : State) (r : Req) (pre : List Ev) (out : State × Res × List Ev) : Prop where
  res : out.2.1 = .sess s.heap.length
  evs : out.2.2 = pre ++ (Loc.newSet cfg s r).2.2 ++ [.setCookie (.gen s.nextId)]
  st : out.1 = (Loc.newSet cfg s r).1
  quiet : QuietX (fun k => k = .gen s.nextId) s out.1 (Loc.newSet cfg s r).2.2
  nocookie : ∀ e ∈ (Loc.newSet cfg s r).2.2, isCookie e = false
  saved : lookup (.gen s.nextId) out.1.store = some (enc cfg.codec (Loc.newObj s r))
  obj_new : out.1.obj s.heap.length = Loc.newObj s r
  obj_old : ∀ x, x < s.heap.length → out.1.obj x = s.obj x
  len : out.1.heap.length = s.heap.length + 1
  fr : out.1.now = s.now ∧ out.1.nextId = s.nextId + 1 ∧ out.1.timers = s.timers ∧ out.1.vers = s.vers ∧ out.1.extra = s.extra
  nofail : NoFail out.1
  cache_src : ∀ p ∈ out.1.cache, p = (.gen s.nextId, s.heap.length) ∨ p ∈ s.cache

theorem createNew_delta (cfg : Cfg) (s : State) (r : Req) (pre : List Ev) (hnf : NoFail s) (hi : Inv cfg.codec s)
    (hc : r.create = true) : NewDelta cfg s r pre (createNew cfg s r pre) := by
  have hnf1 : NoFail (Loc.newS1 s r) := hnf
  obtain ⟨hok, hnf', hsaved⟩ := cacheSet_nf cfg (Loc.newS1 s r) s.heap.length hnf1
  have hok' : (Loc.newSet cfg s r).2.1 = true := hok
  have hcoh : CohX cfg.codec NoX (Loc.newS1 s r).cache (Loc.newS1 s r).obj (Loc.newS1 s r).store := by
    intro k x hm _
    obtain ⟨r0, hl, he⟩ := hi.coh k x hm (by simp)
    exact ⟨r0, hl, by rw [Loc.newS1_obj_old (hi.valid k x hm)]; exact he⟩
  have hq := cacheSet_quiet cfg NoX (Loc.newS1 s r) s.heap.length hcoh
  rw [Loc.newS1_obj_new] at hq
  have hq' : QuietX (fun k => k = .gen s.nextId) s (Loc.newSet cfg s r).1 (Loc.newSet cfg s r).2.2 :=
    (hq.congr (t := s) (t' := (Loc.newSet cfg s r).1) rfl rfl).mono (fun k hk => hk.elim (fun h => h.elim) id)
  have heq : createNew cfg s r pre =
      ((Loc.newSet cfg s r).1, .sess s.heap.length, pre ++ (Loc.newSet cfg s r).2.2 ++ [.setCookie (ID.gen s.nextId)]) := by
    rw [Loc.createNew_yes' pre hc, hok']; simp
  rw [heq]
  refine ⟨rfl, rfl, rfl, hq', ?_, ?_, Loc.newSet_obj_new cfg s r, fun x hx => Loc.newSet_obj_old cfg hx r,
    Loc.newSet_heap_length cfg s r, ⟨Loc.newSet_now cfg s r, Loc.newSet_nextId cfg s r, ?_, ?_, ?_⟩, hnf', ?_⟩
  · intro e he
    rw [Loc.newSet_evs] at he
    rcases List.mem_append.mp he with he | he
    · rcases (Loc.setC_flushed cfg _ _).ev_cases he with ⟨k, rc, rfl⟩ | ⟨k, rfl⟩ <;> rfl
    · simp only [List.mem_singleton] at he
      split at he <;> subst he <;> rfl
  · have := hsaved
    rw [Loc.newS1_obj_new] at this
    have h2 : (cacheSet cfg (Loc.newS1 s r) s.heap.length).1.obj s.heap.length = Loc.newObj s r := Loc.newSet_obj_new cfg s r
    rw [h2] at this
    exact this
  · show (cacheSet cfg (Loc.newS1 s r) s.heap.length).1.timers = _
    rw [Loc.cacheSet_timers]; rfl
  · show (cacheSet cfg (Loc.newS1 s r) s.heap.length).1.vers = _
    rw [Loc.cacheSet_vers]; rfl
  · show (cacheSet cfg (Loc.newS1 s r) s.heap.length).1.extra = _
    rw [Loc.cacheSet_extra]; rfl
  · intro p hp
    rcases Loc.cacheSet_cache_mem cfg (Loc.newS1 s r) s.heap.length hp with h | h
    · left; rw [h, Loc.newS1_obj_new]; rfl
    · exact Or.inr h.1

/-- the new object, field by field. -/
theorem newObj_fields (s : State) (r : Req) :
    (Loc.newObj s r).id = .gen s.nextId ∧ (Loc.newObj s r).user = none ∧ (Loc.newObj s r).data = some [] ∧
    (Loc.newObj s r).ref = none ∧ (Loc.newObj s r).created = s.now := ⟨rfl, rfl, rfl, rfl, rfl⟩

/-! ## 7. deleting a session -/

/-- the state after a fault-free `cache.Delete(id)`. -/
def delSt (s : State) (id : ID) : State := delS { s with cache := erase id s.cache } id

@[simp] theorem delSt_store (s : State) (id : ID) : (delSt s id).store = erase id s.store := rfl
@[simp] theorem delSt_cache (s : State) (id : ID) : (delSt s id).cache = erase id s.cache := rfl
@[simp] theorem delSt_heap (s : State) (id : ID) : (delSt s id).heap = s.heap := rfl
@[simp] theorem delSt_nextId (s : State) (id : ID) : (delSt s id).nextId = s.nextId := rfl
@[simp] theorem delSt_timers (s : State) (id : ID) : (delSt s id).timers = s.timers := rfl
@[simp] theorem delSt_now (s : State) (id : ID) : (delSt s id).now = s.now := rfl
@[simp] theorem delSt_extra (s : State) (id : ID) : (delSt s id).extra = s.extra := rfl
@[simp] theorem delSt_vers (s : State) (id : ID) : (delSt s id).vers = s.vers := rfl
theorem delSt_obj (s : State) (id : ID) (x : Nat) : (delSt s id).obj x = s.obj x := rfl

theorem delSt_nofail {s : State} (id : ID) (hnf : NoFail s) : NoFail (delSt s id) := hnf.popF

theorem delSt_inv {c : Codec} {x : Option ID} {s : State} (id : ID) (hi : InvX c x s) : InvX c x (delSt s id) :=
  (inv_delete id hi).congr rfl rfl rfl rfl rfl

theorem delSt_quiet (s : State) (id : ID) : QuietX (fun k => k = id) s (delSt s id) [.del id] := by
  refine ⟨?_, by intro k r h; simp at h, by intro k h; simpa using h⟩
  intro k hk
  show (lookup k (erase id s.store)).map ess = _
  rw [Loc.lookup_erase_ne (fun e => hk e.symm)]

theorem cacheDelete_nf (s : State) (id : ID) (hnf : NoFail s) : cacheDelete s id = (delSt s id, true, [.del id]) :=
  Sx.cacheDelete_eq s id hnf

/-- fault-free `Destroy`: the record and the cache entry are gone; the deletion cookie is sent (and the call
reports success) exactly when the request carried the cookie. -/
theorem destroy_nf (s : State) (h : Nat) (b : Bool) (hnf : NoFail s) :
    destroy s h b = (delSt s (s.obj h).id, b, if b = true then [.del (s.obj h).id, .delCookie] else [.del (s.obj h).id]) := by
  rw [Loc.destroy_eq, cacheDelete_nf s _ hnf]
  cases b <;> simp

/-- fault-free `Start` on an object that fails the validity test. -/
theorem startInvalid_nf (cfg : Cfg) (s1 : State) (h : Nat) (r : Req) (e1 : List Ev) (hnf : NoFail s1) :
    Loc.startInvalid cfg s1 h r e1 =
      createNew cfg (delSt s1 (s1.obj h).id) r (e1 ++ [.del (s1.obj h).id, .delCookie]) := by
  rw [Loc.startInvalid, destroy_nf s1 h true hnf]; simp

/-- fault-free back-stop of the reference branch. -/
theorem startValid_ref_expired_nf {cfg : Cfg} {s1 : State} {h : Nat} {t : ID} (id : ID) (r : Req) (e1 : List Ev)
    (hnf : NoFail s1) (href : (s1.obj h).ref = some t)
    (hage : since s1.now (s1.obj h).created ≥ cfg.idExpiry ∧ since s1.now (s1.obj h).created - cfg.idExpiry ≥ cfg.grace) :
    startValid cfg s1 id h r e1 = (delSt s1 id, .err "idexpired", e1 ++ [.del id]) := by
  rw [Loc.startValid_ref_expired id r e1 href hage, cacheDelete_nf s1 id hnf]; simp

/-- fault-free rotation inside `Start`. -/
theorem startValid_rotate_nf {cfg : Cfg} {s1 : State} {h : Nat} (id : ID) (r : Req) (e1 : List Ev)
    (hnf : NoFail s1) (hi : Inv cfg.codec s1) (hl : HL s1 h)
    (href : (s1.obj h).ref = none) (hage : since s1.now (s1.obj h).created ≥ cfg.idExpiry) :
    startValid cfg s1 id h r e1 = (touch (regenerate cfg s1 h).1 h r, .sess h, e1 ++ (regenerate cfg s1 h).2.2) := by
  rw [Loc.startValid_rotate id r e1 href hage, (Sx.regenerate_spec cfg s1 h hnf hl hi).ok]; simp

/-! ## 8. `RegenerateID` -/

/-- **`RegenerateID` on a handle satisfying `HOK`, fault-free from an `Inv` state**: outside the old and the new
id it is quiet; under the new id lies the encoding of the session (same user, same data), under the old id the
reference record; the saves under these two ids are saves of the session itself (`ref` as before) or the final
save of the reference record. -/
structure RegenDelta (cfg : Cfg) (s : State) (h : Nat) (out : State × Bool × List Ev) : Prop where
  ok : out.2.1 = true
  inv : Inv cfg.codec out.1
  hok : HOK out.1 h
  nofail : NoFail out.1
  quiet : QuietX (fun k => k = (s.obj h).id ∨ k = .gen s.nextId) s out.1 out.2.2
  obj_h : out.1.obj h = Loc.rotObj s h
  obj_ref : out.1.obj s.heap.length = Loc.rotRef s h
  obj_old : ∀ x, x < s.heap.length → x ≠ h → out.1.obj x = s.obj x
  len : out.1.heap.length = s.heap.length + 1
  new_rec : lookup (.gen s.nextId) out.1.store = some (enc cfg.codec (Loc.rotObj s h))
  old_rec : lookup (s.obj h).id out.1.store = some (enc cfg.codec (Loc.rotRef s h))
  ne : (s.obj h).id ≠ .gen s.nextId
  new_absent : lookup (.gen s.nextId) s.store = none
  fr : out.1.now = s.now ∧ out.1.nextId = s.nextId + 1 ∧
       out.1.timers = s.timers ++ [(s.now + cfg.grace, (s.obj h).id)] ∧ out.1.vers = s.vers ∧ out.1.extra = s.extra
  cookies : out.2.2.filter isCookie = [.setCookie (.gen s.nextId)]
  xsaves : ∀ k r, Ev.save k r ∈ out.2.2 → (k = (s.obj h).id ∨ k = .gen s.nextId) →
    r.ref = (s.obj h).ref ∨ (k = (s.obj h).id ∧ r = enc cfg.codec (Loc.rotRef s h))
  ref_saved : Ev.save (s.obj h).id (enc cfg.codec (Loc.rotRef s h)) ∈ out.2.2

theorem regenerate_vers_extra (cfg : Cfg) (s : State) (h : Nat) :
    (regenerate cfg s h).1.vers = s.vers ∧ (regenerate cfg s h).1.extra = s.extra := by
  rw [Loc.regenerate_eq]
  have hA := Loc.regenA_fr cfg s h
  have hB := Loc.regenB_fr cfg s h
  split
  · exact ⟨hA.2.2.2.1, hA.2.2.2.2.1⟩
  · split
    · exact ⟨hB.2.2.2.1, hB.2.2.2.2.1⟩
    · exact ⟨hB.2.2.2.1, hB.2.2.2.2.1⟩

theorem regenerate_delta (cfg : Cfg) (s : State) (h : Nat) (hnf : NoFail s) (hi : Inv cfg.codec s) (hk : HOK s h) :
    RegenDelta cfg s h (regenerate cfg s h) := by
  have rp := Sx.regenerate_spec cfg s h hnf hk.toHL hi
  have hv := hk.valid
  have hne : (s.obj h).id ≠ ID.gen s.nextId := hk.minted.ne_gen
  have hfresh : ∀ x, (ID.gen s.nextId, x) ∉ s.cache := fun x hm => (hi.ckeys _ x hm).ne_gen rfl
  have lp := Loc.regenerate_spec cfg s h hv hfresh hne rp.ok
  obtain ⟨l1, l2, l3, l4, l5, l6, l7, l8, l9, _⟩ := lp
  have hev := Loc.regenerate_evs_ok cfg s h hv rp.ok
  -- the cache entry under the old id, if any, is `h`
  have hold : ∀ x, ((s.obj h).id, x) ∈ s.cache → x = h := hk.only
  have hkey : ∀ k x, (k, x) ∈ s.cache → k ≠ (s.obj h).id → x ≠ h := by
    intro k x hm hkne e
    subst e
    exact hkne (hi.wf k x hm (by simp)).symm
  -- phase 1
  have hc0 : CohX cfg.codec (fun k => k = (s.obj h).id) (Loc.regenS0 s h).cache (Loc.regenS0 s h).obj (Loc.regenS0 s h).store := by
    intro k x hm hkx
    obtain ⟨r0, hl, he⟩ := hi.coh k x hm (by simp)
    exact ⟨r0, hl, by rw [Loc.regenS0_obj_ne s h (Ne.symm (hkey k x hm hkx))]; exact he⟩
  have hqA := cacheSet_quiet cfg _ (Loc.regenS0 s h) h hc0
  rw [Loc.regenS0_id s h hv] at hqA
  have hqA' : QuietX (fun k => k = (s.obj h).id ∨ k = .gen s.nextId) s (Loc.regenA cfg s h).1 (Loc.regenA cfg s h).2.2 :=
    hqA.congr (t := s) (t' := (Loc.regenA cfg s h).1) rfl rfl
  -- phase 2
  have hS2c : (Loc.regenS2 cfg s h).cache = (Loc.regenA cfg s h).1.cache := by unfold Loc.regenS2; simp
  have hS2s : (Loc.regenS2 cfg s h).store = (Loc.regenA cfg s h).1.store := by unfold Loc.regenS2; simp
  have hc2 : CohX cfg.codec (fun k => k = (s.obj h).id ∨ k = .gen s.nextId) (Loc.regenS2 cfg s h).cache
      (Loc.regenS2 cfg s h).obj (Loc.regenS2 cfg s h).store := by
    rw [hS2s]
    refine (hc0.mono (fun k hk => Or.inl hk)).step hqA.ess ?_
    intro k x hm hkx
    rw [hS2c] at hm
    rcases Loc.regenA_cache_mem cfg s h hv hm with e | hm0
    · exact absurd (Prod.mk.inj e).1 (fun e' => hkx (Or.inr e'))
    · refine ⟨hm0, ?_⟩
      have hx := hi.valid k x hm0
      rw [Loc.regenS2_obj_old cfg s h hx]
      show ess (enc cfg.codec ((cacheSet cfg (Loc.regenS0 s h) h).1.obj x)) = _
      rw [Loc.cacheSet_obj]; exact setObjNow_ess _ _ _ _
  have hqB := cacheSet_quiet cfg _ (Loc.regenS2 cfg s h) s.heap.length hc2
  rw [Loc.regenS2_ref_id cfg s h hv, ← Loc.regenB_eq] at hqB
  have hqB' : QuietX (fun k => k = (s.obj h).id ∨ k = .gen s.nextId) (Loc.regenA cfg s h).1 (Loc.regenB cfg s h).1
      (Loc.regenB cfg s h).2.2 :=
    (hqB.congr (t := (Loc.regenA cfg s h).1) (t' := (Loc.regenB cfg s h).1) hS2s.symm rfl).mono
      (fun k hk => hk.elim id Or.inl)
  obtain ⟨hst, hevs⟩ := Loc.regenerate_state_ok cfg s h rp.ok
  have hquiet : QuietX (fun k => k = (s.obj h).id ∨ k = .gen s.nextId) s (regenerate cfg s h).1 (regenerate cfg s h).2.2 := by
    have h3 : QuietX (fun k => k = (s.obj h).id ∨ k = .gen s.nextId) s (regenerate cfg s h).1
        ((Loc.regenA cfg s h).2.2 ++ (Loc.regenB cfg s h).2.2) := (hqA'.trans hqB').congr rfl (by rw [hst])
    rw [hevs]
    refine h3.evs_congr ?_ ?_
    · intro k r hm
      rcases List.mem_append.mp hm with hm | hm
      · exact hm
      · simp at hm
    · intro k hm
      rcases List.mem_append.mp hm with hm | hm
      · exact hm
      · simp at hm
  have hve := regenerate_vers_extra cfg s h
  refine ⟨rp.ok, rp.inv, rp.hok, rp.mono.nofail, hquiet, l2, l3, l5, l4, l6, l7, hne, More.C10.new_absent hi,
    ⟨l9, l1, l8, hve.1, hve.2⟩, (Loc.regenerate_cookie_last cfg s h rp.ok).2, ?_, ?_⟩
  · -- the saves under the two ids
    intro k r hm hkx
    rw [hev] at hm
    simp only [List.mem_append, List.mem_singleton] at hm
    have hrot : (Loc.rotObj s h).ref = (s.obj h).ref := rfl
    rcases hm with (((hm | hm) | hm) | hm) | hm
    · -- flush in the first compaction
      obtain ⟨k', x, hmx, e | e⟩ := (Loc.setC_flushed cfg (Loc.regenS0 s h) h).evs_flush _ hm
      · simp only [Ev.save.injEq] at e
        obtain ⟨rfl, rfl⟩ := e
        have hmx' : (k, x) ∈ s.cache := hmx
        left
        rcases hkx with e | e
        · subst e
          have := hold x hmx'
          subst this
          rw [enc_ref, Loc.setObjNow_obj_self, if_pos (by rw [Loc.regenS0_heap_length]; exact hv), Loc.regenS0_obj_self s x hv]
        · subst e; exact absurd hmx' (hfresh x)
      · cases e
    · simp only [Ev.save.injEq] at hm
      left; rw [hm.2, enc_ref]; exact hrot
    · -- flush in the second compaction
      obtain ⟨k', x, hmx, e | e⟩ := (Loc.setC_flushed cfg (Loc.regenS2 cfg s h) s.heap.length).evs_flush _ hm
      · simp only [Ev.save.injEq] at e
        obtain ⟨rfl, rfl⟩ := e
        have hmx' : (k, x) ∈ (Loc.regenA cfg s h).1.cache := by rw [← hS2c]; exact hmx
        have hxh : x = h := by
          rcases Loc.regenA_cache_mem cfg s h hv hmx' with e | hm0
          · exact (Prod.mk.inj e).2
          · rcases hkx with e | e
            · subst e; exact hold x hm0
            · subst e; exact absurd hm0 (hfresh x)
        subst hxh
        left
        rw [enc_ref, Loc.setObjNow_obj_ne (by omega), Loc.regenS2_obj_old cfg s x hv, Loc.regenA_obj_self cfg s x hv]
        rfl
      · cases e
    · simp only [Ev.save.injEq] at hm
      exact Or.inr ⟨hm.1, hm.2⟩
    · cases hm
  · rw [hev]; simp

/-- the two records `RegenerateID` leaves, field by field (`rotObj`: same user, same data, no reference). -/
theorem rotObj_fields (s : State) (h : Nat) :
    (Loc.rotObj s h).id = .gen s.nextId ∧ (Loc.rotObj s h).user = (s.obj h).user ∧ (Loc.rotObj s h).data = (s.obj h).data ∧
    (Loc.rotObj s h).ref = (s.obj h).ref ∧ (Loc.rotObj s h).created = s.now := ⟨rfl, rfl, rfl, rfl, rfl⟩

theorem rotRef_fields (s : State) (h : Nat) :
    (Loc.rotRef s h).id = (s.obj h).id ∧ (Loc.rotRef s h).user = none ∧ (Loc.rotRef s h).data = none ∧
    (Loc.rotRef s h).ref = some (.gen s.nextId) := ⟨rfl, rfl, rfl, rfl⟩


/-! ## 9. following references -/

/-- handle coherence: the record under the object's id agrees with the object on the essentials. -/
def HCoh (c : Codec) (s : State) (h : Nat) : Prop :=
  ∃ r, lookup (s.obj h).id s.store = some r ∧ ess (enc c (s.obj h)) = ess r

theorem HCoh.of_cached {c : Codec} {s : State} {id : ID} {h : Nat} (hi : Inv c s) (hm : (id, h) ∈ s.cache) : HCoh c s h := by
  obtain ⟨r, hl, he⟩ := hi.coh id h hm (by simp)
  exact ⟨r, by rw [hi.wf id h hm (by simp)]; exact hl, he⟩

/-- handle coherence survives a quiet step that leaves the object alone. -/
theorem HCoh.quiet {c : Codec} {X : ID → Prop} {s s' : State} {evs : List Ev} {h : Nat} (hc : HCoh c s h)
    (hq : QuietX X s s' evs) (ho : s'.obj h = s.obj h) (hx : ¬ X (s.obj h).id) : HCoh c s' h := by
  obtain ⟨r, hl, he⟩ := hc
  obtain ⟨r', hl', he'⟩ := hq.ess.fwd hx hl
  exact ⟨r', by rw [ho]; exact hl', by rw [ho, he, he']⟩

/-- **`follow`, fault-free from an `Inv` state, started on a coherent handle**: quiet; never `.err`; a returned
handle satisfies `HOK`, is a session proper and is coherent with its record. -/
structure FollowDelta (cfg : Cfg) (s : State) (out : State × GetRes × List Ev) : Prop where
  inv : Inv cfg.codec out.1
  nofail : NoFail out.1
  quiet : QuietX NoX s out.1 out.2.2
  fr : out.1.now = s.now ∧ out.1.nextId = s.nextId ∧ out.1.timers = s.timers ∧ out.1.vers = s.vers ∧ out.1.extra = s.extra
  len : s.heap.length ≤ out.1.heap.length
  obj_old : ∀ x, x < s.heap.length → out.1.obj x = s.obj x
  nocookie : ∀ e ∈ out.2.2, isCookie e = false
  res : out.2.1 = .nil ∨ ∃ h2, out.2.1 = .some h2 ∧ HOK out.1 h2 ∧ (out.1.obj h2).ref = none ∧ HCoh cfg.codec out.1 h2

theorem follow_delta (cfg : Cfg) (n : Nat) (s : State) (h : Nat) (hnf : NoFail s) (hi : Inv cfg.codec s) (hk : HOK s h)
    (hc : HCoh cfg.codec s h) : FollowDelta cfg s (follow cfg n s h) := by
  induction n generalizing s h with
  | zero =>
    rw [Loc.follow_zero]
    exact ⟨hi, hnf, QuietX.refl _ s, ⟨rfl, rfl, rfl, rfl, rfl⟩, Nat.le_refl _, fun _ _ => rfl, by simp, Or.inl rfl⟩
  | succ n ih =>
    cases href : (s.obj h).ref with
    | none =>
      rw [Loc.follow_succ_none n href]
      exact ⟨hi, hnf, QuietX.refl _ s, ⟨rfl, rfl, rfl, rfl, rfl⟩, Nat.le_refl _, fun _ _ => rfl, by simp,
        Or.inr ⟨h, rfl, hk, href, hc⟩⟩
    | some tgt =>
      rw [Loc.follow_succ_some n href]
      have gd := cacheGet_delta cfg s tgt hnf hi
      generalize cacheGet cfg s tgt = g at gd
      obtain ⟨s1, res, e1⟩ := g
      rcases gd.res with ⟨hres, _, _⟩ | ⟨h2, r0, hres, hk2, hid2, hl0, he0, _⟩
      · simp only at hres; subst hres
        exact ⟨gd.inv, gd.nofail, gd.quiet, gd.fr, gd.len, gd.obj_old, gd.nocookie, Or.inl rfl⟩
      · simp only at hres; subst hres
        have hc2 : HCoh cfg.codec s1 h2 := by
          obtain ⟨r', hl', he'⟩ := gd.quiet.ess.fwd (fun hx => hx) hl0
          exact ⟨r', by rw [hid2]; exact hl', by show ess (enc cfg.codec (s1.obj h2)) = _; rw [he0, he']⟩
        have fd := ih s1 h2 gd.nofail gd.inv hk2 hc2
        simp only [Loc.followStep]
        generalize follow cfg n s1 h2 = f at fd
        obtain ⟨s2, res2, e2⟩ := f
        obtain ⟨g1, g2, g3, g4, g5⟩ := gd.fr
        obtain ⟨f1, f2, f3, f4, f5⟩ := fd.fr
        refine ⟨fd.inv, fd.nofail, gd.quiet.trans fd.quiet,
          ⟨f1.trans g1, f2.trans g2, f3.trans g3, f4.trans g4, f5.trans g5⟩, Nat.le_trans gd.len fd.len, ?_, ?_, fd.res⟩
        · intro x hx
          have h1 := gd.obj_old x hx
          have h2' := fd.obj_old x (Nat.lt_of_lt_of_le hx gd.len)
          exact h2'.trans h1
        · intro e he
          rcases List.mem_append.mp he with he | he
          · exact gd.nocookie e he
          · exact fd.nocookie e he

/-! ## 10. `touch` -/

theorem touch_quiet (X : ID → Prop) (s : State) (h : Nat) (r : Req) : QuietX X s (touch s h r) [] :=
  QuietX.of_store_eq rfl (by intro k rc hm; simp at hm) (by intro k hm; simp at hm)

theorem touch_ess (c : Codec) (s : State) (h x : Nat) (r : Req) :
    ess (enc c ((touch s h r).obj x)) = ess (enc c (s.obj x)) := by
  obtain ⟨_, h2, h3, h4, h5⟩ := Loc.touch_obj_keep s h x r
  exact ess_enc_congr c (by rw [h2]) h4 h5 h3

theorem HCoh.touch {c : Codec} {s : State} {k : Nat} (hc : HCoh c s k) (h : Nat) (r : Req) : HCoh c (touch s h r) k := by
  obtain ⟨r0, hl, he⟩ := hc
  exact ⟨r0, by rw [(Loc.touch_obj_keep s h k r).1]; exact hl, by rw [touch_ess]; exact he⟩

/-! ## 11. time -/

/-- **`advance`** (a `wait`, or the 1 ns tick after an API call): a record (a cache entry) disappears only if a
clean-up goroutine was waiting for its id; nothing else changes but the clock and the list of pending timers. -/
theorem advance_delta (s : State) (d : Int) :
    (∀ k, lookup k (advance s d).1.store = lookup k s.store ∨
      (lookup k (advance s d).1.store = none ∧ ∃ t, (t, k) ∈ s.timers ∧ t ≤ s.now + d)) ∧
    (∀ k, lookup k (advance s d).1.cache = lookup k s.cache ∨
      (lookup k (advance s d).1.cache = none ∧ ∃ t, (t, k) ∈ s.timers ∧ t ≤ s.now + d)) ∧
    (∀ p ∈ (advance s d).1.timers, p ∈ s.timers) ∧ (∀ e ∈ (advance s d).1.cache, e ∈ s.cache) ∧
    (advance s d).1.heap = s.heap ∧ (advance s d).1.nextId = s.nextId ∧ (advance s d).1.vers = s.vers ∧
    (advance s d).1.extra = s.extra ∧ (advance s d).1.now = s.now + d := by
  obtain ⟨c1, c2, _, c4, c5⟩ := More.c05_cleanup_advance s d
  obtain ⟨a1, _, a3⟩ := More.c05_advance_sub s d
  have hfr : (advance s d).1.nextId = s.nextId ∧ (advance s d).1.vers = s.vers ∧ (advance s d).1.extra = s.extra := by
    apply advance_ind (fun s' => s'.nextId = s.nextId ∧ s'.vers = s.vers ∧ s'.extra = s.extra)
    · intro tm _; exact ⟨rfl, rfl, rfl⟩
    · intro s' id h; exact h
    · intro s' t h; exact h
  have hcase : ∀ k, (∀ t id, (t, id) ∈ s.timers → t ≤ s.now + d → id ≠ k) ∨ ∃ t, (t, k) ∈ s.timers ∧ t ≤ s.now + d := by
    intro k
    by_cases hex : ∃ t, (t, k) ∈ s.timers ∧ t ≤ s.now + d
    · exact Or.inr hex
    · left
      intro t id hm ht e
      subst e
      exact hex ⟨t, hm, ht⟩
  refine ⟨?_, ?_, ?_, a1, a3, hfr.1, hfr.2.1, hfr.2.2, c1⟩
  · intro k
    rcases hcase k with h | ⟨t, hm, ht⟩
    · exact Or.inl (c5 k h).2
    · exact Or.inr ⟨(c4 t k hm ht).2, t, hm, ht⟩
  · intro k
    rcases hcase k with h | ⟨t, hm, ht⟩
    · exact Or.inl (c5 k h).1
    · exact Or.inr ⟨(c4 t k hm ht).1, t, hm, ht⟩
  · intro p hp
    rw [c2] at hp
    exact (List.mem_filter.mp hp).1


/-! ## 12. `Start`, fault-free, as a list of cases -/

/-- the branches of a fault-free `Start` on a found object `h` (state `s1` after `cache.Get`, events `e1`). -/
def StartFound (cfg : Cfg) (s : State) (r : Req) (id : ID) (s1 : State) (h : Nat) (e1 : List Ev) : Prop :=
  (validFor cfg s1.now (s1.obj h) r = false ∧
      start cfg s r = createNew cfg (delSt s1 id) r (e1 ++ [.del id, .delCookie])) ∨
  (validFor cfg s1.now (s1.obj h) r = true ∧ (s1.obj h).ref = none ∧ since s1.now (s1.obj h).created < cfg.idExpiry ∧
      start cfg s r = (touch s1 h r, .sess h, e1)) ∨
  (validFor cfg s1.now (s1.obj h) r = true ∧ (s1.obj h).ref = none ∧ since s1.now (s1.obj h).created ≥ cfg.idExpiry ∧
      start cfg s r = (touch (regenerate cfg s1 h).1 h r, .sess h, e1 ++ (regenerate cfg s1 h).2.2)) ∨
  (∃ t, validFor cfg s1.now (s1.obj h) r = true ∧ (s1.obj h).ref = some t ∧
      (since s1.now (s1.obj h).created ≥ cfg.idExpiry ∧ since s1.now (s1.obj h).created - cfg.idExpiry ≥ cfg.grace) ∧
      start cfg s r = (delSt s1 id, .err "idexpired", e1 ++ [.del id])) ∨
  (∃ t, validFor cfg s1.now (s1.obj h) r = true ∧ (s1.obj h).ref = some t ∧
      ¬ (since s1.now (s1.obj h).created ≥ cfg.idExpiry ∧ since s1.now (s1.obj h).created - cfg.idExpiry ≥ cfg.grace) ∧
      start cfg s r = Loc.startRef r e1 (follow cfg (s1.store.length + s1.cache.length + 1) s1 h))

/-- **the case list of a fault-free `Start` from an `Inv` state.** Either no (well-formed) cookie was presented and
`Start` is `createNew`; or `cache.Get` ran (`GetDelta` describes its result and the state `s1` it leaves) and
found nothing (deletion cookie, then `createNew` from `s1`) or found an object (`StartFound`). -/
theorem start_cases (cfg : Cfg) (s : State) (r : Req) (hnf : NoFail s) (hi : Inv cfg.codec s) :
    ((r.cookie = none ∨ r.cookieLen ≠ 24) ∧ start cfg s r = createNew cfg s r []) ∨
    ∃ id s1 res e1, r.cookie = some id ∧ r.cookieLen = 24 ∧ cacheGet cfg s id = (s1, res, e1) ∧
      GetDelta cfg s id (s1, res, e1) ∧
      ((res = .nil ∧ start cfg s r = createNew cfg s1 r (e1 ++ [.delCookie])) ∨
       ∃ h, res = .some h ∧ HOK s1 h ∧ (s1.obj h).id = id ∧ StartFound cfg s r id s1 h e1) := by
  cases hc : r.cookie with
  | none => exact Or.inl ⟨Or.inl rfl, Loc.start_none hc⟩
  | some id =>
    by_cases hl : r.cookieLen = 24
    · right
      have gd := cacheGet_delta cfg s id hnf hi
      generalize hg : cacheGet cfg s id = g at gd
      obtain ⟨s1, res, e1⟩ := g
      refine ⟨id, s1, res, e1, rfl, hl, hg, gd, ?_⟩
      rcases gd.res with ⟨hres, _, _⟩ | ⟨h, r0, hres, hk, hid, _⟩
      · simp only at hres; subst hres
        exact Or.inl ⟨rfl, Loc.start_miss hc hl hg⟩
      · simp only at hres; subst hres
        right
        refine ⟨h, rfl, hk, hid, ?_⟩
        have hnf1 : NoFail s1 := gd.nofail
        have hi1 : Inv cfg.codec s1 := gd.inv
        cases hv : validFor cfg s1.now (s1.obj h) r with
        | false =>
          left
          refine ⟨hv, ?_⟩
          rw [Loc.start_invalid hc hl hg hv, startInvalid_nf cfg s1 h r e1 hnf1]
          have hid' : (s1.obj h).id = id := hid
          rw [hid']
        | true =>
          right
          rw [Loc.start_valid hc hl hg hv]
          cases href : (s1.obj h).ref with
          | none =>
            by_cases hage : since s1.now (s1.obj h).created ≥ cfg.idExpiry
            · right; left
              exact ⟨hv, rfl, hage, startValid_rotate_nf id r e1 hnf1 hi1 hk.toHL href hage⟩
            · left
              exact ⟨hv, rfl, by omega, Loc.startValid_young id r e1 href (by omega)⟩
          | some t =>
            right; right
            by_cases hage : since s1.now (s1.obj h).created ≥ cfg.idExpiry ∧
                since s1.now (s1.obj h).created - cfg.idExpiry ≥ cfg.grace
            · left
              exact ⟨t, hv, rfl, hage, startValid_ref_expired_nf id r e1 hnf1 href hage⟩
            · right
              exact ⟨t, hv, rfl, hage, Loc.startValid_ref id r e1 href hage⟩
    · exact Or.inl ⟨Or.inr hl, Loc.start_len hl⟩

end Sx.Glob
