import Sessions.Proofs.Global.Dead07
/-!
# C04, history level — the ghost, the trace judgment `Fine`, and the model functions on the ghost

"A due ID is replaced exactly once … however many requests present the same due ID, exactly one new ID is minted
and all of them receive the same session."

* §1 **the ghost** `G4` (`repl`: replaced id ↦ the id that replaced it; `root`: id ↦ first id of its session), updated
  by `g4Ev` from the persistence events alone: a `.save k r` with `r.ref = some t` under an id `k` that has no `repl`
  entry yet is *the* replacement of `k` (by `t`); every other event leaves the ghost alone.
* §1 **`Fine g evs`**: the judgment on an event sequence, read from left to right with the ghost updated on the way: every
  `.save k r` under an id that has been replaced (by `t`) is again a reference to `t` — so `k` never holds a full session
  again and never points anywhere else. `fine_same_target` turns it into a statement about positions in the sequence.
* §2 **`RI s g`**, the store/ghost invariant: a stored reference record `k ⟶ t` is in `repl`; a full record lies under an
  id that was not replaced; a replacement has the root of the id it replaced; the ghost only knows minted ids. `RS` is
  its event-by-event part (`RS.ev`, `RS.fold`), used at crash points inside an operation together with `fold4_prefix`.
* §3 the model functions on the ghost, fault-free from an `Inv` state: `RI.ign` / `RI.rq` (operations that only re-write
  records or write full records under ids that were not replaced), `delSt_g4`, `createNew_g4`, `regenerate_g4` (the one
  place where the ghost changes), `follow_g4`, `start_g4`, `hlogin_g4`.
-/
namespace Sx.Glob
open Sx.More
open Sx.More.C10 (refAt refAt_insert_self refAt_insert_ne refAt_of_lookup refAt_none)

/-! ## 1. the ghost and the trace judgment -/

/-- the ghost of C04, computed from persistence events only. -/
structure G4 where
  /-- replaced id ↦ the id that replaced it (the target of the reference record written under it) -/
  repl : List (ID × ID) := []
  /-- id ↦ the first id of its session (absent: the id itself) -/
  root : List (ID × ID) := []
deriving Repr, Inhabited

/-- the first id of the session `id` belongs (belonged) to: the **session number** of `id`. -/
def G4.rootOf (g : G4) (id : ID) : ID := (lookup id g.root).getD id

/-- `RegenerateID k ⟶ t` -/
def G4.link (g : G4) (k t : ID) : G4 := { repl := (k, t) :: g.repl, root := (t, g.rootOf k) :: g.root }

/-- a record with reference field `ref` is written under `k` -/
def g4Save (g : G4) (k : ID) : Option ID → G4
  | some t => if (lookup k g.repl).isSome then g else g.link k t
  | none => g

/-- the ghost update for one persistence event. -/
def g4Ev (g : G4) : Ev → G4
  | .save k r => g4Save g k r.ref
  | _ => g

/-- the event respects the replacements made so far: a save under a replaced id is a reference to its replacement. -/
def evFine (g : G4) : Ev → Prop
  | .save k r => ∀ t, lookup k g.repl = some t → r.ref = some t
  | _ => True

/-- **the trace judgment**: every event respects the replacements made by the events before it. -/
def Fine (g : G4) : List Ev → Prop
  | [] => True
  | e :: es => evFine g e ∧ Fine (g4Ev g e) es

theorem g4Ev_save (g : G4) (k : ID) (r : Rec) : g4Ev g (.save k r) = g4Save g k r.ref := rfl
theorem g4Save_none (g : G4) (k : ID) : g4Save g k none = g := rfl
theorem g4Save_in {g : G4} {k : ID} (t : ID) (h : (lookup k g.repl).isSome = true) : g4Save g k (some t) = g := by
  simp [g4Save, h]
theorem g4Save_new {g : G4} {k : ID} (t : ID) (h : lookup k g.repl = none) : g4Save g k (some t) = g.link k t := by
  simp [g4Save, h]

theorem lookup_cons {κ β : Type} [DecidableEq κ] (k k' : κ) (v : β) (m : List (κ × β)) :
    lookup k ((k', v) :: m) = if k' = k then some v else lookup k m := rfl

theorem link_repl_self (g : G4) (k t : ID) : lookup k (g.link k t).repl = some t := by
  simp [G4.link, lookup_cons]

theorem link_repl_ne (g : G4) {k y : ID} (t : ID) (h : k ≠ y) : lookup y (g.link k t).repl = lookup y g.repl := by
  simp [G4.link, lookup_cons, h]

theorem rootOf_link4 (g : G4) (k t y : ID) : (g.link k t).rootOf y = if t = y then g.rootOf k else g.rootOf y := by
  unfold G4.rootOf G4.link
  simp only [lookup_cons]
  split <;> rfl

theorem fine_append {g : G4} {a b : List Ev} : Fine g (a ++ b) ↔ Fine g a ∧ Fine (a.foldl g4Ev g) b := by
  induction a generalizing g with
  | nil => simp [Fine]
  | cons e r ih =>
    simp only [List.cons_append, Fine, List.foldl_cons]
    rw [ih]
    exact and_assoc.symm

/-- events the ghost ignores and that respect it. -/
theorem fine_ign {g : G4} {evs : List Ev} (h : ∀ e ∈ evs, evFine g e ∧ g4Ev g e = g) :
    Fine g evs ∧ evs.foldl g4Ev g = g := by
  induction evs with
  | nil => exact ⟨trivial, rfl⟩
  | cons e r ih =>
    obtain ⟨h1, h2⟩ := h e List.mem_cons_self
    obtain ⟨i1, i2⟩ := ih (fun e' he' => h e' (List.mem_cons_of_mem _ he'))
    simp only [Fine, List.foldl_cons, h2]
    exact ⟨⟨h1, i1⟩, i2⟩

theorem g4Ev_cookie {g : G4} {e : Ev} (h : isCookie e = true) : g4Ev g e = g := by
  cases e <;> first | rfl | simp [isCookie] at h

theorem evFine_cookie {g : G4} {e : Ev} (h : isCookie e = true) : evFine g e := by
  cases e <;> first | trivial | simp [isCookie] at h

/-- the cookie events do not matter: `Out.evs` is the event list without them. -/
theorem fold4_filter (g : G4) (evs : List Ev) :
    (evs.filter (fun e => !isCookie e)).foldl g4Ev g = evs.foldl g4Ev g := by
  induction evs generalizing g with
  | nil => rfl
  | cons e r ih =>
    cases hc : isCookie e with
    | true => simp only [List.filter_cons, hc, Bool.not_true, Bool.false_eq_true, if_false, List.foldl_cons, g4Ev_cookie hc, ih]
    | false => simp only [List.filter_cons, hc, Bool.not_false, if_true, List.foldl_cons, ih]

theorem fine_filter (g : G4) (evs : List Ev) : Fine g (evs.filter (fun e => !isCookie e)) ↔ Fine g evs := by
  induction evs generalizing g with
  | nil => rfl
  | cons e r ih =>
    cases hc : isCookie e with
    | true =>
      simp only [List.filter_cons, hc, Bool.not_true, Bool.false_eq_true, if_false, Fine, g4Ev_cookie hc, ih]
      exact ⟨fun h => ⟨evFine_cookie hc, h⟩, fun h => h.2⟩
    | false => simp only [List.filter_cons, hc, Bool.not_false, if_true, Fine, ih]

/-- replacements are never forgotten nor changed. -/
theorem repl_mono (g : G4) (e : Ev) {k t : ID} (h : lookup k g.repl = some t) : lookup k (g4Ev g e).repl = some t := by
  cases e with
  | save k' r =>
    rw [g4Ev_save]
    cases hr : r.ref with
    | none => exact h
    | some t' =>
      by_cases hin : (lookup k' g.repl).isSome = true
      · rw [g4Save_in t' hin]; exact h
      · have hnone : lookup k' g.repl = none := by simpa using hin
        rw [g4Save_new t' hnone]
        have hne : k' ≠ k := by intro e; subst e; rw [hnone] at h; cases h
        rw [link_repl_ne g t' hne]; exact h
  | _ => exact h

theorem repl_mono_fold (g : G4) (evs : List Ev) {k t : ID} (h : lookup k g.repl = some t) :
    lookup k (evs.foldl g4Ev g).repl = some t := by
  induction evs generalizing g with
  | nil => exact h
  | cons e r ih => exact ih _ (repl_mono g e h)

/-- after a reference save that respects the ghost, the id is recorded as replaced by the target. -/
theorem repl_after_save {g : G4} {k : ID} {r : Rec} {t : ID} (hf : evFine g (.save k r)) (hr : r.ref = some t) :
    lookup k (g4Ev g (.save k r)).repl = some t := by
  rw [g4Ev_save, hr]
  cases hl : lookup k g.repl with
  | none => rw [g4Save_new t hl]; exact link_repl_self g k t
  | some t' =>
    have := hf t' hl
    rw [hr] at this
    simp only [Option.some.injEq] at this
    subst this
    rw [g4Save_in t (by rw [hl]; rfl)]; exact hl

/-- in a fine sequence, a save under an id already replaced by `t` is a reference to `t`. -/
theorem fine_replaced {g : G4} {tr : List Ev} (hf : Fine g tr) {k t : ID} (hl : lookup k g.repl = some t) {j : Nat} {r' : Rec}
    (hj : tr[j]? = some (.save k r')) : r'.ref = some t := by
  induction tr generalizing g j with
  | nil => simp at hj
  | cons e es ih =>
    cases j with
    | zero =>
      simp only [List.getElem?_cons_zero, Option.some.injEq] at hj
      subst hj
      exact hf.1 t hl
    | succ j =>
      simp only [List.getElem?_cons_succ] at hj
      exact ih hf.2 (repl_mono g e hl) hj

/-- **`Fine`, in terms of positions**: once a reference record `k ⟶ t` has been written, every later save under `k`
writes a reference record `k ⟶ t` again. -/
theorem fine_same_target {g : G4} {tr : List Ev} (hf : Fine g tr) {i j : Nat} {k t : ID} {r r' : Rec} (hij : i < j)
    (hi : tr[i]? = some (.save k r)) (hr : r.ref = some t) (hj : tr[j]? = some (.save k r')) : r'.ref = some t := by
  induction tr generalizing g i j with
  | nil => simp at hi
  | cons e es ih =>
    cases j with
    | zero => omega
    | succ j =>
      simp only [List.getElem?_cons_succ] at hj
      cases i with
      | zero =>
        simp only [List.getElem?_cons_zero, Option.some.injEq] at hi
        subst hi
        exact fine_replaced hf.2 (repl_after_save hf.1 hr) hj
      | succ i =>
        simp only [List.getElem?_cons_succ] at hi
        exact ih hf.2 (by omega) hi hj

/-! ## 2. the store/ghost invariant -/

/-- the part of the invariant that can be followed event by event: a stored reference record `k ⟶ t` is recorded
(`repl k = t`); a full record lies under an id that has not been replaced. -/
structure RS (st : List (ID × Rec)) (g : G4) : Prop where
  ref : ∀ k t, refAt st k = some (some t) → lookup k g.repl = some t
  full : ∀ k, refAt st k = some none → lookup k g.repl = none

/-- **the invariant relating the store and the ghost**:
* `ref`: a stored reference record `k ⟶ t` is recorded (`repl k = t`);
* `full`: a full record lies under an id that has not been replaced;
* `rroot`: a replacement has the root (session number) of the id it replaced (a fact about the ghost alone);
* `mrepl`/`mroot`: the ghost only knows minted ids (so the next id to be minted is new to it). -/
structure RI (s : State) (g : G4) : Prop where
  ref : ∀ k t, refAt s.store k = some (some t) → lookup k g.repl = some t
  full : ∀ k, refAt s.store k = some none → lookup k g.repl = none
  rroot : ∀ k t, (k, t) ∈ g.repl → g.rootOf t = g.rootOf k
  mrepl : ∀ k t, (k, t) ∈ g.repl → Minted s.nextId k ∧ Minted s.nextId t
  mroot : ∀ k v, (k, v) ∈ g.root → Minted s.nextId k ∧ Minted s.nextId v

theorem RI.rs {s : State} {g : G4} (hs : RI s g) : RS s.store g := ⟨hs.ref, hs.full⟩

/-- a stored reference `k ⟶ t`: `t` has the root of `k`. -/
theorem RI.ref_root {s : State} {g : G4} (hs : RI s g) {k t : ID} (h : refAt s.store k = some (some t)) :
    g.rootOf t = g.rootOf k := hs.rroot k t (Sx.lookup_some_mem (hs.ref k t h))

theorem ri_init : RI ({} : State) ({} : G4) :=
  ⟨by intro k t h; simp [refAt, lookup] at h, by intro k h; simp [refAt, lookup] at h,
   by intro k t h; simp at h, by intro k t h; simp at h, by intro k v h; simp at h⟩

/-- the invariant only reads the store and the id counter. -/
theorem RI.congr {s s' : State} {g : G4} (hs : RI s g) (h1 : s'.store = s.store) (h3 : s'.nextId = s.nextId) : RI s' g :=
  ⟨by rw [h1]; exact hs.ref, by rw [h1]; exact hs.full, hs.rroot, by rw [h3]; exact hs.mrepl, by rw [h3]; exact hs.mroot⟩

/-- the ghost part of the invariant with another store that agrees with the ghost. -/
theorem RI.of_rs {s s' : State} {g : G4} (hs : RI s g) (hr : RS s'.store g) (hn : s.nextId ≤ s'.nextId) : RI s' g :=
  ⟨hr.ref, hr.full, hs.rroot, fun k t h => ⟨(hs.mrepl k t h).1.mono hn, (hs.mrepl k t h).2.mono hn⟩,
   fun k v h => ⟨(hs.mroot k v h).1.mono hn, (hs.mroot k v h).2.mono hn⟩⟩

section fresh
variable {s : State} {g : G4} (hs : RI s g) {n : Nat} (hn : s.nextId ≤ n)
include hs hn

/-- an id still to be minted has not been replaced … -/
theorem RI.fresh_repl : lookup (ID.gen n) g.repl = none := by
  cases hl : lookup (ID.gen n) g.repl with
  | none => rfl
  | some t => exact absurd rfl (((hs.mrepl _ t (Sx.lookup_some_mem hl)).1.mono hn).ne_gen)

/-- … and is its own root. -/
theorem RI.fresh_root : g.rootOf (.gen n) = .gen n := by
  unfold G4.rootOf
  cases hl : lookup (ID.gen n) g.root with
  | none => rfl
  | some v => exact absurd rfl (((hs.mroot _ v (Sx.lookup_some_mem hl)).1.mono hn).ne_gen)

end fresh

theorem RI.rootOf_minted {s : State} {g : G4} (hs : RI s g) {k : ID} (hk : Minted s.nextId k) : Minted s.nextId (g.rootOf k) := by
  unfold G4.rootOf
  cases hl : lookup k g.root with
  | none => exact hk
  | some v => exact (hs.mroot k v (Sx.lookup_some_mem hl)).2

/-- the frame lemma: records keep their reference view, disappear, or a full record appears under an id that
was not replaced. -/
theorem RI.frame {s s' : State} {g : G4} (hs : RI s g)
    (hst : ∀ k, refAt s'.store k = refAt s.store k ∨ refAt s'.store k = none ∨
      (refAt s'.store k = some none ∧ lookup k g.repl = none))
    (hn : s.nextId ≤ s'.nextId) : RI s' g := by
  refine ⟨?_, ?_, hs.rroot, ?_, ?_⟩
  · intro k t h
    rcases hst k with h1 | h1 | ⟨h1, _⟩
    · rw [h1] at h; exact hs.ref k t h
    · rw [h1] at h; simp at h
    · rw [h1] at h; simp at h
  · intro k h
    rcases hst k with h1 | h1 | ⟨_, h0⟩
    · rw [h1] at h; exact hs.full k h
    · rw [h1] at h; simp at h
    · exact h0
  · intro k t h; exact ⟨(hs.mrepl k t h).1.mono hn, (hs.mrepl k t h).2.mono hn⟩
  · intro k v h; exact ⟨(hs.mroot k v h).1.mono hn, (hs.mroot k v h).2.mono hn⟩

/-! ### event by event (for crash points inside an operation) -/

theorem refAt_applyMut_save (st : List (ID × Rec)) (k k' : ID) (r : Rec) :
    refAt (applyMut st (.save k r)) k' = if k = k' then some r.ref else refAt st k' := by
  show refAt (insert k r st) k' = _
  by_cases h : k = k'
  · subst h; rw [refAt_insert_self, if_pos rfl]
  · rw [refAt_insert_ne r st (fun e => h e.symm), if_neg h]

theorem refAt_applyMut_del (st : List (ID × Rec)) (k k' : ID) :
    refAt (applyMut st (.del k)) k' = if k = k' then none else refAt st k' := by
  show refAt (erase k st) k' = _
  unfold refAt
  by_cases h : k = k'
  · subst h; rw [Loc.lookup_erase_self, if_pos rfl]; rfl
  · rw [Loc.lookup_erase_ne h, if_neg h]

/-- **one store mutation** that respects the ghost keeps store and ghost in agreement. -/
theorem RS.ev {st : List (ID × Rec)} {g : G4} (h : RS st g) {e : Ev} (hf : evFine g e) : RS (applyMut st e) (g4Ev g e) := by
  cases e with
  | save k r =>
    cases hr : r.ref with
    | none =>
      have hg : g4Ev g (.save k r) = g := by rw [g4Ev_save, hr]; rfl
      rw [hg]
      refine ⟨?_, ?_⟩
      · intro k' t hk
        rw [refAt_applyMut_save] at hk
        split at hk
        · rw [hr] at hk; cases hk
        · exact h.ref k' t hk
      · intro k' hk
        rw [refAt_applyMut_save] at hk
        split at hk
        · rename_i e; subst e
          cases hl : lookup k g.repl with
          | none => rfl
          | some t => have := hf t hl; rw [hr] at this; cases this
        · exact h.full k' hk
    | some t =>
      have hafter := repl_after_save hf hr
      refine ⟨?_, ?_⟩
      · intro k' t' hk
        rw [refAt_applyMut_save] at hk
        split at hk
        · rename_i e; subst e
          rw [hr] at hk; simp only [Option.some.injEq] at hk; subst hk
          exact hafter
        · exact repl_mono g _ (h.ref k' t' hk)
      · intro k' hk
        rw [refAt_applyMut_save] at hk
        split at hk
        · rw [hr] at hk; cases hk
        · rename_i hne
          have := h.full k' hk
          rw [g4Ev_save, hr]
          by_cases hin : (lookup k g.repl).isSome = true
          · rw [g4Save_in t hin]; exact this
          · have hnone : lookup k g.repl = none := by simpa using hin
            rw [g4Save_new t hnone, link_repl_ne g t hne]; exact this
  | del k =>
    refine ⟨?_, ?_⟩
    · intro k' t hk
      rw [refAt_applyMut_del] at hk
      split at hk
      · cases hk
      · exact h.ref k' t hk
    · intro k' hk
      rw [refAt_applyMut_del] at hk
      split at hk
      · cases hk
      · exact h.full k' hk
  | _ => exact h

theorem RS.fold {st : List (ID × Rec)} {g : G4} (h : RS st g) {evs : List Ev} (hf : Fine g evs) :
    RS (evs.foldl applyMut st) (evs.foldl g4Ev g) := by
  induction evs generalizing st g with
  | nil => exact h
  | cons e r ih => exact ih (h.ev hf.1) hf.2

/-- a sequence that is `Fine` stays so when events the ghost does not read are dropped; here: a prefix. -/
theorem fine_take {g : G4} {evs : List Ev} (hf : Fine g evs) (k : Nat) : Fine g (evs.take k) := by
  have := hf
  rw [← List.take_append_drop k evs, fine_append] at this
  exact this.1

theorem g4Ev_nomut {g : G4} {e : Ev} (h : isMut e = false) : g4Ev g e = g := by
  cases e <;> first | rfl | simp [isMut] at h

theorem evFine_nomut {g : G4} {e : Ev} (h : isMut e = false) : evFine g e := by
  cases e <;> first | trivial | simp [isMut] at h

theorem fold4_muts (g : G4) (evs : List Ev) : (evs.filter isMut).foldl g4Ev g = evs.foldl g4Ev g := by
  induction evs generalizing g with
  | nil => rfl
  | cons e r ih =>
    cases hc : isMut e with
    | false => simp only [List.filter_cons, hc, Bool.false_eq_true, if_false, List.foldl_cons, g4Ev_nomut hc, ih]
    | true => simp only [List.filter_cons, hc, if_true, List.foldl_cons, ih]

theorem fine_muts (g : G4) (evs : List Ev) : Fine g (evs.filter isMut) ↔ Fine g evs := by
  induction evs generalizing g with
  | nil => rfl
  | cons e r ih =>
    cases hc : isMut e with
    | false =>
      simp only [List.filter_cons, hc, Bool.false_eq_true, if_false, Fine, g4Ev_nomut hc, ih]
      exact ⟨fun h => ⟨evFine_nomut hc, h⟩, fun h => h.2⟩
    | true => simp only [List.filter_cons, hc, if_true, Fine, ih]

theorem link_repl_length (g : G4) (k t : ID) : (g.link k t).repl.length = g.repl.length + 1 := rfl

/-- one event leaves the ghost alone or records one new replacement. -/
theorem g4Ev_cases (g : G4) (e : Ev) : g4Ev g e = g ∨ ∃ k t, g4Ev g e = g.link k t := by
  cases e with
  | save k r =>
    rw [g4Ev_save]
    cases hr : r.ref with
    | none => exact Or.inl rfl
    | some t =>
      by_cases hin : (lookup k g.repl).isSome = true
      · exact Or.inl (g4Save_in t hin)
      · exact Or.inr ⟨k, t, g4Save_new t (by simpa using hin)⟩
  | _ => exact Or.inl rfl

theorem repl_length_fold (g : G4) (evs : List Ev) : g.repl.length ≤ (evs.foldl g4Ev g).repl.length := by
  induction evs generalizing g with
  | nil => exact Nat.le_refl _
  | cons e r ih =>
    simp only [List.foldl_cons]
    rcases g4Ev_cases g e with h | ⟨k, t, h⟩
    · rw [h]; exact ih g
    · have := ih (g4Ev g e); rw [h] at this ⊢; rw [link_repl_length] at this; omega

/-- if a sequence does not make the ghost grow, none of its prefixes changes it. -/
theorem fold4_stays {g : G4} {l : List Ev} (h : (l.foldl g4Ev g).repl.length ≤ g.repl.length) (k : Nat) :
    (l.take k).foldl g4Ev g = g := by
  induction l generalizing g k with
  | nil => simp
  | cons e r ih =>
    cases k with
    | zero => rfl
    | succ k =>
      simp only [List.take_succ_cons, List.foldl_cons] at h ⊢
      rcases g4Ev_cases g e with he | ⟨k', t, he⟩
      · rw [he] at h ⊢; exact ih h k
      · have := repl_length_fold (g4Ev g e) r
        rw [he, link_repl_length] at this
        rw [he] at h
        omega

/-- **prefixes**: if the whole sequence records at most one replacement, every prefix leaves the ghost as it was or
as the whole sequence leaves it. -/
theorem fold4_prefix {g : G4} {l : List Ev} (h : (l.foldl g4Ev g).repl.length ≤ g.repl.length + 1) (k : Nat) :
    (l.take k).foldl g4Ev g = g ∨ (l.take k).foldl g4Ev g = l.foldl g4Ev g := by
  induction l generalizing g k with
  | nil => left; simp
  | cons e r ih =>
    cases k with
    | zero => left; rfl
    | succ k =>
      simp only [List.take_succ_cons, List.foldl_cons] at h ⊢
      rcases g4Ev_cases g e with he | ⟨k', t, he⟩
      · rw [he] at h ⊢; exact ih h k
      · right
        have hle : (r.foldl g4Ev (g4Ev g e)).repl.length ≤ (g4Ev g e).repl.length := by
          have h2 : (g4Ev g e).repl.length = g.repl.length + 1 := by rw [he]; rfl
          omega
        rw [fold4_stays hle k]
        have := fold4_stays hle r.length
        rw [List.take_length] at this
        exact this.symm

/-! ## 3. the model functions on the ghost -/

/-- the exceptional writes the ghost ignores: full records under ids that were not replaced. -/
def FullX (g : G4) : ID → Option ID → Prop := fun k ρ => ρ = none ∧ lookup k g.repl = none

/-- an event that is quiet w.r.t. the store (up to full writes under ids that were not replaced) respects the
ghost and leaves it alone. -/
theorem RI.ign_ev {s : State} {g : G4} (hs : RI s g) {e : Ev} (h : QEv (FullX g) s.store e) :
    evFine g e ∧ g4Ev g e = g := by
  cases e with
  | save k r =>
    rcases h with ⟨h1, h2⟩ | h
    · refine ⟨?_, ?_⟩
      · intro t ht; rw [h2] at ht; cases ht
      · rw [g4Ev_save, h1]; rfl
    · cases hr : r.ref with
      | none =>
        rw [hr] at h
        refine ⟨?_, by rw [g4Ev_save, hr]; rfl⟩
        intro t ht; rw [hs.full k h] at ht; cases ht
      | some t =>
        rw [hr] at h
        have h1 := hs.ref k t h
        refine ⟨?_, by rw [g4Ev_save, hr]; exact g4Save_in t (by rw [h1]; rfl)⟩
        intro t' ht'; rw [h1] at ht'
        simp only [Option.some.injEq] at ht'
        rw [hr, ht']
  | del k => exact absurd h (by simp [QEv])
  | _ => exact ⟨trivial, rfl⟩

theorem RI.ign {s : State} {g : G4} (hs : RI s g) {evs : List Ev} (h : ∀ e ∈ evs, QEv (FullX g) s.store e) :
    Fine g evs ∧ evs.foldl g4Ev g = g :=
  fine_ign (fun e he => hs.ign_ev (h e he))

/-- **a quiet operation** (up to full writes under ids that were not replaced) keeps the invariant, leaves the
ghost alone, and its events respect the ghost. -/
theorem RI.rq {s s' : State} {g : G4} {evs : List Ev} {X : ID → Option ID → Prop} (hs : RI s g) (hq : RQ X s s' evs)
    (hX : ∀ k ρ, X k ρ → FullX g k ρ) (hn : s.nextId ≤ s'.nextId) :
    RI s' g ∧ Fine g evs ∧ evs.foldl g4Ev g = g := by
  refine ⟨?_, hs.ign (fun e he => (hq.evs e he).mono hX)⟩
  apply hs.frame _ hn
  intro k
  rcases hq.store k with h | ⟨ρ, hx, h⟩
  · exact Or.inl h
  · obtain ⟨h1, h2⟩ := hX k ρ hx
    subst h1
    exact Or.inr (Or.inr ⟨h, h2⟩)

theorem RI.quietX {s s' : State} {g : G4} {evs : List Ev} (hs : RI s g) (hq : QuietX NoX s s' evs)
    (hn : s.nextId ≤ s'.nextId) : RI s' g ∧ Fine g evs ∧ evs.foldl g4Ev g = g :=
  hs.rq hq.toRQ (fun _ _ hx => absurd hx id) hn

/-- time: the clean-up goroutines only remove records. -/
theorem RI.advance {s : State} {g : G4} (hs : RI s g) (d : Int) : RI (advance s d).1 g := by
  obtain ⟨a1, _, _, _, _, a6, _⟩ := advance_delta s d
  apply hs.frame _ (by rw [a6]; exact Nat.le_refl _)
  intro k
  rcases a1 k with h | ⟨h, _⟩
  · exact Or.inl (by unfold refAt; rw [h])
  · exact Or.inr (Or.inl (refAt_none h))

/-- **fault-free `cache.Delete(id)`** (`delSt`): the ghost does not change. -/
theorem delSt_g4 {s : State} {g : G4} (hs : RI s g) (id : ID) : RI (delSt s id) g := by
  refine hs.frame (s' := delSt s id) ?_ (Nat.le_refl _)
  intro k
  by_cases hk : k = id
  · subst hk
    exact Or.inr (Or.inl (refAt_none (Loc.lookup_erase_self k s.store)))
  · left
    show refAt (erase id s.store) k = refAt s.store k
    unfold refAt
    rw [Loc.lookup_erase_ne (fun e => hk e.symm)]

/-! ### events the ghost ignores, stated on the ghost alone -/

/-- a save that agrees with the ghost: a full record under an id that was not replaced, or the reference record of a
replaced id pointing to its replacement. -/
def refIgn (g : G4) (k : ID) : Option ID → Prop
  | none => lookup k g.repl = none
  | some t => lookup k g.repl = some t

theorem refIgn_ev {g : G4} {k : ID} {r : Rec} (h : refIgn g k r.ref) : evFine g (.save k r) ∧ g4Ev g (.save k r) = g := by
  cases hr : r.ref with
  | none =>
    rw [hr] at h
    refine ⟨?_, by rw [g4Ev_save, hr]; rfl⟩
    intro t ht
    have h' : lookup k g.repl = none := h
    rw [h'] at ht; cases ht
  | some t =>
    rw [hr] at h
    have h' : lookup k g.repl = some t := h
    refine ⟨?_, by rw [g4Ev_save, hr]; exact g4Save_in t (by rw [h']; rfl)⟩
    intro t' ht'
    rw [h'] at ht'
    simp only [Option.some.injEq] at ht'
    rw [hr, ht']

/-- a record coherent with the store agrees with the ghost. -/
theorem RI.refIgn_of_store {s : State} {g : G4} (hs : RI s g) {k : ID} {ρ : Option ID} (h : refAt s.store k = some ρ) :
    refIgn g k ρ := by
  cases ρ with
  | none => exact hs.full k h
  | some t => exact hs.ref k t h

/-- flushes of cache entries whose objects agree with the ghost are ignored by it. -/
theorem flush_ign {g : G4} {cfg : Cfg} {c : List (ID × Nat)} {obj : Nat → Sess} {evs : List Ev}
    (hc : ∀ k x, (k, x) ∈ c → refIgn g k (obj x).ref) (he : ∀ e ∈ evs, Loc.IsFlush cfg c obj e) :
    Fine g evs ∧ evs.foldl g4Ev g = g := by
  apply fine_ign
  intro e hm
  obtain ⟨k, x, hmx, rfl | rfl⟩ := he e hm
  · exact refIgn_ev (by rw [enc_ref]; exact hc k x hmx)
  · exact ⟨trivial, rfl⟩

/-! ### `createNew` -/

/-- **`createNew`**: the ghost is what the events `pre` made of it; a session it returns carries the id just minted. -/
theorem createNew_g4 (cfg : Cfg) (s : State) (r : Req) (pre : List Ev) (hnf : NoFail s) (hi : Inv cfg.codec s)
    {g : G4} (hs : RI s g) :
    RI (createNew cfg s r pre).1 g ∧
    (∀ g0, Fine g0 pre → pre.foldl g4Ev g0 = g →
      Fine g0 (createNew cfg s r pre).2.2 ∧ (createNew cfg s r pre).2.2.foldl g4Ev g0 = g) ∧
    (∀ h, (createNew cfg s r pre).2.1 = .sess h → ((createNew cfg s r pre).1.obj h).id = .gen s.nextId) ∧
    ((createNew cfg s r pre).1.nextId = s.nextId ∨ (createNew cfg s r pre).1.nextId = s.nextId + 1) := by
  cases hc : r.create with
  | false =>
    rw [Loc.createNew_no pre hc]
    exact ⟨hs, fun g0 h1 h2 => ⟨h1, h2⟩, (by intro h hh; cases hh), Or.inl rfl⟩
  | true =>
    have d := createNew_delta cfg s r pre hnf hi hc
    have hq : RQ (NewX s.nextId) s (createNew cfg s r pre).1 (Loc.newSet cfg s r).2.2 := by
      rw [d.st]
      refine (rq_cacheSet (NewX s.nextId) cfg (Loc.newS1 s r) s.heap.length ?_ ?_).congr_left rfl
      · intro k x hm
        have hm' : (k, x) ∈ s.cache := hm
        rw [Loc.newS1_obj_old (hi.valid k x hm')]
        exact Or.inr (inv_rcoh hi hm')
      · rw [Loc.newS1_obj_new]; exact Or.inl ⟨rfl, rfl⟩
    obtain ⟨h1, h2, h3⟩ := hs.rq hq
      (fun k ρ hx => ⟨hx.2, by rw [hx.1]; exact hs.fresh_repl (Nat.le_refl _)⟩) (by rw [d.fr.2.1]; omega)
    refine ⟨h1, ?_, ?_, Or.inr d.fr.2.1⟩
    · intro g0 hf0 hg0
      rw [d.evs]
      refine ⟨?_, ?_⟩
      · rw [fine_append, fine_append]
        refine ⟨⟨hf0, by rw [hg0]; exact h2⟩, ?_⟩
        exact ⟨trivial, trivial⟩
      · rw [List.foldl_append, List.foldl_append, hg0, h3]; rfl
    · intro h hh
      rw [d.res] at hh
      simp only [Res.sess.injEq] at hh
      subst hh
      rw [d.obj_new]; rfl

/-! ### `RegenerateID` — the one place where the ghost changes -/

/-- **fault-free `RegenerateID`** of a full session whose id has not been replaced: its events respect the ghost, the
ghost records the replacement `old ⟶ new` (at the very last persistence event: the save of the reference record),
and the invariant holds for the new ghost. -/
theorem regenerate_g4 (cfg : Cfg) (s : State) (h : Nat) (hnf : NoFail s) (hi : Inv cfg.codec s) (hk : HOK s h)
    {g : G4} (hs : RI s g) (href : (s.obj h).ref = none) (hrep : lookup (s.obj h).id g.repl = none) :
    RI (regenerate cfg s h).1 (g.link (s.obj h).id (.gen s.nextId)) ∧
    Fine g (regenerate cfg s h).2.2 ∧
    (regenerate cfg s h).2.2.foldl g4Ev g = g.link (s.obj h).id (.gen s.nextId) ∧
    Ev.save (s.obj h).id (enc cfg.codec (Loc.rotRef s h)) ∈ (regenerate cfg s h).2.2 := by
  have d := regenerate_delta cfg s h hnf hi hk
  have hv := hk.valid
  have hne : (s.obj h).id ≠ ID.gen s.nextId := d.ne
  have hfresh : ∀ x, (ID.gen s.nextId, x) ∉ s.cache := fun x hm => (hi.ckeys _ x hm).ne_gen rfl
  have hnew : lookup (ID.gen s.nextId) g.repl = none := hs.fresh_repl (Nat.le_refl _)
  have hrr : (enc cfg.codec (Loc.rotRef s h)).ref = some (ID.gen s.nextId) := by rw [enc_ref]; rfl
  -- the cache entries of the original state agree with the ghost
  have hent : ∀ k x, (k, x) ∈ s.cache → refIgn g k (s.obj x).ref :=
    fun k x hm => hs.refIgn_of_store (inv_rcoh hi hm)
  have hold : ∀ k, (k, h) ∈ s.cache → k = (s.obj h).id := fun k hm => (hi.wf k h hm (by simp)).symm
  -- phase A: the compaction of the first `Set`
  have hA : Fine g (Loc.setC cfg (Loc.regenS0 s h) h).2 ∧ (Loc.setC cfg (Loc.regenS0 s h) h).2.foldl g4Ev g = g := by
    refine flush_ign (c := (Loc.regenS0 s h).cache) (obj := (Loc.setObjNow (Loc.regenS0 s h) h).obj) ?_
      (Loc.setC_flushed cfg (Loc.regenS0 s h) h).evs_flush
    intro k x hm
    have hm' : (k, x) ∈ s.cache := hm
    rw [(i3_setObjNow_same (Loc.regenS0 s h) h x).2.1]
    by_cases hx : h = x
    · subst hx
      rw [Loc.regenS0_obj_self s h hv]
      show refIgn g k (s.obj h).ref
      exact hent k h hm'
    · rw [Loc.regenS0_obj_ne s h hx]; exact hent k x hm'
  -- phase B: the compaction of the second `Set`
  have hS2c : (Loc.regenS2 cfg s h).cache = (Loc.regenA cfg s h).1.cache := by unfold Loc.regenS2; simp
  have hB : Fine g (Loc.setC cfg (Loc.regenS2 cfg s h) s.heap.length).2 ∧
      (Loc.setC cfg (Loc.regenS2 cfg s h) s.heap.length).2.foldl g4Ev g = g := by
    refine flush_ign (c := (Loc.regenS2 cfg s h).cache) (obj := (Loc.setObjNow (Loc.regenS2 cfg s h) s.heap.length).obj) ?_
      (Loc.setC_flushed cfg (Loc.regenS2 cfg s h) s.heap.length).evs_flush
    intro k x hm
    rw [hS2c] at hm
    rw [(i3_setObjNow_same (Loc.regenS2 cfg s h) s.heap.length x).2.1]
    rcases Loc.regenA_cache_mem cfg s h hv hm with e | hm0
    · obtain ⟨rfl, rfl⟩ := Prod.mk.inj e
      rw [Loc.regenS2_obj_old cfg s x hv, Loc.regenA_obj_self cfg s x hv]
      show refIgn g _ (s.obj x).ref
      rw [href]; exact hnew
    · have hx := hi.valid k x hm0
      rw [Loc.regenS2_obj_old cfg s h hx]
      by_cases hxh : h = x
      · subst hxh
        rw [Loc.regenA_obj_self cfg s h hv]
        show refIgn g k (s.obj h).ref
        exact hent k h hm0
      · rw [Loc.regenA_obj_ne cfg s h hxh]; exact hent k x hm0
  have hev := Loc.regenerate_evs_ok cfg s h hv d.ok
  have hsaveNew : evFine g (.save (ID.gen s.nextId) (enc cfg.codec (Loc.rotObj s h))) ∧
      g4Ev g (.save (ID.gen s.nextId) (enc cfg.codec (Loc.rotObj s h))) = g :=
    refIgn_ev (by rw [enc_ref]; show refIgn g _ (s.obj h).ref; rw [href]; exact hnew)
  have hlink : g4Ev g (.save (s.obj h).id (enc cfg.codec (Loc.rotRef s h))) = g.link (s.obj h).id (.gen s.nextId) := by
    rw [g4Ev_save, hrr, g4Save_new _ hrep]
  refine ⟨?_, ?_, ?_, d.ref_saved⟩
  · -- the invariant for the new ghost
    have hoth : ∀ k, k ≠ (s.obj h).id → k ≠ .gen s.nextId → refAt (regenerate cfg s h).1.store k = refAt s.store k :=
      fun k h1 h2 => refAt_essEq d.quiet.ess (fun hx => hx.elim h1 h2)
    have hso : refAt (regenerate cfg s h).1.store (s.obj h).id = some (some (.gen s.nextId)) := by
      rw [refAt_of_lookup d.old_rec, hrr]
    have hsn : refAt (regenerate cfg s h).1.store (.gen s.nextId) = some none := by
      rw [refAt_of_lookup d.new_rec, enc_ref]; exact congrArg some href
    have hrefs : ∀ k t, refAt s.store k = some (some t) → Minted s.nextId t := by
      intro k t hk'
      unfold refAt at hk'
      cases hl : lookup k s.store with
      | none => rw [hl] at hk'; simp at hk'
      | some r0 =>
        rw [hl] at hk'
        simp only [Option.map_some, Option.some.injEq] at hk'
        exact hi.sok.refs k r0 (Sx.lookup_some_mem hl) t hk'
    have hroot : ∀ y, y ≠ .gen s.nextId → (g.link (s.obj h).id (.gen s.nextId)).rootOf y = g.rootOf y := by
      intro y hy; rw [rootOf_link4, if_neg (fun e => hy e.symm)]
    have hrootn : (g.link (s.obj h).id (.gen s.nextId)).rootOf (.gen s.nextId) = g.rootOf (s.obj h).id := by
      rw [rootOf_link4, if_pos rfl]
    refine ⟨?_, ?_, ?_, ?_, ?_⟩
    · intro k t hkt
      by_cases hk1 : k = (s.obj h).id
      · subst hk1
        rw [hso] at hkt
        simp only [Option.some.injEq] at hkt
        subst hkt
        exact link_repl_self g _ _
      · by_cases hk2 : k = .gen s.nextId
        · subst hk2; rw [hsn] at hkt; simp at hkt
        · rw [hoth k hk1 hk2] at hkt
          rw [link_repl_ne g _ (fun e => hk1 e.symm)]; exact hs.ref k t hkt
    · intro k hkf
      by_cases hk1 : k = (s.obj h).id
      · subst hk1; rw [hso] at hkf; simp at hkf
      · rw [link_repl_ne g _ (fun e => hk1 e.symm)]
        by_cases hk2 : k = .gen s.nextId
        · subst hk2; exact hnew
        · rw [hoth k hk1 hk2] at hkf; exact hs.full k hkf
    · intro k t hm
      have : (k, t) ∈ ((s.obj h).id, ID.gen s.nextId) :: g.repl := hm
      rcases List.mem_cons.1 this with e | e
      · obtain ⟨rfl, rfl⟩ := Prod.mk.inj e
        rw [hrootn, hroot _ hne]
      · have hkn : k ≠ .gen s.nextId := (hs.mrepl k t e).1.ne_gen
        have htn : t ≠ .gen s.nextId := (hs.mrepl k t e).2.ne_gen
        rw [hroot t htn, hroot k hkn]; exact hs.rroot k t e
    · intro k t hm
      rw [d.fr.2.1]
      have : (k, t) ∈ ((s.obj h).id, ID.gen s.nextId) :: g.repl := hm
      rcases List.mem_cons.1 this with e | e
      · obtain ⟨rfl, rfl⟩ := Prod.mk.inj e
        exact ⟨hk.minted.mono (Nat.le_succ _), minted_gen _⟩
      · exact ⟨(hs.mrepl k t e).1.mono (Nat.le_succ _), (hs.mrepl k t e).2.mono (Nat.le_succ _)⟩
    · intro k v hm
      rw [d.fr.2.1]
      have : (k, v) ∈ (ID.gen s.nextId, g.rootOf (s.obj h).id) :: g.root := hm
      rcases List.mem_cons.1 this with e | e
      · obtain ⟨rfl, rfl⟩ := Prod.mk.inj e
        exact ⟨minted_gen _, (hs.rootOf_minted hk.minted).mono (Nat.le_succ _)⟩
      · exact ⟨(hs.mroot k v e).1.mono (Nat.le_succ _), (hs.mroot k v e).2.mono (Nat.le_succ _)⟩
  · rw [hev]
    simp only [fine_append, List.foldl_append, hA.2, hB.2, List.foldl_cons, List.foldl_nil, hsaveNew.2]
    refine ⟨⟨⟨⟨hA.1, hsaveNew.1, trivial⟩, hB.1⟩, ?_, trivial⟩, trivial, trivial⟩
    intro t ht; rw [hrep] at ht; cases ht
  · rw [hev]
    simp only [List.foldl_append, hA.2, hB.2, List.foldl_cons, List.foldl_nil, hsaveNew.2, hlink]
    rfl

/-! ### following references: the chain stays inside one session -/

/-- **`follow`** started on a coherent handle: every id met on the way has the root of the starting id — a session
`follow` returns is the session the starting id belongs to. (The ghost is not touched: `follow_delta.quiet`.) -/
theorem follow_g4 (cfg : Cfg) (n : Nat) (s : State) (h : Nat) (hnf : NoFail s) (hi : Inv cfg.codec s) (hk : HOK s h)
    (hc : HCoh cfg.codec s h) {g : G4} (hs : RI s g) :
    ∀ h2, (follow cfg n s h).2.1 = .some h2 → g.rootOf ((follow cfg n s h).1.obj h2).id = g.rootOf (s.obj h).id := by
  induction n generalizing s h with
  | zero => intro h2 hh; rw [Loc.follow_zero] at hh; cases hh
  | succ n ih =>
    cases href : (s.obj h).ref with
    | none =>
      rw [Loc.follow_succ_none n href]
      intro h2 hh
      simp only [GetRes.some.injEq] at hh
      subst hh; rfl
    | some tgt =>
      rw [Loc.follow_succ_some n href]
      have hrt : g.rootOf tgt = g.rootOf (s.obj h).id := by
        obtain ⟨r0, hl, hess⟩ := hc
        have : refAt s.store (s.obj h).id = some (some tgt) := by
          rw [refAt_of_lookup hl, ← Glob.ess_ref hess, enc_ref, href]
        exact hs.ref_root this
      have gd := cacheGet_delta cfg s tgt hnf hi
      generalize hg : cacheGet cfg s tgt = out at gd
      obtain ⟨s1, res, e1⟩ := out
      cases res with
      | err => intro h2 hh; cases hh
      | nil => intro h2 hh; cases hh
      | some h1 =>
        obtain ⟨hs1, _⟩ := hs.quietX gd.quiet (by rw [gd.fr.2.1]; exact Nat.le_refl _)
        rcases gd.res with ⟨hn, _⟩ | ⟨h', r0, he, hk1, hid, _⟩
        · cases hn
        · simp only [GetRes.some.injEq] at he; subst he
          intro h2 hh
          have := ih s1 h1 gd.nofail gd.inv hk1 (hcoh_of_get hi hg hid) hs1 h2 hh
          simp only at hid
          rw [hid] at this
          exact this.trans hrt

/-! ### `Start` -/

/-- **what a fault-free `Start` does to the ghost** (`out = start cfg s r`, `g` the ghost before):
* `ri`, `fine`: the invariant holds for the ghost folded over the events, which respect the ghost;
* `cur`: the id of a session it returns has not been replaced;
* `cases`: (N) nothing is minted and the ghost is unchanged; or (C) a brand-new session is created — ghost unchanged,
  one id minted, and either no well-formed cookie was presented or the response carries the deletion cookie; or
  (R) the presented id `X` is **rotated**: it had not been replaced before, the ghost records `X ⟶ gen nextId`, the
  reference record is among the events, the same request gets the session under the new id, no deletion cookie;
* `same`: a session returned for a presented id `X` without a deletion cookie has the root (session number) of `X`;
* `mintX`: … and then `X` is a minted id. -/
structure StartG4 (s : State) (r : Req) (g : G4) (out : State × Res × List Ev) : Prop where
  ri : RI out.1 (out.2.2.foldl g4Ev g)
  fine : Fine g out.2.2
  cur : ∀ h, out.2.1 = .sess h → lookup (out.1.obj h).id (out.2.2.foldl g4Ev g).repl = none
  cases : (out.1.nextId = s.nextId ∧ out.2.2.foldl g4Ev g = g) ∨
    (out.1.nextId = s.nextId + 1 ∧ out.2.2.foldl g4Ev g = g ∧
      (r.cookie = none ∨ r.cookieLen ≠ 24 ∨ Ev.delCookie ∈ out.2.2) ∧
      ∀ h, out.2.1 = .sess h → (out.1.obj h).id = .gen s.nextId) ∨
    (∃ X h, r.cookie = some X ∧ r.cookieLen = 24 ∧ out.1.nextId = s.nextId + 1 ∧ lookup X g.repl = none ∧
      out.2.2.foldl g4Ev g = g.link X (.gen s.nextId) ∧ out.2.1 = .sess h ∧ (out.1.obj h).id = .gen s.nextId ∧
      (∃ rc, Ev.save X rc ∈ out.2.2 ∧ rc.ref = some (.gen s.nextId)) ∧ Ev.delCookie ∉ out.2.2)
  same : ∀ X h, r.cookie = some X → r.cookieLen = 24 → out.2.1 = .sess h → Ev.delCookie ∉ out.2.2 →
    (out.2.2.foldl g4Ev g).rootOf (out.1.obj h).id = (out.2.2.foldl g4Ev g).rootOf X
  mintX : ∀ X, r.cookie = some X → r.cookieLen = 24 → Ev.delCookie ∉ out.2.2 → Minted s.nextId X ∨ ∀ h, out.2.1 ≠ .sess h

/-- the branches of `Start` that end in `createNew`. -/
theorem createNew_start4 (cfg : Cfg) (s s1 : State) (r : Req) (pre : List Ev) (hnf : NoFail s1) (hi : Inv cfg.codec s1)
    {g : G4} (hs : RI s1 g) (hn : s1.nextId = s.nextId) (hf : Fine g pre) (hg : pre.foldl g4Ev g = g)
    (hck : r.cookie = none ∨ r.cookieLen ≠ 24 ∨ Ev.delCookie ∈ pre) :
    StartG4 s r g (createNew cfg s1 r pre) := by
  obtain ⟨h1, h2, h3, h4⟩ := createNew_g4 cfg s1 r pre hnf hi hs
  obtain ⟨h2a, h2b⟩ := h2 g hf hg
  have hsub : ∀ e ∈ pre, e ∈ (createNew cfg s1 r pre).2.2 := by
    intro e he
    cases hc : r.create with
    | false => rw [Loc.createNew_no pre hc]; exact he
    | true =>
      rw [(createNew_delta cfg s1 r pre hnf hi hc).evs]
      exact List.mem_append_left _ (List.mem_append_left _ he)
  have hck' : r.cookie = none ∨ r.cookieLen ≠ 24 ∨ Ev.delCookie ∈ (createNew cfg s1 r pre).2.2 :=
    hck.imp id (fun h => h.imp id (hsub _))
  refine ⟨by rw [h2b]; exact h1, h2a, ?_, ?_, ?_, ?_⟩
  rotate_left 3
  · intro X hX hl hnd
    rcases hck' with e | e | e
    · rw [hX] at e; cases e
    · exact absurd hl e
    · exact absurd e hnd
  · intro h hh
    rw [h2b, h3 h hh]
    exact hs.fresh_repl (Nat.le_refl _)
  · rw [← hn]
    rcases h4 with e | e
    · exact Or.inl ⟨e, h2b⟩
    · exact Or.inr (Or.inl ⟨e, h2b, hck', h3⟩)
  · intro X h hX hl _ hnd
    rcases hck' with e | e | e
    · rw [hX] at e; cases e
    · exact absurd hl e
    · exact absurd e hnd

theorem start_g4 (cfg : Cfg) (s : State) (r : Req) (hnf : NoFail s) (hi : Inv cfg.codec s) {g : G4} (hs : RI s g) :
    StartG4 s r g (start cfg s r) := by
  rcases start_cases cfg s r hnf hi with ⟨hck, heq⟩ | ⟨id, s1, res, e1, hck, hlen, hg, gd, hcase⟩
  · rw [heq]
    exact createNew_start4 cfg s s r [] hnf hi hs rfl trivial rfl (hck.imp id Or.inl)
  · obtain ⟨hs1, hf1, hg1⟩ := hs.quietX gd.quiet (by rw [gd.fr.2.1]; exact Nat.le_refl _)
    simp only at hs1 hf1 hg1
    have hi1 : Inv cfg.codec s1 := gd.inv
    have hnf1 : NoFail s1 := gd.nofail
    have hn1 : s1.nextId = s.nextId := gd.fr.2.1
    have hnoc1 : Ev.delCookie ∉ e1 := fun hm => by have := gd.nocookie _ hm; simp [isCookie] at this
    rcases hcase with ⟨hres, heq⟩ | ⟨h, hres, hk, hid, hfound⟩
    · rw [heq]
      refine createNew_start4 cfg s s1 r (e1 ++ [.delCookie]) hnf1 hi1 hs1 hn1 ?_ ?_ (Or.inr (Or.inr (by simp)))
      · rw [fine_append]; exact ⟨hf1, by rw [hg1]; exact ⟨trivial, trivial⟩⟩
      · rw [List.foldl_append, hg1]; rfl
    · subst hres
      have hcoh : HCoh cfg.codec s1 h := hcoh_of_get hi hg hid
      have hmx : ∀ (o : State × Res × List Ev) X, r.cookie = some X → r.cookieLen = 24 → Ev.delCookie ∉ o.2.2 →
          Minted s.nextId X ∨ ∀ h, o.2.1 ≠ .sess h := by
        intro o X hX _ _
        rw [hck] at hX; simp only [Option.some.injEq] at hX; subst hX
        left; rw [← hid, ← hn1]; exact hk.minted
      rcases hfound with ⟨_, heq⟩ | ⟨_, href, _, heq⟩ | ⟨_, href, _, heq⟩ | ⟨t, _, href, _, heq⟩ | ⟨t, _, href, _, heq⟩
      · -- invalid: destroyed, then `createNew`
        rw [heq]
        refine createNew_start4 cfg s (delSt s1 id) r (e1 ++ [.del id, .delCookie]) (delSt_nofail id hnf1)
          (delSt_inv id hi1) (delSt_g4 hs1 id) hn1 ?_ ?_ (Or.inr (Or.inr (by simp)))
        · rw [fine_append]; exact ⟨hf1, by rw [hg1]; exact ⟨trivial, trivial, trivial⟩⟩
        · rw [List.foldl_append, hg1]; rfl
      · -- valid, full, young
        rw [heq]
        have hfull : lookup id g.repl = none := by
          rw [← hid]; exact hs1.full _ (curOK_of_hcoh hcoh href)
        refine ⟨by rw [hg1]; exact hs1.congr rfl rfl, hf1, ?_, Or.inl ⟨hn1, hg1⟩, ?_, hmx _⟩
        · intro h' hh
          simp only [Res.sess.injEq] at hh; subst hh
          show lookup ((touch s1 h r).obj h).id (e1.foldl g4Ev g).repl = none
          rw [hg1, (Loc.touch_obj_keep s1 h h r).1, hid]; exact hfull
        · intro X h' hX _ hh _
          simp only [Res.sess.injEq] at hh; subst hh
          rw [hck] at hX; simp only [Option.some.injEq] at hX; subst hX
          show (e1.foldl g4Ev g).rootOf ((touch s1 h r).obj h).id = _
          rw [(Loc.touch_obj_keep s1 h h r).1, hid]
      · -- valid, full, rotated
        rw [heq]
        have hfull : lookup (s1.obj h).id g.repl = none := hs1.full _ (curOK_of_hcoh hcoh href)
        obtain ⟨r1, r2, r3, r4⟩ := regenerate_g4 cfg s1 h hnf1 hi1 hk hs1 href hfull
        have d := regenerate_delta cfg s1 h hnf1 hi1 hk
        have hfold : (e1 ++ (regenerate cfg s1 h).2.2).foldl g4Ev g = g.link id (.gen s.nextId) := by
          rw [List.foldl_append, hg1, r3, hid, hn1]
        have hidn : ((touch (regenerate cfg s1 h).1 h r).obj h).id = .gen s.nextId := by
          rw [(Loc.touch_obj_keep _ h h r).1, d.obj_h, ← hn1]; rfl
        have hnd : Ev.delCookie ∉ e1 ++ (regenerate cfg s1 h).2.2 := by
          intro hm
          rcases List.mem_append.1 hm with hm | hm
          · exact hnoc1 hm
          · have : Ev.delCookie ∈ (regenerate cfg s1 h).2.2.filter isCookie := List.mem_filter.2 ⟨hm, rfl⟩
            rw [d.cookies] at this
            simp at this
        have hne : id ≠ .gen s.nextId := by rw [← hid, ← hn1]; exact d.ne
        refine ⟨?_, ?_, ?_, Or.inr (Or.inr ⟨id, h, hck, hlen, ?_, ?_, hfold, rfl, hidn, ?_, hnd⟩), ?_, hmx _⟩
        · rw [hfold, ← hid, ← hn1]; exact r1.congr rfl rfl
        · rw [fine_append]; exact ⟨hf1, by rw [hg1]; exact r2⟩
        · intro h' hh
          simp only [Res.sess.injEq] at hh; subst hh
          rw [hfold, hidn, link_repl_ne g _ hne]
          exact hs.fresh_repl (Nat.le_refl _)
        · show (regenerate cfg s1 h).1.nextId = _
          rw [d.fr.2.1, hn1]
        · rw [← hid]; exact hfull
        · rw [← hid]
          exact ⟨_, List.mem_append_right _ r4, by rw [enc_ref, ← hn1]; rfl⟩
        · intro X h' hX _ hh _
          simp only [Res.sess.injEq] at hh; subst hh
          rw [hck] at hX; simp only [Option.some.injEq] at hX; subst hX
          rw [hfold, hidn, rootOf_link4, if_pos rfl, rootOf_link4, if_neg (fun e => hne e.symm)]
      · -- the back-stop
        rw [heq]
        refine ⟨?_, ?_, (by intro h' hh; cases hh), Or.inl ⟨hn1, ?_⟩, (by intro X h' _ _ hh; cases hh), hmx _⟩
        · simp only [List.foldl_append, hg1, List.foldl_cons, List.foldl_nil]
          exact delSt_g4 hs1 id
        · rw [fine_append]; exact ⟨hf1, by rw [hg1]; exact ⟨trivial, trivial⟩⟩
        · simp only [List.foldl_append, hg1, List.foldl_cons, List.foldl_nil]; rfl
      · -- a reference: follow the chain
        rw [heq]
        have fd := follow_delta cfg (s1.store.length + s1.cache.length + 1) s1 h hnf1 hi1 hk hcoh
        have fr := follow_g4 cfg (s1.store.length + s1.cache.length + 1) s1 h hnf1 hi1 hk hcoh hs1
        generalize follow cfg (s1.store.length + s1.cache.length + 1) s1 h = out at fd fr
        obtain ⟨s2, res2, e2⟩ := out
        obtain ⟨hs2, hf2, hg2⟩ := hs1.quietX fd.quiet (by rw [fd.fr.2.1]; exact Nat.le_refl _)
        simp only at hs2 hf2 hg2 fr
        have hn2 : s2.nextId = s.nextId := fd.fr.2.1.trans hn1
        cases res2 with
        | err =>
          refine ⟨?_, ?_, (by intro h' hh; cases hh), Or.inl ⟨hn2, ?_⟩, (by intro X h' _ _ hh; cases hh), hmx _⟩
          · simp only [Loc.startRef, List.foldl_append, hg1, hg2]; exact hs2
          · simp only [Loc.startRef]; rw [fine_append]; exact ⟨hf1, by rw [hg1]; exact hf2⟩
          · simp only [Loc.startRef, List.foldl_append, hg1, hg2]
        | nil =>
          refine ⟨?_, ?_, (by intro h' hh; cases hh), Or.inl ⟨hn2, ?_⟩, (by intro X h' _ _ hh; cases hh), hmx _⟩
          · simp only [Loc.startRef, List.foldl_append, hg1, hg2]; exact hs2
          · simp only [Loc.startRef]; rw [fine_append]; exact ⟨hf1, by rw [hg1]; exact hf2⟩
          · simp only [Loc.startRef, List.foldl_append, hg1, hg2]
        | some h2 =>
          have hfold : (e1 ++ e2 ++ [Ev.setCookie (s2.obj h2).id]).foldl g4Ev g = g := by
            simp only [List.foldl_append, hg1, hg2, List.foldl_cons, List.foldl_nil]; rfl
          rcases fd.res with hn | ⟨h3, he, _, href2, hc2⟩
          · cases hn
          simp only [GetRes.some.injEq] at he; subst he
          refine ⟨?_, ?_, ?_, Or.inl ⟨hn2, ?_⟩, ?_, hmx _⟩
          · simp only [Loc.startRef]; rw [hfold]; exact hs2.congr rfl rfl
          · simp only [Loc.startRef]
            rw [fine_append, fine_append]
            exact ⟨⟨hf1, by rw [hg1]; exact hf2⟩, trivial, trivial⟩
          · intro h' hh
            simp only [Loc.startRef, Res.sess.injEq] at hh ⊢; subst hh
            rw [hfold, (Loc.touch_obj_keep s2 h2 h2 r).1]
            exact hs2.full _ (curOK_of_hcoh hc2 href2)
          · simp only [Loc.startRef]; exact hfold
          · intro X h' hX _ hh _
            simp only [Loc.startRef, Res.sess.injEq] at hh ⊢; subst hh
            rw [hck] at hX; simp only [Option.some.injEq] at hX; subst hX
            rw [hfold, (Loc.touch_obj_keep s2 h2 h2 r).1, fr h2 rfl, hid]

/-! ### handler operations: direct saves of the request's object (with any exception set) -/

/-- overwrite the object (same id, same reference) and write it through. -/
theorem rqX_setObj_save (X : ID → Option ID → Prop) (cfg : Cfg) (s : State) (h : Nat) (o' : Sess) (hv : h < s.heap.length)
    (hid : o'.id = (s.obj h).id) (href : o'.ref = (s.obj h).ref)
    (hcur : X (s.obj h).id (s.obj h).ref ∨ refAt s.store (s.obj h).id = some (s.obj h).ref) :
    RQ X s (saveObj cfg (s.setObj h o') h).1 (saveObj cfg (s.setObj h o') h).2.2 := by
  rw [Loc.saveObj_eq, Loc.obj_setObj_self hv]
  refine (rq_saveRec X cfg (s.setObj h o') o'.id o' ?_).congr_left rfl
  show X o'.id o'.ref ∨ refAt s.store o'.id = some o'.ref
  rw [hid, href]; exact hcur

theorem rqX_hset (X : ID → Option ID → Prop) (cfg : Cfg) (s : State) (h : Nat) (k : String) (v : Val) (hv : h < s.heap.length)
    (hcur : X (s.obj h).id (s.obj h).ref ∨ refAt s.store (s.obj h).id = some (s.obj h).ref) :
    RQ X s (hset cfg s h k v).1 (hset cfg s h k v).2.2 := by
  cases hd : (s.obj h).data with
  | none => rw [Loc.hset_none k v hd]; exact RQ.refl _ _
  | some d => rw [Loc.hset_some k v hd]; exact rqX_setObj_save X cfg s h _ hv rfl rfl hcur

theorem rqX_hdel (X : ID → Option ID → Prop) (cfg : Cfg) (s : State) (h : Nat) (k : String) (hv : h < s.heap.length)
    (hcur : X (s.obj h).id (s.obj h).ref ∨ refAt s.store (s.obj h).id = some (s.obj h).ref) :
    RQ X s (hdel cfg s h k).1 (hdel cfg s h k).2.2 := by
  rw [Loc.hdel_eq]; exact rqX_setObj_save X cfg s h _ hv rfl rfl hcur

theorem rqX_hgetdel (X : ID → Option ID → Prop) (cfg : Cfg) (s : State) (h : Nat) (k : String) (hv : h < s.heap.length)
    (hcur : X (s.obj h).id (s.obj h).ref ∨ refAt s.store (s.obj h).id = some (s.obj h).ref) :
    RQ X s (hgetdel cfg s h k).1 (hgetdel cfg s h k).2.2 := by
  have hS := rqX_setObj_save X cfg s h { s.obj h with data := (s.obj h).data.map (erase k) } hv rfl rfl hcur
  unfold hgetdel
  split
  · exact RQ.refl _ _
  · simp only []
    generalize saveObj cfg (s.setObj h { s.obj h with data := (s.obj h).data.map (erase k) }) h = g at hS
    obtain ⟨s2, ok, e⟩ := g
    exact hS

theorem rqX_hlogout (X : ID → Option ID → Prop) (cfg : Cfg) (s : State) (h : Nat) (hv : h < s.heap.length)
    (hcur : X (s.obj h).id (s.obj h).ref ∨ refAt s.store (s.obj h).id = some (s.obj h).ref) :
    RQ X s (hlogout cfg s h).1 (hlogout cfg s h).2.2 := by
  cases hu : (s.obj h).user with
  | none => rw [Loc.hlogout_none hu]; exact RQ.refl _ _
  | some u => rw [Loc.hlogout_some hu]; exact rqX_setObj_save X cfg s h _ hv rfl rfl hcur

theorem rqX_loginFirst (X : ID → Option ID → Prop) (cfg : Cfg) (le : ID → ID → Bool) (s : State) (h : Nat) (uid : String)
    (excl : Bool) (hnf : NoFail s) (hi : Inv cfg.codec s) (hv : h < s.heap.length)
    (hcur : X (s.obj h).id (s.obj h).ref ∨ refAt s.store (s.obj h).id = some (s.obj h).ref) :
    RQ X s (loginFirst cfg le s h uid excl).1 (loginFirst cfg le s h uid excl).2.2 := by
  unfold loginFirst
  cases excl with
  | true => exact (rq_logoutUser cfg le s uid hnf hi).mono (fun _ _ hx => absurd hx id)
  | false =>
    have hL := rqX_hlogout X cfg s h hv hcur
    simp only [Bool.false_eq_true, if_false]
    generalize hlogout cfg s h = g at hL
    obtain ⟨s1, r1, e1⟩ := g
    exact hL

/-- overwrite the user of an object and `cache.Set` it. -/
theorem rqX_setObj_cacheSet (X : ID → Option ID → Prop) {cfg : Cfg} {s : State} (hi : Inv cfg.codec s) (h : Nat) (o' : Sess)
    (hid : o'.id = (s.obj h).id) (href : o'.ref = (s.obj h).ref)
    (hcur : X (s.obj h).id (s.obj h).ref ∨ refAt s.store (s.obj h).id = some (s.obj h).ref) :
    RQ X s (cacheSet cfg (s.setObj h o') h).1 (cacheSet cfg (s.setObj h o') h).2.2 := by
  refine (rq_cacheSet X cfg (s.setObj h o') h ?_ ?_).congr_left rfl
  · intro k x hm
    rw [(setObj_obj_same s h x o' hid href).2]
    exact Or.inr (inv_rcoh hi hm)
  · rw [(setObj_obj_same s h h o' hid href).1, (setObj_obj_same s h h o' hid href).2]
    exact hcur

/-- **`s.LogIn`** (fault-free) on the request's session (a full session whose id has not been replaced): everything
before the final `RegenerateID` leaves the ghost alone; the `RegenerateID` records the replacement of the session's id
by an id minted during this call. -/
theorem hlogin_g4 (cfg : Cfg) (le : ID → ID → Bool) (s : State) (h : Nat) (uid : String) (excl : Bool) (hnf : NoFail s)
    (hi : Inv cfg.codec s) (hk : HOK s h) {g : G4} (hs : RI s g) (href : (s.obj h).ref = none)
    (hrep : lookup (s.obj h).id g.repl = none) :
    Fine g (hlogin cfg le s h uid excl).2.2 ∧
    ∃ n, s.nextId ≤ n ∧ n < (hlogin cfg le s h uid excl).1.nextId ∧
      (hlogin cfg le s h uid excl).2.2.foldl g4Ev g = g.link (s.obj h).id (.gen n) ∧
      RI (hlogin cfg le s h uid excl).1 (g.link (s.obj h).id (.gen n)) ∧
      ((hlogin cfg le s h uid excl).1.obj h).id = .gen n ∧
      (∃ rc, Ev.save (s.obj h).id rc ∈ (hlogin cfg le s h uid excl).2.2 ∧ rc.ref = some (.gen n)) := by
  rw [Sx.hlogin_eq]
  obtain ⟨h1, h2, h3⟩ := loginFirst_spec cfg le s h uid excl hnf hi hk
  have hX : FullX g (s.obj h).id (s.obj h).ref := ⟨href, hrep⟩
  have hQ := rqX_loginFirst (FullX g) cfg le s h uid excl hnf hi hk.valid (Or.inl hX)
  generalize loginFirst cfg le s h uid excl = g1 at h1 h2 h3 hQ
  obtain ⟨s1, ok1, e1⟩ := g1
  simp only at h1 h2 h3 hQ
  subst h1
  have hl1 : HL s1 h := hk.toHL.step h3
  have hid1 : (s1.obj h).id = (s.obj h).id := (h3.ids h hk.valid).1
  have href1 : (s1.obj h).ref = none := by rw [(h3.ids h hk.valid).2]; exact href
  obtain ⟨hs1, hf1, hg1⟩ := hs.rq hQ (fun _ _ hx => hx) h3.next
  unfold loginTail
  simp only [Bool.not_true, Bool.false_eq_true, if_false]
  have hS := setObj_cacheSet_spec cfg s1 h { s1.obj h with user := some (uid, s1.ver uid) } h3.nofail h2 hl1 rfl rfl
  have hQ3 := rqX_setObj_cacheSet (FullX g) h2 h { s1.obj h with user := some (uid, s1.ver uid) } rfl rfl
    (Or.inl ⟨href1, by rw [hid1]; exact hrep⟩)
  generalize cacheSet cfg (s1.setObj h { s1.obj h with user := some (uid, s1.ver uid) }) h = g3 at hS hQ3
  obtain ⟨s3, ok3, e3⟩ := g3
  obtain ⟨hok3, hinv3, hst3, hhok3, hnext3, _⟩ := hS
  simp only at hok3 hinv3 hst3 hhok3 hQ3 hnext3
  subst hok3
  simp only [Bool.not_true, Bool.false_eq_true, if_false]
  have hid3 : (s3.obj h).id = (s.obj h).id := ((hst3.ids h hl1.valid).1).trans hid1
  have href3 : (s3.obj h).ref = none := by rw [(hst3.ids h hl1.valid).2]; exact href1
  obtain ⟨hs3, hf3, hg3⟩ := hs1.rq hQ3 (fun _ _ hx => hx) (by rw [hnext3]; exact Nat.le_refl _)
  obtain ⟨r1, r2, r3, r4⟩ := regenerate_g4 cfg s3 h hst3.nofail hinv3 hhok3 hs3 href3 (by rw [hid3]; exact hrep)
  have d := regenerate_delta cfg s3 h hst3.nofail hinv3 hhok3
  generalize regenerate cfg s3 h = g4 at r1 r2 r3 r4 d
  obtain ⟨s4, ok4, e4⟩ := g4
  simp only at r1 r2 r3 r4 ⊢
  rw [hid3] at r1 r3 r4
  refine ⟨?_, s3.nextId, ?_, ?_, ?_, r1, ?_, ⟨enc cfg.codec (Loc.rotRef s3 h), ?_, ?_⟩⟩
  · rw [fine_append, fine_append]
    exact ⟨⟨hf1, by rw [hg1]; exact hf3⟩, by rw [List.foldl_append, hg1, hg3]; exact r2⟩
  · rw [hnext3]; exact h3.next
  · have := d.fr.2.1; simp only at this; omega
  · rw [List.foldl_append, List.foldl_append, hg1, hg3, r3]
  · have := d.obj_h; simp only at this; rw [this]; rfl
  · exact List.mem_append_right _ r4
  · rw [enc_ref]; rfl

end Sx.Glob
