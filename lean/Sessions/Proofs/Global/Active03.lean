import Sessions.Proofs.Global.Active03Ops
import Sessions.Proofs.Global.Dead07
/-!
# C03 (second half), history level: active sessions are kept

"With the local cache enabled, a session that keeps being accessed at intervals shorter than SessionExpiry is never
expired however often it is evicted and reloaded in between."

* ghost `G3`, folded from the operations and what they show (`Out.sess`, `Out.t`) only: `served` (session id ↦ the
  last time a request — or a handler's `RegenerateID`/`LogIn` — handed the session out under that id), `lastOK`
  (client ↦ the last time a request sending the client's cookie was given a session);
* invariant `Knows w g`: for every served `(i, t)` the access time the package knows for `i` (`known`: the cached
  object's when `i` is cached, else the stored record's) is at least `truncC codec t`;
* `knows_step`, `knows_all_histories`: the invariant holds along every history satisfying `Hist3OK`;
* `c03_active_not_stale`: the object found under a served id less than `sessionExpiry` after it was served has
  `lastAccess ≥ truncC t`, is not refused as stale, and (address / User-Agent tests off) passes `validFor`;
  `c03_active_kept_id_partial`: … and when it is a session proper the request returns `sess` with that very object;
  **`c03_active_kept_id`**: the same for a live session reached from `i` through a chain of reference records of any
  length (`More.Leads`, `More.c05_chain_resolves`) when the id back-stop does not fire;
  `c03_expired_sound_global`: `Expired()` is false on it; **`c03_expired_refused`**: conversely, at any boundary of any
  fault-free history, when `Expired()` is true on the session proper found under `i`, a request presenting `i` is
  refused (deletion cookie; at most a brand-new session);
  `c03_active_kept_partial`: the client-level form, with the jar/ghost link `Link3` as a hypothesis — the link is
  proved over histories in `Active03Link.lean` (`linked_all_histories`), which states the client-level theorem in
  full: `c03_active_kept`;
* no carve-out is needed for the size-1 cache: a session evicted in mid-request by the `Set` of its own reference
  record is flushed with the stamp of that very instant (`regenerate_served`), and a handler's later write-through of
  the un-cached object carries a `lastAccess` covered by the invariant's clause on the request's object (`KS.cur`);
* §7: a 29-step script (3 clients, cache of size 1, purge, idle sweeps, rotation, both codecs) to which the theorem
  applies, and for every named hypothesis (`maxCache ≠ 0`; no `dropcache`/`crash`/`crashinside`; `wait d` with
  `0 ≤ d`) a script in which a session served less than `sessionExpiry` ago is refused.
-/
namespace Sx.Glob

/-! ## 1. the ghost -/

/-- the knowledge of an observer of the transcript. -/
structure G3 where
  /-- session id ↦ the last time the session was handed out under that id -/
  served : List (ID × Int) := []
  /-- client ↦ the last time a request sending the client's cookie (`.jar`) was given a session -/
  lastOK : List (String × Int) := []
deriving Repr, DecidableEq

/-- operations after which `Out.sess` shows a session that has just been stamped: a request, `RegenerateID`, `LogIn`. -/
def servesOp : Op → Bool
  | .req _ _ _ _ _ => true
  | .h .regen => true
  | .h (.login _ _) => true
  | _ => false

/-- the client of a request that sends its jar. -/
def jarClient : Op → Option String
  | .req c .jar _ _ _ => some c
  | _ => none

/-- the ghost after an operation: reads the operation and its output only. -/
def g3Step (g : G3) (op : Op) (out : Out) : G3 :=
  match out.sess with
  | none => g
  | some p =>
    { served := if servesOp op then insert p.2.id out.t g.served else g.served
      lastOK := match jarClient op with
        | some c => insert c out.t g.lastOK
        | none => g.lastOK }

theorem g3Step_none {g : G3} {op : Op} {out : Out} (h : out.sess = none) : g3Step g op out = g := by
  unfold g3Step; rw [h]

theorem g3Step_quiet {g : G3} {op : Op} {out : Out} (h1 : servesOp op = false) : (g3Step g op out).served = g.served := by
  unfold g3Step
  cases out.sess with
  | none => rfl
  | some p => simp [h1]

theorem g3Step_serves {g : G3} {op : Op} {out : Out} {p : Bool × Sess} (h1 : servesOp op = true) (h2 : out.sess = some p) :
    (g3Step g op out).served = insert p.2.id out.t g.served := by
  unfold g3Step
  rw [h2]
  simp [h1]

/-! ## 2. the invariant on states -/

/-- the knowledge invariant on a state: `sv` is the ghost's `served`, `x` the object of the request in flight. -/
structure KS (c : Codec) (sv : List (ID × Int)) (x : Option Nat) (s : State) : Prop where
  /-- ghost times are in the past -/
  tle : ∀ i t, lookup i sv = some t → t ≤ s.now
  /-- the known access time of a served id is at least the (truncated) time it was served at -/
  kn : ∀ i t k, lookup i sv = some t → known s i = some k → truncC c t ≤ k
  /-- … and so is the `lastAccess` of the object of the request in flight (it may be written through later) -/
  cur : ∀ h t, x = some h → lookup (s.obj h).id sv = some t → truncC c t ≤ (s.obj h).lastAccess

theorem KS.step {c : Codec} {sv : List (ID × Int)} {x : Option Nat} {s s' : State} (hk : KS c sv x s) (hm : KM c x s s')
    (hx : ∀ h, x = some h → h < s.heap.length) : KS c sv x s' := by
  refine ⟨fun i t hl => by rw [hm.now]; exact hk.tle i t hl, ?_, ?_⟩
  · intro i t k' hl hk'
    rcases hm.le i k' hk' with ⟨k, hk0, hle⟩ | hle | ⟨h, hxh, hid, hle⟩
    · exact Int.le_trans (truncC_le_trunc c (hk.kn i t k hl hk0)) hle
    · exact Int.le_trans (truncC_mono c (hk.tle i t hl)) hle
    · exact Int.le_trans (truncC_le_trunc c (hk.cur h t hxh (by rw [hid]; exact hl))) hle
  · intro h t hxh hl
    rcases hm.obj h (hx h hxh) with ⟨hid, hle⟩ | hle
    · exact Int.le_trans (hk.cur h t hxh (by rw [← hid]; exact hl)) hle
    · exact Int.le_trans (Int.le_trans (truncC_le c t) (hk.tle _ t hl)) hle

theorem KS.drop_cur {c : Codec} {sv : List (ID × Int)} {x : Option Nat} {s : State} (hk : KS c sv x s) : KS c sv none s :=
  ⟨hk.tle, hk.kn, by intro h t hh; cases hh⟩

/-- handing the object `h` out at the current time. -/
theorem KS.serve {c : Codec} {sv : List (ID × Int)} {x : Option Nat} {s : State} {h : Nat} (hk : KS c sv x s)
    (hs : Served c s h s.now) : KS c (insert (s.obj h).id s.now sv) (some h) s := by
  refine ⟨?_, ?_, ?_⟩
  · intro i t hl
    rw [Loc.lookup_insert] at hl
    split at hl
    · simp only [Option.some.injEq] at hl; rw [← hl]; exact Int.le_refl _
    · exact hk.tle i t hl
  · intro i t k hl hkn
    rw [Loc.lookup_insert] at hl
    split at hl
    · rename_i hi
      simp only [Option.some.injEq] at hl
      subst hi
      rw [← hl]; exact hs.kn k hkn
    · exact hk.kn i t k hl hkn
  · intro h' t hh hl
    simp only [Option.some.injEq] at hh
    subst hh
    rw [Loc.lookup_insert_self] at hl
    simp only [Option.some.injEq] at hl
    rw [← hl, hs.la]; exact truncC_le _ _

theorem known_advance (s : State) (d : Int) (i : ID) : known (advance s d).1 i = known s i ∨ known (advance s d).1 i = none := by
  obtain ⟨_, _, _, c4, c5⟩ := More.c05_cleanup_advance s d
  obtain ⟨_, _, a3⟩ := More.c05_advance_sub s d
  by_cases hex : ∃ t, (t, i) ∈ s.timers ∧ t ≤ s.now + d
  · obtain ⟨t, hm, ht⟩ := hex
    right
    obtain ⟨h1, h2⟩ := c4 t i hm ht
    rw [known_miss h1, h2]; rfl
  · left
    obtain ⟨h1, h2⟩ := c5 i (by intro t id hm ht e; subst e; exact hex ⟨t, hm, ht⟩)
    exact known_congr h1 h2 (fun y _ => by rw [obj_of_heap_eq a3])

/-- time passing (`d ≥ 0`): clean-up goroutines only remove; nothing known changes. -/
theorem KS.advance {c : Codec} {sv : List (ID × Int)} {x : Option Nat} {s : State} (hk : KS c sv x s) {d : Int} (hd : 0 ≤ d) :
    KS c sv x (advance s d).1 := by
  obtain ⟨c1, _⟩ := More.c05_cleanup_advance s d
  obtain ⟨_, _, a3⟩ := More.c05_advance_sub s d
  refine ⟨fun i t hl => by rw [c1]; have := hk.tle i t hl; omega, ?_, ?_⟩
  · intro i t k hl hkn
    rcases known_advance s d i with e | e
    · rw [e] at hkn; exact hk.kn i t k hl hkn
    · rw [e] at hkn; cases hkn
  · intro h t hh hl
    rw [obj_of_heap_eq a3] at hl ⊢
    exact hk.cur h t hh hl

theorem KS.congr {c : Codec} {sv : List (ID × Int)} {x : Option Nat} {s s' : State} (hk : KS c sv x s) (hnow : s'.now = s.now)
    (hheap : s'.heap = s.heap) (hcache : s'.cache = s.cache) (hstore : s'.store = s.store) : KS c sv x s' := by
  have ho : ∀ y, s'.obj y = s.obj y := obj_of_heap_eq hheap
  refine ⟨fun i t hl => by rw [hnow]; exact hk.tle i t hl, ?_, ?_⟩
  · intro i t k hl hkn
    have e : known s' i = known s i := known_congr (by rw [hcache]) (by rw [hstore]) (fun y _ => by rw [ho])
    rw [e] at hkn
    exact hk.kn i t k hl hkn
  · intro h t hh hl
    rw [ho] at hl ⊢
    exact hk.cur h t hh hl

theorem ks_init (c : Codec) : KS c [] none ({} : State) :=
  ⟨by intro i t h; simp [lookup] at h, by intro i t k h; simp [lookup] at h, by intro h t hh; cases hh⟩

/-! ## 3. the world invariant -/

/-- **the knowledge invariant of C03** at an operation boundary: the process did not die inside an operation and no
restart is pending, the cache is enabled, and `KS` holds for the ghost's `served`. -/
structure Knows (w : World) (g : G3) : Prop where
  alive : w.skip = false ∧ w.freezeAt = none ∧ w.crashed = false
  cache : w.cfg.maxCache ≠ 0
  ks : KS w.cfg.codec g.served w.cur w.st

theorem knows_init (cfg : Cfg) (ck : CookieCfg) (hm : cfg.maxCache ≠ 0) : Knows { cfg := cfg, ck := ck } {} :=
  ⟨⟨rfl, rfl, rfl⟩, hm, ks_init _⟩

theorem finish_alive {w' : World} (o : Out) (h : w'.crashed = false) : finish w' o = (w', o) := by
  unfold finish; simp [h]

/-! ### what an API call leaves and shows -/

theorem apiCall_st3 (w : World) (orc : Orc) (run : State → State × RetV × Option String × List Ev) (b : Bool)
    (hfz : w.freezeAt = none) :
    (apiCall w orc run b).1.st = (advance ({ (run (orcSt w orc)).1 with fails := [], picks := [] } : State) 1).1 := by
  rw [apiCall_fst]
  unfold apiMid apiFrz
  simp only [hfz]

theorem apiCall_flags (w : World) (orc : Orc) (run : State → State × RetV × Option String × List Ev) (b : Bool)
    (hfz : w.freezeAt = none) :
    (apiCall w orc run b).1.skip = w.skip ∧ (apiCall w orc run b).1.freezeAt = none ∧
    (apiCall w orc run b).1.crashed = w.crashed := by
  rw [apiCall_fst]
  unfold apiFrz
  simp only [hfz]
  simp

theorem apiCall_t (w : World) (orc : Orc) (run : State → State × RetV × Option String × List Ev) (b : Bool) :
    (apiCall w orc run b).2.t = w.st.now := by
  unfold apiCall
  generalize run { w.st with fails := orc.fails, picks := orc.picks } = r
  obtain ⟨s1, ret, msg, evs⟩ := r
  simp only []

theorem apiCall_sess (w : World) (orc : Orc) (run : State → State × RetV × Option String × List Ev) (b : Bool) :
    (apiCall w orc run b).2.sess =
      if b then w.cur.map (fun h => (lookup ((run (orcSt w orc)).1.obj h).id (run (orcSt w orc)).1.cache == some h,
        (run (orcSt w orc)).1.obj h)) else none := by
  unfold apiCall
  show _ = if b then w.cur.map (fun h =>
      (lookup ((run { w.st with fails := orc.fails, picks := orc.picks }).1.obj h).id
        (run { w.st with fails := orc.fails, picks := orc.picks }).1.cache == some h,
        (run { w.st with fails := orc.fails, picks := orc.picks }).1.obj h)) else none
  generalize run { w.st with fails := orc.fails, picks := orc.picks } = r
  obtain ⟨s1, ret, msg, evs⟩ := r
  simp only []
  rfl

/-- **one API call**: from `KS` for the state the call leaves (and the ghost that goes with it) to the invariant
after the quiescence tick. -/
theorem knows_apiCall (w : World) (orc : Orc) (run : State → State × RetV × Option String × List Ev) (b : Bool) {g' : G3}
    (hal : w.skip = false ∧ w.freezeAt = none ∧ w.crashed = false) (hc : w.cfg.maxCache ≠ 0)
    (hks : KS w.cfg.codec g'.served w.cur (run (orcSt w orc)).1) : Knows (apiCall w orc run b).1 g' := by
  obtain ⟨f1, f2, f3⟩ := apiCall_flags w orc run b hal.2.1
  refine ⟨⟨by rw [f1]; exact hal.1, f2, by rw [f3]; exact hal.2.2⟩, by rw [More.apiCall_cfg]; exact hc, ?_⟩
  rw [More.apiCall_cfg, apiCall_cur, apiCall_st3 w orc run b hal.2.1]
  exact (hks.congr (s' := { (run (orcSt w orc)).1 with fails := [], picks := [] }) rfl rfl rfl rfl).advance (by omega)


theorem Knows.of_served {w : World} {g g' : G3} (hk : Knows w g) (h : g'.served = g.served) : Knows w g' :=
  ⟨hk.alive, hk.cache, by rw [h]; exact hk.ks⟩

/-- a top-level operation that shows no session: `finish` has nothing to restart, the ghost is unchanged. -/
theorem knows_finish {w' : World} {o : Out} {g : G3} (op : Op) (hk : Knows w' g) (hs : o.sess = none) :
    Knows (finish w' o).1 (g3Step g op (finish w' o).2) := by
  rw [finish_alive o hk.alive.2.2, g3Step_none hs]
  exact hk

/-! ### a request, as one API call -/

/-- the world `World.step` runs `Start` in. -/
def reqW (w : World) (orc : Orc) (client : String) (spec : CookieSpec) (r : Req) : World :=
  { w with inReq := true, client := client,
           cur := (match (start w.cfg (orcSt w orc) r).2.1 with | .sess h => some h | _ => none),
           hasCookie := (presentedOf w client spec).isSome, respCookies := [] }

/-- `Start` as the function of an API call. -/
def reqRun (w : World) (r : Req) : State → State × RetV × Option String × List Ev :=
  fun s => let (s1, res, evs) := start w.cfg s r; (s1, (resStr res).1, (resStr res).2, evs)

theorem step_req_eq (le : ID → ID → Bool) (w : World) (orc : Orc) (client : String) (spec : CookieSpec) (ip ua : String)
    (create : Bool) (hsk : w.skip = false) :
    w.step le orc (.req client spec ip ua create) =
      ((apiCall (reqW w orc client spec (reqOf w client spec ip ua create)) orc (reqRun w (reqOf w client spec ip ua create)) true).1,
       { (apiCall (reqW w orc client spec (reqOf w client spec ip ua create)) orc
            (reqRun w (reqOf w client spec ip ua create)) true).2 with
         input := some ((presentedOf w client spec).map (·.1)) }) := by
  unfold World.step
  rw [if_neg (by simp [hsk])]
  rfl

theorem step_req_fst (le : ID → ID → Bool) (w : World) (orc : Orc) (client : String) (spec : CookieSpec) (ip ua : String)
    (create : Bool) (hsk : w.skip = false) :
    (w.step le orc (.req client spec ip ua create)).1 =
      (apiCall (reqW w orc client spec (reqOf w client spec ip ua create)) orc (reqRun w (reqOf w client spec ip ua create)) true).1 := by
  rw [step_req_eq le w orc client spec ip ua create hsk]

theorem step_req_snd (le : ID → ID → Bool) (w : World) (orc : Orc) (client : String) (spec : CookieSpec) (ip ua : String)
    (create : Bool) (hsk : w.skip = false) :
    (w.step le orc (.req client spec ip ua create)).2 =
      { (apiCall (reqW w orc client spec (reqOf w client spec ip ua create)) orc
            (reqRun w (reqOf w client spec ip ua create)) true).2 with
         input := some ((presentedOf w client spec).map (·.1)) } := by
  rw [step_req_eq le w orc client spec ip ua create hsk]

/-- the ghost does not read the `in` line. -/
theorem g3Step_input (g : G3) (op : Op) (o : Out) (x : Option (Option ID)) : g3Step g op { o with input := x } = g3Step g op o := rfl

theorem reqRun_fst (w : World) (r : Req) (s : State) : (reqRun w r s).1 = (start w.cfg s r).1 := rfl

/-! ## 4. one step of a history -/

/-- **the side conditions of C03 (second half)** on one operation:
* the cache stays enabled: `.cfg "maxCache" 0` is excluded (any other value, negative = unlimited included, is
  allowed) — with `maxCache = 0` the access time `Start` sets is never stored (`c03_nocache_script`);
* no cache LOSS: `.dropcache`, `.crash`, `.crashinside _` are excluded — the access times held in memory only are
  gone (`c03_dropcache_script`, `c03_crash_script`);
* time does not run backwards: `.wait d` with `0 ≤ d` (`c03_backwards_script`). -/
def Op3OK (w : World) : Op → Prop
  | .cfg n v => (setCfg w.cfg n v).maxCache ≠ 0
  | .dropcache => False
  | .crash => False
  | .crashinside _ => False
  | .wait d => 0 ≤ d
  | _ => True

/-- **every operation of a fault-free history that respects `Op3OK` keeps the knowledge invariant**, the ghost being
updated from the operation and what it showed (`g3Step`). -/
theorem knows_step {c : Codec} (le : ID → ID → Bool) (w : World) (orc : Orc) (op : Op) (hw : WInv c w) {g : G3}
    (hk : Knows w g) (ho : OrcOK orc) (hopk : OpOK le w op) (h3 : Op3OK w op) :
    Knows (w.step le orc op).1 (g3Step g op (w.step le orc op).2) := by
  have hsk' : w.skip = false := hk.alive.1
  obtain ⟨hinv, hcur⟩ := hw.good hsk'
  have hcd := hw.codec
  subst hcd
  have hm := hk.cache
  have hnf0 : NoFail (orcSt w orc) := ho
  have hinv0 : Inv w.cfg.codec (orcSt w orc) := hinv.congr rfl rfl rfl rfl rfl
  have hcur0 : ∀ h, w.cur = some h → HOK (orcSt w orc) h := fun h hh => (hcur h hh).congr rfl rfl rfl
  have hks0 : KS w.cfg.codec g.served w.cur (orcSt w orc) := hk.ks.congr rfl rfl rfl rfl
  have hxv : ∀ h, w.cur = some h → h < (orcSt w orc).heap.length := fun h hh => (hcur0 h hh).valid
  -- an API call that leaves the ghost alone
  have quiet : ∀ (run : State → State × RetV × Option String × List Ev) (b : Bool),
      KM w.cfg.codec w.cur (orcSt w orc) (run (orcSt w orc)).1 → Knows (apiCall w orc run b).1 g :=
    fun run b hkm => knows_apiCall w orc run b hk.alive hm (hks0.step hkm hxv)
  cases op with
  | codec c' => exact absurd hopk (by simp [OpOK])
  | crashinside k => exact absurd h3 (by simp [Op3OK])
  | dropcache => exact absurd h3 (by simp [Op3OK])
  | crash => exact absurd h3 (by simp [Op3OK])
  | cfg n v =>
    unfold World.step
    simp only [hsk', Bool.false_and, Bool.false_eq_true, if_false]
    exact knows_finish (.cfg n v) ⟨⟨rfl, hk.alive.2.1, hk.alive.2.2⟩, h3, by
      show KS (setCfg w.cfg n v).codec g.served w.cur w.st
      rw [setCfg_codec]; exact hk.ks⟩ rfl
  | cookiecfg ck =>
    unfold World.step
    simp only [hsk', Bool.false_and, Bool.false_eq_true, if_false]
    exact knows_finish (.cookiecfg ck) ⟨⟨rfl, hk.alive.2.1, hk.alive.2.2⟩, hk.cache, hk.ks⟩ rfl
  | fault =>
    unfold World.step
    simp only [hsk', Bool.false_and, Bool.false_eq_true, if_false]
    exact knows_finish .fault hk rfl
  | expiredRec id =>
    unfold World.step
    simp only [hsk', Bool.false_and, Bool.false_eq_true, if_false]
    exact knows_finish (.expiredRec id) hk rfl
  | stale uid id =>
    unfold World.step
    simp only [hsk', Bool.false_and, Bool.false_eq_true, if_false]
    exact knows_finish (.stale uid id) ⟨⟨rfl, hk.alive.2.1, hk.alive.2.2⟩, hk.cache, hk.ks.congr rfl rfl rfl rfl⟩ rfl
  | wait d =>
    unfold World.step
    simp only [hsk', Bool.false_and, Bool.false_eq_true, if_false]
    exact knows_finish (.wait d) ⟨⟨rfl, hk.alive.2.1, hk.alive.2.2⟩, hk.cache, hk.ks.advance h3⟩ rfl
  | endReq =>
    unfold World.step
    simp only [hsk', Bool.false_and, Bool.false_eq_true, if_false]
    exact knows_finish .endReq ⟨⟨rfl, hk.alive.2.1, hk.alive.2.2⟩, hk.cache, hk.ks.drop_cur⟩ rfl
  | purge =>
    unfold World.step
    simp only [hsk', Bool.false_and, Bool.false_eq_true, if_false]
    refine knows_finish .purge (quiet _ false ?_) (by rw [apiCall_sess]; rfl)
    exact (km_purge w.cfg (orcSt w orc) hnf0 hinv0.cnodup).weaken _
  | logoutUser uid =>
    unfold World.step
    simp only [hsk', Bool.false_and, Bool.false_eq_true, if_false]
    refine knows_finish (.logoutUser uid) (quiet _ false ?_) (by rw [apiCall_sess]; rfl)
    exact (km_logoutUser w.cfg le (orcSt w orc) uid hnf0 hinv0 hm).weaken _
  | refresh uid =>
    unfold World.step
    simp only [hsk', Bool.false_and, Bool.false_eq_true, if_false]
    refine knows_finish (.refresh uid) (quiet _ false ?_) (by rw [apiCall_sess]; rfl)
    exact (km_refreshUser w.cfg le (orcSt w orc) uid hnf0 hinv0 hm).weaken _
  | req client spec ip ua create =>
    rw [step_req_fst le w orc client spec ip ua create hsk', step_req_snd le w orc client spec ip ua create hsk', g3Step_input]
    generalize reqOf w client spec ip ua create = r
    obtain ⟨hK, hS⟩ := km_start w.cfg (orcSt w orc) r hnf0 hinv0 hm
    have hks1 : KS w.cfg.codec g.served none (start w.cfg (orcSt w orc) r).1 := hks0.drop_cur.step hK (by intro h hh; cases hh)
    have hnow1 : (start w.cfg (orcSt w orc) r).1.now = w.st.now := hK.now
    refine knows_apiCall (reqW w orc client spec r) orc (reqRun w r) true ⟨hsk', hk.alive.2.1, hk.alive.2.2⟩ hm ?_
    show KS w.cfg.codec _ (match (start w.cfg (orcSt w orc) r).2.1 with | .sess h => some h | _ => none)
      (start w.cfg (orcSt w orc) r).1
    have hsess := apiCall_sess (reqW w orc client spec r) orc (reqRun w r) true
    have ht := apiCall_t (reqW w orc client spec r) orc (reqRun w r) true
    cases hres : (start w.cfg (orcSt w orc) r).2.1 with
    | sess h =>
      have hcw : (reqW w orc client spec r).cur = some h := by show (match (start w.cfg (orcSt w orc) r).2.1 with | .sess h => some h | _ => none) = _; rw [hres]
      rw [hcw] at hsess
      simp only [if_true, Option.map_some] at hsess
      rw [g3Step_serves (p := (_, _)) rfl hsess]
      simp only []
      rw [ht]
      have hsv : Served w.cfg.codec (start w.cfg (orcSt w orc) r).1 h (start w.cfg (orcSt w orc) r).1.now := by
        rw [hnow1]; exact (hS h hres).2
      have := hks1.serve hsv
      rw [hnow1] at this
      exact this
    | nil =>
      have hcw : (reqW w orc client spec r).cur = none := by show (match (start w.cfg (orcSt w orc) r).2.1 with | .sess h => some h | _ => none) = _; rw [hres]
      rw [hcw] at hsess
      rw [g3Step_none hsess]
      exact hks1
    | err m =>
      have hcw : (reqW w orc client spec r).cur = none := by show (match (start w.cfg (orcSt w orc) r).2.1 with | .sess h => some h | _ => none) = _; rw [hres]
      rw [hcw] at hsess
      rw [g3Step_none hsess]
      exact hks1
  | h hop =>
    unfold World.step
    simp only [hsk', Bool.false_and, Bool.false_eq_true, if_false]
    cases hc : w.cur with
    | none => exact Knows.of_served hk (by rw [g3Step_none rfl])
    | some h =>
      simp only []
      have hk0 := hcur0 h hc
      have hv := hk0.valid
      -- handler calls that leave the ghost alone
      have quietH : ∀ (run : State → State × RetV × Option String × List Ev) (hop : HOp), servesOp (.h hop) = false →
          KM w.cfg.codec (some h) (orcSt w orc) (run (orcSt w orc)).1 →
          Knows (apiCall w orc run true).1 (g3Step g (.h hop) (apiCall w orc run true).2) :=
        fun run hop hq hkm => (quiet run true (by rw [hc]; exact hkm)).of_served (g3Step_quiet hq)
      -- handler calls that stamp the session and may change its id
      have servesH : ∀ (run : State → State × RetV × Option String × List Ev) (hop : HOp), servesOp (.h hop) = true →
          KM w.cfg.codec (some h) (orcSt w orc) (run (orcSt w orc)).1 →
          Served w.cfg.codec (run (orcSt w orc)).1 h (orcSt w orc).now →
          Knows (apiCall w orc run true).1 (g3Step g (.h hop) (apiCall w orc run true).2) := by
        intro run hop hq hkm hsv
        refine knows_apiCall w orc run true hk.alive hm ?_
        have hsess := apiCall_sess w orc run true
        rw [hc] at hsess
        simp only [if_true, Option.map_some] at hsess
        rw [g3Step_serves (p := (_, _)) hq hsess, apiCall_t, hc]
        simp only []
        have hks1 : KS w.cfg.codec g.served (some h) (run (orcSt w orc)).1 := by
          have := hks0.step (by rw [hc]; exact hkm) hxv
          rwa [hc] at this
        have hnow1 : (run (orcSt w orc)).1.now = w.st.now := hkm.now
        have := hks1.serve (by rw [hnow1]; exact hsv)
        rw [hnow1] at this
        exact this
      cases hop with
      | set k v => exact quietH _ (.set k v) rfl (km_hset w.cfg (orcSt w orc) h k v hv)
      | del k => exact quietH _ (.del k) rfl (km_hdel w.cfg (orcSt w orc) h k hv)
      | get k => exact quietH _ (.get k) rfl (KM.refl _ _ _)
      | getdel k => exact quietH _ (.getdel k) rfl (km_hgetdel w.cfg (orcSt w orc) h k hv)
      | logout => exact quietH _ .logout rfl (km_hlogout w.cfg (orcSt w orc) h hv)
      | destroy => exact quietH _ .destroy rfl (km_destroy _ _ (orcSt w orc) h w.hasCookie hnf0)
      | expired => exact quietH _ .expired rfl (KM.refl _ _ _)
      | lastaccess => exact quietH _ .lastaccess rfl (KM.refl _ _ _)
      | user => exact quietH _ .user rfl (KM.refl _ _ _)
      | regen =>
        exact servesH _ .regen rfl ((km_regenerate w.cfg (orcSt w orc) h hinv0.cnodup hv hinv0.valid hm).weaken _)
          (regenerate_served w.cfg (orcSt w orc) h hnf0 hinv0 hk0)
      | login uid excl =>
        obtain ⟨h1, h2⟩ := km_hlogin w.cfg le (orcSt w orc) h uid excl hnf0 hinv0 hk0 hm
        exact servesH _ (.login uid excl) rfl h1 h2


/-! ## 5. histories -/

/-- run a history, stepping the world and the ghost together (the ghost only sees the operation and its output). -/
def runK (le : ID → ID → Bool) (w : World) (g : G3) : List (Orc × Op) → World × G3
  | [] => (w, g)
  | (o, op) :: r => runK le (w.step le o op).1 (g3Step g op (w.step le o op).2) r

theorem runK_fst (le : ID → ID → Bool) (w : World) (g : G3) (hist : List (Orc × Op)) :
    (runK le w g hist).1 = runHist le w hist := by
  induction hist generalizing w g with
  | nil => rfl
  | cons p r ih => obtain ⟨o, op⟩ := p; exact ih _ _

theorem runK_append (le : ID → ID → Bool) (w : World) (g : G3) (a b : List (Orc × Op)) :
    runK le w g (a ++ b) = runK le (runK le w g a).1 (runK le w g a).2 b := by
  induction a generalizing w g with
  | nil => rfl
  | cons p r ih => obtain ⟨o, op⟩ := p; exact ih _ _

/-- **the side conditions of C03 (second half)**, checked along the run: fault-free oracles (`OrcOK`), the side
conditions of the coherence invariant (`OpOK`: no codec switch; `SoleObject` for a user-wide `LogOut`/`RefreshUser`
issued while a request is in flight) and `Op3OK` (cache enabled, no cache loss, time does not run backwards).
Everything else is arbitrary: presented ids, every duration setting, the cache size (changes between non-zero
values, negative = unlimited), cookie template, `wait`, `purge`, evictions by other clients' traffic, idle sweeps,
handler calls, global `LogOut`/`RefreshUser`, stale index entries. -/
def Hist3OK (le : ID → ID → Bool) (w : World) : List (Orc × Op) → Prop
  | [] => True
  | (o, op) :: r => OrcOK o ∧ OpOK le w op ∧ Op3OK w op ∧ Hist3OK le (w.step le o op).1 r

theorem Hist3OK.histOK {le : ID → ID → Bool} {w : World} {hist : List (Orc × Op)} (h : Hist3OK le w hist) : HistOK le w hist := by
  induction hist generalizing w with
  | nil => trivial
  | cons p r ih => obtain ⟨o, op⟩ := p; exact ⟨h.1, h.2.1, ih h.2.2.2⟩

theorem Hist3OK.take {le : ID → ID → Bool} {w : World} {hist : List (Orc × Op)} (h : Hist3OK le w hist) (n : Nat) :
    Hist3OK le w (hist.take n) := by
  induction hist generalizing w n with
  | nil => simp [Hist3OK]
  | cons p r ih =>
    obtain ⟨o, op⟩ := p
    cases n with
    | zero => trivial
    | succ n => exact ⟨h.1, h.2.1, h.2.2.1, ih h.2.2.2 n⟩

theorem knows_hist {c : Codec} (le : ID → ID → Bool) (hist : List (Orc × Op)) (w : World) (g : G3) (hw : WInv c w)
    (hk : Knows w g) (hok : Hist3OK le w hist) :
    WInv c (runK le w g hist).1 ∧ Knows (runK le w g hist).1 (runK le w g hist).2 := by
  induction hist generalizing w g with
  | nil => exact ⟨hw, hk⟩
  | cons p r ih =>
    obtain ⟨o, op⟩ := p
    obtain ⟨h1, h2, h3, h4⟩ := hok
    exact ih _ _ (step_inv le w o op hw h1 h2) (knows_step le w o op hw hk h1 h2 h3) h4

/-- **C03 (second half), the knowledge invariant at the end of every history** (hence at every operation boundary:
`knows_every_boundary`). From the empty world with any configuration whose cache is enabled (`maxCache ≠ 0`; negative =
unlimited) and any cookie template, and the empty ghost, after every history satisfying `Hist3OK`: the coherence
invariant `WInv` and the knowledge invariant `Knows` hold for the world and the ghost computed along the way. -/
theorem knows_all_histories (le : ID → ID → Bool) (cfg : Cfg) (ck : CookieCfg) (hm : cfg.maxCache ≠ 0) (hist : List (Orc × Op))
    (hok : Hist3OK le { cfg := cfg, ck := ck } hist) :
    WInv cfg.codec (runK le { cfg := cfg, ck := ck } {} hist).1 ∧
    Knows (runK le { cfg := cfg, ck := ck } {} hist).1 (runK le { cfg := cfg, ck := ck } {} hist).2 :=
  knows_hist le hist _ _ (init_winv cfg ck) (knows_init cfg ck hm) hok

theorem knows_every_boundary (le : ID → ID → Bool) (cfg : Cfg) (ck : CookieCfg) (hm : cfg.maxCache ≠ 0) (hist : List (Orc × Op))
    (hok : Hist3OK le { cfg := cfg, ck := ck } hist) (n : Nat) :
    WInv cfg.codec (runK le { cfg := cfg, ck := ck } {} (hist.take n)).1 ∧
    Knows (runK le { cfg := cfg, ck := ck } {} (hist.take n)).1 (runK le { cfg := cfg, ck := ck } {} (hist.take n)).2 :=
  knows_all_histories le cfg ck hm _ (hok.take n)

/-- `Knows`, spelled out for one served id: the time the package knows — the cached object's `lastAccess` when the
id is cached, else the stored record's — is at least the time it was served at, as the codec keeps it. -/
theorem Knows.spelled_out {w : World} {g : G3} (hk : Knows w g) {i : ID} {t : Int} (hs : lookup i g.served = some t) :
    t ≤ w.st.now ∧
    (∀ h, lookup i w.st.cache = some h → truncC w.cfg.codec t ≤ (w.st.obj h).lastAccess) ∧
    (∀ r, lookup i w.st.cache = none → lookup i w.st.store = some r → truncC w.cfg.codec t ≤ r.lastAccess) := by
  refine ⟨hk.ks.tle i t hs, ?_, ?_⟩
  · intro h hc; exact hk.ks.kn i t _ hs (known_hit hc)
  · intro r hc hr; exact hk.ks.kn i t _ hs (by rw [known_miss hc, hr]; rfl)

/-! ### Boolean / syntactic checkers for the side conditions -/

def op3OKb (w : World) : Op → Bool
  | .cfg n v => (setCfg w.cfg n v).maxCache != 0
  | .dropcache => false
  | .crash => false
  | .crashinside _ => false
  | .wait d => decide (0 ≤ d)
  | _ => true

def hist3OKb (le : ID → ID → Bool) (w : World) : List (Orc × Op) → Bool
  | [] => true
  | (o, op) :: r => orcOKb o && opOKb le w op && op3OKb w op && hist3OKb le (w.step le o op).1 r

theorem op3OK_of_b {w : World} {op : Op} (h : op3OKb w op = true) : Op3OK w op := by
  cases op <;> first | trivial | (simpa [op3OKb, Op3OK] using h)

theorem hist3OK_of_b (le : ID → ID → Bool) (hist : List (Orc × Op)) (w : World) (h : hist3OKb le w hist = true) :
    Hist3OK le w hist := by
  induction hist generalizing w with
  | nil => trivial
  | cons p r ih =>
    obtain ⟨o, op⟩ := p
    simp only [hist3OKb, Bool.and_eq_true] at h
    exact ⟨orcOK_of_b h.1.1.1, opOK_of_b h.1.1.2, op3OK_of_b h.1.2, ih _ h.2⟩


theorem setCfg_maxCache (c : Cfg) (n : String) (v : Int) : (setCfg c n v).maxCache = c.maxCache ∨ (setCfg c n v).maxCache = v := by
  unfold setCfg
  repeat (first | exact Or.inl rfl | exact Or.inr rfl | split)

theorem step_cfg_maxCache (le : ID → ID → Bool) (w : World) (orc : Orc) (n : String) (v : Int) :
    (w.step le orc (.cfg n v)).1.cfg.maxCache = w.cfg.maxCache ∨ (w.step le orc (.cfg n v)).1.cfg.maxCache = v := by
  by_cases hsk : w.skip = true
  · rw [step_skip le w orc _ hsk (by simp)]; exact Or.inl rfl
  · have hsk' : w.skip = false := by simpa using hsk
    unfold World.step
    simp only [hsk', Bool.false_and, Bool.false_eq_true, if_false, finish_fst, More.finW_cfg]
    exact setCfg_maxCache w.cfg n v

/-- a purely syntactic sufficient condition (decidable by the kernel): fault-free oracles; no codec switch, no
`crashinside`/`dropcache`/`crash`; every `.cfg _ v` has `v ≠ 0`; every `.wait d` has `0 ≤ d`; user-wide
`LogOut`/`RefreshUser` only between requests (the Boolean says whether a request is open). -/
def synt3B : Bool → List (Orc × Op) → Bool
  | _, [] => true
  | q, (o, op) :: r =>
    orcOKb o &&
      (match op with
       | .codec _ => false
       | .crashinside _ => false
       | .dropcache => false
       | .crash => false
       | .cfg _ v => decide (v ≠ 0) && synt3B q r
       | .wait d => decide (0 ≤ d) && synt3B q r
       | .logoutUser _ => !q && synt3B q r
       | .refresh _ => !q && synt3B q r
       | .req _ _ _ _ _ => synt3B true r
       | .endReq => synt3B false r
       | _ => synt3B q r)

theorem hist3OK_of_synt (le : ID → ID → Bool) (hist : List (Orc × Op)) (w : World) (q : Bool)
    (h : synt3B q hist = true) (hq : q = false → w.cur = none) (hm : w.cfg.maxCache ≠ 0) : Hist3OK le w hist := by
  induction hist generalizing w q with
  | nil => trivial
  | cons p r ih =>
    obtain ⟨o, op⟩ := p
    simp only [synt3B, Bool.and_eq_true] at h
    obtain ⟨ho, hop⟩ := h
    have hsole : q = false → ∀ uid, SoleObject le w uid := by
      intro hb' uid h hh; rw [hq hb'] at hh; simp at hh
    have hkeep : ∀ (_ : ∀ client spec ip ua create, op ≠ .req client spec ip ua create),
        q = false → (w.step le o op).1.cur = none := fun hne hb' => step_cur_none le w o op (hq hb') hne
    have hmx : ∀ (_ : More.KeepsMax w op), (w.step le o op).1.cfg.maxCache ≠ 0 := fun hk => by
      rw [More.step_maxCache le w o op hk]; exact hm
    cases op with
    | codec c => simp at hop
    | crashinside k => simp at hop
    | dropcache => simp at hop
    | crash => simp at hop
    | cfg n v =>
      simp only [Bool.and_eq_true, decide_eq_true_eq] at hop
      have hm' : (w.step le o (.cfg n v)).1.cfg.maxCache ≠ 0 := by
        rcases step_cfg_maxCache le w o n v with e | e <;> rw [e]
        · exact hm
        · exact hop.1
      refine ⟨orcOK_of_b ho, trivial, ?_, ih _ q hop.2 (hkeep (by intros; simp)) hm'⟩
      show (setCfg w.cfg n v).maxCache ≠ 0
      rcases setCfg_maxCache w.cfg n v with e | e <;> rw [e]
      · exact hm
      · exact hop.1
    | wait d =>
      simp only [Bool.and_eq_true, decide_eq_true_eq] at hop
      exact ⟨orcOK_of_b ho, trivial, hop.1, ih _ q hop.2 (hkeep (by intros; simp)) (hmx trivial)⟩
    | logoutUser uid =>
      simp only [Bool.and_eq_true, Bool.not_eq_true'] at hop
      exact ⟨orcOK_of_b ho, Or.inr (hsole hop.1 uid), trivial, ih _ q hop.2 (hkeep (by intros; simp)) (hmx trivial)⟩
    | refresh uid =>
      simp only [Bool.and_eq_true, Bool.not_eq_true'] at hop
      exact ⟨orcOK_of_b ho, Or.inr (hsole hop.1 uid), trivial, ih _ q hop.2 (hkeep (by intros; simp)) (hmx trivial)⟩
    | req client spec ip ua create =>
      exact ⟨orcOK_of_b ho, trivial, trivial, ih _ true hop (by intro h; simp at h) (hmx trivial)⟩
    | endReq =>
      exact ⟨orcOK_of_b ho, trivial, trivial, ih _ false hop (fun _ => step_endReq_cur le w o) (hmx trivial)⟩
    | cookiecfg ck => exact ⟨orcOK_of_b ho, trivial, trivial, ih _ q hop (hkeep (by intros; simp)) (hmx trivial)⟩
    | stale uid id => exact ⟨orcOK_of_b ho, trivial, trivial, ih _ q hop (hkeep (by intros; simp)) (hmx trivial)⟩
    | h hop' => exact ⟨orcOK_of_b ho, trivial, trivial, ih _ q hop (hkeep (by intros; simp)) (hmx trivial)⟩
    | purge => exact ⟨orcOK_of_b ho, trivial, trivial, ih _ q hop (hkeep (by intros; simp)) (hmx trivial)⟩
    | expiredRec id => exact ⟨orcOK_of_b ho, trivial, trivial, ih _ q hop (hkeep (by intros; simp)) (hmx trivial)⟩
    | fault => exact ⟨orcOK_of_b ho, trivial, trivial, ih _ q hop (hkeep (by intros; simp)) (hmx trivial)⟩


/-! ## 6. an active session is kept -/

/-- the object `cache.Get` returns carries the access time the package knew for the id. -/
theorem cacheGet_known {cfg : Cfg} {s s1 : State} {i : ID} {h : Nat} {e1 : List Ev} (hnf : NoFail s) (hi : Inv cfg.codec s)
    (hg : cacheGet cfg s i = (s1, .some h, e1)) : known s i = some (s1.obj h).lastAccess ∧ s1.now = s.now := by
  have gd := cacheGet_delta cfg s i hnf hi
  rw [hg] at gd
  refine ⟨?_, gd.fr.1⟩
  rcases gd.res with ⟨h0, _⟩ | ⟨h', r0, h0, _, _, hl, _, hcase⟩
  · cases h0
  · simp only [GetRes.some.injEq] at h0
    subst h0
    rcases hcase with ⟨hc, he⟩ | ⟨hc, _, ho⟩
    · have he' : s1 = s := he
      rw [he', known_hit hc]
    · have ho' : s1.obj h = dec s.ver i r0 := ho
      rw [known_miss hc, hl, ho']; rfl

/-- the address and User-Agent tests of `Start` are switched off. -/
def AcceptAll (cfg : Cfg) : Prop := cfg.acceptIP ≤ 1 ∧ cfg.acceptUA = true

theorem ipOK_acceptAll {cfg : Cfg} (h : AcceptAll cfg) (a b : String) : ipOK cfg a b = true := by
  unfold ipOK
  rw [if_neg (by have := h.1; omega)]

theorem uaOK_acceptAll {cfg : Cfg} (h : AcceptAll cfg) (a b : Nat) : uaOK cfg a b = true := by
  unfold uaOK
  rw [h.2]; rfl

/-- **C03, active sessions are not stale (ID level, both kinds of record).** In a world satisfying the invariants (any
boundary of a history as in `knows_all_histories`, inside a request or not), let the id `i` have been served at `t`
and let less than `SessionExpiry` have passed since (`t` as the codec keeps it: JSON drops the sub-second part). Then
the object `cache.Get` finds under `i` now — whether it is still cached or has been evicted, idle-swept or purged and
is re-loaded from the store, however often — has `lastAccess ≥ truncC t`, is NOT refused as stale by `Start`, and
with the address/User-Agent tests switched off passes `validFor` for every request. -/
theorem c03_active_not_stale {c : Codec} (w : World) (orc : Orc) (hw : WInv c w) {g : G3} (hk : Knows w g) (ho : OrcOK orc)
    {i : ID} {t : Int} (hs : lookup i g.served = some t) (hfresh : w.st.now - truncC w.cfg.codec t < w.cfg.sessionExpiry)
    {s1 : State} {h : Nat} {e1 : List Ev} (hg : cacheGet w.cfg (orcSt w orc) i = (s1, .some h, e1)) :
    truncC w.cfg.codec t ≤ (s1.obj h).lastAccess ∧
    ¬ (since s1.now (s1.obj h).lastAccess ≥ w.cfg.sessionExpiry) ∧
    (∀ r : Req, AcceptAll w.cfg → validFor w.cfg s1.now (s1.obj h) r = true) := by
  obtain ⟨hinv, _⟩ := hw.good hk.alive.1
  have hcd := hw.codec
  subst hcd
  have hinv0 : Inv w.cfg.codec (orcSt w orc) := hinv.congr rfl rfl rfl rfl rfl
  have hnf0 : NoFail (orcSt w orc) := ho
  obtain ⟨hkn, hnow⟩ := cacheGet_known (cfg := w.cfg) hnf0 hinv0 hg
  have hks0 : KS w.cfg.codec g.served w.cur (orcSt w orc) := hk.ks.congr rfl rfl rfl rfl
  have hle := hks0.kn i t _ hs hkn
  have hnow' : s1.now = w.st.now := hnow
  have hns : ¬ (since s1.now (s1.obj h).lastAccess ≥ w.cfg.sessionExpiry) := by
    unfold since; rw [hnow']; omega
  refine ⟨hle, hns, ?_⟩
  intro r hacc
  unfold validFor
  rw [ipOK_acceptAll hacc, uaOK_acceptAll hacc]
  simp only [Bool.and_true, Bool.not_eq_true', decide_eq_false_iff_not]
  exact hns

theorem apiCall_ret (w : World) (orc : Orc) (run : State → State × RetV × Option String × List Ev) (b : Bool) :
    (apiCall w orc run b).2.ret = some (run (orcSt w orc)).2.1 := by
  unfold apiCall
  show _ = some (run { w.st with fails := orc.fails, picks := orc.picks }).2.1
  generalize run { w.st with fails := orc.fails, picks := orc.picks } = r
  obtain ⟨s1, ret, msg, evs⟩ := r
  simp only []

theorem reqOf_presented {w : World} {client : String} {spec : CookieSpec} {i : ID} (ip ua : String) (create : Bool)
    (hp : presentedOf w client spec = some (i, 24)) :
    (reqOf w client spec ip ua create).cookie = some i ∧ (reqOf w client spec ip ua create).cookieLen = 24 := by
  simp [reqOf, hp]

/-- **C03, an active session is kept (ID level; full sessions).** As `c03_active_not_stale`, for a request (any
client, by value `.val i 24` or from the jar) presenting `i` with the address/User-Agent tests switched off
(`AcceptAll`): when the object found under `i` is a session proper (`ref = none`), the request is answered with
`sess`, and the session it is given is the found object `h` itself (same user, same data) — never a new one; `Start`
may rotate its id.

PARTIAL in this form: the case where the record found under `i` is a *reference* left by an id rotation
(`ref = some _`) is not covered here but in `c03_active_kept_id` below (which needs the chain to resolve and the id
back-stop not to fire, and says less about the returned object). -/
theorem c03_active_kept_id_partial {c : Codec} (le : ID → ID → Bool) (w : World) (orc : Orc) (hw : WInv c w) {g : G3}
    (hk : Knows w g) (ho : OrcOK orc) (client : String) (spec : CookieSpec) (ip ua : String) (create : Bool)
    {i : ID} {t : Int} (hp : presentedOf w client spec = some (i, 24)) (hs : lookup i g.served = some t)
    (hfresh : w.st.now - truncC w.cfg.codec t < w.cfg.sessionExpiry) (hacc : AcceptAll w.cfg)
    {s1 : State} {h : Nat} {e1 : List Ev} (hg : cacheGet w.cfg (orcSt w orc) i = (s1, .some h, e1))
    (href : (s1.obj h).ref = none) :
    (w.step le orc (.req client spec ip ua create)).2.ret = some (.str "sess") ∧
    (w.step le orc (.req client spec ip ua create)).1.cur = some h ∧
    ((w.step le orc (.req client spec ip ua create)).1.st.obj h).user = (s1.obj h).user ∧
    ((w.step le orc (.req client spec ip ua create)).1.st.obj h).data = (s1.obj h).data := by
  have hsk' : w.skip = false := hk.alive.1
  obtain ⟨_, _, hvalid⟩ := c03_active_not_stale w orc hw hk ho hs hfresh hg
  obtain ⟨hinv, _⟩ := hw.good hsk'
  have hcd := hw.codec
  subst hcd
  have hnf0 : NoFail (orcSt w orc) := ho
  have hinv0 : Inv w.cfg.codec (orcSt w orc) := hinv.congr rfl rfl rfl rfl rfl
  obtain ⟨hck, hlen⟩ := reqOf_presented ip ua create hp
  obtain ⟨hv1, hv2⟩ := step_req_view le w orc client spec ip ua create hsk' hk.alive.2.1
  have hret : (w.step le orc (.req client spec ip ua create)).2.ret =
      some (resStr (start w.cfg (orcSt w orc) (reqOf w client spec ip ua create)).2.1).1 := by
    rw [step_req_snd le w orc client spec ip ua create hsk']
    exact apiCall_ret (reqW w orc client spec (reqOf w client spec ip ua create)) orc
      (reqRun w (reqOf w client spec ip ua create)) true
  generalize reqOf w client spec ip ua create = r at hck hlen hv1 hv2 hret
  have hv := hvalid r hacc
  -- the result of `Start`
  have hstart : (start w.cfg (orcSt w orc) r).2.1 = .sess h ∧
      ((start w.cfg (orcSt w orc) r).1.obj h).user = (s1.obj h).user ∧
      ((start w.cfg (orcSt w orc) r).1.obj h).data = (s1.obj h).data := by
    rcases start_cases w.cfg (orcSt w orc) r hnf0 hinv0 with ⟨hno, _⟩ | ⟨id, s1', res, e1', hck', _, hg', gd, hcase⟩
    · rcases hno with h0 | h0
      · rw [hck] at h0; cases h0
      · exact absurd hlen h0
    · rw [hck] at hck'
      simp only [Option.some.injEq] at hck'
      subst hck'
      rw [hg] at hg'
      simp only [Prod.mk.injEq] at hg'
      obtain ⟨rfl, rfl, rfl⟩ := hg'
      rcases hcase with ⟨h0, _⟩ | ⟨h', h0, hk', _, hfound⟩
      · cases h0
      · simp only [GetRes.some.injEq] at h0
        subst h0
        rcases hfound with ⟨hv', _⟩ | ⟨_, _, _, heq⟩ | ⟨_, _, _, heq⟩ | ⟨t', _, href', _⟩ | ⟨t', _, href', _⟩
        · rw [hv] at hv'; cases hv'
        · rw [heq]
          obtain ⟨_, k2, k3, _, _⟩ := Loc.touch_obj_keep s1 h h r
          exact ⟨rfl, k2, k3⟩
        · rw [heq]
          obtain ⟨_, k2, k3, _, _⟩ := Loc.touch_obj_keep (regenerate w.cfg s1 h).1 h h r
          have ho' := Loc.regenerate_obj w.cfg s1 h hk'.valid
          refine ⟨rfl, ?_, ?_⟩
          · show ((touch (regenerate w.cfg s1 h).1 h r).obj h).user = _
            rw [k2, ho']; rfl
          · show ((touch (regenerate w.cfg s1 h).1 h r).obj h).data = _
            rw [k3, ho']; rfl
        · rw [href] at href'; cases href'
        · rw [href] at href'; cases href'
  obtain ⟨hres, hu, hd⟩ := hstart
  refine ⟨by rw [hret, hres]; rfl, by rw [hv1, hres], ?_, ?_⟩
  · rw [obj_of_heap_eq hv2]; exact hu
  · rw [obj_of_heap_eq hv2]; exact hd


/-- **C03, `Expired()` is sound for active sessions (ID level).** Under the hypotheses of `c03_active_not_stale`,
`Expired()` evaluated now on the session proper found under `i` reports `false`: it never reports true for a session
that a request would still be given. -/
theorem c03_expired_sound_global {c : Codec} (w : World) (orc : Orc) (hw : WInv c w) {g : G3} (hk : Knows w g) (ho : OrcOK orc)
    {i : ID} {t : Int} (hs : lookup i g.served = some t) (hfresh : w.st.now - truncC w.cfg.codec t < w.cfg.sessionExpiry)
    {s1 : State} {h : Nat} {e1 : List Ev} (hg : cacheGet w.cfg (orcSt w orc) i = (s1, .some h, e1))
    (href : (s1.obj h).ref = none) : expired w.cfg s1.now (s1.obj h) = false := by
  obtain ⟨_, hns, _⟩ := c03_active_not_stale w orc hw hk ho hs hfresh hg
  cases he : expired w.cfg s1.now (s1.obj h) with
  | false => rfl
  | true => exact absurd (Loc.c03_c_expired_sound href he) hns

/-- the object `cache.Get` would hand out for a served id (`More.PresObj`: the cached object, else the decoded stored
record) carries an access time at least as late as the (truncated) time the id was served at. -/
theorem c03_presObj_fresh (w : World) (orc : Orc) {g : G3} (hk : Knows w g)
    {i : ID} {t : Int} (hs : lookup i g.served = some t) {o : Sess} (hobj : More.PresObj (orcSt w orc) i o) :
    truncC w.cfg.codec t ≤ o.lastAccess := by
  have hks0 : KS w.cfg.codec g.served w.cur (orcSt w orc) := hk.ks.congr rfl rfl rfl rfl
  rcases hobj with ⟨x, hl, rfl⟩ | ⟨hn, r, hl, rfl⟩
  · exact hks0.kn i t _ hs (known_hit hl)
  · have : known (orcSt w orc) i = some r.lastAccess := by rw [known_miss hn, hl]; rfl
    exact hks0.kn i t _ hs this

/-- a chain with at least one link ends in its last id. -/
theorem leads_snoc {s : State} : ∀ (l : List ID) (k m cur : ID), More.Leads s k (m :: l) cur → ∃ mids, m :: l = mids ++ [cur]
  | [], k, m, cur, ⟨_, e, _⟩ => ⟨[], by rw [e]; rfl⟩
  | m' :: l, k, m, cur, ⟨_, h2⟩ => by
    obtain ⟨mids, e⟩ := leads_snoc l m m' cur h2
    exact ⟨m :: mids, by rw [e]; rfl⟩

/-- **C03, an active session is kept (ID level, sessions proper AND reference records).** In a world satisfying the
invariants (any boundary of a history as in `knows_all_histories`), let the id `i` have been served at `t`, let less
than `SessionExpiry` have passed since (`t` as the codec keeps it), and let the session be live: from `i` a chain of
reference records of any length `l` — none when `i` is the current id — leads to a session proper (`More.Leads`). Then
a request presenting `i` (any client, by value or from its jar), with the address/User-Agent tests switched off
(`AcceptAll`) and — when the record found under `i` is a reference — the id back-stop `idExpiry + grace` not firing on
it, is answered with `sess`: it is given a session proper (the live session of the chain; `c03_active_kept_id_partial`
says more when `i` is the current id). However often the session and the reference records were evicted, idle-swept,
purged and re-loaded in between. -/
theorem c03_active_kept_id {c : Codec} (le : ID → ID → Bool) (w : World) (orc : Orc) (hw : More.WInv3 c w) {g : G3}
    (hk : Knows w g) (ho : OrcOK orc) (client : String) (spec : CookieSpec) (ip ua : String) (create : Bool)
    {i : ID} {t : Int} (hp : presentedOf w client spec = some (i, 24)) (hs : lookup i g.served = some t)
    (hfresh : w.st.now - truncC w.cfg.codec t < w.cfg.sessionExpiry) (hacc : AcceptAll w.cfg)
    {o : Sess} (hobj : More.PresObj (orcSt w orc) i o) {l : List ID} {cur : ID} (hlive : More.Leads (orcSt w orc) i l cur)
    (hback : o.ref ≠ none →
      ¬ (since w.st.now o.created ≥ w.cfg.idExpiry ∧ since w.st.now o.created - w.cfg.idExpiry ≥ w.cfg.grace)) :
    (w.step le orc (.req client spec ip ua create)).2.ret = some (.str "sess") ∧
    ∃ h, (w.step le orc (.req client spec ip ua create)).1.cur = some h ∧
      ((w.step le orc (.req client spec ip ua create)).1.st.obj h).ref = none := by
  have hsk' : w.skip = false := hk.alive.1
  obtain ⟨hinv, _⟩ := hw.inv.good hsk'
  obtain ⟨hi3, _⟩ := hw.w3.good hsk'
  have hcd := hw.inv.codec
  subst hcd
  have hnf0 : NoFail (orcSt w orc) := ho
  have hinv0 : Inv w.cfg.codec (orcSt w orc) := hinv.congr rfl rfl rfl rfl rfl
  have hi30 : More.I3 (orcSt w orc) := hi3.congr rfl rfl rfl
  have hle := c03_presObj_fresh w orc hk hs hobj
  cases l with
  | nil =>
    -- `i` is the current id: the found object is the session proper
    obtain ⟨e, hR⟩ := hlive
    subst e
    have horef : o.ref = none := More.c05_refAt_unique (More.c05_presObj_refAt hobj) hR
    obtain ⟨h, g1, g2, _⟩ := More.c05_cacheGet_pres w.cfg (orcSt w orc) i o hnf0 hobj
    generalize hg : cacheGet w.cfg (orcSt w orc) i = out at g1 g2
    obtain ⟨s1, res, e1⟩ := out
    simp only at g1 g2
    subst g1
    obtain ⟨r1, r2, _, _⟩ := c03_active_kept_id_partial le w orc hw.inv hk ho client spec ip ua create hp hs hfresh hacc hg
      (by rw [g2]; exact horef)
    refine ⟨r1, h, r2, ?_⟩
    -- the returned object is a session proper
    have hw' := More.step_inv3 le w orc (.req client spec ip ua create) hw ho trivial
    have hsk2 : (w.step le orc (.req client spec ip ua create)).1.skip = false := by
      have := (step_req_fst le w orc client spec ip ua create hsk')
      rw [this, apiCall_fst]
      simp [reqW, hsk', hk.alive.2.1, apiFrz]
    exact (hw'.w3.good hsk2).2 h r2
  | cons m rest =>
    obtain ⟨mids, hm⟩ := leads_snoc rest i m cur hlive
    have horef : o.ref = some m := More.c05_refAt_unique (More.c05_presObj_refAt hobj) hlive.1
    obtain ⟨hck, hlen⟩ := reqOf_presented ip ua create hp
    have hv : validFor w.cfg (orcSt w orc).now o (reqOf w client spec ip ua create) = true := by
      unfold validFor
      rw [ipOK_acceptAll hacc, uaOK_acceptAll hacc]
      simp only [Bool.and_true, Bool.not_eq_true', decide_eq_false_iff_not]
      show ¬ (since w.st.now o.lastAccess ≥ w.cfg.sessionExpiry)
      unfold since; omega
    have hchain : More.Chain (orcSt w orc) i mids cur := by unfold More.Chain; rw [← hm]; exact hlive
    obtain ⟨h, c1, c2, _⟩ := More.c05_chain_resolves w.cfg (orcSt w orc) (reqOf w client spec ip ua create) i cur mids o
      hck hlen hnf0 hinv0 hi30 hobj hv (hback (by rw [horef]; simp)) hchain
    obtain ⟨hv1, hv2⟩ := step_req_view le w orc client spec ip ua create hsk' hk.alive.2.1
    have hret : (w.step le orc (.req client spec ip ua create)).2.ret =
        some (resStr (start w.cfg (orcSt w orc) (reqOf w client spec ip ua create)).2.1).1 := by
      rw [step_req_snd le w orc client spec ip ua create hsk']
      exact apiCall_ret (reqW w orc client spec (reqOf w client spec ip ua create)) orc
        (reqRun w (reqOf w client spec ip ua create)) true
    refine ⟨by rw [hret, c1]; rfl, h, by rw [hv1, c1], ?_⟩
    rw [obj_of_heap_eq hv2]; exact c2

theorem apiCall_cookies3 (w : World) (orc : Orc) (run : State → State × RetV × Option String × List Ev) (b : Bool) :
    (apiCall w orc run b).2.cookies = (run (orcSt w orc)).2.2.2.filter isCookie := by
  unfold apiCall
  show _ = (run { w.st with fails := orc.fails, picks := orc.picks }).2.2.2.filter isCookie
  generalize run { w.st with fails := orc.fails, picks := orc.picks } = r
  obtain ⟨s1, ret, msg, evs⟩ := r
  simp only []

/-- **C03, `Expired()` is sound, at every boundary of every fault-free history.** If `Expired()` evaluated now on the
session proper found under `i` (cached, or as stored) reports `true`, a request presenting `i` at the same instant
(any client, by value or from its jar) is refused: the response carries the deletion cookie, and a session it is
given nevertheless (`createIfNew`) is a brand-new one under the id minted right now. (Only `WInv` is needed: any
configuration, cache enabled or not, after cache loss, … — `Expired()` never reports true for a session that a
request would still be given.) -/
theorem c03_expired_refused {c : Codec} (le : ID → ID → Bool) (w : World) (orc : Orc) (hw : WInv c w) (hsk : w.skip = false)
    (hfz : w.freezeAt = none) (ho : OrcOK orc) (client : String) (spec : CookieSpec) (ip ua : String) (create : Bool)
    {i : ID} (hp : presentedOf w client spec = some (i, 24)) {o : Sess} (hobj : More.PresObj (orcSt w orc) i o)
    (href : o.ref = none) (hexp : expired w.cfg w.st.now o = true) :
    Ev.delCookie ∈ (w.step le orc (.req client spec ip ua create)).2.cookies ∧
    ∀ h, (w.step le orc (.req client spec ip ua create)).1.cur = some h →
      ((w.step le orc (.req client spec ip ua create)).1.st.obj h).id = .gen w.st.nextId := by
  obtain ⟨hinv, _⟩ := hw.good hsk
  have hcd := hw.codec
  subst hcd
  have hnf0 : NoFail (orcSt w orc) := ho
  have hinv0 : Inv w.cfg.codec (orcSt w orc) := hinv.congr rfl rfl rfl rfl rfl
  obtain ⟨hck, hlen⟩ := reqOf_presented ip ua create hp
  obtain ⟨hv1, hv2⟩ := step_req_view le w orc client spec ip ua create hsk hfz
  have hcks : (w.step le orc (.req client spec ip ua create)).2.cookies =
      (start w.cfg (orcSt w orc) (reqOf w client spec ip ua create)).2.2.filter isCookie := by
    rw [step_req_snd le w orc client spec ip ua create hsk]
    exact apiCall_cookies3 (reqW w orc client spec (reqOf w client spec ip ua create)) orc
      (reqRun w (reqOf w client spec ip ua create)) true
  generalize reqOf w client spec ip ua create = r at hck hlen hv1 hv2 hcks
  obtain ⟨h0, g1, g2, g3⟩ := More.c05_cacheGet_pres w.cfg (orcSt w orc) i o hnf0 hobj
  have hstart : Ev.delCookie ∈ (start w.cfg (orcSt w orc) r).2.2 ∧
      ∀ h, (start w.cfg (orcSt w orc) r).2.1 = .sess h → ((start w.cfg (orcSt w orc) r).1.obj h).id = .gen w.st.nextId := by
    rcases start_cases w.cfg (orcSt w orc) r hnf0 hinv0 with ⟨hno, _⟩ | ⟨id, s1, res, e1, hck', _, hg, gd, hcase⟩
    · rcases hno with e | e
      · rw [hck] at e; cases e
      · exact absurd hlen e
    · rw [hck] at hck'
      simp only [Option.some.injEq] at hck'
      subst hck'
      rw [hg] at g1 g2 g3
      simp only at g1 g2 g3
      subst g1
      rcases hcase with ⟨e, _⟩ | ⟨h', e, hk', _, hfound⟩
      · cases e
      · simp only [GetRes.some.injEq] at e
        subst e
        have hvf : validFor w.cfg s1.now (s1.obj h0) r = false := by
          rw [g2, g3]; exact Loc.c03_c_expired_invalid r href hexp
        have hn1 : s1.nextId = w.st.nextId := gd.fr.2.1
        rcases hfound with ⟨_, heq⟩ | ⟨hv', _⟩ | ⟨hv', _⟩ | ⟨_, hv', _⟩ | ⟨_, hv', _⟩
        · rw [heq]
          have hnf1 := delSt_nofail i gd.nofail
          have hi1 := delSt_inv (c := w.cfg.codec) (x := none) i gd.inv
          refine ⟨?_, ?_⟩
          · cases hcr : r.create with
            | false => rw [Loc.createNew_no _ hcr]; simp
            | true =>
              rw [(createNew_delta w.cfg (delSt s1 i) r _ hnf1 hi1 hcr).evs]
              simp
          · intro h hh
            have := (createNew_new w.cfg (delSt s1 i) r _ hnf1 hi1 h hh).1
            rw [this]
            show ID.gen s1.nextId = _
            rw [hn1]
        all_goals (rw [hvf] at hv'; cases hv')
  refine ⟨by rw [hcks]; exact List.mem_filter.2 ⟨hstart.1, rfl⟩, ?_⟩
  intro h hc
  rw [hv1] at hc
  rw [obj_of_heap_eq hv2]
  apply hstart.2 h
  cases hr : (start w.cfg (orcSt w orc) r).2.1 with
  | sess h' => rw [hr] at hc; simp only [Option.some.injEq] at hc; rw [hc]
  | nil => rw [hr] at hc; cases hc
  | err m => rw [hr] at hc; cases hc

/-! ### the client level -/

/-- **the link between a client's jar and the ghost** (between requests): the id in the client's jar has been served
at least as late as the client's last successful `.jar` request. (After such a request the jar holds the id of the
session it returned: either no live cookie was sent and the presented id was served, or the last `Set-Cookie` carries
the returned object's id — `Loc.start_sess_presented`, `Loc.start_sess_last_cookie`; a handler's `RegenerateID`/`LogIn`
sets the cookie of the id it records in `served`.) -/
def Link3 (w : World) (g : G3) : Prop :=
  ∀ c j t, lookup c w.jars = some j → lookup c g.lastOK = some t → ∃ t', lookup j g.served = some t' ∧ t ≤ t'

/-- **C03, an active session is kept (client level; full sessions; `Link3` assumed).** Between requests, a client whose
last request sending its cookie was given a session at `t`, and who sends its cookie again less than `SessionExpiry`
after `t` (as the codec keeps it), is given the session its jar points to, whatever happened to the cache in between.

PARTIAL in this form: (1) `Link3 w g` is a hypothesis here — `Active03Link.lean` proves it over histories whose
requests are closed by `endReq` (`linked_all_histories`, `link3_between_requests`); (2) as in
`c03_active_kept_id_partial`, the jar's id must hold a session proper. The full client-level statement, reference
records included, is `c03_active_kept` in `Active03Link.lean`. -/
theorem c03_active_kept_partial {c : Codec} (le : ID → ID → Bool) (w : World) (orc : Orc) (hw : WInv c w) {g : G3}
    (hk : Knows w g) (hl : Link3 w g) (ho : OrcOK orc) (client : String) (ip ua : String) (create : Bool)
    {j : ID} {t : Int} (hj : lookup client w.jars = some j) (hlast : lookup client g.lastOK = some t)
    (hfresh : w.st.now - truncC w.cfg.codec t < w.cfg.sessionExpiry) (hacc : AcceptAll w.cfg)
    {s1 : State} {h : Nat} {e1 : List Ev} (hg : cacheGet w.cfg (orcSt w orc) j = (s1, .some h, e1))
    (href : (s1.obj h).ref = none) :
    (w.step le orc (.req client .jar ip ua create)).2.ret = some (.str "sess") ∧
    (w.step le orc (.req client .jar ip ua create)).1.cur = some h ∧
    ((w.step le orc (.req client .jar ip ua create)).1.st.obj h).user = (s1.obj h).user ∧
    ((w.step le orc (.req client .jar ip ua create)).1.st.obj h).data = (s1.obj h).data := by
  obtain ⟨t', hs, hle⟩ := hl client j t hj hlast
  have hp : presentedOf w client .jar = some (j, 24) := by
    show (lookup client w.jars).map (fun id => (id, 24)) = _
    rw [hj]; rfl
  have hmono := truncC_mono w.cfg.codec hle
  exact c03_active_kept_id_partial le w orc hw hk ho client .jar ip ua create hp hs (by omega) hacc hg href

/-! ## 7. non-vacuity, and the failing cases without the side conditions -/

/-- one second -/
def sec : Int := 1000000000

/-- `SessionExpiry` = 10 s, `SessionCacheExpiry` = 3 s, a cache of size 1. -/
def c03_cfg (c : Codec) : Cfg := { sessionExpiry := 10 * sec, cacheExpiry := 3 * sec, maxCache := 1, codec := c }

/-- three clients in a cache of size 1 (every request of another client evicts the session; every later request
re-loads it), idle sweeps (`cacheExpiry` = 3 s < the waits), a `PurgeSessions`, an automatic id rotation in the size-1
cache (the rotated session is evicted by the `Set` of its own reference record), changes of the cache size (2,
unlimited), a global `LogOut`, handler writes. Client `a` comes back every 4–6 s (`SessionExpiry` = 10 s) over 19 s
and is served every time with the same session (data `k = 1`); client `b` stays away for 13 s and is refused. -/
def c03_script : List (Orc × Op) :=
  [ ({}, .req "a" .none "1.2.3.4:5" "ua" true),                  -- gen 0
    ({}, .h (.set "k" (.int 1))),
    ({}, .endReq),
    ({}, .req "b" .none "5.6.7.8:9" "ub" true),                  -- gen 1, evicts gen 0
    ({}, .endReq),
    ({}, .wait (4 * sec)),
    ({}, .req "a" .jar "1.2.3.4:5" "ua" false),                  -- 6: gen 0 re-loaded (gen 1 evicted)
    ({}, .endReq),
    ({}, .req "c" .none "9.9.9.9:1" "uc" true),                  -- gen 2, evicts gen 0
    ({}, .endReq),
    ({}, .wait (4 * sec)),
    ({}, .purge),
    ({}, .req "a" .jar "1.2.3.4:5" "ua" false),                  -- 12: re-loaded
    ({}, .h (.get "k")),
    ({}, .endReq),
    ({}, .cfg "idExpiry" 1),
    ({}, .wait (5 * sec)),
    ({}, .req "a" .jar "1.2.3.4:5" "ua" false),                  -- 17: rotated gen 0 ↦ gen 3, evicted in mid-request
    ({}, .h (.set "j" (.int 2))),                                -- written through although un-cached
    ({}, .endReq),
    ({}, .cfg "idExpiry" 3600000000000),
    ({}, .req "b" .jar "5.6.7.8:9" "ub" false),                  -- 21: b has been away for 13 s: refused
    ({}, .endReq),
    ({}, .cfg "maxCache" 2),
    ({}, .wait (6 * sec)),
    ({}, .logoutUser "nobody"),
    ({}, .cfg "maxCache" (-1)),
    ({}, .req "a" .jar "1.2.3.4:5" "ua" false),                  -- 27: still served, 19 s after the first request
    ({}, .h (.get "k")) ]

theorem c03_script_ok (c : Codec) : Hist3OK idLe { cfg := c03_cfg c } c03_script :=
  hist3OK_of_synt idLe c03_script _ false (by decide) (fun _ => rfl) (by cases c <;> decide)

/-- the theorem applies to the script (both codecs), at the end and at every boundary. -/
example (c : Codec) : Knows (runK idLe { cfg := c03_cfg c } {} c03_script).1 (runK idLe { cfg := c03_cfg c } {} c03_script).2 :=
  (knows_all_histories idLe (c03_cfg c) {} (by cases c <;> decide) c03_script (c03_script_ok c)).2
example (c : Codec) (n : Nat) :
    Knows (runK idLe { cfg := c03_cfg c } {} (c03_script.take n)).1 (runK idLe { cfg := c03_cfg c } {} (c03_script.take n)).2 :=
  (knows_every_boundary idLe (c03_cfg c) {} (by cases c <;> decide) c03_script (c03_script_ok c) n).2

/-- Boolean version of `Knows.ks`. -/
def knowsB (w : World) (g : G3) : Bool :=
  g.served.all (fun p =>
    decide (p.2 ≤ w.st.now) &&
    (match known w.st p.1 with
     | some k => decide (truncC w.cfg.codec p.2 ≤ k)
     | none => true)) &&
  (match w.cur with
   | some h => match lookup (w.st.obj h).id g.served with
     | some t => decide (truncC w.cfg.codec t ≤ (w.st.obj h).lastAccess)
     | none => true
   | none => true)

/-- what the last operation of a history returned -/
def lastRet (w : World) (hist : List (Orc × Op)) : Option RetV :=
  match hist.reverse with
  | [] => none
  | (o, op) :: r => ((runHist idLe w r.reverse).step idLe o op).2.ret

/-- the id served less than `SessionExpiry` ago, according to the ghost -/
def freshB (p : World × G3) (i : ID) : Bool :=
  match lookup i p.2.served with
  | some t => decide (p.1.st.now - truncC p.1.cfg.codec t < p.1.cfg.sessionExpiry)
  | none => false

def curData (w : World) : Option (ID × Option Data) := w.cur.map (fun h => ((w.st.obj h).id, (w.st.obj h).data))

#guard hist3OKb idLe { cfg := c03_cfg .gob } c03_script && hist3OKb idLe { cfg := c03_cfg .json } c03_script
#guard [Codec.gob, Codec.json].all (fun c => (List.range 30).all (fun n =>
  knowsB (runK idLe { cfg := c03_cfg c } {} (c03_script.take n)).1 (runK idLe { cfg := c03_cfg c } {} (c03_script.take n)).2))
-- `a` is served every time, with the same session; `b` is refused
#guard [Codec.gob, Codec.json].all (fun c => [7, 13, 18, 28].all (fun n =>
  lastRet { cfg := c03_cfg c } (c03_script.take n) == some (.str "sess")))
#guard [Codec.gob, Codec.json].all (fun c => lastRet { cfg := c03_cfg c } (c03_script.take 22) == some (.str "nil"))
#guard curData (runHist idLe { cfg := c03_cfg .gob } c03_script) == some (.gen 3, some [("j", .int 2), ("k", .int 1)])
#guard curData (runHist idLe { cfg := c03_cfg .json } c03_script) == some (.gen 3, some [("j", .flt 2), ("k", .flt 1)])
-- the cache really is of size 1 and the session really leaves it: after step 17 the request's session is NOT cached
#guard (List.range 24).all (fun n => (runHist idLe { cfg := c03_cfg .gob } (c03_script.take n)).st.cache.length ≤ 1)
#guard (runHist idLe { cfg := c03_cfg .gob } (c03_script.take 18)).cur == some 4 &&
  (runHist idLe { cfg := c03_cfg .gob } (c03_script.take 18)).st.cache.map (·.1) == [.gen 0]
-- total time 19 s > SessionExpiry = 10 s, every interval of `a` shorter
#guard (runK idLe { cfg := c03_cfg .gob } {} c03_script).1.st.now > 19 * sec


/-- Boolean version of `Link3`. -/
def linkB (w : World) (g : G3) : Bool :=
  w.jars.all (fun p =>
    match lookup p.1 g.lastOK with
    | none => true
    | some t =>
      match lookup p.2 g.served with
      | none => false
      | some t' => decide (t ≤ t'))

-- `Link3` holds at every boundary between requests of the script (both codecs)
#guard [Codec.gob, Codec.json].all (fun c => (List.range 30).all (fun n =>
  (runK idLe { cfg := c03_cfg c } {} (c03_script.take n)).1.inReq ||
  linkB (runK idLe { cfg := c03_cfg c } {} (c03_script.take n)).1 (runK idLe { cfg := c03_cfg c } {} (c03_script.take n)).2))
#guard (runK idLe { cfg := c03_cfg .gob } {} (c03_script.take 27)).2.lastOK == [("a", 13 * sec + 8)] &&
  (runK idLe { cfg := c03_cfg .gob } {} (c03_script.take 27)).1.jars == [("a", .gen 3), ("c", .gen 2)] &&
  lookup (.gen 3) (runK idLe { cfg := c03_cfg .gob } {} (c03_script.take 27)).2.served == some (13 * sec + 8)

/-- the reference-record case of `c03_active_kept_id`: `gen 0` is served at time 0 and rotated (`gen 0 ↦ gen 1`) two
seconds later; other clients' traffic evicts everything from the size-1 cache; three seconds later a stranger presents
the replaced id `gen 0` by value (same address and User-Agent, the tests are on in `c03_cfg`) — served less than
`SessionExpiry` ago — and is given the live session `gen 1`. -/
def c03_ref_script : List (Orc × Op) :=
  [ ({}, .req "a" .none "1.2.3.4:5" "ua" true), ({}, .h (.set "k" (.int 1))), ({}, .endReq),    -- gen 0
    ({}, .cfg "idExpiry" 1), ({}, .wait (2 * sec)),
    ({}, .req "a" .jar "1.2.3.4:5" "ua" false), ({}, .endReq),                                   -- gen 0 ↦ gen 1
    ({}, .cfg "idExpiry" 3600000000000),
    ({}, .req "b" .none "5.6.7.8:9" "ub" true), ({}, .endReq),                                   -- gen 2, evicts
    ({}, .wait (3 * sec)), ({}, .purge),
    ({}, .req "z" (.val (.gen 0) 24) "1.2.3.4:5" "ua" false) ]                                   -- 12: the replaced id

#guard [Codec.gob, Codec.json].all (fun c => hist3OKb idLe { cfg := c03_cfg c } c03_ref_script)
#guard [Codec.gob, Codec.json].all (fun c =>
  freshB (runK idLe { cfg := c03_cfg c } {} (c03_ref_script.take 12)) (.gen 0) &&
  lastRet { cfg := c03_cfg c } c03_ref_script == some (.str "sess") &&
  (curData (runHist idLe { cfg := c03_cfg c } c03_ref_script)).map (·.1) == some (.gen 1))

/-! ### every named hypothesis is needed -/

/-- the common tail: 6 s later (`SessionExpiry` = 10 s) client `a` sends its cookie again. -/
def c03_comeBack : List (Orc × Op) := [ ({}, .wait (6 * sec)), ({}, .req "a" .jar "1.2.3.4:5" "ua" false) ]

/-- **cache enabled (`maxCache ≠ 0`) is needed**: with the cache switched off the access time `Start` sets on the
loaded object is never handed to the store; the session, accessed every 6 s, is refused at the second come-back
(the stored access time is still that of its creation, 12 s ago). -/
def c03_nocache_script : List (Orc × Op) :=
  ([ ({}, .cfg "maxCache" 0),
    ({}, .req "a" .none "1.2.3.4:5" "ua" true), ({}, .endReq),
    ({}, .wait (6 * sec)), ({}, .req "a" .jar "1.2.3.4:5" "ua" false), ({}, .endReq) ] : List (Orc × Op)) ++ c03_comeBack

#guard histOKb idLe { cfg := c03_cfg .gob } c03_nocache_script && !hist3OKb idLe { cfg := c03_cfg .gob } c03_nocache_script
#guard lastRet { cfg := c03_cfg .gob } (c03_nocache_script.take 5) == some (.str "sess")
#guard freshB (runK idLe { cfg := c03_cfg .gob } {} (c03_nocache_script.take 7)) (.gen 0)     -- served 6 s ago …
#guard lastRet { cfg := c03_cfg .gob } c03_nocache_script == some (.str "nil")                -- … and refused
#guard !knowsB (runK idLe { cfg := c03_cfg .gob } {} (c03_nocache_script.take 5)).1
  (runK idLe { cfg := c03_cfg .gob } {} (c03_nocache_script.take 5)).2

/-- **no cache loss is needed** (`dropcache`): the access time of the request at 6 s lives in the cached object only
(`Start` does not write through); dropping the cache loses it, and the come-back at 12 s is refused. -/
def c03_dropcache_script : List (Orc × Op) :=
  ([ ({}, .req "a" .none "1.2.3.4:5" "ua" true), ({}, .endReq),
    ({}, .wait (6 * sec)), ({}, .req "a" .jar "1.2.3.4:5" "ua" false), ({}, .endReq),
    ({}, .dropcache) ] : List (Orc × Op)) ++ c03_comeBack

#guard histOKb idLe { cfg := c03_cfg .gob } c03_dropcache_script && !hist3OKb idLe { cfg := c03_cfg .gob } c03_dropcache_script
#guard freshB (runK idLe { cfg := c03_cfg .gob } {} (c03_dropcache_script.take 7)) (.gen 0)
#guard lastRet { cfg := c03_cfg .gob } c03_dropcache_script == some (.str "nil")
#guard knowsB (runK idLe { cfg := c03_cfg .gob } {} (c03_dropcache_script.take 5)).1
    (runK idLe { cfg := c03_cfg .gob } {} (c03_dropcache_script.take 5)).2 &&
  !knowsB (runK idLe { cfg := c03_cfg .gob } {} (c03_dropcache_script.take 6)).1
    (runK idLe { cfg := c03_cfg .gob } {} (c03_dropcache_script.take 6)).2

/-- … the same with a process `crash` … -/
def c03_crash_script : List (Orc × Op) :=
  ([ ({}, .req "a" .none "1.2.3.4:5" "ua" true), ({}, .endReq),
    ({}, .wait (6 * sec)), ({}, .req "a" .jar "1.2.3.4:5" "ua" false), ({}, .endReq),
    ({}, .crash) ] : List (Orc × Op)) ++ c03_comeBack

#guard histOKb idLe { cfg := c03_cfg .gob } c03_crash_script && !hist3OKb idLe { cfg := c03_cfg .gob } c03_crash_script
#guard freshB (runK idLe { cfg := c03_cfg .gob } {} (c03_crash_script.take 7)) (.gen 0)
#guard lastRet { cfg := c03_cfg .gob } c03_crash_script == some (.str "nil")

/-- … and with a crash point inside an operation (the process dies inside `PurgeSessions` before its first save). -/
def c03_crashinside_script : List (Orc × Op) :=
  ([ ({}, .req "a" .none "1.2.3.4:5" "ua" true), ({}, .endReq),
    ({}, .wait (6 * sec)), ({}, .req "a" .jar "1.2.3.4:5" "ua" false), ({}, .endReq),
    ({}, .crashinside 0), ({}, .purge) ] : List (Orc × Op)) ++ c03_comeBack

#guard histOKb idLe { cfg := c03_cfg .gob } c03_crashinside_script && !hist3OKb idLe { cfg := c03_cfg .gob } c03_crashinside_script
#guard freshB (runK idLe { cfg := c03_cfg .gob } {} (c03_crashinside_script.take 8)) (.gen 0)
#guard lastRet { cfg := c03_cfg .gob } c03_crashinside_script == some (.str "nil")

/-- **time must not run backwards** (`.wait d` with `0 ≤ d`): the session is served at 10 s; the clock is set back to
2 s, where a global `LogOut` stamps the session's object with that earlier time; at 9 s — "−1 s after" it was served —
the session is refused, 7 s (≥ `SessionExpiry` = 5 s) having passed since the stamp. -/
def c03_backwards_script : List (Orc × Op) :=
  [ ({}, .cfg "sessionExpiry" (5 * sec)),
    ({}, .wait (10 * sec)),
    ({}, .req "a" .none "1.2.3.4:5" "ua" true), ({}, .h (.login "u" false)), ({}, .endReq),
    ({}, .wait (-8 * sec)),
    ({}, .logoutUser "u"),
    ({}, .wait (7 * sec)),
    ({}, .req "a" .jar "1.2.3.4:5" "ua" false) ]

#guard histOKb idLe { cfg := c03_cfg .gob } c03_backwards_script && !hist3OKb idLe { cfg := c03_cfg .gob } c03_backwards_script
#guard freshB (runK idLe { cfg := c03_cfg .gob } {} (c03_backwards_script.take 8)) (.gen 1)
#guard lastRet { cfg := c03_cfg .gob } c03_backwards_script == some (.str "nil")
#guard !knowsB (runK idLe { cfg := c03_cfg .gob } {} (c03_backwards_script.take 6)).1
  (runK idLe { cfg := c03_cfg .gob } {} (c03_backwards_script.take 6)).2

end Sx.Glob
